/-
C03: model of the basic/extended bookkeeping of *regular file* inodes in `lib/sqfs/src/inode.c`
(`sqfs_inode_make_extended`, `sqfs_inode_make_basic`, `sqfs_inode_set_file_size`, `sqfs_inode_set_file_block_start`,
`sqfs_inode_set_frag_location`, `sqfs_inode_set_xattr_index`) and of the one place outside it that edits such an inode
while data is packed (`process_completed_block`, backend.c:88-91: `make_extended; sparse += size`).

The basic variant (`sqfs_inode_file_t`) has four u32 fields, the extended one (`sqfs_inode_file_ext_t`) three u64 and
four u32.  Arguments are taken at their C width by the caller (`size`, `location` < 2^64, indices < 2^32); every
narrowing store the C code performs is written as `% 2^32` here, and `Sqfs.C03.file_inode_values_exact` shows that
none of them ever changes a value — which is exactly what the thresholds in inode.c are for.
-/
namespace Sqfs.C03Inode

def noXattr : Nat := 0xFFFFFFFF
def u32max : Nat := 0xFFFFFFFF

inductive FileInode where
  | basic (start fragIdx fragOff size : Nat)
  | ext (start size sparse nlink fragIdx fragOff xattr : Nat)
  deriving Repr, DecidableEq

/-- a fresh `calloc`ed inode of type SQFS_INODE_FILE -/
def fresh : FileInode := .basic 0 0 0 0

/-- `sqfs_inode_make_extended`, case SQFS_INODE_FILE (inode.c:133-145) -/
def makeExtended : FileInode → FileInode
  | .basic st fi fo sz => .ext st sz 0 1 fi fo noXattr
  | i => i

/-- `sqfs_inode_make_basic`, case SQFS_INODE_EXT_FILE (inode.c:176-179, :207-226) -/
def makeBasic : FileInode → FileInode
  | .ext st sz sp nl fi fo x =>
    if x ≠ noXattr then .ext st sz sp nl fi fo x                     -- :180-181
    else if st > u32max then .ext st sz sp nl fi fo x                -- :215
    else if sz > u32max then .ext st sz sp nl fi fo x                -- :217
    else if sp > 0 then .ext st sz sp nl fi fo x                     -- :219
    else if nl > 1 then .ext st sz sp nl fi fo x                     -- :221
    else .basic (st % 4294967296) fi fo (sz % 4294967296)            -- :224 (u64 → u32 stores)
  | i => i

/-- `sqfs_inode_set_file_size` (inode.c:240-258) -/
def setFileSize (i : FileInode) (size : Nat) : FileInode :=
  match i with
  | .ext st _ sp nl fi fo x =>
    if size < u32max then makeBasic (.ext st size sp nl fi fo x) else .ext st size sp nl fi fo x
  | .basic st fi fo sz =>
    if size > u32max then
      (match makeExtended (.basic st fi fo sz) with
       | .ext st _ sp nl fi fo x => .ext st size sp nl fi fo x
       | j => j)
    else .basic st fi fo (size % 4294967296)

/-- `sqfs_inode_set_file_block_start` (inode.c:277-296) -/
def setBlockStart (i : FileInode) (loc : Nat) : FileInode :=
  match i with
  | .ext _ sz sp nl fi fo x =>
    if loc < u32max then makeBasic (.ext loc sz sp nl fi fo x) else .ext loc sz sp nl fi fo x
  | .basic st fi fo sz =>
    if loc > u32max then
      (match makeExtended (.basic st fi fo sz) with
       | .ext _ sz sp nl fi fo x => .ext loc sz sp nl fi fo x
       | j => j)
    else .basic (loc % 4294967296) fi fo sz

/-- `sqfs_inode_set_frag_location` (inode.c:260-275) -/
def setFragLocation (i : FileInode) (idx off : Nat) : FileInode :=
  match i with
  | .ext st sz sp nl _ _ x => .ext st sz sp nl idx off x
  | .basic st _ _ sz => .basic st idx off sz

/-- `sqfs_inode_set_xattr_index` (inode.c:75-116) -/
def setXattr (i : FileInode) (x : Nat) : FileInode :=
  match (if x ≠ noXattr then makeExtended i else i) with
  | .ext st sz sp nl fi fo _ => .ext st sz sp nl fi fo x
  | j => j

/-- `process_completed_block` for a sparse block (backend.c:89-91): `make_extended; data.file_ext.sparse += size` -/
def addSparse (i : FileInode) (n : Nat) : FileInode :=
  match makeExtended i with
  | .ext st sz sp nl fi fo x => .ext st sz ((sp + n) % 18446744073709551616) nl fi fo x
  | j => j

/-- what a reader of the written inode gets: (start, size, sparse, nlink, fragment index, fragment offset, xattr index);
a basic inode *means* sparse 0, one link, no xattr -/
def view : FileInode → Nat × Nat × Nat × Nat × Nat × Nat × Nat
  | .basic st fi fo sz => (st, sz, 0, 1, fi, fo, noXattr)
  | .ext st sz sp nl fi fo x => (st, sz, sp, nl, fi, fo, x)

end Sqfs.C03Inode
