/-
Model of `lib/sqfs/src/meta_writer.c` (`sqfs_meta_writer_append`, `sqfs_meta_writer_flush`,
`sqfs_meta_writer_get_position`), of the block-processor worker `process_block`
(`lib/sqfs/src/block_processor/block_processor.c`) together with the size word built in
`process_completed_block` (`backend.c`), and of `sqfs_write_table` (`write_table.c`).

The compressor is a parameter: `Codec` is `do_block` seen as a function from the input block to
`none` (returned 0: "could not shrink") or `some c` (returned `c.length`, wrote `c`).  Negative
returns (errors) abort the writer and are not modelled.  The contract every backend is meant to
satisfy (`include/sqfs/compressor.h`: "returns 0 if the output buffer was too small [or the result
is not smaller]") is `Codec.Shrinks`; theorems that need it take it as a hypothesis, and the check
probes the real backends against it on every run.
-/
import Sqfs.Generated.Consts
namespace Sqfs.MetaWriter
open Sqfs.Consts

abbrev Bytes := List UInt8

abbrev Codec := Bytes → Option Bytes

/-- the `do_block` contract: a positive return value is strictly smaller than the input size -/
def Codec.Shrinks (cmp : Codec) : Prop := ∀ x c, cmp x = some c → c.length < x.length

/-- one block handed to `write_block` / appended to the in-memory list -/
structure Block where
  compressed : Bool        -- header MSB clear
  stored : Bytes           -- the bytes after the 2-byte header
  raw : Bytes              -- the chunk it was made from (what a reader unpacks)
  deriving Repr, DecidableEq

/-- the 16-bit header `sqfs_meta_writer_flush` puts in front (meta_writer.c:121-128) -/
def Block.header (b : Block) : Nat :=
  if b.compressed then b.stored.length % 65536 else (b.raw.length ||| 0x8000) % 65536

structure St where
  cur : Bytes := []          -- m->data[0 .. m->offset)
  blockOffset : Nat := 0     -- m->block_offset
  out : List Block := []     -- blocks written so far, oldest first
  deriving Repr

/-- `sqfs_meta_writer_flush` (meta_writer.c:100-150) -/
def flush (cmp : Codec) (st : St) : St :=
  if st.cur = [] then st                                     -- :107 offset == 0
  else
    match cmp st.cur with
    | some c =>
      if c.length > 0 then                                   -- :121 ret > 0
        { cur := [], blockOffset := st.blockOffset + c.length + 2, out := st.out ++ [⟨true, c, st.cur⟩] }
      else
        { cur := [], blockOffset := st.blockOffset + st.cur.length + 2, out := st.out ++ [⟨false, st.cur, st.cur⟩] }
    | none =>                                                -- :124 stored raw, flag 0x8000
      { cur := [], blockOffset := st.blockOffset + st.cur.length + 2, out := st.out ++ [⟨false, st.cur, st.cur⟩] }

/-- the `while (size != 0)` loop of `sqfs_meta_writer_append` (meta_writer.c:158-175); fuel ≥ size + 1 -/
def appendGo (cmp : Codec) : Nat → St → Bytes → St
  | 0, st, _ => st
  | f + 1, st, data =>
    if data = [] then st
    else
      let st := if st.cur.length = metaBlockSize then flush cmp st else st          -- :161 diff == 0
      let diff := min (metaBlockSize - st.cur.length) data.length                    -- :159, :168
      appendGo cmp f { st with cur := st.cur ++ data.take diff } (data.drop diff)

/-- `sqfs_meta_writer_append` -/
def append (cmp : Codec) (st : St) (data : Bytes) : St :=
  let st := appendGo cmp (data.length + 1) st data
  if st.cur.length = metaBlockSize then flush cmp st else st                          -- :177

/-- `sqfs_meta_writer_get_position` -/
def position (st : St) : Nat × Nat := (st.blockOffset, st.cur.length)

/-- a whole table: appends, then the final `sqfs_meta_writer_flush` -/
def run (cmp : Codec) (chunks : List Bytes) : St :=
  flush cmp (chunks.foldl (append cmp) {})

/-- the uncompressed stream a reader sees -/
def stream (st : St) : Bytes := (st.out.map (·.raw)).flatten ++ st.cur

/-! ### data blocks: `process_block` + size word -/

structure DataBlock where
  flags : Nat
  data : Bytes
  deriving Repr, DecidableEq

def hasFlag (flags f : Nat) : Bool := flags &&& f != 0

/-- `process_block` (block_processor.c:10-48); the checksum is not modelled.  Since /repo 47f7b3d a block that
carries `SQFS_BLK_FRAGMENT_BLOCK` is exempt from the sparse test just like one that carries `IGNORE_SPARSE`. -/
def processBlock (cmp : Codec) (b : DataBlock) : DataBlock :=
  if b.data = [] then b                                                                  -- :16
  else if !hasFlag b.flags (blkIgnoreSparse ||| blkFragmentBlock) && b.data.all (· == 0) then   -- :21-23
    { b with flags := b.flags ||| blkIsSparse }
  else if hasFlag b.flags (blkIsFragment ||| blkDontCompress) then b                    -- :34
  else
    match cmp b.data with
    | some c => if c.length > 0 then ⟨b.flags ||| blkIsCompressed, c⟩ else b             -- :42-46
    | none => b

/-- the size word stored in the inode's block list / the fragment table (`process_completed_block`,
backend.c:99-101; the block writer builds the same word, block_writer.c:139-141): the stored size with bit 24
set when the block is *not* compressed -/
def sizeWord (b : DataBlock) : Nat :=
  if hasFlag b.flags blkIsCompressed then b.data.length else b.data.length ||| (1 <<< 24)

/-- what `process_completed_block` (backend.c:55-128) records for a finished block, as (word stored at the block's
index in the inode's block list, word stored in the fragment table), `none` = untouched: a sparse block puts 0 into
the inode's list (:88-97); a non-empty block gets `sizeWord` — in the fragment table if it carries
`SQFS_BLK_FRAGMENT_BLOCK`, else in the inode (:98-121); an empty block records nothing -/
def completedWords (b : DataBlock) : Option Nat × Option Nat :=
  if hasFlag b.flags blkIsSparse then (some 0, none)
  else if b.data.length ≠ 0 then
    (if hasFlag b.flags blkFragmentBlock then (none, some (sizeWord b)) else (some (sizeWord b), none))
  else (none, none)

/-! ### `sqfs_write_table` -/

/-- bytes a list of metadata blocks occupies on disk (2-byte header + stored bytes each, meta_writer.c:60) -/
def outBytes (bs : List Block) : Nat := (bs.map (fun b => b.stored.length + 2)).sum

/-- chunks of at most 8 KiB, as the `while (table_size > 0)` loop of write_table.c:44-57 hands them over -/
def chunksOf : Nat → Bytes → List Bytes
  | 0, _ => []
  | f + 1, data => if data = [] then [] else data.take metaBlockSize :: chunksOf f (data.drop metaBlockSize)

/-- the loop of write_table.c:44-57: `locations[blkidx++] = file->get_size(file)` *before* the chunk is appended.
`base` = size of the file when `sqfs_write_table` is entered; the meta writer is created with flags 0, so every
flushed block is in the file and `get_size` = `base + outBytes st.out`. -/
def writeTableGo (cmp : Codec) (base : Nat) : List Bytes → St → List Nat → St × List Nat
  | [], st, locs => (st, locs)
  | c :: cs, st, locs => writeTableGo cmp base cs (append cmp st c) (locs ++ [base + outBytes st.out])

structure Table where
  blocks : List Block       -- the metadata blocks written at `base`
  locs : List Nat           -- the u64 location list written at `start`
  start : Nat               -- `*start`: where the location list begins (what the superblock records)
  deriving Repr

/-- the blocks and (relative) locations `sqfs_write_table` produces for a table — the first, coarser model (locations
recomputed from the finished block list), kept for its users (C01 `Enc*`, C17 `C17Export`);
`Sqfs.MetaWriter.writeTable_eq_writeTableM` shows it is `writeTableM` at base 0 -/
def writeTable (cmp : Codec) (data : Bytes) : List Block × List Nat :=
  let st := run cmp (chunksOf (data.length + 1) data)
  let locs := (st.out.foldl (fun (acc : List Nat × Nat) b => (acc.1 ++ [acc.2], acc.2 + 2 + b.stored.length)) ([], 0)).1
  (st.out, locs)

/-- `sqfs_write_table` (write_table.c:20-81) for a table of `data.length` bytes written to a file of `base` bytes,
with the locations taken where the C code takes them (`get_size` before every chunk) -/
def writeTableM (cmp : Codec) (base : Nat) (data : Bytes) : Table :=
  let r := writeTableGo cmp base (chunksOf (data.length + 1) data) {} []
  let st := flush cmp r.1                                              -- :59
  { blocks := st.out, locs := r.2, start := base + outBytes st.out }  -- :64

/-! ### `SQFS_META_WRITER_KEEP_IN_MEMORY` + `sqfs_meta_write_write_to_file`

The directory table is written through a meta writer created with `KEEP_IN_MEMORY` (init.c).  `FSt` is the writer **with
its flag word and both sinks**: `sqfs_meta_writer_flush` tests the flag and either links the finished block into
`m->list` or hands it to `write_block` (meta_writer.c:134-144) — two branches of one function, written out here as in
the C code, not derived from `St`.  `sqfs_meta_write_write_to_file` (meta_writer.c:197-215) writes the list to the file
in order and empties it.  That the two branches yield the same blocks, offsets and positions as the flag-less machine
`St` above is a theorem (`Sqfs.C03.keep_in_memory_same_blocks`), not a definition. -/

/-- `sqfs_meta_writer_t` with `flags`, the in-memory list and the file -/
structure FSt where
  flags : Nat := 0             -- m->flags
  cur : Bytes := []            -- m->data[0 .. m->offset)
  blockOffset : Nat := 0       -- m->block_offset
  list : List Block := []      -- m->list … m->list_end, oldest first
  file : List Block := []      -- what `write_block` has appended to the file so far
  deriving Repr

/-- `sqfs_meta_writer_flush` (meta_writer.c:100-150) with the `KEEP_IN_MEMORY` branch -/
def FSt.flush (cmp : Codec) (w : FSt) : FSt :=
  if w.cur = [] then w                                                          -- :107
  else
    let outblk : Block :=
      match cmp w.cur with
      | some c => if c.length > 0 then ⟨true, c, w.cur⟩ else ⟨false, w.cur, w.cur⟩    -- :121-128
      | none => ⟨false, w.cur, w.cur⟩
    let count := outblk.stored.length + 2
    if hasFlag w.flags metaWriterKeepInMemory then                              -- :134
      { w with cur := [], blockOffset := w.blockOffset + count, list := w.list ++ [outblk] }
    else                                                                        -- :141 write_block
      { w with cur := [], blockOffset := w.blockOffset + count, file := w.file ++ [outblk] }

/-- the loop of `sqfs_meta_writer_append` on the flagged writer -/
def FSt.appendGo (cmp : Codec) : Nat → FSt → Bytes → FSt
  | 0, w, _ => w
  | f + 1, w, data =>
    if data = [] then w
    else
      let w := if w.cur.length = metaBlockSize then w.flush cmp else w
      let diff := min (metaBlockSize - w.cur.length) data.length
      FSt.appendGo cmp f { w with cur := w.cur ++ data.take diff } (data.drop diff)

/-- `sqfs_meta_writer_append` on the flagged writer -/
def FSt.append (cmp : Codec) (w : FSt) (data : Bytes) : FSt :=
  let w := FSt.appendGo cmp (data.length + 1) w data
  if w.cur.length = metaBlockSize then w.flush cmp else w

/-- `sqfs_meta_writer_get_position` -/
def FSt.position (w : FSt) : Nat × Nat := (w.blockOffset, w.cur.length)

/-- `sqfs_meta_write_write_to_file`: every listed block goes through `write_block`, in list order; the list is emptied -/
def FSt.writeToFile (w : FSt) : FSt := { w with list := [], file := w.file ++ w.list }

/-- a flagged writer that continues from a state of the flag-less machine (what has been flushed so far sits in the
sink the flag selects) -/
def FSt.ofSt (flags : Nat) (st : St) : FSt :=
  if hasFlag flags metaWriterKeepInMemory then { flags := flags, cur := st.cur, blockOffset := st.blockOffset, list := st.out }
  else { flags := flags, cur := st.cur, blockOffset := st.blockOffset, file := st.out }

end Sqfs.MetaWriter
