/-
Executable model of the directory-scan path of `gensquashfs` (property C11):

  lib/sqfs/src/io/dir_unix.c          native iterator           → `strcmpC`, `compareNames`, `collectNames`, `qsortBy`,
                                                                   `readNames`, `nativeNode`/`nativeList`, `nativeEntry`
  lib/sqfs/src/io/dir_rec.c           recursive (DFS) iterator  → `walkNode` / `walkList` (the explicit stack of open
                                                                   directory iterators is the call stack of `walk*`)
  lib/common/src/dir_tree_iterator.c  filters / prefix / defaults → `shouldSkip`, `applyChanges`, `treeIterStep`
  lib/sqfs/src/io/dir_hl.c            hard-link filter (wrapped around the tree iterator) → `hlNext`
  bin/gensquashfs/src/glob.c          `scan_directory`          → `scanStep`
  lib/fstree/src/fstree.c             `insert_sorted`, `mknode`, `fstree_get_node_by_path`, `fstree_add_generic`
  lib/fstree/src/hardlink.c           `resolve_link`, `fstree_resolve_hard_links` (only as far as the scan needs it;
                                       property C07 owns the full model in `Sqfs/Model/HardLink.lean`)
  lib/fstree/src/post_process.c       `alloc_inode_num_dfs`, `map_inodes_dfs`, `reorder_hard_links`, `file_list_dfs`
  bin/gensquashfs/src/sort_by_file.c  `fstree_sort_files` (matching loop, `sort_file_list`) → `applySortRule`, `sortFileList`
  bin/gensquashfs/src/mkfs.c          order in which `pack_files` hands the files to the block processor → `packOrder`

Modelling decisions (all exercised by the correspondence check, tools/checks/c11.py):
  * a path is the list of its components; `expand_path` (string concatenation with '/') and the splitting loop of
    `fstree_get_node_by_path` are the identity on component lists (readdir names are non-empty and contain no '/');
  * nodes are identified by their path; the `inodes` array is a list of paths, a node's inode number is its index + 1
    (the C code keeps `inodes[k]->inode_num == k + 1` through `map_inodes_dfs` and `reorder_hard_links`);
  * an error anywhere aborts the scan (`scan_directory` returns -1, the tool exits with failure);
  * `fnmatch` is a parameter;
  * `qsort` is the C library's: ISO C only promises a permutation ordered by the comparison function.  The model uses
    insertion sort with the code's comparison function; `Sqfs.C11.qsort_any_conforming` shows that on pairwise different
    names every conforming `qsort` returns exactly this list;
  * host errors (`readdir`/`fstatat`/`openat` failing, out of memory) are outside the statement and not modelled.
Core Lean only; structural recursion or explicit fuel only.
-/
import Sqfs.Generated.Consts

namespace Sqfs.FsTree
open Sqfs.Consts

abbrev Name := List UInt8
abbrev Path := List Name

/-- `strcmp(a, b) < 0` for NUL-free strings: lexicographic on unsigned bytes. -/
def nameLt : Name → Name → Bool
  | [], [] => false
  | [], _ :: _ => true
  | _ :: _, [] => false
  | a :: as, b :: bs => if a.toNat < b.toNat then true else if a.toNat = b.toNat then nameLt as bs else false

/-- `strcmp(a, b)`: the difference of the first pair of differing bytes, both taken as `unsigned char`; when one
string is a proper prefix of the other the terminating NUL of the shorter one decides.  ISO C fixes only the sign and
every use below looks at the sign only; for the end-of-string cases the model returns ∓1 (for NUL-free strings — the
only ones a C string can hold — that is the sign of `0 - b` resp. `a - 0`). -/
def strcmpC : Name → Name → Int
  | [], [] => 0
  | [], _ :: _ => -1
  | _ :: _, [] => 1
  | a :: as, b :: bs => if a = b then strcmpC as bs else (a.toNat : Int) - (b.toNat : Int)

/-! ## host side: one enumeration of a directory forest -/

/-- what `fstatat(AT_SYMLINK_NOFOLLOW)` reports -/
structure Stat where
  mode : Nat
  uid : Nat
  gid : Nat
  mtime : Int
  dev : Nat
  ino : Nat
  rdev : Nat
  deriving DecidableEq, Repr, Inhabited

/-- A directory entry of the host together with (for directories) the entries below it **in the order readdir
serves them**.  Whether the children are visited is decided by `st.mode` exactly as in the C code. `target` is what
`readlinkat` returns (symlinks only). -/
inductive HNode where
  | mk (name : Name) (st : Stat) (target : List UInt8) (children : List HNode)
  deriving Repr, Inhabited

def HNode.name : HNode → Name | .mk n _ _ _ => n
def HNode.st : HNode → Stat | .mk _ s _ _ => s
def HNode.target : HNode → List UInt8 | .mk _ _ t _ => t
def HNode.children : HNode → List HNode | .mk _ _ _ c => c

def isType (mode ty : Nat) : Bool := (mode &&& sIFMT) == ty
def isDirMode (mode : Nat) : Bool := isType mode sIFDIR
def hasFlag (flags f : Nat) : Bool := (flags &&& f) != 0

/-! ### sorted insertion (shared by `insert_sorted` of fstree.c and the model of `qsort`) -/

/-- the loop of `insert_sorted` (fstree.c), generic in the element type: skip while `strcmp(it->name, x->name) < 0`,
link `x` in front of the first element that is not smaller -/
def insertBy {α : Type} (key : α → Name) (x : α) : List α → List α
  | [] => [x]
  | y :: ys => if nameLt (key y) (key x) then y :: insertBy key x ys else x :: y :: ys

/-! ### the native iterator (dir_unix.c): `read_names` collects every name `readdir` returns and sorts them -/

/-- `compare_names`: `strcmp(*(const char *const *)lhs, *(const char *const *)rhs)` -/
def compareNames (a b : HNode) : Int := strcmpC a.name b.name

/-- the `for (;;)` loop of `read_names`: every entry `readdir` returns — "." and ".." included — is appended
(`it->names[it->count++] = name`; the doubling `realloc` moves the array but not its content).
`acc` = `it->names[0 .. it->count)`. -/
def collectNames : List HNode → List HNode → List HNode
  | [], acc => acc
  | e :: rest, acc => collectNames rest (acc ++ [e])

/-- insertion step of the model of `qsort`: `x` goes in front of the first element `y` with `cmp(y, x) >= 0` -/
def insertCmp {α : Type} (cmp : α → α → Int) (x : α) : List α → List α
  | [] => [x]
  | y :: ys => if cmp y x < 0 then y :: insertCmp cmp x ys else x :: y :: ys

/-- `qsort(base, n, size, cmp)` -/
def qsortBy {α : Type} (cmp : α → α → Int) : List α → List α
  | [] => []
  | x :: xs => insertCmp cmp x (qsortBy cmp xs)

/-- `read_names`: collect, then `if (it->count > 1) qsort(it->names, it->count, …, compare_names)`.
`sorted = false` is the iterator as it was before /repo 7ff9210 (entries served in `readdir` order): kept so that the
check can name a reverted repair (`D16`) and for the witness in `Sqfs/Witness/C11.lean`. -/
def readNames (sorted : Bool) (stream : List HNode) : List HNode :=
  let names := collectNames stream []
  if sorted && decide (names.length > 1) then qsortBy compareNames names else names

mutual
/-- what the native iterators hand to the recursive iterator: `dir_rec.c` opens a native iterator for every
sub-directory it descends into (`open_subdir` → `create_iterator`), and the first `next` on it runs `read_names` on
that directory's `readdir` stream.  `read_names` depends on nothing but that stream, so it is applied here to every
directory of the forest up front; the walk below then consumes `children` in the order served. -/
def nativeNode (sorted : Bool) : HNode → HNode
  | .mk n s t c => .mk n s t (readNames sorted (nativeList sorted c))
def nativeList (sorted : Bool) : List HNode → List HNode
  | [] => []
  | x :: xs => nativeNode sorted x :: nativeList sorted xs
end

/-- the enumeration the walk sees for the directory given on the command line / in the `glob` line -/
def nativeOrder (sorted : Bool) (l : List HNode) : List HNode :=
  readNames sorted (nativeList sorted l)

/-! ## `sqfs_dir_entry_t` -/

structure Ent where
  /-- name as returned by the recursive iterator (relative to the scanned directory) -/
  rel : Path
  /-- name after `dir_tree_iterator.c: expand_path` (prefix prepended) -/
  path : Path
  mode : Nat
  uid : Nat
  gid : Nat
  mtime : Int
  dev : Nat
  ino : Nat
  rdev : Nat
  mount : Bool
  hard : Bool
  deriving DecidableEq, Repr, Inhabited

/-! ## `tree_node_t` -/

inductive Extra where
  | none
  /-- symlink target or input file path (bytes) -/
  | str (s : List UInt8)
  /-- hard link: path of the target as written by the hard-link filter; `res` = `data.target_node` once
  `FLAG_LINK_RESOVED` is set -/
  | link (target : Path) (res : Option Path)
  deriving DecidableEq, Repr, Inhabited

structure Attr where
  mode : Nat
  uid : Nat
  gid : Nat
  modTime : Nat
  linkCount : Nat
  rdev : Nat
  /-- FLAG_DIR_CREATED_IMPLICITLY -/
  implicit : Bool
  /-- FLAG_LINK_IS_HARD -/
  hard : Bool
  extra : Extra
  deriving DecidableEq, Repr, Inhabited

inductive TNode where
  | mk (name : Name) (a : Attr) (children : List TNode)
  deriving Repr, Inhabited

def TNode.name : TNode → Name | .mk n _ _ => n
def TNode.attr : TNode → Attr | .mk _ a _ => a
def TNode.children : TNode → List TNode | .mk _ _ c => c
def TNode.isDir (t : TNode) : Bool := isDirMode t.attr.mode

/-! Failure is `none`: every error of the scan path makes the tool exit with failure and nothing else about it is
observable (the errno only selects the message), so errors are not distinguished.  Comments name the C error. -/

structure Defaults where
  uid : Nat
  gid : Nat
  mtime : Nat
  mode : Nat
  deriving DecidableEq, Repr, Inhabited

/-- `clamp_timestamp` -/
def clampTimestamp (ts : Int) : Nat :=
  if ts < 0 then 0 else if ts > 0xFFFFFFFF then 0xFFFFFFFF else ts.toNat

/-- `child_by_name`: first child with that name -/
def childByName : List TNode → Name → Option TNode
  | [], _ => none
  | c :: cs, n => if c.name = n then some c else childByName cs n

/-- `insert_sorted`: skip while `strcmp(it->name, n->name) < 0` -/
def insertSorted (n : TNode) (children : List TNode) : List TNode := insertBy TNode.name n children

/-- the in-place update of the child found by `child_by_name` (first with that name) -/
def replaceChild (c' : TNode) : List TNode → List TNode
  | [] => []
  | c :: cs => if c.name = c'.name then c' :: cs else c :: replaceChild c' cs

/-- attribute part of `mknode` -/
def mknodeAttr (ent : Ent) (extra : Extra) : Attr :=
  let mode0 := ent.mode % 65536
  let mode1 := if ent.hard then sIFLNK ||| 0o777 else mode0
  let isReg := isType mode1 sIFREG
  let isLnk := isType mode1 sIFLNK
  let isDev := isType mode1 sIFBLK || isType mode1 sIFCHR
  { mode := if isLnk then sIFLNK ||| 0o777 else mode1
    uid := ent.uid % 4294967296
    gid := ent.gid % 4294967296
    modTime := clampTimestamp ent.mtime
    linkCount := if isDirMode mode1 then 2 else 1
    rdev := if isDev then ent.rdev else 0
    implicit := false
    hard := ent.hard
    extra := if isReg || isLnk then extra else .none }

/-- tail of `mknode`: `EMLINK` check, `insert_sorted(parent, n)`, `parent->link_count++` -/
def linkChild (parent : TNode) (n : TNode) : Option TNode :=
  match parent with
  | .mk pn pa pc =>
    if pa.linkCount = 0xFFFFFFFF then none /- EMLINK -/
    else some (.mk pn { pa with linkCount := pa.linkCount + 1 } (insertSorted n pc))

/-- the nesting test at the top of `mknode`: a directory (not a hard link) whose parent has `depth` ancestors
(`size = 1; for (n = parent; n->parent != NULL; n = n->parent) ++size;`) is refused when `size > SQFS_MAX_DIR_NESTING` -/
def tooDeep (depth : Nat) (ent : Ent) : Bool :=
  isDirMode ent.mode && !ent.hard && decide (depth + 1 > maxDirNesting)

/-- `mknode` for a leaf: create the node and link it into `parent` (`depth` = number of ancestors of `parent`) -/
def mknode (depth : Nat) (parent : TNode) (name : Name) (ent : Ent) (extra : Extra) : Option TNode :=
  if tooDeep depth ent then none /- ENAMETOOLONG -/
  else linkChild parent (.mk name (mknodeAttr ent extra) [])

/-- the entry `fstree_get_node_by_path` fabricates for an implicitly created directory -/
def implicitEnt (d : Defaults) : Ent :=
  { rel := [], path := [], mode := sIFDIR ||| (d.mode &&& 0o7777), uid := d.uid, gid := d.gid, mtime := d.mtime,
    dev := 0, ino := 0, rdev := 0, mount := false, hard := false }

/-- the `child != NULL` branch of `fstree_add_generic` -/
def overwrite (c : TNode) (ent : Ent) : Option TNode :=
  let .mk n a cs := c
  if !isDirMode a.mode || !isDirMode ent.mode || !a.implicit then none /- EEXIST -/
  else some (.mk n { a with uid := ent.uid % 4294967296, gid := ent.gid % 4294967296, mode := ent.mode % 65536,
                             modTime := (ent.mtime % 4294967296).toNat, implicit := false } cs)

/-- the part of `fstree_add_generic` behind its argument checks:
`fstree_get_node_by_path(…, create_implicitly = true, stop_at_parent = true)` followed by `child_by_name` and either the
overwrite branch or `mknode`; written as one descent that rebuilds the spine.  `depth` = number of ancestors of the
node the descent stands on (0 at `fs->root`), what `mknode` recomputes by following `n->parent`.
An implicitly created parent is a fresh childless node, so the descent continues into it before it is linked into
its own parent — the resulting tree is the same as linking first and descending afterwards. -/
def addPathAt (d : Defaults) (ent : Ent) (extra : Extra) : Nat → Path → TNode → Option TNode
  | _, [], root => overwrite root ent                   -- `ent->name[0] == '\0'`: child = fs->root
  | depth, [n], dir =>
      if !dir.isDir then none /- ENOTDIR -/
      else match childByName dir.children n with
        | some c =>
            match overwrite c ent with
            | none => none
            | some c' => some (.mk dir.name dir.attr (replaceChild c' dir.children))
        | none => mknode depth dir n ent extra
  | depth, n :: rest, dir =>
      if !dir.isDir then none /- ENOTDIR -/
      else match childByName dir.children n with
        | some c =>
            match addPathAt d ent extra (depth + 1) rest c with
            | none => none
            | some c' => some (.mk dir.name dir.attr (replaceChild c' dir.children))
        | none =>
            if tooDeep depth (implicitEnt d) then none /- ENAMETOOLONG (mknode of the implicit directory) -/
            else
              let fresh := TNode.mk n { mknodeAttr (implicitEnt d) .none with implicit := true } []
              match addPathAt d ent extra (depth + 1) rest fresh with
              | none => none
              | some c' => linkChild dir c'

/-- the descent of `fstree_add_generic` from `fs->root` -/
def addPath (d : Defaults) (ent : Ent) (extra : Extra) (p : Path) (root : TNode) : Option TNode :=
  addPathAt d ent extra 0 p root

/-- `fstree_add_generic`: argument checks, then the descent -/
def addGeneric (d : Defaults) (ent : Ent) (extra : Extra) (root : TNode) : Option TNode :=
  if isType ent.mode sIFLNK && decide (extra = Extra.none) then none /- EINVAL: symlink without target -/
  else if decide (ent.uid > 0xFFFFFFFF) || decide (ent.gid > 0xFFFFFFFF) then none /- ERANGE -/
  else if (isType ent.mode sIFBLK || isType ent.mode sIFCHR) && !ent.hard && decide (ent.rdev > 0xFFFFFFFF) then
    none /- ERANGE -/
  else addPath d ent extra ent.path root

/-- `fstree_get_node_by_path(fs, root, path, false, false)` -/
def lookup : TNode → Path → Option TNode
  | t, [] => some t
  | t, n :: rest =>
      if !t.isDir then none
      else match childByName t.children n with
        | some c => lookup c rest
        | none => none

/-- `fstree_get_node_by_path(fs, root, path, false, true)`: the parent exists and is a directory -/
def parentOf (t : TNode) (p : Path) : Option TNode :=
  match p with
  | [] => some t
  | _ => match lookup t p.dropLast with
    | some q => if q.isDir then some q else none
    | none => none

/-! ## the iterator stack and `scan_directory` -/

structure Cfg where
  flags : Nat
  defUid : Nat
  defGid : Nat
  defMode : Nat
  defMtime : Int
  /-- `cfg.prefix` (components) -/
  pfx : Path
  /-- `file_prefix` argument of `scan_directory` -/
  filePrefix : Option (List UInt8)
  /-- `cfg.name_pattern` -/
  pattern : Option (List UInt8)
  deriving DecidableEq, Repr, Inhabited

/-- `fnmatch(pattern, string, pathname_flag)` — parameter of the model -/
abbrev Fnm := List UInt8 → List UInt8 → Bool → Bool

structure St where
  /-- dir_hl.c `inumtree`: (dev, inode) ↦ first name seen -/
  seen : List ((Nat × Nat) × Path)
  tree : TNode
  /-- `fs->links_unresolved` (LIFO) -/
  links : List Path
  deriving Repr, Inhabited

def seenLookup : List ((Nat × Nat) × Path) → Nat × Nat → Option Path
  | [], _ => none
  | (k, v) :: r, q => if k = q then some v else seenLookup r q

def slash : UInt8 := 0x2f

def joinPath : Path → List UInt8
  | [] => []
  | [n] => n
  | n :: rest => n ++ slash :: joinPath rest

def dotName : Name := [0x2e]
def dotDotName : Name := [0x2e, 0x2e]

/-- `dir_unix.c: dir_next` + `dir_rec.c: expand_path` -/
def nativeEntry (rel : Path) (dirDev : Nat) (name : Name) (s : Stat) : Ent :=
  { rel := rel ++ [name], path := rel ++ [name], mode := s.mode, uid := s.uid, gid := s.gid, mtime := s.mtime,
    dev := s.dev, ino := s.ino, rdev := s.rdev, mount := s.dev != dirDev, hard := false }

/-- `dir_hl.c: next` on an entry handed out by the iterator below it — returns the entry, the link target (if
detected) and the new `inumtree`.  `store_hard_link` remembers `ent->name`, which since /repo c5f1f00 is the name the
tree iterator hands out (`e.path`: the glob's target prefix included). -/
def hlNext (seen : List ((Nat × Nat) × Path)) (e : Ent) : Ent × Option Path × List ((Nat × Nat) × Path) :=
  if isDirMode e.mode then (e, none, seen)                      -- detect: NULL; store: nothing
  else match seenLookup seen (e.dev, e.ino) with
    | some tgt => ({ e with mode := inodeModeLnk ||| 0o777, hard := true }, some tgt, seen)
    | none => (e, none, ((e.dev, e.ino), e.path) :: seen)

/-- `dir_tree_iterator.c: should_skip` -/
def shouldSkip (cfg : Cfg) (e : Ent) : Bool :=
  if hasFlag cfg.flags dirScanOneFilesystem && e.mount then true
  else
    let ty := e.mode &&& sIFMT
    let mask :=
      if ty == sIFSOCK then dirScanNoSock
      else if ty == sIFLNK then dirScanNoSlink
      else if ty == sIFREG then dirScanNoFile
      else if ty == sIFBLK then dirScanNoBlk
      else if ty == sIFCHR then dirScanNoChr
      else if ty == sIFIFO then dirScanNoFifo
      else 0
    hasFlag cfg.flags mask

/-- `dir_tree_iterator.c: expand_path` + `apply_changes` -/
def applyChanges (cfg : Cfg) (e : Ent) : Ent :=
  { e with
    path := cfg.pfx ++ e.rel
    mtime := if hasFlag cfg.flags dirScanKeepTime then e.mtime else cfg.defMtime
    uid := if hasFlag cfg.flags dirScanKeepUid then e.uid else cfg.defUid
    gid := if hasFlag cfg.flags dirScanKeepGid then e.gid else cfg.defGid
    mode := if hasFlag cfg.flags dirScanKeepMode then e.mode
            else (e.mode - (e.mode &&& 0o7777)) ||| (cfg.defMode &&& 0o7777) }

/-- `dir_tree_iterator.c: next` for one entry delivered by the layer below.
Result: `(entry delivered upward?, recurse into it?)`. -/
def treeIterStep (cfg : Cfg) (fnm : Fnm) (e : Ent) : Option Ent × Bool :=
  let isdir := isDirMode e.mode
  if shouldSkip cfg e then (none, false)                         -- `ignore_subdir` for directories
  else
    let e' := applyChanges cfg e
    let recurse := isdir && !hasFlag cfg.flags dirScanNoRecursion
    if isdir && hasFlag cfg.flags dirScanNoDir then (none, recurse)
    else match cfg.pattern with
      | none => (some e', recurse)
      | some pat =>
          let ok :=
            if hasFlag cfg.flags dirScanMatchFullPath then fnm pat (joinPath e'.path) true
            else fnm pat (e'.path.getLast?.getD []) false
          if ok then (some e', recurse) else (none, recurse)

/-- the `extra` string `scan_directory` hands to `fstree_add_generic`: link target (`dir->read_link`: the hard-link
filter's target if it detected one, else `readlinkat`), or the input path of a regular file when a prefix is in use -/
def scanExtra (cfg : Cfg) (e : Ent) (hlTarget : Option Path) (symTarget : List UInt8) : Extra :=
  if isType e.mode sIFLNK then
    match hlTarget with
    | some t => .link t none
    | none => .str symTarget
  else if isType e.mode sIFREG && (!cfg.pfx.isEmpty || cfg.filePrefix.isSome) then
    match cfg.filePrefix with
    | none => .str (joinPath e.rel)
    | some fp => .str (fp ++ slash :: joinPath e.rel)
  else .none

/-- body of the loop of `scan_directory` for one entry.
Result: new tree/links and whether `ignore_subdir` was called. -/
def scanStep (d : Defaults) (cfg : Cfg) (e : Ent) (hlTarget : Option Path) (symTarget : List UInt8)
    (tree : TNode) (links : List Path) : Option (TNode × List Path × Bool) :=
  match parentOf tree e.path with
  | none => some (tree, links, isDirMode e.mode)                  -- parent missing: entry dropped
  | some _ =>
    match addGeneric d e (scanExtra cfg e hlTarget symTarget) tree with
    | none => none
    | some tree' => some (tree', if e.hard then e.path :: links else links, false)

/-- what the three iterator layers below `scan_directory` compute for one raw directory entry -/
structure IterOut where
  /-- entry delivered to `scan_directory` (none: filtered out) -/
  out : Option Ent
  /-- the recursive iterator will descend into it (unless `scan_directory` calls `ignore_subdir`) -/
  recurse : Bool
  /-- `link_target` of the hard-link filter -/
  hlTarget : Option Path
  seen : List ((Nat × Nat) × Path)

/-- `dir_rec.c: next` (after the "."/".." test) → `dir_tree_iterator.c: next` (filters, prefix, defaults) → `dir_hl.c: next`
(unless DIR_SCAN_NO_HARDLINKS).  Since /repo c5f1f00 `dir_tree_iterator_create` wraps the hard-link filter *around* the tree
iterator: hard links are detected on the entries that survive the type/name filters, under their prefixed names. -/
def iterStep (cfg : Cfg) (fnm : Fnm) (rel : Path) (dirDev : Nat) (seen : List ((Nat × Nat) × Path)) (name : Name)
    (s : Stat) : IterOut :=
  let e0 := nativeEntry rel dirDev name s
  let ti := treeIterStep cfg fnm e0
  match ti.1 with
  | none => { out := none, recurse := ti.2, hlTarget := none, seen := seen }
  | some e1 =>
    let hl := if hasFlag cfg.flags dirScanNoHardlinks then (e1, none, seen) else hlNext seen e1
    { out := some hl.1, recurse := ti.2, hlTarget := hl.2.1, seen := hl.2.2 }

mutual
/-- one entry of the directory being read by the native iterator at the top of `dir_rec.c`'s stack, pushed through
`dir_rec.c: next`, `dir_hl.c: next`, `dir_tree_iterator.c: next` and the body of `scan_directory`; then, if the
sub-directory was not ignored, everything below it (DFS, pre-order) -/
def walkNode (d : Defaults) (cfg : Cfg) (fnm : Fnm) (rel : Path) (dirDev : Nat) (h : HNode) (st : St) : Option St :=
  match h with
  | .mk name s target children =>
    if name = dotName || name = dotDotName then some st            -- dir_rec.c: "." and ".." are skipped
    else if isDirMode s.mode && decide (rel.length + 1 > maxDirNesting) then
      none   -- dir_rec.c: `it->depth > SQFS_MAX_DIR_NESTING` (the base directory is on the stack as well): SQFS_ERROR_OVERFLOW
    else
      let it := iterStep cfg fnm rel dirDev st.seen name s
      let r : Option (TNode × List Path × Bool) :=
        match it.out with
        | none => some (st.tree, st.links, false)
        | some e2 => scanStep d cfg e2 it.hlTarget target st.tree st.links
      match r with
      | none => none
      | some (tree', links', ignored) =>
        let st' : St := { seen := it.seen, tree := tree', links := links' }
        if isDirMode s.mode && it.recurse && !ignored then walkList d cfg fnm (rel ++ [name]) s.dev children st'
        else some st'
def walkList (d : Defaults) (cfg : Cfg) (fnm : Fnm) (rel : Path) (dirDev : Nat) (l : List HNode) (st : St) : Option St :=
  match l with
  | [] => some st
  | h :: hs =>
    match walkNode d cfg fnm rel dirDev h st with
    | none => none
    | some st' => walkList d cfg fnm rel dirDev hs st'
end

/-! ## `fstree_post_process` -/

/-- apply `f` to the node at `p` (spine rebuilt) -/
def modifyAt (f : TNode → TNode) : Path → TNode → TNode
  | [], t => f t
  | n :: rest, t =>
      match childByName t.children n with
      | some c => .mk t.name t.attr (replaceChild (modifyAt f rest c) t.children)
      | none => t

def TNode.isHardLink (t : TNode) : Bool := isType t.attr.mode sIFLNK && t.attr.hard

/-- the loop of `resolve_link` from the node at `cur`; `start` = path of the link being resolved, `rem` =
`max_hops - hops`.  Returns the path of the node the loop ends on.  A hop over an *unresolved* link costs one of
`max_hops` (`hops++ >= max_hops` → `EMLINK`); a hop over a *resolved* link is free and ends on `data.target_node`,
which `resolve_link` only ever sets to the node its own loop ended on, i.e. never to a hard link: the loop would go on
from there, the model stops (`none`) — not reachable from states built by these functions. -/
def followLink (root : TNode) (start : Path) : Nat → Path → Option Path
  | rem, cur =>
      match lookup root cur with
      | none => none /- ENOENT -/
      | some node =>
        if !node.isHardLink then some cur
        else
          match node.attr.extra with
          | .link _ (some r) =>
              if r = start then none /- EMLINK -/
              else match lookup root r with
                | none => none
                | some n' => if n'.isHardLink then none else some r
          | .link t none =>
              match rem with
              | 0 => none /- EMLINK: hops >= max_hops -/
              | rem' + 1 =>
                match lookup root t with
                | none => none /- ENOENT -/
                | some _ => if t = start then none /- EMLINK -/ else followLink root start rem' t
          | _ => none /- EINVAL -/

def setResolved (tgt : Path) (t : TNode) : TNode :=
  match t with
  | .mk n a cs => match a.extra with
    | .link p _ => .mk n { a with extra := .link p (some tgt) } cs
    | _ => t

def bumpLinkCount (t : TNode) : TNode :=
  match t with
  | .mk n a cs => .mk n { a with linkCount := a.linkCount + 1 } cs

/-- `resolve_link(fs, node, max_hops)` for the link node at `p` -/
def resolveLink (root : TNode) (maxHops : Nat) (p : Path) : Option TNode :=
  match followLink root p maxHops p with
  | none => none
  | some tp =>
    match lookup root tp with
    | none => none /- ENOENT -/
    | some tn =>
      if tn.isDir then none /- EPERM -/
      else if tn.attr.linkCount = 0xFFFFFFFF then none /- EMLINK -/
      else some (modifyAt bumpLinkCount tp (modifyAt (setResolved tp) p root))

/-- `fstree_resolve_hard_links`: pop `links_unresolved` until empty; `count` = length of the list when the function
is entered (the `max_hops` of every `resolve_link`) -/
def resolveHardLinks (count : Nat) : List Path → TNode → Option TNode
  | [], t => some t
  | p :: rest, t =>
      match resolveLink t count p with
      | none => none
      | some t' => resolveHardLinks count rest t'

mutual
/-- `alloc_inode_num_dfs`: the nodes below `t` in the order in which they receive their numbers: first the whole
content of every sub-directory (in child order), then every child that is not a hard link -/
def allocNode (path : Path) : TNode → List Path
  | .mk _ _ cs => allocSubdirs path cs ++ allocOwn path cs
def allocSubdirs (path : Path) : List TNode → List Path
  | [] => []
  | c :: cs => (if c.isDir then allocNode (path ++ [c.name]) c else []) ++ allocSubdirs path cs
def allocOwn (path : Path) : List TNode → List Path
  | [] => []
  | c :: cs => (if c.isHardLink then [] else [path ++ [c.name]]) ++ allocOwn path cs
end

/-- numbering order before `reorder_hard_links`; the root is numbered last (`fstree_post_process`).
`map_inodes_dfs` stores the node with number `k` at `inodes[k-1]`, i.e. builds exactly this list. -/
def allocOrder (root : TNode) : List Path := allocNode [] root ++ [[]]

def indexOf (p : Path) : List Path → Nat
  | [] => 0
  | q :: r => if q = p then 0 else indexOf p r + 1

/-- move the element at index `j` to index `i` (`i ≤ j`), shifting `[i, j)` up by one -/
def moveTo (arr : List Path) (i j : Nat) : List Path :=
  match arr[j]? with
  | none => arr
  | some x => (arr.take i) ++ x :: ((arr.drop i).take (j - i)) ++ arr.drop (j + 1)

/-- inner loop of `reorder_hard_links` over the children of the directory at `inodes[i]` -/
def reorderChildren (dirPath : Path) : List TNode → List Path → Nat → List Path × Nat
  | [], arr, i => (arr, i)
  | c :: cs, arr, i =>
      if !c.isHardLink then reorderChildren dirPath cs arr i
      else match c.attr.extra with
        | .link _ (some tgt) =>
            let j := indexOf tgt arr
            if j ≤ i then reorderChildren dirPath cs arr i
            else reorderChildren dirPath cs (moveTo arr i j) (i + 1)
        | _ => reorderChildren dirPath cs arr i

/-- outer loop of `reorder_hard_links` (`fuel` ≥ number of inodes; `i` grows in every round) -/
def reorderLoop (root : TNode) : Nat → List Path → Nat → List Path
  | 0, arr, _ => arr
  | fuel + 1, arr, i =>
      match arr[i]? with
      | none => arr
      | some p =>
        match lookup root p with
        | none => arr
        | some n =>
          if !n.isDir then reorderLoop root fuel arr (i + 1)
          else
            let (arr', i') := reorderChildren p n.children arr i
            reorderLoop root fuel arr' (i' + 1)

def reorderHardLinks (root : TNode) (arr : List Path) : List Path :=
  reorderLoop root (arr.length + 1) arr 0

mutual
/-- `file_list_dfs` -/
def fileListNode (path : Path) : TNode → List Path
  | .mk _ a cs =>
      if isType a.mode sIFREG then [path]
      else if isDirMode a.mode then fileListChildren path cs
      else []
def fileListChildren (path : Path) : List TNode → List Path
  | [] => []
  | c :: cs => fileListNode (path ++ [c.name]) c ++ fileListChildren path cs
end

structure Result where
  tree : TNode
  /-- `fs->inodes`: node with inode number `k` is `inodes[k-1]` -/
  inodes : List Path
  /-- `fs->files` -/
  files : List Path
  deriving Repr, Inhabited

/-- `fstree_post_process` given the tree and `links_unresolved` -/
def postProcess (tree : TNode) (links : List Path) : Option Result :=
  match resolveHardLinks links.length links tree with
  | none => none
  | some t =>
    let arr := allocOrder t
    if arr.length > 0xFFFFFFFF then none /- too many inodes -/
    else some { tree := t, inodes := reorderHardLinks t arr, files := fileListNode [] t }

/-- `fstree_init`: the root node -/
def initRoot (d : Defaults) : TNode :=
  .mk [] { mode := sIFDIR ||| (d.mode &&& 0o7777), uid := d.uid, gid := d.gid, modTime := d.mtime, linkCount := 2,
           rdev := 0, implicit := true, hard := false, extra := .none } []

/-- `dir_tree_iterator_create(path, cfg)` + `scan_directory` on an existing tree (a `glob` line, or `--pack-dir` with
`tree = initRoot`) -/
def scanInto (sorted : Bool) (d : Defaults) (cfg : Cfg) (fnm : Fnm) (rootDev : Nat) (forest : List HNode)
    (tree : TNode) (links : List Path) : Option (TNode × List Path) :=
  match walkList d cfg fnm [] rootDev (nativeOrder sorted forest) { seen := [], tree := tree, links := links } with
  | none => none
  | some st => some (st.tree, st.links)

/-- `fstree_get_node_by_path(fs, fs->root, path, create_implicitly = true, stop_at_parent = false)` as `glob_files`
uses it to fetch the target directory of a `glob` line (`depth` as in `addPathAt`) -/
def mkdirImplicitAt (d : Defaults) : Nat → Path → TNode → Option TNode
  | _, [], t => some t
  | depth, n :: rest, dir =>
      if !dir.isDir then none /- ENOTDIR -/
      else match childByName dir.children n with
        | some c =>
            match mkdirImplicitAt d (depth + 1) rest c with
            | none => none
            | some c' => some (.mk dir.name dir.attr (replaceChild c' dir.children))
        | none =>
            if tooDeep depth (implicitEnt d) then none /- ENAMETOOLONG -/
            else
              let fresh := TNode.mk n { mknodeAttr (implicitEnt d) .none with implicit := true } []
              match mkdirImplicitAt d (depth + 1) rest fresh with
              | none => none
              | some c' => linkChild dir c'

def mkdirImplicit (d : Defaults) (p : Path) (root : TNode) : Option TNode := mkdirImplicitAt d 0 p root

/-- `glob_files`: fetch (or implicitly create) the target directory, which becomes `cfg.prefix`, then scan.
The caller passes `cfg` with `pfx = target`. -/
def globInto (sorted : Bool) (d : Defaults) (cfg : Cfg) (fnm : Fnm) (rootDev : Nat) (forest : List HNode)
    (target : Path) (tree : TNode) (links : List Path) : Option (TNode × List Path) :=
  match mkdirImplicit d target tree with
  | none => none
  | some t1 =>
    match lookup t1 target with
    | none => none /- ENOENT -/
    | some r => if !r.isDir then none /- ENOTDIR -/ else scanInto sorted d cfg fnm rootDev forest t1 links

/-- mkfs.c `main`: `--set-uid` / `--set-gid` / `--all-root` (DIR_SCAN_KEEP_UID / _GID cleared) replace the default owner, i.e.
the owner of the root inode and of implicitly created directories (/repo 94d8bc2) -/
def mainDefaults (d : Defaults) (dirscanFlags forceUid forceGid : Nat) : Defaults :=
  { d with uid := if hasFlag dirscanFlags dirScanKeepUid then d.uid else forceUid,
           gid := if hasFlag dirscanFlags dirScanKeepGid then d.gid else forceGid }

/-- `gensquashfs --pack-dir`: scan + post-process -/
def packDir (sorted : Bool) (d : Defaults) (cfg : Cfg) (fnm : Fnm) (rootDev : Nat) (forest : List HNode) :
    Option Result :=
  match scanInto sorted d cfg fnm rootDev forest (initRoot d) [] with
  | none => none
  | some (t, links) => postProcess t links

/-! ## `fstree_sort_files` (gensquashfs -S) and the order in which `pack_files` submits the file data -/

/-- one line of the sort file after `decode_priority` / `decode_flags` / `decode_filename` -/
structure SortRule where
  prio : Int
  /-- SQFS_BLK_* flags of the line -/
  flags : Nat
  doGlob : Bool
  pathGlob : Bool
  /-- file name or pattern -/
  pat : List UInt8
  deriving DecidableEq, Repr, Inhabited

/-- a node of `fs->files` with the fields `fstree_sort_files` works on -/
structure FileEnt where
  path : Path
  /-- `data.file.priority` -/
  prio : Int
  /-- `data.file.flags` -/
  flags : Nat
  /-- `FLAG_FILE_ALREADY_MATCHED` -/
  matched : Bool
  deriving DecidableEq, Repr, Inhabited

/-- the loop over `fs->files` for one line of the sort file: nodes already matched are skipped; the node's path
(`fstree_get_path` + `canonicalize_name`: components joined with '/', no leading slash) is compared with `strcmp` or
`fnmatch(line, path, path_glob ? FNM_PATHNAME : 0)`; a literal line stops at its first match (`break`) -/
def applySortRule (fnm : Fnm) (r : SortRule) : List FileEnt → List FileEnt
  | [] => []
  | f :: fs =>
      if f.matched then f :: applySortRule fnm r fs
      else
        let hit := if r.doGlob then fnm r.pat (joinPath f.path) r.pathGlob else decide (joinPath f.path = r.pat)
        if hit then
          let f' : FileEnt := { f with prio := r.prio, flags := r.flags, matched := true }
          if r.doGlob then f' :: applySortRule fnm r fs else f' :: fs
        else f :: applySortRule fnm r fs

/-- the scan of one round of `sort_file_list`: `low` starts at the head of the list and moves to a later node only if
that node's priority is strictly lower — so it ends on the first node that carries the lowest priority -/
def lowestFile : FileEnt → List FileEnt → FileEnt
  | low, [] => low
  | low, it :: rest => if it.prio < low.prio then lowestFile it rest else lowestFile low rest

/-- unlink the first node that carries priority `p` (the node `low` points to at the end of the scan); every other
node stays where it is -/
def takeFirst (p : Int) : List FileEnt → Option (FileEnt × List FileEnt)
  | [] => none
  | f :: fs =>
      if f.prio = p then some (f, fs)
      else match takeFirst p fs with
        | none => none
        | some (x, rem) => some (x, f :: rem)

/-- `sort_file_list`: repeatedly move the first node of lowest priority to the end of the output list
(`fuel` = number of nodes) -/
def sortFileList : Nat → List FileEnt → List FileEnt
  | 0, _ => []
  | _, [] => []
  | fuel + 1, f :: fs =>
      match takeFirst (lowestFile f fs).prio (f :: fs) with
      | none => []          -- not reachable: `low` is a node of the list
      | some (x, rem) => x :: sortFileList fuel rem

/-- `fstree_sort_files`: reset priority/flags, apply the lines of the sort file in order, `sort_file_list` -/
def sortFiles (fnm : Fnm) (rules : List SortRule) (files : List Path) : List FileEnt :=
  let init : List FileEnt := files.map (fun p => { path := p, prio := 0, flags := 0, matched := false })
  let marked := rules.foldl (fun acc r => applySortRule fnm r acc) init
  sortFileList marked.length marked

/-- mkfs.c `main`: scan, post-process, optional `fstree_sort_files`, then `pack_files` walks `fs->files` and hands each
file (with its `data.file.flags`) to the block processor: the order and flags that determine where the data goes -/
def packOrder (sorted : Bool) (d : Defaults) (cfg : Cfg) (fnm : Fnm) (rootDev : Nat) (forest : List HNode)
    (sortfile : Option (List SortRule)) : Option (List (Path × Nat)) :=
  match packDir sorted d cfg fnm rootDev forest with
  | none => none
  | some r =>
    match sortfile with
    | none => some (r.files.map (fun p => (p, 0)))
    | some rules => some ((sortFiles fnm rules r.files).map (fun f => (f.path, f.flags)))

end Sqfs.FsTree
