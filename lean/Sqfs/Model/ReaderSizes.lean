/-
What the table loaders hand to `malloc` / `calloc` (property C05): the *sizes*, in the order of the calls, computed with
the functions the safety theorems are about (`tableBlockCount`, `xattrLoad`, `readInodeFile`, …).  The check compares
them with the sizes the real code requests (the routine-level harness wraps the allocator): a product that the C text
computes in `size_t` and a changed tree computes in 32 bits gives a different request long before any access leaves a
buffer — and for the counts where that matters (2^28 and more) the honest request is too large to be granted, so the
status alone would not tell.
-/
import Sqfs.Model.ReaderBounds
import Sqfs.Model.ReaderTables
namespace Sqfs.ReaderSizes
open Sqfs Sqfs.ReaderBounds Sqfs.ReaderTables

/-- `sqfs_read_table` (read_table.c:30-40): `malloc(table_size)`, then `alloc_array(sizeof(sqfs_u64), block_count)`;
these are the capacities `total` / `blockCount * 8` of `readTable` -/
def readTableAllocs (tableSize : UInt64) : List UInt64 := [tableSize, 8 * tableBlockCount tableSize]

/-- `sqfs_xattr_reader_load`: `alloc_array(sizeof(sqfs_u64), num_id_blocks)` = the capacity of the first access to the
locations -/
def xattrLoadAllocs (r : XRes) : List UInt64 :=
  match r.acc.find? (fun a => a.buf == .idBlockStarts) with
  | some a => [a.cap.toUInt64]
  | none => []

/-- `read_inode_file(_ext)`: `alloc_flex(sizeof(*out), sizeof(sqfs_u32), count)` = payload capacity + `sizeof(*out)` -/
def inodeFileAllocs (r : Except Err (List Access)) : List UInt64 :=
  match r with
  | .ok (a :: _) => [(a.cap + szInodeGeneric).toUInt64]
  | _ => []

end Sqfs.ReaderSizes
