/-
Model of `lib/sqfs/src/meta_reader.c` (C10; also used by C05/C01).

* the image is an abstract random-access file `File` (`read_at` = `File.readAt`):
  a size, a byte function and a set of scripted "bad" positions (I/O error) —
  the only thing the proofs use is that `readAt` is a function of `(file, off, n)`;
* the block decompressor is a *parameter* `unc : Codec` (the compressor object the
  reader was created with: `cmp->do_block`); a toy instance `toyUnc` is mirrored
  byte for byte by `harness/h_c10.c` so that decompression failure is scriptable;
* the reader object is the record `MR` = `struct sqfs_meta_reader_t` without the
  two object pointers: `start`, `limit`, the one-block cache
  `(block_offset, data[], data_used, next_block)` and the cursor `offset`;
  `data` is the *whole* 8 KiB array (bytes beyond `data_used` are stale bytes of
  earlier loads, exactly as in C), so that the model of the **current** code
  (`fix = false`, used by `Sqfs/Witness/C10.lean`) and of the **repaired** code
  (`fix = true`, the main model; repair = `fixes/C10-meta-seek-invalidate.patch`)
  are one definition that differs in two marked places.

Statuses are the negated `SQFS_ERROR_*` codes (`0` = success), taken from the
generated constants.  `crashSt`/`fuelSt` are model-only outcomes: a `memcpy`
source range that leaves `m->data`, and exhausted loop fuel (neither can happen
in the repaired model: `Sqfs.C10.read_no_crash`).
-/
import Sqfs.Generated.Consts
namespace Sqfs.MetaReader
open Sqfs.Consts

abbrev Bytes := List UInt8

/-- 2^64: `sqfs_u64` / `size_t` arithmetic wraps at this modulus -/
abbrev U64 : Nat := 18446744073709551616
/-- `0xFFFFFFFFFFFFFFFF`, the "no block cached" tag -/
abbrev NONE : Nat := U64 - 1

/-- `x mod 2^64` for a sum of `sqfs_u64` values that can wrap at most once (`x < 2^65`).  Written with a
comparison instead of `%`: `Nat.mod` by a 20-digit literal on an open term sends Lean's definitional
unfolding (equation lemmas, `decide`) into the weeds.  `Sqfs.MetaReader.wrap64_eq_mod` relates the two. -/
def wrap64 (x : Nat) : Nat := if x < U64 then x else x - U64

/-- `a - b` in `size_t` (wraps) for `a, b < 2^64`; see `subWrap_eq_mod` -/
def subWrap (a b : Nat) : Nat := if b ≤ a then a - b else U64 - (b - a)

abbrev Status := Nat
/-- model-only: the copy in `sqfs_meta_reader_read` would leave `m->data` -/
def crashSt : Status := 1000
/-- model-only: loop fuel exhausted -/
def fuelSt : Status := 1001

/-! ### the file -/

structure File where
  size : Nat
  byte : Nat → UInt8
  bad : Nat → Bool

/-- `file->read_at(file, off, buf, n)` of the in-memory file of the harness: scripted I/O error if the range
touches a bad position, `SQFS_ERROR_OUT_OF_BOUNDS` if it leaves the file, else exactly `n` bytes
(the buffer is untouched on failure). -/
def File.readAt (f : File) (off n : Nat) : Except Status Bytes :=
  if (List.range n).any (fun i => f.bad (off + i)) then .error errIo
  else if off + n > f.size then .error errOutOfBounds
  else .ok ((List.range n).map (fun i => f.byte (off + i)))

/-- `cmp->do_block(cmp, in, size, out, outsize)` of an *uncompressor*: error status or the output bytes -/
abbrev Codec := Bytes → Nat → Except Status Bytes

/-- the toy block codec of the harness (`toy_do_block` in `harness/h_c10.c`): first input byte selects
`00` identity of the rest · `01 k` rest XOR k · `03 lo hi b` = `lo+256*hi` copies of `b` · anything else
(and empty input, and output larger than `outsize`) fails with `SQFS_ERROR_COMPRESSOR`. -/
def toyUnc : Codec := fun inp outsize =>
  match inp with
  | 0 :: rest => if rest.length ≤ outsize then .ok rest else .error errCompressor
  | 1 :: k :: rest => if rest.length ≤ outsize then .ok (rest.map (· ^^^ k)) else .error errCompressor
  | [3, lo, hi, b] =>
    let n := lo.toNat + 256 * hi.toNat
    if n ≤ outsize then .ok (List.replicate n b) else .error errCompressor
  | _ => .error errCompressor

/-! ### the reader object -/

structure MR where
  start : Nat
  limit : Nat
  /-- `block_offset` -/
  tag : Nat
  nextBlock : Nat
  dataUsed : Nat
  offset : Nat
  /-- `data[SQFS_META_BLOCK_SIZE]`, all of it -/
  data : Bytes
deriving DecidableEq, Repr

/-- `sqfs_meta_reader_create` (calloc + `block_offset = 0xFFFF…`) -/
def fresh (start limit : Nat) : MR :=
  { start := start, limit := limit, tag := NONE, nextBlock := 0, dataUsed := 0, offset := 0,
    data := List.replicate metaBlockSize 0 }

/-- `memcpy(buf, new, |new|)` / `read_at(.., buf, |new|)` into the front of a buffer -/
def overwrite (buf new : Bytes) : Bytes := new ++ buf.drop new.length

/-- What the cache-miss part of `sqfs_meta_reader_seek` finds at `block_start`, up to the point where the
caller's `offset` is looked at.  `early`: nothing was written to `m->data`; `uncErr`: the raw block was
read into `m->data`, `do_block` failed; `done raw blk size`: `m->data` received `raw`, then (compressed
blocks) `blk` on top of it, `data_used = |blk|`, on-disk payload size `size`. -/
inductive Load where
  | early (e : Status)
  | uncErr (e : Status) (raw : Bytes)
  | done (raw blk : Bytes) (size : Nat)
deriving DecidableEq, Repr

def loadBlock (f : File) (unc : Codec) (limit b : Nat) : Load :=
  match f.readAt b 2 with                                   -- read_at(file, block_start, &header, 2)
  | .error e => .early e
  | .ok hdr =>
    let header := (hdr.getD 0 0).toNat + 256 * (hdr.getD 1 0).toNat   -- le16toh
    let compressed := header / 32768 = 0                   -- (header & 0x8000) == 0
    let size := header % 32768                             -- header & 0x7FFF
    if size > metaBlockSize then .early errCorrupted       -- size > sizeof(m->data)
    else if wrap64 (b + 2 + size) > limit then .early errOutOfBounds
    else match f.readAt (wrap64 (b + 2)) size with          -- read_at(file, block_start + 2, m->data, size)
      | .error e => .early e
      | .ok raw =>
        if compressed then
          match unc raw metaBlockSize with                 -- do_block(cmp, m->data, size, m->scratch, 8192)
          | .error e => .uncErr e raw                      -- ret < 0
          | .ok out => .done raw out size                  -- memcpy(m->data, m->scratch, ret); data_used = ret
        else .done raw raw size                            -- data_used = size

/-- `sqfs_meta_reader_seek(m, block_start, offset)`.  `fix = false`: the code as it is in /repo (failure
paths return with `data`/`data_used` already overwritten and the old `block_offset` still in place — D2).
`fix = true`: the repaired code: the cached block is forgotten before anything is loaded (**[F1]**) and
`data_used` is cleared again when the final offset check fails (**[F2]**). -/
def seek (fix : Bool) (f : File) (unc : Codec) (m : MR) (b o : Nat) : Status × MR :=
  if b < m.start ∨ b ≥ m.limit then (errOutOfBounds, m)
  else if b = m.tag then                                    -- cache hit
    if o ≥ m.dataUsed then (errOutOfBounds, m) else (0, { m with offset := o })
  else
    let m0 := if fix then { m with tag := NONE, nextBlock := NONE, dataUsed := 0, offset := 0 } else m   -- [F1]
    match loadBlock f unc m.limit b with
    | .early e => (e, m0)
    | .uncErr e raw => (e, { m0 with data := overwrite m0.data raw })
    | .done raw blk size =>
      let m1 := { m0 with data := overwrite (overwrite m0.data raw) blk, dataUsed := blk.length }
      if o ≥ m1.dataUsed then
        (errOutOfBounds, if fix then { m1 with dataUsed := 0 } else m1)                                  -- [F2]
      else (0, { m1 with tag := b, nextBlock := wrap64 (b + size + 2), offset := o })

/-- `sqfs_meta_reader_get_position` -/
def getPos (m : MR) : Nat × Nat :=
  if m.offset = m.dataUsed then (m.nextBlock, 0) else (m.tag, m.offset)

/-- top of one iteration of the `while (size != 0)` loop of `sqfs_meta_reader_read`:
`diff = data_used - offset` computed in `size_t` (wraps); `if (diff == 0) { seek(next_block, 0); diff = data_used; }`.
Result: status of the seek (0 if none was needed), state, `diff`. -/
def refill (fix : Bool) (f : File) (unc : Codec) (m : MR) : Status × MR × Nat :=
  let diff0 := subWrap m.dataUsed m.offset
  if diff0 = 0 then
    let r := seek fix f unc m m.nextBlock 0
    (r.1, r.2, r.2.dataUsed)
  else (0, m, diff0)

/-- outcome of one iteration of the loop: the function returns (`done`), or `chunk` was copied out and the
loop continues with `size` bytes still wanted -/
inductive StepR where
  | done (st : Status) (m : MR)
  | more (m : MR) (size : Nat) (chunk : Bytes)

/-- body of the `while (size != 0)` loop of `sqfs_meta_reader_read` (entered with `size ≠ 0`) below the
position guard -/
def readStepBody (fix : Bool) (f : File) (unc : Codec) (m : MR) (size : Nat) : StepR :=
  let r := refill fix f unc m
  if r.1 ≠ 0 then .done r.1 r.2.1                                          -- if (ret) return ret;
  else
    let m1 := r.2.1
    let diff := if r.2.2 > size then size else r.2.2                       -- if (diff > size) diff = size
    if m1.offset + diff > m1.data.length then .done crashSt m1            -- memcpy source leaves m->data
    else .more { m1 with offset := m1.offset + diff } (size - diff) ((m1.data.drop m1.offset).take diff)

/-- one iteration of the `while (size != 0)` loop of `sqfs_meta_reader_read`.  The code in /repo (since
442364d, which came after the seek repair 8bf8edc) first rejects a read position beyond the loaded data:
`if (m->offset > m->data_used) return SQFS_ERROR_OUT_OF_BOUNDS;` — modelled for `fix = true` (= the code as it
is); `fix = false` is the code before both commits.  Under `Inv` the guard is dead (`readStep_of_le`). -/
def readStep (fix : Bool) (f : File) (unc : Codec) (m : MR) (size : Nat) : StepR :=
  if fix = true ∧ m.offset > m.dataUsed then .done errOutOfBounds m
  else readStepBody fix f unc m size

/-- the `while (size != 0)` loop of `sqfs_meta_reader_read`; one unit of fuel per iteration, `acc` = bytes
delivered so far. -/
def readLoop (fix : Bool) (f : File) (unc : Codec) : Nat → MR → Nat → Bytes → Status × Bytes × MR
  | 0, m, size, acc => if size = 0 then (0, acc, m) else (fuelSt, acc, m)
  | k + 1, m, size, acc =>
    if size = 0 then (0, acc, m) else
    match readStep fix f unc m size with
    | .done st m' => (st, acc, m')
    | .more m' size' chunk => readLoop fix f unc k m' size' (acc ++ chunk)

/-- `sqfs_meta_reader_read(m, buf, size)`: status, bytes delivered (meaningful when status = 0), new state -/
def read (fix : Bool) (f : File) (unc : Codec) (m : MR) (size : Nat) : Status × Bytes × MR :=
  readLoop fix f unc size m size []

/-! ### histories and queries -/

inductive Op where
  | seek (b o : Nat)
  | read (n : Nat)
  | pos
deriving DecidableEq, Repr

def step (fix : Bool) (f : File) (unc : Codec) (m : MR) : Op → MR
  | .seek b o => (seek fix f unc m b o).2
  | .read n => (read fix f unc m n).2.2
  | .pos => m

/-- state of the reader object after a history of API calls (results ignored, failures included) -/
def run (fix : Bool) (f : File) (unc : Codec) (m : MR) (h : List Op) : MR :=
  h.foldl (step fix f unc) m

/-- answers to the reads of a query, in order, stopping after the first failure; `endPos` = `get_position`
after the last read when everything succeeded -/
structure Answer where
  seekSt : Status
  reads : List (Status × Bytes)
  endPos : Option (Nat × Nat)
deriving DecidableEq, Repr

def answerReads (fix : Bool) (f : File) (unc : Codec) : MR → List Nat → List (Status × Bytes) × Option (Nat × Nat)
  | m, [] => ([], some (getPos m))
  | m, n :: ns =>
    let r := read fix f unc m n
    if r.1 ≠ 0 then ([(r.1, [])], none)
    else
      let rest := answerReads fix f unc r.2.2 ns
      ((0, r.2.1) :: rest.1, rest.2)

/-- A *query*: `seek(b, o)`, then `read(n)` for each `n ∈ ns` as long as everything succeeds, then
`get_position` — the shape of every use of the meta reader inside libsquashfs (`read_inode`, `readdir`,
`read_table`, the xattr reader). -/
def answer (fix : Bool) (f : File) (unc : Codec) (m : MR) (b o : Nat) (ns : List Nat) : Answer :=
  let s := seek fix f unc m b o
  if s.1 ≠ 0 then { seekSt := s.1, reads := [], endPos := none }
  else
    let r := answerReads fix f unc s.2 ns
    { seekSt := 0, reads := r.1, endPos := r.2 }

end Sqfs.MetaReader
