/-
Model of `rdsquashfs --unpack-path … --unpack-root R` (C06).

Three parts.

1. The tree as `sqfs_dir_reader_get_full_hierarchy` (lib/common/src/read_tree.c) hands it to the
   unpacker: `TNode`.  In the *raw* tree (what the image's directory table says) names and symlink
   targets are arbitrary byte strings, in arbitrary order, with arbitrary repetition.  `decode`
   mirrors `create_node`'s `strcpy` (names become C strings: cut at the first NUL), the fact that
   `inode->extra` of a symlink is used as a C string, and `fill_dir` (only directory inodes get
   children).  The inode *type* fixes `S_IFMT` of the mode (`set_mode`, read_inode.c), hence `Kind`.

2. `unpackTree`: the sequence of system calls the tool issues after `chdir(R)`:
   `tree_sort` (rdsquashfs.c: sort, reject duplicates) → `restore_fstree` (`create_node_dfs`,
   `create_node`) → `fill_unpacked_files` (`gen_file_list_dfs`, `add_file`, `fill_files`,
   `sqfs_ostream_open_file`) → `update_tree_attribs` (`set_attribs`, `set_xattr`), each walk with its
   own `is_filename_sane` gate and its own `sqfs_tree_node_get_path` + `canonicalize_name`.
   A walk that fails stops the tool: `Out.err`; what it issued up to there stays issued (`Out.evs`).

3. An abstract POSIX file system (`Fs`), path resolution with symlink following, and the effect of each
   system call with the follow / no-follow / `O_EXCL` rules the code relies on (`step`, `exec`).

4. The whole of `main`'s `OP_UNPACK` branch (`unpackMain`): `tree_sort`, then `mkdir_p(R)` (`mkdirPCuts`,
   mkdir_p.c) and `chdir(R)`, then the three walks; every system call can fail — by the abstract file
   system's own rules or because the environment says so (`Faults`: EPERM/EACCES of an unprivileged user,
   ENOSPC, EIO, … at any position) — and a failure that the C code does not tolerate ends the run with
   `EXIT_FAILURE`.  Failures that are not system calls are part of the plan: a data block that cannot be
   read while a file is filled (`Attr.copyFail`, `Err.dataRead`), an xattr index / key / value that cannot be
   read (`Attr.xattrFail`, `Err.xattrRead`).

Not modelled (documented in docs/design/C06.md): allocation failure and `size_t` overflow inside
`sqfs_tree_node_get_path`; the order `qsort(compare_files)` gives the file list (a parameter `ord`;
the theorems hold for every `ord` that invents no entries); the individual `write`/`lseek`/`fsync` calls on
the descriptor `fill_files` opened (they name no path; a failure among them is `copyFail`); stdout
progress lines.
-/
import Sqfs.Spec.Path
namespace Sqfs.Unpack
open Sqfs.Path

/-! ## 1. the tree -/

/-- A byte array used as a C string: the bytes before the first NUL. -/
def cstr : Bytes → Bytes
  | [] => []
  | c :: t => if c = 0 then [] else c :: cstr t

/-- `inode->base.mode & S_IFMT`, which `set_mode` derives from the inode type. -/
inductive Kind where
  | dir | reg | lnk | blk | chr | fifo | sock
  deriving DecidableEq, Repr, Inhabited

/-- what the unpacker reads from the inode / id table / xattr table besides the type -/
structure Attr where
  /-- `inode->base.mode & ~S_IFMT` -/
  perm : Nat := 0
  uid : Nat := 0
  gid : Nat := 0
  mtime : Nat := 0
  devno : Nat := 0
  /-- decoded key/value pairs (key with its prefix, as passed to `lsetxattr`); `[]` when the inode has
      no xattr index or the image has no xattr table -/
  xattrs : List (Bytes × Bytes) := []
  /-- fill_files.c: `some n` — the copy loop (`sqfs_data_reader_create_stream` / `sqfs_istream_splice` /
      `flush`) fails after `n` bytes of the content have been written (a data block the reader refuses);
      `none` — the whole content is written -/
  copyFail : Option Nat := none
  /-- restore_fstree.c `set_xattr`: `some k` — after `k` pairs have been set the xattr reader fails
      (`k = 0`: the index cannot be resolved / located; otherwise the next key or value cannot be read);
      `none` — all pairs are read -/
  xattrFail : Option Nat := none
  /-- `sqfs_inode_get_file_block_start`: where the file's data starts in the image; only `qsort(compare_files)` looks at it -/
  dataStart : Nat := 0
  deriving DecidableEq, Repr, Inhabited

/-- `sqfs_tree_node_t`.  `payload` = symlink target (`inode->extra`) for `lnk`, file content for `reg`. -/
inductive TNode where
  | mk (name : Bytes) (kind : Kind) (payload : Bytes) (attr : Attr) (children : List TNode)
  deriving Repr, Inhabited

def TNode.name : TNode → Bytes | .mk n _ _ _ _ => n
def TNode.kind : TNode → Kind | .mk _ k _ _ _ => k
def TNode.payload : TNode → Bytes | .mk _ _ p _ _ => p
def TNode.attr : TNode → Attr | .mk _ _ _ a _ => a
def TNode.children : TNode → List TNode | .mk _ _ _ _ c => c

/-- `-D -S -F -L -E`: the `SQFS_TREE_NO_*` flags of `sqfs_dir_reader_get_full_hierarchy` -/
structure TreeFlags where
  noDev : Bool := false
  noSock : Bool := false
  noFifo : Bool := false
  noSlink : Bool := false
  noEmpty : Bool := false
  deriving DecidableEq, Repr, Inhabited

/-- read_tree.c `should_skip`.  The C code looks at the type stored in the *directory entry*; the model assumes it
    agrees with the inode's type (the forge writes it so). -/
def shouldSkip (tf : TreeFlags) : Kind → Bool
  | .blk | .chr => tf.noDev
  | .lnk => tf.noSlink
  | .sock => tf.noSock
  | .fifo => tf.noFifo
  | _ => false

mutual
/-- read_tree.c `create_node` (`strcpy` of the entry name) and `fill_dir` (entries dropped by `should_skip`;
    recursion only into `SQFS_INODE_DIR`/`EXT_DIR`; with `SQFS_TREE_NO_EMPTY` a directory that ends up without
    children is dropped); restore_fstree.c uses `(const char *)n->inode->extra` as the target and
    `(const char *)key->key` as xattr name. -/
def decode (tf : TreeFlags) : TNode → TNode
  | .mk n k p a ch =>
    .mk (cstr n) k (if k = .lnk then cstr p else p)
      { a with xattrs := a.xattrs.map (fun kv => (cstr kv.1, kv.2)) }
      (if k = .dir then decodeL tf ch else [])
def decodeL (tf : TreeFlags) : List TNode → List TNode
  | [] => []
  | c :: cs =>
    if shouldSkip tf c.kind then decodeL tf cs
    else
      let c' := decode tf c
      if c'.kind = .dir && c'.children.isEmpty && tf.noEmpty then decodeL tf cs
      else c' :: decodeL tf cs
end

/-- `sqfs_dir_reader_get_full_hierarchy`'s walk along `--unpack-path` (already canonicalised by options.c, so
    `comps` are its non-empty components): at each level the *first* entry (directory-table order) whose
    C-string name equals the component; the new root keeps that entry's name. -/
inductive LookupErr where
  | noEntry | notDir
  deriving DecidableEq, Repr

def findChild (c : Bytes) : List TNode → Option TNode
  | [] => none
  | x :: xs => if cstr x.name = c then some x else findChild c xs

def lookup : TNode → List Bytes → Except LookupErr TNode
  | t, [] => .ok t
  | t, c :: cs =>
    if t.kind ≠ .dir then .error .notDir            -- `sqfs_dir_reader_open_dir` → SQFS_ERROR_NOT_DIR
    else match findChild c t.children with
      | none => .error .noEntry                       -- SQFS_ERROR_NO_ENTRY
      | some x => lookup x cs

/-! ## 2. the plan -/

inductive Syscall where
  /-- `mkdir(p, mode)`; the caller tolerates `EEXIST` -/
  | mkdir (p : Bytes) (mode : Nat)
  /-- `symlink(target, p)` -/
  | symlink (target p : Bytes)
  /-- `mknod(p, S_IF<kind> | mode, dev)` -/
  | mknod (p : Bytes) (kind : Kind) (mode dev : Nat)
  /-- `open(p, O_WRONLY | O_CREAT | O_EXCL, mode)` + `close` -/
  | openExcl (p : Bytes) (mode : Nat)
  /-- `open(p, O_CREAT | O_RDWR | O_TRUNC, 0644)` (follows a symlink in the last component), the writes, `close` -/
  | openTrunc (p : Bytes) (data : Bytes)
  /-- `lsetxattr` (`nofollow = true`) / `setxattr` -/
  | setxattr (p key val : Bytes) (nofollow : Bool)
  /-- `utimensat(AT_FDCWD, p, {t,t}, nofollow ? AT_SYMLINK_NOFOLLOW : 0)` -/
  | utimens (p : Bytes) (t : Nat) (nofollow : Bool)
  /-- `fchownat(AT_FDCWD, p, uid, gid, nofollow ? AT_SYMLINK_NOFOLLOW : 0)` -/
  | chown (p : Bytes) (uid gid : Nat) (nofollow : Bool)
  /-- `fchmodat(AT_FDCWD, p, mode, 0)`: always follows -/
  | chmod (p : Bytes) (mode : Nat)
  deriving DecidableEq, Repr

def Syscall.path : Syscall → Bytes
  | .mkdir p _ | .symlink _ p | .mknod p _ _ _ | .openExcl p _ | .openTrunc p _
  | .setxattr p _ _ _ | .utimens p _ _ | .chown p _ _ _ | .chmod p _ => p

/-- does the call follow a symbolic link in the last component of its path? -/
def Syscall.follows : Syscall → Bool
  | .openTrunc _ _ | .chmod _ _ => true
  | .setxattr _ _ _ nf | .utimens _ _ nf | .chown _ _ _ nf => !nf
  | _ => false

/-- the unpack options that change which calls are made (`-q`, `-Z` do not) -/
structure Flags where
  chmod : Bool := false
  chown : Bool := false
  setXattr : Bool := false
  setTimes : Bool := false
  /-- `xattr != NULL` in `main`: the super block does not carry `SQFS_FLAG_NO_XATTRS`, an xattr reader exists.
      (`set_attribs` calls `set_xattr` only if `(flags & UNPACK_SET_XATTR) && xattr != NULL`.) -/
  xattrRd : Bool := true
  deriving DecidableEq, Repr, Inhabited

inductive Err where
  /-- `tree_sort`: "Entry … found more than once!" -/
  | duplicate
  /-- `sqfs_tree_node_get_path`: `SQFS_ERROR_CORRUPTED` (empty name, '/', "." or "..") -/
  | corrupted
  /-- `sqfs_tree_node_get_path`: `SQFS_ERROR_ARG_INVALID` (the walk ends at a node with a name) -/
  | argInvalid
  /-- `assert(ret == 0)` after `canonicalize_name` / add_file's "Invalid file path" -/
  | canonFail
  /-- fill_files.c: "…: unpacking" / `sqfs_data_reader_create_stream` failed — the file was opened (and
      truncated), part of it may have been written, the run ends -/
  | dataRead
  /-- restore_fstree.c `set_xattr`: "Error resolving xattr index" / "Error locating xattr key-value pairs" /
      "Error reading xattr key" / "Error reading xattr value" -/
  | xattrRead
  deriving DecidableEq, Repr

inductive Ev where
  | sys (s : Syscall)
  /-- "Found an entry named '%s', skipping." on stderr -/
  | skip (name : Bytes)
  deriving DecidableEq, Repr

/-- what a walk did (`evs`, in order) and whether it then failed -/
structure Out where
  evs : List Ev := []
  err : Option Err := none
  deriving Repr

/-- `if (a) return -1; b` -/
def Out.seq (a b : Out) : Out :=
  match a.err with
  | some _ => a
  | none => ⟨a.evs ++ b.evs, b.err⟩

/-- the per-component checks of `sqfs_tree_node_get_path` -/
def badComp (c : Bytes) : Bool :=
  c.isEmpty || c.contains SL || c == [DOT] || c == [DOT, DOT]

/-- `sqfs_tree_node_get_path` for a node whose names from just below the root down to itself are `comps`
    (`[]` for the root itself) in a tree whose root is called `rn`. -/
def getPath (rn : Bytes) (comps : List Bytes) : Except Err Bytes :=
  if comps.any badComp then .error .corrupted
  else if !rn.isEmpty then .error .argInvalid
  else if comps.isEmpty then .ok [SL]
  else .ok (comps.flatMap (SL :: ·))

/-- `sqfs_tree_node_get_path` followed by `canonicalize_name` -/
def pathOf (rn : Bytes) (comps : List Bytes) : Except Err Bytes :=
  match getPath rn comps with
  | .error e => .error e
  | .ok s => match canonicalize s with
    | none => .error .canonFail
    | some p => .ok p

/-- restore_fstree.c `create_node` (POSIX branch) -/
def createNode (k : Kind) (p payload : Bytes) (a : Attr) (fl : Flags) : Syscall :=
  match k with
  | .dir => .mkdir p 0o755
  | .lnk => .symlink payload p
  | .sock => .mknod p .sock 0o700 0
  | .fifo => .mknod p .fifo 0o700 0
  | .blk => .mknod p .blk 0 a.devno
  | .chr => .mknod p .chr 0 a.devno
  | .reg => .openExcl p (if fl.chmod then a.perm ||| 0o200 else 0o644)

mutual
/-- `create_node_dfs`; `comps` = the node's names below the root -/
def createDfs (rn : Bytes) (fl : Flags) (comps : List Bytes) : TNode → Out
  | .mk name k payload a ch =>
    if !isFilenameSane name then ⟨[.skip name], none⟩                 -- gate 1: skip node and subtree
    else match pathOf rn comps with
      | .error e => ⟨[], some e⟩
      | .ok p =>
        Out.seq ⟨[.sys (createNode k p payload a fl)], none⟩
          (if k = .dir then createList rn fl comps ch else ⟨[], none⟩)
def createList (rn : Bytes) (fl : Flags) (anc : List Bytes) : List TNode → Out
  | [] => ⟨[], none⟩
  | c :: cs => Out.seq (createDfs rn fl (anc ++ [c.name]) c) (createList rn fl anc cs)
end

/-- `restore_fstree` -/
def restoreFstree (fl : Flags) (t : TNode) : Out :=
  if t.kind = .dir then createList t.name fl [] t.children else createDfs t.name fl [] t

structure FileEnt where
  path : Bytes
  /-- what the copy loop writes -/
  data : Bytes
  /-- … and whether it then fails (`Attr.copyFail`) -/
  fail : Bool := false
  /-- the inode's data start (`Attr.dataStart`), the key `compare_files` sorts by when no file has a fragment -/
  loc : Nat := 0
  deriving DecidableEq, Repr

/-- the entry `add_file` makes for a regular file: what the copy loop will write, and whether it then fails -/
def mkFileEnt (p payload : Bytes) (a : Attr) : FileEnt :=
  ⟨p, match a.copyFail with | none => payload | some n => payload.take n, a.copyFail.isSome, a.dataStart⟩

/-- insert into a list sorted by `loc`, behind the entries that are not larger (stable) -/
def insertFile (x : FileEnt) : List FileEnt → List FileEnt
  | [] => [x]
  | y :: ys => if x.loc < y.loc then x :: y :: ys else y :: insertFile x ys

/-- fill_files.c `qsort(files, num_files, …, compare_files)` for an image without fragments (every file has
    `frag_idx = 0xFFFFFFFF`, so `compare_files` orders by start block only): the list sorted by `loc`.  Entries with equal
    `loc` (hard links, empty files that share a start) keep their order here; `qsort` may put them in any order. -/
def ordByLoc : List FileEnt → List FileEnt
  | [] => []
  | x :: xs => insertFile x (ordByLoc xs)

structure GenOut where
  evs : List Ev := []
  files : List FileEnt := []
  err : Option Err := none

def GenOut.seq (a b : GenOut) : GenOut :=
  match a.err with
  | some _ => a
  | none => ⟨a.evs ++ b.evs, a.files ++ b.files, b.err⟩

mutual
/-- `gen_file_list_dfs` + `add_file` -/
def genFiles (rn : Bytes) (comps : List Bytes) : TNode → GenOut
  | .mk name k payload a ch =>
    if !isFilenameSane name then ⟨[.skip name], [], none⟩            -- gate 2
    else if k = .reg then
      match pathOf rn comps with
      | .error e => ⟨[], [], some e⟩
      | .ok p => ⟨[], [mkFileEnt p payload a], none⟩
    else if k = .dir then genFilesL rn comps ch
    else ⟨[], [], none⟩
def genFilesL (rn : Bytes) (anc : List Bytes) : List TNode → GenOut
  | [] => ⟨[], [], none⟩
  | c :: cs => GenOut.seq (genFiles rn (anc ++ [c.name]) c) (genFilesL rn anc cs)
end

/-- `fill_files`: one `sqfs_ostream_open_file` (+ the copy loop) per entry; the first entry whose copy loop
    fails ends the walk (`return -1` after the file has been opened and partly written) -/
def fillFiles : List FileEnt → Out
  | [] => ⟨[], none⟩
  | f :: r => Out.seq ⟨[.sys (.openTrunc f.path f.data)], if f.fail then some .dataRead else none⟩ (fillFiles r)

/-- `fill_unpacked_files`: list, `qsort` (`ord`), `fill_files` -/
def fillUnpacked (ord : List FileEnt → List FileEnt) (t : TNode) : Out :=
  let g := genFiles t.name [] t
  match g.err with
  | some e => ⟨g.evs, some e⟩
  | none => Out.seq ⟨g.evs, none⟩ (fillFiles (ord g.files))

/-- restore_fstree.c `set_xattr` for a node with an xattr index: one `lsetxattr` per pair the reader delivers;
    the reader's failure (`xattrFail`) ends the run -/
def xattrOps (p : Bytes) (a : Attr) : Out :=
  match a.xattrFail with
  | none => ⟨a.xattrs.map (fun kv => Ev.sys (.setxattr p kv.1 kv.2 true)), none⟩
  | some k => ⟨(a.xattrs.take k).map (fun kv => Ev.sys (.setxattr p kv.1 kv.2 true)), some .xattrRead⟩

/-- the calls of `set_attribs` after `set_xattr` -/
def attrTail (fl : Flags) (k : Kind) (p : Bytes) (a : Attr) : List Ev :=
  (if fl.setTimes then [.sys (.utimens p a.mtime true)] else [])
  ++ (if fl.chown then [.sys (.chown p a.uid a.gid true)] else [])
  ++ (if fl.chmod && k != .lnk then [.sys (.chmod p a.perm)] else [])

/-- the tail of `set_attribs` for one node -/
def attrOps (fl : Flags) (k : Kind) (p : Bytes) (a : Attr) : Out :=
  Out.seq (if fl.setXattr && fl.xattrRd then xattrOps p a else ⟨[], none⟩) ⟨attrTail fl k p a, none⟩

mutual
/-- `set_attribs` (children first) -/
def setAttribs (rn : Bytes) (fl : Flags) (comps : List Bytes) : TNode → Out
  | .mk name k _ a ch =>
    if !isFilenameSane name then ⟨[], none⟩                             -- gate 3 (silent)
    else Out.seq (if k = .dir then setAttribsL rn fl comps ch else ⟨[], none⟩)
      (match pathOf rn comps with
       | .error e => ⟨[], some e⟩
       | .ok p => attrOps fl k p a)
def setAttribsL (rn : Bytes) (fl : Flags) (anc : List Bytes) : List TNode → Out
  | [] => ⟨[], none⟩
  | c :: cs => Out.seq (setAttribs rn fl (anc ++ [c.name]) c) (setAttribsL rn fl anc cs)
end

/-- `update_tree_attribs` -/
def updateAttribs (fl : Flags) (t : TNode) : Out :=
  if !(fl.chown || fl.chmod || fl.setTimes || fl.setXattr) then ⟨[], none⟩
  else if t.kind = .dir then setAttribsL t.name fl [] t.children else setAttribs t.name fl [] t

/-! ### `tree_sort` -/

/-- `strcmp(a, b) <= 0` on C strings (unsigned bytes) -/
def strLe : Bytes → Bytes → Bool
  | [], _ => true
  | _ :: _, [] => false
  | a :: as, b :: bs => if a < b then true else if b < a then false else strLe as bs

/-- insert into a sorted list, before the first element that is not strictly smaller (stable) -/
def insertNode (x : TNode) : List TNode → List TNode
  | [] => [x]
  | y :: ys => if strLe x.name y.name then x :: y :: ys else y :: insertNode x ys

/-- `list_sort`: the C code is a stable merge sort (`list_merge` takes from the left list on `<= 0`); the
    result of a stable sort is unique, so it is modelled by the structurally recursive stable insertion sort. -/
def sortNodes : List TNode → List TNode
  | [] => []
  | x :: xs => insertNode x (sortNodes xs)

/-- the loop `strcmp(it->name, it->next->name) == 0` -/
def hasAdjDup : List TNode → Bool
  | a :: b :: r => a.name == b.name || hasAdjDup (b :: r)
  | _ => false

mutual
/-- `tree_sort`.  The C code sorts a level, checks it, then recurses; here the recursion comes first so that it
    is structural.  The outcome (error iff some level has two equal names; otherwise every level sorted) is
    the same; only which duplicate is *named* in the message differs, and that is not modelled. -/
def treeSort : TNode → Except Err TNode
  | .mk n k p a ch =>
    match treeSortL ch with
    | .error e => .error e
    | .ok ch' =>
      let s := sortNodes ch'
      if hasAdjDup s then .error .duplicate else .ok (.mk n k p a s)
def treeSortL : List TNode → Except Err (List TNode)
  | [] => .ok []
  | c :: cs =>
    match treeSort c with
    | .error e => .error e
    | .ok c' => match treeSortL cs with
      | .error e => .error e
      | .ok cs' => .ok (c' :: cs')
end

/-- the three walks on the sorted tree: `restore_fstree`, `fill_unpacked_files`, `update_tree_attribs` -/
def planSorted (ord : List FileEnt → List FileEnt) (fl : Flags) (t' : TNode) : Out :=
  (restoreFstree fl t').seq ((fillUnpacked ord t').seq (updateAttribs fl t'))

/-- `tree_sort` and everything after `chdir(R)` in `main`, on the tree `sqfs_dir_reader_get_full_hierarchy` returned -/
def unpackTree (ord : List FileEnt → List FileEnt) (fl : Flags) (t : TNode) : Out :=
  match treeSort t with
  | .error e => ⟨[], some e⟩
  | .ok t' => planSorted ord fl t'

/-- the plan for a raw tree (the driver uses directory order for the file list; the check compares the
    fill phase as a multiset) -/
def unpackPlan (raw : TNode) (fl : Flags) (tf : TreeFlags := {}) : Out := unpackTree id fl (decode tf raw)

/-- the same with the file list in `compare_files` order -/
def unpackPlanQ (raw : TNode) (fl : Flags) (tf : TreeFlags := {}) : Out := unpackTree ordByLoc fl (decode tf raw)

def Out.syscalls (o : Out) : List Syscall :=
  o.evs.filterMap (fun | .sys s => some s | .skip _ => none)

def Out.skips (o : Out) : List Bytes :=
  o.evs.filterMap (fun | .sys _ => none | .skip n => some n)

/-! ## 3. abstract POSIX file system -/

inductive FKind where
  | dir
  | file (content : Bytes)
  | symlink (target : Bytes)
  | special (k : Kind) (dev : Nat)
  deriving DecidableEq, Repr

structure FAttr where
  perm : Nat := 0
  uid : Nat := 0
  gid : Nat := 0
  mtime : Nat := 0
  xattrs : List (Bytes × Bytes) := []
  deriving DecidableEq, Repr

structure Node where
  kind : FKind
  attr : FAttr := {}
  deriving DecidableEq, Repr

/-- absolute path = list of components from `/` -/
abbrev PathC := List Bytes

/-- a file system: which object sits at which absolute path -/
abbrev Fs := PathC → Option Node

def Fs.set (fs : Fs) (key : PathC) (n : Node) : Fs := fun q => if q = key then some n else fs q

inductive Errno where
  | ENOENT | EEXIST | ENOTDIR | ELOOP | ENAMETOOLONG | EISDIR | EPERM | ENXIO | EINVAL
  -- only ever injected by the environment (`Faults`), never produced by `step`:
  | EACCES | ENOSPC | EIO | EROFS | EDQUOT | ENOTSUP | ENOSYS | EINTR | ENOMEM | EMFILE | EBUSY
  deriving DecidableEq, Repr

abbrev NAME_MAX : Nat := 255
abbrev PATH_MAX : Nat := 4096
abbrev MAXSYMLINKS : Nat := 40

abbrev Res := Except Errno (PathC × Option Node)

/--
Walk `comps` from directory `cur`.  `k` continues after a symlink has been read (with less fuel).
Result: the absolute path the name denotes and what is there now (`none`: nothing, but the parent exists).
* "" and "." stay, ".." goes up;
* a missing intermediate component is `ENOENT`, a non-directory one `ENOTDIR`;
* a symlink is followed unless it is the last component and `followLast = false`.
-/
def walkL (k : PathC → List Bytes → Bool → Res) (fs : Fs) : PathC → List Bytes → Bool → Res
  | cur, [], _ => .ok (cur, fs cur)
  | cur, c :: rest, fl =>
    if c = [] ∨ c = [DOT] then walkL k fs cur rest fl
    else if c = [DOT, DOT] then walkL k fs cur.dropLast rest fl
    else if c.length > NAME_MAX then .error .ENAMETOOLONG
    else match fs (cur ++ [c]) with
      | none => if rest.isEmpty then .ok (cur ++ [c], none) else .error .ENOENT
      | some ⟨.dir, a⟩ => if rest.isEmpty then .ok (cur ++ [c], some ⟨.dir, a⟩) else walkL k fs (cur ++ [c]) rest fl
      | some ⟨.symlink tgt, a⟩ =>
        if rest.isEmpty && !fl then .ok (cur ++ [c], some ⟨.symlink tgt, a⟩)
        else if tgt.isEmpty then .error .ENOENT
        else k (if tgt.head? = some SL then [] else cur) (splitSlash tgt ++ rest) fl
      | some n => if rest.isEmpty then .ok (cur ++ [c], some n) else .error .ENOTDIR

def walk : Nat → Fs → PathC → List Bytes → Bool → Res
  | 0, fs => walkL (fun _ _ _ => .error .ELOOP) fs
  | n + 1, fs => walkL (walk n fs) fs

/-- resolve the C string `s` relative to `cwd` -/
def resolve (fs : Fs) (cwd : PathC) (s : Bytes) (followLast : Bool) : Res :=
  if s.isEmpty then .error .ENOENT
  else if s.length ≥ PATH_MAX then .error .ENAMETOOLONG
  else walk MAXSYMLINKS fs (if s.head? = some SL then [] else cwd) (splitSlash s) followLast

def FKind.isUserXattrOk : FKind → Bool
  | .dir | .file _ => true
  | _ => false

def setKV (k v : Bytes) : List (Bytes × Bytes) → List (Bytes × Bytes)
  | [] => [(k, v)]
  | (k', v') :: r => if k' = k then (k, v) :: r else (k', v') :: setKV k v r

/-- "user." -/
def userPrefix : Bytes := [117, 115, 101, 114, 46]
/-- "trusted." -/
def trustedPrefix : Bytes := [116, 114, 117, 115, 116, 101, 100, 46]
/-- "security." -/
def securityPrefix : Bytes := [115, 101, 99, 117, 114, 105, 116, 121, 46]

/-- `(uid_t)-1`: leave unchanged -/
abbrev ID_KEEP : Nat := 0xFFFFFFFF

/-- effect of one system call issued with working directory `cwd` -/
def step (fs : Fs) (cwd : PathC) : Syscall → Except Errno Fs
  | .mkdir p mode =>
    match resolve fs cwd p false with
    | .error e => .error e
    | .ok (_, some _) => .error .EEXIST
    | .ok (key, none) => .ok (fs.set key ⟨.dir, { perm := mode }⟩)
  | .symlink t p =>
    if t.isEmpty then .error .ENOENT
    else if t.length ≥ PATH_MAX then .error .ENAMETOOLONG
    else match resolve fs cwd p false with
    | .error e => .error e
    | .ok (_, some _) => .error .EEXIST
    | .ok (key, none) => .ok (fs.set key ⟨.symlink t, { perm := 0o777 }⟩)
  | .mknod p k mode dev =>
    match resolve fs cwd p false with
    | .error e => .error e
    | .ok (_, some _) => .error .EEXIST
    | .ok (key, none) => .ok (fs.set key ⟨.special k dev, { perm := mode }⟩)
  | .openExcl p mode =>
    match resolve fs cwd p false with                 -- O_CREAT|O_EXCL: a symlink in the last component is EEXIST
    | .error e => .error e
    | .ok (_, some _) => .error .EEXIST
    | .ok (key, none) => .ok (fs.set key ⟨.file [], { perm := mode }⟩)
  | .openTrunc p data =>
    match resolve fs cwd p true with                  -- follows; creates through a dangling symlink
    | .error e => .error e
    | .ok (key, none) => .ok (fs.set key ⟨.file data, { perm := 0o644 }⟩)
    | .ok (key, some ⟨.file _, a⟩) => .ok (fs.set key ⟨.file data, a⟩)
    | .ok (_, some ⟨.dir, _⟩) => .error .EISDIR
    | .ok (_, some ⟨.symlink _, _⟩) => .error .ELOOP
    | .ok (_, some ⟨.special .sock _, _⟩) => .error .ENXIO
    | .ok (_, some ⟨.special _ _, _⟩) => .ok fs        -- FIFO / device opened O_RDWR: no change to the name space
  | .setxattr p k v nofollow =>
    match resolve fs cwd p (!nofollow) with
    | .error e => .error e
    | .ok (_, none) => .error .ENOENT
    | .ok (key, some n) =>
      if userPrefix.isPrefixOf k && !n.kind.isUserXattrOk then .error .EPERM            -- user.* only on files and directories
      else if k = userPrefix ∨ k = trustedPrefix ∨ k = securityPrefix then .error .EINVAL   -- empty name after the prefix
      else .ok (fs.set key { n with attr := { n.attr with xattrs := setKV k v n.attr.xattrs } })
  | .utimens p t nofollow =>
    match resolve fs cwd p (!nofollow) with
    | .error e => .error e
    | .ok (_, none) => .error .ENOENT
    | .ok (key, some n) => .ok (fs.set key { n with attr := { n.attr with mtime := t } })
  | .chown p u g nofollow =>
    match resolve fs cwd p (!nofollow) with
    | .error e => .error e
    | .ok (_, none) => .error .ENOENT
    | .ok (key, some n) =>
      .ok (fs.set key { n with attr := { n.attr with uid := if u = ID_KEEP then n.attr.uid else u,
                                                      gid := if g = ID_KEEP then n.attr.gid else g } })
  | .chmod p m =>
    match resolve fs cwd p true with
    | .error e => .error e
    | .ok (_, none) => .error .ENOENT
    | .ok (key, some n) => .ok (fs.set key { n with attr := { n.attr with perm := m } })

/-- errors the caller ignores: `mkdir(...) && errno != EEXIST` -/
def tolerated : Syscall → Errno → Bool
  | .mkdir _ _, .EEXIST => true
  | _, _ => false

/-- run the calls in order; the first call that fails (and is not tolerated) ends the run -/
def exec (cwd : PathC) : Fs → List Syscall → Fs
  | fs, [] => fs
  | fs, sc :: r =>
    match step fs cwd sc with
    | .ok fs' => exec cwd fs' r
    | .error e => if tolerated sc e then exec cwd fs r else fs

/-- same, also returning each executed call's result (`none` = success) -/
def execTrace (cwd : PathC) : Fs → List Syscall → Fs × List (Syscall × Option Errno)
  | fs, [] => (fs, [])
  | fs, sc :: r =>
    match step fs cwd sc with
    | .ok fs' => let (f, t) := execTrace cwd fs' r; (f, (sc, none) :: t)
    | .error e =>
      if tolerated sc e then let (f, t) := execTrace cwd fs r; (f, (sc, some e) :: t)
      else (fs, [(sc, some e)])

/-! ## 4. the whole `OP_UNPACK` branch of `main`, with failing calls -/

/-- What the environment adds to the abstract file system's own failures: `flt i = some e` makes the `i`-th
    system call of the run (counting `mkdir_p`'s calls, then `chdir`, then the walks' calls) fail with `e` without
    any effect — `EPERM`/`EACCES` for an unprivileged user, `ENOSPC`, `EIO`, `EROFS`, a quota, … .  The theorems
    quantify over every `Faults`. -/
abbrev Faults := Nat → Option Errno

def noFaults : Faults := fun _ => none

/-- one call under a possible environment fault -/
def stepF (flt : Option Errno) (fs : Fs) (cwd : PathC) (sc : Syscall) : Except Errno Fs :=
  match flt with
  | some e => .error e
  | none => step fs cwd sc

/-- result of running a list of calls -/
structure Run where
  fs : Fs
  /-- the calls made, in order, each with its result (`none` = success) -/
  trace : List (Syscall × Option Errno) := []
  /-- the last call of `trace` failed and the C code does not tolerate that: `return -1` -/
  failed : Bool := false

/-- Run the calls in order, the `j`-th of them being call number `i + j` for the environment.  The first call that
    fails — and is not a `mkdir` answering `EEXIST` — ends the run: every caller does `return -1` / `goto fail`. -/
def run (flt : Faults) (cwd : PathC) : Nat → Fs → List Syscall → Run
  | _, fs, [] => ⟨fs, [], false⟩
  | i, fs, sc :: r =>
    match stepF (flt i) fs cwd sc with
    | .ok fs' => let x := run flt cwd (i + 1) fs' r; ⟨x.fs, (sc, none) :: x.trace, x.failed⟩
    | .error e =>
      if tolerated sc e then let x := run flt cwd (i + 1) fs r; ⟨x.fs, (sc, some e) :: x.trace, x.failed⟩
      else ⟨fs, [(sc, some e)], true⟩

/-- mkdir_p.c (POSIX branch), the loop `for (i = 0; i < len; ++i)` with `len = strlen(path) + 1`: `pre` = the bytes
    copied to `buffer` so far (`i = pre.length`); at a '/' and at the terminating NUL, if `i > 0`, `buffer` is handed to `mkdir`. -/
def mkdirPGo (pre : Bytes) : Bytes → List Bytes
  | [] => if pre.isEmpty then [] else [pre]
  | c :: t => (if c = SL ∧ !pre.isEmpty then [pre] else []) ++ mkdirPGo (pre ++ [c]) t

/-- `while (path[0] == '/' && path[1] == '/') ++path;` -/
def stripSlashes : Bytes → Bytes
  | [] => []
  | a :: t => match t with
    | [] => [a]
    | b :: _ => if a = SL ∧ b = SL then stripSlashes t else a :: t

/-- the strings `mkdir_p(path)` hands to `mkdir(…, 0755)`, in order (`[]` for "" and "/") -/
def mkdirPCuts (path : Bytes) : List Bytes :=
  let p := stripSlashes path
  if p = [] ∨ p = [SL] then [] else mkdirPGo [] p

/-- `mkdir_p(R)`: each `mkdir(buffer, 0755)`; `EEXIST` is tolerated, anything else is "mkdir …: …", `return -1` -/
def mkdirP (flt : Faults) (cwd : PathC) (fs : Fs) (R : Bytes) : Run :=
  run flt cwd 0 fs ((mkdirPCuts R).map (Syscall.mkdir · 0o755))

/-- `chdir(p)`: the path must resolve — following symbolic links, also in the last component — to a directory;
    that directory (its absolute, link-free path) becomes the working directory -/
def chdir (fs : Fs) (cwd : PathC) (p : Bytes) : Except Errno PathC :=
  match resolve fs cwd p true with
  | .error e => .error e
  | .ok (_, none) => .error .ENOENT
  | .ok (key, some ⟨.dir, _⟩) => .ok key
  | .ok (_, some _) => .error .ENOTDIR

def chdirF (flt : Option Errno) (fs : Fs) (cwd : PathC) (p : Bytes) : Except Errno PathC :=
  match flt with
  | some e => .error e
  | none => chdir fs cwd p

/-- everything `main` does for `OP_UNPACK` once the tree has been read -/
structure MainRun where
  /-- final file system -/
  fs : Fs
  /-- the file system when `mkdir_p` was done (= initial one without `--unpack-root`) -/
  fsEst : Fs
  /-- working directory at the end -/
  cwd : PathC
  /-- `mkdir_p`'s calls -/
  pre : List (Syscall × Option Errno) := []
  /-- `chdir`: `none` = not attempted, `some none` = done, `some (some e)` = failed -/
  chdirRes : Option (Option Errno) := none
  /-- the calls of the three walks -/
  trace : List (Syscall × Option Errno) := []
  /-- the walks were reached: `tree_sort` passed and the unpack root (if any) is the working directory -/
  established : Bool := false
  /-- `EXIT_SUCCESS` = 0 / `EXIT_FAILURE` = 1 -/
  exit : Nat := 1

/-- rdsquashfs.c `main`, `case OP_UNPACK` (and the `return status` behind it): `tree_sort`; `mkdir_p(unpack_root)`
    and `chdir(unpack_root)` if `-p` was given — each failure is `goto out` with `EXIT_FAILURE`; then the three walks,
    ended by the first failing call or by the plan's own error. -/
def unpackMain (ord : List FileEnt → List FileEnt) (fl : Flags) (t : TNode) (root : Option Bytes) (flt : Faults)
    (cwd₀ : PathC) (fs₀ : Fs) : MainRun :=
  match treeSort t with
  | .error _ => { fs := fs₀, fsEst := fs₀, cwd := cwd₀ }
  | .ok t' =>
    let plan := planSorted ord fl t'
    match root with
    | none =>
      let r := run flt cwd₀ 0 fs₀ plan.syscalls
      { fs := r.fs, fsEst := fs₀, cwd := cwd₀, trace := r.trace, established := true,
        exit := if r.failed || plan.err.isSome then 1 else 0 }
    | some R =>
      let m := mkdirP flt cwd₀ fs₀ R
      if m.failed then { fs := m.fs, fsEst := m.fs, cwd := cwd₀, pre := m.trace }
      else
        let n := (mkdirPCuts R).length
        match chdirF (flt n) m.fs cwd₀ R with
        | .error e => { fs := m.fs, fsEst := m.fs, cwd := cwd₀, pre := m.trace, chdirRes := some (some e) }
        | .ok c =>
          let r := run flt c (n + 1) m.fs plan.syscalls
          { fs := r.fs, fsEst := m.fs, cwd := c, pre := m.trace, chdirRes := some none, trace := r.trace,
            established := true, exit := if r.failed || plan.err.isSome then 1 else 0 }

end Sqfs.Unpack
