/-
Model of `rdsquashfs --unpack-path … --unpack-root R` (C06).

Three parts.

1. The tree as `sqfs_dir_reader_get_full_hierarchy` (lib/common/src/read_tree.c) hands it to the
   unpacker: `TNode`.  In the *raw* tree (what the image's directory table says) names and symlink
   targets are arbitrary byte strings, in arbitrary order, with arbitrary repetition.  `decode`
   mirrors `create_node`'s `strcpy` (names become C strings: cut at the first NUL), the fact that
   `inode->extra` of a symlink is used as a C string, and `fill_dir` (only directory inodes get
   children).  The inode *type* fixes `S_IFMT` of the mode (`set_mode`, read_inode.c), hence `Kind`.

2. `unpackTree`: the sequence of system calls the tool issues after `chdir(R)`:
   `tree_sort` (rdsquashfs.c: sort, reject duplicates) → `restore_fstree` (`create_node_dfs`,
   `create_node`) → `fill_unpacked_files` (`gen_file_list_dfs`, `add_file`, `fill_files`,
   `sqfs_ostream_open_file`) → `update_tree_attribs` (`set_attribs`, `set_xattr`), each walk with its
   own `is_filename_sane` gate and its own `sqfs_tree_node_get_path` + `canonicalize_name`.
   A walk that fails stops the tool: `Out.err`; what it issued up to there stays issued (`Out.evs`).

3. An abstract POSIX file system (`Fs`), path resolution with symlink following, and the effect of each
   system call with the follow / no-follow / `O_EXCL` rules the code relies on (`step`, `exec`).

Not modelled (documented in docs/design/C06.md): allocation failure and `size_t` overflow inside
`sqfs_tree_node_get_path`; the order `qsort(compare_files)` gives the file list (a parameter `ord`;
the theorems hold for every `ord` that invents no entries); data-reader failures while a file is filled
(they only stop the run earlier); stdout progress lines.
-/
import Sqfs.Spec.Path
namespace Sqfs.Unpack
open Sqfs.Path

/-! ## 1. the tree -/

/-- A byte array used as a C string: the bytes before the first NUL. -/
def cstr : Bytes → Bytes
  | [] => []
  | c :: t => if c = 0 then [] else c :: cstr t

/-- `inode->base.mode & S_IFMT`, which `set_mode` derives from the inode type. -/
inductive Kind where
  | dir | reg | lnk | blk | chr | fifo | sock
  deriving DecidableEq, Repr, Inhabited

/-- what the unpacker reads from the inode / id table / xattr table besides the type -/
structure Attr where
  /-- `inode->base.mode & ~S_IFMT` -/
  perm : Nat := 0
  uid : Nat := 0
  gid : Nat := 0
  mtime : Nat := 0
  devno : Nat := 0
  /-- decoded key/value pairs (key with its prefix, as passed to `lsetxattr`); `[]` when the inode has
      no xattr index or the image has no xattr table -/
  xattrs : List (Bytes × Bytes) := []
  deriving DecidableEq, Repr, Inhabited

/-- `sqfs_tree_node_t`.  `payload` = symlink target (`inode->extra`) for `lnk`, file content for `reg`. -/
inductive TNode where
  | mk (name : Bytes) (kind : Kind) (payload : Bytes) (attr : Attr) (children : List TNode)
  deriving Repr, Inhabited

def TNode.name : TNode → Bytes | .mk n _ _ _ _ => n
def TNode.kind : TNode → Kind | .mk _ k _ _ _ => k
def TNode.payload : TNode → Bytes | .mk _ _ p _ _ => p
def TNode.attr : TNode → Attr | .mk _ _ _ a _ => a
def TNode.children : TNode → List TNode | .mk _ _ _ _ c => c

/-- `-D -S -F -L -E`: the `SQFS_TREE_NO_*` flags of `sqfs_dir_reader_get_full_hierarchy` -/
structure TreeFlags where
  noDev : Bool := false
  noSock : Bool := false
  noFifo : Bool := false
  noSlink : Bool := false
  noEmpty : Bool := false
  deriving DecidableEq, Repr, Inhabited

/-- read_tree.c `should_skip`.  The C code looks at the type stored in the *directory entry*; the model assumes it
    agrees with the inode's type (the forge writes it so). -/
def shouldSkip (tf : TreeFlags) : Kind → Bool
  | .blk | .chr => tf.noDev
  | .lnk => tf.noSlink
  | .sock => tf.noSock
  | .fifo => tf.noFifo
  | _ => false

mutual
/-- read_tree.c `create_node` (`strcpy` of the entry name) and `fill_dir` (entries dropped by `should_skip`;
    recursion only into `SQFS_INODE_DIR`/`EXT_DIR`; with `SQFS_TREE_NO_EMPTY` a directory that ends up without
    children is dropped); restore_fstree.c uses `(const char *)n->inode->extra` as the target and
    `(const char *)key->key` as xattr name. -/
def decode (tf : TreeFlags) : TNode → TNode
  | .mk n k p a ch =>
    .mk (cstr n) k (if k = .lnk then cstr p else p)
      { a with xattrs := a.xattrs.map (fun kv => (cstr kv.1, kv.2)) }
      (if k = .dir then decodeL tf ch else [])
def decodeL (tf : TreeFlags) : List TNode → List TNode
  | [] => []
  | c :: cs =>
    if shouldSkip tf c.kind then decodeL tf cs
    else
      let c' := decode tf c
      if c'.kind = .dir && c'.children.isEmpty && tf.noEmpty then decodeL tf cs
      else c' :: decodeL tf cs
end

/-- `sqfs_dir_reader_get_full_hierarchy`'s walk along `--unpack-path` (already canonicalised by options.c, so
    `comps` are its non-empty components): at each level the *first* entry (directory-table order) whose
    C-string name equals the component; the new root keeps that entry's name. -/
inductive LookupErr where
  | noEntry | notDir
  deriving DecidableEq, Repr

def findChild (c : Bytes) : List TNode → Option TNode
  | [] => none
  | x :: xs => if cstr x.name = c then some x else findChild c xs

def lookup : TNode → List Bytes → Except LookupErr TNode
  | t, [] => .ok t
  | t, c :: cs =>
    if t.kind ≠ .dir then .error .notDir            -- `sqfs_dir_reader_open_dir` → SQFS_ERROR_NOT_DIR
    else match findChild c t.children with
      | none => .error .noEntry                       -- SQFS_ERROR_NO_ENTRY
      | some x => lookup x cs

/-! ## 2. the plan -/

inductive Syscall where
  /-- `mkdir(p, mode)`; the caller tolerates `EEXIST` -/
  | mkdir (p : Bytes) (mode : Nat)
  /-- `symlink(target, p)` -/
  | symlink (target p : Bytes)
  /-- `mknod(p, S_IF<kind> | mode, dev)` -/
  | mknod (p : Bytes) (kind : Kind) (mode dev : Nat)
  /-- `open(p, O_WRONLY | O_CREAT | O_EXCL, mode)` + `close` -/
  | openExcl (p : Bytes) (mode : Nat)
  /-- `open(p, O_CREAT | O_RDWR | O_TRUNC, 0644)` (follows a symlink in the last component), the writes, `close` -/
  | openTrunc (p : Bytes) (data : Bytes)
  /-- `lsetxattr` (`nofollow = true`) / `setxattr` -/
  | setxattr (p key val : Bytes) (nofollow : Bool)
  /-- `utimensat(AT_FDCWD, p, {t,t}, nofollow ? AT_SYMLINK_NOFOLLOW : 0)` -/
  | utimens (p : Bytes) (t : Nat) (nofollow : Bool)
  /-- `fchownat(AT_FDCWD, p, uid, gid, nofollow ? AT_SYMLINK_NOFOLLOW : 0)` -/
  | chown (p : Bytes) (uid gid : Nat) (nofollow : Bool)
  /-- `fchmodat(AT_FDCWD, p, mode, 0)`: always follows -/
  | chmod (p : Bytes) (mode : Nat)
  deriving DecidableEq, Repr

def Syscall.path : Syscall → Bytes
  | .mkdir p _ | .symlink _ p | .mknod p _ _ _ | .openExcl p _ | .openTrunc p _
  | .setxattr p _ _ _ | .utimens p _ _ | .chown p _ _ _ | .chmod p _ => p

/-- does the call follow a symbolic link in the last component of its path? -/
def Syscall.follows : Syscall → Bool
  | .openTrunc _ _ | .chmod _ _ => true
  | .setxattr _ _ _ nf | .utimens _ _ nf | .chown _ _ _ nf => !nf
  | _ => false

/-- the unpack options that change which calls are made (`-q`, `-Z` do not) -/
structure Flags where
  chmod : Bool := false
  chown : Bool := false
  setXattr : Bool := false
  setTimes : Bool := false
  deriving DecidableEq, Repr, Inhabited

inductive Err where
  /-- `tree_sort`: "Entry … found more than once!" -/
  | duplicate
  /-- `sqfs_tree_node_get_path`: `SQFS_ERROR_CORRUPTED` (empty name, '/', "." or "..") -/
  | corrupted
  /-- `sqfs_tree_node_get_path`: `SQFS_ERROR_ARG_INVALID` (the walk ends at a node with a name) -/
  | argInvalid
  /-- `assert(ret == 0)` after `canonicalize_name` / add_file's "Invalid file path" -/
  | canonFail
  deriving DecidableEq, Repr

inductive Ev where
  | sys (s : Syscall)
  /-- "Found an entry named '%s', skipping." on stderr -/
  | skip (name : Bytes)
  deriving DecidableEq, Repr

/-- what a walk did (`evs`, in order) and whether it then failed -/
structure Out where
  evs : List Ev := []
  err : Option Err := none
  deriving Repr

/-- `if (a) return -1; b` -/
def Out.seq (a b : Out) : Out :=
  match a.err with
  | some _ => a
  | none => ⟨a.evs ++ b.evs, b.err⟩

/-- the per-component checks of `sqfs_tree_node_get_path` -/
def badComp (c : Bytes) : Bool :=
  c.isEmpty || c.contains SL || c == [DOT] || c == [DOT, DOT]

/-- `sqfs_tree_node_get_path` for a node whose names from just below the root down to itself are `comps`
    (`[]` for the root itself) in a tree whose root is called `rn`. -/
def getPath (rn : Bytes) (comps : List Bytes) : Except Err Bytes :=
  if comps.any badComp then .error .corrupted
  else if !rn.isEmpty then .error .argInvalid
  else if comps.isEmpty then .ok [SL]
  else .ok (comps.flatMap (SL :: ·))

/-- `sqfs_tree_node_get_path` followed by `canonicalize_name` -/
def pathOf (rn : Bytes) (comps : List Bytes) : Except Err Bytes :=
  match getPath rn comps with
  | .error e => .error e
  | .ok s => match canonicalize s with
    | none => .error .canonFail
    | some p => .ok p

/-- restore_fstree.c `create_node` (POSIX branch) -/
def createNode (k : Kind) (p payload : Bytes) (a : Attr) (fl : Flags) : Syscall :=
  match k with
  | .dir => .mkdir p 0o755
  | .lnk => .symlink payload p
  | .sock => .mknod p .sock 0o700 0
  | .fifo => .mknod p .fifo 0o700 0
  | .blk => .mknod p .blk 0 a.devno
  | .chr => .mknod p .chr 0 a.devno
  | .reg => .openExcl p (if fl.chmod then a.perm ||| 0o200 else 0o644)

mutual
/-- `create_node_dfs`; `comps` = the node's names below the root -/
def createDfs (rn : Bytes) (fl : Flags) (comps : List Bytes) : TNode → Out
  | .mk name k payload a ch =>
    if !isFilenameSane name then ⟨[.skip name], none⟩                 -- gate 1: skip node and subtree
    else match pathOf rn comps with
      | .error e => ⟨[], some e⟩
      | .ok p =>
        Out.seq ⟨[.sys (createNode k p payload a fl)], none⟩
          (if k = .dir then createList rn fl comps ch else ⟨[], none⟩)
def createList (rn : Bytes) (fl : Flags) (anc : List Bytes) : List TNode → Out
  | [] => ⟨[], none⟩
  | c :: cs => Out.seq (createDfs rn fl (anc ++ [c.name]) c) (createList rn fl anc cs)
end

/-- `restore_fstree` -/
def restoreFstree (fl : Flags) (t : TNode) : Out :=
  if t.kind = .dir then createList t.name fl [] t.children else createDfs t.name fl [] t

structure FileEnt where
  path : Bytes
  data : Bytes
  deriving DecidableEq, Repr

structure GenOut where
  evs : List Ev := []
  files : List FileEnt := []
  err : Option Err := none

def GenOut.seq (a b : GenOut) : GenOut :=
  match a.err with
  | some _ => a
  | none => ⟨a.evs ++ b.evs, a.files ++ b.files, b.err⟩

mutual
/-- `gen_file_list_dfs` + `add_file` -/
def genFiles (rn : Bytes) (comps : List Bytes) : TNode → GenOut
  | .mk name k payload _ ch =>
    if !isFilenameSane name then ⟨[.skip name], [], none⟩            -- gate 2
    else if k = .reg then
      match pathOf rn comps with
      | .error e => ⟨[], [], some e⟩
      | .ok p => ⟨[], [⟨p, payload⟩], none⟩
    else if k = .dir then genFilesL rn comps ch
    else ⟨[], [], none⟩
def genFilesL (rn : Bytes) (anc : List Bytes) : List TNode → GenOut
  | [] => ⟨[], [], none⟩
  | c :: cs => GenOut.seq (genFiles rn (anc ++ [c.name]) c) (genFilesL rn anc cs)
end

/-- `fill_unpacked_files`: list, `qsort` (`ord`), `fill_files` -/
def fillUnpacked (ord : List FileEnt → List FileEnt) (t : TNode) : Out :=
  let g := genFiles t.name [] t
  match g.err with
  | some e => ⟨g.evs, some e⟩
  | none => ⟨g.evs ++ (ord g.files).map (fun f => .sys (.openTrunc f.path f.data)), none⟩

/-- the tail of `set_attribs` for one node -/
def attrOps (fl : Flags) (k : Kind) (p : Bytes) (a : Attr) : List Ev :=
  (if fl.setXattr then a.xattrs.map (fun kv => Ev.sys (.setxattr p kv.1 kv.2 true)) else [])
  ++ (if fl.setTimes then [.sys (.utimens p a.mtime true)] else [])
  ++ (if fl.chown then [.sys (.chown p a.uid a.gid true)] else [])
  ++ (if fl.chmod && k != .lnk then [.sys (.chmod p a.perm)] else [])

mutual
/-- `set_attribs` (children first) -/
def setAttribs (rn : Bytes) (fl : Flags) (comps : List Bytes) : TNode → Out
  | .mk name k _ a ch =>
    if !isFilenameSane name then ⟨[], none⟩                             -- gate 3 (silent)
    else Out.seq (if k = .dir then setAttribsL rn fl comps ch else ⟨[], none⟩)
      (match pathOf rn comps with
       | .error e => ⟨[], some e⟩
       | .ok p => ⟨attrOps fl k p a, none⟩)
def setAttribsL (rn : Bytes) (fl : Flags) (anc : List Bytes) : List TNode → Out
  | [] => ⟨[], none⟩
  | c :: cs => Out.seq (setAttribs rn fl (anc ++ [c.name]) c) (setAttribsL rn fl anc cs)
end

/-- `update_tree_attribs` -/
def updateAttribs (fl : Flags) (t : TNode) : Out :=
  if !(fl.chown || fl.chmod || fl.setTimes || fl.setXattr) then ⟨[], none⟩
  else if t.kind = .dir then setAttribsL t.name fl [] t.children else setAttribs t.name fl [] t

/-! ### `tree_sort` -/

/-- `strcmp(a, b) <= 0` on C strings (unsigned bytes) -/
def strLe : Bytes → Bytes → Bool
  | [], _ => true
  | _ :: _, [] => false
  | a :: as, b :: bs => if a < b then true else if b < a then false else strLe as bs

/-- insert into a sorted list, before the first element that is not strictly smaller (stable) -/
def insertNode (x : TNode) : List TNode → List TNode
  | [] => [x]
  | y :: ys => if strLe x.name y.name then x :: y :: ys else y :: insertNode x ys

/-- `list_sort`: the C code is a stable merge sort (`list_merge` takes from the left list on `<= 0`); the
    result of a stable sort is unique, so it is modelled by the structurally recursive stable insertion sort. -/
def sortNodes : List TNode → List TNode
  | [] => []
  | x :: xs => insertNode x (sortNodes xs)

/-- the loop `strcmp(it->name, it->next->name) == 0` -/
def hasAdjDup : List TNode → Bool
  | a :: b :: r => a.name == b.name || hasAdjDup (b :: r)
  | _ => false

mutual
/-- `tree_sort`.  The C code sorts a level, checks it, then recurses; here the recursion comes first so that it
    is structural.  The outcome (error iff some level has two equal names; otherwise every level sorted) is
    the same; only which duplicate is *named* in the message differs, and that is not modelled. -/
def treeSort : TNode → Except Err TNode
  | .mk n k p a ch =>
    match treeSortL ch with
    | .error e => .error e
    | .ok ch' =>
      let s := sortNodes ch'
      if hasAdjDup s then .error .duplicate else .ok (.mk n k p a s)
def treeSortL : List TNode → Except Err (List TNode)
  | [] => .ok []
  | c :: cs =>
    match treeSort c with
    | .error e => .error e
    | .ok c' => match treeSortL cs with
      | .error e => .error e
      | .ok cs' => .ok (c' :: cs')
end

/-- everything after `chdir(R)` in `main`, on the tree `sqfs_dir_reader_get_full_hierarchy` returned -/
def unpackTree (ord : List FileEnt → List FileEnt) (fl : Flags) (t : TNode) : Out :=
  match treeSort t with
  | .error e => ⟨[], some e⟩
  | .ok t' => (restoreFstree fl t').seq ((fillUnpacked ord t').seq (updateAttribs fl t'))

/-- the plan for a raw tree (the driver uses directory order for the file list; the check compares the
    fill phase as a multiset) -/
def unpackPlan (raw : TNode) (fl : Flags) (tf : TreeFlags := {}) : Out := unpackTree id fl (decode tf raw)

def Out.syscalls (o : Out) : List Syscall :=
  o.evs.filterMap (fun | .sys s => some s | .skip _ => none)

def Out.skips (o : Out) : List Bytes :=
  o.evs.filterMap (fun | .sys _ => none | .skip n => some n)

/-! ## 3. abstract POSIX file system -/

inductive FKind where
  | dir
  | file (content : Bytes)
  | symlink (target : Bytes)
  | special (k : Kind) (dev : Nat)
  deriving DecidableEq, Repr

structure FAttr where
  perm : Nat := 0
  uid : Nat := 0
  gid : Nat := 0
  mtime : Nat := 0
  xattrs : List (Bytes × Bytes) := []
  deriving DecidableEq, Repr

structure Node where
  kind : FKind
  attr : FAttr := {}
  deriving DecidableEq, Repr

/-- absolute path = list of components from `/` -/
abbrev PathC := List Bytes

/-- a file system: which object sits at which absolute path -/
abbrev Fs := PathC → Option Node

def Fs.set (fs : Fs) (key : PathC) (n : Node) : Fs := fun q => if q = key then some n else fs q

inductive Errno where
  | ENOENT | EEXIST | ENOTDIR | ELOOP | ENAMETOOLONG | EISDIR | EPERM | ENXIO | EINVAL
  deriving DecidableEq, Repr

abbrev NAME_MAX : Nat := 255
abbrev PATH_MAX : Nat := 4096
abbrev MAXSYMLINKS : Nat := 40

abbrev Res := Except Errno (PathC × Option Node)

/--
Walk `comps` from directory `cur`.  `k` continues after a symlink has been read (with less fuel).
Result: the absolute path the name denotes and what is there now (`none`: nothing, but the parent exists).
* "" and "." stay, ".." goes up;
* a missing intermediate component is `ENOENT`, a non-directory one `ENOTDIR`;
* a symlink is followed unless it is the last component and `followLast = false`.
-/
def walkL (k : PathC → List Bytes → Bool → Res) (fs : Fs) : PathC → List Bytes → Bool → Res
  | cur, [], _ => .ok (cur, fs cur)
  | cur, c :: rest, fl =>
    if c = [] ∨ c = [DOT] then walkL k fs cur rest fl
    else if c = [DOT, DOT] then walkL k fs cur.dropLast rest fl
    else if c.length > NAME_MAX then .error .ENAMETOOLONG
    else match fs (cur ++ [c]) with
      | none => if rest.isEmpty then .ok (cur ++ [c], none) else .error .ENOENT
      | some ⟨.dir, a⟩ => if rest.isEmpty then .ok (cur ++ [c], some ⟨.dir, a⟩) else walkL k fs (cur ++ [c]) rest fl
      | some ⟨.symlink tgt, a⟩ =>
        if rest.isEmpty && !fl then .ok (cur ++ [c], some ⟨.symlink tgt, a⟩)
        else if tgt.isEmpty then .error .ENOENT
        else k (if tgt.head? = some SL then [] else cur) (splitSlash tgt ++ rest) fl
      | some n => if rest.isEmpty then .ok (cur ++ [c], some n) else .error .ENOTDIR

def walk : Nat → Fs → PathC → List Bytes → Bool → Res
  | 0, fs => walkL (fun _ _ _ => .error .ELOOP) fs
  | n + 1, fs => walkL (walk n fs) fs

/-- resolve the C string `s` relative to `cwd` -/
def resolve (fs : Fs) (cwd : PathC) (s : Bytes) (followLast : Bool) : Res :=
  if s.isEmpty then .error .ENOENT
  else if s.length ≥ PATH_MAX then .error .ENAMETOOLONG
  else walk MAXSYMLINKS fs (if s.head? = some SL then [] else cwd) (splitSlash s) followLast

def FKind.isUserXattrOk : FKind → Bool
  | .dir | .file _ => true
  | _ => false

def setKV (k v : Bytes) : List (Bytes × Bytes) → List (Bytes × Bytes)
  | [] => [(k, v)]
  | (k', v') :: r => if k' = k then (k, v) :: r else (k', v') :: setKV k v r

/-- "user." -/
def userPrefix : Bytes := [117, 115, 101, 114, 46]
/-- "trusted." -/
def trustedPrefix : Bytes := [116, 114, 117, 115, 116, 101, 100, 46]
/-- "security." -/
def securityPrefix : Bytes := [115, 101, 99, 117, 114, 105, 116, 121, 46]

/-- `(uid_t)-1`: leave unchanged -/
abbrev ID_KEEP : Nat := 0xFFFFFFFF

/-- effect of one system call issued with working directory `cwd` -/
def step (fs : Fs) (cwd : PathC) : Syscall → Except Errno Fs
  | .mkdir p mode =>
    match resolve fs cwd p false with
    | .error e => .error e
    | .ok (_, some _) => .error .EEXIST
    | .ok (key, none) => .ok (fs.set key ⟨.dir, { perm := mode }⟩)
  | .symlink t p =>
    if t.isEmpty then .error .ENOENT
    else if t.length ≥ PATH_MAX then .error .ENAMETOOLONG
    else match resolve fs cwd p false with
    | .error e => .error e
    | .ok (_, some _) => .error .EEXIST
    | .ok (key, none) => .ok (fs.set key ⟨.symlink t, { perm := 0o777 }⟩)
  | .mknod p k mode dev =>
    match resolve fs cwd p false with
    | .error e => .error e
    | .ok (_, some _) => .error .EEXIST
    | .ok (key, none) => .ok (fs.set key ⟨.special k dev, { perm := mode }⟩)
  | .openExcl p mode =>
    match resolve fs cwd p false with                 -- O_CREAT|O_EXCL: a symlink in the last component is EEXIST
    | .error e => .error e
    | .ok (_, some _) => .error .EEXIST
    | .ok (key, none) => .ok (fs.set key ⟨.file [], { perm := mode }⟩)
  | .openTrunc p data =>
    match resolve fs cwd p true with                  -- follows; creates through a dangling symlink
    | .error e => .error e
    | .ok (key, none) => .ok (fs.set key ⟨.file data, { perm := 0o644 }⟩)
    | .ok (key, some ⟨.file _, a⟩) => .ok (fs.set key ⟨.file data, a⟩)
    | .ok (_, some ⟨.dir, _⟩) => .error .EISDIR
    | .ok (_, some ⟨.symlink _, _⟩) => .error .ELOOP
    | .ok (_, some ⟨.special .sock _, _⟩) => .error .ENXIO
    | .ok (_, some ⟨.special _ _, _⟩) => .ok fs        -- FIFO / device opened O_RDWR: no change to the name space
  | .setxattr p k v nofollow =>
    match resolve fs cwd p (!nofollow) with
    | .error e => .error e
    | .ok (_, none) => .error .ENOENT
    | .ok (key, some n) =>
      if userPrefix.isPrefixOf k && !n.kind.isUserXattrOk then .error .EPERM            -- user.* only on files and directories
      else if k = userPrefix ∨ k = trustedPrefix ∨ k = securityPrefix then .error .EINVAL   -- empty name after the prefix
      else .ok (fs.set key { n with attr := { n.attr with xattrs := setKV k v n.attr.xattrs } })
  | .utimens p t nofollow =>
    match resolve fs cwd p (!nofollow) with
    | .error e => .error e
    | .ok (_, none) => .error .ENOENT
    | .ok (key, some n) => .ok (fs.set key { n with attr := { n.attr with mtime := t } })
  | .chown p u g nofollow =>
    match resolve fs cwd p (!nofollow) with
    | .error e => .error e
    | .ok (_, none) => .error .ENOENT
    | .ok (key, some n) =>
      .ok (fs.set key { n with attr := { n.attr with uid := if u = ID_KEEP then n.attr.uid else u,
                                                      gid := if g = ID_KEEP then n.attr.gid else g } })
  | .chmod p m =>
    match resolve fs cwd p true with
    | .error e => .error e
    | .ok (_, none) => .error .ENOENT
    | .ok (key, some n) => .ok (fs.set key { n with attr := { n.attr with perm := m } })

/-- errors the caller ignores: `mkdir(...) && errno != EEXIST` -/
def tolerated : Syscall → Errno → Bool
  | .mkdir _ _, .EEXIST => true
  | _, _ => false

/-- run the calls in order; the first call that fails (and is not tolerated) ends the run -/
def exec (cwd : PathC) : Fs → List Syscall → Fs
  | fs, [] => fs
  | fs, sc :: r =>
    match step fs cwd sc with
    | .ok fs' => exec cwd fs' r
    | .error e => if tolerated sc e then exec cwd fs r else fs

/-- same, also returning each executed call's result (`none` = success) -/
def execTrace (cwd : PathC) : Fs → List Syscall → Fs × List (Syscall × Option Errno)
  | fs, [] => (fs, [])
  | fs, sc :: r =>
    match step fs cwd sc with
    | .ok fs' => let (f, t) := execTrace cwd fs' r; (f, (sc, none) :: t)
    | .error e =>
      if tolerated sc e then let (f, t) := execTrace cwd fs r; (f, (sc, some e) :: t)
      else (fs, [(sc, some e)])

end Sqfs.Unpack
