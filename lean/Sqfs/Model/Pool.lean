/-
`Pool` — small-step model of `lib/util/src/threadpool.c` (DESIGN.md §3.2, Appendix C).

Granularity: one step = the code one thread executes between two *blocking points*
(`pthread_mutex_lock`, `pthread_cond_wait`, entry of the worker callback, `pthread_join`,
and — for the main thread — the gap between two API calls).  No critical section of
`threadpool.c` contains a blocking point other than `pthread_cond_wait` (which releases the
mutex), so the mutex is free between steps and needs no state; the scheduler shim asserts
this on the real code at every scheduling point.

The two condition variables are represented by the program counters of their only possible
waiters (`queue_cond`: workers in `waitQ`; `done_cond`: the main thread in `deqWait`) with a
*signalled* bit per waiter.  `pthread_cond_broadcast` sets the bit of every current waiter.

A scheduler `Choice` names the thread to run.  `spur = true` is a spurious wake-up of an
unsignalled waiter; the *strict* step relation is the one with `spur = false` only.

`Cfg.repaired` selects between the code as it is in /repo at the pinned commit
(`repaired = false`: `dequeue` never looks at `status`) and the code after
`fixes/C09-dequeue-after-failure.patch` (`repaired = true`: the wait loop of `dequeue` is
left with NULL when `status != 0` and nothing is dequeuable).  Everything else is shared.
-/
namespace Sqfs.Pool

/-- `work_item_t` (the `next` pointer is the list structure; `data` is the identity of the
submitted pointer). -/
structure Item where
  ticket : Nat
  data : Nat
deriving DecidableEq, Repr, Inhabited

/-- program counter of a worker thread (`worker_proc`) -/
inductive WPc where
  /-- at `pthread_mutex_lock` at the top of the loop with `item == NULL` (thread just created) -/
  | start
  /-- inside `pthread_cond_wait(&queue_cond)` in `get_next_work_item` -/
  | waitQ (sig : Bool)
  /-- mutex released, at the entry of `worker->fun(worker->user, item->data)` -/
  | working (it : Item)
  /-- callback returned `rc`, at `pthread_mutex_lock` at the top of the loop with `item != NULL` -/
  | finishing (it : Item) (rc : Int)
  /-- `worker_proc` returned -/
  | exited
deriving DecidableEq, Repr, Inhabited

/-- API calls the main thread can make -/
inductive Op where
  | submit (d : Nat)
  | dequeue
  | getStatus
  | destroy
deriving DecidableEq, Repr

/-- program counter of the main (submitting) thread -/
inductive MPc where
  /-- between two API calls -/
  | idle
  /-- in `submit`, item obtained from `recycle`/`calloc`, at `pthread_mutex_lock` -/
  | submitLock (d : Nat)
  /-- in `dequeue` (slow path: `item_count != 0`, `safe_done == NULL`), at `pthread_mutex_lock` -/
  | deqLock
  /-- in `dequeue`, inside `pthread_cond_wait(&done_cond)` -/
  | deqWait (sig : Bool)
  /-- in `get_status`, at `pthread_mutex_lock` -/
  | statusLock
  /-- in `destroy`, at `pthread_mutex_lock` -/
  | destroyLock
  /-- in `destroy`, at `pthread_join(workers[i])` -/
  | join (i : Nat)
  /-- `destroy` returned (pool freed) -/
  | finished
deriving DecidableEq, Repr, Inhabited

/-- value an API call returned -/
inductive Ret where
  | submit (rc : Int)
  | deq (r : Option Nat)
  | status (rc : Int)
  | destroyed
deriving DecidableEq, Repr

structure Cfg where
  /-- `false`: pinned code; `true`: with the D1 fix applied -/
  repaired : Bool
  /-- return value of the worker callback, by work item -/
  rcOf : Nat → Int

structure State where
  /-- `pool->queue` … `queue_last` -/
  queue : List Item
  /-- `pool->done`, kept sorted by ticket by `store_completed` -/
  done : List Item
  /-- `pool->safe_done` … `safe_done_last` (main thread only) -/
  safeDone : List Item
  /-- length of `pool->recycle` (main thread only) -/
  recycle : Nat
  nextTicket : Nat
  nextDeq : Nat
  itemCount : Nat
  status : Int
  workers : List WPc
  main : MPc
  /- ghost history -/
  /-- data of every successfully submitted item, in submission order -/
  submitted : List Nat
  /-- callback invocations `(worker, item)` in the order they happened -/
  started : List (Nat × Item)
  /-- data handed back by `dequeue`, in order -/
  returned : List Nat
  /-- values returned by the API calls, in order -/
  rets : List Ret
  /-- the API calls made so far, in order (the last one may still be in progress) -/
  calls : List Op
deriving Repr, DecidableEq

/-- state after `thread_pool_create(n, cb)` (and every worker having reached its first lock) -/
def init (n : Nat) : State :=
  { queue := [], done := [], safeDone := [], recycle := 0, nextTicket := 0, nextDeq := 0,
    itemCount := 0, status := 0, workers := List.replicate n .start, main := .idle,
    submitted := [], started := [], returned := [], rets := [], calls := [] }

/-- `store_completed`: insert before the first element whose ticket is `>=` the new one -/
def insertDone (it : Item) : List Item → List Item
  | [] => [it]
  | h :: t => if h.ticket ≥ it.ticket then it :: h :: t else h :: insertDone it t

/-- `pthread_cond_broadcast(&pool->done_cond)` -/
def wakeMain : MPc → MPc
  | .deqWait _ => .deqWait true
  | pc => pc

/-- effect of `pthread_cond_broadcast(&pool->queue_cond)` on one worker -/
def wakeW : WPc → WPc
  | .waitQ _ => .waitQ true
  | pc => pc

/-- `pthread_cond_broadcast(&pool->queue_cond)` -/
def wakeAll (ws : List WPc) : List WPc := ws.map wakeW

/-- `get_next_work_item` followed by the rest of the loop body of `worker_proc` up to the next
blocking point, for worker `i` holding the mutex. -/
def getNextWork (s : State) (i : Nat) : State :=
  if s.status ≠ 0 then
    -- loop not entered / left with status != 0; item = NULL; unlock; break; return
    { s with workers := s.workers.set i .exited }
  else match s.queue with
    | [] => { s with workers := s.workers.set i (.waitQ false) }     -- pthread_cond_wait(queue_cond)
    | it :: q => { s with queue := q, workers := s.workers.set i (.working it) }

/-- one step of worker `i` -/
def stepWorker (cfg : Cfg) (s : State) (i : Nat) (spur : Bool) : Option State :=
  match s.workers[i]? with
  | none => none
  | some .start => if spur then none else some (getNextWork s i)
  | some (.waitQ sig) => if sig != spur then some (getNextWork s i) else none
  | some (.working it) =>
      if spur then none else
      -- the callback runs (no blocking point inside), then the loop reaches pthread_mutex_lock
      some { s with workers := s.workers.set i (.finishing it (cfg.rcOf it.data)),
                    started := s.started ++ [(i, it)] }
  | some (.finishing it rc) =>
      if spur then none else
      -- lock; store_completed(pool, item, status); get_next_work_item
      some (getNextWork
        { s with done := insertDone it s.done,
                 status := if rc ≠ 0 ∧ s.status = 0 then rc else s.status,
                 main := wakeMain s.main,
                 workers := s.workers.set i .start } i)
  | some .exited => none

/-- the `for (;;) try_dequeue_done → append to safe_done` loop of `submit`:
`(moved, rest of done, new next_dequeue_ticket)` -/
def drain : List Item → Nat → List Item × List Item × Nat
  | [], nd => ([], [], nd)
  | it :: r, nd =>
      if it.ticket = nd then
        let x := drain r (nd + 1)
        (it :: x.1, x.2.1, x.2.2)
      else ([], it :: r, nd)

/-- `submit` from the lock to the return -/
def submitBody (s : State) (d : Nat) : State :=
  let st := s.status
  let s1 : State :=
    if st = 0 then
      { s with queue := s.queue ++ [⟨s.nextTicket, d⟩], nextTicket := s.nextTicket + 1,
               itemCount := s.itemCount + 1, submitted := s.submitted ++ [d] }
    else s
  let x := drain s1.done s1.nextDeq
  { s1 with done := x.2.1, safeDone := s1.safeDone ++ x.1, nextDeq := x.2.2,
            workers := wakeAll s1.workers,
            recycle := if st = 0 then s1.recycle else s1.recycle + 1,
            main := .idle, rets := s1.rets ++ [.submit st] }

/-- hand `it` back from `dequeue` (common tail of both paths) -/
def deqReturn (s : State) (it : Item) : State :=
  { s with recycle := s.recycle + 1, itemCount := s.itemCount - 1,
           returned := s.returned ++ [it.data], main := .idle,
           rets := s.rets ++ [.deq (some it.data)] }

/-- `try_dequeue_done` found nothing.  Pinned code: `pthread_cond_wait(&pool->done_cond)`.
Repaired code: first `if (pool->status != 0) break;` — unlock and return NULL. -/
def deqWaitOrNull (cfg : Cfg) (s : State) : State :=
  if cfg.repaired && decide (s.status ≠ 0) then
    { s with main := .idle, rets := s.rets ++ [.deq none] }
  else { s with main := .deqWait false }

/-- body of the `for (;;)` loop of `dequeue`, holding the mutex -/
def deqTry (cfg : Cfg) (s : State) : State :=
  match s.done with
  | [] => deqWaitOrNull cfg s
  | it :: r =>
      if it.ticket = s.nextDeq then
        deqReturn { s with done := r, nextDeq := s.nextDeq + 1 } it
      else deqWaitOrNull cfg s

/-- what the scheduler lets the main thread do -/
inductive MChoice where
  /-- the main thread is between two calls and makes this one (runs to its first blocking point) -/
  | call (op : Op)
  /-- the main thread continues from a blocking point -/
  | cont (spur : Bool)
deriving DecidableEq, Repr

def stepMain (cfg : Cfg) (s : State) (c : MChoice) : Option State :=
  match s.main, c with
  | .idle, .call (.submit d) =>
      -- take an item from `recycle` or calloc one; then pthread_mutex_lock
      some { s with recycle := s.recycle - 1, main := .submitLock d, calls := s.calls ++ [.submit d] }
  | .idle, .call .dequeue =>
      if s.itemCount = 0 then some { s with rets := s.rets ++ [.deq none], calls := s.calls ++ [.dequeue] }
      else match s.safeDone with
        | it :: r => some (deqReturn { s with safeDone := r, calls := s.calls ++ [.dequeue] } it)
        | [] => some { s with main := .deqLock, calls := s.calls ++ [.dequeue] }
  | .idle, .call .getStatus => some { s with main := .statusLock, calls := s.calls ++ [.getStatus] }
  | .idle, .call .destroy => some { s with main := .destroyLock, calls := s.calls ++ [.destroy] }
  | .submitLock d, .cont false => some (submitBody s d)
  | .deqLock, .cont false => some (deqTry cfg s)
  | .deqWait sig, .cont spur => if sig != spur then some (deqTry cfg s) else none
  | .statusLock, .cont false => some { s with main := .idle, rets := s.rets ++ [.status s.status] }
  | .destroyLock, .cont false =>
      some { s with status := -1, workers := wakeAll s.workers,
                    main := if s.workers.length = 0 then .finished else .join 0,
                    rets := if s.workers.length = 0 then s.rets ++ [.destroyed] else s.rets }
  | .join i, .cont false =>
      if s.workers[i]? = some .exited then
        if i + 1 < s.workers.length then some { s with main := .join (i + 1) }
        else some { s with main := .finished, rets := s.rets ++ [.destroyed] }
      else none
  | _, _ => none

/-- scheduler choice -/
inductive Choice where
  | main (c : MChoice)
  | worker (i : Nat) (spur : Bool)
deriving DecidableEq, Repr

def Choice.strict : Choice → Bool
  | .main (.call _) => true
  | .main (.cont spur) => !spur
  | .worker _ spur => !spur

/-- the step relation that admits spurious wake-ups (`stepSpurious`), as a partial function of the choice -/
def step (cfg : Cfg) (s : State) : Choice → Option State
  | .main c => stepMain cfg s c
  | .worker i spur => stepWorker cfg s i spur

/-- the strict step relation: a waiter runs only after a broadcast -/
def stepStrict (cfg : Cfg) (s : State) (c : Choice) : Option State :=
  if c.strict then step cfg s c else none

/-- run a whole schedule; choices that are not enabled are skipped -/
def run (cfg : Cfg) (s : State) : List Choice → State
  | [] => s
  | c :: cs => match step cfg s c with
      | some s' => run cfg s' cs
      | none => run cfg s cs

/-- every state an execution (any list of scheduler choices) can reach from `init n` -/
inductive Reachable (cfg : Cfg) (n : Nat) : State → Prop where
  | init : Reachable cfg n (init n)
  | step {s s' : State} (c : Choice) : Reachable cfg n s → step cfg s c = some s' → Reachable cfg n s'

/-- the same for the strict relation -/
inductive ReachableStrict (cfg : Cfg) (n : Nat) : State → Prop where
  | init : ReachableStrict cfg n (init n)
  | step {s s' : State} (c : Choice) : ReachableStrict cfg n s → stepStrict cfg s c = some s' →
      ReachableStrict cfg n s'

/-- can worker `i` take a strict step? -/
def workerEnabled (s : State) (i : Nat) : Bool :=
  match s.workers[i]? with
  | some .start | some (.working _) | some (.finishing _ _) | some (.waitQ true) => true
  | _ => false

/-- can the main thread continue from its blocking point (strictly)? -/
def mainContEnabled (s : State) : Bool :=
  match s.main with
  | .submitLock _ | .deqLock | .statusLock | .destroyLock | .deqWait true => true
  | .join i => s.workers[i]? == some .exited
  | _ => false

/-- the main thread is inside an API call -/
def mainInCall (s : State) : Bool :=
  match s.main with
  | .idle | .finished => false
  | _ => true

/-- no thread can take a strict step although the main thread is inside an API call -/
def isDeadlock (s : State) : Bool :=
  mainInCall s && !mainContEnabled s && (List.range s.workers.length).all (fun i => !workerEnabled s i)

end Sqfs.Pool
