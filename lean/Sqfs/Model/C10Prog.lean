/-
C10 — *programs over metadata readers*.

Every higher-level reader of libsquashfs (`read_inode.c`, `readdir.c`, `dir_reader.c`, `xattr_reader.c`,
`read_table.c`) talks to the image only through `sqfs_meta_reader_seek/read/get_position` on reader objects it
owns, and returns as soon as one of these calls fails.  `Prog α` is the syntax of such a function: a tree whose
inner nodes are the three calls (on reader number `k` of the object's family of readers) and whose leaves are
the returned value or the returned error status.  `exec` runs a program on a family of reader objects of
`Sqfs.Model.MetaReader`; the family after the run is part of the result (the objects are long-lived).

`WF fl p`: every `read`/`get_position` of `p` on reader `k` is preceded — inside `p` — by a `seek` on `k`,
unless `fl k` says reader `k` already is positioned.  All library functions modelled in `C10Dec.lean` are
`WF (fun _ => false)` ("seek first"), except the key/value stepping calls of the xattr reader, which continue
at the cursor by design.

`Session`: a client that issues a chain of such calls, choosing each from the answers to the earlier ones;
`Session.runI` lets arbitrary other histories happen on the same reader objects between the calls.
-/
import Sqfs.Model.MetaReader
namespace Sqfs.C10P
open Sqfs.MetaReader Sqfs.Consts

inductive Prog (α : Type) : Type where
  | ret (a : α)
  | fail (e : Status)
  /-- `err = sqfs_meta_reader_seek(rd[k], b, o); if (err) return err;` -/
  | seek (k b o : Nat) (cont : Prog α)
  /-- `err = sqfs_meta_reader_read(rd[k], buf, n); if (err) return err;` -/
  | read (k n : Nat) (cont : Bytes → Prog α)
  /-- `sqfs_meta_reader_get_position(rd[k], &block, &offset)` -/
  | pos (k : Nat) (cont : Nat × Nat → Prog α)

/-- the reader objects an API object owns, by number -/
abbrev Readers := Nat → MR

def Readers.set (S : Readers) (k : Nat) (m : MR) : Readers := fun j => if j = k then m else S j

/-- run a program; `fix = true` is the code as it is, `fix = false` the code before 8bf8edc (witness model) -/
def exec (fix : Bool) (f : File) (unc : Codec) : Prog α → Readers → Except Status α × Readers
  | .ret a, S => (.ok a, S)
  | .fail e, S => (.error e, S)
  | .seek k b o cont, S =>
    let r := MetaReader.seek fix f unc (S k) b o
    if r.1 ≠ 0 then (.error r.1, S.set k r.2) else exec fix f unc cont (S.set k r.2)
  | .read k n cont, S =>
    let r := MetaReader.read fix f unc (S k) n
    if r.1 ≠ 0 then (.error r.1, S.set k r.2.2) else exec fix f unc (cont r.2.1) (S.set k r.2.2)
  | .pos k cont, S => exec fix f unc (cont (getPos (S k))) S

def Prog.bind : Prog α → (α → Prog β) → Prog β
  | .ret a, g => g a
  | .fail e, _ => .fail e
  | .seek k b o c, g => .seek k b o (c.bind g)
  | .read k n c, g => .read k n (fun bs => (c bs).bind g)
  | .pos k c, g => .pos k (fun p => (c p).bind g)

/-- reads and position queries only on readers that were positioned by a seek of this program (or are flagged
as positioned in `fl`) -/
def WF : (Nat → Bool) → Prog α → Prop
  | _, .ret _ => True
  | _, .fail _ => True
  | fl, .seek k _ _ c => WF (fun j => j == k || fl j) c
  | fl, .read k _ c => fl k = true ∧ ∀ bs, WF fl (c bs)
  | fl, .pos k c => fl k = true ∧ ∀ p, WF fl (c p)

/-- "seek first" -/
abbrev noneYet : Nat → Bool := fun _ => false

/-- a client: a chain of API calls; which call comes next may depend on all earlier answers -/
inductive Session (α β : Type) : Type where
  | done (b : β)
  | call (p : Prog α) (next : Except Status α → Session α β)

def Session.WF : Session α β → Prop
  | .done _ => True
  | .call p next => C10P.WF noneYet p ∧ ∀ r, (next r).WF

/-- apply a history of raw meta reader calls to every reader object of the family -/
def disturb (fix : Bool) (f : File) (unc : Codec) (S : Readers) (h : Nat → List Op) : Readers :=
  fun k => run fix f unc (S k) (h k)

/-- what the reader objects look like when the next call of a session starts: the next foreign history (if any)
has happened -/
def interleave (fix : Bool) (f : File) (unc : Codec) (S : Readers) : List (Nat → List Op) → Readers
  | [] => S
  | h :: _ => disturb fix f unc S h

/-- run a session; before call number `i` the `i`-th element of `hs` (if any) happens on the same objects -/
def Session.runI (fix : Bool) (f : File) (unc : Codec) : Session α β → Readers → List (Nat → List Op) → β × Readers
  | .done b, S, _ => (b, S)
  | .call p next, S, hs =>
    let S0 := interleave fix f unc S hs
    let r := exec fix f unc p S0
    (next r.1).runI fix f unc r.2 hs.tail

/-! ### little-endian fields -/

/-- the `n`-byte little-endian number at `off` (missing bytes count as 0; callers pass buffers of the right size) -/
def leAt (bs : Bytes) (off n : Nat) : Nat :=
  ((bs.drop off).take n).foldr (fun b acc => b.toNat + 256 * acc) 0

end Sqfs.C10P
