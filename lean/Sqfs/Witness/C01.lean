/-
C01 — witnesses of defects in the code as it is in /repo (models of the *unrepaired* code), each replayed on the real
library by `harness/h_c01u.c` (see docs/design/C01-units.md).

* **D9** `lib/sqfs/src/xattr/xattr_writer_flush.c: write_id_table` — `if (block != locations[i - 1]) locations[i++] = block`
  stores into `locations[count]` when the number of distinct xattr sets is a multiple of 512 (the last descriptor fills
  the metadata block, `sqfs_meta_writer_append` flushes it, `block_offset` moves): a heap overflow of 8 bytes.
  Replay: `xsets 0 512 4` → AddressSanitizer: heap-buffer-overflow, xattr_writer_flush.c:252.
  Repair: `fixes/C01-xattr-id-table-locations.patch`.
* **D32** `lib/sqfs/src/inode.c: sqfs_inode_make_extended` — the FIFO/SOCKET branch writes `data.dev_ext.xattr_idx`
  (union offset 8) instead of `data.ipc_ext.xattr_idx` (offset 4): the extended inode keeps stale bytes as its xattr
  index (0 after calloc = "xattr set 0") and `sqfs_inode_make_basic` refuses to convert it back.
  Replay: `mkext 0 fifo 4516 0 0 0 1 1` → `xfifo 4516 0 0 0 1 1 0`.  Repair: `fixes/C01-make-extended-ipc.patch`.
-/
import Sqfs.Model.EncInode
import Sqfs.Model.EncXattr
namespace Sqfs.C01.Witness
open Sqfs.Enc Sqfs.Consts

/-- with a never-shrinking compressor a flushed metadata block costs 8194 bytes: `block_offset` after `k` descriptors -/
def blockAfterRaw (k : Nat) : Nat := (k * sizeofXattrId) / metaBlockSize * (metaBlockSize + 2)

/-- D9: with 512 sets the unrepaired `write_id_table` stores `locations[1]` although `alloc_location_table` provided
exactly one slot -/
theorem xattr_locations_overflow :
    locCount 512 = 1 ∧ (locStores none blockAfterRaw 512).any (fun s => s == (1, 8194)) = true := by
  set_option maxRecDepth 100000 in decide

/-- … and so for every multiple of 512 up to 1536 sets: a store at index `count` -/
theorem xattr_locations_overflow_multiples :
    ∀ m ∈ [1, 2, 3], (locStores none blockAfterRaw (512 * m)).any (fun s => s.1 == locCount (512 * m)) = true := by
  set_option maxRecDepth 100000 in decide

/-- the repaired loop never does (for the same inputs; `Sqfs.C01.xattr_loc_index_lt_count` proves it in general) -/
theorem xattr_locations_repaired :
    ∀ m ∈ [1, 2, 3], (locStores (some (locCount (512 * m))) blockAfterRaw (512 * m)).all (fun s => s.1 < locCount (512 * m)) = true := by
  set_option maxRecDepth 100000 in decide

/-- D32: the code as it is turns a basic FIFO whose union bytes are zero (calloc) into an extended FIFO with xattr
index 0, and `make_basic` cannot undo it -/
theorem make_extended_ipc_loses_none :
    let i : Inode := .ipc ⟨0o10644, 0, 0, 0, 1⟩ false 1
    (makeExtendedCur 0 i).xattr = 0 ∧ makeBasic (makeExtendedCur 0 i) ≠ i := by
  decide

/-- the statement `makeBasic (makeExtended i) = i` is false of the code as it is -/
theorem make_extended_basic_inverse_fails_cur :
    ¬ ∀ (stale : Nat) (i : Inode), i.isExt = false → WfInode 4096 i → makeBasic (makeExtendedCur stale i) = i := by
  intro h
  have := h 0 (.ipc ⟨0o10644, 0, 0, 0, 1⟩ false 1) rfl (by decide)
  revert this
  decide

end Sqfs.C01.Witness
