/-
C02 — witness of a defect that /repo 69db961 repaired (kept as the record of what the code before it did, and replayed on
every run so that a tree lacking the repair is recognised): **a compressor failure could be swallowed, and whether it was
depended on `max_backlog`** (and, on the threaded pool, on the schedule).  `runV false` = the code before 69db961 (`sync` is
the drain alone), `run` / `runV true` = the current code (`Sqfs/Model/BlockProc.lean`).

`process_block` returns `do_block`'s negative value to the pool; the pool records it as its status and hands the item back
like any other; before 69db961 the block processor read the status only after a failed `submit` or a NULL `dequeue`
(`Sqfs/Model/BlockProcFail.lean`).  One `DONT_FRAGMENT` file of five full blocks, block size 4, the compressor fails on the
first block (`marked`), serial pool:

* `max_backlog = 3`: the fourth `get_new_block` has to drain, block 0 is dequeued (status := −3), the next `submit` returns
  the status — the run fails with `SQFS_ERROR_COMPRESSOR`;
* `max_backlog = 40`: nothing is dequeued before `finish`; `finish` drains everything, no `submit` follows —
  **`finish` returns 0**, the block the compressor failed on is stored uncompressed.

Replayed on the real code on every run: corpus/C02/script_fail_backlog.json (tools/checks/c02.py, harness/h_c02.c codec `toyf`).
With the current `sync` (69db961 = fixes/C02-report-worker-failure.patch: it returns the pool status) both runs fail.
-/
import Sqfs.Model.BlockProcFail
import Sqfs.Model.ToyCodec
namespace Sqfs.Witness.C02
open Sqfs.BlockProc

/-- the blocks the fake compressor of harness/h_c02.c fails on -/
def marked (x : List UInt8) : Bool := x.head? == some 0xEE

/-- toy run-length codec failing with `SQFS_ERROR_COMPRESSOR` (−3) on marked blocks, serial pool -/
def wP : Params := failParams { B := 4, codec := ToyCodec.codec 4, h := fun _ => 0 } marked (-(Consts.errCompressor : Int))

def wFile : InFile :=
  ⟨Consts.blkDontFragment, [0xEE, 1, 2, 3, 10, 11, 12, 13, 14, 15, 16, 17, 18, 19, 20, 21, 22, 23, 24, 25]⟩

def errOf {α : Type} : Except Err α → Option Err
  | .error e => some e
  | .ok _ => none

/-- **before 69db961**: the same input fails with `max_backlog = 3` and succeeds with `max_backlog = 40` -/
theorem failure_swallowed_before_69db961 :
    errOf (runV false wP 3 [wFile]) = some (.pool (-3)) ∧
    (runV false wP 40 [wFile]).toOption.map (fun o => (o.calls.length, o.file.length)) = some (6, 20) := by
  decide +kernel

/-- the failed block is in the image, uncompressed: the first `write_data_block` call carries the marked bytes -/
theorem failure_swallowed_block_stored_raw :
    (runV false wP 40 [wFile]).toOption.map (fun o => o.calls.head?.map (·.data)) = some (some [0xEE, 1, 2, 3]) := by
  decide +kernel

/-- **current code** (`run` of `Model/BlockProc.lean`): both runs report the failure -/
theorem failure_reported_current :
    errOf (run wP 3 [wFile]) = some (.pool (-3)) ∧ errOf (run wP 40 [wFile]) = some (.pool (-3)) := by
  decide +kernel

/-- `runV true` is the current code -/
theorem runV_true_eq_run (P : Params) (mb : Nat) (files : List InFile) : runV true P mb files = run P mb files := rfl

/-- before 69db961 a failure on the last item submitted — the final fragment block — was reported by no backlog at all; the
current code reports it -/
theorem failure_on_last_item_never_reported_before_69db961 :
    let P : Params := failParams { B := 8, codec := ToyCodec.codec 8, h := fun _ => 0 } marked (-3)
    (runV false P 3 [⟨0, [0xEE, 7, 7, 7, 7]⟩]).toOption.isSome = true ∧
    (runV false P 40 [⟨0, [0xEE, 7, 7, 7, 7]⟩]).toOption.isSome = true ∧
    errOf (run P 3 [⟨0, [0xEE, 7, 7, 7, 7]⟩]) = some (.pool (-3)) := by
  decide +kernel

end Sqfs.Witness.C02
