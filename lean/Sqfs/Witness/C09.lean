/-
D1 (DESIGN.md §5) — the pinned `dequeue` of `lib/util/src/threadpool.c` never looks at `pool->status`.

Witness, on the model of the code *as it is* (`repaired := false`): one worker, two items, the callback fails on
the first.  After `submit 0; submit 1`, the worker takes item 0, fails, stores it (`status := -5`) and exits,
leaving ticket 1 in the queue for ever.  The first `dequeue` returns item 0; the second waits on `done_cond` for
ticket 1 — no thread is left that could ever run (`isDeadlock`), and even spurious wake-ups only lead back to
the same state: `dequeue` never returns, contradicting the property's "every call … returns … also when a
worker reports a failure, after which the failure status is reported to the submitter rather than the process
hanging".  The same schedule is replayed on the real code by `tools/checks/c09.py` (`corpus/C09/d1-witness.txt`).

With `fixes/C09-dequeue-after-failure.patch` (`repaired := true`) the same schedule ends with `dequeue`
returning NULL and `get_status` = -5 (`repaired_reports_failure`); `Sqfs.C09.no_deadlock` is the general theorem.
-/
import Sqfs.Model.Pool
namespace Sqfs.Witness.C09
open Sqfs.Pool

def rcFirstFails (d : Nat) : Int := if d = 0 then -5 else 0

def pinned : Cfg := { repaired := false, rcOf := rcFirstFails }
def repaired : Cfg := { repaired := true, rcOf := rcFirstFails }

/-- `submit 0; submit 1;` worker: take 0, run callback, store + exit; `dequeue` (→ 0); `dequeue` -/
def schedule : List Choice :=
  [.main (.call (.submit 0)), .main (.cont false), .main (.call (.submit 1)), .main (.cont false),
   .worker 0 false, .worker 0 false, .worker 0 false,
   .main (.call .dequeue), .main (.cont false), .main (.call .dequeue), .main (.cont false)]

def stuck : State := run pinned (init 1) schedule

/-- every choice of the schedule is a strict step that is enabled when it is taken (nothing is skipped) -/
def allEnabled (cfg : Cfg) : State → List Choice → Bool
  | _, [] => true
  | s, c :: cs => match stepStrict cfg s c with
      | some s' => allEnabled cfg s' cs
      | none => false

theorem schedule_is_strict_execution : allEnabled pinned (init 1) schedule = true := by decide

/-- **the dead-lock**: the main thread is inside `dequeue`, waiting unsignalled, the status is already −5,
ticket 1 is still queued, the only worker has exited — no thread can take a strict step -/
theorem deadlock_after_failure :
    isDeadlock stuck = true ∧ stuck.main = .deqWait false ∧ stuck.status = -5 ∧
    stuck.queue = [⟨1, 1⟩] ∧ stuck.workers = [.exited] ∧ stuck.returned = [0] ∧ stuck.itemCount = 1 := by
  decide

/-- no step of any kind leads anywhere else: the only thing that can happen is a spurious wake-up of the main
thread, after which it waits again -/
theorem stuck_step (c : Choice) : step pinned stuck c = none ∨ step pinned stuck c = some stuck := by
  cases c with
  | worker i spur =>
    left
    cases i with
    | zero => cases spur <;> decide
    | succ i => cases spur <;> rfl
  | main mc =>
    cases mc with
    | call op => left; cases op <;> rfl
    | cont spur =>
      cases spur with
      | false => left; decide
      | true => right; decide

/-- **`dequeue` never returns**: whatever the scheduler does from here on (spurious wake-ups included), the
state does not change -/
theorem hang_forever (cs : List Choice) : run pinned stuck cs = stuck := by
  induction cs with
  | nil => rfl
  | cons c cs ih =>
    unfold run
    rcases stuck_step c with h | h
    · rw [h]; exact ih
    · rw [h]; exact ih

/-- hence `no_deadlock` is false of the pinned code -/
theorem no_deadlock_fails_for_pinned_code :
    ¬ (∀ (n : Nat) (s : State), 0 < n → Reachable pinned n s → isDeadlock s = false) := by
  intro h
  have hr : Reachable pinned 1 stuck := by
    -- `run` only follows `step`
    have : ∀ (cs : List Choice) (s : State), Reachable pinned 1 s → Reachable pinned 1 (run pinned s cs) := by
      intro cs
      induction cs with
      | nil => intro s hs; exact hs
      | cons c cs ih =>
        intro s hs
        unfold run
        split
        · rename_i s' hstep; exact ih s' (.step c hs hstep)
        · exact ih s hs
    exact this schedule (init 1) .init
  have := h 1 stuck (by decide) hr
  rw [deadlock_after_failure.1] at this
  exact Bool.noConfusion this

/-- the repaired `dequeue` on the same schedule, followed by `get_status`: the second `dequeue` returns NULL
and the status −5 is reported -/
theorem repaired_reports_failure :
    let s := run repaired (init 1) (schedule ++ [.main (.call .getStatus), .main (.cont false)])
    s.rets = [.submit 0, .submit 0, .deq (some 0), .deq none, .status (-5)] ∧ s.main = .idle ∧
    isDeadlock s = false := by
  decide

end Sqfs.Witness.C09
