/-
C10 — witnesses.

* D2, D3, D21 (**repaired in /repo**: 8bf8edc, 442364d, 36fa767; kept as the record of what the models with
  `fix = false` / `kw = false` are): the metadata reader before the repair (`seek false`, `read false` of
  `Sqfs/Model/MetaReader.lean`) violates the property (D2), and its `read` computes `data_used - offset` below zero
  after a failed seek (D3); the data-block cache keyed by location only (D21).
* D33 (**the code as it was in /repo before 8447a61**, `sfix = false`; `sfix = true` is the current code): after `dr_stream_get_buffered_data` failed to load the
  fragment block, the next call on the same stream reports success and hands out bytes the stream never filled.

The image: two uncompressed metadata blocks back to back,
  A at 0:  header 0x8004, payload 61 62 63 64  ("abcd")
  B at 6:  header 0x8002, payload 78 79        ("xy")
window `start = 0`, `limit = 10`.
-/
import Sqfs.Model.MetaReader
import Sqfs.Model.DataReaderCache
namespace Sqfs.C10.Witness
open Sqfs.MetaReader

def imgBytes : List UInt8 := [0x04, 0x80, 0x61, 0x62, 0x63, 0x64, 0x02, 0x80, 0x78, 0x79]
def img : File := { size := 10, byte := fun i => imgBytes.getD i 0, bad := fun _ => false }

/-- `seek(A,0)` ok · `seek(B,3)` fails (B has 2 bytes) · then the query `seek(A,0); read 2` -/
def history : List Op := [.seek 0 0, .seek 6 3]

/-- **D2.**  Current code: after the history, the query "first two bytes of block A" is answered with B's bytes
"xy" (and a wrong end position) — a fresh reader answers "ab".  (Kernel-evaluated on the model of the current code.) -/
theorem d2_answer_depends_on_history :
    answer false img toyUnc (run false img toyUnc (fresh 0 10) history) 0 0 [2]
      = { seekSt := 0, reads := [(0, [0x78, 0x79])], endPos := some (6, 0) } ∧
    answer false img toyUnc (fresh 0 10) 0 0 [2]
      = { seekSt := 0, reads := [(0, [0x61, 0x62])], endPos := some (0, 2) } := by
  decide +kernel

/-- hence the property fails for the current code -/
theorem d2_not_history_independent :
    ¬ ∀ (h : List Op) (b o : Nat) (ns : List Nat),
        answer false img toyUnc (run false img toyUnc (fresh 0 10) h) b o ns = answer false img toyUnc (fresh 0 10) b o ns := by
  intro hall
  have := hall history 0 0 [2]
  rw [d2_answer_depends_on_history.1, d2_answer_depends_on_history.2] at this
  exact absurd this (by decide)

/-- **D3.**  Current code: `seek(A,3)` ok, `seek(B,3)` fails and leaves `data_used = 2 < offset = 3`; the next
`read` computes `2 - 3` in `size_t`, so `read 1` "succeeds" with the stale byte `data[3] = 'd'`, and a `read`
of 8190 bytes would copy beyond `m->data`. -/
theorem d3_offset_beyond_data_used :
    let m := run false img toyUnc (fresh 0 10) [.seek 0 3, .seek 6 3]
    m.dataUsed = 2 ∧ m.offset = 3 ∧ m.tag = 0 ∧
    (read false img toyUnc m 1).1 = 0 ∧ (read false img toyUnc m 1).2.1 = [0x64] ∧
    (read false img toyUnc m 8190).1 = crashSt := by
  decide +kernel

/-- the repaired code on the D2 history: the query is answered like a fresh reader does -/
theorem d2_history_repaired :
    answer true img toyUnc (run true img toyUnc (fresh 0 10) history) 0 0 [2]
      = { seekSt := 0, reads := [(0, [0x61, 0x62])], endPos := some (0, 2) } := by
  decide +kernel

/-- the repaired code on the D3 history: the reader is unpositioned, `read` fails cleanly -/
theorem d3_history_repaired :
    let m := run true img toyUnc (fresh 0 10) [.seek 0 3, .seek 6 3]
    m.dataUsed = 0 ∧ m.offset = 0 ∧ m.tag = NONE ∧
    (read true img toyUnc m 1).1 = Sqfs.Consts.errOutOfBounds ∧
    (read true img toyUnc m 8190).1 = Sqfs.Consts.errOutOfBounds := by
  decide +kernel


/-! ### D21: the data-block cache of the current code is keyed by location only

Damaged image: eight data bytes `01 … 08` at location 0, block size 8.  Inode A lists one uncompressed block of
8 bytes at location 0 (size word `0x1000008`), inode B one uncompressed block of 4 bytes at the same location
(`0x1000004`).  On a fresh reader B reads `01 02 03 04 00 00 00 00`; after A has been read, B is served A's
cached block. -/

def dimg : File := { size := 8, byte := fun i => UInt8.ofNat (i + 1), bad := fun _ => false }
def inoA : DataReader.Inode := { fileSize := 8, blocksStart := 0, fragIdx := 4294967295, fragOff := 0, blocks := [16777224] }
def inoB : DataReader.Inode := { fileSize := 8, blocksStart := 0, fragIdx := 4294967295, fragOff := 0, blocks := [16777220] }

theorem d21_answer_depends_on_history :
    (DataReader.read false dimg toyUnc (DataReader.run false dimg toyUnc (DataReader.fresh 8 []) [.read inoA 0 8]) inoB 0 8).1
      = (0, [1, 2, 3, 4, 5, 6, 7, 8]) ∧
    (DataReader.read false dimg toyUnc (DataReader.fresh 8 []) inoB 0 8).1 = (0, [1, 2, 3, 4, 0, 0, 0, 0]) := by
  decide +kernel

/-- with the cache keyed by the size word too, the same history is harmless -/
theorem d21_history_repaired :
    (DataReader.read true dimg toyUnc (DataReader.run true dimg toyUnc (DataReader.fresh 8 []) [.read inoA 0 8]) inoB 0 8).1
      = (0, [1, 2, 3, 4, 0, 0, 0, 0]) := by
  decide +kernel


/-! ### D33: a stream answers with stale bytes after a failed fragment lookup (code as it was in /repo before 8447a61)

Image: eight data bytes `01 … 08` at location 0, block size 8, empty fragment table.  The file has 11 bytes: one
raw block and a 3-byte tail that names fragment 5.  `get` delivers the block; after `advance(8)` the next `get`
fails with `SQFS_ERROR_OUT_OF_BOUNDS` (no fragment 5) — and the `get` after that returns 0 with the first three
bytes of the *block* as if they were the tail.  A stream created now and brought to the same position (one `get`,
`advance(8)`) reports the error.  Replay on the real code: `corpus/C10/d33-stream-frag-fail.txt`. -/

def simg : File := { size := 16, byte := fun i => if i < 8 then UInt8.ofNat (i + 1) else 0, bad := fun _ => false }
def sino : DataReader.Inode := { fileSize := 11, blocksStart := 0, fragIdx := 5, fragOff := 0, blocks := [16777224] }

/-- the three calls on one stream: answers of call 1, 2, 3 -/
def d33Calls (sfix : Bool) : DataReader.StreamR × DataReader.StreamR × DataReader.StreamR :=
  let d := DataReader.fresh 8 []
  let r1 := DataReader.streamGet sfix simg toyUnc d (DataReader.streamOpen 8 sino)
  let r2 := DataReader.streamGet sfix simg toyUnc r1.2.2 (DataReader.streamAdvance r1.2.1 8)
  let r3 := DataReader.streamGet sfix simg toyUnc r2.2.2 r2.2.1
  (r1.1, r2.1, r3.1)

theorem d33_stream_answers_after_failure :
    d33Calls false = (.data [some 1, some 2, some 3, some 4, some 5, some 6, some 7, some 8],
                      .err Sqfs.Consts.errOutOfBounds,
                      .data [some 1, some 2, some 3]) := by
  decide +kernel

/-- a file without blocks: the bytes handed out after the failure were never written by anybody (`none`: memory
fresh from `malloc`) -/
theorem d33_uninitialised_bytes :
    let d := DataReader.fresh 8 []
    let ino : DataReader.Inode := { fileSize := 3, blocksStart := 0, fragIdx := 5, fragOff := 0, blocks := [] }
    let r1 := DataReader.streamGet false simg toyUnc d (DataReader.streamOpen 8 ino)
    let r2 := DataReader.streamGet false simg toyUnc r1.2.2 r1.2.1
    r1.1 = .err Sqfs.Consts.errOutOfBounds ∧ r2.1 = .data [none, none, none] := by
  decide +kernel

/-- with `fixes/C10-stream-frag-fail.patch` the stream is at its end after the failure -/
theorem d33_history_repaired :
    d33Calls true = (.data [some 1, some 2, some 3, some 4, some 5, some 6, some 7, some 8],
                     .err Sqfs.Consts.errOutOfBounds, .eof) := by
  decide +kernel

end Sqfs.C10.Witness
