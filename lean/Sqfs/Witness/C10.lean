/-
C10 — witnesses: the metadata reader of the **current** /repo code (`seek false`, `read false` of
`Sqfs/Model/MetaReader.lean`) violates the property (D2), and its `read` computes `data_used - offset`
below zero after a failed seek (D3).  The same histories on the repaired model behave (last two theorems).

The image: two uncompressed metadata blocks back to back,
  A at 0:  header 0x8004, payload 61 62 63 64  ("abcd")
  B at 6:  header 0x8002, payload 78 79        ("xy")
window `start = 0`, `limit = 10`.
-/
import Sqfs.Model.MetaReader
import Sqfs.Model.DataReaderCache
namespace Sqfs.C10.Witness
open Sqfs.MetaReader

def imgBytes : List UInt8 := [0x04, 0x80, 0x61, 0x62, 0x63, 0x64, 0x02, 0x80, 0x78, 0x79]
def img : File := { size := 10, byte := fun i => imgBytes.getD i 0, bad := fun _ => false }

/-- `seek(A,0)` ok · `seek(B,3)` fails (B has 2 bytes) · then the query `seek(A,0); read 2` -/
def history : List Op := [.seek 0 0, .seek 6 3]

/-- **D2.**  Current code: after the history, the query "first two bytes of block A" is answered with B's bytes
"xy" (and a wrong end position) — a fresh reader answers "ab".  (Kernel-evaluated on the model of the current code.) -/
theorem d2_answer_depends_on_history :
    answer false img toyUnc (run false img toyUnc (fresh 0 10) history) 0 0 [2]
      = { seekSt := 0, reads := [(0, [0x78, 0x79])], endPos := some (6, 0) } ∧
    answer false img toyUnc (fresh 0 10) 0 0 [2]
      = { seekSt := 0, reads := [(0, [0x61, 0x62])], endPos := some (0, 2) } := by
  decide +kernel

/-- hence the property fails for the current code -/
theorem d2_not_history_independent :
    ¬ ∀ (h : List Op) (b o : Nat) (ns : List Nat),
        answer false img toyUnc (run false img toyUnc (fresh 0 10) h) b o ns = answer false img toyUnc (fresh 0 10) b o ns := by
  intro hall
  have := hall history 0 0 [2]
  rw [d2_answer_depends_on_history.1, d2_answer_depends_on_history.2] at this
  exact absurd this (by decide)

/-- **D3.**  Current code: `seek(A,3)` ok, `seek(B,3)` fails and leaves `data_used = 2 < offset = 3`; the next
`read` computes `2 - 3` in `size_t`, so `read 1` "succeeds" with the stale byte `data[3] = 'd'`, and a `read`
of 8190 bytes would copy beyond `m->data`. -/
theorem d3_offset_beyond_data_used :
    let m := run false img toyUnc (fresh 0 10) [.seek 0 3, .seek 6 3]
    m.dataUsed = 2 ∧ m.offset = 3 ∧ m.tag = 0 ∧
    (read false img toyUnc m 1).1 = 0 ∧ (read false img toyUnc m 1).2.1 = [0x64] ∧
    (read false img toyUnc m 8190).1 = crashSt := by
  decide +kernel

/-- the repaired code on the D2 history: the query is answered like a fresh reader does -/
theorem d2_history_repaired :
    answer true img toyUnc (run true img toyUnc (fresh 0 10) history) 0 0 [2]
      = { seekSt := 0, reads := [(0, [0x61, 0x62])], endPos := some (0, 2) } := by
  decide +kernel

/-- the repaired code on the D3 history: the reader is unpositioned, `read` fails cleanly -/
theorem d3_history_repaired :
    let m := run true img toyUnc (fresh 0 10) [.seek 0 3, .seek 6 3]
    m.dataUsed = 0 ∧ m.offset = 0 ∧ m.tag = NONE ∧
    (read true img toyUnc m 1).1 = Sqfs.Consts.errOutOfBounds ∧
    (read true img toyUnc m 8190).1 = Sqfs.Consts.errOutOfBounds := by
  decide +kernel


/-! ### D21: the data-block cache of the current code is keyed by location only

Damaged image: eight data bytes `01 … 08` at location 0, block size 8.  Inode A lists one uncompressed block of
8 bytes at location 0 (size word `0x1000008`), inode B one uncompressed block of 4 bytes at the same location
(`0x1000004`).  On a fresh reader B reads `01 02 03 04 00 00 00 00`; after A has been read, B is served A's
cached block. -/

def dimg : File := { size := 8, byte := fun i => UInt8.ofNat (i + 1), bad := fun _ => false }
def inoA : DataReader.Inode := { fileSize := 8, blocksStart := 0, fragIdx := 4294967295, fragOff := 0, blocks := [16777224] }
def inoB : DataReader.Inode := { fileSize := 8, blocksStart := 0, fragIdx := 4294967295, fragOff := 0, blocks := [16777220] }

theorem d21_answer_depends_on_history :
    (DataReader.read false dimg toyUnc (DataReader.run false false dimg toyUnc (DataReader.fresh 8 []) [.read inoA 0 8]) inoB 0 8).1
      = (0, [1, 2, 3, 4, 5, 6, 7, 8]) ∧
    (DataReader.read false dimg toyUnc (DataReader.fresh 8 []) inoB 0 8).1 = (0, [1, 2, 3, 4, 0, 0, 0, 0]) := by
  decide +kernel

/-- with the cache keyed by the size word too, the same history is harmless -/
theorem d21_history_repaired :
    (DataReader.read true dimg toyUnc (DataReader.run true true dimg toyUnc (DataReader.fresh 8 []) [.read inoA 0 8]) inoB 0 8).1
      = (0, [1, 2, 3, 4, 0, 0, 0, 0]) := by
  decide +kernel

end Sqfs.C10.Witness
