/-
C15 — (1) at the end of the file: the **current** tree accepts damaged compressed input whose damage lies behind the point where the
tar reader stops reading (`stopping_reader_misses_the_error`; finding `unread-tail-accepted:*`, repair proposal
`fixes/C15-drain-compressed-input.patch`);
(2) defect D14 and the gzip data-error defect, on the model of the code **as it was before** fix commits `8eb5186` /
`7b3a56e` of /repo (= without `fixes/C15-xfrm-flush-eof.patch` / `fixes/C15-gzip-data-error.patch`; `Sqfs/Model/XfrmOld.lean`;
`istream.c` and `ostream.c` are the same in both trees).  Each theorem is the negation of a clause of the property, with a concrete
witness; the same inputs are replayed on the real code by the check (fake-library harness and tool-level runs).
The library underneath is the toy engine of `Sqfs/Model/Xfrm.lean` behind a zlib-style or zstd-style interface, with the most
restrictive knobs (one byte in, one byte out per library call).
-/
import Sqfs.Model.XfrmOld
import Sqfs.Proofs.Xfrm
import Sqfs.Props.C15
namespace Sqfs.C15.Witness
open Sqfs.Xfrm

def P0 : Toy.Params := ⟨0, 0, 0⟩

/-- a loop whose body sends a state to itself never leaves, whatever the fuel -/
theorem iter_self {α β : Type} (body : α → LoopStep α β) (a : α) (h : body a = LoopStep.next a) :
    ∀ fuel, iter body fuel a = none := by
  intro fuel
  induction fuel with
  | zero => rfl
  | succ n ih => simp [iter, h, ih]

/-! ### `FLUSH_FULL` is not continued: `sqfs2tar -c gzip|xz|bzip2` never terminates -/

/-- the unpatched gzip/xz/bzip2 compressor object over the toy library -/
def oldEnc (b : Backend) : Codec (Toy.LibSt Toy.Enc) := Old.wrapCodec (Toy.encLib P0) b true

/-- the state in which the compressor is left by `append "A"; flush` with a 2-byte output buffer: the terminator of
the member is still queued inside the library -/
def stuck : Toy.LibSt Toy.Enc := ⟨⟨[65, 0], true⟩, 1⟩

/-- In that state `process_data(in_size = 0, FLUSH_FULL)` does nothing and answers `OK` — for ever. -/
theorem old_flush_not_continued (b : Backend) (room : Nat) :
    (oldEnc b).step stuck [] room Flush.full = ⟨stuck, 0, [], Res.ok⟩ := by
  cases b <;> simp [oldEnc, Old.wrapCodec, Old.wrapProcess, Old.wrapLoop, iter, Old.wrapBody]

/-- **Witness (termination).**  `append [65]; flush` on an `ostream_xfrm` with a 2-byte buffer over the unpatched
backend loop never comes back: for every amount of fuel the model is still running. -/
theorem old_ostream_flush_hangs (b : Backend) :
    ∀ fuel, oRun (oldEnc b) 2 fuel (oInit (oldEnc b)) [OOp.append [65], OOp.flush] = none := by
  intro fuel
  have h1 : oAppend (oldEnc b) 2 fuel (oInit (oldEnc b)) [65] = some (.ok ⟨(Toy.encLib P0).init, [65], [], 0⟩) := by
    cases b <;> rfl
  have hfirst : flushBody (oldEnc b) 2 true ((Toy.encLib P0).init, [65], []) = LoopStep.next (stuck, [], [1]) := by
    cases b <;> decide
  have hself : flushBody (oldEnc b) 2 true (stuck, [], [1]) = LoopStep.next (stuck, [], [1]) := by
    have := old_flush_not_continued b 2
    rw [flushBody_true, this]
    simp
  have hloop : ∀ f, flushLoop (oldEnc b) 2 true f (Toy.encLib P0).init [65] [] = none := by
    intro f
    cases f with
    | zero => rfl
    | succ n => simp only [flushLoop, iter, hfirst]; exact iter_self _ _ hself n
  simp only [oRun, h1, oFlush, flushInbuf, hloop]
  simp

/-- the same history on the repaired loop: terminates, and what was written decodes to the input -/
example : (match oRun (wrapCodec (Toy.encLib P0) Backend.gzip true) 2 100 (oInit (wrapCodec (Toy.encLib P0) Backend.gzip true))
      [OOp.append [65], OOp.flush] with
    | some (.ok st) => Toy.decode st.sink
    | _ => none) = some [65] := by decide

/-! ### zstd: `END` is reported although the frame is not finished -/

def oldZstdEnc : Codec Toy.Enc := Old.zstdCodec (Toy.encZLib P0) true

/-- **Witness (transparency).**  `append [65]; flush` with a 2-byte buffer "succeeds" but what has been written is not a
complete member: no reference decoder accepts it. -/
theorem old_zstd_writes_incomplete_frame :
    oRun oldZstdEnc 2 100 (oInit oldZstdEnc) [OOp.append [65], OOp.flush] = some (.ok ⟨⟨[65, 0], true⟩, [], [1], 1⟩) ∧
      Toy.decode [1] = none ∧ Spec.toyDecodeAll [1] = none := by
  refine ⟨by decide, by decide, by decide⟩

example : (match oRun (zstdCodec (Toy.encZLib P0) true) 2 100 (oInit (zstdCodec (Toy.encZLib P0) true))
      [OOp.append [65], OOp.flush] with
    | some (.ok st) => Toy.decode st.sink
    | _ => none) = some [65] := by decide

/-! ### a truncated compressed input is indistinguishable from a clean end -/

def oldDec (b : Backend) : Codec (Toy.LibSt Toy.Dec) := Old.wrapCodec (Toy.decLib P0) b false

/-- the member `encode [65, 66, 67]` without its last three bytes -/
def cut : Bytes := (Toy.encode [65, 66, 67]).take 4

/-- **Witness (truncated input accepted).**  Reading the cut stream through `istream_xfrm` over the unpatched loops
delivers `[65, 66]` and then reports a regular end-of-stream. -/
theorem old_truncated_accepted (b : Backend) :
    (iRead (oldDec b) 4 100 (iInit (oldDec b) ⟨cut, []⟩) [(4, 4), (4, 4), (4, 4), (4, 4)] []).map
      (fun r => r.map (fun t => (t.2.1, t.2.2))) = some (.ok ([65, 66], true)) := by
  cases b <;> decide

theorem old_truncated_accepted_zstd :
    (iRead (Old.zstdCodec (Toy.decZLib P0) false) 4 100 (iInit (Old.zstdCodec (Toy.decZLib P0) false) ⟨cut, []⟩)
      [(4, 4), (4, 4), (4, 4), (4, 4)] []).map (fun r => r.map (fun t => (t.2.1, t.2.2))) = some (.ok ([65, 66], true)) := by
  decide

/-- the repaired loops report the error -/
example : iRead (wrapCodec (Toy.decLib P0) Backend.gzip false) 4 100 (iInit (wrapCodec (Toy.decLib P0) Backend.gzip false) ⟨cut, []⟩)
    [(4, 4), (4, 4), (4, 4), (4, 4)] [] = some (.error errCompressor) := by decide

example : iRead (zstdCodec (Toy.decZLib P0) false) 4 100 (iInit (zstdCodec (Toy.decZLib P0) false) ⟨cut, []⟩)
    [(4, 4), (4, 4), (4, 4), (4, 4)] [] = some (.error errCompressor) := by decide

/-! ### gzip: a data error of the library is not an error for the wrapper -/

/-- **Witness (corrupted input hangs).**  On a malformed marker the toy library answers `Z_DATA_ERROR` without
progress; the unpatched gzip loop only knows `Z_STREAM_ERROR` and goes round for ever. -/
theorem old_gzip_data_error_spins :
    ∀ fuel, Old.wrapLoop (Toy.decLib P0) Backend.gzip Flush.none fuel (Toy.decLib P0).init [7] 4 0 [] = none := by
  intro fuel
  have hfirst : Old.wrapBody (Toy.decLib P0) Backend.gzip Flush.none ((Toy.decLib P0).init, [7], 4, 0, []) =
      LoopStep.next (⟨{ Toy.decFresh with bad := true }, 0⟩, [7], 4, 0, []) := by decide
  have hself : Old.wrapBody (Toy.decLib P0) Backend.gzip Flush.none (⟨{ Toy.decFresh with bad := true }, 0⟩, [7], 4, 0, []) =
      LoopStep.next (⟨{ Toy.decFresh with bad := true }, 0⟩, [7], 4, 0, []) := by decide
  cases fuel with
  | zero => rfl
  | succ n => simp only [Old.wrapLoop, iter, hfirst]; exact iter_self _ _ hself n

/-- xz.c and bzip2.c (and the repaired gzip.c) return `XFRM_STREAM_ERROR` -/
example : (Old.wrapProcess (Toy.decLib P0) Backend.xz false (Toy.decLib P0).init [7] 4 Flush.none).map (·.res) = some Res.error := by decide
example : (wrapProcess (Toy.decLib P0) Backend.gzip false (Toy.decLib P0).init [7] 4 Flush.none).map (·.res) = some Res.error := by decide

/-! ### the current tree: a reader that stops does not see the error (finding `unread-tail-accepted:*`)

The wrappers and backends below are the **current** ones (`Sqfs/Model/Xfrm.lean`).  The stream holds the members `ABC`, `DE` and
then dead bytes (a malformed marker); the wrapper's buffer has 5 bytes.  The reader takes the five content bytes in two rounds —
that is all it wants, like the tar reader of `lib/tar/src/read_header.c` once it has seen the end-of-archive marker — and stops:
it has been given no error and no end-of-stream, and `tar2sqfs` exits 0.  Had it read on, it would have got
`SQFS_ERROR_COMPRESSOR` (the general statement is `Sqfs.C15.corrupt_is_error_for_draining_reader`).  With real codecs the dead bytes
are e.g. a gzip trailer whose CRC does not match (damaged contents already handed out), or a cut-off trailer; replayed on the real
`tar2sqfs` by the check (class `beyond-end-marker`). -/

def deadStream : Bytes := Toy.encode [65, 66, 67] ++ Toy.encode [68, 69] ++ [2, 9, 9]

theorem stopping_reader_misses_the_error :
    Dead Toy.decode [2, 9, 9] ∧
    -- toy codec directly under `istream_xfrm`
    (iRead (Toy.decoder ⟨1, 0, 2⟩) 5 1000 (iInit (Toy.decoder ⟨1, 0, 2⟩) ⟨deadStream, [1, 0, 2, 1, 3]⟩) [(3, 3), (2, 2)] []).map
      (fun r => r.map (fun t => (t.2.1, t.2.2))) = some (.ok ([65, 66, 67, 68, 69], false)) ∧
    iRead (Toy.decoder ⟨1, 0, 2⟩) 5 1000 (iInit (Toy.decoder ⟨1, 0, 2⟩) ⟨deadStream, [1, 0, 2, 1, 3]⟩) ([(3, 3), (2, 2)] ++ drainOps 5 9) [] =
      some (.error errCompressor) ∧
    -- the same through the (current) gzip/xz/bzip2 `process_data` loop over the toy library
    (iRead (wrapCodec (Toy.decLib ⟨1, 0, 2⟩ Backend.gzip) Backend.gzip false) 5 1000
        (iInit (wrapCodec (Toy.decLib ⟨1, 0, 2⟩ Backend.gzip) Backend.gzip false) ⟨deadStream, [1, 0, 2, 1, 3]⟩) [(3, 3), (2, 2)] []).map
      (fun r => r.map (fun t => (t.2.1, t.2.2))) = some (.ok ([65, 66, 67, 68, 69], false)) ∧
    iRead (wrapCodec (Toy.decLib ⟨1, 0, 2⟩ Backend.gzip) Backend.gzip false) 5 1000
        (iInit (wrapCodec (Toy.decLib ⟨1, 0, 2⟩ Backend.gzip) Backend.gzip false) ⟨deadStream, [1, 0, 2, 1, 3]⟩) ([(3, 3), (2, 2)] ++ drainOps 5 9) [] =
      some (.error errCompressor) :=
  ⟨Sqfs.C15.toy_dead_example [9, 9], by decide, by decide, by decide, by decide⟩

end Sqfs.C15.Witness
