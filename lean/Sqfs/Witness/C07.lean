/-
C07 / D12 — witness that `resolve_link` **as shipped** (1.2.0) does not terminate
on a hard-link cycle that does not contain the link being resolved.

Archive order `b -> c`, `c -> b`, `a -> b` (three hard-link members, `a` last,
hence first in `fs->links_unresolved`).  Node indices: 0 = root, 1 = b, 2 = c,
3 = a.  `resolve_link(a)` walks a → b → c → b → c → …; its only cycle test is
`node == start` (`start = a`), which never fires.
-/
import Sqfs.Model.HardLink
import Sqfs.Model.ParseTotalTar
namespace Sqfs.C07.Witness
open Sqfs.HardLink

/-- 0 = root dir, 1 = `b -> c`, 2 = `c -> b`, 3 = `a -> b` -/
def g₃ : Graph := [.dir, .hlink (.found 2), .hlink (.found 1), .hlink (.found 1)]

/-- the graph is what the model of `fstree_add_generic` builds from the three archive members -/
example :
    (match (do let t ← Tree.addGeneric (fun s => some s) Tree.init [98] .hlink [99]
               let t ← Tree.addGeneric (fun s => some s) t [99] .hlink [98]
               let t ← Tree.addGeneric (fun s => some s) t [97] .hlink [98]
               pure (Tree.toGraph t, Tree.links t)) with
     | .ok (g, l) => decide (g = g₃ ∧ l = [3, 2, 1])
     | .error _ => false) = true := by decide

theorem loop_spins (fuel : Nat) :
    loopCur g₃ (fun _ => none) 3 fuel 1 = .outOfFuel ∧ loopCur g₃ (fun _ => none) 3 fuel 2 = .outOfFuel := by
  induction fuel with
  | zero => exact ⟨rfl, rfl⟩
  | succ n ih =>
    have h1 : loopCur g₃ (fun _ => none) 3 (n + 1) 1 = loopCur g₃ (fun _ => none) 3 n 2 := rfl
    have h2 : loopCur g₃ (fun _ => none) 3 (n + 1) 2 = loopCur g₃ (fun _ => none) 3 n 1 := rfl
    exact ⟨h1.trans ih.2, h2.trans ih.1⟩

/-- **D12.** For every amount of fuel the shipped loop, started on link `a`, is still running. -/
theorem resolve_diverges (fuel : Nat) : loopCur g₃ (fun _ => none) 3 fuel 3 = .outOfFuel := by
  cases fuel with
  | zero => rfl
  | succ n =>
    have h : loopCur g₃ (fun _ => none) 3 (n + 1) 3 = loopCur g₃ (fun _ => none) 3 n 1 := rfl
    exact h.trans (loop_spins n).1

/-- hence `fstree_resolve_hard_links` as shipped never returns on this archive -/
theorem resolveAll_diverges (fuel : Nat) (counts : Nat → Nat) :
    (match resolveAllCur g₃ fuel (St.init counts) [3, 2, 1] with | .outOfFuel => true | _ => false) = true := by
  simp [resolveAllCur, resolveAllWith, St.init, resolve_diverges, finishLink]

/-- the repaired loop reports `EMLINK` on the same graph (3 unresolved links ⇒ `max_hops = 3`) -/
example : (match resolveAllFix g₃ 5 (St.init (fun _ => 1)) [3, 2, 1] with | .err 3 .EMLINK => true | _ => false) = true := by
  decide


/-! ## use-after-free in `read_pax_header` (1.2.0)

One PAX extended header with the records `GNU.sparse.numbytes=1`, `GNU.sparse.map=0,1`,
`GNU.sparse.numbytes=2`: the first creates the list and `sparse_last`, the second frees the list
(`pax_sparse_map` → `free_sparse_list(out->sparse)`) but leaves `sparse_last`, the third stores
through it.  In the model of the shipped code that store is `.oob`; the repaired code
(fixes/C07-pax-sparse-uaf.patch) accepts the header and keeps the last entry only.
-/
open Sqfs.ParseTotal in
def uafRecord : List UInt8 := [50, 53, 32, 71, 78, 85, 46, 115, 112, 97, 114, 115, 101, 46, 110, 117, 109, 98, 121, 116, 101, 115, 61, 49, 10, 50, 50, 32, 71, 78, 85, 46, 115, 112, 97, 114, 115, 101, 46, 109, 97, 112, 61, 48, 44, 49, 10, 50, 53, 32, 71, 78, 85, 46, 115, 112, 97, 114, 115, 101, 46, 110, 117, 109, 98, 121, 116, 101, 115, 61, 50, 10]

open Sqfs.ParseTotal in
theorem pax_use_after_free : (readPaxHeader false uafRecord).isOob = true := by decide

open Sqfs.ParseTotal in
example : (readPaxHeader true uafRecord).isOk = true := by decide

end Sqfs.C07.Witness
