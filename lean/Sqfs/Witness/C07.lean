/-
C07 / D12 — witness that `resolve_link` **as shipped** (1.2.0) does not terminate
on a hard-link cycle that does not contain the link being resolved.

Archive order `b -> c`, `c -> b`, `a -> b` (three hard-link members, `a` last,
hence first in `fs->links_unresolved`).  Node indices: 0 = root, 1 = b, 2 = c,
3 = a.  `resolve_link(a)` walks a → b → c → b → c → …; its only cycle test is
`node == start` (`start = a`), which never fires.
-/
import Sqfs.Model.HardLink
import Sqfs.Model.ParseTotalTar
namespace Sqfs.C07.Witness
open Sqfs.HardLink

/-- 0 = root dir, 1 = `b -> c`, 2 = `c -> b`, 3 = `a -> b` -/
def g₃ : Graph := [.dir, .hlink (.found 2), .hlink (.found 1), .hlink (.found 1)]

/-- the graph is what the model of `fstree_add_generic` builds from the three archive members -/
example :
    (match (do let t ← Tree.addGeneric (fun s => some s) Tree.init [98] .hlink [99]
               let t ← Tree.addGeneric (fun s => some s) t [99] .hlink [98]
               let t ← Tree.addGeneric (fun s => some s) t [97] .hlink [98]
               pure (Tree.toGraph t, Tree.links t)) with
     | .ok (g, l) => decide (g = g₃ ∧ l = [3, 2, 1])
     | .error _ => false) = true := by decide

theorem loop_spins (fuel : Nat) :
    loopCur g₃ (fun _ => none) 3 fuel 1 = .outOfFuel ∧ loopCur g₃ (fun _ => none) 3 fuel 2 = .outOfFuel := by
  induction fuel with
  | zero => exact ⟨rfl, rfl⟩
  | succ n ih =>
    have h1 : loopCur g₃ (fun _ => none) 3 (n + 1) 1 = loopCur g₃ (fun _ => none) 3 n 2 := rfl
    have h2 : loopCur g₃ (fun _ => none) 3 (n + 1) 2 = loopCur g₃ (fun _ => none) 3 n 1 := rfl
    exact ⟨h1.trans ih.2, h2.trans ih.1⟩

/-- **D12.** For every amount of fuel the shipped loop, started on link `a`, is still running. -/
theorem resolve_diverges (fuel : Nat) : loopCur g₃ (fun _ => none) 3 fuel 3 = .outOfFuel := by
  cases fuel with
  | zero => rfl
  | succ n =>
    have h : loopCur g₃ (fun _ => none) 3 (n + 1) 3 = loopCur g₃ (fun _ => none) 3 n 1 := rfl
    exact h.trans (loop_spins n).1

/-- hence `fstree_resolve_hard_links` as shipped never returns on this archive -/
theorem resolveAll_diverges (fuel : Nat) (counts : Nat → Nat) :
    (match resolveAllCur g₃ fuel (St.init counts) [3, 2, 1] with | .outOfFuel => true | _ => false) = true := by
  simp [resolveAllCur, resolveAllWith, St.init, resolve_diverges, finishLink]

/-- the repaired loop reports `EMLINK` on the same graph (3 unresolved links ⇒ `max_hops = 3`) -/
example : (match resolveAllFix g₃ 5 (St.init (fun _ => 1)) [3, 2, 1] with | .err 3 .EMLINK => true | _ => false) = true := by
  decide


/-! ## use-after-free in `read_pax_header` (1.2.0; repaired in /repo by 56b164f)

One PAX extended header with the records `GNU.sparse.numbytes=1`, `GNU.sparse.map=0,1`,
`GNU.sparse.numbytes=2`: the first creates the list and `sparse_last`, the second frees the list
(`pax_sparse_map` → `free_sparse_list(out->sparse)`) but leaves `sparse_last`, the third stores
through it.  The model of the *current* code (`Sqfs.ParseTotal.paxApply`) resets `sparse_last`;
the 1.2.0 behaviour is modelled here only: `stale` = "`sparse_last` points into a freed list", and the
store through it is `.oob`.  The check compares the real code with the current model only, so a revert
of 56b164f is reported (ASan abort of the harness + disagreement), not followed.
-/
section PaxOld
open Sqfs.ParseTotal

def keyMap : Bytes := [71, 78, 85, 46, 115, 112, 97, 114, 115, 101, 46, 109, 97, 112]                      -- "GNU.sparse.map"
def keyNumbytes : Bytes := [71, 78, 85, 46, 115, 112, 97, 114, 115, 101, 46, 110, 117, 109, 98, 121, 116, 101, 115]  -- "GNU.sparse.numbytes"

/-- `apply`-step of the 1.2.0 loop: as today, except that `GNU.sparse.map` leaves `sparse_last` alone -/
def paxApplyOld (buf : Bytes) (r : PaxRec) (o : PaxOut) (stale : Bool) : R (PaxOut × Bool) :=
  match cstr buf (buf.length + 1) r.key with
  | .oob => .oob | .spin => .spin | .fail c => .fail c
  | .ok key =>
    if key = keyNumbytes ∧ stale then
      -- `sparse_last->next = sparse;` with `sparse_last` freed — but only after the value parsed
      match parseU 10 buf r.value none true 0 0 with
      | .ok _ => .oob
      | .fail _ => .fail 1 | .oob => .oob | .spin => .spin
    else match paxApply buf r o with
      | .ok o' =>
        if key = keyMap then .ok ({ o' with sparseOpen := o.sparseOpen }, stale || o.sparseOpen)
        else .ok (o', stale)
      | .fail c => .fail c | .oob => .oob | .spin => .spin

def paxLoopOld (endIdx : Nat) : Nat → Bytes → Nat → PaxOut → Bool → R PaxOut
  | 0, _, _, _, _ => .spin
  | fuel + 1, buf, line, o, stale =>
    if line ≥ endIdx then .ok o
    else match paxFrame buf endIdx line with
      | .oob => .oob | .spin => .spin | .fail c => .fail c
      | .frame buf' r next =>
        match paxApplyOld buf' r o stale with
        | .ok (o', st') => paxLoopOld endIdx fuel buf' next o' st'
        | .fail c => .fail c | .oob => .oob | .spin => .spin

def readPaxHeaderOld (record : Bytes) : R PaxOut :=
  paxLoopOld record.length (record.length + 1) (record ++ [0]) 0 {} false

def uafRecord : List UInt8 := [50, 53, 32, 71, 78, 85, 46, 115, 112, 97, 114, 115, 101, 46, 110, 117, 109, 98, 121, 116, 101, 115, 61, 49, 10, 50, 50, 32, 71, 78, 85, 46, 115, 112, 97, 114, 115, 101, 46, 109, 97, 112, 61, 48, 44, 49, 10, 50, 53, 32, 71, 78, 85, 46, 115, 112, 97, 114, 115, 101, 46, 110, 117, 109, 98, 121, 116, 101, 115, 61, 50, 10]

theorem pax_use_after_free : (readPaxHeaderOld uafRecord).isOob = true := by decide

/-- the current code accepts the header and keeps the last entry only -/
example : (match readPaxHeader uafRecord with | .ok o => decide (o.sparse = [{ offset := 0, count := 2 }]) | _ => false) = true := by decide

end PaxOld

/-! ## `read_binary` of 1.2.0 lets a base-256 number wrap (C04's finding; repaired in /repo by 9ba238f)

The old guard was `ov != 0 && ov != 0xFF` for either sign and had no final sign test.  The nine digits
`ff 00 ff 80 00 7f 64 e0 ff` start negative, but the top byte stops being `0xFF` after the second digit:
1.2.0 carries on and returns the wrapped value, the current code refuses.  As for the PAX variant the
check does not probe which guard the tree has.
-/
section BinOld
open Sqfs.ParseTotal

def binLoopOld (buf : Bytes) : Nat → Nat → Nat → R Nat
  | _, 0, r => .ok r
  | i, d + 1, r =>
    match buf[i]? with
    | none => .oob
    | some x =>
      let ov := r / 72057594037927936 % 256
      if ov ≠ 0 ∧ ov ≠ 255 then .fail 1
      else binLoopOld buf (i + 1) d ((r * 256 + x.toNat) % U64)

def readBinaryOld (buf : Bytes) (i digits : Nat) : R Nat :=
  match digits with
  | 0 => .ok 0
  | d + 1 =>
    match buf[i]? with
    | none => .oob
    | some x0 =>
      if x0.toNat = 255 then binLoopOld buf (i + 1) d (U64 - 1)
      else
        let x := x0.toNat % 128
        if d > 7 ∧ x ≠ 0 then .fail 1 else binLoopOld buf (i + 1) d x

def wrapField : List UInt8 := [0xff, 0x00, 0xff, 0x80, 0x00, 0x7f, 0x64, 0xe0, 0xff]

/-- 1.2.0 accepts the field with a *positive* value (the sign byte said negative): not the number the digits denote … -/
theorem read_binary_old_wraps : readBinaryOld wrapField 0 9 = .ok 0x00ff80007f64e0ff := by decide
/-- … the current code refuses it -/
example : readBinary wrapField 0 9 = .fail 1 := by decide

end BinOld

end Sqfs.C07.Witness
