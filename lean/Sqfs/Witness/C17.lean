/-
C17 — witnesses of the three defects of the pinned snapshot, proved on the models of the *current* code
(`Sqfs/Model/PackCur.lean`, `decodeFilename (terminate := false)`), each next to what the specification /
repaired model gives on the same input.  The same inputs are replayed against the real tools on every run
(corpus cases "D24 witness", "D26 witness", "D27 witness" of `tools/checks/c17.py`).
-/
import Sqfs.Model.Sort
import Sqfs.Model.PackCur
namespace Sqfs.Witness.C17
open Sqfs.Pack Sqfs.PackCur Sqfs.Sort

/-- no compression, constant checksum: neither matters for D24 -/
def P0 : Params := { B := 4096, base := 96, codec := ⟨fun _ => none, id⟩, h := fun _ => 0 }

/-- a `[nosparse]` file of 100 zero bytes, alone in the image -/
def zeros100 : InFile := ⟨{ ignoreSparse := true }, List.replicate 100 0⟩

/-- **D24 (negation of `nosparse_effect` on the model of the current code).**  The fragment block that holds the
`nosparse` tail is flagged sparse: no block is written, the fragment table entry stays `(0, 0)`, and the file's
inode becomes an extended inode with `sparse = 100` and a stray zero block word. -/
theorem d24_current :
    packCur P0 [zeros100]
      = (⟨[], [⟨0, 0, false⟩], [⟨100, [.sparse], 0, some (0, 0), 100, false⟩]⟩, true, false) := by decide

theorem d24_violates_nosparse :
    ∃ r, (packCur P0 [zeros100]).1.files[0]? = some r ∧ zeros100.flags.ignoreSparse = true
      ∧ r.sparse ≠ 0 ∧ r.extended = true ∧ .sparse ∈ r.words ∧ (packCur P0 [zeros100]).1.blocks = [] := by
  refine ⟨⟨100, [.sparse], 0, some (0, 0), 100, false⟩, by decide, rfl, by decide, by decide, by decide, by decide⟩

/-- the specification on the same input: the tail is materialised in a stored fragment block -/
theorem d24_spec :
    specPack P0 [zeros100]
      = ⟨[⟨true, 0, List.replicate 100 0⟩], [⟨96, 100, true⟩], [⟨100, [], 0, some (0, 0), 0, false⟩]⟩ := by decide

/-! ## D26: quoted names in the sort file -/

/-- the line `-5 "b"` -/
def lineQuotedB : List UInt8 := [45, 53, 32, 34, 98, 34]

/-- current decoder: the name is `bb"` (unescaped name followed by the stale tail of the buffer) -/
theorem d26_current : (decodeLine false lineQuotedB).toOption = some (some ⟨-5, {}, [98, 98, 34]⟩) := by decide

/-- repaired decoder: the name is `b` -/
theorem d26_fixed : (decodeLine true lineQuotedB).toOption = some (some ⟨-5, {}, [98]⟩) := by decide

/-- consequence (negation of "a listed file is matched by its first matching line"): with files `a`, `b` the line
leaves `b` at the default priority in the current code, and moves it to the front once repaired -/
theorem d26_violates_first_match :
    (sortFiles false (fun _ _ _ => false) [lineQuotedB] [[97], [98]]).toOption.map (·.map (fun f => (f.path, f.priority)))
        = some [([97], 0), ([98], 0)]
    ∧ (sortFiles true (fun _ _ _ => false) [lineQuotedB] [[97], [98]]).toOption.map (·.map (fun f => (f.path, f.priority)))
        = some [([98], -5), ([97], 0)] := by
  constructor <;> decide

/-! ## D27: `dont_compress` tail deduplicated into a compressed fragment block -/

/-- a toy codec that shrinks everything longer than 4 bytes to one byte (any compressing codec will do) -/
def P1 : Params := { B := 4096, base := 96, codec := ⟨fun x => if x.length > 4 then some [UInt8.ofNat x.length] else none, id⟩,
                     h := fun _ => 0 }

def txt : List UInt8 := [104, 101, 108, 108, 111, 32, 119, 111, 114, 108, 100]

/-- file `a` without flags, then file `b` with `dont_compress` and the same content -/
def twoFiles : List InFile := [⟨{}, txt⟩, ⟨{ dontCompress := true }, txt⟩]

/-- **D27 (negation of `dont_compress_effect` on the model of the current code).**  `b`'s tail is deduplicated into
`a`'s fragment block, which is stored compressed. -/
theorem d27_current :
    ∃ r e, (packCur P1 twoFiles).1.files[1]? = some r ∧ r.frag = some (0, 0)
      ∧ (packCur P1 twoFiles).1.frags[0]? = some e ∧ e.raw = false := by
  refine ⟨⟨11, [], 0, some (0, 0), 0, false⟩, ⟨96, 1, false⟩, by decide, rfl, by decide, rfl⟩

/-- the specification keeps `b`'s tail out of compressed blocks: it is stored again (offset 11), and the fragment
block that holds it is left uncompressed as a whole, as documented -/
theorem d27_spec :
    (specPack P1 twoFiles).frags = [⟨96, 22, true⟩]
    ∧ (specPack P1 twoFiles).files.map (·.frag) = [some (0, 0), some (0, 11)] := by
  constructor <;> decide

end Sqfs.Witness.C17
