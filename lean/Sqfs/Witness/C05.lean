/-
C05 — witnesses: the memory-safety / termination theorems of `Sqfs/Props/C05.lean` are FALSE for the current
code (`fixed := false` in the models).  Each witness is a concrete input; `tools/checks/c05.py` replays the same
values on the real code (ASan reports / timeouts) and keys the known findings on them.
-/
import Sqfs.Model.ReaderBounds
import Sqfs.Model.ReaderWalk
namespace Sqfs.C05.Witness
open Sqfs.ReaderBounds Sqfs.ReaderWalk

deriving instance DecidableEq for Except

/-! ### D3 — `sqfs_meta_reader_read` after a failed seek -/

/-- one full uncompressed block at 96, followed by a block whose header announces 0 bytes -/
def d3Cfg : MetaCfg :=
  ⟨96, 1000000, fun b => if b == 96 then ⟨false, 0xA000, false, none⟩ else ⟨false, 0x8000, false, none⟩⟩

/-- seek to the block, consume it, ask for one more byte (the implied seek to the empty block fails *after*
`data_used` became 0 while `offset` is still 8192), then read again -/
def d3Ops : List MetaOp := [.seek 96 0, .read 8192, .read 1, .read 16384]

theorem d3_codec_ok : ∀ b n, (d3Cfg.src b).dec = some n → n.toNat ≤ metaCap := by
  intro b n h; simp only [d3Cfg] at h; split at h <;> simp at h

/-- current code: the last read copies 16384 bytes from `data + 8192` (capacity 8192) -/
theorem d3_meta_read_after_failed_seek_unsafe :
    ⟨.metaData, 8192, 16384, 8192⟩ ∈ runOps false d3Cfg MetaSt.init d3Ops ∧
    ¬ (⟨.metaData, 8192, 16384, 8192⟩ : Access).inBounds := by
  constructor
  · decide
  · decide

/-- hence the history theorem fails for the current code -/
theorem d3_meta_history_current_unsafe :
    ¬ (∀ (c : MetaCfg), (∀ b n, (c.src b).dec = some n → n.toNat ≤ metaCap) → ∀ ops : List MetaOp,
        ∀ a ∈ runOps false c MetaSt.init ops, a.inBounds) := by
  intro h
  exact d3_meta_read_after_failed_seek_unsafe.2 (h d3Cfg d3_codec_ok d3Ops _ d3_meta_read_after_failed_seek_unsafe.1)

/-- the repaired code answers the same history with an error and no such access -/
theorem d3_repaired : (mread true d3Cfg ⟨0, 8192, 96, 8290⟩ 16384).r = .error .oob := by decide

/-! ### D5 — `sqfs_data_reader_get_fragment`, 32-bit `frag_off + frag_sz` -/

theorem d5_get_fragment_current_unsafe :
    ¬ (∀ (bs : UInt32) (filesz blockCount : UInt64) (fragOff : UInt32) (pre : Except Err Unit), bs ≠ 0 →
        ∀ as, getFragment false bs filesz blockCount fragOff pre = .ok as → ∀ a ∈ as, a.inBounds) := by
  intro h
  have := h 4096 100 0 0xFFFFFFF0 (.ok ()) (by decide) _ rfl ⟨.fragBlock, 4294967280, 100, 4096⟩ (by decide)
  revert this; decide

theorem d5_repaired : getFragment true 4096 100 0 0xFFFFFFF0 (.ok ()) = .error .oob := by decide

/-! ### D4 — `dr_stream_get_buffered_data`, 24-bit on-disk size never compared with `block_size` -/

/-- uncompressed block word with on-disk size 0xFFFFFF: `read_at(…, stream->buffer, 16777215)` into 4096 bytes -/
theorem d4_stream_uncompressed_unsafe :
    ⟨.streamBuf, 0, 16777215, 4096⟩ ∈ (streamFill false 4096 ⟨0, 0, 10000, 0, 1, false⟩ 0x1FFFFFF ⟨false, none⟩ (.ok 0) 0).2.2 ∧
    ¬ (⟨.streamBuf, 0, 16777215, 4096⟩ : Access).inBounds := by
  constructor <;> decide

/-- compressed block word: `read_at(…, rd->scratch, 8192)` into the 4096-byte scratch area -/
theorem d4_stream_compressed_unsafe :
    ⟨.drScratch, 0, 8192, 4096⟩ ∈ (streamFill false 4096 ⟨0, 0, 10000, 0, 1, false⟩ 0x2000 ⟨false, some 100⟩ (.ok 0) 0).2.2 ∧
    ¬ (⟨.drScratch, 0, 8192, 4096⟩ : Access).inBounds := by
  constructor <;> decide

theorem d4_repaired :
    (streamFill true 4096 ⟨0, 0, 10000, 0, 1, false⟩ 0x1FFFFFF ⟨false, none⟩ (.ok 0) 0).2.1 = .err .overflow := by decide

/-! ### D19 — `sqfs_dir_reader_resolve_path`, entry name with an embedded NUL -/

/-- entry name `a\0b` against the path `a`: `strncmp` says equal at the NUL, then `path[3]` is read although the
string occupies 2 bytes -/
theorem d19_resolve_current_unsafe :
    ¬ (∀ (name path : List UInt8), (0 : UInt8) ∉ path → ∀ a ∈ (resolveCompare false name path).2, a.inBounds) := by
  intro h
  have := h [97, 0, 98] [97] (by decide) ⟨.path, 3, 1, 2⟩ (by decide)
  revert this; decide

theorem d19_repaired : (resolveCompare true [97, 0, 98] [97]).1 = false := by decide

/-! ### D25 — `sqfs_inode_unpack_dir_index_entry` -/

/-- `ent.size = 0xFFFFFFFE`: `ent.size + 2` wraps to 0 (12-byte allocation) while `ent.size + 1 = 0xFFFFFFFF`
bytes are copied into it -/
theorem d25_unpack_wrap_unsafe :
    ⟨.idxOut, 12, 4294967295, 12⟩ ∈ (unpackIdx false 100 (fun _ => 0xFFFFFFFE) 2 0 0 []).2 ∧
    ¬ (⟨.idxOut, 12, 4294967295, 12⟩ : Access).inBounds := by
  constructor <;> decide

/-- a payload shorter than one record header: 12 bytes are read from 5 -/
theorem d25_unpack_short_payload_unsafe :
    ⟨.idxSrc, 0, 12, 5⟩ ∈ (unpackIdx false 5 (fun _ => 0) 2 0 0 []).2 ∧ ¬ (⟨.idxSrc, 0, 12, 5⟩ : Access).inBounds := by
  constructor <;> decide

theorem d25_repaired : (unpackIdx true 100 (fun _ => 0xFFFFFFFE) 2 0 0 []).1 = .error .oob := by decide

/-! ### D17 — `dir_rec.c` has no ancestor check -/

/-- a directory that lists itself -/
def selfLoop : DirGraph := ⟨fun _ => [0], fun _ => true, fun _ => 1⟩

/-- current code: no amount of fuel lets the walk finish (sqfs2tar emits entries without end) -/
theorem d17_dir_rec_diverges : ∀ (fuel : Nat) (stack : List Nat), dirRec false selfLoop fuel stack 0 = .error .fuel := by
  intro fuel
  induction fuel with
  | zero => intro st; rfl
  | succ fuel ih =>
    intro st
    unfold dirRec
    simp only [selfLoop, sumEntries, Bool.false_and, if_true]
    have := ih (0 :: st)
    simp only [selfLoop] at this
    simp [this]

theorem d17_repaired : tarWalk true selfLoop 2 0 = .error .linkLoop := by decide

/-- `fill_dir` (rdsquashfs) refuses the same image -/
theorem d17_fill_dir_refuses : readTree selfLoop 1 0 = .error .linkLoop := by decide

/-! ### D17b — shared sub-directories are expanded exponentially by the walks without a visited set -/

/-- `n` levels; every directory lists the next level's directory twice (hard link to a directory) -/
def diamond (n : Nat) : DirGraph := ⟨fun r => if r < n then [r + 1, r + 1] else [], fun _ => true, fun r => r.toUInt32⟩

theorem diamond_fill (n : Nat) (hn : n < 2 ^ 32) : ∀ (k r fuel : Nat) (anc : List UInt32),
    r + k = n → k < fuel → (∀ x ∈ anc, x.toNat ≤ r) →
    fillDir (diamond n) fuel anc r = .ok (2 ^ (k + 1) - 2) := by
  intro k
  induction k with
  | zero =>
    intro r fuel anc hr hf _
    cases fuel with
    | zero => omega
    | succ fuel =>
      have : ¬ r < n := by omega
      simp [fillDir, diamond, this, sumEntries]
  | succ k ih =>
    intro r fuel anc hr hf hanc
    cases fuel with
    | zero => omega
    | succ fuel =>
      have hlt : r < n := by omega
      have hnot : anc.contains ((r + 1).toUInt32) = false := by
        rw [List.contains_eq_mem]
        simp only [decide_eq_false_iff_not]
        intro hmem
        have := hanc _ hmem
        have e : (r + 1).toUInt32.toNat = r + 1 := by
          simp [Nat.toUInt32, UInt32.toNat_ofNat']
          omega
        omega
      have hsub := ih (r + 1) fuel ((r + 1).toUInt32 :: anc) (by omega) (by omega) (by
        intro x hx
        rcases List.mem_cons.1 hx with rfl | hx
        · simp [Nat.toUInt32, UInt32.toNat_ofNat']
          have : (r + 1) % 4294967296 = r + 1 := Nat.mod_eq_of_lt (by omega)
          omega
        · have := hanc x hx; omega)
      unfold fillDir
      simp only [diamond, hlt, if_true, List.any_cons, List.any_nil, hnot, Bool.or_false, Bool.false_eq_true, if_false]
      simp only [diamond] at hsub
      simp only [sumEntries, if_true, hsub]
      congr 1
      have : 2 ^ (k + 1) ≥ 2 := by
        have := Nat.pow_pos (n := k) (show 0 < 2 by decide)
        rw [Nat.pow_succ]; omega
      rw [Nat.pow_succ 2 (k + 1)]
      omega

/-- `fill_dir` before `fixes/C05-dir-visited-set.patch`: an image with `n` levels of doubly-listed directories (a few bytes per
level) is expanded into `2^(n+1) - 2` tree nodes -/
theorem dag_blowup_exponential (n : Nat) (hn : n < 2 ^ 32) : readTree (diamond n) (n + 1) 0 = .ok (2 ^ (n + 1) - 2) := by
  unfold readTree
  apply diamond_fill n hn n 0 (n + 1)
  · omega
  · omega
  · intro x hx
    simp [diamond] at hx
    subst hx
    exact Nat.le_refl _

/-- with the visited set the same images are refused at the first directory that is listed a second time -/
theorem dag_blowup_repaired : readTreeV (diamond 26) 4096 28 0 = .error .linkLoop ∧
    tarWalkV (diamond 26) 4096 28 0 = .error .linkLoop := by
  constructor <;> decide

/-! ### D26 — recursion depth of `fill_dir` = nesting depth of the image (before `fixes/C05-nesting-limit.patch`) -/

/-- `n` directories nested inside each other -/
def chain (n : Nat) : DirGraph := ⟨fun r => if r < n then [r + 1] else [], fun _ => true, fun r => r.toUInt32⟩

theorem chain_fill (n : Nat) (hn : n < 2 ^ 32) : ∀ (k r fuel : Nat) (anc : List UInt32),
    r + k = n → (∀ x ∈ anc, x.toNat ≤ r) →
    fillDir (chain n) fuel anc r = if k < fuel then .ok k else .error .fuel := by
  intro k
  induction k with
  | zero =>
    intro r fuel anc hr _
    cases fuel with
    | zero => rfl
    | succ fuel =>
      have : ¬ r < n := by omega
      simp [fillDir, chain, this, sumEntries]
  | succ k ih =>
    intro r fuel anc hr hanc
    cases fuel with
    | zero => simp [fillDir]
    | succ fuel =>
      have hlt : r < n := by omega
      have e : (r + 1).toUInt32.toNat = r + 1 := by
        simp [Nat.toUInt32, UInt32.toNat_ofNat']
        omega
      have hnot : anc.contains ((r + 1).toUInt32) = false := by
        rw [List.contains_eq_mem]
        simp only [decide_eq_false_iff_not]
        intro hmem
        have := hanc _ hmem
        omega
      have hsub := ih (r + 1) fuel ((r + 1).toUInt32 :: anc) (by omega) (by
        intro x hx
        rcases List.mem_cons.1 hx with rfl | hx
        · omega
        · have := hanc x hx; omega)
      unfold fillDir
      simp only [chain, hlt, if_true, List.any_cons, List.any_nil, hnot, Bool.or_false, Bool.false_eq_true, if_false]
      simp only [chain] at hsub
      simp only [sumEntries, if_true, hsub]
      by_cases hk : k < fuel
      · simp [hk]; omega
      · simp [hk]

/-- the walk of the unpatched tree needs one frame per directory level, whatever the depth: with `n` frames it is
not finished on a chain of `n` directories, with `n + 1` it delivers the `n` nodes -/
theorem d26_fill_dir_depth_unbounded (n : Nat) (hn : n < 2 ^ 32) :
    readTree (chain n) n 0 = .error .fuel ∧ readTree (chain n) (n + 1) 0 = .ok n := by
  unfold readTree
  have h := fun fuel => chain_fill n hn n 0 fuel [(chain n).inum 0] (by omega) (by
    intro x hx
    simp [chain] at hx
    subst hx
    exact Nat.le_refl _)
  constructor
  · rw [h n]; simp
  · rw [h (n + 1)]; simp

/-- with the nesting limit a chain deeper than the limit is refused after `limit + 2` frames -/
theorem d26_repaired : readTreeV (chain 10) 8 10 0 = .error .overflow ∧ tarWalkV (chain 10) 8 9 0 = .error .overflow ∧
    readTreeV (chain 8) 8 10 0 = .ok 8 ∧ tarWalkV (chain 8) 8 9 0 = .ok 8 := by
  refine ⟨?_, ?_, ?_, ?_⟩ <;> decide

end Sqfs.C05.Witness
