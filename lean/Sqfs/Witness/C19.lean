import Sqfs.Model.Obj
import Sqfs.Model.C19Readers
import Sqfs.Model.RbTree
import Sqfs.Model.C19Pool
/-!
Witnesses: the copy hooks of the pinned tree (`descCurrent`) violate C19.  Each statement is about the model
of the *current* code, is decided by evaluation, and is replayed on the real code by `tools/checks/c19.py`
(known-finding keys in `known_findings.d/C19.json`).
-/
namespace Sqfs.Witness.C19
open Sqfs.Obj

/-- D6: an id table with one entry; `sqfs_copy`; `sqfs_drop(copy)` calls the NULL destroy hook. -/
def d6Heap : Heap × Option Nat :=
  let (h, t) := construct Heap.empty .idTable 0 0
  sqfsCopy descCurrent 3 h t

theorem d6_copy_has_null_hooks :
    (d6Heap.2.bind d6Heap.1.objs).map (fun c => (c.rc, c.destroy, c.copy)) = some (1, false, false) := by decide

theorem d6_drop_of_copy_calls_null :
    (match d6Heap with | (h, some c) => (drop 3 h c).crash | _ => none) = some .nullHook := by decide

/-- with the repaired hook the same history is clean -/
theorem d6_repaired :
    (match (let (h, t) := construct Heap.empty .idTable 0 0; sqfsCopy desc 3 h t) with
      | (h, some c) => (drop 3 h c).crash | _ => some .fuel) = none := by decide

/-- D6, second face: a copied data reader owns a copied fragment table; dropping the reader drops the table. -/
def d6DataHeap : Heap × Option Nat :=
  let (h, f) := newObj Heap.empty .file [] [] []
  let (h, c) := newObj h .gzip [] [] []
  let (h, d) := construct h .dataReader f c
  sqfsCopy descCurrent 3 h d

theorem d6_drop_of_copied_data_reader_calls_null :
    (match d6DataHeap with | (h, some c) => (drop 4 h c).crash | _ => none) = some .nullHook := by decide
/-! ### default configuration (pool allocator): `rbtree_copy` leaks the fresh pool when `copy_node` fails

`rbtree_copy` (rbtree.c:205-227) creates `out->pool = mem_pool_create(...)` and then calls `copy_node`; in the pool
configuration `copy_node` fails exactly when `mem_pool_allocate` cannot `mmap` a block.  The failure branch is
`memset(out, 0, sizeof(*out)); return SQFS_ERROR_ALLOC;` — the only pointer to the fresh pool is overwritten, the pool (its
`mem_pool_t` and every block it already mapped) is never destroyed.  `dir_reader_copy` / `xattr_writer_copy` then `free(copy)`
and `sqfs_copy` returns NULL with one more live pool than before: the clause "a failed copy leaves nothing behind"
(`copy_fail_restores`) is false of /repo's default configuration.  Replayed on the real code: `failcopy 2` of an `rbt` unit /
of a directory reader with cached inodes / of an xattr writer with recorded blocks in the pool build (LeakSanitizer); repair
`fixes/C19-rbtree-copy-pool-leak.patch` (`mem_pool_destroy(out->pool)` before the `memset`). -/

open Sqfs.Rb in
/-- the failure branch as it is: the fresh pool stays -/
def rbCopyFailCurrent (ps : PStore) : PStore := ps.createPool.1

open Sqfs.Rb in
/-- the failure branch with the repair: `mem_pool_destroy(out->pool)` first -/
def rbCopyFailFixed (ps : PStore) : PStore := ps.createPool.1.destroyPool ps.createPool.2

open Sqfs.Rb in
/-- a failed `rbtree_copy` leaves a live pool that no tree refers to (for every store; concretely: none before, pool 0 after) -/
theorem failed_pool_copy_leaks_pool :
    (∀ ps : PStore, (rbCopyFailCurrent ps).live = ps.nextPool :: ps.live) ∧ (rbCopyFailCurrent PStore.empty).live = [0] ∧
    (rbCopyFailFixed PStore.empty).live = [] := by
  refine ⟨fun _ => rfl, by decide, by decide⟩

end Sqfs.Witness.C19

namespace Sqfs.Witness.C19
open Sqfs.Obj

/-- environment: the user's file (object 0) and compressor (object 1) -/
def env : Heap := (newObj (newObj Heap.empty .file [] [] []).1 .gzip [] [] []).1

/-- give object `id` a cached buffer in slot `slot` with `used < cap` -/
def withBuf (h : Heap) (id slot cap used : Nat) : Heap :=
  match h.objs id with
  | none => h
  | some o =>
    let (h, b) := newBuf h ⟨cap, used, 7⟩
    { h with objs := upd h.objs id (some { o with bufs := o.bufs.set slot (some b) }) }

/-! ### `data_reader_copy`: block buffers sized by the used part -/

/-- a data reader whose cached data block holds 4 of 8 bytes (the rest is the zero padding of `get_block`) -/
def dataHeap : Heap × Nat :=
  let (h, d) := construct env .dataReader 0 1
  (withBuf h d 0 8 4, d)

/-- the original may index its cached block up to `block_size` … -/
theorem dataReader_original_reads : (indexSlot dataHeap.1 dataHeap.2 0 7).crash = none := by decide

/-- … the copy made by the current hook overflows on the same access (with D6 repaired or not) -/
theorem dataReader_copy_overflows :
    (match sqfsCopy descCurrent 3 dataHeap.1 dataHeap.2 with
      | (h, some c) => (indexSlot h c 0 7).crash | _ => none) = some .overflow := by decide

theorem dataReader_copy_repaired :
    (match sqfsCopy desc 3 dataHeap.1 dataHeap.2 with
      | (h, some c) => (indexSlot h c 0 7).crash | _ => some .fuel) = none := by decide

/-! ### D7: failure path of `xattr_reader_copy` -/

/-- an xattr reader after `sqfs_xattr_reader_load`: two meta readers and the id-block array -/
def xattrHeap : Heap × Nat :=
  let (h, x) := construct env .xattrReader 0 1
  let (h, kv) := newMetaReader h 0 1
  let (h, idr) := newMetaReader h 0 1
  let (h, b) := newBuf h ⟨8, 8, 0⟩
  match h.objs x with
  | some o => ({ h with objs := upd h.objs x (some { o with bufs := [some b], refs := [some kv, some idr] }) }, x)
  | none => (h, x)

/-- the second allocation inside `sqfs_copy` (the copy of `kvrd`) fails: the hook returns NULL … -/
def d7After : Heap × Option Nat := sqfsCopy descCurrent 3 { xattrHeap.1 with budget := some 1 } xattrHeap.2

theorem d7_copy_fails : d7After.2 = none ∧ d7After.1.crash = none := by decide

/-- … and the original's `idrd` (object 4) has been destroyed although the original still points to it -/
theorem d7_failed_copy_destroys_originals_reader :
    (d7After.1.objs 4).isNone = true ∧ ((xattrHeap.1.objs xattrHeap.2).map (·.refs)) = some [some 3, some 4] ∧
    (drop 4 d7After.1 xattrHeap.2).crash = some .useAfterFree := by decide

/-- with the repaired hook every failing allocation leaves the original intact and nothing behind -/
theorem d7_repaired :
    ∀ k < 5, (let r := sqfsCopy desc 3 { xattrHeap.1 with budget := some k } xattrHeap.2
      (drop 4 r.1 xattrHeap.2).crash = none ∧ r.1.crash = none) := by decide

/-! ### failure path of `str_table_copy` (reached through `xattr_writer_copy`) -/

def xwrHeap : Heap × Nat :=
  let (h, w) := construct Heap.empty .xattrWriter 0 0
  let h := withBuf (withBuf h w 0 8 4) w 1 8 4      -- key and value bucket arrays
  (withBuf h w 3 8 8, w)                              -- block tree

def strTblAfter : Heap × Option Nat := sqfsCopy descCurrent 3 { xwrHeap.1 with budget := some 1 } xwrHeap.2

/-- the copy fails, and the original's key strings are gone: its next operation reads freed memory, its release frees twice -/
theorem strTable_failed_copy_frees_originals_buckets :
    strTblAfter.2 = none ∧ strTblAfter.1.crash = none ∧
    (touch strTblAfter.1 xwrHeap.2).crash = some .useAfterFree ∧
    (drop 3 strTblAfter.1 xwrHeap.2).crash = some .doubleFree := by decide

theorem strTable_repaired :
    ∀ k < 6, (let r := sqfsCopy desc 3 { xwrHeap.1 with budget := some k } xwrHeap.2
      (touch r.1 xwrHeap.2).crash = none ∧ (drop 3 r.1 xwrHeap.2).crash = none) := by decide

/-! ### D23: `xattr_writer_copy` keeps pointers into the original -/

/-- a writer with one recorded block: `kv_block_first`/`last` point into the tree, `key_context` at the struct -/
def xwrHeap2 : Heap × Nat :=
  match xwrHeap.1.objs xwrHeap.2 with
  | some o => ({ xwrHeap.1 with objs := upd xwrHeap.1.objs xwrHeap.2 (some { o with views := [listGet o.bufs 3, listGet o.bufs 3, listGet o.bufs 4] }) }, xwrHeap.2)
  | none => xwrHeap

def d23After : Heap × Option Nat := sqfsCopy descCurrent 3 xwrHeap2.1 xwrHeap2.2

/-- not independent: the copy's first internal pointer is the original's tree, so a store through it is seen by the original -/
theorem d23_copy_writes_into_original :
    (match d23After with
      | (h, some c) => (view (writeSlot h c 5 99) xwrHeap2.2).map (fun v => v[3]?) | _ => none) = some (some (some 99)) ∧
    (view xwrHeap2.1 xwrHeap2.2).map (fun v => v[3]?) = some (some (some 7)) := by decide

/-- not safely destroyable: after the original is released the copy's next operation reads freed memory -/
theorem d23_copy_dangles_after_original_released :
    (match d23After with
      | (h, some c) => (touch (drop 3 h xwrHeap2.2) c).crash | _ => none) = some .useAfterFree := by decide

theorem d23_repaired :
    (match sqfsCopy desc 3 xwrHeap2.1 xwrHeap2.2 with
      | (h, some c) => ((touch (drop 3 h xwrHeap2.2) c).crash, (view (writeSlot h c 5 99) xwrHeap2.2).map (fun v => v[3]?))
      | _ => (some .fuel, none)) = (none, some (some (some 7))) := by decide

end Sqfs.Witness.C19

namespace Sqfs.Witness.C19
open Sqfs.Obj

/-! ### what the probe's `differ` means: a hook that does not carry the contents over is not equivalent

`descGarble` is the repaired description with the value string table of the xattr writer duplicated *without its
contents* (the seeded change to `str_table_copy` that drops the per-string use counts, which `sqfs_xattr_writer_flush`
reads; the same shape as a `data_reader_copy` that copies only a prefix of the cached fragment block). -/
def descGarble : Kind → CopyDesc
  | .xattrWriter => { desc .xattrWriter with bufs := [.trim, .garble, .trim, .dup, .dup] }
  | k => desc k

theorem garbled_copy_is_not_wellformed : ¬ WfDesc (descGarble .xattrWriter) := by decide

/-- the copy is balanced and releasable, but it does not observe what the original observes -/
theorem garbled_copy_not_equivalent :
    (match sqfsCopy descGarble 3 xwrHeap2.1 xwrHeap2.2 with
      | (h, some c) => decide (view h c = view h xwrHeap2.2) | _ => true) = false := by decide

end Sqfs.Witness.C19

namespace Sqfs.Witness.C19
open Sqfs.C19R Sqfs.DataReader

/-! ### why `copy_equiv_dataReader` needs the padding invariant of `get_block`, and what a prefix-only copy loses

`data_reader_copy` carries over `*_blk_size` bytes of each cached block.  On a state that `get_block` cannot produce
(bytes behind `data_blk_size` not zero) the copy differs from the original — the invariant is not decoration; and a hook
that copies fewer bytes than `*_blk_size` (the seeded change C19-a1: the shorter of the two sizes) loses data even on
reachable states. -/

/-- not reachable: a 4-byte block with `data_blk_size = 2` and a non-zero byte behind it -/
def unpaddedDR : DR := ⟨4, [], some ([1, 2, 3, 9], 2), 0, 0, none, 0⟩

theorem unpadded_violates_invariant : cacheInv unpaddedDR = false := by decide
theorem drCopy_differs_without_padding : decide (drCopy unpaddedDR = unpaddedDR) = false := by decide

/-- `data_reader_copy` with both blocks copied up to the *smaller* of the two sizes -/
def drCopyShort (d : DR) : DR :=
  let n := match d.dataBlock, d.fragBlock with
    | some a, some b => min a.2 b.2
    | _, _ => 0
  { d with dataBlock := d.dataBlock.map fun c => (Sqfs.MetaReader.overwrite (zeros d.blockSize) (c.1.take n), c.2),
           fragBlock := d.fragBlock.map fun c => (Sqfs.MetaReader.overwrite (zeros d.blockSize) (c.1.take n), c.2) }

/-- a reachable state (full data block, 2-byte fragment block): the short copy is not the original -/
def twoBlocksDR : DR := ⟨4, [], some ([1, 2, 3, 4], 4), 0, 0, some ([7, 8, 0, 0], 2), 0⟩

theorem twoBlocks_satisfies_invariant : cacheInv twoBlocksDR = true := by decide
theorem short_copy_loses_data : decide (drCopyShort twoBlocksDR = twoBlocksDR) = false ∧ decide (drCopy twoBlocksDR = twoBlocksDR) = true := by decide

/-! ### why `rbtree_copy_equiv` is about `key_size_padded`: a `copy_node` whose `memcpy` is sized by `key_size`

The seeded change C19-b1 computes the node size as `sizeof(*n) + key_size + value_size`.  For every key size that is not
a multiple of `sizeof(void *)` the copied node then lacks the last `key_size_padded - key_size` bytes of its **value**
(they stay zero in the `calloc`ed node).  In the directory reader's cache (4 byte key, 8 byte value) that is the upper
half of every cached inode reference. -/

open Sqfs.Rb in
/-- `data[]` of the fresh node when `memcpy` copies `sizeof(*n) + key_size + value_size` bytes -/
def copyDataShort (c : Cfg) (d : List UInt8) : List UInt8 :=
  (d.take (c.keySize + c.valueSize) ++ List.replicate (c.keyPad + c.valueSize) 0).take (c.keyPad + c.valueSize)

open Sqfs.Rb in
/-- the node that caches "inode 7 lives at reference 0x123456789abc": its copy holds reference 0x56789abc -/
theorem short_node_copy_loses_value_tail :
    let c : Cfg := ⟨4, 8, 8⟩
    let d := dataOf (mknode c (leBytes 4 7) (leBytes 8 0x123456789abc))
    d.length = c.keyPad + c.valueSize ∧ leVal (valueOf c (c.keyPad, d)) = 0x123456789abc ∧
    leVal (valueOf c (c.keyPad, copyDataShort c d)) = 0x56789abc ∧ copyData c d = d := by decide


end Sqfs.Witness.C19
