import Sqfs.Model.Obj
/-!
Witnesses: the copy hooks of the pinned tree (`descCurrent`) violate C19.  Each statement is about the model
of the *current* code, is decided by evaluation, and is replayed on the real code by `tools/checks/c19.py`
(known-finding keys in `known_findings.d/C19.json`).
-/
namespace Sqfs.Witness.C19
open Sqfs.Obj

/-- D6: an id table with one entry; `sqfs_copy`; `sqfs_drop(copy)` calls the NULL destroy hook. -/
def d6Heap : Heap × Option Nat :=
  let (h, t) := construct Heap.empty .idTable 0 0
  sqfsCopy descCurrent 3 h t

theorem d6_copy_has_null_hooks :
    (d6Heap.2.bind d6Heap.1.objs).map (fun c => (c.rc, c.destroy, c.copy)) = some (1, false, false) := by decide

theorem d6_drop_of_copy_calls_null :
    (match d6Heap with | (h, some c) => (drop 3 h c).crash | _ => none) = some .nullHook := by decide

/-- with the repaired hook the same history is clean -/
theorem d6_repaired :
    (match (let (h, t) := construct Heap.empty .idTable 0 0; sqfsCopy desc 3 h t) with
      | (h, some c) => (drop 3 h c).crash | _ => some .fuel) = none := by decide

/-- D6, second face: a copied data reader owns a copied fragment table; dropping the reader drops the table. -/
def d6DataHeap : Heap × Option Nat :=
  let (h, f) := newObj Heap.empty .file [] [] []
  let (h, c) := newObj h .gzip [] [] []
  let (h, d) := construct h .dataReader f c
  sqfsCopy descCurrent 3 h d

theorem d6_drop_of_copied_data_reader_calls_null :
    (match d6DataHeap with | (h, some c) => (drop 4 h c).crash | _ => none) = some .nullHook := by decide

end Sqfs.Witness.C19
