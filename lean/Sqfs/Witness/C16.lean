/-
Witnesses of violations of C16.

**Section LF (repaired by 4b35342, kept as regression inputs).**  The printer without the line-feed test
(`Sqfs.Quote.describeNode`: /repo between 96e45c1 and 4b35342) prints a symlink target or an `<unpack-root>/<path>` location that contains a line feed; the pack-file format has no
way to carry one (`istream_get_line` cuts at every LF, `split_line` has no escape for it), so the listing is rejected
by `gensquashfs --pack-file` — or, worse, silently decoded to a different tree: whatever follows the LF is read as
pack-file lines of its own.  The property excludes LF from entry *names* only.  The same nodes are replayed on the
real code by every run of the check (`corpus/C16/lf.cases.json`, tool-level LF cases) and must be refused now.

**Section D13 (repaired by 96e45c1, kept as regression inputs).**  The printer of the pinned snapshot
(`Sqfs.QuoteOld`) quoted names only on space/`"`, escaped only `"`, printed targets and locations verbatim and never
printed the root: concrete nodes whose line the pack-file parser rejects or decodes to a different entry.  The same
nodes are replayed on the real code by every run (`corpus/C16/witnesses.cases.json`) and must round-trip now.
-/
import Sqfs.Model.QuoteOld
import Sqfs.Spec.Quote
namespace Sqfs.Witness.C16
open Sqfs.Quote

/-- what the real parser makes of the snapshot printer's line for a node -/
def oldRoundTrip (ur : Option Sqfs.Path.Bytes) (comps : List Sqfs.Path.Bytes) (n : Node) :=
  match Sqfs.QuoteOld.describeNode ur comps n with
  | .ok line => some (fstreeFromFile {} line)
  | .error _ => none

def slinkNode (t : Sqfs.Path.Bytes) : Node := { kind := .slink, perm := 0o777, uid := 0, gid := 0, target := t }
def fileNode : Node := { kind := .file, perm := 0o644, uid := 0, gid := 0 }

/-! ## Section LF — the printer without the line-feed test (repaired in /repo by 4b35342) -/

/-- what the real parser makes of the line the printer without the line-feed test prints for a node -/
def curRoundTrip (ur : Option Sqfs.Path.Bytes) (comps : List Sqfs.Path.Bytes) (n : Node) :=
  match describeNode ur comps n with
  | .ok line => some (fstreeFromFile {} line)
  | .error _ => none

/-- `LF:target` — symlink `l` → `a<LF>b`: printed as `slink l 0777 0 0 a` / `b`; the first line decodes to a link
with the wrong target, the second is "error in entry description": gensquashfs exits 1.  (A target that needs quotes,
e.g. `a b<LF>c`, gives `"a b` on the first line: "missing `\"`".) -/
theorem cur_target_lf_rejected :
    curRoundTrip none [[108]] (slinkNode [97, 10, 98])
      = some ([{ name := [108], mode := 0o120777, uid := 0, gid := 0, rdev := 0, extra := some [97] }], some (.handle .entry)) := by
  decide

/-- `LF:target`, silent variant — symlink `l` → `a<LF>#b`: the tail of the target starts a line of its own, here
a comment line; the listing is **accepted** and the rebuilt link points to `a` (same for a target that ends in LF:
the empty second line is skipped) -/
theorem cur_target_lf_silently_altered :
    curRoundTrip none [[108]] (slinkNode [97, 10, 35, 98])
      = some ([{ name := [108], mode := 0o120777, uid := 0, gid := 0, rdev := 0, extra := some [97] }], none)
    ∧ curRoundTrip none [[108]] (slinkNode [97, 10])
      = some ([{ name := [108], mode := 0o120777, uid := 0, gid := 0, rdev := 0, extra := some [97] }], none)
    ∧ specEntry none [[108]] (slinkNode [97, 10, 35, 98])
      = some { name := [108], mode := 0o120777, uid := 0, gid := 0, rdev := 0, extra := some [97, 10, 35, 98] } := by decide

/-- `LF:location` — `--unpack-root 'u<LF>p'`, file `f`: printed as `file f 0644 0 0 u` / `p/f` -/
theorem cur_location_lf_rejected :
    curRoundTrip (some [117, 10, 112]) [[102]] fileNode
      = some ([{ name := [102], mode := 0o100644, uid := 0, gid := 0, rdev := 0, extra := some [117] }], some (.handle .entry)) := by
  decide

/-- `LF:location`, silent variant — `--unpack-root 'u<LF>#'`: the listing is accepted and names `u` as the input
file of `f` instead of `u<LF>#/f` -/
theorem cur_location_lf_silently_altered :
    curRoundTrip (some [117, 10, 35]) [[102]] fileNode
      = some ([{ name := [102], mode := 0o100644, uid := 0, gid := 0, rdev := 0, extra := some [117] }], none) := by
  decide

/-- the negation of the full-strength listing theorem for the printer without the test: a tree every image can hold
(`RootOkN`, no LF in any *name*) whose listing is printed without complaint and does not decode to the tree -/
theorem cur_describe_lf_not_rebuilt :
    ∃ t out, RootOkN t ∧ describe none t = .ok out ∧ fstreeFromFile {} out ≠ (specTree none [] t, none) := by
  refine ⟨.mk [] { kind := .dir, perm := 0o755, uid := 0, gid := 0 } [.mk [108] (slinkNode [97, 10, 98]) []],
    [100,105,114,32,47,32,48,55,53,53,32,48,32,48,10, 115,108,105,110,107,32,108,32,48,55,55,55,32,48,32,48,32,97,10,98,10], ?_, ?_, ?_⟩
  · simp only [RootOkN, ForestOkN, TreeOkN, ImgName, Node.WfN, slinkNode]
    decide
  · decide
  · decide

/-! ## Section D13 — the printer of the pinned snapshot (repaired in /repo by 96e45c1) -/

/-- D13 `target:sep` — `slink d/s 0777 0 0 target with space` → "too many arguments" -/
theorem old_slink_target_with_space :
    oldRoundTrip none [[100], [115]] (slinkNode [116, 32, 119]) = some ([], some (.handle .tooMany)) := by decide

/-- D13 `name:backslash` — name `x\ y` is printed `"x\ y"` → "broken escape sequence" -/
theorem old_name_backslash_space :
    oldRoundTrip none [[120, 92, 32, 121]] fileNode = some ([], some (.split .escape)) := by decide

/-- D13 `name:backslash`, silent variant — name `x\\ y` (two backslashes) is accepted but decoded as `x\ y` (one):
the rebuilt image has a different entry name -/
theorem old_name_double_backslash_silently_altered :
    oldRoundTrip none [[120, 92, 92, 32, 121]] fileNode
      = some ([{ name := [120, 92, 32, 121], mode := 0o100644, uid := 0, gid := 0, rdev := 0, extra := some [120, 92, 32, 121] }], none)
    ∧ specEntry none [[120, 92, 92, 32, 121]] fileNode
      = some { name := [120, 92, 92, 32, 121], mode := 0o100644, uid := 0, gid := 0, rdev := 0, extra := some [120, 92, 92, 32, 121] } := by
  decide

/-- D13 `name:tab` — a name with a tab but no space is not quoted: the line has one field too many (here the mode
field becomes `b`) -/
theorem old_name_tab_not_quoted :
    oldRoundTrip none [[97, 9, 98]] fileNode = some ([], some (.handle .mode)) := by decide

/-- D13 `location:sep` — with `--unpack-root`, the location of `a b` is printed verbatim -/
theorem old_location_with_space :
    oldRoundTrip (some [82]) [[97, 32, 98]] fileNode = some ([], some (.handle .tooMany)) := by decide

/-- D13 `target:trailing-cr` — a target ending in CR loses the CR (`istream_get_line` strips it): silently altered -/
theorem old_target_trailing_cr_silently_altered :
    oldRoundTrip none [[108]] (slinkNode [116, 13])
      = some ([{ name := [108], mode := 0o120777, uid := 0, gid := 0, rdev := 0, extra := some [116] }], none) := by decide

/-- D13 `target:leading-dquote` — a target starting with `"` is read as a quoted token -/
theorem old_target_leading_dquote :
    oldRoundTrip none [[108]] (slinkNode [34, 116]) = some ([], some (.split .unmatchedQuote)) := by decide

/-- D13 `root-dir` — the root directory's mode and owner are not described at all -/
theorem old_root_dir_not_described :
    oldRoundTrip none [] { kind := .dir, perm := 0o700, uid := 7, gid := 8 } = some ([], none)
    ∧ specEntry none [] { kind := .dir, perm := 0o700, uid := 7, gid := 8 }
      = some { name := [], mode := 0o40700, uid := 7, gid := 8, rdev := 0, extra := none } := by decide

end Sqfs.Witness.C16
