/-
Witnesses that the printer of the pinned snapshot (`Sqfs.QuoteOld`, `bin/rdsquashfs/src/describe.c` before
`fixes/C16-describe-quoting.patch`) violates C16: concrete nodes whose describe line the (unchanged) pack-file
parser rejects or decodes to a different entry.  Each witness is replayed on the real tools by the check
(`tools/checks/c16.py`, keys `D13:*` in `known_findings.d/C16.json`).
-/
import Sqfs.Model.QuoteOld
import Sqfs.Spec.Quote
namespace Sqfs.Witness.C16
open Sqfs.Quote

/-- what the real parser makes of the snapshot printer's line for a node -/
def oldRoundTrip (ur : Option Sqfs.Path.Bytes) (comps : List Sqfs.Path.Bytes) (n : Node) :=
  match Sqfs.QuoteOld.describeNode ur comps n with
  | .ok line => some (fstreeFromFile {} line)
  | .error _ => none

def slinkNode (t : Sqfs.Path.Bytes) : Node := { kind := .slink, perm := 0o777, uid := 0, gid := 0, target := t }
def fileNode : Node := { kind := .file, perm := 0o644, uid := 0, gid := 0 }

/-- D13 `target:sep` — `slink d/s 0777 0 0 target with space` → "too many arguments" -/
theorem old_slink_target_with_space :
    oldRoundTrip none [[100], [115]] (slinkNode [116, 32, 119]) = some ([], some (.handle .tooMany)) := by decide

/-- D13 `name:backslash` — name `x\ y` is printed `"x\ y"` → "broken escape sequence" -/
theorem old_name_backslash_space :
    oldRoundTrip none [[120, 92, 32, 121]] fileNode = some ([], some (.split .escape)) := by decide

/-- D13 `name:backslash`, silent variant — name `x\\ y` (two backslashes) is accepted but decoded as `x\ y` (one):
the rebuilt image has a different entry name -/
theorem old_name_double_backslash_silently_altered :
    oldRoundTrip none [[120, 92, 92, 32, 121]] fileNode
      = some ([{ name := [120, 92, 32, 121], mode := 0o100644, uid := 0, gid := 0, rdev := 0, extra := some [120, 92, 32, 121] }], none)
    ∧ specEntry none [[120, 92, 92, 32, 121]] fileNode
      = some { name := [120, 92, 92, 32, 121], mode := 0o100644, uid := 0, gid := 0, rdev := 0, extra := some [120, 92, 92, 32, 121] } := by
  decide

/-- D13 `name:tab` — a name with a tab but no space is not quoted: the line has one field too many (here the mode
field becomes `b`) -/
theorem old_name_tab_not_quoted :
    oldRoundTrip none [[97, 9, 98]] fileNode = some ([], some (.handle .mode)) := by decide

/-- D13 `location:sep` — with `--unpack-root`, the location of `a b` is printed verbatim -/
theorem old_location_with_space :
    oldRoundTrip (some [82]) [[97, 32, 98]] fileNode = some ([], some (.handle .tooMany)) := by decide

/-- D13 `target:trailing-cr` — a target ending in CR loses the CR (`istream_get_line` strips it): silently altered -/
theorem old_target_trailing_cr_silently_altered :
    oldRoundTrip none [[108]] (slinkNode [116, 13])
      = some ([{ name := [108], mode := 0o120777, uid := 0, gid := 0, rdev := 0, extra := some [116] }], none) := by decide

/-- D13 `target:leading-dquote` — a target starting with `"` is read as a quoted token -/
theorem old_target_leading_dquote :
    oldRoundTrip none [[108]] (slinkNode [34, 116]) = some ([], some (.split .unmatchedQuote)) := by decide

/-- D13 `root-dir` — the root directory's mode and owner are not described at all -/
theorem old_root_dir_not_described :
    oldRoundTrip none [] { kind := .dir, perm := 0o700, uid := 7, gid := 8 } = some ([], none)
    ∧ specEntry none [] { kind := .dir, perm := 0o700, uid := 7, gid := 8 }
      = some { name := [], mode := 0o40700, uid := 7, gid := 8, rdev := 0, extra := none } := by decide

end Sqfs.Witness.C16
