/-
C06 — no defect of /repo is recorded here (the property holds on the unchanged tree).  This file keeps the
*necessity* witnesses: for each mechanism the property's statement names, a model of the code **without** that
mechanism provably violates confinement on a concrete hostile tree.  They show (i) that `confinement` is not true
for trivial reasons — the abstract file system can express every escape the mechanisms are there to stop — and
(ii) which theorem breaks first if the corresponding line of C is removed.
-/
import Sqfs.Spec.Unpack
import Sqfs.Model.UnpackRepaired
namespace Sqfs.Witness.C06
open Sqfs.Path Sqfs.Unpack

private abbrev A : Bytes := [97]
private abbrev Pw : Bytes := [112]
private abbrev X : Bytes := [120]
private abbrev Rn : Bytes := [82]
private abbrev DD : Bytes := [DOT, DOT]
/-- "../x" -/
private abbrev upX : Bytes := [DOT, DOT, SL, 120]
/-- "../d" -/
private abbrev upD : Bytes := [DOT, DOT, SL, 100]

/-- `/`, `/R`, `/d` directories; `/x` a file -/
def fs0 : Fs := fun q =>
  if q = [] ∨ q = [Rn] ∨ q = [[100]] then some ⟨.dir, {}⟩ else if q = [X] then some ⟨.file [1], {}⟩ else none

/-- rdsquashfs.c without the duplicate check in `tree_sort`: sort only -/
def planNoDupCheck (fl : Flags) (t : TNode) : Out :=
  let t' := match t with | .mk n k p a ch => TNode.mk n k p a (sortNodes ch)
  (restoreFstree fl t').seq ((fillUnpacked id t').seq (updateAttribs fl t'))

/-- symlink a → ../d and a directory a holding a file p -/
def symlinkPlusDir : TNode :=
  .mk [] .dir [] {} [.mk A .lnk upD {} [], .mk A .dir [] {} [.mk Pw .reg [7] {} []]]

/-- symlink a → ../x and a regular file a -/
def symlinkPlusFile : TNode :=
  .mk [] .dir [] {} [.mk A .lnk upX {} [], .mk A .reg [7] {} []]

/-- without the duplicate check a file appears in `/d`, outside `/R` -/
theorem no_dup_check_escapes :
    outside [Rn] (exec [Rn] fs0 (planNoDupCheck {} symlinkPlusDir).syscalls) ≠ outside [Rn] fs0 := by
  intro h
  have := congrFun h [[100], Pw]
  revert this
  decide

/-- `unpackTree` (with the check) refuses the same tree before any call -/
theorem with_dup_check_refused : (unpackTree id {} symlinkPlusDir).err = some .duplicate ∧
    (unpackTree id {} symlinkPlusDir).syscalls = [] := by decide

/-- a create walk without the `is_filename_sane` gate *and* without `sqfs_tree_node_get_path`'s checks: a directory
    entry named ".." puts its children next to R -/
def createNoGates : List Bytes → TNode → List Syscall
  | comps, .mk _ k pl a ch =>
    createNode k (joinSlash comps) pl a {} ::
      (if k = .dir then ch.flatMap (fun c => match c with
        | .mk n k' pl' a' _ => [createNode k' (joinSlash (comps ++ [n])) pl' a' {}]) else [])

theorem no_name_gates_escape :
    outside [Rn] (exec [Rn] fs0 (createNoGates [DD] (.mk DD .dir [] {} [.mk Pw .reg [] {} []]))) ≠ outside [Rn] fs0 := by
  intro h
  have := congrFun h [Pw]
  revert this
  decide

/-- `chmod` on a symlink node (the `!S_ISLNK` test dropped): `fchmodat(…, 0)` follows the link -/
theorem chmod_on_symlink_escapes :
    outside [Rn] (exec [Rn] fs0 [.symlink upX A, .chmod A 0o777]) ≠ outside [Rn] fs0 := by
  intro h
  have := congrFun h [X]
  revert this
  decide

/-- `fchownat` without `AT_SYMLINK_NOFOLLOW` -/
theorem chown_follow_escapes :
    outside [Rn] (exec [Rn] fs0 [.symlink upX A, .chown A 7 7 false]) ≠ outside [Rn] fs0 := by
  intro h
  have := congrFun h [X]
  revert this
  decide

/-- whereas the no-follow forms the code uses leave `/x` alone -/
theorem nofollow_forms_confined :
    outside [Rn] (exec [Rn] fs0 [.symlink upX A, .chown A 7 7 true, .utimens A 5 true, .setxattr A [116, 114, 117, 115, 116, 101, 100, 46, 97] [1] true]) [X]
      = outside [Rn] fs0 [X] := by decide

/-- `open` without `O_EXCL` in `create_node` (modelled by the following open) writes through a symlink that is
    already there — reachable only together with the missing duplicate check -/
theorem open_without_excl_escapes :
    outside [Rn] (exec [Rn] fs0 [.symlink upX A, .openTrunc A [9]]) ≠ outside [Rn] fs0 := by
  intro h
  have := congrFun h [X]
  revert this
  decide

/-- `/`, `/R`, `/d` directories and — planted before the run — `/R/a` a symbolic link to `../d` -/
def fsPlanted : Fs := fun q =>
  if q = [] ∨ q = [Rn] ∨ q = [[100]] then some ⟨.dir, {}⟩ else if q = [Rn, A] then some ⟨.symlink upD, {}⟩ else none
/-- an entirely harmless image: directory `a` holding a file `p` -/
def dirWithFile : TNode := .mk [] .dir [] {} [.mk A .dir [] {} [.mk Pw .reg [7] {} []]]
/-- **The hypothesis on R cannot be dropped**: with a symbolic link planted in R beforehand, the tolerated `EEXIST` of
    `mkdir("a")` lets `open("a/p", O_CREAT|O_EXCL)` walk through the link: a file appears in `/d`, outside `/R`.
    (The property quantifies over images, not over what other parties put into R; `NoLinkBelow` is the exact condition.) -/
theorem prepopulated_symlink_escapes :
    outside [Rn] (exec [Rn] fsPlanted (unpackTree id {} dirWithFile).syscalls) ≠ outside [Rn] fsPlanted := by
  intro h
  have := congrFun h [[100], Pw]
  revert this
  decide

/-- **The repaired code on the same witness**: `mkdir a` answers `EEXIST`, `lstat` says "symbolic link", the run ends
    there with exit status 1 and `/d/p` does not appear — while the current code (`unpackMain`) puts the file there. -/
theorem repaired_planted_symlink_confined :
    (unpackMainR id {} dirWithFile none noFaults (fun _ => false) [Rn] fsPlanted).exit = 1 ∧
    (unpackMainR id {} dirWithFile none noFaults (fun _ => false) [Rn] fsPlanted).trace = [(.mkdir A 0o755, some .EEXIST)] ∧
    (unpackMainR id {} dirWithFile none noFaults (fun _ => false) [Rn] fsPlanted).fs [[100], Pw] = none ∧
    (unpackMain id {} dirWithFile none noFaults [Rn] fsPlanted).fs [[100], Pw] ≠ none := by decide

end Sqfs.Witness.C06
