/-
C03 — witnesses: models of the **unrepaired** code and concrete inputs on which the property fails.
Each is replayed against the real code by tools/checks/c03.py (known-finding keys in known_findings.d/C03.json).

D11  comp/lz4.c `lz4_comp_block` returns LZ4's size even when it is not smaller than the input
D8   id_table.c admits 65536 ids, `id_count` (u16) wraps to 0
D18  dir_writer.c `add_entry` accepts names of any length (size field: 16 bit, kernel limit 255)
-/
import Sqfs.Proofs.MetaWriter
import Sqfs.Proofs.IdTable
import Sqfs.Model.DirWriter
namespace Sqfs.C03.Witness
open Sqfs.Consts

/-! ## D11 -/
section D11
open Sqfs.MetaWriter

/-- `lz4_comp_block` of the unrepaired tree on inputs shorter than LZ4's minimum match search length (13):
`LZ4_compress_default` emits one token `len << 4` followed by the literals, i.e. `len + 1` bytes, and the
wrapper returns that size as is. (Longer inputs are not modelled: `none` stands for "not covered here".) -/
def lz4Short : Codec := fun x =>
  if 0 < x.length ∧ x.length < 13 then some (UInt8.ofNat (x.length * 16) :: x) else none

/-- the unrepaired LZ4 wrapper does not meet the `do_block` contract -/
theorem lz4_breaks_contract : ¬ lz4Short.Shrinks := by
  intro h
  have := h [1, 2, 3, 4] [64, 1, 2, 3, 4] (by decide)
  simp at this

/-- a one-entry id table (4 bytes) is written as a 5 byte block flagged compressed: stored larger than unpacked -/
theorem meta_block_larger_than_unpacked :
    (run lz4Short [[0, 0, 0, 0]]).out = [⟨true, [64, 0, 0, 0, 0], [0, 0, 0, 0]⟩] := by decide

/-- `data_block_size_rule` fails for it: a 4 byte data block comes back with 5 bytes, flagged compressed -/
theorem data_block_larger_than_input :
    processBlock lz4Short ⟨0, [9, 8, 7, 6]⟩ = ⟨blkIsCompressed, [64, 9, 8, 7, 6]⟩ := by decide

end D11

/-! ## D8 -/
section D8
open Sqfs.IdTable

/-- limit of the unrepaired code (`if (tbl->ids.used == 0x10000)`) -/
def oldLimit : Nat := 0x10000

theorem idxOf_range_self (n : Nat) : (List.range n).idxOf n = n := by
  have h : n ∉ List.range n := by simp
  rw [List.idxOf_eq_length h]; simp

theorem addAll_range (lim : Nat) : ∀ (k m : Nat), m + k ≤ lim →
    ∃ is, addAll lim (List.range m) ((List.range' m k)) = some (List.range (m + k), is) := by
  intro k
  induction k with
  | zero => intro m _; exact ⟨[], by simp [addAll]⟩
  | succ k ih =>
    intro m h
    have hstep : step lim (List.range m) m = some (m, List.range (m + 1)) := by
      unfold step
      simp only
      rw [idxOf_range_self]
      simp only [List.length_range, Nat.lt_irrefl, if_false]
      rw [if_neg (by omega)]
      simp [List.range_succ]
    obtain ⟨is, his⟩ := ih (m + 1) (by omega)
    have he : m + 1 + k = m + (k + 1) := by omega
    rw [he] at his
    refine ⟨m :: is, ?_⟩
    simp only [List.range'_succ, addAll, hstep, his, Option.map_some]

/-- 65536 distinct ids are all accepted by the unrepaired code and the u16 `id_count` becomes 0 -/
theorem id_count_wraps :
    ∃ t is, addAll oldLimit [] (List.range' 0 65536) = some (t, is) ∧ t.length = 65536 ∧ superIdCount t = 0 := by
  obtain ⟨is, h⟩ := addAll_range oldLimit 65536 0 (by decide)
  refine ⟨List.range (0 + 65536), is, by simpa using h, by simp, by simp [superIdCount]⟩

end D8

/-! ## D18 -/
section D18
open Sqfs.DirWriter

/-- unrepaired `sqfs_dir_writer_add_entry`: only the empty name and inode number 0 are refused -/
def addEntryOld (name : Bytes) (inodeNum inodeRef mode : Nat) : AddResult :=
  match getType mode with
  | none => .unsupported
  | some t => if name = [] ∨ inodeNum < 1 then .argInvalid else .ok ⟨inodeRef, inodeNum, t, name⟩

/-- every non-empty name is accepted, whatever its length -/
theorem any_name_accepted (name : Bytes) (h : name ≠ []) :
    addEntryOld name 1 0 0o100644 = .ok ⟨0, 1, inodeFile, name⟩ := by
  have ht : getType 0o100644 = some inodeFile := by decide
  unfold addEntryOld
  rw [ht]
  simp [h]

/-- a 300 byte name is accepted: its `size` field is 299, beyond what the kernel accepts (255) -/
theorem long_name_accepted :
    addEntryOld (List.replicate 300 97) 1 0 0o100644 = .ok ⟨0, 1, inodeFile, List.replicate 300 97⟩ ∧
    (List.replicate 300 (97 : UInt8)).length - 1 > 255 := by
  refine ⟨any_name_accepted _ ?_, ?_⟩
  · intro h
    have := congrArg List.length h
    rw [List.length_replicate] at this
    simp at this
  · rw [List.length_replicate]; decide

/-- for a 65537 byte name the 16-bit `size` field written at dir_writer.c:310 is 0 ("1 byte"), while all 65537 bytes
are appended: the listing cannot be parsed any more -/
theorem size_field_truncated : ((List.replicate 65537 (97 : UInt8)).length - 1) % 65536 = 0 := by
  rw [List.length_replicate]

end D18

/-! ## D25 (found while building this check) -/
section D25
open Sqfs.DirWriter

/-- 65536 single-entry runs (e.g. hard links alternating between two inode blocks) -/
def manyRuns : List Run := List.replicate 65536 ⟨[⟨0, 1, 2, [97]⟩], 0, 1, 0, 0⟩

/-- unrepaired `sqfs_dir_writer_create_inode`: every header gets an index entry, however many there are -/
theorem old_index_length (ref : Nat) (runs : List Run) (n h x p : Nat) (hn : n ≥ dirIndexThreshold) :
    (createInodeCap none ref runs n h x p).index.length = runs.length := by
  unfold createInodeCap
  simp [hn]

/-- the u16 `inodex_count` is 0 while 65536 index entries follow the inode -/
theorem index_count_wraps :
    (createInodeCap none 0 manyRuns 65536 0 0xFFFFFFFF 0).indexCount = 0 ∧
    (createInodeCap none 0 manyRuns 65536 0 0xFFFFFFFF 0).index.length = 65536 := by
  have hl : manyRuns.length = 65536 := List.length_replicate ..
  have hext := old_index_length 0 manyRuns 65536 0 0xFFFFFFFF 0 (by decide)
  refine ⟨?_, by rw [hext, hl]⟩
  unfold DirInode.indexCount
  rw [hext, hl]

end D25

end Sqfs.C03.Witness
