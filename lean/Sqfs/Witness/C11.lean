/-
Witness of defect D16 (C11), repaired in /repo by 7ff9210: on the model of the scan path with a native iterator that does
NOT sort (`sorted = false`: `read_names` without its `qsort` call, i.e. the readdir order is passed through — the code
before 7ff9210, and what a revert of it would be), the full statement of `Sqfs.C11.scan_perm_invariant` is false.

Directory `{a, b, c}` where `a` and `c` are two names of one inode and `b` is another file:
enumeration `a, b, c` makes `a` the real file (inode 1, first in the file list) and `c` a link to it;
enumeration `c, b, a` makes `c` the real file, numbers `b` 1 and `c` 2, and puts `b` first in the file list.
Replayed on the real code by tools/checks/c11.py (case "witness": harness/h_c11.c `packdir sorted` vs `packdir reverse`,
and gensquashfs under LD_PRELOAD=shim_readdir.so — different sha256).
-/
import Sqfs.Proofs.FsTree

namespace Sqfs.Witness.C11
open Sqfs.FsTree Sqfs.Consts

def st (ino : Nat) : Stat := { mode := 0o100644, uid := 0, gid := 0, mtime := 0, dev := 1, ino := ino, rdev := 0 }
def fa : HNode := .mk [0x61] (st 10) [] []
def fb : HNode := .mk [0x62] (st 11) [] []
def fc : HNode := .mk [0x63] (st 10) [] []
def dflt : Defaults := { uid := 0, gid := 0, mtime := 0, mode := 0o755 }
/-- `gensquashfs --pack-dir` with default options (options.c: KEEP_UID | KEEP_GID | KEEP_MODE) -/
def cfg : Cfg := { flags := dirScanKeepUid ||| dirScanKeepGid ||| dirScanKeepMode, defUid := 0, defGid := 0, defMode := 0,
                   defMtime := 0, pfx := [], filePrefix := none, pattern := none }
def fnm : Fnm := fun _ _ _ => true

def inodesOf (r : Option Result) : Option (List Path) := r.map (·.inodes)
def filesOf (r : Option Result) : Option (List Path) := r.map (·.files)

theorem inodes_abc : inodesOf (packDir false dflt cfg fnm 1 [fa, fb, fc]) = some [[[0x61]], [[0x62]], []] := by decide
theorem inodes_cba : inodesOf (packDir false dflt cfg fnm 1 [fc, fb, fa]) = some [[[0x62]], [[0x63]], []] := by decide
theorem files_abc : filesOf (packDir false dflt cfg fnm 1 [fa, fb, fc]) = some [[[0x61]], [[0x62]]] := by decide
theorem files_cba : filesOf (packDir false dflt cfg fnm 1 [fc, fb, fa]) = some [[[0x62]], [[0x63]]] := by decide

theorem perm_abc_cba : FPerm [fa, fb, fc] [fc, fb, fa] :=
  FPerm.trans (FPerm.swap _ _ _) (FPerm.trans (FPerm.cons FPerm.nil (FPerm.swap _ _ _)) (FPerm.swap _ _ _))

theorem wf_abc : WFList [fa, fb, fc] := by simp [WFList, WFNode, HNode.name, fa, fb, fc]

/-- **Negation of the full statement for the pinned code**: two enumerations of one well-formed directory for which
`gensquashfs --pack-dir` computes different inode numbers and a different file (data) order. -/
theorem scan_order_dependent :
    ∃ (e₁ e₂ : List HNode) (d : Defaults) (c : Cfg) (f : Fnm) (dev : Nat),
      FPerm e₁ e₂ ∧ WFList e₁ ∧ packDir false d c f dev e₁ ≠ packDir false d c f dev e₂ := by
  refine ⟨[fa, fb, fc], [fc, fb, fa], dflt, cfg, fnm, 1, perm_abc_cba, wf_abc, ?_⟩
  intro h
  have := congrArg inodesOf h
  rw [inodes_abc, inodes_cba] at this
  exact absurd this (by decide)

/-- with hard-link detection off (`-H` / `-nohardlinks`) the same two enumerations agree -/
theorem nohardlinks_agree :
    inodesOf (packDir false dflt { cfg with flags := cfg.flags ||| dirScanNoHardlinks } fnm 1 [fa, fb, fc])
      = inodesOf (packDir false dflt { cfg with flags := cfg.flags ||| dirScanNoHardlinks } fnm 1 [fc, fb, fa]) := by decide

/-- the repaired iterator gives the `a, b, c` answer for both -/
theorem repaired_agree :
    inodesOf (packDir true dflt cfg fnm 1 [fc, fb, fa]) = some [[[0x61]], [[0x62]], []] := by decide

/-! The hard-link filter unifies every multiply-linked **non-directory**, not only regular files: with regular files
filtered out (`-type d -type l`, i.e. `DIR_SCAN_NO_FILE` set) the pinned iterator is still order dependent for a symlink
with two names.  So "no regular files wanted" is not a licence to skip the sort in the native iterator (seeded change
C11-a2), and the hypothesis of `scan_perm_invariant_partial` cannot be weakened to `DIR_SCAN_NO_FILE`. -/

def lst (ino : Nat) : Stat := { mode := 0o120777, uid := 0, gid := 0, mtime := 0, dev := 1, ino := ino, rdev := 0 }
def lc : HNode := .mk [0x63] (lst 10) [0x78] []
def lk : HNode := .mk [0x6b] (lst 11) [0x79] []
def ls : HNode := .mk [0x73] (lst 10) [0x78] []
/-- `glob / * * * -type d -type l` -/
def cfgNoFile : Cfg :=
  { cfg with flags := cfg.flags ||| dirScanNoFile ||| dirScanNoBlk ||| dirScanNoChr ||| dirScanNoFifo ||| dirScanNoSock }

theorem nofile_inodes_cks : inodesOf (packDir false dflt cfgNoFile fnm 1 [lc, lk, ls]) = some [[[0x63]], [[0x6b]], []] := by decide
theorem nofile_inodes_skc : inodesOf (packDir false dflt cfgNoFile fnm 1 [ls, lk, lc]) = some [[[0x6b]], [[0x73]], []] := by decide

theorem nofile_filter_order_dependent :
    hasFlag cfgNoFile.flags dirScanNoFile = true ∧
    packDir false dflt cfgNoFile fnm 1 [lc, lk, ls] ≠ packDir false dflt cfgNoFile fnm 1 [ls, lk, lc] := by
  refine ⟨by decide, ?_⟩
  intro h
  have := congrArg inodesOf h
  rw [nofile_inodes_cks, nofile_inodes_skc] at this
  exact absurd this (by decide)

/-- the repaired iterator is not affected -/
theorem nofile_repaired_agree :
    inodesOf (packDir true dflt cfgNoFile fnm 1 [ls, lk, lc]) = inodesOf (packDir true dflt cfgNoFile fnm 1 [lc, lk, ls]) := by decide

end Sqfs.Witness.C11
