/-
C04 — witnesses of defects of the *unrepaired* code.

1. `read_binary` (`lib/tar/src/number.c`): the overflow guard is sign-blind
   (`ov != 0 && ov != 0xFF`), so a non-negative base-256 number whose running value reaches a top
   byte of 0xFF is shifted once more and wraps, and a negative number may lose its sign bit in the
   last shift.  Both return a *wrong value with status 0* ("silently wrapped").
   Repair: `fixes/C04-read-binary-overflow.patch`; the repaired guard is `Sqfs.Tar.readBinary`.
-/
import Sqfs.Spec.TarNumber
namespace Sqfs.Witness.C04
open Sqfs.Tar

/-- a 12-byte size/mtime field meaning 255·2^64 -/
def wrapPos : Bytes := [0x80, 0, 0, 0xFF, 0, 0, 0, 0, 0, 0, 0, 0]
/-- a 12-byte mtime field meaning −(2^63 + 2^56) -/
def wrapNeg : Bytes := [0xFF, 0xFF, 0xFF, 0xFF, 0x7F, 0, 0, 0, 0, 0, 0, 0]

/-- The unrepaired reader returns 0 for a field whose value is 255·2^64 (no error). -/
theorem read_binary_wraps_positive :
    readNumberCur wrapPos = some 0 ∧ specBinary wrapPos = 255 * 2 ^ 64 ∧ specNumber wrapPos = none := by
  decide

/-- The unrepaired reader returns +0x7F00000000000000 for a field whose value is −0x8100000000000000. -/
theorem read_binary_wraps_negative :
    readNumberCur wrapNeg = some 0x7F00000000000000 ∧ specBinary wrapNeg = -0x8100000000000000
      ∧ specNumber wrapNeg = none := by
  decide

/-- so "exact or error" is false for the unrepaired reader -/
theorem readNumberCur_not_exact_or_error : ¬ ∀ f, readNumberCur f = specNumber f := by
  intro h
  have := h wrapPos
  rw [read_binary_wraps_positive.1, read_binary_wraps_positive.2.2] at this
  cases this

end Sqfs.Witness.C04
