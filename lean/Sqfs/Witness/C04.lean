/-
C04 — witnesses of defects of the *unrepaired* code.

1. `read_binary` (`lib/tar/src/number.c`): the overflow guard is sign-blind
   (`ov != 0 && ov != 0xFF`), so a non-negative base-256 number whose running value reaches a top
   byte of 0xFF is shifted once more and wraps, and a negative number may lose its sign bit in the
   last shift.  Both return a *wrong value with status 0* ("silently wrapped").
   Repair: `fixes/C04-read-binary-overflow.patch`; the repaired guard is `Sqfs.Tar.readBinary`.
-/
import Sqfs.Spec.TarNumber
import Sqfs.Model.TarConv
import Sqfs.Model.TarRead
namespace Sqfs.Witness.C04
open Sqfs.Tar

/-- a 12-byte size/mtime field meaning 255·2^64 -/
def wrapPos : Bytes := [0x80, 0, 0, 0xFF, 0, 0, 0, 0, 0, 0, 0, 0]
/-- a 12-byte mtime field meaning −(2^63 + 2^56) -/
def wrapNeg : Bytes := [0xFF, 0xFF, 0xFF, 0xFF, 0x7F, 0, 0, 0, 0, 0, 0, 0]

/-- The unrepaired reader returns 0 for a field whose value is 255·2^64 (no error). -/
theorem read_binary_wraps_positive :
    readNumberCur wrapPos = some 0 ∧ specBinary wrapPos = 255 * 2 ^ 64 ∧ specNumber wrapPos = none := by
  decide

/-- The unrepaired reader returns +0x7F00000000000000 for a field whose value is −0x8100000000000000. -/
theorem read_binary_wraps_negative :
    readNumberCur wrapNeg = some 0x7F00000000000000 ∧ specBinary wrapNeg = -0x8100000000000000
      ∧ specNumber wrapNeg = none := by
  decide

/-- so "exact or error" is false for the unrepaired reader -/
theorem readNumberCur_not_exact_or_error : ¬ ∀ f, readNumberCur f = specNumber f := by
  intro h
  have := h wrapPos
  rw [read_binary_wraps_positive.1, read_binary_wraps_positive.2.2] at this
  cases this

/-!
2. **D25** `process_tarball` (`bin/tar2sqfs/src/process_tarball.c`), `--root-becomes R` without `-S`: the unrepaired
   code runs `canonicalize_name(link)` *in place* before it tests the prefix, so a symlink target that is not below
   `R` is rewritten although the documentation says only prefixed targets are adjusted.
   Repair: `fixes/C04-retarget-keeps-unprefixed-links.patch` (canonicalise a copy); `Sqfs.Tar.retarget`.
-/

def optsR : ConvOpts := { rootBecomes := some (ascii "root") }
def absLink : CEntry :=
  { name := ascii "root/abs", mode := S_IFLNK + 0o777, uid := 0, gid := 0, mtime := 0, hardLink := false,
    link := some (ascii "/usr/bin/foo") }
def halfLink : CEntry := { absLink with name := ascii "root/dotrel", link := some (ascii "./x/../y") }

/-- an absolute target outside the new root becomes a *relative* one -/
theorem retarget_clobbers_absolute :
    processEntryCur optsR absLink = .node { absLink with name := ascii "abs", link := some (ascii "usr/bin/foo") } ∧
    processEntry optsR absLink = .node { absLink with name := ascii "abs" } := by
  decide

/-- a target on which `canonicalize_name` fails is left half rewritten ("./x/../y" → "x/x/../y") -/
theorem retarget_leaves_half_rewritten_buffer :
    processEntryCur optsR halfLink = .node { halfLink with name := ascii "dotrel", link := some (ascii "x/x/../y") } ∧
    processEntry optsR halfLink = .node { halfLink with name := ascii "dotrel" } := by
  decide

/-- the repaired retarget never touches a target whose canonical form is not below the root … -/
theorem retarget_keeps_unprefixed (r l : Bytes)
    (h : ∀ c, Sqfs.Path.canonicalize l = some c → ¬ (c.take r.length = r ∧ (c.drop r.length).head? = some Sqfs.Path.SL)) :
    retarget r l = l := by
  unfold retarget
  cases hc : Sqfs.Path.canonicalize l with
  | none => rfl
  | some c => simp only; rw [if_neg (h c hc)]

/-!
3. **D27** `write_tar_header` (`lib/tar/src/write_header.c`): the PAX 'x' / GNU 'K','L' records are appended before
   the type switch returns `SQFS_ERROR_UNSUPPORTED`; sqfs2tar skips the socket, the records stay in the stream and
   every reader applies them to the next member.  Repair: `fixes/C04-socket-skip-before-ext-records.patch`.
-/

def longSock : WEntry :=
  { name := List.replicate 120 115, mode := S_IFSOCK + 0o644, uid := 1, gid := 2, size := 0, mtime := 0,
    devMajor := 0, devMinor := 0, hardLink := false }

set_option maxRecDepth 1000000 in
/-- unrepaired: extension records (an 'L' header and the 120-byte name, padded) are emitted for an entry that is then
    refused; repaired: nothing is emitted -/
theorem socket_leaves_extension_records :
    (writeTarHeaderCur longSock none [] 0).2 = false ∧ (writeTarHeaderCur longSock none [] 0).1 ≠ [] ∧
    writeTarHeader longSock none [] 0 = none := by
  decide

def nameOf : ReadResult → Option Bytes
  | .ok d _ => d.name
  | _ => none

set_option maxRecDepth 1000000 in
/-- … and the reader hands that dangling long name to the following member ("d/zfile" is read back under the
    socket's 120-byte name) -/
theorem dangling_long_name_renames_next_member :
    nameOf (readHeader ((writeTarHeaderCur longSock none [] 0).1 ++
        (writeTarHeader { longSock with name := ascii "d/zfile", mode := S_IFREG + 0o644 } none [] 1).getD [])) =
      some (List.replicate 120 115) := by
  decide

/-!
4. **D20** (`fstree_add_generic` overwrite path copies `mtime` unclamped): real at the library level, unreachable from
   tar2sqfs (`Sqfs.C04.mtime_overwrite_path_safe`).  The library-level difference, for the record:
-/
theorem overwrite_path_unclamped_at_library_level :
    ((4294967301 : Int) % 4294967296).toNat = 5 ∧ clampTimestamp 4294967301 = 4294967295 := by decide

/-!
5. **xattr key with '='** (`write_schily_xattr` in `lib/tar/src/write_header.c`, `pax_xattr_schily` in `pax_header.c`):
   the key is copied verbatim into the `SCHILY.xattr.<key>=<value>` record, but a PAX keyword ends at the first '='.
   An inode with the attribute `user.a=b` = "v" (a legal Linux xattr name; it gets into an image through
   `LIBARCHIVE.xattr.user.a%3Db`, gensquashfs, …) comes out of `sqfs2tar | tar2sqfs` — and out of GNU tar — with the
   attribute `user.a` = "b=v": content altered, status 0.  Repair: `fixes/C04-xattr-key-escape.patch` (GNU tar's
   convention: '%' → "%25", '=' → "%3D" in the writer, the inverse in the reader; `Sqfs.C04.xattr_key_escape`,
   `Sqfs.C04.header_roundtrip`).
-/

def eqKeyFile : WEntry :=
  { name := ascii "f", mode := S_IFREG + 0o644, uid := 0, gid := 0, size := 0, mtime := 0, devMajor := 0, devMinor := 0,
    hardLink := false }

def xattrOf : ReadResult → Option (List (Bytes × Bytes))
  | .ok d _ => some d.xattr
  | _ => none

set_option maxRecDepth 1000000 in
/-- unrepaired writer and reader: the pair (`user.a=b`, "v") is read back as (`user.a`, "b=v") -/
theorem xattr_key_with_equals_is_altered :
    xattrOf (readHeaderWith { schilyKeyDecode := false }
      ((writeTarHeaderRawKeys eqKeyFile none [(ascii "user.a=b", ascii "v")] 0).getD [] ++ zeros 1024)) =
      some [(ascii "user.a", ascii "b=v")] := by
  decide

set_option maxRecDepth 1000000 in
/-- repaired writer and reader: the pair comes back unchanged (instance of `Sqfs.C04.header_roundtrip`) -/
theorem xattr_key_with_equals_repaired :
    xattrOf (readHeader ((writeTarHeader eqKeyFile none [(ascii "user.a=b", ascii "v")] 0).getD [] ++ zeros 1024)) =
      some [(ascii "user.a=b", ascii "v")] := by
  decide

/-!
6. **Old GNU sparse map, entries from 8 GiB on** (`lib/tar/src/read_sparse_map_old.c: parse`).  The end-of-list test is
   `!isdigit(in->offset[0]) || !isdigit(in->numbytes[0])`; GNU tar stores an offset or size of 8^11 = 8 GiB and more as a
   base-256 number (first byte 0x80), so such an entry is taken for the end of the list: the rest of the map is dropped, the
   data of the dropped regions is skipped, the file is stored with zeros there — exit status 0.  The four map entries below are
   bytes 386…481 of the header GNU tar 1.34 (`tar --format=gnu -S`) writes for a file with 512 bytes of data at offset 0 and 612
   bytes at offset 8 GiB + 4096 (size 8 589 939 300).  Repair: `fixes/C04-old-sparse-base256.patch`.
-/

/-- `hdr.tail.gnu.sparse[0..3]` as written by GNU tar 1.34: (0, 512), (2^33 + 4096, 612), (2^33 + 4708, 0), unused -/
def gnuBigSparse : Bytes :=
  [0x30, 0x30, 0x30, 0x30, 0x30, 0x30, 0x30, 0x30, 0x30, 0x30, 0x30, 0, 0x30, 0x30, 0x30, 0x30, 0x30, 0x30, 0x30, 0x31, 0x30, 0x30, 0x30, 0,
   0x80, 0, 0, 0, 0, 0, 0, 2, 0, 0, 0x10, 0, 0x30, 0x30, 0x30, 0x30, 0x30, 0x30, 0x30, 0x31, 0x31, 0x34, 0x34, 0,
   0x80, 0, 0, 0, 0, 0, 0, 2, 0, 0, 0x12, 0x64, 0x30, 0x30, 0x30, 0x30, 0x30, 0x30, 0x30, 0x30, 0x30, 0x30, 0x30, 0] ++ zeros 24

set_option maxRecDepth 100000 in
/-- the unrepaired parser stops in front of the first base-256 entry and reports a complete, shorter map; the repaired one
    reads all three entries -/
theorem old_sparse_base256_entry_ends_map :
    oldSparseParse false 4 gnuBigSparse [] = some ([(0, 512)], true) ∧
    oldSparseParse true 4 gnuBigSparse [] = some ([(0, 512), (8589938688, 612), (8589939300, 0)], true) := by
  decide

end Sqfs.Witness.C04
