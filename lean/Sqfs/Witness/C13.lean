/-
C13 — witnesses.

(0) /repo as it is (`Variant.current`) violates "a run that exits with status 0 has produced exactly the output of a
    fault-free run" / "exit with a non-zero status … if any system call on the output fails": rdsquashfs -l / -s /
    -d / -x ignore write errors on standard output.  Replayed on the real tool on every run of tools/checks/c13.py
    (fault class `stdout`: /dev/full, closed descriptor, EPIPE); listed in known_findings.d/C13.json until
    fixes/C13-check-stdout-errors.patch is committed.
(1) Regression: the source before b5ce20d (`Variant.beforeRealpath`) violated `failure_never_leaves_output`:
    relative output name × pack directory.  Repaired in /repo; a revert is reported by the check as a VIOLATION
    (cases `gen-rel*`: the oracle sees the file, and the call log no longer contains `realpath`).
(2) Regression witnesses: the source as first pinned (`Variant.snapshot`) violated three more clauses; the
    repairs are part of /repo now, and the check reports a revert as a VIOLATION.
-/
import Sqfs.Proofs.FailStop
import Sqfs.Model.FailStopBlockProc
namespace Sqfs.Witness.C13
open Sqfs.FailStop

/-! ### (0) the defect of the current source: write errors on standard output are ignored -/

/-- `rdsquashfs -d image` -/
def descCfg : RCfg := { sqfs2tar := false, op := .describe }

/-- /repo as it is: `main` makes 12 fallible calls, none of them looks at `stdout` -/
example : (readerSites .current descCfg).length = 12 ∧ Site.rStdoutFlush ∉ readerSites .current descCfg := by decide

/-- **`rdsquashfs -d image > /dev/full` exits 0.**  Every call of `main` succeeds (`describe_tree` only fills the
    stdio buffer), `status = EXIT_SUCCESS`; the exit-time flush of libc (script position 12, behind the last site)
    fails and nobody is left to notice: exit status 0, no failure reported, the listing lost. -/
theorem stdout_error_unreported :
    (runReader .current descCfg (single 12)).status = 0 ∧
    (runReader .current descCfg (single 12)).trace.failed = none ∧
    (runReader .current descCfg (single 12)).trace.ran = readerSites .current descCfg ∧
    (runReader .current descCfg (single 12)).stdoutLost = true := by
  decide

/-- …the same for -l, -s and -x; `-c` (and sqfs2tar) write through `write(2)` and are not affected. -/
theorem stdout_error_unreported_all :
    (runReader .current { descCfg with op := .ls } (single 11)).stdoutLost = true ∧
    (runReader .current { descCfg with op := .stat } (single 12)).stdoutLost = true ∧
    (runReader .current { descCfg with op := .rdattr } (single 12)).stdoutLost = true ∧
    (runReader .current { descCfg with op := .cat, nsplice := 2 } (single 15)).stdoutLost = false ∧
    (runReader .current { sqfs2tar := true, nentries := 2 } (single 9)).stdoutLost = false := by
  decide

/-- The clause `reader_exit0_results_delivered` is false for /repo as it is. -/
theorem not_reader_exit0_results_delivered_current :
    ¬ ∀ (c : RCfg) (fs : List Bool), (runReader .current c fs).status = 0 → (runReader .current c fs).stdoutLost = false := by
  intro h
  have := h descCfg (single 12) (by decide)
  revert this
  decide

/-- …and so is the specification: the oracle's predicate fails on that model run ("exit0-different-output"). -/
theorem current_reader_violates_spec :
    Spec.failStopOk (observedReader .current descCfg (single 12)) = false ∧
    Spec.verdict (observedReader .current descCfg (single 12)) = "exit0-different-output" := by
  decide

/-- With fixes/C13-check-stdout-errors.patch the same fault (now at a site of `main`, position 12) is reported:
    exit 1, site `rStdoutFlush`, nothing lost silently. -/
theorem stdout_error_reported_when_fixed :
    (readerSites .fixed descCfg)[12]? = some .rStdoutFlush ∧
    (runReader .fixed descCfg (single 12)).status = 1 ∧
    (runReader .fixed descCfg (single 12)).trace.failed = some .rStdoutFlush ∧
    (runReader .fixed descCfg (single 12)).stdoutLost = false := by
  decide

/-! ### (1) regression: relative output name × pack directory, before b5ce20d -/

/-- `gensquashfs -F packfile -D in rel.sqfs`, one file to pack -/
def relCfg : Cfg := { tool := .gensquashfs, packFile := true, packDir := true, relOut := true, nfiles := 1 }

/-- position of `pack_file` for the first file: behind the `chdir` -/
example : sitePos .beforeRealpath relCfg (.packFile 0) = some 22 ∧ sitePos .beforeRealpath relCfg .chdirPack = some 21 := by decide

/-- **The partial output file stayed behind.**  `pack_file` fails (the pack file names an input that does not
    exist, a read error, an allocation failure …): `main` does `goto out`, `sqfs_writer_cleanup(&sqfs,
    EXIT_FAILURE)` is reached and calls `unlink("rel.sqfs")` — from inside the pack directory, where the name
    does not designate the output file.  Exit status 1, output present. -/
theorem relative_output_left_behind :
    (run .beforeRealpath relCfg (single 22)).status = 1 ∧
    (run .beforeRealpath relCfg (single 22)).cleanupReached = true ∧
    (run .beforeRealpath relCfg (single 22)).trace.cwd = .pack ∧
    (run .beforeRealpath relCfg (single 22)).unlinkHit = some false ∧
    (run .beforeRealpath relCfg (single 22)).out = .present := by
  decide

/-- …and so did every later failure: the rest of `pack_files` and all of `sqfs_writer_finish`
    (positions 22..29 of the program); a failing `chdir` itself (21) and everything before it were harmless. -/
theorem relative_output_left_behind_all :
    ∀ k : Fin 30, (22 ≤ k.val → (run .beforeRealpath relCfg (single k.val)).out = .present) ∧
                  (k.val ≤ 21 → (run .beforeRealpath relCfg (single k.val)).out ≠ .present) := by
  decide

/-- The clause `failure_never_leaves_output` was false before b5ce20d. -/
theorem not_failure_never_leaves_output_beforeRealpath :
    ¬ ∀ (c : Cfg) (fs : List Bool), (run .beforeRealpath c fs).status ≠ 0 → (run .beforeRealpath c fs).out ≠ .present := by
  intro h
  exact h relCfg (single 22) (by decide) (by decide)

/-- /repo as it is: the same failure (one position later: `realpath` is a new site) removes the file; a failing
    `realpath` itself happens before the `chdir` and is harmless too. -/
theorem relative_output_removed_now :
    sitePos .current relCfg (.packFile 0) = some 23 ∧
    (run .current relCfg (single 23)).status = 1 ∧ (run .current relCfg (single 23)).trace.cwd = .pack ∧
    (run .current relCfg (single 23)).unlinkHit = some true ∧ (run .current relCfg (single 23)).out = .unlinked ∧
    sitePos .current relCfg .realpathOut = some 18 ∧ (run .current relCfg (single 18)).out = .unlinked := by
  decide

/-- `-D .`: the pack directory is the directory the process is in anyway — nothing was left behind. -/
theorem relative_output_packdir_is_cwd :
    (run .beforeRealpath { relCfg with packDirIsCwd := true } (single 22)).out = .unlinked := by
  decide

/-! ### (2) regression witnesses against the first pinned source -/

/-- gensquashfs with a pack file, one file, export table -/
def cfg : Cfg := { tool := .gensquashfs, packFile := true, nfiles := 1, exportable := true }

/-- D15c.  A failure inside `sqfs_writer_init` after the output file was created (here: writing the provisional
    super block) made the packer exit 1 *without* removing the file: `main` returns before
    `sqfs_writer_cleanup` and init.c's `fail_file:` only dropped the object.  Repaired: C13-init-unlink. -/
theorem init_failure_leaves_output :
    ∃ fs, (run .snapshot cfg fs).status ≠ 0 ∧ (run .snapshot cfg fs).out = .present ∧
          (run .snapshot cfg fs).cleanupReached = false :=
  ⟨single 8, by decide⟩

/-- …for every site of `sqfs_writer_init` behind the `open` the same happened (positions 2..17). -/
theorem init_failure_leaves_output_all :
    ∀ k : Fin 18, 2 ≤ k.val →
      (run .snapshot cfg (single k.val)).status = 1 ∧ (run .snapshot cfg (single k.val)).out = .present ∧
      (run .current cfg (single k.val)).out = .unlinked := by
  decide

example : sitePos .snapshot cfg .exportAddRoot = some 25 := by decide

/-- D15b.  `add_export_table_entry` failing inside `sqfs_dir_writer_write_export_table` (`if (ret) return 0;`):
    exit status 0, the export table not written.  Repaired: C13-export-table-result. -/
theorem export_table_fault_unreported :
    (run .snapshot cfg (single 25)).status = 0 ∧
    (run .snapshot cfg (single 25)).trace.ops ≠ (faultFree .snapshot cfg).trace.ops ∧
    Op.done .exportWrite ∈ (faultFree .snapshot cfg).trace.ops ∧
    Op.done .exportWrite ∉ (run .snapshot cfg (single 25)).trace.ops ∧
    (run .current cfg (single 25)).status = 1 := by
  decide

/-- The clause `exit0_output_eq_fault_free` was false for the snapshot. -/
theorem not_exit0_output_eq_fault_free_snapshot :
    ¬ ∀ (c : Cfg) (fs : List Bool), (run .snapshot c fs).status = 0 → run .snapshot c fs = faultFree .snapshot c := by
  intro h
  have := h cfg (single 25) (by decide)
  revert this
  decide

/-- D15a (block processor).  A processor whose pool holds one completed all-zero tail fragment: `sync`
    dequeues it, `set_block_size` fails (second primitive), the call returned 0.  Repaired:
    C13-sparse-tail-result. -/
def procWithSparseTail : BP.Proc :=
  { backlog := 1, pool := [{ size := 3, isFrag := true, zero := true, first := true }] }

theorem sparse_tail_fault_unreported :
    (BP.runCall .snapshot 3 .sync procWithSparseTail [false, true]).1 =
      ⟨true, none, true, true, [.poolDequeue, .growSparseTail]⟩ := by
  decide

/-- …while /repo as it is reports it. -/
theorem sparse_tail_fault_reported_now :
    (BP.runCall .current 3 .sync procWithSparseTail [false, true]).1 =
      ⟨false, some .fault, true, false, [.poolDequeue, .growSparseTail]⟩ := by
  decide

/-- The clause `blockproc_error_propagates` was false for the snapshot. -/
theorem not_blockproc_error_propagates_snapshot :
    ¬ ∀ (fuel : Nat) (a : BP.Api) (p : BP.Proc) (fs : List Bool),
        (BP.runCall .snapshot fuel a p fs).1.faulted = true → (BP.runCall .snapshot fuel a p fs).1.ok = false := by
  intro h
  have := h 3 .sync procWithSparseTail [false, true] (by decide)
  revert this
  decide

end Sqfs.Witness.C13
