/-
C13 — witnesses: the *pinned* source (`Variant.current`) violates the fail-stop property.  Each theorem is the
negation of a clause of Sqfs/Props/C13.lean on the model of the current code, with a concrete fault script;
each has been replayed on the real tools (tools/checks/c13.py, known_findings.d/C13.json).
-/
import Sqfs.Model.FailStop
import Sqfs.Model.FailStopBlockProc
namespace Sqfs.Witness.C13
open Sqfs.FailStop

/-- gensquashfs with a pack file, one file with an all-zero tail, export table -/
def cfg : Cfg := { tool := .gensquashfs, packFile := true, nfiles := 1, sparseTails := 1, exportable := true }

/-- D15c.  A failure inside `sqfs_writer_init` after the output file was created (here: writing the provisional
    super block, init.c:112) makes the packer exit 1 *without* removing the file: `main` returns before
    `sqfs_writer_cleanup` (mkfs.c:107-108) and init.c's `fail_file:` only drops the object. -/
theorem init_failure_leaves_output :
    ∃ fs, (run .current cfg fs).status ≠ 0 ∧ (run .current cfg fs).out = .present ∧
          (run .current cfg fs).cleanupReached = false :=
  ⟨single 8, by decide⟩

/-- …for every site of `sqfs_writer_init` behind the `open` the same happens (positions 2..17 of the program). -/
theorem init_failure_leaves_output_all :
    ∀ k : Fin 18, 2 ≤ k.val →
      (run .current cfg (single k.val)).status = 1 ∧ (run .current cfg (single k.val)).out = .present := by
  decide

/-- The clause `failure_never_leaves_output` is false for the pinned source. -/
theorem not_failure_never_leaves_output :
    ¬ ∀ (c : Cfg) (fs : List Bool), (run .current c fs).status ≠ 0 → (run .current c fs).out ≠ .present := by
  intro h
  exact h cfg (single 8) (by decide) (by decide)

/-- position of `exportAddRoot` in the program of `cfg` -/
example : sitePos cfg .exportAddRoot = some 26 := by decide
example : sitePos cfg (.sparseTail 0) = some 22 := by decide

/-- D15b.  `add_export_table_entry` failing inside `sqfs_dir_writer_write_export_table` (dir_writer.c:443-445
    `if (ret) return 0;`): exit status 0, the export table is not written — the output-producing steps differ
    from the fault-free run. -/
theorem export_table_fault_unreported :
    (run .current cfg (single 26)).status = 0 ∧
    (run .current cfg (single 26)).trace.ops ≠ (faultFree .current cfg).trace.ops ∧
    Op.done .exportWrite ∈ (faultFree .current cfg).trace.ops ∧
    Op.done .exportWrite ∉ (run .current cfg (single 26)).trace.ops := by
  decide

/-- D15a (skeleton level).  The inode growth for an all-zero tail fails (backend.c:141, result dropped): exit 0
    with a damaged step. -/
theorem sparse_tail_fault_unreported_skeleton :
    (run .current cfg (single 22)).status = 0 ∧
    Op.damaged (.sparseTail 0) ∈ (run .current cfg (single 22)).trace.ops ∧
    (run .current cfg (single 22)).trace.ops ≠ (faultFree .current cfg).trace.ops := by
  decide

/-- The clause `exit0_output_eq_fault_free` is false for the pinned source. -/
theorem not_exit0_output_eq_fault_free :
    ¬ ∀ (c : Cfg) (fs : List Bool), (run .current c fs).status = 0 → run .current c fs = faultFree .current c := by
  intro h
  have := h cfg (single 22) (by decide)
  revert this
  decide

/-- D15a (block processor level).  A processor whose pool holds one completed all-zero tail fragment: `sync`
    dequeues it, `set_block_size` fails (second primitive), the call returns 0. -/
def procWithSparseTail : BP.Proc :=
  { backlog := 1, pool := [{ size := 3, isFrag := true, zero := true, first := true }] }

theorem sparse_tail_fault_unreported :
    (BP.runCall .current 3 .sync procWithSparseTail [false, true]).1 =
      ⟨true, none, true, true, [.poolDequeue, .growSparseTail]⟩ := by
  decide

/-- …while the repaired source reports it. -/
theorem sparse_tail_fault_reported_when_fixed :
    (BP.runCall .fixed 3 .sync procWithSparseTail [false, true]).1 =
      ⟨false, some .fault, true, false, [.poolDequeue, .growSparseTail]⟩ := by
  decide

/-- The clause `blockproc_error_propagates` is false for the pinned source. -/
theorem not_blockproc_error_propagates :
    ¬ ∀ (fuel : Nat) (a : BP.Api) (p : BP.Proc) (fs : List Bool),
        (BP.runCall .current fuel a p fs).1.faulted = true → (BP.runCall .current fuel a p fs).1.ok = false := by
  intro h
  have := h 3 .sync procWithSparseTail [false, true] (by decide)
  revert this
  decide

end Sqfs.Witness.C13
