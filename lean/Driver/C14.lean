import Driver.Util
import Sqfs.Model.Writer
import Sqfs.Spec.Writer
/-!
Line protocol of the C14 model driver (`sqfsmodel c14`):

* `verdict <hexfile>`            → `super=<0|-e> idstage=<0|-e|->` : `superRead`, `idTableStage` on a whole file
* `head <hex of first ≤96 bytes> <filesize>` → same, for a file known only by its head and length
* `prov <hex96>`                 → `1`/`0` : `isProvisional`
* log mode: `W <off> <hex>` / `T <len>` accumulate (answer `.`), then
  `shape`                        → `shape ok kfinal=<k> nops=<n>` | `shape bad nops=<n>`            (keeps the log)
  `prefixes`                     → `prefixes <v0> <v1> … <vn>` : verdict of `image (take k ops)` for every k,
                                    `r<e>` (rejected by superRead with error e), `i<e>` (rejected at the id-table
                                    stage), `a` (passes both)                                           (keeps the log)
  `monitor`                      → `monitor RRR…CC` : the specification predicate `Spec.Writer.statusOf` at every
                                    crash point (R rejected, C complete up to padding, X neither = property violated)
  `F …`                          → `.` : a *failed* output call of the logged run (not an operation; remembers where
                                    the first failure happened)
  `failshape`                    → `failshape ok|bad nops=<n> after=<a>` : `failShapeCheck` (shape of the log of a run
                                    that failed before it committed) and the number of operations logged after the first
                                    failed call (the model issues none)
  `ref <hex>` / `ref -`          → `ok` : the complete image of the fault-free run on the same input (`-`: there is none,
                                    the input itself is damaged)
  `monitorfail`                  → `monitorfail RRR…` : `Spec.Writer.failStatusOf` at every crash point of a failing run's
                                    log (R rejected, C the complete reference image up to padding, X accepted although it
                                    is not: property violated)
  `reset`                        → `ok`
  `newlog`                       → `ok` : forget the log, keep the reference image and the saved log
  `savelog` / `uselog <n>`       → `ok` : remember the current log / make the first n operations of the remembered log the
                                    current one (the log of a failing run is, on unchanged code, a prefix of the fault-free one)
  `failpos <p>`                  → `ok` : the first failed call came when p operations had been logged
* script mode (in-process correspondence with `h_c14 <scratch> script`, same commands and answers):
  `init`, `opts`, `blk`, `mnew`/`mapp`/`mflush`/`mwrite`/`mreset`, `table`, `idtable`, `fragtable`, `export`, `xattr`,
  `final`, `pad`, `end` (→ `ops …`, the modelled system calls), see `scriptStep`; before `init`: `fault <k>` (the
  output call at position k fails) and `limit <n>` (the file cannot grow beyond n bytes) → `ok`.
-/
namespace Driver.C14
open Sqfs.Writer Sqfs.Consts

def showExc : Except Nat Unit → String
  | .ok _ => "0"
  | .error e => s!"-{e}"

def verdictStr (f : Bytes) : String :=
  match superRead f with
  | .error e => s!"super=-{e} idstage=-"
  | .ok s => s!"super=0 idstage={showExc (idTableStage f s)}"

def shortVerdict (f : Bytes) : String :=
  match superRead f with
  | .error e => s!"r{e}"
  | .ok s => match idTableStage f s with
    | .error e => s!"i{e}"
    | .ok _ => "a"

/-- the stub compressor of `harness/h_c14.c`: a run of ≥ 4 equal bytes `b` becomes `{b, len lo, len hi}` -/
def stubCmp : Cmp := fun d =>
  match d with
  | [] => none
  | b :: r => if d.length ≥ 4 ∧ r.all (· == b) then some [b, UInt8.ofNat (d.length % 256), UInt8.ofNat (d.length / 256 % 256)] else none

structure St where
  ops : List Op := []      -- reversed (log mode)
  saved : List Op := []             -- log mode: a saved log (in order), see `savelog`/`uselog`
  failPos : Option Nat := none      -- log mode: number of operations logged before the first failed call
  ref : Option Bytes := none        -- log mode: complete image of the fault-free run
  fault : Fault := {}               -- script mode: the failure the next `init` … `end` run is subjected to
  -- script mode
  w : WState := {}
  bw : BlockW := {}
  sup : Super := {}
  metas : List (Option MetaW) := [none, none, none, none]
  open_ : Bool := false

def rcOf (s : WState) : String :=
  match s.err with
  | none => "0"
  | some e => s!"-{e}"

def showOps (ops : List Op) : String :=
  "ops " ++ String.join (ops.map fun o => match o with
    | .pwrite off d => s!"W {off} {toHexTok d} ; "
    | .ftruncate n => s!"T {n} ; ")

def splitOn1 (s : String) (c : Char) : Option (String × String) :=
  match s.splitOn (String.singleton c) with
  | a :: b :: r => some (a, (String.singleton c).intercalate (b :: r))
  | _ => none

/-- the records `write_kv_pairs` / `write_id_table` produce for one-pair sets with key `user.<k>` (prefix id 0, no
out-of-line values): the four appends per pair, and per set `{start_ref, count = 1, size}` where `start_ref` is
`sqfs_meta_writer_get_position` before the set (tracked by running the model's metadata writer on a scratch state) -/
def xattrInOf (pairs : List (String × String)) : XattrIn :=
  let rec go (s : WState) (m : MetaW) : List (String × String) → List Bytes × List Bytes
    | [] => ([], [])
    | (k, v) :: r =>
      let kb := k.toUTF8.toList
      let vb := v.toUTF8.toList
      let sz := 4 + kb.length + 4 + vb.length
      let chunks := [le 2 0 ++ le 2 kb.length, kb, le 4 vb.length, vb]
      let ref := (m.blockOffset <<< 16) ||| (m.data.length &&& 0xFFFF)
      let sm := metaAppendAll stubCmp s m chunks
      let rest := go sm.1 sm.2 r
      (chunks ++ rest.1, (le 8 ref ++ le 4 1 ++ le 4 sz) :: rest.2)
  let x := go {} {} pairs
  { kv := x.1, idEntries := x.2 }

def metaCmd (st : St) (i : Nat) (f : MetaW → WState × MetaW) : St × String :=
  match st.metas.getD i none with
  | none => (st, "bad-op")
  | some m =>
    let r := f m
    ({ st with w := r.1, metas := st.metas.set i (some r.2) }, s!"rc={rcOf r.1} pos={r.2.blockOffset}:{r.2.data.length}")

def scriptStep (st : St) (ws : List String) : Option (St × String) :=
  match ws with
  | ["init", bs, mt, c] =>
    match bs.toNat?, mt.toNat?, c.toNat? with
    | some bs, some mt, some c =>
      if st.open_ then some (st, "bad-op") else
      match superInit bs mt c with
      | .error e => some ({ st with open_ := true, w := { err := some e, fault := st.fault } }, s!"rc=-{e}")
      | .ok sup =>
        let w := fWrite { fault := st.fault } 0 sup.encode
        some ({ st with open_ := true, sup := sup, w := w, bw := {} }, s!"rc={rcOf w}")
    | _, _, _ => some (st, "bad-op")
  | ["opts", h] =>
    match fromHex h with
    | some o =>
      let r := writeOptions st.w o
      let sup := if r.2 then { st.sup with flags := st.sup.flags ||| flagCompressorOptions } else st.sup
      some ({ st with w := r.1, sup := sup }, if r.1.err.isSome then s!"ret={rcOf r.1}" else s!"ret={2 + o.length}")
    | none => some (st, "bad-op")
  | ["blk", fl, ck, h] =>
    match fl.toNat?, ck.toNat?, fromHex h with
    | some fl, some ck, some d =>
      let r := writeDataBlock st.w st.bw ⟨d, fl, ck⟩
      some ({ st with w := r.1, bw := r.2.1 }, s!"rc={rcOf r.1} loc={r.2.2}")
    | _, _, _ => some (st, "bad-op")
  | ["mnew", i, k] =>
    match i.toNat?, k.toNat? with
    | some i, some k => if i < 4 then some ({ st with metas := st.metas.set i (some { keep := k != 0 }) }, "ok") else some (st, "bad-op")
    | _, _ => some (st, "bad-op")
  | ["mapp", i, h] =>
    match i.toNat?, fromHex h with
    | some i, some d => some (metaCmd st i fun m => metaAppend stubCmp st.w m d)
    | _, _ => some (st, "bad-op")
  | ["mflush", i] => i.toNat?.map fun i => metaCmd st i fun m => metaFlush stubCmp st.w m
  | ["mwrite", i] => i.toNat?.map fun i => metaCmd st i fun m => (metaWriteList st.w m.list, { m with list := [] })
  | ["mreset", i] => i.toNat?.map fun i => metaCmd st i fun m => (st.w, { m with blockOffset := 0, data := [] })
  | ["table", h] =>
    match fromHex h with
    | some d => let r := writeTable stubCmp st.w d; some ({ st with w := r.1 }, s!"rc={rcOf r.1} start={r.2}")
    | none => some (st, "bad-op")
  | ["idtable", l] =>
    match (l.splitOn ",").mapM String.toNat? with
    | some ids =>
      let r := idTableWrite stubCmp st.w st.sup ids
      some ({ st with w := r.1, sup := r.2 }, s!"rc={rcOf r.1} count={r.2.idCount} start={r.2.idStart}")
    | none => some (st, "bad-op")
  | ["fragtable", n, c] =>
    match n.toNat?, c.toNat? with
    | some n, some c =>
      let ent (j : Nat) : Bytes := le 8 (96 + 100 * j) ++ le 4 (if c != 0 ∧ j + 1 = n then 77 else 77 ||| 2 ^ 24) ++ le 4 0
      let payload := (List.range n).flatMap ent
      let r := fragTableWrite stubCmp st.w st.sup payload (c != 0 && n != 0)
      some ({ st with w := r.1, sup := r.2 }, s!"rc={rcOf r.1} start={r.2.fragStart} count={r.2.fragCount} flags={r.2.flags}")
    | _, _ => some (st, "bad-op")
  | ["export", inum, iref] =>
    match inum.toNat?, iref.toNat? with
    | some inum, some iref =>
      let payload := leList 8 (List.replicate (inum - 1) unset ++ [iref])
      let r := exportTableWrite stubCmp st.w st.sup (some payload)
      some ({ st with w := r.1, sup := r.2 }, s!"rc={rcOf r.1} start={r.2.exportStart} flags={r.2.flags}")
    | _, _ => some (st, "bad-op")
  | ["xattr", l] =>
    let pairs := if l = "-" then some [] else (l.splitOn ",").mapM fun p => splitOn1 p ':'
    match pairs with
    | some ps =>
      let r := xattrFlush stubCmp st.w st.sup (xattrInOf ps)
      some ({ st with w := r.1, sup := r.2 }, s!"rc={rcOf r.1} start={r.2.xattrStart} flags={r.2.flags}")
    | none => some (st, "bad-op")
  | ["final"] =>
    let sup := { st.sup with bytesUsed := st.w.size }
    let w := fWrite st.w 0 sup.encode
    some ({ st with w := w, sup := sup }, if w.err.isSome then s!"rc={rcOf w}" else s!"rc=0 super={toHexTok sup.encode}")
  | ["pad", b] =>
    match b.toNat? with
    | some b =>
      -- `padd_sqfs` reports any failure as -1 (`int status = -1; … goto fail_errno`), not as an SQFS_ERROR code
      let w := padd st.w st.sup.bytesUsed b; some ({ st with w := w }, if w.err.isSome then "rc=-1" else "rc=0")
    | none => some (st, "bad-op")
  | ["fault", k] =>
    match k.toNat? with
    | some k => if st.open_ then some (st, "bad-op") else some ({ st with fault := { st.fault with failAt := some k } }, "ok")
    | none => some (st, "bad-op")
  | ["limit", n] =>
    match n.toNat? with
    | some n => if st.open_ then some (st, "bad-op") else some ({ st with fault := { st.fault with limit := some n } }, "ok")
    | none => some (st, "bad-op")
  | ["end"] => some ({ ops := st.ops, failPos := st.failPos, ref := st.ref, saved := st.saved }, showOps st.w.ops)
  | _ => none

def prefixVerdicts (ops : List Op) : List String :=
  let rec go (f : Bytes) : List Op → List String
    | [] => [shortVerdict f]
    | o :: r => shortVerdict f :: go (o.apply f) r
  go [] ops

/-- `Spec.Writer.statusOf` at every crash point of a log: `R` rejected, `C` complete up to padding, `X` neither -/
def monitorLog (ops : List Op) : List String :=
  let full := image ops
  let st (f : Bytes) : String := match Sqfs.Spec.Writer.statusOf f full with
    | some true => "R" | some false => "C" | none => "X"
  let rec go (f : Bytes) : List Op → List String
    | [] => [st f]
    | o :: r => st f :: go (o.apply f) r
  go [] ops

/-- `Spec.Writer.failStatusOf` at every crash point of the log of a failing run -/
def monitorFail (ops : List Op) (ref : Option Bytes) : List String :=
  let st (f : Bytes) : String := match Sqfs.Spec.Writer.failStatusOf f ref with
    | some true => "R" | some false => "C" | none => "X"
  let rec go (f : Bytes) : List Op → List String
    | [] => [st f]
    | o :: r => st f :: go (o.apply f) r
  go [] ops

def step (st : St) (line : String) : St × String :=
  match words line with
  | "F" :: _ => ({ st with failPos := match st.failPos with | some p => some p | none => some st.ops.length }, ".")
  | ["failshape"] =>
      let ops := st.ops.reverse
      let after := match st.failPos with | some p => ops.length - p | none => 0
      (st, s!"failshape {if failShapeCheck ops then "ok" else "bad"} nops={ops.length} after={after}")
  | ["ref", h] => if h = "-" then ({ st with ref := none }, "ok") else match fromHex h with
      | some f => ({ st with ref := some f }, "ok")
      | none => (st, "bad-op")
  | ["monitorfail"] => (st, "monitorfail " ++ "".intercalate (monitorFail st.ops.reverse st.ref))
  | ["verdict", h] => match fromHex h with
      | some f => (st, verdictStr f)
      | none => (st, "bad-op")
  | ["head", h, n] => match fromHex h, n.toNat? with
      | some hd, some sz => (st, verdictStr (hd.take sz ++ zeros (sz - hd.length)))
      | _, _ => (st, "bad-op")
  | ["prov", h] => match fromHex h with
      | some p => (st, if isProvisional p then "1" else "0")
      | none => (st, "bad-op")
  | ["W", off, h] => match off.toNat?, fromHex h with
      | some o, some d => ({ st with ops := .pwrite o d :: st.ops }, ".")
      | _, _ => (st, "bad-op")
  | ["T", n] => match n.toNat? with
      | some l => ({ st with ops := .ftruncate l :: st.ops }, ".")
      | none => (st, "bad-op")
  | ["shape"] =>
      let ops := st.ops.reverse
      (st, if shapeCheck ops then s!"shape ok kfinal={kFinalOf ops} nops={ops.length}" else s!"shape bad nops={ops.length}")
  | ["monitor"] => (st, "monitor " ++ "".intercalate (monitorLog st.ops.reverse))
  | ["prefixes"] => (st, "prefixes " ++ " ".intercalate (prefixVerdicts st.ops.reverse))
  | ["reset"] => ({}, "ok")
  | ["newlog"] => ({ ref := st.ref, saved := st.saved }, "ok")
  | ["savelog"] => ({ st with saved := st.ops.reverse }, "ok")
  | ["uselog", n] => match n.toNat? with
      | some n => ({ st with ops := (st.saved.take n).reverse, failPos := none }, "ok")
      | none => (st, "bad-op")
  | ["failpos", p] => match p.toNat? with
      | some p => ({ st with failPos := some p }, "ok")
      | none => (st, "bad-op")
  | ws => match scriptStep st ws with
    | some r => r
    | none => (st, "bad-op")

def run (_args : List String) : IO Unit := do
  stateLoop (← IO.getStdin) (← IO.getStdout) step {}

end Driver.C14
