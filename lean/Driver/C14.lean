import Driver.Util
import Sqfs.Model.Writer
/-!
Line protocol of the C14 model driver (`sqfsmodel c14`):

* `verdict <hexfile>`            → `super=<0|-e> idstage=<0|-e|->` : `superRead`, `idTableStage` on a whole file
* `head <hex of first ≤96 bytes> <filesize>` → same, for a file known only by its head and length
* `prov <hex96>`                 → `1`/`0` : `isProvisional`
* log mode: `W <off> <hex>` / `T <len>` accumulate (answer `.`), then
  `shape`                        → `shape ok kfinal=<k> nops=<n>` | `shape bad nops=<n>`            (keeps the log)
  `prefixes`                     → `prefixes <v0> <v1> … <vn>` : verdict of `image (take k ops)` for every k,
                                    `r<e>` (rejected by superRead with error e), `i<e>` (rejected at the id-table
                                    stage), `a` (passes both)                                           (keeps the log)
  `reset`                        → `ok`
* script mode (in-process correspondence), see `runScript` below.
-/
namespace Driver.C14
open Sqfs.Writer Sqfs.Consts

def showExc : Except Nat Unit → String
  | .ok _ => "0"
  | .error e => s!"-{e}"

def verdictStr (f : Bytes) : String :=
  match superRead f with
  | .error e => s!"super=-{e} idstage=-"
  | .ok s => s!"super=0 idstage={showExc (idTableStage f s)}"

def shortVerdict (f : Bytes) : String :=
  match superRead f with
  | .error e => s!"r{e}"
  | .ok s => match idTableStage f s with
    | .error e => s!"i{e}"
    | .ok _ => "a"

structure St where
  ops : List Op := []      -- reversed

def prefixVerdicts (ops : List Op) : List String :=
  let rec go (f : Bytes) : List Op → List String
    | [] => [shortVerdict f]
    | o :: r => shortVerdict f :: go (o.apply f) r
  go [] ops

def step (st : St) (line : String) : St × String :=
  match words line with
  | ["verdict", h] => match fromHex h with
      | some f => (st, verdictStr f)
      | none => (st, "bad-op")
  | ["head", h, n] => match fromHex h, n.toNat? with
      | some hd, some sz => (st, verdictStr (hd.take sz ++ zeros (sz - hd.length)))
      | _, _ => (st, "bad-op")
  | ["prov", h] => match fromHex h with
      | some p => (st, if isProvisional p then "1" else "0")
      | none => (st, "bad-op")
  | ["W", off, h] => match off.toNat?, fromHex h with
      | some o, some d => ({ st with ops := .pwrite o d :: st.ops }, ".")
      | _, _ => (st, "bad-op")
  | ["T", n] => match n.toNat? with
      | some l => ({ st with ops := .ftruncate l :: st.ops }, ".")
      | none => (st, "bad-op")
  | ["shape"] =>
      let ops := st.ops.reverse
      (st, if shapeCheck ops then s!"shape ok kfinal={kFinalOf ops} nops={ops.length}" else s!"shape bad nops={ops.length}")
  | ["prefixes"] => (st, "prefixes " ++ " ".intercalate (prefixVerdicts st.ops.reverse))
  | ["reset"] => ({}, "ok")
  | _ => (st, "bad-op")

def run (_args : List String) : IO Unit := do
  stateLoop (← IO.getStdin) (← IO.getStdout) step {}

end Driver.C14
