import Driver.Util
namespace Driver.C14
/-- stub: the model driver for C14 is not built yet -/
def run (_args : List String) : IO Unit := do
  IO.eprintln "sqfsmodel: model C14 not built yet"
end Driver.C14
