import Driver.Util
namespace Driver.C15
/-- stub: the model driver for C15 is not built yet -/
def run (_args : List String) : IO Unit := do
  IO.eprintln "sqfsmodel: model C15 not built yet"
end Driver.C15
