import Driver.Util
import Sqfs.Model.Xfrm
import Sqfs.Spec.Xfrm
import Sqfs.Model.XfrmOld
/-!
`sqfsmodel c15` — one scenario per line.

* `ostream <bufsz> <absorb> <gran> <thresh> <op>...`   ops: `a:<hex>` append, `z:<n>` append(NULL, n), `f` flush
    → `ok <sink> <flushes>` | `err <code> <sink>` | `hang`
* `istream <bufsz> <absorb> <gran> <thresh> <inner hex> <script n,n,..|-> <want:take,..|->`
    → `ok <bytes taken> <eof 0|1> <inner left> <sizes seen by each get>` | `err <code> <bytes taken> <sizes>` | `hang`
* `ostreamx <bufsz> <absorb> <gran> <thresh> <append fail k:e|-> <flush fail k:e|-> <op>...`   the same over a wrapped stream whose
    `k`-th `append` / `flush` call returns `e`  → `ok <sink> <flushes> <append calls>` | `err <code> <sink>` | `hang`
* `istreamx <bufsz> <absorb> <gran> <thresh> <inner hex> <script> <want:take,..> <fail k:e|->`   the wrapped stream's `k`-th
    `get_buffered_data` returns `e < 0`  → as `istream` plus `<get calls of the wrapped stream>`
* `wrap <new|old> <gzip|xz|bzip2|zstd> <c|d> <absorb> <gran> <thresh> <call>...`
    calls: `<mode, any integer>:<room>:<in hex>` → per call `ret,consumed,<out hex>` joined by spaces (`hang` ends the list)
* `magic <hex>` → `xfrm_compressor_id_from_magic`; `probe <hex>` → `plain` | `wrap <id>` (decision of `tar_open_stream`)
* `toyenc <hex>` → the one-shot encoding; `toydec <hex>` → `ok <hex>` | `fail`
* `monitor ...` — the specification predicates evaluated on an implementation's observed behaviour
-/
namespace Driver.C15
open Sqfs.Xfrm

def fuel : Nat := 100000000

def parseNat? (s : String) : Option Nat := s.toNat?

def parseNatList (s : String) : Option (List Nat) :=
  if s = "-" then some [] else (s.splitOn ",").mapM parseNat?

def parsePairs (s : String) : Option (List (Nat × Nat)) :=
  if s = "-" then some [] else
  (s.splitOn ",").mapM fun t =>
    match t.splitOn ":" with
    | [a, b] => do pure ((← parseNat? a), (← parseNat? b))
    | _ => none

def parseOOp (t : String) : Option OOp :=
  if t = "f" then some OOp.flush
  else match t.splitOn ":" with
    | ["a", h] => (fromHex h).map OOp.append
    | ["z", n] => (parseNat? n).map fun k => OOp.append (appendBytes none k)
    | _ => none

def natsToStr (l : List Nat) : String :=
  if l.isEmpty then "-" else ",".intercalate (l.map toString)

/-- like `oRun`, but keeps the last good state so that the sink can be shown on failure -/
def oRunTrace {σ : Type} (C : Codec σ) (bufsz : Nat) : OState σ → List OOp → String
  | st, [] => s!"ok {toHexTok st.sink} {st.flushed}"
  | st, op :: ops =>
    let r := match op with
      | OOp.append d => oAppend C bufsz fuel st d
      | OOp.flush => oFlush C bufsz fuel st
    match r with
    | none => "hang"
    | some (.error e) => s!"err {e} {toHexTok st.sink}"
    | some (.ok st') => oRunTrace C bufsz st' ops

def iRunTrace {σ : Type} (C : Codec σ) (bufsz : Nat) : IState σ → List (Nat × Nat) → Bytes → List Nat → String
  | st, [], acc, sizes => s!"ok {toHexTok acc} 0 {st.inner.rest.length} {natsToStr sizes.reverse}"
  | st, (want, take) :: ops, acc, sizes =>
    match iGet C bufsz fuel st want with
    | none => "hang"
    | some (.error e) => s!"err {e} {toHexTok acc} {natsToStr sizes.reverse}"
    | some (.ok (st1, vis, eof)) =>
      if eof then s!"ok {toHexTok acc} 1 {st1.inner.rest.length} {natsToStr (vis.length :: sizes).reverse}"
      else
        let n := min take vis.length
        match iAdvance st1 n with
        | none => "assert"
        | some st2 => iRunTrace C bufsz st2 ops (acc ++ vis.take n) (vis.length :: sizes)

def parseFail (s : String) : Option (Option (Nat × Int)) :=
  if s = "-" then some none else
  match s.splitOn ":" with
  | [k, e] => do pure (some ((← parseNat? k), (← e.toInt?)))
  | _ => none

/-- like `oRunE`, result as a line -/
def oRunTraceE {σ : Type} (C : Codec σ) (bufsz : Nat) (E : OEnv) : OStateE σ → List OOp → String
  | s, [] => s!"ok {toHexTok s.st.sink} {s.st.flushed} {s.appends}"
  | s, op :: ops =>
    let r := match op with
      | OOp.append d => oAppendE C bufsz fuel E s d
      | OOp.flush => oFlushE C bufsz fuel E s
    match r with
    | none => "hang"
    | some (.error (e, sink)) => s!"err {e} {toHexTok sink}"
    | some (.ok s') => oRunTraceE C bufsz E s' ops

def iRunTraceE {σ : Type} (C : Codec σ) (bufsz : Nat) : IStateE σ → List (Nat × Nat) → Bytes → List Nat → String
  | st, [], acc, sizes => s!"ok {toHexTok acc} 0 {st.inner.inner.rest.length} {natsToStr sizes.reverse} {st.inner.calls}"
  | st, (want, take) :: ops, acc, sizes =>
    match iGetE C bufsz fuel st want with
    | none => "hang"
    | some (.error e) => s!"err {e} {toHexTok acc} {natsToStr sizes.reverse}"
    | some (.ok (st1, vis, eof)) =>
      if eof then s!"ok {toHexTok acc} 1 {st1.inner.inner.rest.length} {natsToStr (vis.length :: sizes).reverse} {st1.inner.calls}"
      else
        let n := min take vis.length
        match iAdvanceE st1 n with
        | none => "assert"
        | some st2 => iRunTraceE C bufsz st2 ops (acc ++ vis.take n) (vis.length :: sizes)

def resCode : Res → Int
  | Res.error => - (Sqfs.Consts.xfrmStreamError : Int)
  | Res.ok => Sqfs.Consts.xfrmStreamOk
  | Res.streamEnd => Sqfs.Consts.xfrmStreamEnd
  | Res.bufferFull => Sqfs.Consts.xfrmStreamBufferFull

/-- the flush mode as the backends read it (out-of-range values mean `FLUSH_NONE`) -/
def parseFlush (s : String) : Option Flush := s.toInt?.map clampFlush

def parseCall (t : String) : Option (Flush × Nat × Bytes) :=
  match t.splitOn ":" with
  | [m, r, h] => do pure ((← parseFlush m), (← parseNat? r), (← fromHex h))
  | _ => none

/-- run a list of `process_data` calls against a codec given as a partial step function -/
def wrapTrace {σ : Type} (step : σ → Bytes → Nat → Flush → Option (StepOut σ)) : σ → List (Flush × Nat × Bytes) → List String → String
  | _, [], acc => " ".intercalate acc.reverse
  | st, (fl, room, inp) :: cs, acc =>
    match step st inp room fl with
    | none => " ".intercalate ("hang" :: acc).reverse
    | some r => wrapTrace step r.st cs (s!"{resCode r.res},{r.consumed},{toHexTok r.out}" :: acc)

def runWrap (old : Bool) (backend : String) (compress : Bool) (P : Toy.Params) (calls : List (Flush × Nat × Bytes)) : String :=
  let b? : Option Backend := match backend with
    | "gzip" => some Backend.gzip | "xz" => some Backend.xz | "bzip2" => some Backend.bzip2 | _ => none
  match b?, backend with
  | some b, _ =>
    if compress then
      let L := Toy.encLib P b
      if old then wrapTrace (fun st i r f => Sqfs.Xfrm.Old.wrapProcess L b true st i r f) L.init calls []
      else wrapTrace (fun st i r f => wrapProcess L b true st i r f) L.init calls []
    else
      let L := Toy.decLib P b
      if old then wrapTrace (fun st i r f => Sqfs.Xfrm.Old.wrapProcess L b false st i r f) L.init calls []
      else wrapTrace (fun st i r f => wrapProcess L b false st i r f) L.init calls []
  | none, "zstd" =>
    if compress then
      let L := Toy.encZLib P
      if old then wrapTrace (fun st i r f => Sqfs.Xfrm.Old.zstdProcess L true st i r f) L.init calls []
      else wrapTrace (fun st i r f => zstdProcess L true st i r f) ⟨L.init, false⟩ calls []
    else
      let L := Toy.decZLib P
      if old then wrapTrace (fun st i r f => Sqfs.Xfrm.Old.zstdProcess L false st i r f) L.init calls []
      else wrapTrace (fun st i r f => zstdProcess L false st i r f) ⟨L.init, false⟩ calls []
  | none, _ => "bad-op"

def step (line : String) : String :=
  match words line with
  | "ostream" :: b :: a :: g :: t :: ops =>
    match parseNat? b, parseNat? a, parseNat? g, parseNat? t, ops.mapM parseOOp with
    | some b, some a, some g, some t, some ops =>
      let C := Toy.encoder ⟨a, g, t⟩
      oRunTrace C b (oInit C) ops
    | _, _, _, _, _ => "bad-op"
  | ["istream", b, a, g, t, inner, script, client] =>
    match parseNat? b, parseNat? a, parseNat? g, parseNat? t, fromHex inner, parseNatList script, parsePairs client with
    | some b, some a, some g, some t, some inner, some script, some client =>
      let C := Toy.decoder ⟨a, g, t⟩
      iRunTrace C b (iInit C ⟨inner, script⟩) client [] []
    | _, _, _, _, _, _, _ => "bad-op"
  | "ostreamx" :: b :: a :: g :: t :: af :: ff :: ops =>
    match parseNat? b, parseNat? a, parseNat? g, parseNat? t, parseFail af, parseFail ff, ops.mapM parseOOp with
    | some b, some a, some g, some t, some af, some ff, some ops =>
      let C := Toy.encoder ⟨a, g, t⟩
      oRunTraceE C b { appendFail := af, flushFail := ff } ⟨oInit C, 0⟩ ops
    | _, _, _, _, _, _, _ => "bad-op"
  | ["istreamx", b, a, g, t, inner, script, client, fail] =>
    match parseNat? b, parseNat? a, parseNat? g, parseNat? t, fromHex inner, parseNatList script, parsePairs client, parseFail fail with
    | some b, some a, some g, some t, some inner, some script, some client, some fail =>
      let C := Toy.decoder ⟨a, g, t⟩
      iRunTraceE C b ⟨C.init, [], 0, ⟨⟨inner, script⟩, 0, fail⟩⟩ client [] []
    | _, _, _, _, _, _, _, _ => "bad-op"
  | "wrap" :: v :: backend :: dir :: a :: g :: t :: calls =>
    match parseNat? a, parseNat? g, parseNat? t, calls.mapM parseCall with
    | some a, some g, some t, some calls =>
      if (v = "new" ∨ v = "old" ∨ v = "big") ∧ (dir = "c" ∨ dir = "d") then runWrap (v = "old") backend (dir = "c") ⟨a, g, t⟩ calls
      else "bad-op"
    | _, _, _, _ => "bad-op"
  | ["magic", h] => match fromHex h with
    | some x => toString (compressorIdFromMagic x)
    | none => "bad-op"
  | ["probe", h] => match fromHex h with
    | some x => match openStreamCodec x with
      | some id => s!"wrap {id}"
      | none => "plain"
    | none => "bad-op"
  | ["toyenc", h] => match fromHex h with
    | some x => toHexTok (Toy.encode x)
    | none => "bad-op"
  | ["toydec", h] => match fromHex h with
    | some x => match Toy.decode x with
      | some y => "ok " ++ toHexTok y
      | none => "fail"
    | none => "bad-op"
  -- specification predicates on observed behaviour
  | ["monitor", "members", sink, input] =>
    -- is `sink` a concatenation of toy members that decodes to `input`?
    match fromHex sink, fromHex input with
    | some s, some x => if Spec.toyDecodeAll s = some x then "1" else "0"
    | _, _ => "bad-op"
  | ["monitor", "prefix", got, want] =>
    match fromHex got, fromHex want with
    | some g, some w => if g.isPrefixOf w then "1" else "0"
    | _, _ => "bad-op"
  | _ => "bad-op"

def run (_args : List String) : IO Unit := do
  lineLoop (← IO.getStdin) (← IO.getStdout) step

end Driver.C15
