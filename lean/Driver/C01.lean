import Driver.Util
import Sqfs.Model.EncInode
import Sqfs.Model.EncDir
import Sqfs.Model.EncMeta
import Sqfs.Model.EncXattr
import Sqfs.Model.IdTable
import Sqfs.Model.EncTree
import Sqfs.Spec.EncTreeSpec
import Sqfs.Spec.PackSpec
import Sqfs.Model.Path
/-!
`sqfsmodel c01 [units]` — line protocol of the C01 unit-level correspondence; the same lines go to
`harness/h_c01u.c` (the real library) and the two outputs must be identical.

Inode descriptions (input and output), all numbers decimal, byte strings hex (`-` = empty):
```
dir   M U G T N  sb nl sz off par                    file   M U G T N  st fi fo sz words
slink M U G T N  nl ts target                        bdev|cdev M U G T N  nl devno         fifo|sock M U G T N  nl
xdir  M U G T N  nl sz sb par ic off x index         xfile  M U G T N  st sz sp nl fi fo x words
xslink M U G T N nl ts target x                      xbdev|xcdev M U G T N nl devno x      xfifo|xsock M U G T N nl x
```
`words` = comma separated block size words or `-`; `index` = `index/start_block/namehex;…` or `-`.

Ops (see `docs/design/C01-units.md`): `inode`, `mkext`, `mkextfix`, `mkbasic`, `setx`, `snode`, `dirl`, `meta`,
`table`, `idtab`, `frag`, `export`, `super`, `xattr`.
-/
namespace Driver.C01
open Sqfs.Enc Sqfs.Consts

def nat? (s : String) : Option Nat := s.toNat?

def natList? (s : String) : Option (List Nat) :=
  if s = "-" then some [] else (s.splitOn ",").mapM nat?

def showNats (l : List Nat) : String := if l.isEmpty then "-" else ",".intercalate (l.map toString)

def parseIdx (s : String) : Option (List DirIdx) :=
  if s = "-" then some []
  else (s.splitOn ";").mapM (fun e =>
    match e.splitOn "/" with
    | [a, b, n] => do pure ⟨← nat? a, ← nat? b, ← fromHex n⟩
    | _ => none)

def showIdx (l : List DirIdx) : String :=
  if l.isEmpty then "-" else ";".intercalate (l.map (fun e => s!"{e.index}/{e.startBlock}/{toHexTok e.name}"))

def parseBase (m u g t n : String) : Option Base := do pure ⟨← nat? m, ← nat? u, ← nat? g, ← nat? t, ← nat? n⟩

/-- an inode description; returns the inode and the unused tokens -/
def parseInode : List String → Option (Inode × List String)
  | "dir" :: m :: u :: g :: t :: n :: sb :: nl :: sz :: off :: par :: r => do
    pure (.dir (← parseBase m u g t n) (← nat? sb) (← nat? nl) (← nat? sz) (← nat? off) (← nat? par), r)
  | "file" :: m :: u :: g :: t :: n :: st :: fi :: fo :: sz :: w :: r => do
    pure (.file (← parseBase m u g t n) (← nat? st) (← nat? fi) (← nat? fo) (← nat? sz) (← natList? w), r)
  | "slink" :: m :: u :: g :: t :: n :: nl :: ts :: tg :: r => do
    pure (.slink (← parseBase m u g t n) (← nat? nl) (← nat? ts) (← fromHex tg), r)
  | "bdev" :: m :: u :: g :: t :: n :: nl :: d :: r => do pure (.dev (← parseBase m u g t n) false (← nat? nl) (← nat? d), r)
  | "cdev" :: m :: u :: g :: t :: n :: nl :: d :: r => do pure (.dev (← parseBase m u g t n) true (← nat? nl) (← nat? d), r)
  | "fifo" :: m :: u :: g :: t :: n :: nl :: r => do pure (.ipc (← parseBase m u g t n) false (← nat? nl), r)
  | "sock" :: m :: u :: g :: t :: n :: nl :: r => do pure (.ipc (← parseBase m u g t n) true (← nat? nl), r)
  | "xdir" :: m :: u :: g :: t :: n :: nl :: sz :: sb :: par :: ic :: off :: x :: ix :: r => do
    pure (.dirExt (← parseBase m u g t n) (← nat? nl) (← nat? sz) (← nat? sb) (← nat? par) (← nat? ic) (← nat? off)
      (← nat? x) (← parseIdx ix), r)
  | "xfile" :: m :: u :: g :: t :: n :: st :: sz :: sp :: nl :: fi :: fo :: x :: w :: r => do
    pure (.fileExt (← parseBase m u g t n) (← nat? st) (← nat? sz) (← nat? sp) (← nat? nl) (← nat? fi) (← nat? fo)
      (← nat? x) (← natList? w), r)
  | "xslink" :: m :: u :: g :: t :: n :: nl :: ts :: tg :: x :: r => do
    pure (.slinkExt (← parseBase m u g t n) (← nat? nl) (← nat? ts) (← fromHex tg) (← nat? x), r)
  | "xbdev" :: m :: u :: g :: t :: n :: nl :: d :: x :: r => do
    pure (.devExt (← parseBase m u g t n) false (← nat? nl) (← nat? d) (← nat? x), r)
  | "xcdev" :: m :: u :: g :: t :: n :: nl :: d :: x :: r => do
    pure (.devExt (← parseBase m u g t n) true (← nat? nl) (← nat? d) (← nat? x), r)
  | "xfifo" :: m :: u :: g :: t :: n :: nl :: x :: r => do pure (.ipcExt (← parseBase m u g t n) false (← nat? nl) (← nat? x), r)
  | "xsock" :: m :: u :: g :: t :: n :: nl :: x :: r => do pure (.ipcExt (← parseBase m u g t n) true (← nat? nl) (← nat? x), r)
  | _ => none

def showBase (b : Base) : String := s!"{b.mode} {b.uidIdx} {b.gidIdx} {b.mtime} {b.inum}"

def showInode : Inode → String
  | .dir b sb nl sz off par => s!"dir {showBase b} {sb} {nl} {sz} {off} {par}"
  | .file b st fi fo sz w => s!"file {showBase b} {st} {fi} {fo} {sz} {showNats w}"
  | .slink b nl ts t => s!"slink {showBase b} {nl} {ts} {toHexTok t}"
  | .dev b c nl d => s!"{if c then "cdev" else "bdev"} {showBase b} {nl} {d}"
  | .ipc b c nl => s!"{if c then "sock" else "fifo"} {showBase b} {nl}"
  | .dirExt b nl sz sb par ic off x ix => s!"xdir {showBase b} {nl} {sz} {sb} {par} {ic} {off} {x} {showIdx ix}"
  | .fileExt b st sz sp nl fi fo x w => s!"xfile {showBase b} {st} {sz} {sp} {nl} {fi} {fo} {x} {showNats w}"
  | .slinkExt b nl ts t x => s!"xslink {showBase b} {nl} {ts} {toHexTok t} {x}"
  | .devExt b c nl d x => s!"{if c then "xcdev" else "xbdev"} {showBase b} {nl} {d} {x}"
  | .ipcExt b c nl x => s!"{if c then "xsock" else "xfifo"} {showBase b} {nl} {x}"

/-! ### codecs mirrored in `harness/h_c01u.c` -/
open Sqfs.MetaWriter (Codec Block)

def rawCmp : Codec := fun _ => none
/-- a chunk of ≥ 4 equal bytes becomes `[byte, len lo, len hi]` -/
def toyCmp : Codec := fun x =>
  match x with
  | [] => none
  | b :: _ => if x.length ≥ 4 ∧ x.all (· == b) then some [b, UInt8.ofNat (x.length % 256), UInt8.ofNat (x.length / 256 % 256)] else none
def toyUnc : Unc := fun y =>
  match y with
  | [b, lo, hi] => let n := lo.toNat + 256 * hi.toNat; if n ≤ metaBlockSize then some (List.replicate n b) else none
  | _ => none
def rawUnc : Unc := fun _ => none

def codecByName : String → Option (Codec × Unc)
  | "raw" => some (rawCmp, rawUnc)
  | "toy" => some (toyCmp, toyUnc)
  | _ => none

/-- with the never-shrinking compressor every flushed block costs 8194 bytes -/
def rawRef (p : Nat) : Nat := ((p / metaBlockSize * (metaBlockSize + 2)) <<< 16) ||| (p % metaBlockSize)
def rawPos (ref : Nat) : Option Nat :=
  let b := ref >>> 16
  if b % (metaBlockSize + 2) = 0 then some (b / (metaBlockSize + 2) * metaBlockSize + ref % 65536) else none

def showStatus {α} (r : Except Status α) (f : α → String) : String :=
  match r with
  | .ok a => s!"0 {f a}"
  | .error e => s!"{e}"

/-! ### ops -/

def opInode (toks : List String) : String :=
  match toks with
  | bs :: tr :: rest =>
    match nat? bs, fromHex tr, parseInode rest with
    | some bs, some tr, some (i, []) =>
      let enc := encInode i
      let all := enc ++ tr
      let r := decInode bs all
      s!"w 0 {toHexTok enc} r " ++ showStatus r (fun (j, rest) => s!"{showInode j} used={all.length - rest.length}")
    | _, _, _ => "bad-op"
  | _ => "bad-op"

def opConv (f : Inode → Inode) (toks : List String) : String :=
  match parseInode toks with
  | some (i, []) => showInode (f i)
  | _ => "bad-op"

/-- `setsz`/`setst`: `sqfs_inode_set_file_size` / `sqfs_inode_set_file_block_start` -/
def opConvOpt (f : Inode → Option Inode) (toks : List String) : String :=
  match parseInode toks with
  | some (i, []) => match f i with | some i' => showInode i' | none => s!"err {errNotFile}"
  | _ => "bad-op"

open Sqfs.DirWriter in
def parseDEnt (tok : String) : Option (List UInt8 × Nat × Nat × Nat) :=
  match tok.splitOn "/" with
  | [nm, n, r, m] => do pure (← fromHex nm, ← nat? n, ← nat? r, ← nat? m)
  | _ => none

def showEntry (e : DirEntry) : String := s!"{toHexTok e.name}/{e.inum}/{e.typ}/{e.ref}"

open Sqfs.DirWriter in
/-- add_entry for every token, fail-stop: the accepted entries, or the status of the first refusal -/
def addAll : List (List UInt8 × Nat × Nat × Nat) → Except Status (List DEnt)
  | [] => .ok []
  | (nm, n, r, m) :: rest =>
    match addEntry nm n r m with
    | .ok e => match addAll rest with | .ok l => .ok (e :: l) | .error s => .error s
    | .unsupported => .error errUnsupported
    | .argInvalid => .error errArgInvalid

open Sqfs.DirWriter in
/-- `dirl <dpos> <xattr> <parent> <ent>...`: begin at flat position `dpos` of the directory stream, add, end,
create_inode; then the real reader on the written bytes -/
def opDirl (toks : List String) : String :=
  match toks with
  | dpos :: x :: par :: ents =>
    match nat? dpos, nat? x, nat? par, ents.mapM parseDEnt with
    | some dpos, some x, some par, some es =>
      match addAll es with
      | .error s => s!"st {s}"
      | .ok des =>
        let cost := metaBlockSize + 2
        let blk := dpos / metaBlockSize * cost
        let off := dpos % metaBlockSize
        let runs := dirEnd cost blk off des
        let bytes := (runs.map encodeRun).flatten
        let ino := DirInode.toInode (createInode ((blk <<< 16) ||| off) runs des.length 0 x par)
        let rd := match openDir ino bytes with
          | none => s!"{errNotDir}"
          | some s => showStatus (readListing s) (fun l => if l.isEmpty then "-" else " ".intercalate (l.map showEntry))
        s!"st 0 size={dirSizeOf runs} bytes={toHexTok bytes} ino {showInode ino} rd {rd}"
    | _, _, _, _ => "bad-op"
  | _ => "bad-op"

/-- `meta <codec> <p:n,p:n,…|-> <chunkhex>…` -/
def opMeta (toks : List String) : String :=
  match toks with
  | c :: reads :: chunks =>
    match codecByName c, chunks.mapM fromHex with
    | some (cmp, unc), some cs =>
      let rs : Option (List (Nat × Nat)) := if reads = "-" then some [] else (reads.splitOn ",").mapM (fun t =>
        match t.splitOn ":" with | [a, b] => do pure (← nat? a, ← nat? b) | _ => none)
      match rs with
      | none => "bad-op"
      | some rs =>
        let st := Sqfs.MetaWriter.run cmp cs
        let disk := encBlocks st.out
        let all := showStatus (metaReadAll unc disk) toHexTok
        let rd := rs.map (fun (p, n) =>
          let r := refOfPos st.out p
          s!"{r.1}:{r.2}=" ++ showStatus (metaReadAt unc disk r.1 r.2 n) toHexTok)
        s!"disk={toHexTok disk} all {all} rd " ++ (if rd.isEmpty then "-" else " | ".intercalate rd)
    | _, _ => "bad-op"
  | _ => "bad-op"

/-- `table <codec> <pre> <datahex>`: `pre` filler bytes (0xEE) in front of the table -/
def opTable (toks : List String) : String :=
  match toks with
  | [c, pre, d] =>
    match codecByName c, nat? pre, fromHex d with
    | some (cmp, unc), some pre, some data =>
      let file0 := List.replicate pre (0xEE : UInt8)
      let (file, start) := writeTableAt cmp file0 data
      let rd := readTableAt unc file data.length start pre start
      s!"start={start} file={toHexTok (file.drop pre)} rd " ++ showStatus rd toHexTok
    | _, _, _ => "bad-op"
  | _ => "bad-op"

/-- `idtab <pre> <id>…`: id_to_index per id, write, read back, index_to_id of every index -/
def opIdtab (toks : List String) : String :=
  match toks with
  | pre :: ids =>
    match nat? pre, ids.mapM nat? with
    | some pre, some ids =>
      match Sqfs.IdTable.addAll Sqfs.IdTable.limit [] ids with
      | none => s!"idx {errOverflow}"
      | some (tbl, idx) =>
        let file0 := List.replicate pre (0xEE : UInt8)
        let (file, start) := idTableWrite rawCmp file0 tbl
        let count := Sqfs.IdTable.superIdCount tbl
        let rd := idTableRead rawUnc file count start pre start file.length
        s!"idx 0 {showNats idx} count={count} start={start} file={toHexTok (file.drop pre)} rd " ++ showStatus rd showNats
    | _, _ => "bad-op"
  | _ => "bad-op"

/-- `idrange <n>`: ids 1000 … 1000+n-1 (for the 65535/65536 boundary without a 400 KiB line) -/
def opIdrange (toks : List String) : String :=
  match toks with
  | [n] =>
    match nat? n with
    | some n =>
      match Sqfs.IdTable.addAll Sqfs.IdTable.limit [] ((List.range n).map (· + 1000)) with
      | none => s!"idx {errOverflow}"
      | some (tbl, _) =>
        let (file, start) := idTableWrite rawCmp [] tbl
        let count := Sqfs.IdTable.superIdCount tbl
        let rd := idTableRead rawUnc file count start 0 start file.length
        let okk := match rd with | .ok l => decide (l = tbl) | .error _ => false
        s!"idx 0 count={count} start={start} len={file.length} same={okk}"
    | none => "bad-op"
  | _ => "bad-op"


/-- `idlimit <n0> <id>…`: the table already holds ids 1000 … 1000+n0-1 -/
def opIdlimit (toks : List String) : String :=
  match toks with
  | n0 :: ids =>
    match nat? n0, ids.mapM nat? with
    | some n0, some ids =>
      if n0 < 1 ∨ n0 > 65535 then "bad-op" else
      let rec go (tbl : List Nat) (acc : String) : List Nat → List Nat × String
        | [] => (tbl, acc)
        | id :: rest =>
          match Sqfs.IdTable.step Sqfs.IdTable.limit tbl id with
          | none => (tbl, acc ++ s!" e{errOverflow}")
          | some (i, t) => go t (acc ++ s!" {Sqfs.IdTable.storedIndex i}") rest
      let (tbl, acc) := go ((List.range n0).map (· + 1000)) "idx" ids
      let (file, _) := idTableWrite rawCmp [] tbl
      s!"{acc} count={Sqfs.IdTable.superIdCount tbl} len={file.length}"
    | _, _ => "bad-op"
  | _ => "bad-op"

def parsePair (t : String) : Option (Nat × Nat) :=
  match t.splitOn "/" with | [a, b] => do pure (← nat? a, ← nat? b) | _ => none

def opFrag (toks : List String) : String :=
  match toks with
  | pre :: fr =>
    match nat? pre, fr.mapM parsePair with
    | some pre, some frags =>
      let file0 := List.replicate pre (0xEE : UInt8)
      let (file, start) := fragTableWrite rawCmp file0 frags
      let rd := fragTableRead rawUnc file frags.length start pre start
      s!"start={start} file={toHexTok (file.drop pre)} rd " ++
        showStatus rd (fun l => if l.isEmpty then "-" else " ".intercalate (l.map (fun f => s!"{f.1}/{f.2}")))
    | _, _ => "bad-op"
  | _ => "bad-op"

/-! xattr -/

def parseSet (s : String) : Option (List (Bytes × Bytes)) :=
  if s = "-" then some []
  else (s.splitOn ",").mapM (fun kv => match kv.splitOn "=" with | [k, v] => do pure (← fromHex k, ← fromHex v) | _ => none)

def showSet (l : List (Bytes × Bytes)) : String :=
  if l.isEmpty then "-" else ",".intercalate (l.map (fun kv => s!"{toHexTok kv.1}={toHexTok kv.2}"))

/-- `xattr <fix> <set> <set> …` (`fix` = 1: location stores of the repaired `write_id_table`) -/
def opXattr (toks : List String) : String :=
  match toks with
  | fix :: sets =>
    match sets.mapM parseSet with
    | none => "bad-op"
    | some sets =>
      match recordAll {} sets with
      | .error e => s!"rec {e}"
      | .ok (w, idx) =>
        if w.pairs.isEmpty ∨ w.blocks.isEmpty then s!"rec 0 {showNats idx} none"           -- flush: NO_XATTRS
        else
          let fl := xattrFlush rawCmp rawRef w
          let kv := fl.kv
          let ids := encDescs fl.descs
          let count := locCount w.blocks.length
          let cost := metaBlockSize + 2
          -- the code before /repo 6ae20a5 (`fix` = 0) stored beyond the array: counted, for the replay of D9
          let oob := (locStores (if fix = "1" then some count else none)
            (fun k => (k * sizeofXattrId) / metaBlockSize * cost) w.blocks.length).filter (fun s => s.1 ≥ count)
          let locs := fl.locs
          let rdr : XReader := fl.reader rawUnc (fun r => rawPos r)
          let distinct := idx.eraseDups
          let rd := distinct.map (fun i => s!"{i}:" ++ showStatus (readSet rdr i) showSet)
          s!"rec 0 {showNats idx} n={w.blocks.length} kv={toHexTok kv} ids={toHexTok ids} locs={showNats locs} " ++
            s!"oob={oob.length} rd " ++ " ; ".intercalate rd
  | _ => "bad-op"

/-- `xsets <fix> <n> <vlen>`: `n` distinct one-pair sets `user.k = <i as 4 bytes><vlen-4 zero bytes>` (set counts around
512/1024 without megabyte lines); prints digests only -/
def opXsets (toks : List String) : String :=
  match toks with
  | [fix, n, vlen] =>
    match nat? n, nat? vlen with
    | some n, some vlen =>
      let key : Bytes := prefixUser ++ [0x6b]
      let sets := (List.range n).map (fun i => [(key, Sqfs.Writer.le 4 i ++ List.replicate (vlen - 4) 0)])
      match recordAll {} sets with
      | .error e => s!"rec {e}"
      | .ok (w, idx) =>
        let fl := xattrFlush rawCmp rawRef w
        let kv := fl.kv
        let ids := encDescs fl.descs
        let count := locCount w.blocks.length
        let cost := metaBlockSize + 2
        let oob := (locStores (if fix = "1" then some count else none)
          (fun k => (k * sizeofXattrId) / metaBlockSize * cost) w.blocks.length).filter (fun s => s.1 ≥ count)
        let locs := fl.locs
        let rdr : XReader := fl.reader rawUnc (fun r => rawPos r)
        let good := idx.zip sets |>.all (fun (i, s) => match readSet rdr i with | .ok l => l == s | .error _ => false)
        s!"rec 0 n={w.blocks.length} kvlen={kv.length} idslen={ids.length} locs={showNats locs} oob={oob.length} same={good}"
    | _, _ => "bad-op"
  | _ => "bad-op"


/-! tree -/
section Tree
open Sqfs.FsTree

def splitPath (b : List UInt8) : Path := (b.splitOn 0x2f).filter (· ≠ [])

structure TreeSpec where
  path : Path
  t : Char
  perm : Nat
  uid : Nat
  gid : Nat
  mtime : Nat
  xattr : Nat
  extra : String

def parseSpec (tok : String) : Option TreeSpec :=
  match tok.splitOn "|" with
  | [ph, t, perm, uid, gid, mt, xa, ex] => do
    let c ← t.toList.head?
    pure ⟨splitPath (← fromHex ph), c, ← nat? perm, ← nat? uid, ← nat? gid, ← nat? mt, ← nat? xa, ex⟩
  | _ => none

def specMode (s : TreeSpec) : Option Nat :=
  match s.t with
  | 'd' => some (sIFDIR ||| s.perm) | 'f' => some (sIFREG ||| s.perm) | 'l' => some (sIFLNK ||| s.perm)
  | 'h' => some (sIFLNK ||| s.perm) | 'b' => some (sIFBLK ||| s.perm) | 'c' => some (sIFCHR ||| s.perm)
  | 'p' => some (sIFIFO ||| s.perm) | 's' => some (sIFSOCK ||| s.perm) | _ => none

def natsSemi? (s : String) : Option (List Nat) := if s = "-" then some [] else (s.splitOn ";").mapM nat?

/-- the inode the block processor would have left: `b:st:fi:fo:sz:words` / `x:st:sz:sp:fi:fo:words` -/
def fileInodeOfSpec (ex : String) : Option Inode :=
  let b : Base := ⟨0, 0, 0, 0, 0⟩
  match ex.splitOn ":" with
  | ["b", st, fi, fo, sz, w] => do pure (.file b (← nat? st) (← nat? fi) (← nat? fo) (← nat? sz) (← natsSemi? w))
  | ["x", st, sz, sp, fi, fo, w] => do pure (.fileExt b (← nat? st) (← nat? sz) (← nat? sp) 1 (← nat? fi) (← nat? fo) NONE32 (← natsSemi? w))
  | _ => none

/-- `fstree_add_generic` for every spec, fail-stop: the tree, `links_unresolved` (a stack), or the index that failed -/
def addSpecs (d : Defaults) : List TreeSpec → Nat → TNode → List Path → Except String (TNode × List Path)
  | [], _, t, l => .ok (t, l)
  | s :: rest, i, t, l =>
    match specMode s with
    | none => .error "bad-op"
    | some mode =>
      let hard := s.t == 'h'
      let ent : Ent := { rel := s.path, path := s.path, mode := mode, uid := s.uid, gid := s.gid, mtime := s.mtime, dev := 0, ino := 0,
                         rdev := (if s.t == 'b' || s.t == 'c' then (nat? s.extra).getD 0 else 0), mount := false, hard := hard }
      -- `mknode` (fstree.c:120-126) runs `canonicalize_name` over a hard link's target: "." components and doubled
      -- slashes disappear (a target "." becomes the root), a ".." component makes the call fail with EINVAL
      let canonFails := s.t == 'h' && (match fromHex s.extra with | some b => (Sqfs.Path.canonicalize b).isNone | none => false)
      let extra : Option Extra :=
        if s.t == 'h' then (fromHex s.extra).map (fun b => Extra.link (splitPath ((Sqfs.Path.canonicalize b).getD b)) none)
        else if s.t == 'l' then (fromHex s.extra).map Extra.str
        else if s.t == 'f' then some (Extra.str [])
        else some Extra.none
      match extra with
      | none => .error "bad-op"
      | some ex =>
        if canonFails then .error s!"add {i} failed" else
        match addPath d ent ex s.path t with
        | none => .error s!"add {i} failed"
        | some t' => addSpecs d rest (i + 1) t' (if hard then s.path :: l else l)

partial def showRNode : RNode → String
  | .mk name i cs => s!"( {toHexTok name} {showInode i}" ++ String.join (cs.map (fun c => " " ++ showRNode c)) ++ " )"

def opTree (preload : Nat) (toks : List String) : String :=
  match toks.mapM parseSpec with
  | none => "bad-op"
  | some specs =>
    let d : Defaults := { uid := 0, gid := 0, mtime := 0, mode := 0o755 }
    match addSpecs d specs 0 (initRoot d) [] with
    | .error e => e
    | .ok (t, links) =>
      match postProcess t links with
      | none => "post failed"
      | some r =>
        let xattrOf (p : Path) : Nat := match specs.find? (fun s => s.path == p && s.t != 'h') with | some s => s.xattr | none => NONE32
        let fileInode (p : Path) : Inode :=
          match specs.find? (fun s => s.path == p && s.t == 'f') with
          | some s => (fileInodeOfSpec s.extra).getD (.file ⟨0, 0, 0, 0, 0⟩ 0 0 0 0 [])
          | none => .file ⟨0, 0, 0, 0, 0⟩ 0 0 0 0 []
        if specs.any (fun s => s.t == 'f' && (fileInodeOfSpec s.extra).isNone) then "bad-op"
        else
        let ser : Except Status TreeOut :=
          if preload = 0 then serializeTree r ⟨xattrOf, fileInode⟩
          else match serializeGo r.tree r.inodes ⟨xattrOf, fileInode⟩ r.inodes { ids := (List.range preload).map (· + 1000) } [] with
            | .error e => .error e
            | .ok (st, refs) => .ok ⟨st, refs, lookupRef refs [], r.inodes.length⟩
        match ser with
        | .error e => s!"ret {e} n={r.inodes.length} root=0"
        | .ok out =>
          let walk := match readTree 4096 out (out.inodeCount * 4 + 8) with
            | .ok n => s!" {showRNode n} end 0"
            | .error e => s!" end {e}"
          s!"ret 0 n={out.inodeCount} root={out.rootRef} inodes={toHexTok out.st.inodes} dirs={toHexTok out.st.dirs} " ++
            s!"ids={showNats out.st.ids} walk" ++ walk

/-- `treechk <specs>`: the hypotheses of `Sqfs.C01.parse_serialize` evaluated for the tree `tree <specs>` serializes
(`rep`), and its conclusion (`norm`: `normalise` equals the resolved walk).  Model only. -/
def opTreeChk (toks : List String) : String :=
  match toks.mapM parseSpec with
  | none => "bad-op"
  | some specs =>
    let d : Defaults := { uid := 0, gid := 0, mtime := 0, mode := 0o755 }
    match addSpecs d specs 0 (initRoot d) [] with
    | .error _ => "skip"
    | .ok (t, links) =>
      match postProcess t links with
      | none => "skip"
      | some r =>
        let xattrOf (p : Path) : Nat := match specs.find? (fun s => s.path == p && s.t != 'h') with | some s => s.xattr | none => NONE32
        let fileInode (p : Path) : Inode :=
          match specs.find? (fun s => s.path == p && s.t == 'f') with
          | some s => (fileInodeOfSpec s.extra).getD (.file ⟨0, 0, 0, 0, 0⟩ 0 0 0 0 [])
          | none => .file ⟨0, 0, 0, 0, 0⟩ 0 0 0 0 []
        if specs.any (fun s => s.t == 'f' && (fileInodeOfSpec s.extra).isNone) then "skip"
        else
        let x : TreeExtra := ⟨xattrOf, fileInode⟩
        match serializeTree r x with
        | .error _ => s!"skip order={orderOkB r}"
        | .ok out =>
          let rep := decide (Representable 4096 r x out)
          let fuel := out.inodeCount * 4 + 8
          let norm := match normalise r x fuel, readTree 4096 out fuel with
            | some v, .ok rn => if reprStr (rn.resolve out.st.ids) == reprStr v then "same" else "diff"
            | none, _ => "nofuel"
            | some _, .error e => s!"walk{e}"
          s!"rep={rep} order={orderOkB r} norm={norm}"

end Tree


/-- `export <pre> <inum/ref>… <root>` -/
def opExport (toks : List String) : String :=
  match toks with
  | pre :: rest =>
    match nat? pre, rest.mapM parsePair with
    | some pre, some pairs =>
      match pairs.reverse with
      | [] => "bad-op"
      | root :: revEntries =>
        let entries := revEntries.reverse
        if entries.any (fun e => e.1 < 1) then s!"add {errArgInvalid}"
        else if root.1 < 1 then s!"err {errArgInvalid}"
        else
          let tbl := (Sqfs.Pack.exportTable (entries.map (fun e => (e.1, UInt64.ofNat e.2))) (root.1, UInt64.ofNat root.2)).map (·.toNat)
          let file0 := List.replicate pre (0xEE : UInt8)
          let (file, start) := exportTableWrite rawCmp file0 tbl
          let rd := exportTableRead rawUnc file tbl.length start pre start
          s!"start={start} file={toHexTok (file.drop pre)} rd " ++ showStatus rd showNats
    | _, _ => "bad-op"
  | _ => "bad-op"

open Sqfs.Writer in
/-- `super <bs> <mtime> <comp> <inodes> <flags> <ids> <rootref> <bytes_used> <id> <xattr> <inode> <dir> <frag> <export>` -/
def opSuper (toks : List String) : String :=
  match toks.mapM nat? with
  | some [bs, mt, comp, ic, fl, idc, rr, bu, ids, xs, is, ds, fs, es] =>
    match superInit bs mt comp with
    | .error e => s!"init {e}"
    | .ok s0 =>
      let s : Super := { s0 with inodeCount := ic, flags := fl, idCount := idc, rootRef := rr, bytesUsed := bu, idStart := ids,
                                 xattrStart := xs, inodeStart := is, dirStart := ds, fragStart := fs, exportStart := es }
      let bytes := s.encode
      let rd := match superRead bytes with
        | .error e => s!"{e}"
        | .ok r => s!"0 {r.magic} {r.inodeCount} {r.mtime} {r.blockSize} {r.fragCount} {r.compId} {r.blockLog} {r.flags} {r.idCount} " ++
            s!"{r.vMajor} {r.vMinor} {r.rootRef} {r.bytesUsed} {r.idStart} {r.xattrStart} {r.inodeStart} {r.dirStart} {r.fragStart} {r.exportStart}"
      s!"init 0 bytes={toHexTok bytes} rd {rd}"
  | _ => "bad-op"

def handle (line : String) : String :=
  match words line with
  | "inode" :: r => opInode r
  | "mkext" :: st :: r => match nat? st with | some st => opConv (makeExtendedCur st) r | none => "bad-op"
  | "mkextfix" :: _ :: r => opConv makeExtended r
  | "mkbasic" :: r => opConv makeBasic r
  | "setx" :: x :: r => match nat? x with | some x => opConv (setXattrIndex x) r | none => "bad-op"
  | "dirl" :: r => opDirl r
  | "meta" :: r => opMeta r
  | "table" :: r => opTable r
  | "idtab" :: r => opIdtab r
  | "idrange" :: r => opIdrange r
  | "frag" :: r => opFrag r
  | "idlimit" :: r => opIdlimit r
  | "xattr" :: r => opXattr r
  | "xsets" :: r => opXsets r
  | "tree" :: r => opTree 0 r
  | "treeids" :: n0 :: r => match nat? n0 with | some n0 => opTree n0 r | none => "bad-op"
  | "treechk" :: r => opTreeChk r
  | "setsz" :: v :: r => match nat? v with | some v => opConvOpt (setFileSize v) r | none => "bad-op"
  | "setst" :: v :: r => match nat? v with | some v => opConvOpt (setFileBlockStart v) r | none => "bad-op"
  | "export" :: r => opExport r
  | "super" :: r => opSuper r
  | _ => "bad-op"

def run (_args : List String) : IO Unit := do
  let stdin ← IO.getStdin
  let stdout ← IO.getStdout
  lineLoop stdin stdout handle

end Driver.C01
