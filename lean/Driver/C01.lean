import Driver.Util
namespace Driver.C01
/-- stub: the model driver for C01 is not built yet -/
def run (_args : List String) : IO Unit := do
  IO.eprintln "sqfsmodel: model C01 not built yet"
end Driver.C01
