import Driver.Util
import Sqfs.Model.Path
import Sqfs.Spec.HardLink
import Sqfs.Model.TextParse
import Sqfs.Model.C07Lines
import Sqfs.Model.C07ReadHeader
import Sqfs.Model.C12TarStream
namespace Driver.C07
open Sqfs.HardLink

/-! ### hard links: `hl` (repaired model) / `hlcur <fuel>` (model of the shipped code) -/

structure Ent where
  kind : Tree.Kind
  name : List UInt8
  target : List UInt8
  /-- `c:<namehex>:<decimal>` — harness-only set-up step `node->link_count = v` (see `Tree.setCount`) -/
  poke : Option Nat := none

def parseEnt (tok : String) : Option Ent :=
  match tok.splitOn ":" with
  | ["c", n, v] => do
    let name ← fromHex n
    let v ← v.toNat?
    if v ≤ 0xFFFFFFFF ∧ Sqfs.Path.canonicalize name = some name then some { kind := .other, name, target := [], poke := some v } else none
  | [k, n, t] => do
    let kind ← (match k with
      | "d" => some Tree.Kind.dir
      | "f" => some Tree.Kind.other
      | "s" => some Tree.Kind.other
      | "l" => some Tree.Kind.hlink
      | _ => none)
    let name ← fromHex n
    let target ← fromHex t
    -- the callers canonicalise names; the harness refuses anything else too
    if Sqfs.Path.canonicalize name = some name then some { kind, name, target } else none
  | _ => none

def errnoStr : Errno → String
  | .ENOENT => "ENOENT" | .ENOTDIR => "ENOTDIR" | .EMLINK => "EMLINK" | .EPERM => "EPERM"

def addErrStr : Tree.AddErr → String
  | .EINVAL => "EINVAL" | .ENOTDIR => "ENOTDIR" | .EEXIST => "EEXIST" | .ENAMETOOLONG => "ENAMETOOLONG"
  | .EMLINK => "EMLINK" | .ENOENT => "ENOENT"

def buildTree : Tree.T → Nat → List Ent → Except String Tree.T
  | t, _, [] => .ok t
  | t, i, e :: rest =>
    match (match e.poke with
           | some v => Tree.setCount t e.name v
           | none => Tree.addGeneric Sqfs.Path.canonicalize t e.name e.kind e.target) with
    | .error err => .error s!"adderr {i} {addErrStr err}"
    | .ok t' => buildTree t' (i + 1) rest

def showOk (t : Tree.T) (st : St) (ents : List Ent) : String :=
  let one (e : Ent) : String :=
    match Tree.lookup t e.name with
    | .fail _ => "?"
    | .found i =>
      match (Tree.toGraph t)[i]? with
      | some (.hlink _) =>
        (match st.resolved i with
         | some tg => "L" ++ toHexTok (Tree.pathOf t t.length tg)
         | none => "L?")
      | _ => "N" ++ toString (st.linkCount i)
  "ok R" ++ toString (st.linkCount 0) ++ String.join (ents.map (fun e => " " ++ one e))

def hlStep (cur : Option Nat) (toks : List String) : String :=
  match toks.mapM parseEnt with
  | none => "bad-op"
  | some ents =>
    match buildTree Tree.init 0 ents with
    | .error s => s
    | .ok t =>
      let g := Tree.toGraph t
      let links := Tree.links t
      let st0 := St.init (Tree.counts t)
      let r := match cur with
        | none => resolveAllFix g (links.length + 2) st0 links
        | some fuel => resolveAllCur g fuel st0 links
      match r with
      | .ok st => showOk t st ents
      | .err n e => "err " ++ toHexTok (Tree.pathOf t t.length n) ++ " " ++ errnoStr e
      | .outOfFuel => "spin"
      | .badIndex => "bad-index"

/-- monitor: the *specification's* verdict per hard link, most recently created first:
`<linkpath>=F:<targetpath>:<o|d>` (ends at a non-link), `D:<errno>` (dangling), `C` (cyclic) -/
def hlSpec (toks : List String) : String :=
  match toks.mapM parseEnt with
  | none => "bad-op"
  | some ents =>
    match buildTree Tree.init 0 ents with
    | .error s => s
    | .ok t =>
      let g := Tree.toGraph t
      let one (n : Nat) : String :=
        toHexTok (Tree.pathOf t t.length n) ++ "=" ++
        (match specClass g n with
         | .endsAt tg => "F:" ++ toHexTok (Tree.pathOf t t.length tg) ++ ":" ++ (if g[tg]? = some .dir then "d" else "o")
         | .dangling e => "D:" ++ errnoStr e.toErrno
         | .cyclic => "C"
         | .escapes => "X")
      "spec" ++ String.join ((Tree.links t).map (fun n => " " ++ one n))

/-! ### parser units -/
section Parsers
open Sqfs.ParseTotal

def showR {α : Type} (f : α → String) : R α → String
  | .ok a => "ok" ++ f a
  | .fail c => "fail " ++ toString c
  | .oob => "oob"
  | .spin => "spin"

def optLen (s : String) : Option (Option Nat) :=
  if s = "-1" then some none else s.toNat?.map some

def showSparse (l : List SparseEnt) : String :=
  String.join (l.map (fun e => " " ++ toString e.offset ++ ":" ++ toString e.count))

def showOptHex : Option (List UInt8) → String
  | none => "~"
  | some b => toHexTok b

def showPax (o : PaxOut) : String :=
  " flags=" ++ toString o.flags ++ " uid=" ++ toString o.uid ++ " gid=" ++ toString o.gid ++ " size=" ++ toString o.size ++
  " actual=" ++ toString o.actual ++ " mtime=" ++ toString o.mtime ++ " name=" ++ showOptHex o.name ++
  " link=" ++ showOptHex o.link ++ " sparse=[" ++ (showSparse o.sparse).trimAscii.toString ++ "] xattr=[" ++
  (String.join (o.xattr.map (fun x => " " ++ toHexTok x.key ++ "=" ++ toHexTok x.value))).trimAscii.toString ++ "]"

def showTarHdr (t : TarHdr) (rest : Nat) : String :=
  "ok name=" ++ toHexTok t.name ++ " link=" ++ showOptHex t.link ++ " mode=" ++ String.ofList (Nat.toDigits 8 t.mode) ++
  " uid=" ++ toString t.uid ++ " gid=" ++ toString t.gid ++ " mtime=" ++ toString t.mtime ++ " size=" ++ toString t.recordSize ++
  " actual=" ++ toString t.actualSize ++ " sparse=[" ++ (showSparse t.sparse).trimAscii.toString ++ "] xattr=[" ++
  (String.join (t.xattr.map (fun x => " " ++ toHexTok x.key ++ "=" ++ toHexTok x.value))).trimAscii.toString ++
  "] unknown=" ++ (if t.unknown then "1" else "0") ++ " hard=" ++ (if t.hardLink then "1" else "0") ++
  " rest=" ++ toString rest

/-- every member: `readHeader`, then skip the record data and its padding like the tar iterator (not part of any theorem) -/
def rhAll : Nat → List UInt8 → List String
  | 0, _ => ["more"]
  | fuel + 1, s =>
    match (readHeader s).res with
    | .eof => ["eof"]
    | .fail c => ["fail " ++ toString c]
    | .oob => ["oob"]
    | .spin => ["spin"]
    | .ok t rest =>
      let skip := t.recordSize
      if skip > rest.length then [showTarHdr t rest.length, "skipfail"]
      else
        let skip := if skip % 512 ≠ 0 then skip + (512 - skip % 512) else skip
        if skip > rest.length then [showTarHdr t rest.length, "skipfail"]
        else showTarHdr t rest.length :: rhAll fuel (rest.drop skip)

def parserStep : List String → Option String
  | ["num", h, d] => do
    let buf ← fromHex h
    let digits ← d.toNat?
    pure (showR (fun v => " " ++ toString v) (readNumber buf 0 digits))
  | ["puint", base, len, wd, vmin, vmax, h] => do
    let s ← fromHex h
    let b ← base.toNat?
    let l ← optLen len
    let lo ← vmin.toNat?
    let hi ← vmax.toNat?
    pure (showR (fun (v : Nat × Nat) => " " ++ toString v.1 ++ " " ++ (if wd = "1" then toString v.2 else "-")) (parseU b (s ++ [0]) 0 l (wd = "1") lo hi))
  | ["pint", len, wd, h] => do
    let s ← fromHex h
    let l ← optLen len
    pure (showR (fun (v : Int × Nat) => " " ++ toString v.1 ++ " " ++ (if wd = "1" then toString v.2 else "-")) (parseI (s ++ [0]) 0 l (wd = "1")))
  | ["hex", osz, h] => do
    let s ← fromHex h
    let o ← osz.toNat?
    pure (showR (fun v => " " ++ toHexTok v) (hexDecode s 0 s.length o []))
  | ["b64", cap, h] => do
    let s ← fromHex h
    let c ← cap.toNat?
    pure (showR (fun v => " " ++ toHexTok v) (base64Decode s 0 s.length c))
  | ["split", sep, len, h] => do
    let s ← fromHex h
    let sp ← fromHex sep
    let l ← (if len = "-1" then some s.length else len.toNat?)
    if l > s.length then none
    else pure (match splitLine (s ++ [0]) l sp with
      | .ok st => showR (fun toks => String.join (toks.map (fun t => " " ++ toHexTok t))) (slTokens st)
      | .fail c => "fail " ++ toString c
      | .oob => "oob"
      | .spin => "spin")
  | ["dfn", h] => do
    let s ← fromHex h
    pure (match decodeFilename (s ++ [0]) with
      | .ok b => (match cstr b (b.length + 1) 0 with
          | .ok name => (match Sqfs.Path.canonicalize name with
              | some c => "ok " ++ toHexTok c
              | none => "fail 4")
          | _ => "oob")
      | .fail c => "fail " ++ toString c
      | .oob => "oob"
      | .spin => "spin")
  | ["xdec", h] => do
    let s ← fromHex h
    pure (showR (fun v => " " ++ toHexTok v) (xattrDecode (s ++ [0])))
  | ["pax", h] => do
    let s ← fromHex h
    pure (showR showPax (readPaxHeader s))
  | ["spnew", rs, h] => do
    let s ← fromHex h
    let r ← rs.toNat?
    pure (showR (fun (v : List SparseEnt × Nat × List UInt8) => " " ++ toString v.2.1 ++ " " ++ toString v.2.2.length ++ showSparse v.1)
      (readGnuNewSparse s r))
  | ["spold", hh, h] => do
    let hdr ← fromHex hh
    let s ← fromHex h
    pure (match readGnuOldSparse hdr s with
      | .ok ([], _) => "fail 0"               -- an empty map is `NULL` (no diagnostic), which `read_header` takes for failure
      | r => showR (fun (v : List SparseEnt × List UInt8) => " " ++ toString v.2.length ++ showSparse v.1) r)
  | ["rh", h] => do
    let s ← fromHex h
    pure (String.intercalate " ; " (rhAll 64 s))
  | ["rhalloc", h] => do
    -- monitor: the sizes `read_header` passes to `record_to_memory`, in order
    let s ← fromHex h
    pure ("allocs" ++ String.join ((readHeader s).allocs.reverse.map (fun n => " " ++ toString n)))
  | _ => none

end Parsers

/-! ### `gl`: a whole text input through `istream_get_line` -/

/-- content tokens: `h<hex>` literal bytes, `r<count>x<hh>` a run of one byte -/
def contentTok (t : String) : Option (List UInt8) :=
  if t.startsWith "h" then fromHex (t.drop 1).toString
  else if t.startsWith "r" then
    match ((t.drop 1).toString.splitOn "x") with
    | [c, b] => do
      let n ← c.toNat?
      let bs ← fromHex b
      match bs with
      | [x] => if n ≤ 67108864 then some (List.replicate n x) else none
      | _ => none
    | _ => none
  else none

def fnvByte (h : UInt64) (b : UInt8) : UInt64 := (h ^^^ b.toUInt64) * 1099511628211

def fnvLines (ls : List (List UInt8 × Nat)) : UInt64 :=
  ls.foldl (fun h (l : List UInt8 × Nat) =>
    let h := l.1.foldl fnvByte h
    let h := fnvByte h 10
    let h := (toString l.2).toUTF8.foldl fnvByte h
    fnvByte h 10) 1469598103934665603

def hex16 (v : UInt64) : String :=
  let s := String.ofList (Nat.toDigits 16 v.toNat)
  String.ofList (List.replicate (16 - s.length) '0') ++ s

def errNum : Sqfs.IoLoops.Err → String
  | .ok => "0" | .io => "3" | .oob => "8" | .compressor => "4" | .fuel => "fuel" | _ => "other"

def showLines (r : Sqfs.C07Lines.Lines) : String :=
  match r.err with
  | some .fuel => "spin"
  | some e => "fail " ++ errNum e
  | none => "ok " ++ toString r.lines.length ++ " " ++ toString r.lineNum ++ " " ++
      toString (r.lines.foldl (fun a l => a + l.1.length) 0) ++ " " ++ hex16 (fnvLines r.lines)

def glStep (spec : Bool) : List String → String
  | b :: f :: toks =>
    match b.toNat?, f.toNat?, toks.mapM contentTok with
    | some B, some flags, some parts =>
      if B = 0 then "bad-op"
      else
        let data := parts.foldr (· ++ ·) []
        showLines (if spec then Sqfs.C07Lines.specFile flags data else Sqfs.C07Lines.readFile B flags data)
    | _, _, _ => "bad-op"
  | _ => "bad-op"

/-! ### `ms`: the content of the first member of an archive through the tar member stream
`ms <streamhex> <want,want,...>`: `read_header` (C07's model) decodes the member's geometry, then the member stream
(`Sqfs.IoLoops.tarGet` / `tarAdv`, C12's model of `strm_get_buffered_data` / `strm_advance_buffer`) over the memory
istream with a 4096-byte window (= `idealStream 4096`) is drained: request `want[i mod n]` bytes, consume all
that is handed out.  Answer: the sizes handed out (run-length coded), their sum, the FNV-1a hash of the bytes. -/
section MemberStream
open Sqfs.IoLoops Sqfs.IoLoops.Spec

def powU64 : Nat → UInt64 → Nat → UInt64 → UInt64
  | 0, _, _, acc => acc
  | f + 1, b, n, acc => if n = 0 then acc else powU64 f (b * b) (n / 2) (if n % 2 = 1 then acc * b else acc)

structure MsAcc where
  sizes : List (Nat × Nat) := []      -- (size, repetitions), most recent first
  total : Nat := 0
  h : UInt64 := 1469598103934665603
  calls : Nat := 0

def MsAcc.push (a : MsAcc) (n : Nat) (h : UInt64) : MsAcc :=
  { sizes := (match a.sizes with
      | (s, k) :: r => if s = n then (s, k + 1) :: r else (n, 1) :: (s, k) :: r
      | [] => [(n, 1)]),
    total := a.total + n, h := h, calls := a.calls + 1 }

def msCap : Nat := 70000

def msLoop {σ : Type} (I : StreamI σ) (wants : List Nat) : Nat → TarStrm σ → MsAcc → String × MsAcc
  | 0, _, a => ("cap", a)
  | f + 1, x, a =>
    let want := wants.getD (a.calls % wants.length) 1
    match tarGet I x want OS.full with
    | (.ok, w, x', _) =>
      if w.length = 0 then ("stuck", a)
      else
        -- a window of zero bytes: h ← h * prime for every byte
        let h := if x'.it.lastSparse then a.h * powU64 64 1099511628211 w.length 1 else w.foldl fnvByte a.h
        msLoop I wants f (tarAdv I x' w.length) (a.push w.length h)
    | (.eof, _, _, _) => ("eof", a)
    | (.fail .corrupted, _, _, _) => ("fail corrupted", a)
    | (.fail _, _, _, _) => ("fail other", a)

def msStep : List String → String
  | [h, ws] =>
    match fromHex h, (ws.splitOn ",").mapM String.toNat? with
    | some s, some wants =>
      if wants.isEmpty ∨ wants.any (· = 0) ∨ wants.length > 16 then "bad-op" else
      match (Sqfs.ParseTotal.readHeader s).res with
      | .ok t rest =>
        if t.mode &&& 0o170000 ≠ 0o100000 ∨ t.hardLink then "ms not-regular" else
        let it := (TarIt.init (⟨s.length - rest.length, 0⟩ : Ideal)).setMember
          ⟨t.recordSize, t.actualSize, t.sparse.map fun e => ⟨e.offset, e.count⟩⟩
        match msLoop (idealStream 4096 s) wants msCap (tarOpen it) {} with
        | (e, a) =>
          "ms size=" ++ toString t.actualSize ++ " calls=" ++ toString a.calls ++ " sizes=" ++
          (if a.sizes.isEmpty then "-" else
            String.intercalate "," (a.sizes.reverse.map fun (p : Nat × Nat) => toString p.1 ++ "x" ++ toString p.2)) ++
          " total=" ++ toString a.total ++ " h=" ++ hex16 a.h ++ " end=" ++ e
      | _ => "ms hdr-fail"
    | _, _ => "bad-op"
  | _ => "bad-op"

end MemberStream

def step (line : String) : String :=
  match parserStep (words line) with
  | some r => r
  | none =>
  match words line with
  | "gl" :: toks => glStep false toks
  | "ms" :: toks => msStep toks
  | "glspec" :: toks => glStep true toks
  | "hl" :: toks => hlStep none toks
  | "hlspec" :: toks => hlSpec toks
  | "hlcur" :: f :: toks => match f.toNat? with
      | some fuel => hlStep (some fuel) toks
      | none => "bad-op"
  | _ => "bad-op"

def run (_args : List String) : IO Unit := do
  lineLoop (← IO.getStdin) (← IO.getStdout) step

end Driver.C07
