import Driver.Util
import Sqfs.Model.Path
import Sqfs.Spec.HardLink
namespace Driver.C07
open Sqfs.HardLink

/-! ### hard links: `hl` (repaired model) / `hlcur <fuel>` (model of the shipped code) -/

structure Ent where
  kind : Tree.Kind
  name : List UInt8
  target : List UInt8

def parseEnt (tok : String) : Option Ent :=
  match tok.splitOn ":" with
  | [k, n, t] => do
    let kind ← (match k with
      | "d" => some Tree.Kind.dir
      | "f" => some Tree.Kind.other
      | "s" => some Tree.Kind.other
      | "l" => some Tree.Kind.hlink
      | _ => none)
    let name ← fromHex n
    let target ← fromHex t
    -- the callers canonicalise names; the harness refuses anything else too
    if Sqfs.Path.canonicalize name = some name then some { kind, name, target } else none
  | _ => none

def errnoStr : Errno → String
  | .ENOENT => "ENOENT" | .ENOTDIR => "ENOTDIR" | .EMLINK => "EMLINK" | .EPERM => "EPERM"

def addErrStr : Tree.AddErr → String
  | .EINVAL => "EINVAL" | .ENOTDIR => "ENOTDIR" | .EEXIST => "EEXIST"

def buildTree : Tree.T → Nat → List Ent → Except String Tree.T
  | t, _, [] => .ok t
  | t, i, e :: rest =>
    match Tree.addGeneric Sqfs.Path.canonicalize t e.name e.kind e.target with
    | .error err => .error s!"adderr {i} {addErrStr err}"
    | .ok t' => buildTree t' (i + 1) rest

def showOk (t : Tree.T) (st : St) (ents : List Ent) : String :=
  let one (e : Ent) : String :=
    match Tree.lookup t e.name with
    | .fail _ => "?"
    | .found i =>
      match (Tree.toGraph t)[i]? with
      | some (.hlink _) =>
        (match st.resolved i with
         | some tg => "L" ++ toHexTok (Tree.pathOf t t.length tg)
         | none => "L?")
      | _ => "N" ++ toString (st.linkCount i)
  "ok R" ++ toString (st.linkCount 0) ++ String.join (ents.map (fun e => " " ++ one e))

def hlStep (cur : Option Nat) (toks : List String) : String :=
  match toks.mapM parseEnt with
  | none => "bad-op"
  | some ents =>
    match buildTree Tree.init 0 ents with
    | .error s => s
    | .ok t =>
      let g := Tree.toGraph t
      let links := Tree.links t
      let st0 := St.init (Tree.counts t)
      let r := match cur with
        | none => resolveAllFix g (links.length + 2) st0 links
        | some fuel => resolveAllCur g fuel st0 links
      match r with
      | .ok st => showOk t st ents
      | .err n e => "err " ++ toHexTok (Tree.pathOf t t.length n) ++ " " ++ errnoStr e
      | .outOfFuel => "spin"
      | .badIndex => "bad-index"

/-- monitor: the *specification's* verdict per hard link, most recently created first:
`<linkpath>=F:<targetpath>:<o|d>` (ends at a non-link), `D:<errno>` (dangling), `C` (cyclic) -/
def hlSpec (toks : List String) : String :=
  match toks.mapM parseEnt with
  | none => "bad-op"
  | some ents =>
    match buildTree Tree.init 0 ents with
    | .error s => s
    | .ok t =>
      let g := Tree.toGraph t
      let one (n : Nat) : String :=
        toHexTok (Tree.pathOf t t.length n) ++ "=" ++
        (match specClass g n with
         | .endsAt tg => "F:" ++ toHexTok (Tree.pathOf t t.length tg) ++ ":" ++ (if g[tg]? = some .dir then "d" else "o")
         | .dangling e => "D:" ++ errnoStr e.toErrno
         | .cyclic => "C"
         | .escapes => "X")
      "spec" ++ String.join ((Tree.links t).map (fun n => " " ++ one n))

def step (line : String) : String :=
  match words line with
  | "hl" :: toks => hlStep none toks
  | "hlspec" :: toks => hlSpec toks
  | "hlcur" :: f :: toks => match f.toNat? with
      | some fuel => hlStep (some fuel) toks
      | none => "bad-op"
  | _ => "bad-op"

def run (_args : List String) : IO Unit := do
  lineLoop (← IO.getStdin) (← IO.getStdout) step

end Driver.C07
