import Driver.Util
namespace Driver.C07
/-- stub: the model driver for C07 is not built yet -/
def run (_args : List String) : IO Unit := do
  IO.eprintln "sqfsmodel: model C07 not built yet"
end Driver.C07
