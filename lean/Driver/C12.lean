import Driver.Util
namespace Driver.C12
/-- stub: the model driver for C12 is not built yet -/
def run (_args : List String) : IO Unit := do
  IO.eprintln "sqfsmodel: model C12 not built yet"
end Driver.C12
