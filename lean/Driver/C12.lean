import Driver.Util
import Sqfs.Spec.IoLoops
import Sqfs.Model.XfrmStream
import Sqfs.Model.C12TarStream
/-
`sqfsmodel c12`: one scenario per line, same protocol as harness/h_c12.c.

  readat  <data> <off> <size> <script>
  writeat <file> <off> <data> <script>
  ostream <s|n> <op,op,...> <script>            ops: d<data> | h<n> (hole) | f (flush)
  istream <B> <s|n> <data> <op,op,...> <script> ops: g<want> a<count> R<size> S<size> P<size> L<flags> M<size>
  spec    <B> <data> <op,op,...>                the specification (Sqfs.Spec.IoLoops) on the same client ops
  ostream <S|N> ...                             as `ostream`, but the client keeps calling after a failure (rcs=...)
  tarstrm <B> <s|n> <data> <recsize> <filesize> <sparse> <op,...> <script>
                                                one archive member through the tar iterator (Sqfs.IoLoops.tarMemberRun);
                                                <sparse> = "-" | off:count,off:count,...
  tarspec <B> <data> <recsize> <filesize> <sparse> <op,...>   the same run over the ideal window stream, no OS
  xtarstrm <B> <BX> <s|n> <data> <recsize> <filesize> <sparse> <op,...> <script>
                                                the member run through the transforming istream (pass-through codec)
  lines   <flags,flags,...> <data>              the byte-at-a-time scanner Spec.nextLine applied repeatedly

  <data>   = "-" | hex | g<seed>:<len>:<mode>   (generated, same generator as the harness) | <data>+<data>
  <script> = "-" | comma list of p<k> (short count k+1) | i (EINTR) | e (EIO) | z (return 0)
-/
namespace Driver.C12
open Sqfs.IoLoops

/-! tokens -/

def fnv64 (bs : Bytes) : UInt64 :=
  bs.foldl (fun h b => (h ^^^ b.toUInt64) * 0x100000001b3) 0xcbf29ce484222325

def hex64 (x : UInt64) : String :=
  let rec go (n : Nat) (x : Nat) (acc : List Char) : List Char :=
    match n with
    | 0 => acc
    | n + 1 => go n (x / 16) (hexDigit (x % 16) :: acc)
  String.ofList (go 16 x.toNat [])

/-- output token: hex when short, else `#len:fnv64` -/
def dtok (bs : Bytes) : String :=
  if bs.length = 0 then "-"
  else if bs.length ≤ 48 then toHex bs
  else "#" ++ toString bs.length ++ ":" ++ hex64 (fnv64 bs)

def genByte (mode : Nat) (v : Nat) : UInt8 :=
  match mode with
  | 0 => UInt8.ofNat (v % 256)
  | 1 => ([97, 98, 99, 32, 9, 13, 10, 10] : List UInt8).getD (v % 8) 0
  | 2 => if v % 1000 = 0 then 10 else UInt8.ofNat (97 + v % 26)
  | _ => ([97, 32, 10, 0, 13, 200, 9, 10, 98, 32] : List UInt8).getD (v % 10) 0

def genData (seed len mode : Nat) : Bytes :=
  let rec go (n : Nat) (x : UInt64) (acc : Array UInt8) : Array UInt8 :=
    match n with
    | 0 => acc
    | n + 1 =>
      let x' := x * 6364136223846793005 + 1442695040888963407
      go n x' (acc.push (genByte mode (x' >>> 33).toNat))
  (go len (UInt64.ofNat seed) (Array.mkEmpty len)).toList

def hexArr (cs : Array Char) : Option Bytes :=
  if cs.size % 2 = 1 then none else
  let rec go (n i : Nat) (acc : Array UInt8) : Option (Array UInt8) :=
    match n with
    | 0 => some acc
    | n + 1 =>
      match hexVal (cs.getD i ' '), hexVal (cs.getD (i + 1) ' ') with
      | some x, some y => go n (i + 2) (acc.push (UInt8.ofNat (x * 16 + y)))
      | _, _ => none
  (go (cs.size / 2) 0 (Array.mkEmpty (cs.size / 2))).map Array.toList

def parseData1 (t : String) : Option Bytes :=
  if t = "-" then some []
  else if t.startsWith "g" then
    match (t.drop 1).toString.splitOn ":" with
    | [a, b, c] => do
      let s ← a.toNat?
      let l ← b.toNat?
      let m ← c.toNat?
      pure (genData s l m)
    | _ => none
  else hexArr t.toList.toArray

/-- `<piece>+<piece>+...`: the concatenation of the pieces -/
def parseData (t : String) : Option Bytes :=
  ((t.splitOn "+").mapM parseData1).map List.flatten

def parseEv (t : String) : Option Ev :=
  if t = "i" then some .eintr
  else if t = "e" then some .err
  else if t = "z" then some .zero
  else if t.startsWith "p" then (t.drop 1).toString.toNat?.map Ev.part
  else none

def parseScript (t : String) : Option (List Ev) :=
  if t = "-" then some [] else (t.splitOn ",").mapM parseEv

def parseOp (t : String) : Option Op :=
  let n := (t.drop 1).toString.toNat?
  if t.startsWith "g" then n.map Op.get
  else if t.startsWith "a" then n.map Op.adv
  else if t.startsWith "R" then n.map Op.read
  else if t.startsWith "S" then n.map Op.skip
  else if t.startsWith "P" then n.map Op.splice
  else if t.startsWith "L" then n.map Op.line
  else if t.startsWith "M" then n.map Op.record
  else none

def parseOps (t : String) : Option (List Op) :=
  if t = "-" then some [] else (t.splitOn ",").mapM parseOp

def parseOOp (t : String) : Option OOp :=
  if t = "f" then some .flush
  else if t.startsWith "h" then (t.drop 1).toString.toNat?.map OOp.hole
  else if t.startsWith "d" then (parseData (t.drop 1).toString).map OOp.data
  else none

def parseOOps (t : String) : Option (List OOp) :=
  if t = "-" then some [] else (t.splitOn ",").mapM parseOOp

/-! rendering -/

def errCode : Err → String
  | .ok => "0"
  | .io => "-" ++ toString Sqfs.Consts.errIo
  | .oob => "-" ++ toString Sqfs.Consts.errOutOfBounds
  | .compressor => "-" ++ toString Sqfs.Consts.errCompressor
  | .corrupted => "-" ++ toString Sqfs.Consts.errCorrupted
  | .fuel => "fuel"
  | .nullDeref => "nullderef"

def traceTok (os : OS) : String :=
  let calls := os.log.reverse
  let s := ";".intercalate (calls.map fun c => toString c.kind ++ ":" ++ toString c.req ++ ":" ++ toString c.pos)
  if calls.isEmpty then "-"
  else if s.length ≤ 120 then s
  else "#" ++ toString calls.length ++ ":" ++ hex64 (fnv64 s.toUTF8.toList)

def tail (os : OS) : String :=
  " left=" ++ toString os.sc.length ++ " trace=" ++ traceTok os

def gret : GRet → String
  | .ok => "0"
  | .eof => "1"
  | .fail e => errCode e

def showObs : Obs → String
  | .get r w => "g" ++ gret r ++ ":" ++ dtok w
  | .adv => "a"
  | .read (.n d) => "R" ++ toString d.length ++ ":" ++ dtok d
  | .read (.fail e) => "R" ++ errCode e
  | .skip e => "S" ++ errCode e
  | .splice .ok total => "P" ++ toString total
  | .splice e _ => "P" ++ errCode e
  | .line (.line l) ln => "L0:" ++ dtok l ++ ":" ++ toString ln
  | .line .eof ln => "L1:" ++ toString ln
  | .line (.fail e) ln => "L" ++ errCode e ++ ":" ++ toString ln
  | .record (some d) => "M:" ++ dtok d
  | .record none => "Mnull"

def showOstream (o : OStream) : String :=
  "out=" ++ dtok o.out ++ " size=" ++ toString o.size ++ " sparse=" ++ toString o.sparse ++
  " pos=" ++ toString (o.out.length + o.skew)

def tstate : TState → String
  | .ok => "0"
  | .eof => "1"
  | .err e => errCode e
  | .minus1 => "-1"

def nextRet : NextRet → String
  | .sequence => "-" ++ toString Sqfs.Consts.errSequence
  | .state s => tstate s
  | .header _ => "0"

def parseSparse (t : String) : Option (List SparseEnt) :=
  if t = "-" then some [] else
  (t.splitOn ",").mapM fun e =>
    match e.splitOn ":" with
    | [a, b] => do
      let x ← a.toNat?
      let y ← b.toNat?
      pure ⟨x, y⟩
    | _ => none

def showTarRun {σ : Type} (r : NextRet × List Obs × Option NextRet × TarIt σ × OStream × OS) : String :=
  match r with
  | (n1, obs, n2, it, _, _) =>
    "n1=" ++ nextRet n1 ++ " " ++ " ".intercalate (obs.map showObs) ++ (if obs.isEmpty then "" else " ") ++
    "n2=" ++ (match n2 with | some x => nextRet x | none => "-") ++
    " it=" ++ tstate it.state ++ "," ++ toString it.recordSize ++ "," ++ toString it.offset

/-- `nextLine` applied once per flags value, rendered like the `L` observations -/
def linesSpec : List Nat → Bytes → Nat → List String
  | [], _, _ => []
  | f :: fs, rest, ln =>
    match Sqfs.IoLoops.Spec.nextLine f rest ln with
    | (some l, rest', ln') => ("L0:" ++ dtok l ++ ":" ++ toString ln') :: linesSpec fs rest' ln'
    | (none, rest', ln') => ("L1:" ++ toString ln') :: linesSpec fs rest' ln'

def oopLen : OOp → Nat
  | .data d => d.length
  | .hole n => n
  | .flush => 0

def step (line : String) : String :=
  match words line with
  | ["readat", d, off, size, sc] =>
    match parseData d, off.toNat?, size.toNat?, parseScript sc with
    | some file, some off, some size, some sc =>
      match readAt file off size ⟨sc, []⟩ with
      | (e, buf, os) => "rc=" ++ errCode e ++ " buf=" ++ dtok buf ++ tail os
    | _, _, _, _ => "bad-op"
  | ["writeat", f, off, d, sc] =>
    match parseData f, off.toNat?, parseData d, parseScript sc with
    | some file, some off, some data, some sc =>
      match writeAt file file.length off data ⟨sc, []⟩ with
      | (e, file', sz, os) => "rc=" ++ errCode e ++ " file=" ++ dtok file' ++ " size=" ++ toString sz ++ tail os
    | _, _, _, _ => "bad-op"
  | ["ostream", fl, ops, sc] =>
    match parseOOps ops, parseScript sc with
    | some ops, some sc =>
      if fl = "S" ∨ fl = "N" then
        match runOOpsAll (OStream.init (fl = "N")) ops ⟨sc, []⟩ with
        | (es, o, os) => "rcs=" ++ (if es.isEmpty then "-" else ",".intercalate (es.map errCode)) ++ " " ++ showOstream o ++ tail os
      else
      if fl ≠ "s" ∧ fl ≠ "n" then "bad-op" else
      match runOOps 0 (OStream.init (fl = "n")) ops ⟨sc, []⟩ with
      | ((e, idx), o, os) => "rc=" ++ errCode e ++ "@" ++ toString idx ++ " " ++ showOstream o ++ tail os
    | _, _ => "bad-op"
  | ["istream", b, fl, d, ops, sc] =>
    match b.toNat?, parseData d, parseOps ops, parseScript sc with
    | some B, some data, some ops, some sc =>
      if (fl ≠ "s" ∧ fl ≠ "n") ∨ B = 0 then "bad-op" else
      match runOps (fileStream B) ⟨IStream.init data, OStream.init (fl = "n"), 0⟩ ops ⟨sc, []⟩ with
      | (obs, c, os) =>
        " ".intercalate (obs.map showObs) ++ (if obs.isEmpty then "" else " ") ++
        "st=" ++ (if c.s.eof then "1" else "0") ++ "," ++ toString c.s.off ++ "," ++ toString c.s.buf.length ++
        " " ++ showOstream c.o ++ " ln=" ++ toString c.ln ++ tail os
    | _, _, _, _ => "bad-op"
  | ["xistream", b, bx, fl, d, ops, sc] =>
    match b.toNat?, bx.toNat?, parseData d, parseOps ops, parseScript sc with
    | some B, some BX, some data, some ops, some sc =>
      if (fl ≠ "s" ∧ fl ≠ "n") ∨ B = 0 then "bad-op" else
      let limit := 4 * data.length + 1000
      match runOps (xfrmStream (fileStream B) toyCodec BX limit)
          ⟨⟨IStream.init data, 0, 0, []⟩, OStream.init (fl = "n"), 0⟩ ops ⟨sc, []⟩ with
      | (obs, c, os) =>
        " ".intercalate (obs.map showObs) ++ (if obs.isEmpty then "" else " ") ++
        "xst=" ++ toString c.s.off ++ "," ++ toString c.s.buf.length ++ "," ++ toString c.s.k ++
        " st=" ++ (if c.s.wrapped.eof then "1" else "0") ++ "," ++ toString c.s.wrapped.off ++ "," ++
        toString c.s.wrapped.buf.length ++
        " " ++ showOstream c.o ++ " ln=" ++ toString c.ln ++ tail os
    | _, _, _, _, _ => "bad-op"
  | ["xspec", b, bx, d, ops] =>
    match b.toNat?, bx.toNat?, parseData d, parseOps ops with
    | some B, some BX, some data, some ops =>
      if B = 0 then "bad-op" else
      let limit := 4 * data.length + 1000
      match runOps (xfrmStream (Sqfs.IoLoops.Spec.idealStream B data) toyCodec BX limit)
          ⟨⟨⟨0, 0⟩, 0, 0, []⟩, OStream.init false, 0⟩ ops OS.full with
      | (obs, c, _) =>
        " ".intercalate (obs.map showObs) ++ (if obs.isEmpty then "" else " ") ++
        "out=" ++ dtok c.o.out ++ " ln=" ++ toString c.ln
    | _, _, _, _ => "bad-op"
  | ["xostream", bx, fl, ops, sc] =>
    match bx.toNat?, parseOOps ops, parseScript sc with
    | some BX, some ops, some sc =>
      if fl ≠ "s" ∧ fl ≠ "n" then "bad-op" else
      let limit := 4 * (ops.map fun o => (oopLen o)).sum + 1000
      match xRunOOps toyCodec BX limit 0 ⟨OStream.init (fl = "n"), 0, []⟩ ops ⟨sc, []⟩ with
      | ((e, idx), x, os) =>
        "rc=" ++ errCode e ++ "@" ++ toString idx ++ " inbuf=" ++ toString x.inbuf.length ++ " k=" ++ toString x.k ++
        " " ++ showOstream x.o ++ tail os
    | _, _, _ => "bad-op"
  | ["tarstrm", b, fl, d, rs, fs, sp, ops, sc] =>
    match b.toNat?, parseData d, rs.toNat?, fs.toNat?, parseSparse sp, parseOps ops, parseScript sc with
    | some B, some data, some rs, some fs, some sp, some ops, some sc =>
      if (fl ≠ "s" ∧ fl ≠ "n") ∨ B = 0 then "bad-op" else
      match tarMemberRun (fileStream B) (IStream.init data) ⟨rs, fs, sp⟩ (OStream.init (fl = "n")) ops ⟨sc, []⟩ with
      | (n1, obs, n2, it, o, os) =>
        showTarRun (n1, obs, n2, it, o, os) ++
        " st=" ++ (if it.stream.eof then "1" else "0") ++ "," ++ toString it.stream.off ++ "," ++ toString it.stream.buf.length ++
        " " ++ showOstream o ++ tail os
    | _, _, _, _, _, _, _ => "bad-op"
  | ["xtarstrm", b, bx, fl, d, rs, fs, sp, ops, sc] =>
    match b.toNat?, bx.toNat?, parseData d, rs.toNat?, fs.toNat?, parseSparse sp, parseOps ops, parseScript sc with
    | some B, some BX, some data, some rs, some fs, some sp, some ops, some sc =>
      if (fl ≠ "s" ∧ fl ≠ "n") ∨ B = 0 then "bad-op" else
      let limit := 4 * data.length + 1000
      -- a failed probe or a first byte other than the toy magic: `tar_open_stream` reads the raw stream (not a tar
      -- archive here: outside the model; the harness prints the same token)
      if !tarOpenDetect (fileStream B) (IStream.init data) (fun w => w.head? = some 0xC1) ⟨sc, []⟩ then "z=0 unmodelled" else
      -- the compressed branch of `tar_open_stream`: probe on the raw stream, then the decompressing stream (toy
      -- decompressor `zCodec`) around it, `compressed = true`
      match tarMemberRunZ (fileStream B) zCodec 0 BX limit (IStream.init data) ⟨rs, fs, sp⟩
          (OStream.init (fl = "n")) ops ⟨sc, []⟩ with
      | (n1, obs, n2, it, o, os) =>
        showTarRun (n1, obs, n2, it, o, os) ++
        " z=" ++ (if it.compressed then "1" else "0") ++
        " xst=" ++ toString it.stream.off ++ "," ++ toString it.stream.buf.length ++ "," ++ toString it.stream.k ++
        " st=" ++ (if it.stream.wrapped.eof then "1" else "0") ++ "," ++ toString it.stream.wrapped.off ++ "," ++
        toString it.stream.wrapped.buf.length ++
        " " ++ showOstream o ++ tail os
    | _, _, _, _, _, _, _, _ => "bad-op"
  | ["xtarspec", b, bx, d, rs, fs, sp, ops] =>
    -- the same run over the ideal window stream (no buffer, no OS): the other side of
    -- `tar_member_run_decompressed_chunking_independent`
    match b.toNat?, bx.toNat?, parseData d, rs.toNat?, fs.toNat?, parseSparse sp, parseOps ops with
    | some B, some BX, some data, some rs, some fs, some sp, some ops =>
      if B = 0 then "bad-op" else
      let limit := 4 * data.length + 1000
      match tarMemberRunZ (Sqfs.IoLoops.Spec.idealStream B data) zCodec 0 BX limit ⟨0, 0⟩ ⟨rs, fs, sp⟩ (OStream.init false) ops OS.full with
      | (n1, obs, n2, it, o, os) => showTarRun (n1, obs, n2, it, o, os) ++ " out=" ++ dtok o.out
    | _, _, _, _, _, _, _ => "bad-op"
  | ["tarspec", b, d, rs, fs, sp, ops] =>
    match b.toNat?, parseData d, rs.toNat?, fs.toNat?, parseSparse sp, parseOps ops with
    | some B, some data, some rs, some fs, some sp, some ops =>
      if B = 0 then "bad-op" else
      match tarMemberRun (Sqfs.IoLoops.Spec.idealStream B data) ⟨0, 0⟩ ⟨rs, fs, sp⟩ (OStream.init false) ops OS.full with
      | (n1, obs, n2, it, o, os) => showTarRun (n1, obs, n2, it, o, os) ++ " out=" ++ dtok o.out
    | _, _, _, _, _, _ => "bad-op"
  | ["lines", fls, d] =>
    match (fls.splitOn ",").mapM (fun (t : String) => t.toNat?), parseData d with
    | some fl, some data => " ".intercalate (linesSpec fl data 0)
    | _, _ => "bad-op"
  | ["spec", b, d, ops] =>
    match b.toNat?, parseData d, parseOps ops with
    | some B, some data, some ops =>
      if B = 0 then "bad-op" else
      match runOps (Sqfs.IoLoops.Spec.idealStream B data) ⟨⟨0, 0⟩, OStream.init false, 0⟩ ops OS.full with
      | (obs, c, _) =>
        " ".intercalate (obs.map showObs) ++ (if obs.isEmpty then "" else " ") ++
        "out=" ++ dtok c.o.out ++ " ln=" ++ toString c.ln
    | _, _, _ => "bad-op"
  | _ => "bad-op"

def run (_args : List String) : IO Unit := do
  lineLoop (← IO.getStdin) (← IO.getStdout) step

end Driver.C12
