/-
Line-protocol driver for C17 (`sqfsmodel c17`).  One operation per input line, one result line each.

Sort file (`Sqfs/Model/Sort.lean`):
  decode <fix|cur> <line-hex>                       → skip | err <kind> | ok <prio> <flags> <g> <pattern-hex>
        g: 0 = exact, 1 = glob_no_path, 2 = glob (FNM_PATHNAME)
  sort <fix|cur> <nf> <path-hex>×nf <nl> <line-hex>×nl <matchbits|->
        matchbits: for every decoded glob line, in order, one '0'/'1' per file (in the given order): libc's
        fnmatch answer, supplied by the harness          → ok <path-hex>:<prio>:<flags> …  |  err <kind> <line-index>

Packing (`Sqfs/Spec/PackSpec.lean`, `Sqfs/Model/PackCur.lean`), stateful:
  pack-begin <B> <base>                              → ok        (resets codec table and file list)
  cmp <in-hex> <out-hex>                             → ok        (codec table: cmp in = some out; unlisted = none)
  file <flags> <data-hex>                            → ok
  pack-run <fix|cur>                                 → blocks … frags … files …   (see `showOut`)
  effective <notail 0/1> <B> <size> <flags>          → <flags'>  (option handling of mkfs.c / tar2sqfs)
  packflags <notail 0/1> <B> <size> <flags>          → <flags'>  (`packFileFlags` of Sqfs/Model/C17Mkfs.lean: the same on the C flag word)
  flagnames                                          → ok | differ  (the spelled-out flag names of Sort.lean = the source's strings)
  export <n> (<inum> <iref>)×n                       → <iref> …  (ideal export table `exportTable` after these calls, last = root)
  exptbl <off> <n> (<inum> <iref>)×n                 → ok <start> <file-hex> | err <kind>
        the export table as dir_writer.c builds and writes it (`Sqfs/Model/C17Export.lean`: array of capacity 512 that
        doubles, 0xFF fill, root = last pair, `sqfs_write_table` into a file that already holds <off> bytes; the
        metadata compressor is the `cmp` table): <start> = export_table_start, <file-hex> = the bytes appended
  number <k> <tok>…                                  → <N> <root> <n|-> …
        inode numbering of Sqfs/Model/Numbering.lean (`alloc_inode_num_dfs`, root last) for the tree whose root has the
        k children described in pre-order by the tokens `f` (any non-directory inode), `h` (hard-link entry), `d<m>`
        (directory followed by its m children); answer: inode count, then the numbers in the same pre-order (root first)
  sorttree <fix|cur> <nf> <path-hex>×nf <nl> <line-hex>×nl <matchbits|->
        `fstreeSortFiles` of Sqfs/Model/C17SortTree.lean on an fstree_t whose fs->files are these paths (split at '/');
        same answer format as `sort`
Monitor (the specification's read-back evaluated on a layout that the *implementation* produced), stateful:
  mon-begin <B> <base>                               → ok        (cmp table is shared with pack-begin's)
  mon-block <raw 0/1> <data-hex>                     → ok
  mon-frag <start> <size> <raw 0/1>                  → ok
  mon-read <size> <start> <fragidx|-> <fragoff> <w1,w2,…|->   → <data-hex>    (`readFile`)
  mon-effects (<flags> <size> <start> <fragidx|-> <fragoff> <sparse> <w1,…|->)×n  → ok | <clause>@… (`effectViolations`
        of Sqfs/Spec/Directives.lean on the implementation's per-file results, files in packing order, flags = effective flags)
-/
import Driver.Util
import Sqfs.Model.Sort
import Sqfs.Model.PackCur
import Sqfs.Spec.PackSpec
import Sqfs.Spec.Directives
import Sqfs.Model.C17Export
import Sqfs.Model.C17SortTree
import Sqfs.Model.C17Mkfs
namespace Driver.C17
open Sqfs Sqfs.Sort Sqfs.Pack

def showInt (i : Int) : String := toString i

/-- hex decoding without deep recursion (payloads of up to 1 MiB) -/
def hexNib (c : UInt8) : Option UInt8 :=
  if 48 ≤ c ∧ c ≤ 57 then some (c - 48)
  else if 97 ≤ c ∧ c ≤ 102 then some (c - 87)
  else if 65 ≤ c ∧ c ≤ 70 then some (c - 55)
  else none

def fromHexFast (s : String) : Option (List UInt8) :=
  if s = "-" then some []
  else
    let b := s.toUTF8
    if b.size % 2 ≠ 0 then none
    else Id.run do
      let mut out : Array UInt8 := Array.mkEmpty (b.size / 2)
      let mut ok := true
      for i in [0:b.size / 2] do
        match hexNib (b.get! (2 * i)), hexNib (b.get! (2 * i + 1)) with
        | some x, some y => out := out.push (x * 16 + y)
        | _, _ => ok := false
      return if ok then some out.toList else none

def hexChar (n : UInt8) : UInt8 := if n < 10 then 48 + n else 87 + n

def toHexFast (bs : List UInt8) : String :=
  if bs.isEmpty then "-"
  else
    let arr := bs.foldl (fun (a : ByteArray) b => (a.push (hexChar (b / 16))).push (hexChar (b % 16))) (ByteArray.emptyWithCapacity (2 * bs.length))
    String.fromUTF8! arr

def gOf (d : Directives) : Nat := if d.doGlob then (if d.pathGlob then 2 else 1) else 0

def mode? : String → Option Bool
  | "fix" => some true
  | "cur" => some false
  | _ => none

def opDecode (terminate : Bool) (raw : List UInt8) : String :=
  match decodeLine terminate raw with
  | .error e => "err " ++ e.name
  | .ok none => "skip"
  | .ok (some l) => s!"ok {showInt l.priority} {l.dir.flags} {gOf l.dir} {toHexFast l.pattern}"

def allSome : List (Option α) → Option (List α)
  | [] => some []
  | none :: _ => none
  | some a :: t => (allSome t).map (a :: ·)

/-- build the fnmatch answer table: one row of `nf` bits per decoded glob line -/
def buildTable (paths : List (List UInt8)) : List SortLine → List Char → Option (List ((Bool × List UInt8 × List UInt8) × Bool))
  | [], _ => some []
  | l :: ls, bits =>
    if l.dir.doGlob then
      if bits.length < paths.length then none
      else
        let row := bits.take paths.length
        let here := (paths.zip row).map (fun (p, b) => ((l.dir.pathGlob, l.pattern, p), b == '1'))
        (buildTable paths ls (bits.drop paths.length)).map (here ++ ·)
    else buildTable paths ls bits

def tableMatcher (tbl : List ((Bool × List UInt8 × List UInt8) × Bool)) : Matcher :=
  fun pg pat path => match tbl.find? (fun e => e.1 == (pg, pat, path)) with
    | some e => e.2
    | none => false

def opSort (terminate : Bool) (paths lines : List (List UInt8)) (bits : String) : String :=
  match decodeLines terminate 0 lines with
  | .error (e, i) => s!"err {e.name} {i}"
  | .ok ls =>
    match buildTable paths ls (if bits = "-" then [] else bits.toList) with
    | none => "bad-op"
    | some tbl =>
      match sortFiles terminate (tableMatcher tbl) lines paths with
      | .error (e, i) => s!"err {e.name} {i}"
      | .ok fs => "ok" ++ String.join (fs.map (fun f => s!" {toHexFast f.path}:{showInt f.priority}:{f.flags}"))

/-- a canonical path string → its components -/
def splitSlash (p : List UInt8) : List (List UInt8) :=
  let r := p.foldl (fun (acc : List (List UInt8) × List UInt8) c =>
    if c == 47 then (acc.1 ++ [acc.2], []) else (acc.1, acc.2 ++ [c])) ([], [])
  r.1 ++ [r.2]

def opSortTree (terminate : Bool) (paths lines : List (List UInt8)) (bits : String) : String :=
  match decodeLines terminate 0 lines with
  | .error (e, i) => s!"err {e.name} {i}"
  | .ok ls =>
    match buildTable paths ls (if bits = "-" then [] else bits.toList) with
    | none => "bad-op"
    | some tbl =>
      let R : Sqfs.FsTree.Result := { tree := default, inodes := [], files := paths.map splitSlash }
      match Sqfs.C17SortTree.fstreeSortFiles terminate (tableMatcher tbl) lines R with
      | .error (e, i) => s!"err {e.name} {i}"
      | .ok r =>
        if r.fs.files.map Sqfs.FsTree.joinPath != r.attrs.map (·.path) then "err files-and-attrs-out-of-step"
        else "ok" ++ String.join (r.attrs.map (fun f => s!" {toHexFast f.path}:{showInt f.priority}:{f.flags}"))

/-- `k` sibling trees from the token list (pre-order, `d<m>` = directory with `m` children) -/
partial def parseTrees : Nat → List String → Option (List Sqfs.Numbering.Tree × List String)
  | 0, rest => some ([], rest)
  | _ + 1, [] => none
  | k + 1, tok :: rest =>
    let one : Option (Sqfs.Numbering.Tree × List String) :=
      if tok = "f" then some (.file, rest)
      else if tok = "h" then some (.hlink 0, rest)
      else if tok.startsWith "d" then
        match (tok.drop 1).toNat? with
        | some m => (parseTrees m rest).map (fun r => (Sqfs.Numbering.Tree.dir r.1, r.2))
        | none => none
      else none
    match one with
    | none => none
    | some (t, rest') => (parseTrees k rest').map (fun r => (t :: r.1, r.2))

partial def showNums : Sqfs.Numbering.NTree → List String
  | .file n => [toString n]
  | .hlink _ => ["-"]
  | .dir n cs => toString n :: cs.flatMap showNums

structure St where
  B : Nat := 0
  base : Nat := 0
  table : List (List UInt8 × List UInt8) := []
  files : List InFile := []
  mblocks : List Stored := []
  mfrags : List FragEntry := []

def St.codec (s : St) : Codec :=
  { cmp := fun x => (s.table.find? (fun e => e.1 == x)).map (·.2)
    unc := fun z => match s.table.find? (fun e => e.2 == z) with
      | some e => e.1
      | none => [] }

/-- the driver's checksum: the layout does not depend on it unless `DONT_HASH` is mixed in, which the tools
never set (the dedup rule compares the bytes whenever the checksums agree) -/
def drvHash (d : List UInt8) : UInt32 := d.foldl (fun a b => a * 31 + b.toUInt32) 7

def St.params (s : St) : Params := { B := s.B, base := s.base, codec := s.codec, h := drvHash }

def b01 (b : Bool) : String := if b then "1" else "0"

def showWords (ws : List Word) : String :=
  if ws.isEmpty then "-" else ",".intercalate (ws.map (fun w => toString w.toNat))

def showFile (r : FileResult) : String :=
  let fr := match r.frag with
    | none => "-:0"
    | some (i, o) => s!"{i}:{o}"
  s!"{r.size}:{r.start}:{fr}:{r.sparse}:{b01 r.extended}:{b01 r.shared}:{showWords r.words}"

def showOut (o : Out) : String :=
  "blocks" ++ String.join (o.blocks.map (fun b => s!" {b01 b.raw}:{toHexFast b.data}"))
    ++ " frags" ++ String.join (o.frags.map (fun e => s!" {e.start}:{e.size}:{b01 e.raw}"))
    ++ " files" ++ String.join (o.files.map (fun r => " " ++ showFile r))

def parseWords (s : String) : Option (List Word) :=
  if s = "-" then some []
  else allSome ((s.splitOn ",").map (fun t => t.toNat?.map (fun n =>
    if n = 0 then Word.sparse else Word.stored (n % rawBit) (n / rawBit % 2 == 1))))

def natsPairs : List String → Option (List (Nat × UInt64))
  | [] => some []
  | [_] => none
  | a :: b :: t => do
    let x ← a.toNat?
    let y ← b.toNat?
    let r ← natsPairs t
    pure ((x, UInt64.ofNat y) :: r)

def flagsToNat (F : Flags) : Nat :=
  (if F.dontCompress then Consts.blkDontCompress else 0) + (if F.dontHash then Consts.blkDontHash else 0)
  + (if F.dontFragment then Consts.blkDontFragment else 0) + (if F.dontDedup then Consts.blkDontDeduplicate else 0)
  + (if F.ignoreSparse then Consts.blkIgnoreSparse else 0)

def parseEffFiles : List String → Option (List ((Flags × Nat) × FileResult))
  | [] => some []
  | fl :: sz :: st :: fi :: fo :: sp :: ws :: t => do
    let fl ← fl.toNat?
    let sz ← sz.toNat?
    let st ← st.toNat?
    let fo ← fo.toNat?
    let sp ← sp.toNat?
    let ws ← parseWords ws
    let frag ← if fi = "-" then some none else fi.toNat?.map (fun i => some (i, fo))
    let r ← parseEffFiles t
    pure (((Flags.ofNat fl, sz), ⟨sz, ws, st, frag, sp, false⟩) :: r)
  | _ => none

def step (s : St) (line : String) : St × String :=
  match words line with
  | ["flagnames"] => (s, if Sqfs.Sort.flagNamesOk then "ok" else "differ")
  | ["packflags", nt, b, sz, fl] =>      -- `pack_file` on the C flag word (Sqfs/Model/C17Mkfs.lean)
    match nt.toNat?, b.toNat?, sz.toNat?, fl.toNat? with
    | some nt, some b, some sz, some fl => (s, toString (Sqfs.C17Mkfs.packFileFlags (nt != 0) b sz fl))
    | _, _, _, _ => (s, "bad-op")
  | ["decode", m, h] =>
    match mode? m, fromHexFast h with
    | some t, some raw => (s, opDecode t raw)
    | _, _ => (s, "bad-op")
  | "sort" :: m :: nf :: rest =>
    match mode? m, nf.toNat? with
    | some t, some nf =>
      match allSome ((rest.take nf).map fromHexFast), (rest.drop nf) with
      | some paths, nl :: rest2 =>
        match nl.toNat? with
        | some nl =>
          match allSome ((rest2.take nl).map fromHexFast), rest2.drop nl with
          | some lines, [bits] =>
            if paths.length = nf ∧ lines.length = nl then (s, opSort t paths lines bits) else (s, "bad-op")
          | _, _ => (s, "bad-op")
        | none => (s, "bad-op")
      | _, _ => (s, "bad-op")
    | _, _ => (s, "bad-op")
  | ["pack-begin", b, base] =>
    match b.toNat?, base.toNat? with
    | some b, some base => ({ B := b, base := base }, "ok")
    | _, _ => (s, "bad-op")
  | ["cmp", i, o] =>
    match fromHexFast i, fromHexFast o with
    | some i, some o => ({ s with table := (i, o) :: s.table }, "ok")
    | _, _ => (s, "bad-op")
  | ["file", fl, d] =>
    match fl.toNat?, fromHexFast d with
    | some fl, some d => ({ s with files := s.files ++ [⟨Flags.ofNat fl, d⟩] }, "ok")
    | _, _ => (s, "bad-op")
  | ["pack-run", m] =>
    match mode? m with
    | some true => (s, showOut (specPack s.params s.files))
    | some false =>
      let r := PackCur.packCur s.params s.files
      (s, showOut r.1 ++ " d24 " ++ b01 r.2.1 ++ " d27 " ++ b01 r.2.2)
    | none => (s, "bad-op")
  | ["effective", nt, b, sz, fl] =>
    match nt.toNat?, b.toNat?, sz.toNat?, fl.toNat? with
    | some nt, some b, some sz, some fl => (s, toString (flagsToNat (effectiveFlags (nt != 0) b sz (Flags.ofNat fl))))
    | _, _, _, _ => (s, "bad-op")
  | "export" :: n :: rest =>
    match n.toNat?, natsPairs rest with
    | some n, some ps =>
      if ps.length = n ∧ n > 0 ∧ ps.all (fun p => p.1 ≥ 1) then
        (s, " ".intercalate ((exportTable ps.dropLast (ps.getLast?.getD (1, 0))).map (fun r => toString r.toNat)))
      else (s, "bad-op")
    | _, _ => (s, "bad-op")
  | "exptbl" :: off :: n :: rest =>
    match off.toNat?, n.toNat?, natsPairs rest with
    | some off, some n, some ps =>
      if ps.length = n ∧ n > 0 then
        let cmp : Sqfs.MetaWriter.Codec := fun x => (s.table.find? (fun e => e.1 == x)).map (·.2)
        let root := ps.getLast?.getD (1, 0)
        match Sqfs.C17Export.exportRun cmp ps.dropLast root.1 root.2 with
        | .error e => (s, "err " ++ e.name)
        | .ok w =>
          let f := Sqfs.C17Export.tableFile off w
          (s, s!"ok {f.2} {toHexFast f.1}")
      else (s, "bad-op")
    | _, _, _ => (s, "bad-op")
  | "number" :: k :: rest =>
    match k.toNat? with
    | some k =>
      match parseTrees k rest with
      | some (cs, []) =>
        let r := Sqfs.Numbering.numberRoot cs
        (s, " ".intercalate (toString r.2 :: showNums r.1))
      | _ => (s, "bad-op")
    | none => (s, "bad-op")
  | "sorttree" :: m :: nf :: rest =>
    match mode? m, nf.toNat? with
    | some t, some nf =>
      match allSome ((rest.take nf).map fromHexFast), (rest.drop nf) with
      | some paths, nl :: rest2 =>
        match nl.toNat? with
        | some nl =>
          match allSome ((rest2.take nl).map fromHexFast), rest2.drop nl with
          | some lines, [bits] =>
            if paths.length = nf ∧ lines.length = nl then (s, opSortTree t paths lines bits) else (s, "bad-op")
          | _, _ => (s, "bad-op")
        | none => (s, "bad-op")
      | _, _ => (s, "bad-op")
    | _, _ => (s, "bad-op")
  | ["mon-begin", b, base] =>
    match b.toNat?, base.toNat? with
    | some b, some base => ({ s with B := b, base := base, mblocks := [], mfrags := [] }, "ok")
    | _, _ => (s, "bad-op")
  | ["mon-block", r, d] =>
    match fromHexFast d with
    | some d => ({ s with mblocks := s.mblocks ++ [⟨r == "1", 0, d⟩] }, "ok")
    | none => (s, "bad-op")
  | ["mon-frag", st, sz, r] =>
    match st.toNat?, sz.toNat? with
    | some st, some sz => ({ s with mfrags := s.mfrags ++ [⟨st, sz, r == "1"⟩] }, "ok")
    | _, _ => (s, "bad-op")
  | ["mon-read", sz, st, fi, fo, ws] =>
    match sz.toNat?, st.toNat?, fo.toNat?, parseWords ws with
    | some sz, some st, some fo, some ws =>
      let frag := if fi = "-" then none else fi.toNat?.map (fun i => (i, fo))
      let o : Out := ⟨s.mblocks, s.mfrags, []⟩
      (s, toHexFast (readFile s.params o ⟨sz, ws, st, frag, 0, false⟩))
    | _, _, _, _ => (s, "bad-op")
  | "mon-effects" :: rest =>
    match parseEffFiles rest with
    | some fs =>
      let o : Out := ⟨s.mblocks, s.mfrags, fs.map (·.2)⟩
      let v := effectViolations s.B (fs.map (·.1)) o
      (s, if v.isEmpty then "ok" else " ".intercalate v)
    | none => (s, "bad-op")
  | _ => (s, "bad-op")

def run (_args : List String) : IO Unit := do
  stateLoop (← IO.getStdin) (← IO.getStdout) step ({} : St)

end Driver.C17
