import Driver.Util
namespace Driver.C17
/-- stub: the model driver for C17 is not built yet -/
def run (_args : List String) : IO Unit := do
  IO.eprintln "sqfsmodel: model C17 not built yet"
end Driver.C17
