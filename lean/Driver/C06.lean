import Driver.Util
namespace Driver.C06
/-- stub: the model driver for C06 is not built yet -/
def run (_args : List String) : IO Unit := do
  IO.eprintln "sqfsmodel: model C06 not built yet"
end Driver.C06
