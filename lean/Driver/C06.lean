import Driver.Util
import Sqfs.Model.Unpack
import Sqfs.Model.UnpackRepaired
/-
Line protocol of `sqfsmodel c06` (one request per line, one answer line):

  plan  FLAGS UPATH NODE…      → `<status> ev ev …`         (the plan of `unpackPlan`)
  exec  FLAGS UPATH NODE…      → `<status> sc=res … | st …` (the plan executed from a fresh R = /R)
  main  FLAGS UPATH ROOT CWD N FSENT{N} M FAULT{M} NODE…
                               → `exit:E est:B status:S chdir:C cwd:KEY pre:n sc=res{n} tr:m sc=res{m} | st …`
                                 (`unpackMain`: tree_sort, mkdir_p(ROOT), chdir(ROOT), the walks, from the given file
                                 system and working directory, with the given calls failing for reasons of the environment)
  mkdirp PATH                  → the strings `mkdir_p(PATH)` hands to `mkdir`, in order (`mkdirPCuts`)
  monitor RPATH N FSENT{N} SC… → `<verdict> res@key …`       (the model's POSIX semantics applied to an
                                                             *implementation* trace: specification monitor);
                                 a call written `SC!ERRNO` is taken to have failed with ERRNO for reasons of the
                                 environment (an unprivileged user's EPERM)

FLAGS  letters of C (chmod) O (chown) X (set-xattr) T (set-times) D S F L E (no-dev/sock/fifo/slink/empty-dir),
       n (the image has no xattr table: `xattr == NULL` in main), or `-`
ROOT   the `--unpack-root` argument in hex, `-` = the empty string, `~` = option not given
CWD    the working directory `rdsquashfs` is started in (absolute component path)
FAULT  `i=ERRNO`: call number `i` of the run (mkdir_p's calls, chdir, then the walks' calls) fails with ERRNO
STATUS `ok` | `err:<kind>@<create|fill|attr>` | `err:duplicate`
UPATH  the raw `--unpack-path` argument in hex (`-` = empty); it is canonicalised as options.c does
NODE   preorder: `K:NAME:PAYLOAD:PERM:UID:GID:MTIME:DEV:XATTRS:NCHILDREN[:COPYFAIL:XATTRFAIL[:DATASTART]]`, K ∈ d f l b c p s,
       NAME/PAYLOAD hex (`-` empty), XATTRS `-` or `khex=vhex,…`; COPYFAIL / XATTRFAIL `-` or a number (`Attr.copyFail`,
       `Attr.xattrFail`); the first node is the image's root (its NAME is ignored: "")
RPATH / keys  absolute component paths: `/` or `/hex/hex…`
FSENT  `key:d` | `key:f` | `key:l:TARGETHEX` | `key:s`
SC     as printed by `plan`
-/
namespace Driver.C06
open Sqfs.Path Sqfs.Unpack

def kindOfTok : String → Option Kind
  | "d" => some .dir | "f" => some .reg | "l" => some .lnk | "b" => some .blk
  | "c" => some .chr | "p" => some .fifo | "s" => some .sock | _ => none

def kindTok : Kind → String
  | .dir => "d" | .reg => "f" | .lnk => "l" | .blk => "b" | .chr => "c" | .fifo => "p" | .sock => "s"

def parseXattrs (s : String) : Option (List (Bytes × Bytes)) :=
  if s = "-" then some [] else
  (s.splitOn ",").mapM (fun kv => match kv.splitOn "=" with
    | [k, v] => do pure ((← fromHex k), (← fromHex v))
    | _ => none)

structure Flat where
  name : Bytes
  kind : Kind
  payload : Bytes
  attr : Attr
  nch : Nat

def parseOptNat (s : String) : Option (Option Nat) :=
  if s = "-" then some none else s.toNat?.map some

def parseNode (tok : String) : Option Flat :=
  let go (k n p perm uid gid mt dev xa nch cf xf loc : String) : Option Flat := do
    let k ← kindOfTok k
    let n ← fromHex n
    let p ← fromHex p
    let xa ← parseXattrs xa
    let perm ← perm.toNat?
    let uid ← uid.toNat?
    let gid ← gid.toNat?
    let mt ← mt.toNat?
    let dev ← dev.toNat?
    let nch ← nch.toNat?
    let cf ← parseOptNat cf
    let xf ← parseOptNat xf
    let loc ← loc.toNat?
    pure ⟨n, k, p, { perm := perm, uid := uid, gid := gid, mtime := mt, devno := dev, xattrs := xa, copyFail := cf, xattrFail := xf,
                     dataStart := loc }, nch⟩
  match tok.splitOn ":" with
  | [k, n, p, perm, uid, gid, mt, dev, xa, nch] => go k n p perm uid gid mt dev xa nch "-" "-" "0"
  | [k, n, p, perm, uid, gid, mt, dev, xa, nch, cf, xf] => go k n p perm uid gid mt dev xa nch cf xf "0"
  | [k, n, p, perm, uid, gid, mt, dev, xa, nch, cf, xf, loc] => go k n p perm uid gid mt dev xa nch cf xf loc
  | _ => none

/-- rebuild the tree from its preorder listing (fuel = number of tokens) -/
def build : Nat → List Flat → Option (TNode × List Flat)
  | 0, _ => none
  | _, [] => none
  | fuel + 1, f :: rest =>
    let rec kids (fuel : Nat) : Nat → List Flat → Option (List TNode × List Flat)
      | 0, r => some ([], r)
      | n + 1, r => match build fuel r with
        | none => none
        | some (c, r') => match kids fuel n r' with
          | none => none
          | some (cs, r'') => some (c :: cs, r'')
    match kids fuel f.nch rest with
    | none => none
    | some (cs, r) => some (.mk f.name f.kind f.payload f.attr cs, r)

def parseTree (toks : List String) : Option TNode := do
  let fl ← toks.mapM parseNode
  match build (fl.length + 1) fl with
  | some (t, []) => some t
  | _ => none

def parseFlags (s : String) : Option (Flags × TreeFlags) :=
  if s = "-" then some ({}, {}) else
  let l := s.toList
  if l.all (fun c => "COXTDSFLEn".toList.contains c) then
    some ({ chmod := l.contains 'C', chown := l.contains 'O', setXattr := l.contains 'X', setTimes := l.contains 'T',
            xattrRd := !l.contains 'n' },
          { noDev := l.contains 'D', noSock := l.contains 'S', noFifo := l.contains 'F', noSlink := l.contains 'L',
            noEmpty := l.contains 'E' })
  else none

/-- options.c `get_path`: the `-u` argument goes through `canonicalize_name`; `none` = "Invalid path", exit.
    `sqfs_dir_reader_get_full_hierarchy` then walks its non-empty components. -/
def parseUPath (s : String) : Option (Option (List Bytes)) := do
  let raw ← fromHex s
  match canonicalize raw with
  | none => pure none
  | some p => pure (some ((splitSlash p).filter (fun c => !c.isEmpty)))

def b2s (b : Bool) : String := if b then "1" else "0"

def scTok : Syscall → String
  | .mkdir p m => s!"mkdir:{toHexTok p}:{m}"
  | .symlink t p => s!"symlink:{toHexTok t}:{toHexTok p}"
  | .mknod p k m d => s!"mknod:{toHexTok p}:{kindTok k}:{m}:{d}"
  | .openExcl p m => s!"openx:{toHexTok p}:{m}"
  | .openTrunc p d => s!"opent:{toHexTok p}:{toHexTok d}"
  | .setxattr p k v nf => s!"setxattr:{toHexTok p}:{toHexTok k}:{toHexTok v}:{b2s nf}"
  | .utimens p t nf => s!"utimens:{toHexTok p}:{t}:{b2s nf}"
  | .chown p u g nf => s!"chown:{toHexTok p}:{u}:{g}:{b2s nf}"
  | .chmod p m => s!"chmod:{toHexTok p}:{m}"

def s2b (s : String) : Option Bool := if s = "1" then some true else if s = "0" then some false else none

def parseSc (tok : String) : Option Syscall :=
  match tok.splitOn ":" with
  | ["mkdir", p, m] => do pure (.mkdir (← fromHex p) (← m.toNat?))
  | ["symlink", t, p] => do pure (.symlink (← fromHex t) (← fromHex p))
  | ["mknod", p, k, m, d] => do pure (.mknod (← fromHex p) (← kindOfTok k) (← m.toNat?) (← d.toNat?))
  | ["openx", p, m] => do pure (.openExcl (← fromHex p) (← m.toNat?))
  | ["opent", p, d] => do pure (.openTrunc (← fromHex p) (← fromHex d))
  | ["setxattr", p, k, v, nf] => do pure (.setxattr (← fromHex p) (← fromHex k) (← fromHex v) (← s2b nf))
  | ["utimens", p, t, nf] => do pure (.utimens (← fromHex p) (← t.toNat?) (← s2b nf))
  | ["chown", p, u, g, nf] => do pure (.chown (← fromHex p) (← u.toNat?) (← g.toNat?) (← s2b nf))
  | ["chmod", p, m] => do pure (.chmod (← fromHex p) (← m.toNat?))
  | _ => none

def evTok : Ev → String
  | .sys s => scTok s
  | .skip n => s!"skip:{toHexTok n}"

def errTok : Err → String
  | .duplicate => "duplicate" | .corrupted => "corrupted" | .argInvalid => "argInvalid" | .canonFail => "canonFail"
  | .dataRead => "dataRead" | .xattrRead => "xattrRead"

def errnoTok : Errno → String
  | .ENOENT => "ENOENT" | .EEXIST => "EEXIST" | .ENOTDIR => "ENOTDIR" | .ELOOP => "ELOOP"
  | .ENAMETOOLONG => "ENAMETOOLONG" | .EISDIR => "EISDIR" | .EPERM => "EPERM" | .ENXIO => "ENXIO" | .EINVAL => "EINVAL"
  | .EACCES => "EACCES" | .ENOSPC => "ENOSPC" | .EIO => "EIO" | .EROFS => "EROFS" | .EDQUOT => "EDQUOT" | .ENOTSUP => "ENOTSUP"
  | .ENOSYS => "ENOSYS" | .EINTR => "EINTR" | .ENOMEM => "ENOMEM" | .EMFILE => "EMFILE" | .EBUSY => "EBUSY"

def parseErrno : String → Option Errno
  | "ENOENT" => some .ENOENT | "EEXIST" => some .EEXIST | "ENOTDIR" => some .ENOTDIR | "ELOOP" => some .ELOOP
  | "ENAMETOOLONG" => some .ENAMETOOLONG | "EISDIR" => some .EISDIR | "EPERM" => some .EPERM | "ENXIO" => some .ENXIO
  | "EINVAL" => some .EINVAL | "EACCES" => some .EACCES | "ENOSPC" => some .ENOSPC | "EIO" => some .EIO
  | "EROFS" => some .EROFS | "EDQUOT" => some .EDQUOT | "ENOTSUP" => some .ENOTSUP | "EOPNOTSUPP" => some .ENOTSUP
  | "ENOSYS" => some .ENOSYS | "EINTR" => some .EINTR | "ENOMEM" => some .ENOMEM | "EMFILE" => some .EMFILE
  | "EBUSY" => some .EBUSY
  | _ => none

def statusTok (o : Out) : String :=
  match o.err with | none => "ok" | some e => "err:" ++ errTok e

/-- status with the walk in which the plan's own error arises -/
def statusPhase (fl : Flags) (t : TNode) : String :=
  match treeSort t with
  | .error e => "err:" ++ errTok e
  | .ok t' =>
    match (restoreFstree fl t').err with
    | some e => "err:" ++ errTok e ++ "@create"
    | none => match (fillUnpacked ordByLoc t').err with
      | some e => "err:" ++ errTok e ++ "@fill"
      | none => match (updateAttribs fl t').err with
        | some e => "err:" ++ errTok e ++ "@attr"
        | none => "ok"

/-- `get_full_hierarchy` (lookup, decode) then the plan -/
def treeFor (upath : List Bytes) (raw : TNode) : Except String TNode :=
  -- the image's root node is created with the name "" (read_tree.c: `create_node(inode, "")`)
  let raw0 := match raw with | .mk _ k p a ch => TNode.mk [] k p a ch
  match lookup raw0 upath with
  | .error .noEntry => .error "lookup:noEntry"
  | .error .notDir => .error "lookup:notDir"
  | .ok sub => .ok sub

def planFor (fl : Flags × TreeFlags) (upath : List Bytes) (raw : TNode) : Except String Out :=
  match treeFor upath raw with
  | .error m => .error m
  | .ok sub => .ok (unpackPlanQ sub fl.1 fl.2)

def keyTok (k : PathC) : String :=
  if k.isEmpty then "/" else String.join (k.map (fun c => "/" ++ toHexTok c))

def parseKey (s : String) : Option PathC :=
  if s = "/" then some [] else
  match s.splitOn "/" with
  | "" :: r => r.mapM fromHex
  | _ => none

def nodeTok : Option Node → String
  | none => "-"
  | some ⟨.dir, a⟩ => s!"d:{a.perm}:{a.uid}:{a.gid}:{a.mtime}:{a.xattrs.length}"
  | some ⟨.file c, a⟩ => s!"f={toHexTok c}:{a.perm}:{a.uid}:{a.gid}:{a.mtime}:{a.xattrs.length}"
  | some ⟨.symlink t, a⟩ => s!"l={toHexTok t}:{a.perm}:{a.uid}:{a.gid}:{a.mtime}:{a.xattrs.length}"
  | some ⟨.special k d, a⟩ => s!"s={kindTok k}={d}:{a.perm}:{a.uid}:{a.gid}:{a.mtime}:{a.xattrs.length}"

/-- the fresh unpack root the `exec` op starts from: `/R` an empty directory -/
def rootR : PathC := [[82]]
def freshFs : Fs := fun q => if q = [] ∨ q = rootR then some ⟨.dir, { perm := 0o755 }⟩ else none

def resTok : Option Errno → String
  | none => "0" | some e => errnoTok e

def dedup (l : List PathC) : List PathC :=
  l.foldl (fun acc k => if acc.contains k then acc else acc ++ [k]) []

def doExec (o : Out) : String :=
  let scs := o.syscalls
  let (fs, tr) := execTrace rootR freshFs scs
  let keys := dedup (scs.map (fun sc => rootR ++ (splitSlash sc.path)))
  statusTok o ++ String.join (tr.map (fun (sc, r) => " " ++ scTok sc ++ "=" ++ resTok r))
    ++ " |" ++ String.join (keys.map (fun k => " " ++ keyTok k ++ "@" ++ nodeTok (fs k)))

def trTok (tr : List (Syscall × Option Errno)) : String :=
  String.join (tr.map (fun (sc, r) => " " ++ scTok sc ++ "=" ++ resTok r))

def parseFault (tok : String) : Option (Nat × Errno) :=
  match tok.splitOn "=" with
  | [i, e] => do pure ((← i.toNat?), (← parseErrno e))
  | _ => none

def faultsOf (l : List (Nat × Errno)) : Faults := fun i =>
  match l.find? (fun x => x.1 = i) with
  | some x => some x.2
  | none => none

def parseRoot (s : String) : Option (Option Bytes) :=
  if s = "~" then some none else (fromHex s).map some

def parseFsEnt (tok : String) : Option (PathC × Node) :=
  match tok.splitOn ":" with
  | [k, "d"] => do pure ((← parseKey k), ⟨.dir, {}⟩)
  | [k, "f"] => do pure ((← parseKey k), ⟨.file [], {}⟩)
  | [k, "s"] => do pure ((← parseKey k), ⟨.special .fifo 0, {}⟩)
  | [k, "l", t] => do pure ((← parseKey k), ⟨.symlink (← fromHex t), {}⟩)
  | _ => none

def fsOf (ents : List (PathC × Node)) : Fs := fun q =>
  match ents.find? (fun e => e.1 = q) with
  | some e => some e.2
  | none => none

def isUnder (R k : PathC) : Bool := R.isPrefixOf k && k != R

/-- run the model's `step` over an implementation trace; report each call's model result and the key it
    writes; verdict `escaped` iff a successful call wrote a key that is not strictly below R -/
def monitorGo (R : PathC) : Fs → List Syscall → Bool × List String
  | _, [] => (false, [])
  | fs, sc :: r =>
    let key := match resolve fs R sc.path sc.follows with
      | .ok (k, _) => keyTok k
      | .error _ => "?"
    match step fs R sc with
    | .ok fs' =>
      let esc := match resolve fs R sc.path sc.follows with
        | .ok (k, _) => !isUnder R k
        | .error _ => false
      let (e, t) := monitorGo R fs' r
      (esc || e, ("0@" ++ key) :: t)
    | .error er =>
      let (e, t) := monitorGo R fs r      -- the implementation decides whether it goes on; its next call is next
      (e, (errnoTok er ++ "@" ++ key) :: t)

def parseScF (tok : String) : Option (Syscall × Option Errno) :=
  match tok.splitOn "!" with
  | [sc] => do pure ((← parseSc sc), none)
  | [sc, e] => do pure ((← parseSc sc), some (← parseErrno e))
  | _ => none

/-- like `monitorGo`, with calls the environment made fail -/
def monitorGoF (R : PathC) : Fs → List (Syscall × Option Errno) → Bool × List String
  | _, [] => (false, [])
  | fs, (sc, flt) :: r =>
    let key := match resolve fs R sc.path sc.follows with
      | .ok (k, _) => keyTok k
      | .error _ => "?"
    match stepF flt fs R sc with
    | .ok fs' =>
      let esc := match resolve fs R sc.path sc.follows with
        | .ok (k, _) => !isUnder R k
        | .error _ => false
      let (e, t) := monitorGoF R fs' r
      (esc || e, ("0@" ++ key) :: t)
    | .error er =>
      let (e, t) := monitorGoF R fs r
      (e, (errnoTok er ++ "@" ++ key) :: t)

def doMonitor (toks : List String) : Option String :=
  match toks with
  | r :: n :: rest => do
    let R ← parseKey r
    let n ← n.toNat?
    let ents ← (rest.take n).mapM parseFsEnt
    let scs ← (rest.drop n).mapM parseScF
    let (esc, t) := monitorGoF R (fsOf ents) scs
    pure ((if esc then "escaped" else "confined") ++ String.join (t.map (" " ++ ·)))
  | _ => none

/-- `unpackMain` on the tree `get_full_hierarchy` returns -/
def doMain (repaired : Bool) (fl : Flags × TreeFlags) (sub : TNode) (root : Option Bytes) (cwd : PathC) (ents : List (PathC × Node))
    (faults : List (Nat × Errno)) : String :=
  let t := decode fl.2 sub
  -- `mainr`: the repaired `create_node` (mkdir/EEXIST accepted only if `lstat` says directory), `Sqfs/Model/UnpackRepaired.lean`
  let r := if repaired then unpackMainR ordByLoc fl.1 t root (faultsOf faults) (fun _ => false) cwd (fsOf ents)
           else unpackMain ordByLoc fl.1 t root (faultsOf faults) cwd (fsOf ents)
  let planPaths := match treeSort t with
    | .error _ => []
    | .ok t' => (planSorted ordByLoc fl.1 t').syscalls.map (fun sc => r.cwd ++ splitSlash sc.path)
  let keys := dedup (ents.map (·.1) ++ r.pre.map (fun x => cwd ++ splitSlash x.1.path) ++ [r.cwd] ++ planPaths)
  let chd := match r.chdirRes with | none => "-" | some none => "0" | some (some e) => errnoTok e
  s!"exit:{r.exit} est:{b2s r.established} status:{statusPhase fl.1 t} chdir:{chd} cwd:{keyTok r.cwd} pre:{r.pre.length}"
    ++ trTok r.pre ++ s!" tr:{r.trace.length}" ++ trTok r.trace
    ++ " |" ++ String.join (keys.map (fun k => " " ++ keyTok k ++ "@" ++ nodeTok (r.fs k)))

def doMainLine (repaired : Bool) (toks : List String) : Option String :=
  match toks with
  | fl :: up :: root :: cwd :: n :: rest => do
    let fl ← parseFlags fl
    let up ← parseUPath up
    let root ← parseRoot root
    let cwd ← parseKey cwd
    let n ← n.toNat?
    let ents ← (rest.take n).mapM parseFsEnt
    match rest.drop n with
    | m :: rest2 => do
      let m ← m.toNat?
      let faults ← (rest2.take m).mapM parseFault
      let t ← parseTree (rest2.drop m)
      match up with
      | none => pure "invalid-path"
      | some up =>
        match treeFor up t with
        | .error msg => pure msg
        | .ok sub => pure (doMain repaired fl sub root cwd ents faults)
    | [] => none
  | _ => none

def step (line : String) : String :=
  match words line with
  | "plan" :: fl :: up :: toks =>
    (match parseFlags fl, parseUPath up, parseTree toks with
     | some _, some none, some _ => "invalid-path"
     | some fl, some (some up), some t =>
       (match planFor fl up t with
        | .error m => m
        | .ok o => statusTok o ++ String.join (o.evs.map (" " ++ evTok ·)))
     | _, _, _ => "bad-op")
  | "exec" :: fl :: up :: toks =>
    (match parseFlags fl, parseUPath up, parseTree toks with
     | some _, some none, some _ => "invalid-path"
     | some fl, some (some up), some t =>
       (match planFor fl up t with
        | .error m => m
        | .ok o => doExec o)
     | _, _, _ => "bad-op")
  | "monitor" :: toks => (doMonitor toks).getD "bad-op"
  | "main" :: toks => (doMainLine false toks).getD "bad-op"
  | "mainr" :: toks => (doMainLine true toks).getD "bad-op"
  | ["mkdirp", p] =>
    (match fromHex p with
     | none => "bad-op"
     | some b => "cuts" ++ String.join ((mkdirPCuts b).map (fun c => " " ++ toHexTok c)))
  | _ => "bad-op"

def run (_args : List String) : IO Unit := do
  lineLoop (← IO.getStdin) (← IO.getStdout) step

end Driver.C06
