import Driver.Util
namespace Driver.C04
/-- stub: the model driver for C04 is not built yet -/
def run (_args : List String) : IO Unit := do
  IO.eprintln "sqfsmodel: model C04 not built yet"
end Driver.C04
