import Driver.Util
import Sqfs.Spec.TarNumber
namespace Driver.C04
open Sqfs.Tar

def showNum : Option Nat → String
  | none => "err"
  | some v => s!"ok {v}"

def withHex (h : String) (f : Bytes → String) : String :=
  match fromHex h with
  | some b => f b
  | none => "bad-op"

def step (line : String) : String :=
  match words line with
  | ["rn", h] => withHex h fun b => if b.isEmpty then "bad-op" else showNum (readNumber b)
  | ["rncur", h] => withHex h fun b => if b.isEmpty then "bad-op" else showNum (readNumberCur b)
  | ["rnspec", h] => withHex h fun b => if b.isEmpty then "bad-op" else showNum (specNumber b)
  | ["wn", v, w] =>
    match v.toNat?, w.toNat? with
    | some v, some w => if 2 ≤ w ∧ w ≤ 21 ∧ v < U64 then toHexTok (writeNumber v w) else "bad-op"
    | _, _ => "bad-op"
  | ["wns", v, w] =>
    match v.toInt?, w.toNat? with
    | some v, some w =>
      if 2 ≤ w ∧ w ≤ 21 ∧ -9223372036854775808 ≤ v ∧ v < 9223372036854775808 then toHexTok (writeNumberSigned v w) else "bad-op"
    | _, _ => "bad-op"
  | ["ck", h] => withHex h fun b => if b.length = 512 then toString (computeChecksum b) else "bad-op"
  | ["ckv", h] => withHex h fun b => if b.length = 512 then (if isChecksumValid b then "1" else "0") else "bad-op"
  | ["upd", h] => withHex h fun b => if b.length = 512 then toHexTok (updateChecksum b) else "bad-op"
  | _ => "bad-op"

def run (_args : List String) : IO Unit := do
  lineLoop (← IO.getStdin) (← IO.getStdout) step

end Driver.C04
