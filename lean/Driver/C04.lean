import Driver.Util
import Sqfs.Spec.TarNumber
import Sqfs.Model.TarSparse
import Sqfs.Model.TarConv
import Sqfs.Model.TarFix
import Sqfs.Model.TarSqfs2tar
import Sqfs.Spec.TarHeader
namespace Driver.C04
open Sqfs.Tar

def showNum : Option Nat → String
  | none => "err"
  | some v => s!"ok {v}"

def withHex (h : String) (f : Bytes → String) : String :=
  match fromHex h with
  | some b => f b
  | none => "bad-op"

def octStr (n : Nat) : String := String.ofList (Nat.toDigits 8 n)

def optHex : Option Bytes → String
  | none => "null"
  | some b => toHexTok b

def showPairs (l : List (Nat × Nat)) : String :=
  if l.isEmpty then "-" else ",".intercalate (l.map fun p => s!"{p.1}:{p.2}")

def showXattr (l : List (Bytes × Bytes)) : String :=
  if l.isEmpty then "-" else ",".intercalate (l.map fun p => toHexTok p.1 ++ ":" ++ toHexTok p.2)

def showDecoded (d : Decoded) : String :=
  s!"name={optHex d.name} link={optHex d.link} mode={octStr d.mode} uid={d.uid} gid={d.gid} maj={d.devMajor} min={d.devMinor} " ++
  s!"mtime={d.mtime} rsize={d.recordSize} asize={d.actualSize} unk={if d.unknown then 1 else 0} hl={if d.hardLink then 1 else 0} " ++
  s!"sparse={showPairs d.sparse} xattr={showXattr d.xattr}"

def parseOct (s : String) : Option Nat :=
  s.toList.foldl (fun acc c => match acc with
    | none => none
    | some a => if '0' ≤ c ∧ c ≤ '7' then some (a * 8 + (c.toNat - 48)) else none) (some 0)

def parseXattrs : List String → Option (List (Bytes × Bytes))
  | [] => some []
  | [_] => none
  | k :: v :: r => do
    let kb ← fromHex k
    let vb ← fromHex v
    let t ← parseXattrs r
    pure ((kb, vb) :: t)

/-- `enc <flags> <mode-octal> <uid> <gid> <size> <mtime> <maj> <min> <counter> <name> <target|null> {<key> <value>}` -/
def parseEnc (ws : List String) : Option (WEntry × Option Bytes × List (Bytes × Bytes) × Nat) :=
  match ws with
  | fl :: mo :: ui :: gi :: sz :: mt :: mj :: mi :: cn :: nm :: tg :: xs => do
    let fl ← fl.toNat?
    let mo ← parseOct mo
    let ui ← ui.toNat?
    let gi ← gi.toNat?
    let sz ← sz.toNat?
    let mt ← mt.toInt?
    let mj ← mj.toNat?
    let mi ← mi.toNat?
    let cn ← cn.toNat?
    let nm ← fromHex nm
    let tg ← if tg = "null" then some none else (fromHex tg).map some
    let xs ← parseXattrs xs
    pure ({ name := nm, mode := mo, uid := ui, gid := gi, size := sz, mtime := mt, devMajor := mj, devMinor := mi,
            hardLink := fl / 2 % 2 = 1 }, tg, xs, cn)
  | _ => none

def showRead (s : Bytes) : ReadResult → String
  | .eof => "eof"
  | .err => "err"
  | .ok d rest => "ok " ++ showDecoded d ++ s!" consumed={s.length - rest.length}"

/-- `enc` followed by `dec` on the writer's output + 1024 zero bytes (what `rt` does on the real code) -/
def roundTrip (w : Option Bytes) (cfg : ReadCfg) : String :=
  match w with
  | none => "err -"
  | some b => let s := b ++ zeros 1024; showRead s (readHeaderWith cfg s)

def showIter (es : List IterEntry) (e : IterEnd) : String :=
  let one (x : IterEntry) : String :=
    s!"name={toHexTok x.name} mode={octStr x.mode} flags={if x.hardLink then 2 else 0} uid={x.uid} gid={x.gid} mtime={x.mtime} size={x.size}" ++
    (if fmt x.mode = S_IFLNK then " link=" ++ optHex x.link else "") ++
    s!" maj={x.devMajor} min={x.devMinor} xattr={showXattr x.xattr}" ++
    (match x.data with
     | none => ""
     | some r => match r.ending with
       | .corrupted => " data=corrupted"
       | .eof => " data=" ++ (if r.out.length > 8192 then "big" else toHexTok r.out) ++ s!" len={r.out.length}")
  let body := " | ".intercalate (es.map one)
  (if es.isEmpty then "" else body ++ " | ") ++ (if e = .eof then "end=1" else "end=-1")

def describeNode (devs : List (List Bytes × Nat × Nat)) (n : TNode) : String :=
  let path := toHexTok (Sqfs.Path.joinSlash n.path)
  let perm := s!" 0{octStr (n.mode % 4096)} {n.uid} {n.gid}"
  let f := fmt n.mode
  if n.hardLink then "hardlink " ++ path ++ " " ++ optHex n.target
  else if f = S_IFDIR then "dir " ++ path ++ perm ++ s!" mtime={n.modTime}"
  else if f = S_IFLNK then "slink " ++ path ++ perm ++ s!" mtime={n.modTime} " ++ optHex n.target
  else if f = S_IFREG then "file " ++ path ++ perm ++ s!" mtime={n.modTime}"
  else if f = S_IFIFO then "pipe " ++ path ++ perm ++ s!" mtime={n.modTime}"
  else if f = S_IFSOCK then "sock " ++ path ++ perm ++ s!" mtime={n.modTime}"
  else
    let d := (devs.find? (·.1 = n.path)).getD (n.path, 0, 0)
    "nod " ++ path ++ perm ++ s!" mtime={n.modTime} " ++ (if f = S_IFCHR then "c" else "b") ++ s!" {d.2.1} {d.2.2}"

/-- `k:v,k:v` (hex tokens) or `-` -/
def parseXattrList (s : String) : Option (List (Bytes × Bytes)) :=
  if s = "-" then some [] else
  (s.splitOn ",").foldr (fun kv acc => match acc, kv.splitOn ":" with
    | some l, [k, v] => match fromHex k, fromHex v with
      | some kb, some vb => some ((kb, vb) :: l)
      | _, _ => none
    | _, _ => none) (some [])

/-- one listing entry: `name;mode-octal;uid;gid;mtime;inode;target|null;content;xattrs;maj;min` -/
def parseRawEnt (tok : String) : Option RawEnt :=
  match tok.splitOn ";" with
  | [nm, mo, ui, gi, mt, ino, tg, ct, xs, mj, mi] => do
    let nm ← fromHex nm
    let mo ← parseOct mo
    let ui ← ui.toNat?
    let gi ← gi.toNat?
    let mt ← mt.toNat?
    let ino ← ino.toNat?
    let tg ← if tg = "null" then some none else (fromHex tg).map some
    let ct ← fromHex ct
    let xs ← parseXattrList xs
    let mj ← mj.toNat?
    let mi ← mi.toNat?
    pure { name := nm, mode := mo, uid := ui, gid := gi, mtime := mt, inode := ino, target := tg, content := ct, xattr := xs,
           devMajor := mj, devMinor := mi }
  | _ => none

def parseAll {α : Type} (f : String → Option α) : List String → Option (List α)
  | [] => some []
  | x :: r => do
    let a ← f x
    let t ← parseAll f r
    pure (a :: t)

/-- `s2t <subdirs: hex,hex|-> <keep-as-dir> <root-becomes hex|null> <no-hard-links> <no-skip> <root: mode;uid;gid;mtime;xattrs> {entry}`:
    the bytes the model's sqfs2tar writes (`sqfs2tarFull`), or `fail` -/
def s2tOp (ws : List String) (entriesOnly : Bool) : String :=
  match ws with
  | sd :: kd :: rb :: nl :: ns :: root :: ents =>
    let sds := if sd = "-" then some [] else parseAll fromHex (sd.splitOn ",")
    let rbv := if rb = "null" then some none else (fromHex rb).map some
    let rootv : Option RootInfo := match root.splitOn ";" with
      | [mo, ui, gi, mt, xs] => do
        let mo ← parseOct mo
        let ui ← ui.toNat?
        let gi ← gi.toNat?
        let mt ← mt.toNat?
        let xs ← parseXattrList xs
        pure { mode := mo, uid := ui, gid := gi, mtime := mt, xattr := xs }
      | _ => none
    match sds, rbv, rootv, parseAll parseRawEnt ents with
    | some sds, some rbv, some rootv, some raw =>
      let o : S2tOpts := { subdirs := sds, keepAsDir := kd = "1", rootBecomes := rbv, noLinks := nl = "1", dontSkip := ns = "1" }
      if entriesOnly then
        " ".intercalate ((s2tEntries o rootv raw).map fun e =>
          toHexTok e.name ++ (if e.hardLink then ">" ++ optHex e.target else ""))
      else match sqfs2tarFull o rootv raw with
        | none => "fail"
        | some b => "ok " ++ toHexTok b
    | _, _, _, _ => "bad-op"
  | _ => "bad-op"

def step (line : String) : String :=
  match words line with
  | ["rn", h] => withHex h fun b => if b.isEmpty then "bad-op" else showNum (readNumber b)
  | ["rncur", h] => withHex h fun b => if b.isEmpty then "bad-op" else showNum (readNumberCur b)
  | ["rnspec", h] => withHex h fun b => if b.isEmpty then "bad-op" else showNum (specNumber b)
  | ["wn", v, w] =>
    match v.toNat?, w.toNat? with
    | some v, some w => if 2 ≤ w ∧ w ≤ 21 ∧ v < U64 then toHexTok (writeNumber v w) else "bad-op"
    | _, _ => "bad-op"
  | ["wns", v, w] =>
    match v.toInt?, w.toNat? with
    | some v, some w =>
      if 2 ≤ w ∧ w ≤ 21 ∧ -9223372036854775808 ≤ v ∧ v < 9223372036854775808 then toHexTok (writeNumberSigned v w) else "bad-op"
    | _, _ => "bad-op"
  | ["ck", h] => withHex h fun b => if b.length = 512 then toString (computeChecksum b) else "bad-op"
  | ["ckv", h] => withHex h fun b => if b.length = 512 then (if isChecksumValid b then "1" else "0") else "bad-op"
  | ["upd", h] => withHex h fun b => if b.length = 512 then toHexTok (updateChecksum b) else "bad-op"
  | ["pdl", n] => match n.toNat? with
    | some n => toString (prefixDigitLen n)
    | none => "bad-op"
  | "enc" :: ws => match parseEnc ws with
    | some (e, tg, xs, cn) => match writeTarHeader e tg xs cn with
      | some b => "ok " ++ toHexTok b
      | none => "err -"
    | none => "bad-op"
  | "encraw" :: ws => match parseEnc ws with                      -- xattr keys copied verbatim (before fixes/C04-xattr-key-escape.patch)
    | some (e, tg, xs, cn) => match writeTarHeaderRawKeys e tg xs cn with
      | some b => "ok " ++ toHexTok b
      | none => "err -"
    | none => "bad-op"
  | "rt" :: ws => match parseEnc ws with                          -- model-level round trip: write_tar_header, then read_header
    | some (e, tg, xs, cn) => roundTrip (writeTarHeader e tg xs cn) {}
    | none => "bad-op"
  | "rtraw" :: ws => match parseEnc ws with                       -- … of the code before fixes/C04-xattr-key-escape.patch
    | some (e, tg, xs, cn) => roundTrip (writeTarHeaderRawKeys e tg xs cn) { schilyKeyDecode := false }
    | none => "bad-op"
  | "rtspec" :: ws => match parseEnc ws with                      -- the specification: what the round trip must deliver (`decodedOf`)
    | some (e, tg, xs, cn) => match writeTarHeader e tg xs cn with
      | some b => "ok " ++ showDecoded (decodedOf e tg xs.reverse) ++ s!" consumed={b.length}"
      | none => "err -"
    | none => "bad-op"
  | "enccur" :: ws => match parseEnc ws with
    | some (e, tg, xs, cn) =>
      let (b, ok) := writeTarHeaderCur e tg xs cn
      (if ok then "ok " else "err ") ++ toHexTok b
    | none => "bad-op"
  | ["dec", h] => withHex h fun s => showRead s (readHeader s)
  | ["decx", r, k, d, o, h] => withHex h fun s =>
    showRead s (readHeaderWith { rejectOversizedMap := r = "1", xattrKeepOrder := k = "1", schilyKeyDecode := d = "1",
                                 oldSparseBase256 := o = "1" } s)
  | ["canonip", h] => withHex h fun s => let (b, ok) := canonInPlace s; (if ok then "0 " else "-1 ") ++ toHexTok b
  | "s2t" :: ws => s2tOp ws false
  | "s2tents" :: ws => s2tOp ws true                      -- the entries `main` gets: emitted name, `>target` for a hard link
  | [op, rb, sflag, kflag, dmt, duid, dgid, dmode, h] =>
    if op ≠ "t2s" ∧ op ≠ "t2scur" then "bad-op" else
    match fromHex rb, dmt.toNat?, duid.toNat?, dgid.toNat?, parseOct dmode, fromHex h with
    | some rb, some dmt, some duid, some dgid, some dmode, some s =>
      let o : ConvOpts := { rootBecomes := if rb.isEmpty then none else some rb, noSymlinkRetarget := sflag = "1",
                            keepTime := kflag ≠ "1", defMtime := dmt, defUid := duid, defGid := dgid, defMode := dmode }
      let (es, e) := iterate s
      if e ≠ .eof then "fail"
      else match convertWith (if op = "t2s" then processEntry else processEntryCur) o es with
        | none => "fail"
        | some (t, devs) => if storable t then "ok " ++ ";".intercalate (t.map (describeNode devs)) else "fail"
    | _, _, _, _, _, _ => "bad-op"
  | ["iter", h] => withHex h fun s => let (es, e) := iterate s; showIter es e
  | ["iterw", w, h] => match w.toNat? with                          -- the caller reads in requests of `w` bytes
    | some w => if w < 1 ∨ w > 65536 then "bad-op" else withHex h fun s => let (es, e) := iterateWith {} s w; showIter es e
    | none => "bad-op"
  | ["iterx", r, k, d, o, h] => withHex h fun s =>
    let (es, e) := iterateWith { rejectOversizedMap := r = "1", xattrKeepOrder := k = "1", schilyKeyDecode := d = "1",
                                 oldSparseBase256 := o = "1" } s; showIter es e
  | _ => "bad-op"

def run (_args : List String) : IO Unit := do
  lineLoop (← IO.getStdin) (← IO.getStdout) step

end Driver.C04
