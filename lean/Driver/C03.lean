import Driver.Util
import Sqfs.Model.ImageValidate
import Sqfs.Model.DirWriter
import Sqfs.Model.MetaWriter
import Sqfs.Model.IdTable
import Sqfs.Model.Finish
import Sqfs.Model.Numbering
import Sqfs.Model.C03FsDir
import Sqfs.Model.C03Inode
/-!
`sqfsmodel c03 <mode>`

* `parse`            stdin: `unz` description → canonical tree description (JSON lines)
* `validate [dev]`   stdin: `unz` description (+ `d` answers) → `viol <code> <detail>` lines + `summary`
* `blockreq [all]`   stdin: `unz` description → `blk` request lines for `unz -b`
* `ops`              line protocol, the writer-piece models on the same lines as `harness/h_c03.c`
-/
namespace Driver.C03
open Sqfs.Image

partial def readAll (h : IO.FS.Stream) (acc : Array String) : IO (Array String) := do
  let line ← h.getLine
  if line.isEmpty then return acc
  readAll h (acc.push line)

/-! ### writer-piece ops -/
section Ops
open Sqfs.DirWriter Sqfs.MetaWriter Sqfs.IdTable Sqfs.Consts

/-- test codecs, mirrored in harness/h_c03.c -/
def rawCodec : Codec := fun _ => none

def toyCodec : Codec := fun x =>
  match x with
  | [] => none
  | b :: _ => if x.length ≥ 4 ∧ x.all (· == b) then some [b, UInt8.ofNat (x.length % 256), UInt8.ofNat (x.length / 256 % 256)] else none

/-- off-contract codec (same function as `Sqfs.C03.Witness.lz4Short`) -/
def growCodec : Codec := fun x =>
  if 0 < x.length ∧ x.length < 13 then some (UInt8.ofNat (x.length * 16) :: x) else none

/-- content dependent, invertible: a trailing run of 4..65535 equal bytes becomes [byte, run lo, run hi] -/
def trailCodec : Codec := fun x =>
  match x.reverse with
  | [] => none
  | c :: _ =>
    let k := (x.reverse.takeWhile (· == c)).length
    if k < 4 ∨ k > 65535 then none
    else some (x.take (x.length - k) ++ [c, UInt8.ofNat (k % 256), UInt8.ofNat (k / 256)])

def codecByName : String → Option Codec
  | "raw" => some rawCodec
  | "toy" => some toyCodec
  | "grow" => some growCodec
  | "trail" => some trailCodec
  | _ => none

def parseEntConseq (tok : String) : Option DEnt :=
  match tok.splitOn "/" with
  | [r, n, t, nm] => do
    let name ← fromHex nm
    pure ⟨← r.toNat?, ← n.toNat?, ← t.toNat?, name⟩
  | _ => none

def octal (s : String) : Option Nat :=
  s.toList.foldl (fun acc c => acc.bind (fun a => if '0' ≤ c ∧ c ≤ '7' then some (a * 8 + (c.toNat - 48)) else none)) (some 0)

/-- (name, num, ref, mode) -/
def parseEntDirw (tok : String) : Option (List UInt8 × Nat × Nat × Nat) :=
  match tok.splitOn "/" with
  | [nm, n, r, m] => do
    let name ← fromHex nm
    pure (name, ← n.toNat?, ← r.toNat?, (← octal m) % 65536)
  | _ => none

def addAllEntries (old : Bool) : List (List UInt8 × Nat × Nat × Nat) → Nat → List DEnt → Except String (List DEnt)
  | [], _, acc => .ok acc.reverse
  | (nm, n, r, m) :: rest, i, acc =>
    let res := if old then
        (match getType m with
         | none => AddResult.unsupported
         | some t => if nm = [] ∨ n % 4294967296 < 1 then .argInvalid else .ok ⟨r, n % 4294967296, t, nm⟩)
      else addEntry nm (n % 4294967296) r m
    match res with
    | .ok e => addAllEntries old rest (i + 1) (e :: acc)
    | .unsupported => .error s!"err -{errUnsupported} at {i}"
    | .argInvalid => .error s!"err -{errArgInvalid} at {i}"

/-- the `sqfs_meta_writer_append` calls the harness makes to put `n` filler bytes in front (chunks of at most 8 KiB) -/
def prefill (cmp : Codec) (fill : UInt8) : Nat → Nat → St → St
  | 0, _, st => st
  | f + 1, n, st => if n = 0 then st else
      let k := min n 8192
      prefill cmp fill f (n - k) (append cmp st (List.replicate k fill))

def le16b (v : Nat) : List UInt8 := [UInt8.ofNat (v % 256), UInt8.ofNat (v / 256 % 256)]

def le64b (v : Nat) : List UInt8 :=
  le16b (v % 65536) ++ le16b (v / 65536 % 65536) ++ le16b (v / 4294967296 % 65536) ++ le16b (v / 281474976710656 % 65536)

def blocksBytes (bs : List Block) : List UInt8 := (bs.map (fun b => le16b b.header ++ b.stored)).flatten

def inodeText (ino : DirInode) : String :=
  if ino.ext then
    let idx := if ino.index.isEmpty then "-" else
      ",".intercalate (ino.index.map (fun (i, b, n) => s!"{i};{b};{toHexTok n}"))
    s!"inode=ext {ino.nlink} {ino.size} {ino.startBlock} {ino.offset} {ino.parent} {ino.xattr} n={ino.index.length % 65536} idx={idx}"
  else
    s!"inode=basic {ino.nlink} {ino.size} {ino.startBlock} {ino.offset} {ino.parent} idx=-"

def opDirw (old : Bool) (off0 hlinks xattr parent : Nat) (ents : List (List UInt8 × Nat × Nat × Nat)) : String :=
  match addAllEntries old ents 0 [] with
  | .error e => e
  | .ok es =>
    let st0 := prefill rawCodec 0 (off0 + 1) off0 {}
    let (runs, _) := dirEndM rawCodec st0 es
    let bytes := (runs.map encodeRun).flatten
    let ref := dirRefOf st0
    let ino := createInodeCap (if old then none else some maxIndex) ref runs es.length hlinks xattr parent
    s!"ok {toHexTok bytes} size={dirSizeOf runs} ref={ref} count={es.length} {inodeText ino}"

/-- `dirx`: the dir writer on a meta writer with a shrinking codec, optionally KEEP_IN_MEMORY, optionally with the
export table; prints the directory table as it ends up in the file -/
def opDirx (cmp : Codec) (keep exp : Bool) (off0 hlinks xattr parent rootNum rootRef : Nat)
    (ents : List (List UInt8 × Nat × Nat × Nat)) : String :=
  match addAllEntries false ents 0 [] with
  | .error e => e
  | .ok es =>
    let st0 := prefill cmp 0x55 (off0 + 1) off0 {}
    let (runs, st1) := dirEndM cmp st0 es
    let ref := dirRefOf st0
    let ino := createInode ref runs es.length hlinks xattr parent
    let k : FSt := (FSt.ofSt (if keep then metaWriterKeepInMemory else 0) st1).flush cmp
    let before := outBytes k.file
    let k := k.writeToFile
    let tbl := blocksBytes k.file
    let expTxt :=
      if exp then
        if rootNum < 1 then s!" export=err -{errArgInvalid}" else
        let t := exportTable (es.map (fun e => (e.inodeNum, e.inodeRef))) rootNum rootRef
        let w := writeTableM cmp tbl.length (t.map le64b).flatten
        s!" export start={w.start} {toHexTok (blocksBytes w.blocks ++ (w.locs.map le64b).flatten)}"
      else ""
    s!"ok filebefore={before} table={toHexTok tbl} size={dirSizeOf runs} ref={ref} count={es.length} {inodeText ino}{expTxt}"

def opTable (cmp : Codec) (base : Nat) (data : List UInt8) : String :=
  let w := writeTableM cmp base data
  let locs := if w.locs.isEmpty then "-" else ",".intercalate (w.locs.map toString)
  s!"start={w.start} locs={locs} file={toHexTok (blocksBytes w.blocks ++ (w.locs.map le64b).flatten)}"

def opMeta (cmp : Codec) (chunks : List (List UInt8)) : String :=
  let st := chunks.foldl (append cmp) {}
  let fin := flush cmp st
  s!"pos={st.blockOffset},{st.cur.length} end={fin.blockOffset},{fin.cur.length} {toHexTok (blocksBytes fin.out)}"

/-- the same on a writer created with KEEP_IN_MEMORY, followed by `sqfs_meta_write_write_to_file` -/
def opMetaKeep (cmp : Codec) (chunks : List (List UInt8)) : String :=
  let k := chunks.foldl (FSt.append cmp) { flags := metaWriterKeepInMemory }
  let fin := k.flush cmp
  let w := fin.writeToFile
  s!"pos={k.blockOffset},{k.cur.length} end={fin.blockOffset},{fin.cur.length} filebefore={outBytes fin.file} {toHexTok (blocksBytes w.file)}"

def opIds (lim : Nat) (ids : List Nat) (range : Bool) : String :=
  let rec go : List Nat → Nat → List Nat → List Nat → List Nat × List Nat × Option Nat
    | [], _, tbl, acc => (tbl, acc.reverse, none)
    | id :: rest, k, tbl, acc =>
      match step lim tbl id with
      | none => (tbl, acc.reverse, some k)
      | some (i, t) => go rest (k + 1) t (storedIndex i :: acc)
  let (tbl, idx, fail) := go ids 0 [] []
  let head := if range then s!"idx sum={idx.foldl (· + ·) 0}" else "idx" ++ String.join (idx.map (fun i => s!" {i}"))
  match fail with
  | some k => s!"{head} overflow-at={k}"
  | none =>
    let bytes := (tbl.map (fun v => le16b (v % 65536) ++ le16b (v / 65536 % 65536))).flatten
    let w := writeTableM rawCodec 0 bytes
    s!"{head} id_count={superIdCount tbl} table_bytes={w.start}"

def parseTbl (s : String) : Option (Option Sqfs.Finish.Tbl) :=
  if s == "-" then some none else
  match (s.splitOn ",").mapM String.toNat? with
  | some [a, b] => some (some ⟨a, b⟩)
  | _ => none

def parseXTbl (s : String) : Option (Option Sqfs.Finish.XTbl) :=
  if s == "-" then some none else
  match (s.splitOn ",").mapM String.toNat? with
  | some [a, b, c] => some (some ⟨a, b, c⟩)
  | _ => none

def opFinish (ws : List String) : String :=
  match ws with
  | [de, ib, db, fr, ex, id, xa, dv] =>
    match de.toNat?, ib.toNat?, db.toNat?, parseTbl fr, parseTbl ex, parseTbl id, parseXTbl xa, dv.toNat? with
    | some de, some ib, some db, some fr, some ex, some (some id), some xa, some dv =>
      let l := Sqfs.Finish.finish ⟨de, ib, db, fr, ex, id, xa, dv⟩
      s!"{l.inodeTable} {l.dirTable} {l.fragTable} {l.exportTable} {l.idTable} {l.xattrTable} {l.bytesUsed} {l.fileSize}"
    | _, _, _, _, _, _, _, _ => "bad-op"
  | _ => "bad-op"

section Num
open Sqfs.Numbering

/-- leading decimal digits of the input (none: 0) and the rest -/
def takeNum : Nat → List Char → Nat × List Char
  | acc, c :: r => if '0' ≤ c ∧ c ≤ '9' then takeNum (acc * 10 + (c.toNat - 48)) r else (acc, c :: r)
  | acc, [] => (acc, [])

/-- spec → forest; returns the rest of the input after a `)` or at the end.  `h<k>` = hard link to the `k`-th `f` -/
def parseForest : Nat → List Char → Option (List Tree × List Char)
  | 0, _ => none
  | _ + 1, [] => some ([], [])
  | _ + 1, ')' :: r => some ([], ')' :: r)
  | f + 1, 'f' :: r => (parseForest f r).map (fun (ts, r') => (Tree.file :: ts, r'))
  | f + 1, 'h' :: r =>
    let (k, r1) := takeNum 0 r
    (parseForest f r1).map (fun (ts, r') => (Tree.hlink k :: ts, r'))
  | f + 1, '(' :: r =>
    match parseForest f r with
    | some (cs, ')' :: r1) => (parseForest f r1).map (fun (ts, r') => (Tree.dir cs :: ts, r'))
    | _ => none
  | _ + 1, _ => none

mutual
def showT : NTree → String
  | .file n => toString n
  | .hlink _ => "-"
  | .dir n cs => "(" ++ showL cs ++ ")" ++ toString n
def showL : List NTree → String
  | [] => ""
  | [t] => showT t
  | t :: r => showT t ++ " " ++ showL r
end

mutual
def maxLinkT : NTree → Nat
  | .file _ => 0
  | .hlink k => k + 1
  | .dir _ cs => maxLinkL cs
def maxLinkL : List NTree → Nat
  | [] => 0
  | t :: r => max (maxLinkT t) (maxLinkL r)
end

/-- `num`: `fstree_post_process` (DFS numbering, then `reorder_hard_links`): the tree with the final inode numbers -/
def opNum (spec : String) : String :=
  match parseForest (spec.length + 2) spec.toList with
  | some (cs, []) =>
    let r := numberRoot cs
    if maxLinkT r.1 > (filesT r.1).length then "bad-op" else
    let arr := postProcess cs
    s!"{showT (renumT arr r.1)} count={r.2}"
  | _ => "bad-op"

end Num

section Names
open Sqfs.C03FsDir

/-- `names`: `fstree_add_generic` per name below one directory, then the children in list order and the link count -/
def opNames (names : List (List UInt8)) : String :=
  let step := fun (acc : Dir × List String) (n : List UInt8) =>
    match addChild acc.1 n with
    | .ok d => (d, "0" :: acc.2)
    | .error .eexist => (acc.1, "EEXIST" :: acc.2)
    | .error .emlink => (acc.1, "EMLINK" :: acc.2)
  let (d, rcs) := names.foldl step ({}, [])
  let order := if d.children.isEmpty then "-" else ",".intercalate (d.children.map toHexTok)
  s!"rc={",".intercalate rcs.reverse} order={order} link={d.linkCount}"

end Names

section Inode
open Sqfs.C03Inode

/-- `fino`: a sequence of inode.c operations on a fresh file inode: S<size> B<start> F<idx>,<off> X<xattr> P<sparse>
e (make_extended) b (make_basic) -/
def inoStep (i : FileInode) (tok : String) : Option FileInode :=
  let arg := (tok.drop 1).toString
  match tok.toList.head? with
  | some 'S' => arg.toNat?.map (fun v => setFileSize i (v % 18446744073709551616))
  | some 'B' => arg.toNat?.map (fun v => setBlockStart i (v % 18446744073709551616))
  | some 'X' => arg.toNat?.map (fun v => setXattr i (v % 4294967296))
  | some 'P' => arg.toNat?.map (fun v => addSparse i (v % 4294967296))
  | some 'F' => match (arg.splitOn ",").mapM String.toNat? with
    | some [a, b] => some (setFragLocation i (a % 4294967296) (b % 4294967296))
    | _ => none
  | some 'e' => if arg.isEmpty then some (makeExtended i) else none
  | some 'b' => if arg.isEmpty then some (makeBasic i) else none
  | _ => none

def opFino (toks : List String) : String :=
  match toks.foldl (fun (acc : Option FileInode) t => acc.bind (fun i => inoStep i t)) (some fresh) with
  | none => "bad-op"
  | some (.basic st fi fo sz) => s!"basic start={st} size={sz} frag={fi},{fo}"
  | some (.ext st sz sp nl fi fo x) => s!"ext start={st} size={sz} sparse={sp} nlink={nl} frag={fi},{fo} xattr={x}"

end Inode

def boolTok : String → Option Bool
  | "0" => some false
  | "1" => some true
  | _ => none

def opStep (line : String) : String :=
  match words line with
  | "finish" :: ws => opFinish ws
  | ["pad", size, bs] =>
    match size.toNat?, bs.toNat? with
    | some sz, some b => if b = 0 then "bad-op" else s!"pad={Sqfs.Finish.padSize sz b} rc=0"
    | _, _ => "bad-op"
  | ["num"] => opNum ""
  | ["num", spec] => opNum spec
  | "fino" :: toks => opFino toks
  | "names" :: ns =>
    match ns.mapM fromHex with
    | some names => if names.any (·.isEmpty) then "bad-op" else opNames names
    | none => "bad-op"
  | "conseq" :: off :: ents =>
    match off.toNat?, ents.mapM parseEntConseq with
    | some o, some es => if es.isEmpty then "bad-op" else toString (conseqCount o es)
    | _, _ => "bad-op"
  | "dirw" :: off0 :: hl :: xa :: par :: ents =>
    match off0.toNat?, hl.toNat?, xa.toNat?, par.toNat?, ents.mapM parseEntDirw with
    | some o, some h, some x, some p, some es => opDirw false o h (x % 4294967296) (p % 4294967296) es
    | _, _, _, _, _ => "bad-op"
  | "dirwold" :: off0 :: hl :: xa :: par :: ents =>
    match off0.toNat?, hl.toNat?, xa.toNat?, par.toNat?, ents.mapM parseEntDirw with
    | some o, some h, some x, some p, some es => opDirw true o h (x % 4294967296) (p % 4294967296) es
    | _, _, _, _, _ => "bad-op"
  | "dirx" :: c :: keep :: exp :: off0 :: hl :: xa :: par :: rn :: rr :: ents =>
    match codecByName c, boolTok keep, boolTok exp, [off0, hl, xa, par, rn, rr].mapM String.toNat?, ents.mapM parseEntDirw with
    | some c, some k, some e, some [o, h, x, p, rn, rr], some es =>
      opDirx c k e o h (x % 4294967296) (p % 4294967296) (rn % 4294967296) (rr % 18446744073709551616) es
    | _, _, _, _, _ => "bad-op"
  | ["table", c, base, h] =>
    match codecByName c, base.toNat?, fromHex h with
    | some c, some b, some d => opTable c b d
    | _, _, _ => "bad-op"
  | "meta" :: c :: chunks =>
    match codecByName c, chunks.mapM fromHex with
    | some c, some chunks => opMeta c chunks
    | _, _ => "bad-op"
  | "metak" :: c :: chunks =>
    match codecByName c, chunks.mapM fromHex with
    | some c, some chunks => opMetaKeep c chunks
    | _, _ => "bad-op"
  | ["blk", c, fl, h] => match codecByName c, fl.toNat?, fromHex h with
    | some c, some f, some d =>
      let r := processBlock c ⟨f, d⟩
      let w := completedWords r
      let tok := fun (o : Option Nat) => match o with | some v => toString v | none => "-"
      s!"{r.flags} {toHexTok r.data} iw={tok w.1} fw={tok w.2}"
    | _, _, _ => "bad-op"
  | "ids" :: ids => match ids.mapM String.toNat? with
    | some ids => opIds limit (ids.map (· % 4294967296)) false
    | none => "bad-op"
  | "idsold" :: ids => match ids.mapM String.toNat? with
    | some ids => opIds 0x10000 (ids.map (· % 4294967296)) false
    | none => "bad-op"
  | ["idsrange", n] => match n.toNat? with
    | some n => opIds limit (List.range n) true
    | none => "bad-op"
  | ["idsrangeold", n] => match n.toNat? with
    | some n => opIds 0x10000 (List.range n) true
    | none => "bad-op"
  | ["lz4short", h] => match fromHex h with
    | some d => match growCodec d with
      | some c => s!"ret={c.length} out={toHexTok c}"
      | none => "uncovered"
    | none => "bad-op"
  | _ => "bad-op"

end Ops

def run (args : List String) : IO Unit := do
  let out ← IO.getStdout
  match args with
  | ["parse"] =>
    let d := Description.ofLines (← readAll (← IO.getStdin) #[])
    for l in parseReport d do out.putStrLn l
  | ["validate"] =>
    let d := Description.ofLines (← readAll (← IO.getStdin) #[])
    for l in validateReport d do out.putStrLn l
  | ["validate", n] =>
    let d := Description.ofLines (← readAll (← IO.getStdin) #[])
    for l in validateReport d (n.toNat?.getD 4096) do out.putStrLn l
  | ["blockreq"] =>
    let d := Description.ofLines (← readAll (← IO.getStdin) #[])
    for l in blockRequests d false do out.putStrLn l
  | ["blockreq", "all"] =>
    let d := Description.ofLines (← readAll (← IO.getStdin) #[])
    for l in blockRequests d true do out.putStrLn l
  | ["ops"] => lineLoop (← IO.getStdin) out opStep
  | _ => IO.eprintln "usage: sqfsmodel c03 parse | validate [devblk] | blockreq [all] | ops"

end Driver.C03
