import Driver.Util
import Sqfs.Model.ImageValidate
namespace Driver.C03
open Sqfs.Image

partial def readAll (h : IO.FS.Stream) (acc : Array String) : IO (Array String) := do
  let line ← h.getLine
  if line.isEmpty then return acc
  readAll h (acc.push line)

def run (args : List String) : IO Unit := do
  let out ← IO.getStdout
  match args with
  | ["parse"] =>
    let d := Description.ofLines (← readAll (← IO.getStdin) #[])
    for l in parseReport d do out.putStrLn l
  | ["validate"] =>
    let d := Description.ofLines (← readAll (← IO.getStdin) #[])
    for l in validateReport d do out.putStrLn l
  | ["validate", n] =>
    let d := Description.ofLines (← readAll (← IO.getStdin) #[])
    for l in validateReport d (n.toNat?.getD 4096) do out.putStrLn l
  | ["blockreq"] =>
    let d := Description.ofLines (← readAll (← IO.getStdin) #[])
    for l in blockRequests d false do out.putStrLn l
  | ["blockreq", "all"] =>
    let d := Description.ofLines (← readAll (← IO.getStdin) #[])
    for l in blockRequests d true do out.putStrLn l
  | _ => IO.eprintln "usage: sqfsmodel c03 parse|validate|blockreq|<op lines>"

end Driver.C03
