import Driver.Util
namespace Driver.C03
/-- stub: the model driver for C03 is not built yet -/
def run (_args : List String) : IO Unit := do
  IO.eprintln "sqfsmodel: model C03 not built yet"
end Driver.C03
