import Driver.Util
namespace Driver.C13
/-- stub: the model driver for C13 is not built yet -/
def run (_args : List String) : IO Unit := do
  IO.eprintln "sqfsmodel: model C13 not built yet"
end Driver.C13
