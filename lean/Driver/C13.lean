import Driver.Util
import Sqfs.Model.FailStop
import Sqfs.Model.FailStopBlockProc
import Sqfs.Spec.FailStop
namespace Driver.C13
open Sqfs.FailStop

def siteName : Site → String
  | .openStdin => "openStdin" | .tarOpen => "tarOpen" | .compCfg => "compCfg" | .openOut => "openOut" | .openHandle => "openHandle"
  | .fsDefaults => "fsDefaults" | .fstreeInit => "fstreeInit" | .cmpCreate => "cmpCreate"
  | .uncmpCreate => "uncmpCreate" | .superInit => "superInit" | .superWrite => "superWrite"
  | .cmpOptions => "cmpOptions" | .blkwrCreate => "blkwrCreate" | .fragtblCreate => "fragtblCreate"
  | .procCreate => "procCreate" | .idtblCreate => "idtblCreate" | .xwrCreate => "xwrCreate"
  | .imCreate => "imCreate" | .dmCreate => "dmCreate" | .dirwrCreate => "dirwrCreate"
  | .selinuxOpen => "selinuxOpen" | .xattrMapOpen => "xattrMapOpen" | .sortfileOpen => "sortfileOpen"
  | .dirIterCreate => "dirIterCreate" | .scanDir => "scanDir" | .fstreeFromFile => "fstreeFromFile"
  | .postProcess => "postProcess" | .applyXattrs => "applyXattrs" | .sortFiles => "sortFiles"
  | .chdirPack => "chdirPack" | .packFile i => s!"packFile:{i}" | .sparseTail i => s!"sparseTail:{i}"
  | .tarNext i => s!"tarNext:{i}" | .tarEntry i => s!"tarEntry:{i}"
  | .procFinish => "procFinish" | .serialize => "serialize" | .fragTable => "fragTable"
  | .exportAddRoot => "exportAddRoot" | .exportWrite => "exportWrite" | .idTable => "idTable"
  | .xattrFlush => "xattrFlush" | .superRewrite => "superRewrite" | .pad => "pad"

def msgName : Msg → String
  | .waiting => "waiting" | .inodes => "inodes" | .fragtbl => "fragtbl" | .exporttbl => "exporttbl"
  | .idtbl => "idtbl" | .xattrs => "xattrs"

def joinOr (l : List String) : String := if l.isEmpty then "-" else ",".intercalate l

def parseCfg (tool flags nf ns : String) : Option Cfg := do
  let t ← if tool = "gen" then some Tool.gensquashfs else if tool = "t2s" then some Tool.tar2sqfs else none
  let n ← nf.toNat?
  let s ← ns.toNat?
  let has := fun (c : Char) => flags.toList.contains c
  if flags.toList.any (fun c => !("sxopdenq-".toList.contains c)) then none else
  some { tool := t, selinux := has 's', xattrFile := has 'x', sortFile := has 'o', packFile := has 'p',
         packDir := has 'd', exportable := has 'e', noXattr := has 'n', quiet := has 'q', nfiles := n, sparseTails := s }

def parseVariant (s : String) : Option Variant :=
  if s = "cur" then some .current else if s = "fix" then some .fixed else none

/-- a fault spec is `-`, or a comma separated list of site names / `@position` -/
def parseFaults (c : Cfg) (s : String) : Option (List Nat) :=
  if s = "-" then some [] else
  (s.splitOn ",").mapM fun tok =>
    if tok.startsWith "@" then (tok.drop 1).toNat?
    else
      let names := (program c).map siteName
      let i := names.findIdx (· == tok)
      if i < names.length then some i else none

def scriptOf (ps : List Nat) : List Bool :=
  let m := ps.foldl max 0
  if ps.isEmpty then [] else (List.range (m + 1)).map (fun i => ps.contains i)

def outName : OutFile → String
  | .never => "never" | .present => "present" | .unlinked => "unlinked"

def showResult (r : Result) : String :=
  let dmg := r.trace.ops.any (fun o => match o with | .damaged _ => true | _ => false)
  let diag := match r.trace.failed with | some s => diagOnFail s | none => false
  s!"status={r.status} out={outName r.out} cleanup={if r.cleanupReached then 1 else 0} finish={if r.finishOk then 1 else 0} failed={match r.trace.failed with | some s => siteName s | none => "-"} swallowed={joinOr (r.trace.swallowed.map siteName)} msgs={joinOr (r.trace.msgs.map msgName)} nops={r.trace.ops.length} damaged={if dmg then 1 else 0} diag={if diag then 1 else 0} ran={r.trace.ran.length}"

def bit (s : String) : Option Bool := if s = "1" then some true else if s = "0" then some false else none

/-! ### second layer: block processor sessions -/
open Sqfs.FailStop.BP in
def primName : BP.Prim → String
  | .inodeAlloc => "inodeAlloc" | .allocBlock => "allocBlock" | .allocFragCopy => "allocFragCopy"
  | .submit => "submit" | .poolDequeue => "poolDequeue" | .writeBlock => "writeBlock"
  | .growSparseBlock => "growSparseBlock" | .growDataBlock => "growDataBlock" | .growSparseTail => "growSparseTail"
  | .fragTableSet => "fragTableSet" | .fragLookup => "fragLookup" | .fragTableAppend => "fragTableAppend"
  | .allocChunk => "allocChunk" | .htInsert => "htInsert"

/-- `B<i><d>`, `A<n>:<z><d>` (z: all zero, d: duplicate of an earlier fragment), `E`, `S`, `F` -/
def parseApi (tok : String) : Option BP.Api :=
  match tok.toList with
  | ['B', i, d] => some (.beginFile (i == '1') (d == '1'))
  | ['E'] => some .endFile
  | ['S'] => some .sync
  | ['F'] => some .finish
  | 'A' :: rest =>
    match (String.ofList rest).splitOn ":" with
    | [n, fl] => match n.toNat?, fl.toList with
      | some n, [z, d] => some (.append n (z == '1') (d == '1'))
      | _, _ => none
    | _ => none
  | _ => none

def BPFUEL : Nat := 100000

/-- run calls fault-free up to call `j`, then call `j` with a fault at the first primitive of one of `kinds`;
    answers the results of calls 0..j and the primitive kinds call `j` executes -/
def bpFaultAt (v : Variant) (calls : List BP.Api) (j : Nat) (kinds : List String) : String :=
  let rec go (i : Nat) (cs : List BP.Api) (p : BP.Proc) (acc : List String) : String :=
    match cs with
    | [] => "short " ++ " ".intercalate acc
    | a :: rest =>
      if i < j then
        match BP.runCall v BPFUEL a p [] with
        | (r, _, p') => if r.ok then go (i + 1) rest p' (acc ++ ["ok"]) else "early-error " ++ " ".intercalate (acc ++ ["err"])
      else
        match BP.runCall v BPFUEL a p [] with
        | (r0, _, _) =>
          let names := r0.prims.map primName
          let idx := names.findIdx (fun n => kinds.contains n)
          if idx ≥ names.length then "nokind prims=" ++ joinOr names
          else
            match BP.runCall v BPFUEL a p (List.replicate idx false ++ [true]) with
            | (r, _, _) =>
              s!"{" ".intercalate (acc ++ [if r.ok then "ok" else "err"])} faulted={if r.faulted then 1 else 0} damaged={if r.damaged then 1 else 0} err={match r.err with | some .fault => "fault" | some .fuel => "fuel" | some .sequence => "sequence" | some .internal => "internal" | none => "-"} prims={joinOr names}"
  go 0 calls {} []

def bpFaultFree (v : Variant) (calls : List BP.Api) : String :=
  let rs := BP.session v BPFUEL calls {} []
  " ".intercalate (rs.map fun r => (if r.ok then "ok" else "err") ++ "/" ++ toString r.prims.length)

def step (line : String) : String :=
  match words line with
  | ["run", v, tool, flags, nf, ns, faults] =>
    match parseVariant v, parseCfg tool flags nf ns with
    | some v, some c =>
      match parseFaults c faults with
      | some ps => showResult (run v c (scriptOf ps))
      | none => "bad-op"
    | _, _ => "bad-op"
  | ["bp", v, j, kinds, calls] =>
    match parseVariant v, j.toNat?, (calls.splitOn ",").mapM parseApi with
    | some v, some j, some cs => bpFaultAt v cs j (kinds.splitOn "|")
    | _, _, _ => "bad-op"
  | ["bpfree", v, calls] =>
    match parseVariant v, (calls.splitOn ",").mapM parseApi with
    | some v, some cs => bpFaultFree v cs
    | _, _ => "bad-op"
  | ["sites", tool, flags, nf, ns] =>
    match parseCfg tool flags nf ns with
    | some c => joinOr ((program c).map siteName)
    | none => "bad-op"
  | ["monitor", crashed, exit0, diag, packer, left, same] =>
    match bit crashed, bit exit0, bit diag, bit packer, bit left, bit same with
    | some a, some b, some c, some d, some e, some f => Spec.verdict ⟨a, b, c, d, e, f⟩
    | _, _, _, _, _, _ => "bad-op"
  | _ => "bad-op"

def run (_args : List String) : IO Unit := do
  lineLoop (← IO.getStdin) (← IO.getStdout) step

end Driver.C13
