import Driver.Util
import Sqfs.Model.FailStop
import Sqfs.Model.FailStopBlockProc
import Sqfs.Spec.FailStop
namespace Driver.C13
open Sqfs.FailStop

def siteName : Site → String
  | .openStdin => "openStdin" | .tarOpen => "tarOpen" | .compCfg => "compCfg" | .openOut => "openOut" | .openHandle => "openHandle"
  | .fsDefaults => "fsDefaults" | .fstreeInit => "fstreeInit" | .cmpCreate => "cmpCreate"
  | .uncmpCreate => "uncmpCreate" | .superInit => "superInit" | .superWrite => "superWrite"
  | .cmpOptions => "cmpOptions" | .blkwrCreate => "blkwrCreate" | .fragtblCreate => "fragtblCreate"
  | .procCreate => "procCreate" | .idtblCreate => "idtblCreate" | .xwrCreate => "xwrCreate"
  | .imCreate => "imCreate" | .dmCreate => "dmCreate" | .dirwrCreate => "dirwrCreate"
  | .realpathOut => "realpathOut"
  | .selinuxOpen => "selinuxOpen" | .xattrMapOpen => "xattrMapOpen" | .sortfileOpen => "sortfileOpen"
  | .dirIterCreate => "dirIterCreate" | .scanDir => "scanDir" | .fstreeFromFile => "fstreeFromFile"
  | .postProcess => "postProcess" | .applyXattrs => "applyXattrs" | .sortFiles => "sortFiles"
  | .chdirPack => "chdirPack" | .nodePath i => s!"nodePath:{i}" | .packFile i => s!"packFile:{i}"
  | .tarNext i => s!"tarNext:{i}" | .tarReadLink i => s!"tarReadLink:{i}" | .tarEntry i => s!"tarEntry:{i}"
  | .procFinish => "procFinish" | .serialize => "serialize" | .fragTable => "fragTable"
  | .exportAddRoot => "exportAddRoot" | .exportWrite => "exportWrite" | .idTable => "idTable"
  | .xattrFlush => "xattrFlush" | .superRewrite => "superRewrite" | .pad => "pad"
  | .sOpenStdout => "sOpenStdout" | .sXfrmCreate => "sXfrmCreate" | .sXfrmWrap => "sXfrmWrap" | .sIterCreate => "sIterCreate"
  | .sHlFilter => "sHlFilter" | .sNext i => s!"sNext:{i}" | .sEntry i => s!"sEntry:{i}" | .sTerminate => "sTerminate"
  | .sFlush => "sFlush"
  | .rOpen => "rOpen" | .rSuper => "rSuper" | .rCmpCreate => "rCmpCreate" | .rXattrCreate => "rXattrCreate"
  | .rXattrLoad => "rXattrLoad" | .rIdCreate => "rIdCreate" | .rIdRead => "rIdRead" | .rDirReader => "rDirReader"
  | .rDataReader => "rDataReader" | .rFragTable => "rFragTable" | .rHierarchy => "rHierarchy" | .rStat => "rStat"
  | .rCatStream => "rCatStream" | .rCatStdout => "rCatStdout" | .rSplice i => s!"rSplice:{i}" | .rTreeSort => "rTreeSort"
  | .rMkdirP => "rMkdirP" | .rChdir => "rChdir" | .rRestore => "rRestore" | .rFill => "rFill" | .rAttribs => "rAttribs"
  | .rDescribe => "rDescribe" | .rDumpXattrs => "rDumpXattrs" | .rStdoutFlush => "rStdoutFlush"

def msgName : Msg → String
  | .waiting => "waiting" | .inodes => "inodes" | .fragtbl => "fragtbl" | .exporttbl => "exporttbl"
  | .idtbl => "idtbl" | .xattrs => "xattrs"

def joinOr (l : List String) : String := if l.isEmpty then "-" else ",".intercalate l

/-- entries of a tar archive: one letter each — n node, l link, s skipped, k skipped link; `-` = none -/
def parseEntries (s : String) : Option (List TarEnt) :=
  if s = "-" then some [] else
  s.toList.mapM fun ch =>
    if ch = 'n' then some {} else if ch = 'l' then some { link := true }
    else if ch = 's' then some { skipped := true } else if ch = 'k' then some { link := true, skipped := true } else none

/-- flags: s selinux, x xattr file, o sort file, p pack file, d pack dir, c pack dir = cwd, r relative output,
    e exportable, n no xattrs, q quiet -/
def parseCfg (tool flags nf ents : String) : Option Cfg := do
  let t ← if tool = "gen" then some Tool.gensquashfs else if tool = "t2s" then some Tool.tar2sqfs else none
  let n ← nf.toNat?
  let es ← parseEntries ents
  let has := fun (c : Char) => flags.toList.contains c
  if flags.toList.any (fun c => !("sxopdcrenq-".toList.contains c)) then none else
  some { tool := t, selinux := has 's', xattrFile := has 'x', sortFile := has 'o', packFile := has 'p',
         packDir := has 'd', packDirIsCwd := has 'c', relOut := has 'r', exportable := has 'e', noXattr := has 'n',
         quiet := has 'q', nfiles := n, entries := es }

/-- sqfs2tar: flags c compressed, L no hard links; n = entries.
    rdsquashfs: exactly one of l s c u d x (operation), N image without xattrs, p unpack root; n = splice calls -/
def parseRCfg (tool flags nf : String) : Option RCfg := do
  let n ← nf.toNat?
  let has := fun (c : Char) => flags.toList.contains c
  if tool = "s2t" then
    if flags.toList.any (fun c => !("cL-".toList.contains c)) then none else
    some { sqfs2tar := true, compressed := has 'c', noLinks := has 'L', nentries := n }
  else if tool = "rd" then
    if flags.toList.any (fun c => !("lscudxNp-".toList.contains c)) then none else
    let op ← if has 'l' then some RdOp.ls else if has 's' then some RdOp.stat else if has 'c' then some RdOp.cat
             else if has 'u' then some RdOp.unpack else if has 'd' then some RdOp.describe
             else if has 'x' then some RdOp.rdattr else none
    some { sqfs2tar := false, hasXattrs := !has 'N', op := op, unpackRoot := has 'p', nsplice := n }
  else none

def parseVariant (s : String) : Option Variant :=
  if s = "cur" then some .current else if s = "fix" then some .fixed else if s = "old" then some .beforeRealpath
  else if s = "snap" then some .snapshot else none

/-- a fault spec is `-`, or a comma separated list of site names / `@position` -/
def parseFaults (prog : List Site) (s : String) : Option (List Nat) :=
  if s = "-" then some [] else
  (s.splitOn ",").mapM fun tok =>
    if tok.startsWith "@" then (tok.drop 1).toNat?
    else
      let names := prog.map siteName
      let i := names.findIdx (· == tok)
      if i < names.length then some i else none

def scriptOf (ps : List Nat) : List Bool :=
  let m := ps.foldl max 0
  if ps.isEmpty then [] else (List.range (m + 1)).map (fun i => ps.contains i)

def outName : OutFile → String
  | .never => "never" | .present => "present" | .unlinked => "unlinked"

def showResult (v : Variant) (r : Result) : String :=
  let dmg := r.trace.ops.any (fun o => match o with | .damaged _ => true | _ => false)
  let diag := match r.trace.failed with | some s => diagOnFail v s | none => false
  let ul := match r.unlinkHit with | none => "none" | some true => "hit" | some false => "miss"
  s!"status={r.status} out={outName r.out} cleanup={if r.cleanupReached then 1 else 0} finish={if r.finishOk then 1 else 0} failed={match r.trace.failed with | some s => siteName s | none => "-"} swallowed={joinOr (r.trace.swallowed.map siteName)} msgs={joinOr (r.trace.msgs.map msgName)} nops={r.trace.ops.length} damaged={if dmg then 1 else 0} diag={if diag then 1 else 0} unlink={ul} cwd={if r.trace.cwd == .pack then "pack" else "start"} ran={joinOr (r.trace.ran.map siteName)}"

def showRResult (r : RResult) : String :=
  s!"status={r.status} lost={if r.stdoutLost then 1 else 0} failed={match r.trace.failed with | some s => siteName s | none => "-"} diag={if r.trace.failed.isSome then 1 else 0} ran={joinOr (r.trace.ran.map siteName)}"

def bit (s : String) : Option Bool := if s = "1" then some true else if s = "0" then some false else none

/-! ### second layer: block processor sessions -/
open Sqfs.FailStop.BP in
def primName : BP.Prim → String
  | .inodeAlloc => "inodeAlloc" | .allocBlock => "allocBlock" | .allocFragCopy => "allocFragCopy"
  | .submit => "submit" | .poolDequeue => "poolDequeue" | .storeLocation => "storeLocation" | .writeAt => "writeAt"
  | .dedupRead => "dedupRead" | .dedupTruncate => "dedupTruncate"
  | .growSparseBlock => "growSparseBlock" | .growDataBlock => "growDataBlock" | .growSparseTail => "growSparseTail"
  | .fragTableSet => "fragTableSet" | .fragLookup => "fragLookup" | .fragTableAppend => "fragTableAppend"
  | .allocChunk => "allocChunk" | .htInsert => "htInsert"

/-- `B<i><d><n><b>` (with inode, dont_fragment, dont_deduplicate, data blocks duplicate earlier ones),
    `A<n>:<z><d>` (z: all zero, d: duplicate of an earlier fragment), `E`, `S`, `F` -/
def parseApi (tok : String) : Option BP.Api :=
  match tok.toList with
  | ['B', i, d] => some (.beginFile (i == '1') (d == '1') false false)
  | ['B', i, d, n, b] => some (.beginFile (i == '1') (d == '1') (n == '1') (b == '1'))
  | ['E'] => some .endFile
  | ['S'] => some .sync
  | ['F'] => some .finish
  | 'A' :: rest =>
    match (String.ofList rest).splitOn ":" with
    | [n, fl] => match n.toNat?, fl.toList with
      | some n, [z, d] => some (.append n (z == '1') (d == '1'))
      | _, _ => none
    | _ => none
  | _ => none

def BPFUEL : Nat := 100000

/-- run calls fault-free up to call `j`, then call `j` with a fault at the first primitive of one of `kinds`;
    answers the results of calls 0..j and the primitive kinds call `j` executes -/
def bpFaultAt (v : Variant) (calls : List BP.Api) (j : Nat) (kinds : List String) : String :=
  let rec go (i : Nat) (cs : List BP.Api) (p : BP.Proc) (acc : List String) : String :=
    match cs with
    | [] => "short " ++ " ".intercalate acc
    | a :: rest =>
      if i < j then
        match BP.runCall v BPFUEL a p [] with
        | (r, _, p') => if r.ok then go (i + 1) rest p' (acc ++ ["ok"]) else "early-error " ++ " ".intercalate (acc ++ ["err"])
      else
        match BP.runCall v BPFUEL a p [] with
        | (r0, _, _) =>
          let names := r0.prims.map primName
          let idx := names.findIdx (fun n => kinds.contains n)
          if idx ≥ names.length then "nokind prims=" ++ joinOr names
          else
            match BP.runCall v BPFUEL a p (List.replicate idx false ++ [true]) with
            | (r, _, _) =>
              s!"{" ".intercalate (acc ++ [if r.ok then "ok" else "err"])} faulted={if r.faulted then 1 else 0} damaged={if r.damaged then 1 else 0} err={match r.err with | some .fault => "fault" | some .fuel => "fuel" | some .nullDeref => "nullDeref" | some .sequence => "sequence" | some .internal => "internal" | none => "-"} prims={joinOr names}"
  go 0 calls {} []

def bpFaultFree (v : Variant) (calls : List BP.Api) : String :=
  let rs := BP.session v BPFUEL calls {} []
  " ".intercalate (rs.map fun r => (if r.ok then "ok" else "err") ++ "/" ++ toString r.prims.length)

def step (line : String) : String :=
  match words line with
  | ["run", v, tool, flags, nf, ents, faults] =>
    match parseVariant v, parseCfg tool flags nf ents with
    | some v, some c =>
      match parseFaults (program v c) faults with
      | some ps => showResult v (run v c (scriptOf ps))
      | none => "bad-op"
    | _, _ => "bad-op"
  | ["rrun", v, tool, flags, nf, faults] =>
    -- a position equal to the number of sites is the exit-time flush of libc (behind `main`)
    match parseVariant v, parseRCfg tool flags nf with
    | some v, some c =>
      match parseFaults (readerSites v c) faults with
      | some ps => showRResult (runReader v c (scriptOf ps)) ++ s!" nsites={(readerSites v c).length} stdio={if printsResults c then 1 else 0}"
      | none => "bad-op"
    | _, _ => "bad-op"
  | ["bp", v, j, kinds, calls] =>
    match parseVariant v, j.toNat?, (calls.splitOn ",").mapM parseApi with
    | some v, some j, some cs => bpFaultAt v cs j (kinds.splitOn "|")
    | _, _, _ => "bad-op"
  | ["bpfree", v, calls] =>
    match parseVariant v, (calls.splitOn ",").mapM parseApi with
    | some v, some cs => bpFaultFree v cs
    | _, _ => "bad-op"
  | ["sites", v, tool, flags, nf, ents] =>
    match parseVariant v, parseCfg tool flags nf ents with
    | some v, some c => joinOr ((program v c).map siteName)
    | _, _ => "bad-op"
  | ["rsites", v, tool, flags, nf] =>
    match parseVariant v, parseRCfg tool flags nf with
    | some v, some c => joinOr ((readerSites v c).map siteName)
    | _, _ => "bad-op"
  | ["monitor", crashed, exit0, diag, packer, left, same] =>
    match bit crashed, bit exit0, bit diag, bit packer, bit left, bit same with
    | some a, some b, some c, some d, some e, some f => Spec.verdict ⟨a, b, c, d, e, f⟩
    | _, _, _, _, _, _ => "bad-op"
  | _ => "bad-op"

def run (_args : List String) : IO Unit := do
  lineLoop (← IO.getStdin) (← IO.getStdout) step

end Driver.C13
