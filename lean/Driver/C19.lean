import Driver.Util
namespace Driver.C19
/-- stub: the model driver for C19 is not built yet -/
def run (_args : List String) : IO Unit := do
  IO.eprintln "sqfsmodel: model C19 not built yet"
end Driver.C19
