import Driver.Util
import Sqfs.Model.Obj
import Sqfs.Model.ObjKinds
import Sqfs.Model.C19Readers
import Sqfs.Model.RbTree
import Sqfs.Model.C19Pool
import Sqfs.Model.C19Units
/-!
`sqfsmodel c19 describe <kind>` / `describe-current <kind>`: the per-kind facts of the hook descriptions.
`sqfsmodel c19 sim` / `sim-current`: heap simulation of the same scenario scripts as `harness/h_c19.c`
(control lines `copy`, `failcopy k`, `drop x`, `grab x`, `ungrab x`, `dropenv`, `rcs`; every other `<target> …`
line is an operation that dereferences the target's buffers), printing the same control-line answers.
`sqfsmodel c19 tbl`: the state-machine models of `Sqfs.Model.ObjKinds`.
`sqfsmodel c19 copystate`: `Sqfs.C19R.drCopy` / `mrCopy` (and the cache invariant) on states dumped from the real objects;
for a directory reader `Sqfs.Rb.rbCopy` on the dumped cache tree (every node byte) and `dcResolve` on the result.
`sqfsmodel c19 unit`: the generic containers as units (`rbt <ks> <vs>`, `arr <size>`, `strt` scenarios of `harness/h_c19.c`):
`Sqfs.Rb` (insert, lookup, `rbCopy` through a node store), `Sqfs.C19U` (array, string table); every answer predicted.
-/
namespace Driver.C19
open Sqfs.Obj

def commaSep (l : List String) : String := ",".intercalate l

def headerName : HeaderInit → String | .init => "init" | .memcpy => "memcpy" | .zeroed => "zeroed"
def bufActName : BufAct → String | .dup => "dup" | .trim => "trim" | .alias => "alias" | .garble => "differ"
def refActName : RefAct → String | .grab => "grab" | .deep => "deep" | .alias => "alias"
def viewActName : ViewAct → String | .repoint => "own" | .stale => "alias"

def describe (D : Kind → CopyDesc) (k : Kind) : String :=
  let d := D k
  s!"kind={k.name} header={headerName d.header} bufs={commaSep (d.bufs.map bufActName)} refs={commaSep (d.refs.map refActName)} " ++
  s!"self={commaSep (d.views.map (fun v => viewActName v.1))} capaware={if d.capAware then 1 else 0} " ++
  s!"onfail={match d.onFail with | .unwind => "unwind" | .dropSlots => "dropslots" | .freeAliased _ => "freealiased"}"

structure World where
  h : Heap
  kind : Kind
  file : Nat
  cmp : Nat
  envAlive : Bool
  objs : List (Option Nat)      -- o, c, t1, t2
  started : Bool

def World.init : World := ⟨Heap.empty, .gzip, 0, 0, false, [none, none, none, none], false⟩

def targetIx : String → Option Nat
  | "o" => some 0 | "c" => some 1 | "t1" => some 2 | "t2" => some 3 | _ => none

def World.obj (w : World) (i : Nat) : Option Nat := (w.objs[i]?).join

def rcOf (h : Heap) (id : Nat) : Nat := match h.objs id with | some o => o.rc | none => 0

def sqfsDropF (h : Heap) (x : Nat) : Heap := sqfsDrop h x
def believedSize : Nat := 8

/-- the probe of `h_c19.c`, evaluated on the model heap: facts about copy `c` relative to original `o`;
`before` = refcounts of `o`'s referenced objects before the copy -/
def probe (h : Heap) (o c : Nat) (before : List Nat) : String :=
  match h.objs o, h.objs c with
  | some ob, some cb =>
    let bufState (a b : Option Nat) : String :=
      match a, b with
      | none, none => "null"
      | some _, none => "lost"
      | none, some _ => "dup"
      | some x, some y =>
        if x = y then "alias"
        else match h.bufs x, h.bufs y with
          | some bx, some by_ => if bx.used ≠ 0 ∧ by_.val ≠ bx.val then "differ" else if by_.cap < bx.cap then "trim" else "dup"
          | _, _ => "dead"
    let refState (a b : Option Nat) (bef : Nat) : String :=
      match a, b with
      | none, none => "null"
      | some _, none => "lost"
      | none, some _ => "deep"
      | some x, some y =>
        if x ≠ y then
          match h.objs y with
          | some t => if t.rc = 1 ∧ t.destroy ∧ t.copy then "deep" else "deep-bad"
          | none => "dead"
        else if rcOf h y = bef + 1 then "grab" else "alias"
    let viewState (a b : Option Nat) : String :=
      match a, b with
      | none, none => "null"
      | some _, none => "lost"
      | none, some _ => "own"
      | some x, some y => if x = y then "alias" else "own"
    let bufs := (ob.bufs.zip cb.bufs).map fun (a, b) => bufState a b
    let refs := ((ob.refs.zip cb.refs).zip before).map fun ((a, b), n) => refState a b n
    let views := (ob.views.zip cb.views).map fun (a, b) => viewState a b
    s!"rc={cb.rc} destroy={if cb.destroy then 1 else 0} copy={if cb.copy then 1 else 0} " ++
      s!"samehooks={if cb.destroy = ob.destroy ∧ cb.copy = ob.copy then 1 else 0} bufs={commaSep bufs} refs={commaSep refs}" ++
      (if views.isEmpty then "" else s!" self={commaSep views}")
  | _, _ => "dead"

/-- slot masks: `0` empty, `1` present (buffers: completely used), `h` buffer half used, `e` buffer allocated but unused -/
def parseMask (s : String) : List Char := if s = "-" then [] else s.toList

/-- populate the empty slots of object `id` as the pre-copy history did (buffers appear when the kind caches / grows) -/
def applyShape (w : World) (id : Nat) (bm vm rm : List Char) : Heap :=
  let h := w.h
  match h.objs id with
  | none => h
  | some o =>
    -- buffers
    let usedOf (c : Char) : Nat := if c = 'h' then believedSize / 2 else if c = 'e' then 0 else believedSize
    let (h, nb) := (o.bufs.zip (bm ++ List.replicate o.bufs.length '0')).foldl (fun (acc : Heap × List (Option Nat)) (s, want) =>
        let (h, l) := acc
        match s, want with
        | s, '0' => (h, l ++ [s])
        | none, c => let (h, b) := newBuf h ⟨believedSize, usedOf c, 0⟩; (h, l ++ [some b])
        | some b, c => ({ h with bufs := upd h.bufs b (some ⟨believedSize, usedOf c, 0⟩) }, l ++ [some b])) (h, [])
    -- references (only the xattr reader starts with empty reference slots: `sqfs_xattr_reader_load`)
    let (h, nr) := (o.refs.zip (rm ++ List.replicate o.refs.length '0')).foldl (fun (acc : Heap × List (Option Nat)) (s, want) =>
        let (h, l) := acc
        match s, want with
        | none, '1' => let (h, m) := newMetaReader h w.file w.cmp; (h, l ++ [some m])
        | s, _ => (h, l ++ [s])) (h, [])
    -- internal pointers: point into the own buffer slot named by the description
    let d := desc o.kind
    let nv := ((o.views.zip d.views).zip (vm ++ List.replicate o.views.length '0')).map fun ((v, (_, slot)), want) =>
        match v, want with
        | none, '1' => listGet nb slot
        | v, _ => v
    { h with objs := upd h.objs id (some { o with bufs := nb, refs := nr, views := nv }) }

def crashName (h : Heap) : String := match h.crash with | some c => c.name | none => "ok"

def liveCount (h : Heap) : Nat :=
  ((List.range h.nobj).filter (fun i => (h.objs i).isSome)).length + ((List.range h.nbuf).filter (fun i => (h.bufs i).isSome)).length

def usesEnv : Kind → Bool
  | .metaReader | .dirReader | .dataReader | .xattrReader => true
  | _ => false

/-- what an object observes of itself and of the objects it owns through deep references, as one token -/
def viewTok (h : Heap) (id : Nat) : String :=
  let render (l : List (Option Nat)) : String := "[" ++ commaSep (l.map fun v => match v with | some n => toString n | none => "-") ++ "]"
  match h.objs id with
  | none => "dead"
  | some o =>
    let own := (view h id).getD []
    let subs := (o.refs.zip (desc o.kind).refs).filterMap fun (r, a) =>
      if a = .deep then some (match r with | some y => render ((view h y).getD []) | none => "null") else none
    "|".intercalate (render own :: subs)

def hashStr (s : String) : Nat := s.foldl (fun a c => (a * 131 + c.toNat) % 4294967291) 7

/-- the model of "an operation of the kind runs on object `id`": it stores through every own slot and internal pointer
(`writeSlot`), and — chosen by the operation's text, so that twins do the same — replaces one cached/array buffer by a
fresh one of the same size (`reallocSlot`) or, after the copy, gives one back (`releaseSlot`).  The struct's field slot
(the last one of every kind but the tables) is never reshaped. -/
def modelOp (h : Heap) (id : Nat) (text : String) (reshape postCopy : Bool) : Heap :=
  match h.objs id with
  | none => touch h id
  | some o =>
    let v := hashStr text + 1
    let n := o.bufs.length + o.views.length
    let h := (List.range n).foldl (fun h s => writeSlot h id s v) (touch h id)
    let nres := if o.kind = .fragTable ∨ o.kind = .idTable then o.bufs.length else o.bufs.length - 1
    if !reshape ∨ nres = 0 then h else
    let slot := (v / 5) % nres
    match listGet o.bufs slot with
    | none => h
    | some b =>
      match h.bufs b with
      | none => h
      | some bf =>
        if v % 5 = 3 then reallocSlot h id slot { bf with val := v }
        else if v % 5 = 4 ∧ postCopy then releaseSlot h id slot
        else h

def stepLive (D : Kind → CopyDesc) (w : World) (line : String) : World × String :=
  match words line with
  | "scenario" :: _tag :: kname :: _ =>
    match Kind.ofName (if kname = "comp" then "gzip" else if kname = "wfile" ∨ kname = "nocopy" then "file" else kname) with
    | none => (World.init, "bad-op")
    | some k0 =>
      -- `comp <name> <mode>`: the concrete compressor is the 4th word
      let k := if kname = "comp" then ((words line)[3]?.bind Kind.ofName).getD .gzip else k0
      let h := Heap.empty
      -- the scenario's environment: the user's own file and compressor (only for the kinds that reference them)
      let (h, f, c) := if usesEnv k then
          let (h, f) := newObj h .file [] [] []
          let (h, c) := newObj h .gzip [] [] []
          (h, f, c)
        else (h, 0, 0)
      let (h, o) := construct h k f c
      let (h, t1) := construct h k f c
      let (h, t2) := construct h k f c
      -- a file opened for writing has a copy hook that refuses (`stdio_copy`: `!readonly` → NULL): as far as `sqfs_copy`
      -- is concerned the object has no copy hook
      -- `nocopy`: a library object created with `sqfs_object_init(obj, destroy, NULL)` (an input stream): `copy == NULL`
      let h := if kname = "wfile" ∨ kname = "nocopy" then [o, t1, t2].foldl (fun (h : Heap) id => match h.objs id with
          | some ob => { h with objs := upd h.objs id (some { ob with copy := false }) }
          | none => h) h else h
      (⟨h, k, f, c, usesEnv k, [some o, none, some t1, some t2], true⟩, "scenario")
  | ["shape", b, v, r] =>
    let bm := parseMask b; let vm := parseMask v; let rm := parseMask r
    let w := [0, 2, 3].foldl (fun (w : World) i => match w.obj i with
      | some id => { w with h := applyShape w id bm vm rm }
      | none => w) w
    (w, "shape")
  | "copy" :: rest | "failcopy" :: rest =>
    match w.obj 0, w.obj 1 with
    | some o, none =>
      let k : Option Nat := match (words line).head?, rest with
        | some "failcopy", ks :: _ => ks.toNat?.bind (fun k => if k = 0 then none else some (k - 1))
        | _, _ => none
      let before := match w.h.objs o with
        | some ob => ob.refs.map fun r => match r with | some r => rcOf w.h r | none => 0
        | none => []
      let (h, c) := sqfsCopyTop D { w.h with budget := k } o
      let h := { h with budget := none }
      match h.crash, c with
      | some cr, _ => ({ w with h := h }, s!"crash {cr.name}")
      | none, none => ({ w with h := h }, "copy NULL")
      | none, some c => ({ w with h := h, objs := w.objs.set 1 (some c) }, s!"copy ok {probe h o c before}")
    | _, _ => (w, "bad-op")
  | ["drop", t] =>
    match targetIx t with
    | some i =>
      match w.obj i with
      | some id =>
        let h := sqfsDropF w.h id
        let w := { w with h := h, objs := w.objs.set i none }
        match h.crash with
        | some cr => (w, s!"crash {cr.name}")
        | none => (w, s!"drop {t} file={if w.envAlive then rcOf h w.file else 0} cmp={if w.envAlive then rcOf h w.cmp else 0}")
      | none => (w, "no-object")
    | none => (w, "bad-op")
  | ["recopy"] =>
    -- the copy is replaced by a copy of itself, the first copy is released
    match w.obj 1 with
    | some c =>
      let (h, c2) := sqfsCopyTop D w.h c
      match h.crash, c2 with
      | some cr, _ => ({ w with h := h }, s!"crash {cr.name}")
      | none, none => ({ w with h := h }, "recopy NULL")
      | none, some c2 =>
        let h := sqfsDropF h c
        let w := { w with h := h, objs := w.objs.set 1 (some c2) }
        match h.crash with
        | some cr => (w, s!"crash {cr.name}")
        | none => (w, s!"recopy ok file={if w.envAlive then rcOf h w.file else 0} cmp={if w.envAlive then rcOf h w.cmp else 0}")
    | none => (w, "no-object")
  | ["copydrop", t] =>
    -- one more copy while the others are alive, released at once (`copy_then_release_restores`)
    match targetIx t with
    | none => (w, "bad-op")
    | some i =>
      match w.obj i with
      | none => (w, "no-object")
      | some x =>
        let (h, c2) := sqfsCopyTop D w.h x
        match h.crash, c2 with
        | some cr, _ => ({ w with h := h }, s!"crash {cr.name}")
        | none, none => ({ w with h := h }, "copydrop NULL")
        | none, some c2 =>
          let h := sqfsDropF h c2
          let w := { w with h := h }
          match h.crash with
          | some cr => (w, s!"crash {cr.name}")
          | none => (w, s!"copydrop ok file={if w.envAlive then rcOf h w.file else 0} cmp={if w.envAlive then rcOf h w.cmp else 0}")
  | ["grab", t] =>
    match (targetIx t).bind w.obj with
    | some id => let h := grab w.h id; ({ w with h := h }, s!"grab {t} {rcOf h id}")
    | none => (w, "bad-op")
  | ["ungrab", t] =>
    match (targetIx t).bind w.obj with
    | some id => let h := sqfsDropF w.h id; ({ w with h := h }, s!"ungrab {t} {rcOf h id}")
    | none => (w, "bad-op")
  | ["views"] =>
    let tok (i : Nat) : String := match w.obj i with | some id => viewTok w.h id | none => "-"
    (w, s!"views o={tok 0} c={tok 1} t1={tok 2} t2={tok 3}")
  | "dump" :: _ => (w, "dump")
  | ["rcs"] => (w, s!"rcs file={if w.envAlive then rcOf w.h w.file else 0} cmp={if w.envAlive then rcOf w.h w.cmp else 0}")
  | ["dropenv"] =>
    if w.envAlive then
      let h := sqfsDropF (sqfsDropF w.h w.file) w.cmp
      ({ w with h := h, envAlive := false }, match h.crash with | some cr => s!"crash {cr.name}" | none => "dropenv")
    else (w, "dropenv")
  | ["end"] =>
    -- teardown as in the harness: drop what is left, then the environment; then the leak check
    let h := w.objs.foldl (fun h o => match o with | some id => sqfsDropF h id | none => h) w.h
    let h := if w.envAlive then sqfsDropF (sqfsDropF h w.file) w.cmp else h
    let cls := match h.crash with
      | some cr => cr.name
      | none => if liveCount h = 0 then "ok" else "leak"
    (World.init, s!"exit {cls}")
  | "f" :: _ :: _ =>
    -- a directory reader created for one question and released straight afterwards (`copy_then_release_restores`-style:
    -- construct + drop leaves the heap as it was); refuses like the harness when the user's file/compressor are gone
    (w, if w.envAlive then "fresh" else "no-object")
  | t :: op :: rest =>
    match (targetIx t).bind w.obj with
    | some id =>
      let marked := op.endsWith "!"
      let h := modelOp w.h id (" ".intercalate ((if marked then (op.dropEnd 1).toString else op) :: rest)) (!marked) ((w.obj 1).isSome)
      -- an operation marked `!` indexes the cached buffers up to the size the kind believes they have (kinds that
      -- record the allocated size next to the pointer never do)
      let h := match h.objs id with
        | some o => if (D o.kind).capAware || !marked then h else
            (List.range o.bufs.length).foldl (fun h s => indexSlot h id s (believedSize - 1)) h
        | none => h
      ({ w with h := h }, match h.crash with | some cr => s!"crash {cr.name}" | none => "op")
    | none => (w, if (targetIx t).isSome then "no-object" else "bad-op")
  | _ => (w, "bad-op")

/-- a crashed heap is absorbing: every later line up to `end` answers with the crash -/
def step (D : Kind → CopyDesc) (w : World) (line : String) : World × String :=
  match w.h.crash, words line with
  | some cr, "scenario" :: _ => let _ := cr; stepLive D w line
  | some cr, ["end"] => let _ := cr; stepLive D w line
  | some cr, _ => (w, s!"crash {cr.name}")
  | none, _ => stepLive D w line

/-! ### `drcopy` / `mrcopy`: the state part of `data_reader_copy` / `meta_reader_copy` applied to a state dumped from the
real original (`dump o …` of `harness/h_c19.c`); the answer is the dump line the real copy must produce -/

def kvGet (ws : List String) (k : String) : Option String :=
  ws.findSome? fun w => match w.splitOn "=" with
    | [k', v] => if k' = k then some v else none
    | _ => none

def kvNat (ws : List String) (k : String) : Option Nat := (kvGet ws k).bind String.toNat?

/-- `N` = NULL pointer -/
def parseBlk (s : String) (sz : Nat) : Option (Option (List UInt8 × Nat)) :=
  if s = "N" then some none else (fromHex s).map fun b => some (b, sz)

def parseTbl (s : String) : Option (List (Nat × Nat)) :=
  if s = "-" then some [] else
  (s.splitOn ",").mapM fun e => match e.splitOn ":" with
    | [a, b] => do let x ← a.toNat?; let y ← b.toNat?; pure (x, y)
    | _ => none

def blkTok : Option (List UInt8 × Nat) → String
  | none => "N"
  | some (b, _) => toHexTok b

def drLine (name : String) (d : Sqfs.DataReader.DR) : String :=
  let sz (o : Option (List UInt8 × Nat)) (dflt : Nat) : Nat := match o with | some (_, n) => n | none => dflt
  let tbl := if d.tbl.isEmpty then "-" else commaSep (d.tbl.map fun (a, b) => s!"{a}:{b}")
  s!"dump {name} data bs={d.blockSize} dsz={sz d.dataBlock 0} cur={d.currentBlock} word={d.currentWord} " ++
  s!"fsz={sz d.fragBlock 0} fidx={d.currentFrag} tbl={tbl} dblk={blkTok d.dataBlock} fblk={blkTok d.fragBlock}"

/-! tree values as tokens (`unit`, `copystate` of a directory reader) -/

open Sqfs.Rb Sqfs.C19U Sqfs.Obj.Kinds in
def treeToks : Tree → List String
  | .nil => ["x"]
  | .node l r o red d => s!"{if red then "r" else "b"}{o}:{toHexTok d}" :: (treeToks l ++ treeToks r)

open Sqfs.Rb in
def treeTok (t : Tree) : String := commaSep (treeToks t)

open Sqfs.Rb in
/-- inverse of `treeToks`; fuel = number of tokens + 1 -/
def parseTree : Nat → List String → Option (Tree × List String)
  | 0, _ => none
  | _, [] => none
  | f + 1, tok :: rest =>
    if tok = "x" then some (.nil, rest) else
    match tok.splitOn ":" with
    | [hd, hex] =>
      let red := hd.startsWith "r"
      if !(red || hd.startsWith "b") then none else
      match (hd.drop 1).toString.toNat?, fromHex hex with
      | some off, some d =>
        match parseTree f rest with
        | none => none
        | some (l, rest1) =>
          match parseTree f rest1 with
          | none => none
          | some (r, rest2) => some (.node l r off red d, rest2)
      | _, _ => none
    | _ => none

open Sqfs.Rb in
def parseTreeTok (s : String) : Option Tree :=
  let toks := s.splitOn ","
  match parseTree (toks.length + 1) toks with
  | some (t, []) => some t
  | _ => none

open Sqfs.Rb in
/-- `rbtree_copy` of a tree value the way the code does it: into node memory, `copy_node`, read back -/
def copyViaStore (c : Cfg) (t : Tree) : Option (Tree × Store × Option Nat × Nat) :=
  let (st, root) := writeTree Store.empty t
  let fuel := t.size + 1
  match rbCopy c fuel st root with
  | none => none
  | some (st', root') => (readTree st'.cells fuel root').map fun t' => (t', st', root', fuel)

/-- `*_blk_size` of a NULL cache slot is a stale number that the struct `memcpy` carries over: kept outside `DR` -/
def copyStep (line : String) : String :=
  match words line with
  | "dump" :: _ :: "data" :: ws =>
    match kvNat ws "bs", kvNat ws "dsz", kvNat ws "cur", kvNat ws "word", kvNat ws "fsz", kvNat ws "fidx",
          (kvGet ws "tbl").bind parseTbl, kvGet ws "dblk", kvGet ws "fblk" with
    | some bs, some dsz, some cur, some word, some fsz, some fidx, some tbl, some db, some fb =>
      match parseBlk db dsz, parseBlk fb fsz with
      | some dblk, some fblk =>
        let d : Sqfs.DataReader.DR := { blockSize := bs, tbl := tbl, dataBlock := dblk, currentBlock := cur, currentWord := word,
                                         fragBlock := fblk, currentFrag := fidx }
        let c := Sqfs.C19R.drCopy d
        let szOf (o : Option (List UInt8 × Nat)) (stale : Nat) : Nat := match o with | some (_, n) => n | none => stale
        let tblS := if c.tbl.isEmpty then "-" else commaSep (c.tbl.map fun (a, b) => s!"{a}:{b}")
        s!"dump c data bs={c.blockSize} dsz={szOf c.dataBlock dsz} cur={c.currentBlock} word={c.currentWord} " ++
        s!"fsz={szOf c.fragBlock fsz} fidx={c.currentFrag} tbl={tblS} dblk={blkTok c.dataBlock} fblk={blkTok c.fragBlock} " ++
        s!"inv={if Sqfs.C19R.cacheInv d then 1 else 0}"
      | _, _ => "bad-op"
    | _, _, _, _, _, _, _, _, _ => "bad-op"
  | "dump" :: _ :: "meta" :: ws =>
    match kvNat ws "start", kvNat ws "limit", kvNat ws "tag", kvNat ws "next", kvNat ws "used", kvNat ws "off", (kvGet ws "data").bind fromHex with
    | some st, some li, some tag, some nx, some us, some off, some data =>
      let m : Sqfs.MetaReader.MR := { start := st, limit := li, tag := tag, nextBlock := nx, dataUsed := us, offset := off, data := data }
      let c := Sqfs.C19R.mrCopy m
      s!"dump c meta start={c.start} limit={c.limit} tag={c.tag} next={c.nextBlock} used={c.dataUsed} off={c.offset} data={toHexTok c.data} inv=1"
    | _, _, _, _, _, _, _ => "bad-op"
  | "dump" :: _ :: "dir" :: ws =>
    match kvNat ws "flags", kvNat ws "ks", kvNat ws "kp", kvNat ws "vs", kvGet ws "q", kvGet ws "tree" with
    | some fl, some ks, some kp, some vs, some q, some tr =>
      let qs : List Nat := if q = "-" then [] else (q.splitOn ",").filterMap String.toNat?
      let resTok (f : Nat → Option Nat) : String :=
        if qs.isEmpty then "-" else commaSep (qs.map fun i => match f i with
          | some r => s!"{i}:0:{r}"
          | none => s!"{i}:{Sqfs.Consts.c19ErrNoEntry}:0")
      if tr = "none" then
        -- reader without `SQFS_DIR_READER_DOT_ENTRIES`: no cache, `resolve_inum` refuses
        s!"dump c dir flags={fl} ks={ks} kp={kp} vs={vs} q={q} tree=none res={resTok fun _ => none} inv=1"
      else
        let c : Sqfs.Rb.Cfg := ⟨ks, kp, vs⟩
        match parseTreeTok tr with
        | none => "bad-op"
        | some t =>
          match copyViaStore c t with
          | none => "bad-op"
          | some (t', st', root', fuel) =>
            let inv := Sqfs.Rb.wfTreeB c t && decide (Sqfs.Rb.init 4 8 = some c)
            s!"dump c dir flags={fl} ks={ks} kp={kp} vs={vs} q={q} tree={treeTok t'} " ++
            s!"res={resTok fun i => Sqfs.Rb.dcResolve c st'.cells fuel root' i} inv={if inv then 1 else 0}"
    | _, _, _, _, _, _ => "bad-op"
  | _ => "bad-op"

/-! ### `unit`: rbtree / array / string table scenarios, every answer predicted -/

open Sqfs.Rb Sqfs.C19U Sqfs.Obj.Kinds in
inductive UObj where
  | rb (t : Tree)
  | arr (a : ByteArr)
  | str (t : StrTable)

open Sqfs.Rb in
structure UWorld where
  cfg : Cfg
  sz : Nat
  objs : List (Option UObj)     -- o, c

open Sqfs.Rb in
def UWorld.init : UWorld := ⟨⟨0, 0, 0⟩, 0, [none, none]⟩

def uIx : String → Option Nat
  | "o" => some 0 | "c" => some 1 | _ => none

open Sqfs.Rb Sqfs.C19U Sqfs.Obj.Kinds Sqfs.Consts in
def unitStep (w : UWorld) (line : String) : UWorld × String :=
  let put (i : Nat) (o : UObj) : UWorld := { w with objs := w.objs.set i (some o) }
  match words line with
  | ["scenario", _, "rbt", ks, vs] =>
    match ks.toNat?, vs.toNat? with
    | some ks, some vs =>
      match init ks vs with
      | some c => (⟨c, 0, [some (.rb .nil), none]⟩, "scenario")
      | none => (UWorld.init, "bad-op")
    | _, _ => (UWorld.init, "bad-op")
  | ["scenario", _, "arr", sz] =>
    match sz.toNat? with
    | some sz => (⟨⟨0, 0, 0⟩, sz, [some (.arr Arr.empty), none]⟩, "scenario")
    | none => (UWorld.init, "bad-op")
  | ["scenario", _, "strt"] => (⟨⟨0, 0, 0⟩, 0, [some (.str []), none]⟩, "scenario")
  | ["end"] => (UWorld.init, "end")
  | "copy" :: _ | "failcopy" :: _ =>
    let k : Option Nat := match words line with
      | ["failcopy", ks] => ks.toNat?
      | _ => none
    match ((w.objs[0]?).join : Option UObj), ((w.objs[1]?).join : Option UObj) with
    | some (.rb t), none =>
      -- `copy_node` allocates one node per node, in pre-order: the k-th allocation exists iff k ≤ size
      if (match k with | some k => decide (1 ≤ k ∧ k ≤ t.size) | none => false) then (w, s!"copy {c19ErrAlloc} zeroed=1") else
      match copyViaStore w.cfg t with
      | some (t', _, _, _) => (put 1 (.rb t'), s!"copy 0 kp={w.cfg.keyPad} alias=0")
      | none => (w, "bad-op")
    | some (.arr a), none =>
      -- `array_init` allocates once, and only when there is something to copy
      if k = some 1 ∧ a.data.length > 0 then (w, s!"copy {c19ErrAlloc} zeroed=1") else
      let a' := a.initCopy
      (put 1 (.arr a'), s!"copy 0 size={w.sz} used={a'.data.length} count={a'.count} alias=0")
    | some (.str t), none =>
      -- `str_table_copy`: the pointer array (if any), the cloned hash table and its slots, then one bucket per string
      let allocs := (if t.length > 0 then 1 else 0) + 2 + t.length
      if (match k with | some k => decide (1 ≤ k ∧ k ≤ allocs) | none => false) then (w, s!"copy {c19ErrAlloc}") else
      (put 1 (.str (strCopy t)), "copy 0 alias=0")
    | _, _ => (w, "bad-op")
  | ["drop", t] =>
    match uIx t with
    | some i => ({ w with objs := w.objs.set i none }, "drop")
    | none => (w, "bad-op")
  | t :: op :: args =>
    match uIx t with
    | none => (w, "bad-op")
    | some i =>
      match ((w.objs[i]?).join : Option UObj), op, args with
      | none, _, _ => (w, "no-object")
      | some (.rb tr), "ins", [k, v] =>
        match fromHex k, fromHex v with
        | some k, some v => (put i (.rb (insert w.cfg (fun a b => memCmp w.cfg a b == .lt) tr k v)), "ins 0")
        | _, _ => (w, "bad-op")
      | some (.rb tr), "look", [k] =>
        match fromHex k with
        | some k =>
          match tr.lookup (memCmp w.cfg) k with
          | some n => (w, s!"look {n.1} {toHexTok n.2} key={toHexTok (keyOf w.cfg n)} value={toHexTok (valueOf w.cfg n)}")
          | none => (w, "look none")
        | none => (w, "bad-op")
      | some (.rb tr), "dump", [] =>
        (w, s!"dump ks={w.cfg.keySize} kp={w.cfg.keyPad} vs={w.cfg.valueSize} wf={if wfTreeB w.cfg tr then 1 else 0} tree={treeTok tr}")
      | some (.arr a), "app", [x] =>
        match fromHex x with
        | some x => let (a', r) := arrStep w.sz a (.app x); (put i (.arr a'), s!"app {r.1}")
        | none => (w, "bad-op")
      | some (.arr a), "get", [n] =>
        match n.toNat? with
        | some n => let (_, r) := arrStep w.sz a (.get n); (w, s!"get {match r.2 with | some b => toHexTok b | none => "null"}")
        | none => (w, "bad-op")
      | some (.arr a), "set", [n, x] =>
        match n.toNat?, fromHex x with
        | some n, some x => let (a', r) := arrStep w.sz a (.set n x); (put i (.arr a'), s!"set {r.1}")
        | _, _ => (w, "bad-op")
      | some (.arr a), "used", [] => (w, s!"used {a.data.length}")
      | some (.arr a), "dump", [] =>
        (w, s!"dump size={w.sz} used={a.data.length} count={a.count} data={toHexTok a.data.flatten}")
      | some (.str tb), "index", [x] =>
        match fromHex x with
        | some x => let (tb', r) := strStep tb (.index x); (put i (.str tb'), s!"index 0 {r.1}")
        | none => (w, "bad-op")
      | some (.str tb), "str", [n] =>
        match n.toNat? with
        | some n => let (_, r) := strStep tb (.str n); (w, s!"str {match r.2 with | some b => toHexTok b | none => "null"}")
        | none => (w, "bad-op")
      | some (.str tb), "ref", [n] =>
        match n.toNat? with
        | some n => (put i (.str (strStep tb (.ref n)).1), "ref")
        | none => (w, "bad-op")
      | some (.str tb), "unref", [n] =>
        match n.toNat? with
        | some n => (put i (.str (strStep tb (.unref n)).1), "unref")
        | none => (w, "bad-op")
      | some (.str tb), "count", [n] =>
        match n.toNat? with
        | some n => (w, s!"count {(strStep tb (.count n)).2.1}")
        | none => (w, "bad-op")
      | some (.str tb), "dump", [] =>
        let bs := (List.range tb.length).zip tb |>.map fun (i, b) => s!"{i}:{b.refs}:{toHexTok b.str}"
        (w, s!"dump next={tb.length} b={if bs.isEmpty then "-" else commaSep bs}")
      | _, _, _ => (w, "bad-op")
  | _ => (w, "bad-op")

/-! ### `unit-pool`: the `rbt` unit scenarios against /repo's default configuration (nodes from a pool allocator, one pool per
tree): trees live in a `PStore`; `copy` = `rbCopyP` (own pool, every node of the copy from it), `drop` = `rbCleanupP` (the pool
is unmapped: every node allocated from it is gone), every later answer is read back from the store — a copy whose nodes had
come from the original's pool would answer `crash` after `drop o`. -/

open Sqfs.Rb in
structure PWorld where
  cfg : Cfg
  ps : PStore
  objs : List (Option (Option Nat × Nat))     -- o, c: (root, pool)

open Sqfs.Rb in
def PWorld.init : PWorld := ⟨⟨0, 0, 0⟩, PStore.empty, [none, none]⟩

open Sqfs.Rb Sqfs.Consts in
def poolStep (w : PWorld) (line : String) : PWorld × String :=
  let fuel := w.ps.st.next + 1
  let rd (r : Option Nat) : Option Tree := readTree w.ps.st.cells fuel r
  match words line with
  | ["scenario", _, "rbt", ks, vs] =>
    match ks.toNat?, vs.toNat? with
    | some ks, some vs =>
      match init ks vs with
      | some c => (⟨c, PStore.empty.createPool.1, [some (none, PStore.empty.createPool.2), none]⟩, "scenario")
      | none => (PWorld.init, "bad-op")
    | _, _ => (PWorld.init, "bad-op")
  | ["end"] => (PWorld.init, "end")
  | "copy" :: _ | "failcopy" :: _ =>
    let k : Option Nat := match words line with
      | ["failcopy", ks] => ks.toNat?
      | _ => none
    match ((w.objs[0]?).join : Option (Option Nat × Nat)), ((w.objs[1]?).join : Option (Option Nat × Nat)) with
    | some (root, pool), none =>
      -- acquisitions of `rbtree_copy` in this configuration: 1 = `calloc` of the `mem_pool_t` (rbtree.c:212: error, `out` not
      -- cleared), 2 = `mmap` of the pool's first block inside the first `mem_pool_allocate` (if there is a node to copy:
      -- `copy_node` fails, `out` cleared)
      if k = some 1 then (w, s!"copy {c19ErrAlloc} zeroed=0 failed=calloc")
      else if k = some 2 ∧ root.isSome then (w, s!"copy {c19ErrAlloc} zeroed=1 failed=mmap")
      else match rbCopyP w.cfg fuel w.ps root with
        | none => (w, "crash")
        | some (ps', root', pool') =>
          let own := if pool' = pool then "alias" else "own"
          let nodes := if ownedB ps'.st.cells ps'.owner pool' (ps'.st.next + 1) root' then "in" else "out"
          ({ w with ps := ps', objs := w.objs.set 1 (some (root', pool')) }, s!"copy 0 kp={w.cfg.keyPad} alias=0 pool={own} nodes={nodes}")
    | _, _ => (w, "bad-op")
  | ["drop", t] =>
    match uIx t with
    | some i =>
      match ((w.objs[i]?).join : Option (Option Nat × Nat)) with
      | some (_, pool) => ({ w with ps := rbCleanupP w.ps pool, objs := w.objs.set i none }, "drop")
      | none => (w, "no-object")
    | none => (w, "bad-op")
  | t :: op :: args =>
    match uIx t with
    | none => (w, "bad-op")
    | some i =>
      match ((w.objs[i]?).join : Option (Option Nat × Nat)), op, args with
      | none, _, _ => (w, "no-object")
      | some (root, pool), "ins", [k, v] =>
        match fromHex k, fromHex v with
        | some k, some v =>
          match rd root with
          | none => (w, "crash")
          | some tr =>
            let r := writeTreeP w.ps pool (insert w.cfg (fun a b => memCmp w.cfg a b == .lt) tr k v)
            ({ w with ps := r.1, objs := w.objs.set i (some (r.2, pool)) }, "ins 0")
        | _, _ => (w, "bad-op")
      | some (root, _), "look", [k] =>
        match fromHex k with
        | some k =>
          match rd root with
          | none => (w, "crash")
          | some tr =>
            match tr.lookup (memCmp w.cfg) k with
            | some n => (w, s!"look {n.1} {toHexTok n.2} key={toHexTok (keyOf w.cfg n)} value={toHexTok (valueOf w.cfg n)}")
            | none => (w, "look none")
        | none => (w, "bad-op")
      | some (root, _), "dump", [] =>
        match rd root with
        | none => (w, "crash")
        | some tr => (w, s!"dump ks={w.cfg.keySize} kp={w.cfg.keyPad} vs={w.cfg.valueSize} wf={if wfTreeB w.cfg tr then 1 else 0} tree={treeTok tr}")
      | _, _, _ => (w, "bad-op")
  | _ => (w, "bad-op")

def run (args : List String) : IO Unit := do
  let out ← IO.getStdout
  match args with
  | ["describe", k] => match Kind.ofName k with
    | some k => out.putStrLn (describe desc k)
    | none => out.putStrLn "bad-op"
  | ["describe-current", k] => match Kind.ofName k with
    | some k => out.putStrLn (describe descCurrent k)
    | none => out.putStrLn "bad-op"
  | ["sim-current"] => stateLoop (← IO.getStdin) out (step descCurrent) World.init
  | ["sim-mix", ks] =>
    -- the listed kinds have their current hook, all others the repaired one (a tree with some of the fixes applied)
    let cur := (ks.splitOn ",").filterMap Kind.ofName
    stateLoop (← IO.getStdin) out (step fun k => if cur.contains k then descCurrent k else desc k) World.init
  | ["tbl"] => stateLoop (← IO.getStdin) out Kinds.tblStep Kinds.TblWorld.init
  | ["copystate"] => lineLoop (← IO.getStdin) out copyStep
  | ["unit"] => stateLoop (← IO.getStdin) out unitStep UWorld.init
  | ["unit-pool"] => stateLoop (← IO.getStdin) out poolStep PWorld.init
  | _ => stateLoop (← IO.getStdin) out (step desc) World.init

end Driver.C19
