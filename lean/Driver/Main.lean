import Driver.C01
import Driver.C02
import Driver.C03
import Driver.C04
import Driver.C05
import Driver.C06
import Driver.C07
import Driver.C08
import Driver.C09
import Driver.C10
import Driver.C11
import Driver.C12
import Driver.C13
import Driver.C14
import Driver.C15
import Driver.C16
import Driver.C17
import Driver.C18
import Driver.C19
import Driver.MemPool

/-- `sqfsmodel <cNN> [args]`: dispatch to the per-property line-protocol driver (`Driver/CNN.lean`). -/
def main (args : List String) : IO UInt32 := do
  match args with
  | "c01" :: r => Driver.C01.run r; return 0
  | "c02" :: r => Driver.C02.run r; return 0
  | "c03" :: r => Driver.C03.run r; return 0
  | "c04" :: r => Driver.C04.run r; return 0
  | "c05" :: r => Driver.C05.run r; return 0
  | "c06" :: r => Driver.C06.run r; return 0
  | "c07" :: r => Driver.C07.run r; return 0
  | "c08" :: r => Driver.C08.run r; return 0
  | "c09" :: r => Driver.C09.run r; return 0
  | "c10" :: r => Driver.C10.run r; return 0
  | "c11" :: r => Driver.C11.run r; return 0
  | "c12" :: r => Driver.C12.run r; return 0
  | "c13" :: r => Driver.C13.run r; return 0
  | "c14" :: r => Driver.C14.run r; return 0
  | "c15" :: r => Driver.C15.run r; return 0
  | "c16" :: r => Driver.C16.run r; return 0
  | "c17" :: r => Driver.C17.run r; return 0
  | "c18" :: r => Driver.C18.run r; return 0
  | "c19" :: r => Driver.C19.run r; return 0
  | "mempool" :: r => Driver.MemPool.run r; return 0
  | _ => IO.eprintln "usage: sqfsmodel <c01..c19> [args]"; return 2
