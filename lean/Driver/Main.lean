import Driver.C18

def main (args : List String) : IO UInt32 := do
  match args with
  | "c18" :: r => Driver.C18.run r; return 0
  | _ => IO.eprintln "usage: sqfsmodel <model> [args]"; return 2
