import Driver.Util
namespace Driver.C05
/-- stub: the model driver for C05 is not built yet -/
def run (_args : List String) : IO Unit := do
  IO.eprintln "sqfsmodel: model C05 not built yet"
end Driver.C05
