/-
`sqfsmodel c05 [current]` — line-protocol driver of the C05 reader models (same lines as harness/h_c05.c).
Without argument the repaired logic (`fixed := true`) is run; with `current` the logic of the unpatched code,
which is what the check uses to classify a crash of the real code as one of the recorded findings.

`sqfsmodel c05 sens` — self-test of the input generators: every line is answered by the model of the tree and by the
mutated models of `Sqfs/Model/ReaderMut.lean` that belong to the operation (from the same state); the answer is
`<answer>\t<names of the mutants that answer differently, comma separated>[\tSTALE <answer of the unmutated copies>]`.

Every answer line is followed, on the same line, by ` UNSAFE <buf>:<off>+<len>><cap>` for the first access that
is not inside its buffer (the specification predicate of the property, evaluated on the model's access list).
-/
import Driver.Util
import Sqfs.Model.ReaderEnv
import Sqfs.Model.ReaderWalk
import Sqfs.Model.ReaderTables
import Sqfs.Model.ReaderMut
import Sqfs.Model.ReaderSizes
namespace Driver.C05
open Sqfs.ReaderBounds Sqfs.ReaderEnv Sqfs.ReaderWalk Sqfs.ReaderTables Sqfs.ReaderMut Sqfs.ReaderSizes

structure St where
  fixed : Bool
  img : Image := ⟨ByteArray.empty, 0⟩
  cfg : Option (UInt64 × UInt64) := none
  m : MetaSt := MetaSt.init
  sb : Super := default                         -- `sb` line: the superblock the table/xattr/dir ops use
  ids : Array UInt8 := #[]                      -- contents of the id table read last
  idUsed : UInt64 := 0
  frags : Array UInt8 := #[]
  fragUsed : UInt64 := 0
  x : XattrSt := XattrSt.init
  xpos : Bool := false                          -- a `xseek` succeeded since `xnew`/`xload` (contract of `xkey`/`xval`)
  /-- what the operation of the previous line handed to the allocator, as a function of the mutant number (`sens` mode asks
  every mutant from the state the model reached) -/
  lastAllocs : Nat → List UInt64 := fun _ => []

def num (s : String) : Option Nat := s.toNat?
def u64 (s : String) : Option UInt64 := (num s).map (·.toUInt64)
def u32 (s : String) : Option UInt32 := (num s).map (·.toUInt32)

def wordsOf (s : String) : Option (Array UInt32) :=
  if s = "-" then some #[] else
    (s.splitOn ",").foldl (fun acc t => match acc, num t with
      | some a, some n => some (a.push n.toUInt32)
      | _, _ => none) (some #[])

def bufName : Buf → String
  | .metaData => "metaData" | .metaScratch => "metaScratch" | .dst => "dst" | .drScratch => "drScratch"
  | .blockOut => "blockOut" | .fragBlock => "fragBlock" | .dataBlock => "dataBlock" | .fragOut => "fragOut"
  | .streamBuf => "streamBuf" | .inoData => "inoData" | .table => "table" | .locations => "locations"
  | .inodeExtra => "inodeExtra" | .dirEntName => "dirEntName" | .idxSrc => "idxSrc" | .idxOut => "idxOut"
  | .path => "path" | .superBuf => "superBuf" | .idTable => "idTable" | .fragTable => "fragTable"
  | .xattrIdTbl => "xattrIdTbl" | .idBlockStarts => "idBlockStarts" | .xattrDesc => "xattrDesc"
  | .xattrKeyHdr => "xattrKeyHdr" | .xattrValHdr => "xattrValHdr" | .xattrRef => "xattrRef"
  | .xattrKeyOut => "xattrKeyOut" | .xattrValOut => "xattrValOut" | .xattrKv => "xattrKv"
  | .dirEntryOut => "dirEntryOut" | .nameIn => "nameIn" | .linkOut => "linkOut"

def unsafeTag (acc : List Access) : String :=
  match acc.find? (fun a => !(decide a.inBounds)) with
  | none => ""
  | some a => s!" UNSAFE {bufName a.buf}:{a.off}+{a.len}>{a.cap}"

def mkCfg (s : St) (c : UInt64 × UInt64) : MetaCfg := ⟨c.1, c.2, metaSrc s.img⟩

def showPos (m : MetaSt) : String :=
  let p := getPosition m
  s!"ok pos {p.1} {p.2}"

def showRes (r : Res) : String :=
  (match r.r with
   | .ok () => showPos r.st
   | .error e => "err " ++ e.name) ++ unsafeTag r.acc

/-! ### mutant selection (`mu = 0`: the functions the theorems are about; otherwise the copies of `ReaderMut`) -/
def seekX (mu : Nat) := if mu == 0 then seekG else seekM mu
def mreadX (mu : Nat) := if mu == 0 then mread else mreadM mu
def getBlockX (mu : Nat) := if mu == 0 then getBlock else getBlockM mu
def getFragmentX (mu : Nat) := if mu == 0 then getFragment else getFragmentM mu
def streamFillX (mu : Nat) := if mu == 0 then streamFill else streamFillM mu
def dataReadX (mu : Nat) := if mu == 0 then dataRead else dataReadM mu
def readInodeFileX (mu : Nat) := if mu == 0 then readInodeFile else readInodeFileM mu
def readInodeSlinkX (mu : Nat) := if mu == 0 then readInodeSlink else readInodeSlinkM mu
def readInodeDirExtX (mu : Nat) := if mu == 0 then readInodeDirExt else readInodeDirExtM mu
def readDirEntX (mu : Nat) := if mu == 0 then readDirEnt else readDirEntM mu
def unpackIdxX (mu : Nat) := if mu == 0 then unpackIdx else unpackIdxM mu
def indexToIdX (mu : Nat) := if mu == 0 then indexToId else indexToIdM mu
def fragLookupX (mu : Nat) := if mu == 0 then fragLookup else fragLookupM mu
def superReadX (mu : Nat) := if mu == 0 then superRead else superReadM mu
def idTableReqX (mu : Nat) := if mu == 0 then idTableReq else idTableReqM mu
def fragTableReqX (mu : Nat) := if mu == 0 then fragTableReq else fragTableReqM mu
/-- locations beyond this many are not run through `xattrLoad` (its access list grows by `acc ++ [_]` per location:
quadratic) but through the copy of `ReaderMut`, which keeps one access for all of them; below, the copy is compared with
the original on every line (`STALE`) -/
def xloadDirectMax : UInt64 := 4096
def xattrLoadX (mu : Nat) (s : Super) (x : XattrSt) (io1 : Bool) (tblStart : UInt64) (ids : UInt32) (io2 : Nat → Bool)
    (starts : Nat → UInt64) : XRes :=
  if mu == 0 then
    if xattrIdBlocks ids.toUInt64 ≤ xloadDirectMax then
      xattrLoad s x io1 tblStart ids (io2 (8 * xattrIdBlocks ids.toUInt64).toNat) starts
    else xattrLoadM copyId s x io1 tblStart ids io2 starts
  else xattrLoadM mu s x io1 tblStart ids io2 starts
def readTableAllocsX (mu : Nat) (tableSize : UInt64) : List UInt64 :=
  if mu == 0 then readTableAllocs tableSize else readTableAllocsM mu tableSize
def xattrGetDescX (mu : Nat) := if mu == 0 then xattrGetDesc else xattrGetDescM mu
def kvReadValueX (mu : Nat) := if mu == 0 then kvReadValue else kvReadValueM mu
def readdirStepX (mu : Nat) := if mu == 0 then readdirStep else readdirStepM mu
def dirEntryFromInodeX (mu : Nat) := if mu == 0 then dirEntryFromInode else dirEntryFromInodeM mu

/-- `ReaderEnv.precacheFrag` with the selected `get_block` -/
def precacheFragX (mu : Nat) (im : Image) (bs : UInt32) (fragIdx : UInt32) (fstart : UInt64) (fword : UInt32) :
    Except Err UInt64 × List Access :=
  if fragIdx ≥ 1 then (.error .oob, [])
  else getBlockX mu bs .fragBlock fword bs (blkLoad im fstart fword bs)

/-- the stream loop of the harness: `get_buffered_data` / `advance_buffer` until eof or error, and then `extra`
more calls on the same stream (what a failed call leaves behind is part of the comparison) -/
def streamLoop (mu : Nat) (fixed : Bool) (im : Image) (bs : UInt32) (words : Array UInt32) (fragIdx fragOff : UInt32)
    (fstart : UInt64) (fword : UInt32) : Nat → Nat → StreamSt → UInt64 → String → List Access → String × List Access
  | 0, _, _, _, out, acc => (out ++ "toolong", acc)
  | fuel + 1, extra, s, diskOff, out, acc =>
    let w := words.getD s.blkIdx.toNat 0
    let want := if s.filesz < bs.toUInt64 then s.filesz.toUInt32 else bs
    let l := blkLoad im diskOff w want
    let pre := precacheFragX mu im bs fragIdx fstart fword
    let needFrag := !(s.bufOff < s.bufUsed) && s.filesz != 0 && !(s.blkIdx < s.blkCount)
    let r := streamFillX mu fixed bs s w l pre.1 fragOff
    let acc := acc ++ (if needFrag then pre.2 else []) ++ r.2.2
    let diskOff' := if s.blkIdx < s.blkCount && !(s.bufOff < s.bufUsed) && s.filesz != 0 then diskOff + (onDiskSize w).toUInt64 else diskOff
    match r.2.1 with
    | .eof =>
      if extra == 0 then (out ++ "eof", acc)
      else streamLoop mu fixed im bs words fragIdx fragOff fstart fword fuel (extra - 1) r.1 diskOff (out ++ "eof ") acc
    | .err e =>
      if extra == 0 then (out ++ "err " ++ e.name, acc)
      else streamLoop mu fixed im bs words fragIdx fragOff fstart fword fuel (extra - 1) r.1 diskOff (out ++ "err " ++ e.name ++ " ") acc
    | .data n =>
      let s' := r.1
      -- advance_buffer(sz): buf_off += min(buf_used - buf_off, sz)
      streamLoop mu fixed im bs words fragIdx fragOff fstart fword fuel extra { s' with bufOff := s'.bufOff + n } diskOff'
        (out ++ toString n ++ " ") acc

def bytesToImage (l : List UInt8) : Image := ⟨ByteArray.mk l.toArray, l.length⟩

/-- predicted outcome of `sqfs_meta_reader_read_inode` on one uncompressed block holding `b` -/
def inodeOp (mu : Nat) (bs : UInt64) (b : Image) : String :=
  let n := b.size
  if n < 16 then "err" else
  let ty := (le16 b 0).toNat
  let need (k : Nat) : Bool := 16 + k ≤ n
  let fileLike (hdr : Nat) (fsz : UInt64) (fi fo : UInt32) : String :=
    if !need hdr then "err" else
    match readInodeFileX mu fsz bs fi fo with
    | .error _ => "err"
    | .ok acc =>
      let len := (acc.headD ⟨.inodeExtra, 0, 0, 0⟩).len
      if 16 + hdr + len ≤ n then s!"ok {ty} {len % 4294967296}" ++ unsafeTag acc else "err"
  let slinkLike (extra : Nat) : String :=
    if !need 8 then "err" else
    let ts := le32 b 20
    match readInodeSlinkX mu ts with
    | .error _ => "err"
    | .ok acc => if 16 + 8 + ts.toNat + extra ≤ n then s!"ok {ty} {ts.toNat}" ++ unsafeTag acc else "err"
  let fixedSz (k : Nat) : String := if need k then s!"ok {ty} 0" else "err"
  match ty with
  | 1 => fixedSz 16
  | 2 => if need 16 then fileLike 16 (le32 b 28).toUInt64 (le32 b 20) (le32 b 24) else "err"
  | 3 => slinkLike 0
  | 4 | 5 => fixedSz 8
  | 6 | 7 => fixedSz 4
  | 8 =>
    if !need 24 then "err" else
    let dsz := le32 b 20
    let cnt := (le16 b 32).toNat
    if dsz == 0 then s!"ok {ty} 0" else
    -- walk the index entries the block actually holds; `false` = the stream ends inside an entry (that entry is in the
    -- list when its header was read: the code makes room for it and copies what there is before the read fails)
    let rec go (k : Nat) (pos : Nat) (szs : List UInt32) : Bool × List UInt32 :=
      match k with
      | 0 => (true, szs.reverse)
      | k + 1 =>
        if pos + 12 > n then (false, szs.reverse) else
        let sz := le32 b (pos + 8)
        let nm := (sz + 1).toNat
        if pos + 12 + nm > n then (false, (sz :: szs).reverse) else go k (pos + 12 + nm) (sz :: szs)
    match go cnt 40 [] with
    | (false, szs) =>
      match readInodeDirExtX mu dsz szs with
      | .error _ => "err"
      | .ok (_, _, acc) => "err" ++ unsafeTag acc
    | (true, szs) =>
      match readInodeDirExtX mu dsz szs with
      | .error _ => "err"
      | .ok (_, iu, acc) => s!"ok {ty} {iu.toNat % 4294967296}" ++ unsafeTag acc
  | 9 => if need 40 then fileLike 40 (le64 b 24) (le32 b 44) (le32 b 48) else "err"
  | 10 => slinkLike 4
  | 11 | 12 => fixedSz 12
  | 13 | 14 => fixedSz 8
  | _ => "err"

/-- the request `read_inode_file(_ext)` makes for the inode in `b` (none before the header is complete) -/
def inodeAllocs (mu : Nat) (bs : UInt64) (b : Image) : List UInt64 :=
  let n := b.size
  if n < 16 then [] else
  match (le16 b 0).toNat with
  | 2 => if 16 + 16 ≤ n then inodeFileAllocs (readInodeFileX mu (le32 b 28).toUInt64 bs (le32 b 20) (le32 b 24)) else []
  | 9 => if 16 + 40 ≤ n then inodeFileAllocs (readInodeFileX mu (le64 b 24) bs (le32 b 44) (le32 b 48)) else []
  | _ => []

/-- requests below this size are not compared (`allocs` line): the objects of the library itself stay below it -/
def allocsFloor : UInt64 := 65536

def parseGraph (spec : String) : Option (DirGraph × Nat × Nat) :=
  -- nodes separated by ';' : ref:inum:isDir:c1,c2   (first node = root)
  let nodes := (spec.splitOn ";").filterMap (fun t =>
    match t.splitOn ":" with
    | [r, i, d, cs] =>
      match num r, num i with
      | some r, some i =>
        let kids := if cs = "-" then [] else (cs.splitOn ",").filterMap num
        some (r, i.toUInt32, decide (d = "1"), kids)
      | _, _ => none
    | _ => none)
  match nodes with
  | [] => none
  | (root, _, _, _) :: _ =>
    let find (r : Nat) := nodes.find? (fun x => x.1 == r)
    some (⟨fun r => match find r with | some x => x.2.2.2 | none => [],
           fun r => match find r with | some x => x.2.2.1 | none => false,
           fun r => match find r with | some x => x.2.1 | none => 0⟩, root, nodes.length)

def showWalk (r : Except Err Nat) : String :=
  match r with
  | .ok n => s!"ok {n}"
  | .error .fuel => "diverges"
  | .error e => "err " ++ e.name


def u16 (s : String) : Option UInt16 := (num s).map (·.toUInt16)

def showR (r : Except Err Unit) : String :=
  match r with
  | .ok () => "ok"
  | .error e => "err " ++ e.name

/-- the window of both meta readers of the xattr reader -/
def xCfg (s : St) : MetaCfg := ⟨s.sb.idTableStart, s.sb.bytesUsed, metaSrc s.img⟩

/-- `xall`: the loop of `sqfs_xattr_reader_read_all`, one `kvRead` per pair with the answers the image gives at the
position reached; returns entries read, sum of the value sizes -/
def xallLoop (im : Image) (c : MetaCfg) (xs xe : UInt64) : Nat → MetaSt → Nat → Nat → List Access →
    MetaSt × Except Err (Nat × Nat) × List Access
  | 0, m, n, sum, acc => (m, .ok (n, sum), acc)
  | rem + 1, m, n, sum, acc =>
    let a := envKvAns im c xs m
    let r := kvRead c xs xe a m
    match r.r with
    | .error e => (r.st, .error e, acc ++ r.acc)
    | .ok () => xallLoop im c xs xe rem r.st (n + 1) (sum + a.vsize.toNat) (acc ++ r.acc)

def parseCache (spec : String) : UInt32 → Option UInt64 :=
  let l := if spec = "-" then [] else (spec.splitOn ",").filterMap (fun t =>
    match t.splitOn ":" with
    | [a, b] => match num a, num b with
      | some a, some b => some (a.toUInt32, b.toUInt64)
      | _, _ => none
    | _ => none)
  fun i => (l.find? (fun p => p.1 == i)).map (·.2)

def stateNum : DState → Nat
  | .none => 0 | .opened => 1 | .dot => 2 | .entries => 3

/-- `dirlist`: `sqfs_dir_reader_open_dir` (no dot entries) + `sqfs_dir_reader_read` until the end; the counters are
`readdirStep`, header and entry fields come from the image through the meta reader model -/
def dirlistLoop (mu : Nat) (im : Image) (c : MetaCfg) : Nat → MetaSt → (block offset : UInt64) → RdState → (inodeBlock : UInt64) →
    (n names refs : Nat) → List Access → String × List Access
  | 0, _, _, _, _, _, n, names, refs, acc => (s!"n={n} names={names} refs={refs} toolong", acc)
  | fuel + 1, m, block, offset, rs, inodeBlock, n, names, refs, acc =>
    let fin (t : String) (acc : List Access) := (s!"n={n} names={names} refs={refs} " ++ t, acc)
    -- readdir.c:101  `if (it->size <= sizeof(hdr)) goto out_eof;` comes before the header is read
    if rs.entries == 0 && leM mu 44 rs.size.toNat szDirHeader then fin "eof" acc
    else
      -- header, if a new run of entries starts
      let hdr : Except Err (MetaSt × UInt64 × UInt64 × UInt32 × UInt64) × List Access :=
        if rs.entries == 0 then
          let r := seek c m block offset
          match r.r with
          | .error e => (.error e, r.acc)
          | .ok () =>
            let b := envRead im c r.st szDirHeader.toUInt64
            let r2 := mread true c r.st szDirHeader.toUInt64
            match r2.r with
            | .error e => (.error e, r.acc ++ r2.acc)
            | .ok () =>
              let count := aLe32 b 0
              if gtM mu 46 count.toNat (Sqfs.Consts.maxDirEnt - 1) then (.error .corrupted, r.acc ++ r2.acc)
              else
                let p := getPosition r2.st
                (.ok (r2.st, p.1, p.2, count, (aLe32 b 4).toUInt64), r.acc ++ r2.acc)
        else (.ok (m, block, offset, 0, inodeBlock), [])
      match hdr with
      | (.error e, a) => fin ("err " ++ e.name) (acc ++ a)
      | (.ok (m1, block1, offset1, count, inodeBlock1), a) =>
        let acc := acc ++ a
        -- readdir.c:120  `if (it->size <= sizeof(**ent)) goto out_eof;` (the counters say so: `readdirStep` = none)
        if (readdirStepX mu rs count 0).isNone then fin "eof" acc else
        let r := seek c m1 block1 offset1
        match r.r with
        | .error e => fin ("err " ++ e.name) (acc ++ r.acc)
        | .ok () =>
          let b := envRead im c r.st szDirNode.toUInt64
          let r2 := mread true c r.st szDirNode.toUInt64
          match r2.r with
          | .error e => fin ("err " ++ e.name) (acc ++ r.acc ++ r2.acc)
          | .ok () =>
            let entOff := aLe16 b 0
            let size := aLe16 b 6
            let r3 := mread true c r2.st (size.toUInt64 + 1)
            let acc := acc ++ r.acc ++ r2.acc ++ readDirEntX mu size ++ r3.acc
            match r3.r with
            | .error e => fin ("err " ++ e.name) acc
            | .ok () =>
              let p := getPosition r3.st
              match readdirStepX mu rs count size with
              | none => fin "eof" acc        -- not reached: tested above
              | some rs' =>
                dirlistLoop mu im c fuel r3.st p.1 p.2 rs' inodeBlock1 (n + 1) (names + size.toNat + 1)
                  ((refs + (entryRef inodeBlock1 entOff).toNat) % 4294967296) acc

/-- `walk`: the repaired walks (visited set, nesting limit `limit` = `SQFS_MAX_DIR_NESTING` of the tree; fuel as in
`fill_dir_depth_bounded` / `dir_rec_depth_bounded`, so `diverges` cannot be answered); with `current` the walks of
the tree without `fixes/C05-dir-visited-set.patch` and `fixes/C05-nesting-limit.patch` (ancestor checks only) -/
def walkOp (fixed : Bool) (limit : Nat) (spec : String) : String :=
  match parseGraph spec with
  | some (g, root, n) =>
    if fixed then
      "tree " ++ showWalk (readTreeV g limit (limit + 2) root) ++ " tar " ++ showWalk (tarWalkV g limit (limit + 1) root)
    else
      "tree " ++ showWalk (readTree g (n + 2) root) ++ " tar " ++ showWalk (tarWalk true g (n + 3) root)
  | none => "bad-op"

def stepCore (mu : Nat) (s : St) (line : String) : St × String :=
  match words line with
  | ["img", h] => match fromHex h with
      | some b => ({ s with img := bytesToImage b, cfg := none, m := MetaSt.init }, "ok")
      | none => (s, "bad-op")
  -- `imgz <size> <hex>`: an image of `size` bytes, the given bytes in front, zeroes behind (a sparse file)
  | ["imgz", n, h] => match num n, fromHex h with
      | some n, some b =>
        if n < b.length || n > 1073741824 then (s, "bad-op") else
        ({ s with img := { bytesToImage b with size := n }, cfg := none, m := MetaSt.init }, "ok")
      | _, _ => (s, "bad-op")
  -- `valloc <0|1>`: the harness grants huge requests without memory behind them; nothing to do here
  | ["valloc", v] => if v = "0" || v = "1" then (s, "ok") else (s, "bad-op")
  | ["mr", a, b] => match u64 a, u64 b with
      | some a, some b => ({ s with cfg := some (a, b), m := MetaSt.init }, "ok")
      | _, _ => (s, "bad-op")
  | ["seek", a, b] => match s.cfg, u64 a, u64 b with
      | some c, some a, some b =>
        let r := seekX mu s.fixed (mkCfg s c) s.m a b
        ({ s with m := r.st }, showRes r)
      | _, _, _ => (s, "bad-op")
  | ["read", a] => match s.cfg, u64 a with
      | some c, some a =>
        let r := mreadX mu s.fixed (mkCfg s c) s.m a
        ({ s with m := r.st }, showRes r)
      | _, _ => (s, "bad-op")
  | ["getfrag", bs, filesz, nblk, fidx, foff, fstart, fword] =>
      match u32 bs, u64 filesz, u64 nblk, u32 fidx, u32 foff, u64 fstart, u32 fword with
      | some bs, some filesz, some nblk, some fidx, some foff, some fstart, some fword =>
        if bs == 0 then (s, "bad-op") else
        let pre := precacheFragX mu s.img bs fidx fstart fword
        let preU : Except Err Unit := match pre.1 with | .ok _ => .ok () | .error e => .error e
        -- the precache only happens when the fragment is needed
        let needs := !(nblk > 0xFFFFFFFFFFFFFFFF / bs.toUInt64) && !(nblk * bs.toUInt64 ≥ filesz)
        let out := match getFragmentX mu s.fixed bs filesz nblk foff preU with
          | .error e => "err " ++ e.name ++ unsafeTag (if needs then pre.2 else [])
          | .ok acc =>
            let sz := (acc.headD ⟨.fragOut, 0, 0, 0⟩).len
            s!"ok {sz}" ++ unsafeTag ((if needs then pre.2 else []) ++ acc)
        (s, out)
      | _, _, _, _, _, _, _ => (s, "bad-op")
  | ["stream", bs, filesz, start, fidx, foff, fstart, fword, ws] =>
      match u32 bs, u64 filesz, u64 start, u32 fidx, u32 foff, u64 fstart, u32 fword, wordsOf ws with
      | some bs, some filesz, some start, some fidx, some foff, some fstart, some fword, some ws =>
        if bs == 0 then (s, "bad-op") else
        let st : StreamSt := ⟨0, 0, filesz, 0, ws.size.toUInt32, false⟩
        let r := streamLoop mu s.fixed s.img bs ws fidx foff fstart fword 4104 2 st start "" []
        (s, r.1 ++ unsafeTag r.2)
      | _, _, _, _, _, _, _, _ => (s, "bad-op")
  | ["getblk", bs, filesz, start, idx, ws] =>
      match u32 bs, u64 filesz, u64 start, num idx, wordsOf ws with
      | some bs, some filesz, some start, some idx, some ws =>
        if bs == 0 then (s, "bad-op") else
        if idx ≥ ws.size then (s, "err OOB") else
        let (off, unpacked) := blockLocation bs ws start filesz idx
        let w := ws.getD idx 0
        let r := getBlockX mu bs .blockOut w unpacked (blkLoad s.img off w unpacked)
        (s, (match r.1 with | .ok n => s!"ok {n}" | .error e => "err " ++ e.name) ++ unsafeTag r.2)
      | _, _, _, _, _ => (s, "bad-op")
  | ["dread", bs, filesz, start, fidx, foff, fstart, fword, off, size, ws] =>
      match u32 bs, u64 filesz, u64 start, u32 fidx, u32 foff, u64 fstart, u32 fword, u64 off, u32 size, wordsOf ws with
      | some bs, some filesz, some start, some fidx, some foff, some fstart, some fword, some off, some size, some ws =>
        if bs == 0 then (s, "bad-op") else
        let blkOk := fun (i : Nat) =>
          let (o, _) := blockLocation bs ws start 0 i
          let w := ws.getD i 0
          match (getBlockX mu bs .dataBlock w bs (blkLoad s.img o w bs)).1 with | .ok _ => true | .error _ => false
        let pre := precacheFragX mu s.img bs fidx fstart fword
        let r := dataReadX mu bs (fun i => ws.getD i 0) blkOk ws.size filesz off size foff pre.1
        (s, (match r.1 with | .ok n => s!"ok {n}" | .error _ => "err") ++ unsafeTag r.2)
      | _, _, _, _, _, _, _, _, _, _ => (s, "bad-op")
  | ["inode", bs, h] => match u64 bs, fromHex h with
      | some bs, some b => if bs == 0 then (s, "bad-op") else
        ({ s with lastAllocs := fun mu => inodeAllocs mu bs (bytesToImage b) }, inodeOp mu bs (bytesToImage b))
      | _, _ => (s, "bad-op")
  | ["dirent", h] => match fromHex h with
      | some b =>
        let im := bytesToImage b
        if im.size < 8 then (s, "err") else
        let sz := le16 im 6
        if 8 + sz.toNat + 1 ≤ im.size then (s, s!"ok {sz}" ++ unsafeTag (readDirEntX mu sz)) else (s, "err")
      | none => (s, "bad-op")
  | ["unpack", used, idx, h] => match u32 used, u64 idx, fromHex h with
      | some used, some idx, some b =>
        let im := bytesToImage b
        let szAt := fun (o : UInt64) => le32 im (o.toNat + 8)
        let r := unpackIdxX mu s.fixed used szAt (idx.toNat + 2) 0 idx []
        -- the size field of the entry that was found = the last header read
        let out := match r.1 with
          | .error e => "err " ++ e.name
          | .ok () =>
            let hdrs := r.2.filter (fun a => a.buf == .idxSrc && a.len == 12)
            let off := (hdrs.getLast?.map (·.off)).getD 0
            s!"ok {szAt off.toUInt64}"
        (s, out ++ unsafeTag r.2)
      | _, _, _ => (s, "bad-op")
  | ["resolve", nm, pa] => match fromHex nm, fromHex pa with
      | some nm, some pa =>
        let r := resolveCompare s.fixed nm pa
        (s, (if r.1 then "ok" else "err NO_ENTRY") ++ unsafeTag r.2)
      | _, _ => (s, "bad-op")
  | ["super", h] => match fromHex h with
      | some b =>
        let im := bytesToImage b
        let r := superReadX mu (readFails im 0 Sqfs.Consts.sizeofSuper) (parseSuper im)
        (s, showR r.1 ++ unsafeTag r.2)
      | none => (s, "bad-op")
  | ["sb", fl, idc, frc, bu, idt, xat, ino, dts, fts, ets, root, bs] =>
      match u16 fl, u16 idc, u32 frc, u64 bu, u64 idt, u64 xat, u64 ino, u64 dts, u64 fts, u64 ets, u64 root, u32 bs with
      | some fl, some idc, some frc, some bu, some idt, some xat, some ino, some dts, some fts, some ets, some root, some bs =>
        let sb : Super :=
          { (default : Super) with
            flags := fl, idCount := idc, fragCount := frc, bytesUsed := bu, idTableStart := idt,
            xattrIdTableStart := xat, inodeTableStart := ino, dirTableStart := dts, fragTableStart := fts,
            exportTableStart := ets, rootRef := root, blockSize := bs }
        ({ s with sb := sb }, "ok")
      | _, _, _, _, _, _, _, _, _, _, _, _ => (s, "bad-op")
  | ["idtable"] =>
      let s := { s with lastAllocs := fun mu => match idTableReqX mu s.sb with
        | .ok req => readTableAllocsX mu req.tableSize
        | .error _ => [] }
      match idTableReqX mu s.sb with
      | .error e => ({ s with ids := #[], idUsed := 0 }, "err " ++ e.name)
      | .ok req =>
        match readTableEnv s.img req with
        | (.error e, acc) => ({ s with ids := #[], idUsed := 0 }, "err " ++ e.name ++ unsafeTag acc)
        | (.ok tbl, acc) =>
          let r := idTableRead s.sb (.ok ())
          ({ s with ids := tbl, idUsed := s.sb.idCount.toUInt64 }, showR r.1 ++ unsafeTag (acc ++ r.2))
  | ["idx", i] => match u16 i with
      | some i => match indexToIdX mu s.idUsed i with
        | .error e => (s, "err " ++ e.name)
        | .ok acc => (s, s!"ok {aLe32 s.ids (i.toNat * 4)}" ++ unsafeTag acc)
      | none => (s, "bad-op")
  | ["fragtable"] =>
      let s := { s with lastAllocs := fun mu => match fragTableReqX mu s.sb with
        | .ok (some req) => readTableAllocsX mu req.tableSize
        | _ => [] }
      match fragTableReqX mu s.sb with
      | .error e => ({ s with frags := #[], fragUsed := 0 }, "err " ++ e.name)
      | .ok none => ({ s with frags := #[], fragUsed := 0 }, "ok")
      | .ok (some req) =>
        match readTableEnv s.img req with
        | (.error e, acc) => ({ s with frags := #[], fragUsed := 0 }, "err " ++ e.name ++ unsafeTag acc)
        | (.ok tbl, acc) => ({ s with frags := tbl, fragUsed := s.sb.fragCount.toUInt64 }, "ok" ++ unsafeTag acc)
  | ["fragidx", i] => match u32 i with
      | some i => match fragLookupX mu s.fragUsed i with
        | .error e => (s, "err " ++ e.name)
        | .ok acc => (s, s!"ok {aLe64 s.frags (i.toNat * 16)} {aLe32 s.frags (i.toNat * 16 + 8)}" ++ unsafeTag acc)
      | none => (s, "bad-op")
  | ["xnew"] => ({ s with x := XattrSt.init, xpos := false }, "ok")
  | ["xload"] =>
      let st := s.sb.xattrIdTableStart
      let load := fun (mu : Nat) =>
        xattrLoadX mu s.sb s.x (readFails s.img st szXattrIdTable) (le64 s.img st.toNat) (le32 s.img (st.toNat + 8))
          (fun k => readFails s.img (st + szXattrIdTable.toUInt64) k)
          (fun i => le64 s.img ((st + szXattrIdTable.toUInt64).toNat + 8 * i))
      let r := load mu
      ({ s with x := r.st, xpos := false, lastAllocs := fun mu => xattrLoadAllocs (load mu) }, showR r.r ++ unsafeTag r.acc)
  | ["xdesc", i] => match u32 i with
      | some i =>
        let c := xCfg s
        let r := xattrGetDescX mu c s.x i
        -- the descriptor the call delivers: zeroes unless the table was read
        let read := i != 0xFFFFFFFF && s.x.loaded && i.toUInt64 < s.x.numIds
        let pos := i.toUInt64 * szXattrId.toUInt64
        let d := if read then
            envRead s.img c (seek c s.x.idrd (s.x.blockStarts (pos / metaCap.toUInt64).toNat) (pos % metaCap.toUInt64)).st
              szXattrId.toUInt64
          else #[]
        ({ s with x := r.st }, (match r.r with
          | .ok () => s!"ok {aLe64 d 0} {aLe32 d 8} {aLe32 d 12}"
          | .error e => "err " ++ e.name) ++ unsafeTag r.acc)
      | none => (s, "bad-op")
  | ["xseek", v] => match u64 v with
      | some v =>
        let r := xattrSeekKv (xCfg s) s.x v
        ({ s with x := r.st, xpos := r.r.isOk }, showR r.r ++ unsafeTag r.acc)
      | none => (s, "bad-op")
  | ["xkey"] =>
      if !s.x.loaded || !s.xpos then (s, "bad-op") else
      let c := xCfg s
      let a := envKvAns s.img c s.x.xattrStart s.x.kvrd
      let r := kvReadKey c a s.x.kvrd
      ({ s with x := { s.x with kvrd := r.st } }, (match r.r with
        | .ok () => s!"ok {a.ktype} {a.ksize}"
        | .error e => "err " ++ e.name) ++ unsafeTag r.acc)
  | ["xval", t] => match u16 t with
      | some t =>
        if !s.x.loaded || !s.xpos then (s, "bad-op") else
        let c := xCfg s
        -- the stream is at a value header: first header, reference and second header as `read_value_hdr` sees them
        let v := envRead s.img c s.x.kvrd 4
        let m1 := (mread true c s.x.kvrd 4).st
        let ref := aLe64 (envRead s.img c m1 8) 0
        let m2 := (mread true c m1 8).st
        let m3 := (seek c m2 (s.x.xattrStart + (ref >>> 16)) (ref &&& 0xFFFF)).st
        let a : KvAns := if isOol t then ⟨t, 0, aLe32 (envRead s.img c m3 4) 0, ref⟩ else ⟨t, 0, aLe32 v 0, 0⟩
        let r := kvReadValueX mu c s.x.xattrStart s.x.xattrEnd a s.x.kvrd
        ({ s with x := { s.x with kvrd := r.st } }, (match r.r with
          | .ok () => s!"ok {a.vsize}"
          | .error e => "err " ++ e.name) ++ unsafeTag r.acc)
      | none => (s, "bad-op")
  | ["xall", i] => match u32 i with
      | some i =>
        if i == 0xFFFFFFFF then (s, "ok 0 0") else
        let c := xCfg s
        let d := xattrGetDesc c s.x i
        match d.r with
        | .error e => ({ s with x := d.st }, "err " ++ e.name ++ unsafeTag d.acc)
        | .ok () =>
          let read := s.x.loaded && i.toUInt64 < s.x.numIds
          let pos := i.toUInt64 * szXattrId.toUInt64
          let db := if read then
              envRead s.img c (seek c s.x.idrd (s.x.blockStarts (pos / metaCap.toUInt64).toNat) (pos % metaCap.toUInt64)).st
                szXattrId.toUInt64
            else #[]
          let k := xattrSeekKv c d.st (aLe64 db 0)
          match k.r with
          | .error e => ({ s with x := k.st }, "err " ++ e.name ++ unsafeTag (d.acc ++ k.acc))
          | .ok () =>
            let r := xallLoop s.img c k.st.xattrStart k.st.xattrEnd (aLe32 db 8).toNat k.st.kvrd 0 0 (d.acc ++ k.acc)
            ({ s with x := { k.st with kvrd := r.1 } }, (match r.2.1 with
              | .ok (n, sum) => s!"ok {n} {sum}"
              | .error e => "err " ++ e.name) ++ unsafeTag r.2.2)
      | none => (s, "bad-op")
  | ["dopen", rdf, of, ty, sblk, off, sz, inum, par, cache] =>
      match u32 rdf, u32 of, u16 ty, u32 sblk, u16 off, u32 sz, u32 inum, u32 par with
      | some rdf, some of, some ty, some sblk, some off, some sz, some inum, some par =>
        if rdf > 1 then (s, "bad-op") else
        let sz := if ty == 1 then (sz.toUInt16).toUInt32 else sz          -- `dir.size` is a 16 bit field
        match openDir (rdf == 1) of s.sb.dirTableStart s.sb.rootRef (parseCache cache) ⟨ty, sblk, off, sz, inum, par⟩ with
        | .error e => (s, "err " ++ e.name)
        | .ok st =>
          let base := s!"ok {st.block} {st.offset} {st.size} {stateNum st.state} {st.dirRef} {st.parentRef}"
          match dirReadDot st with
          | some (.ok st1, a1) =>
            match dirReadDot st1 with
            | some (.ok st2, a2) => (s, base ++ s!" . {st1.entRef} .. {st2.entRef} {stateNum st2.state}" ++ unsafeTag (a1 ++ a2))
            | _ => (s, base ++ " ?")
          | _ => (s, base)
      | _, _, _, _, _, _, _, _ => (s, "bad-op")
  | ["dirlist", sblk, off, sz] =>
      match u32 sblk, u16 off, u32 sz with
      | some sblk, some off, some sz =>
        -- the window of `meta_dir` (dir_reader.c:150-159)
        let limit := s.sb.idTableStart
        let limit := if s.sb.fragTableStart < limit then s.sb.fragTableStart else limit
        let limit := if s.sb.exportTableStart < limit then s.sb.exportTableStart else limit
        let c : MetaCfg := ⟨s.sb.dirTableStart, limit, metaSrc s.img⟩
        match openDir false 0 s.sb.dirTableStart s.sb.rootRef (fun _ => none) ⟨8, sblk, off, sz, 1, 1⟩ with
        | .error e => (s, "err " ++ e.name)
        | .ok st =>
          let r := dirlistLoop mu s.img c 5001 MetaSt.init st.block st.offset ⟨st.size, 0⟩ 0 0 0 0 []
          (s, r.1 ++ unsafeTag r.2)
      | _, _, _ => (s, "bad-op")
  | ["dentry", used, ui, gi, len, nm] =>
      match u64 used, u16 ui, u16 gi, u64 len, fromHex nm with
      | some used, some ui, some gi, some len, some nm =>
        if len.toNat > nm.length + 1 then (s, "bad-op") else
        let r := dirEntryFromInodeX mu used ui gi nm len
        (s, (match r.1 with
          | .ok () => s!"ok {entryNameLen nm len}"
          | .error e => "err " ++ e.name) ++ unsafeTag r.2)
      | _, _, _, _, _ => (s, "bad-op")
  | ["codecret", outsize, ret] => match u32 outsize, ret.toInt? with
      | some o, some r => (s, if codecContract o r then "ok" else "VIOLATES")
      | _, _ => (s, "bad-op")
  | ["walk", spec] => (s, walkOp s.fixed 4096 spec)
  | ["walkl", limit, spec] => match num limit with
      | some limit => (s, walkOp s.fixed limit spec)
      | none => (s, "bad-op")
  | _ => (s, "bad-op")

/-- `allocs`: what the operation of the line before handed to the allocator (requests of `allocsFloor` bytes and more, in
order); every other operation that is not one of the loaders forgets it, as the harness does -/
def stepM (mu : Nat) (s : St) (line : String) : St × String :=
  match words line with
  | ["allocs"] => (s, "allocs " ++ ",".intercalate (((s.lastAllocs mu).filter (· ≥ allocsFloor)).map toString))
  | op :: _ =>
    let (s', out) := stepCore mu s line
    if op = "idtable" || op = "fragtable" || op = "xload" || op = "inode" then (s', out)
    else ({ s' with lastAllocs := fun _ => [] }, out)
  | [] => stepCore mu s line

def step (s : St) (line : String) : St × String := stepM 0 s line

/-- `sens` mode: the answer of the model, the mutants of the operation that answer differently from the same state, and
whether the unmutated copies agree with the originals -/
def sensStep (s : St) (line : String) : St × String :=
  let (s', base) := stepM 0 s line
  let op := (words line).headD ""
  let sites := opSites op
  if sites.isEmpty then (s', base ++ "\t") else
  let killed := (sites.flatMap siteMutants).filter fun mu => (stepM mu s line).2 != base
  let copy := (stepM copyId s line).2
  (s', base ++ "\t" ++ ",".intercalate (killed.map mutName) ++ (if copy != base then "\tSTALE " ++ copy else ""))

def run (args : List String) : IO Unit := do
  if args.contains "sens-mutants" then
    -- the list of mutants, for the floors table of the check
    for k in [0:siteNames.size] do
      for mu in siteMutants k do
        IO.println (mutName mu)
    return
  let fixed := !(args.contains "current")
  if args.contains "sens" then
    stateLoop (← IO.getStdin) (← IO.getStdout) sensStep ({ fixed := fixed } : St)
  else
    stateLoop (← IO.getStdin) (← IO.getStdout) step ({ fixed := fixed } : St)

end Driver.C05
