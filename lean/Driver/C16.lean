import Driver.Util
namespace Driver.C16
/-- stub: the model driver for C16 is not built yet -/
def run (_args : List String) : IO Unit := do
  IO.eprintln "sqfsmodel: model C16 not built yet"
end Driver.C16
