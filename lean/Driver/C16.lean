import Driver.Util
import Sqfs.Model.Quote
import Sqfs.Model.QuoteOld
import Sqfs.Model.QuoteLF
import Sqfs.Spec.Quote
import Sqfs.Spec.QuoteFs
/-
`sqfsmodel c16` — one operation per line:

  split <hexline>                                   → `ok <n> <tok>...` | `err quote` | `err esc`
  splitsep <hexsep> <hexline>                       → the same with another separator set (sort files use ",")
  possep <hexsep> <hexline>                         → `pos` with another separator set
  esc <cur|nolf> <hex>                              → `ok <hex>` | `err newline`      (`print_escaped` alone)
  dev <devno>                                       → `<major> <minor> <makedev(major, minor)>`   (glibc macros)
  mkdev <major> <minor>                             → `<makedev(major, minor)>`
  pos <hexline>                                     → `ok <dst>:<src> ...`   (cursor pairs at each token start)
  num <base> <vmax> <hex>                           → `ok <n>` | `err corrupted|overflow|oob`
  parse <keepUid> <forceUid> <keepGid> <forceGid> <hexcontent>
                                                    → `ents <k> {<name> <mode> <uid> <gid> <rdev> <flags> <extra|NULL>}* st=<status>`
  desc <cur|nolf|old> <root|NONE> <kind> <perm> <uid> <gid> <devno> <target> <ncomps> <comp>...
                                                    → `ok <hexline>` | `err <why>`
  expect <root|NONE> <kind> <perm> <uid> <gid> <devno> <target> <ncomps> <comp>...
                                                    → `ents 1 …` in the format of `parse` (the specification), or `ents 0 st=ok`
  dtree <cur|nolf|old> <root|NONE> <n> {<depth> <kind> <perm> <uid> <gid> <devno> <target> <name>}*   (pre-order, depth of root = 0)
                                                    → `ok <hex output>` | `err <why>`
  etree <root|NONE> <n> {…as dtree…}                → `ents <k> …`: the specification `specTree` of the whole tree

  fsbuild <keepUid> <forceUid> <keepGid> <forceGid> <defUid> <defGid> <defMode> <defMtime> <hexcontent>
                                                    → `tree <n> {<depth> <name> <mode> <uid> <gid> <mtime> <linkcount> <flags: 1 implicit, 4 hard link> <rdev> <extra|NULL>}* st=<status>`
                                                      (`Sqfs.QuoteFs.buildFromFile`: the pack file through the real `fstree_add_generic`)
  ntree <defUid> <defGid> <defMode> <defMtime> <root|NONE> <n> {…as dtree…}
                                                    → the same dump of the specification `Sqfs.QuoteFs.normTree`

`cur` = describe.c as in /repo (`Sqfs.QuoteLF`: quoting of 96e45c1, line-feed test of 4b35342); the other two only name a
regression: `nolf` = without the line-feed test (`Sqfs.Quote`), `old` = the pinned snapshot before 96e45c1 (`Sqfs.QuoteOld`).
Any other selector (`new`, `fix`) is read as `cur`.
-/
namespace Driver.C16
open Sqfs.Quote

def kindOf : String → Option Kind
  | "dir" => some .dir | "file" => some .file | "slink" => some .slink | "chr" => some .chr
  | "blk" => some .blk | "fifo" => some .fifo | "sock" => some .sock | "other" => some .other
  | _ => none

def showSplitErr : SplitErr → String
  | .unmatchedQuote => "quote" | .escape => "esc" | .fuel => "fuel"

def showHErr : HErr → String
  | .entry => "entry" | .keyword => "keyword" | .root => "root" | .mode => "mode" | .uidGid => "uidgid"
  | .noExtra => "noextra" | .tooMany => "toomany" | .devArgs => "devargs" | .devType => "devtype"
  | .devNum => "devnum" | .glob => "glob"

def showDErr : DErr → String
  | .insaneName => "insane" | .path => "path" | .canon => "canon" | .newline => "newline"

def showEntry (e : Entry) : String :=
  s!"{toHexTok e.name} {e.mode} {e.uid} {e.gid} {e.rdev} {e.flags} " ++ (match e.extra with | none => "NULL" | some x => toHexTok x)

def showParse (r : List Entry × Option FErr) : String :=
  let st := match r.2 with
    | none => "ok"
    | some (.split e) => "split:" ++ showSplitErr e
    | some (.handle e) => "h:" ++ showHErr e
  s!"ents {r.1.length}" ++ String.join (r.1.map (fun e => " " ++ showEntry e)) ++ " st=" ++ st

def optRoot (s : String) : Option (Option (List UInt8)) :=
  if s = "NONE" then some none else (fromHex s).map some

def allSome {α} : List (Option α) → Option (List α)
  | [] => some []
  | none :: _ => none
  | some a :: r => (allSome r).map (a :: ·)

def nodeOf (kind perm uid gid devno target : String) : Option Node := do
  let k ← kindOf kind
  let t ← fromHex target
  pure { kind := k, perm := ← perm.toNat?, uid := ← uid.toNat?, gid := ← gid.toNat?, devno := ← devno.toNat?, target := t }

/-- build the forest of nodes deeper than `d` from a pre-order list; returns the forest and the unconsumed rest -/
partial def forest (d : Nat) (l : List (Nat × Sqfs.Path.Bytes × Node)) : List Tree × List (Nat × Sqfs.Path.Bytes × Node) :=
  match l with
  | [] => ([], [])
  | (dd, name, node) :: r =>
    if dd ≤ d then ([], l)
    else
      let (ch, r1) := forest dd r
      let (sib, r2) := forest d r1
      (Tree.mk name node ch :: sib, r2)

def parseNodes : List String → Option (List (Nat × Sqfs.Path.Bytes × Node))
  | [] => some []
  | d :: k :: p :: u :: g :: dv :: t :: nm :: r => do
    let n ← nodeOf k p u g dv t
    let name ← fromHex nm
    let rest ← parseNodes r
    pure ((← d.toNat?, name, n) :: rest)
  | _ => none

def showFlat (x : Nat × List UInt8 × Sqfs.QuoteFs.FAttr) : String :=
  let (depth, name, a) := x
  s!" {depth} {toHexTok name} {a.mode} {a.uid} {a.gid} {a.mtime} {a.linkCount} {(if a.implicit then 1 else 0) + (if a.hard then 4 else 0)} {a.rdev} " ++
    (match a.extra with | none => "NULL" | some x => toHexTok x)

def showFsErr : Sqfs.QuoteFs.FsErr → String
  | .inval => "inval" | .range => "range" | .notdir => "notdir" | .exist => "exist" | .mlink => "mlink"
  | .nametoolong => "nametoolong"

def showBuild (r : Sqfs.QuoteFs.FNode × Option Sqfs.QuoteFs.BuildErr) : String :=
  let st := match r.2 with
    | none => "ok"
    | some (.fs e) => "fs:" ++ showFsErr e
    | some (.parse (.split e)) => "split:" ++ showSplitErr e
    | some (.parse (.handle e)) => "h:" ++ showHErr e
  let fl := r.1.flat 0
  s!"tree {fl.length}" ++ String.join (fl.map showFlat) ++ " st=" ++ st

def descNode (which : String) (ur : Option (List UInt8)) (cs : List (List UInt8)) (n : Node) : Except DErr (List UInt8) :=
  if which = "old" then Sqfs.QuoteOld.describeNode ur cs n
  else if which = "nolf" then describeNode ur cs n
  else Sqfs.QuoteLF.describeNode ur cs n

def descTree (which : String) (ur : Option (List UInt8)) (t : Tree) : Except DErr (List UInt8) :=
  if which = "old" then Sqfs.QuoteOld.describe ur t
  else if which = "nolf" then describe ur t
  else Sqfs.QuoteLF.describe ur t

def treeOf (cnt : String) (rest : List String) : Option Tree :=
  match cnt.toNat?, parseNodes rest with
  | some k, some nodes =>
    if k ≠ nodes.length then none
    else match nodes with
      | (0, name, node) :: r =>
        let (ch, left) := forest 0 r
        if left ≠ [] then none else some (Tree.mk name node ch)
      | _ => none
  | _, _ => none

def step (line : String) : String :=
  match words line with
  | ["splitsep", hs, h] => match fromHex hs, fromHex h with
    | some sep, some s => match splitLine sep s with
      | .ok toks => s!"ok {toks.length}" ++ String.join (toks.map (fun t => " " ++ toHexTok t))
      | .error e => "err " ++ showSplitErr e
    | _, _ => "bad-op"
  | ["possep", hs, h] => match fromHex hs, fromHex h with
    | some sep, some s =>
      let s' := skipSep sep s
      match splitPos sep s.length s' 0 (s.length - s'.length) with
      | .ok l => "ok" ++ String.join (l.map (fun p => s!" {p.1}:{p.2}"))
      | .error e => "err " ++ showSplitErr e
    | _, _ => "bad-op"
  | ["esc", which, h] => match fromHex h with
    | some s =>
      if which = "nolf" then "ok " ++ toHexTok (printEscaped s)
      else
        match Sqfs.QuoteLF.printEscaped s with
        | .ok x => "ok " ++ toHexTok x
        | .error e => "err " ++ showDErr e
    | none => "bad-op"
  | ["dev", d] => match d.toNat? with
    | some d => s!"{devMajor d} {devMinor d} {makedev (devMajor d) (devMinor d)}"
    | none => "bad-op"
  | ["mkdev", a, b] => match a.toNat?, b.toNat? with
    | some a, some b => s!"{makedev a b}"
    | _, _ => "bad-op"
  | ["split", h] => match fromHex h with
    | some s => match splitLine packSep s with
      | .ok toks => s!"ok {toks.length}" ++ String.join (toks.map (fun t => " " ++ toHexTok t))
      | .error e => "err " ++ showSplitErr e
    | none => "bad-op"
  | ["pos", h] => match fromHex h with
    | some s =>
      let s' := skipSep packSep s
      match splitPos packSep s.length s' 0 (s.length - s'.length) with
      | .ok l => "ok" ++ String.join (l.map (fun p => s!" {p.1}:{p.2}"))
      | .error e => "err " ++ showSplitErr e
    | none => "bad-op"
  | ["num", b, vmax, h] => match b.toNat?, vmax.toNat?, fromHex h with
    | some b, some vmax, some s => match parseNum b 0 vmax s with
      | .ok n => s!"ok {n}"
      | .error .corrupted => "err corrupted"
      | .error .overflow => "err overflow"
      | .error .outOfBounds => "err oob"
    | _, _, _ => "bad-op"
  | ["parse", ku, fu, kg, fg, h] => match fu.toNat?, fg.toNat?, fromHex h with
    | some fu, some fg, some s =>
      showParse (fstreeFromFile { keepUid := ku = "1", forceUid := fu, keepGid := kg = "1", forceGid := fg } s)
    | _, _, _ => "bad-op"
  | "desc" :: which :: root :: kind :: perm :: uid :: gid :: devno :: target :: nc :: comps =>
    match optRoot root, nodeOf kind perm uid gid devno target, nc.toNat?, allSome (comps.map fromHex) with
    | some ur, some n, some k, some cs =>
      if k ≠ cs.length then "bad-op"
      else
        match descNode which ur cs n with
        | .ok l => "ok " ++ toHexTok l
        | .error e => "err " ++ showDErr e
    | _, _, _, _ => "bad-op"
  | "expect" :: root :: kind :: perm :: uid :: gid :: devno :: target :: nc :: comps =>
    match optRoot root, nodeOf kind perm uid gid devno target, nc.toNat?, allSome (comps.map fromHex) with
    | some ur, some n, some k, some cs =>
      if k ≠ cs.length then "bad-op"
      else match specEntry ur cs n with
        | some e => showParse ([e], none)
        | none => showParse ([], none)
    | _, _, _, _ => "bad-op"
  | "dtree" :: which :: root :: cnt :: rest =>
    match optRoot root, treeOf cnt rest with
    | some ur, some t =>
      match descTree which ur t with
      | .ok l => "ok " ++ toHexTok l
      | .error e => "err " ++ showDErr e
    | _, _ => "bad-op"
  | ["fsbuild", ku, fu, kg, fg, du, dg, dm, dt, h] =>
    match fu.toNat?, fg.toNat?, du.toNat?, dg.toNat?, dm.toNat?, dt.toNat?, fromHex h with
    | some fu, some fg, some du, some dg, some dm, some dt, some s =>
      showBuild (Sqfs.QuoteFs.buildFromFile { keepUid := ku = "1", forceUid := fu, keepGid := kg = "1", forceGid := fg }
        { uid := du, gid := dg, mode := dm, mtime := dt } s)
    | _, _, _, _, _, _, _ => "bad-op"
  | "ntree" :: du :: dg :: dm :: dt :: root :: cnt :: rest =>
    match du.toNat?, dg.toNat?, dm.toNat?, dt.toNat?, optRoot root, treeOf cnt rest with
    | some du, some dg, some dm, some dt, some ur, some t =>
      showBuild (Sqfs.QuoteFs.normTree { uid := du, gid := dg, mode := dm, mtime := dt } ur [] t, none)
    | _, _, _, _, _, _ => "bad-op"
  | "etree" :: root :: cnt :: rest =>
    match optRoot root, treeOf cnt rest with
    | some ur, some t => showParse (specTree ur [] t, none)
    | _, _ => "bad-op"
  | _ => "bad-op"

def run (_args : List String) : IO Unit := do
  lineLoop (← IO.getStdin) (← IO.getStdout) step

end Driver.C16
