import Driver.Util
namespace Driver.C02
/-- stub: the model driver for C02 is not built yet -/
def run (_args : List String) : IO Unit := do
  IO.eprintln "sqfsmodel: model C02 not built yet"
end Driver.C02
