/-
Line-protocol driver for C02 (`sqfsmodel c02`).  One operation per input line, one result line each.

  run <B> <mb> <bc 0|1> <hbits> <toy|none> <pre-hex> <nfiles> (<flags-dec> <data-hex>)×nfiles
        the block processor model (`Sqfs/Model/BlockProc.lean`) with `max_backlog = mb`, the serial pool behaviour,
        checksum = xxh32 truncated to `hbits` bits (harness/weak_xxh.c), toy run-length codec (harness/h_c08.c)
        → ok W=<n> <chk-hex8>:<flags-hex>:<data-hex>… F=<n> <start>:<word>… I=<n> <size>:<start>:<fragidx>:<fragoff>:<sparse>:<ext>:<w,…|->… Z=<file length>:<fnv1a-64 of the output file>
        | err <kind>
  runs <B> <mb> …same…     the same with `sqfs_block_processor_sync` called before every `end_file` (file still open)
  spec <B> <mb> …same…     the queue-free reference `packRef` (`Sqfs/Spec/BlockProcSpec.lean`; `mb` is ignored) → same format
  state | states <B> <mb> …same…   (`states`: with the `sync` calls of `runs`)
        → the final bookkeeping of the processor (`finish_writes_everything`): backlog, io_queue length, sequence numbers,
          items submitted to the pool, the largest number of items inside the pool at any time (serial pool: a
          function of the workload and `max_backlog`), in-flight copies left
  xxh <hbits> <data-hex>        → <hex8>           (the checksum function the driver passes as `h`)
  sde <value-hex|none>           → <mtime>          (`get_source_date_epoch`, `Sqfs/Model/BuildEnv.lean`)
  mtime <sde-hex|none> <defaults-mtime|-> <keep 0|1> <input mtime> → <superblock mtime> <inode mtime>
  runx <variant 0|1> <B> <mb> <bc> <hbits> <toy|none|toyf> <pre-hex> <nops> (f <flags-dec> <data-hex> | m <flags-dec> <data-hex> | s)×nops
        an API script (`Sqfs/Model/BlockProcFail.lean`): `f` = a file, `m` = `sqfs_block_processor_submit_block`, `s` =
        `sqfs_block_processor_sync`; variant 1 = the current `sync` (ends with `get_status`, /repo 69db961), 0 = the `sync` before it (drain only);
        codec `toyf` = the toy codec failing with SQFS_ERROR_COMPRESSOR on blocks that start with 0xEE, on the serial pool
        → as `run`, or `err <C error code>`
  hi <n> (<ret>:<hash-hex>/<ret>:<hash-hex>/<ret>:<hash-hex>/<rt 0|1>)×n
        monitor `obsIndependent` (`Sqfs/Model/C02Worker.lean`) on what harness/h_c02_comp.c observed of a real compressor:
        per block the result of the worker copy with its history / of a fresh compressor / of a fresh copy
        → ok | dep <index of the first block that breaks history independence or copy = original>
             | contract <index of the first block on which do_block failed or the codec contract (`obsContract`) is broken>
-/
import Driver.Util
import Sqfs.Model.BlockProc
import Sqfs.Spec.BlockProcSpec
import Sqfs.Model.ToyCodec
import Sqfs.Model.BuildEnv
import Sqfs.Model.BlockProcFail
namespace Driver.C02
open Sqfs Sqfs.BlockProc

/-! hex without deep recursion -/
def hexNib (c : UInt8) : Option UInt8 :=
  if 48 ≤ c ∧ c ≤ 57 then some (c - 48)
  else if 97 ≤ c ∧ c ≤ 102 then some (c - 87)
  else if 65 ≤ c ∧ c ≤ 70 then some (c - 55)
  else none

def fromHexFast (s : String) : Option (List UInt8) :=
  if s = "-" then some []
  else
    let b := s.toUTF8
    if b.size % 2 ≠ 0 then none
    else Id.run do
      let mut out : Array UInt8 := Array.mkEmpty (b.size / 2)
      let mut ok := true
      for i in [0:b.size / 2] do
        match hexNib (b.get! (2 * i)), hexNib (b.get! (2 * i + 1)) with
        | some x, some y => out := out.push (x * 16 + y)
        | _, _ => ok := false
      return if ok then some out.toList else none

def hexChar (n : UInt8) : UInt8 := if n < 10 then 48 + n else 87 + n

def toHexFast (bs : List UInt8) : String :=
  if bs.isEmpty then "-"
  else
    let arr := bs.foldl (fun (a : ByteArray) b => (a.push (hexChar (b / 16))).push (hexChar (b % 16))) (ByteArray.emptyWithCapacity (2 * bs.length))
    String.fromUTF8! arr

def hexNat (n : Nat) (digits : Nat) : String :=
  let rec go (n : Nat) : Nat → List Char → List Char
    | 0, acc => acc
    | d + 1, acc => go (n / 16) d (hexDigit (n % 16) :: acc)
  String.ofList (go n digits [])

/-! xxh32 with seed 0 (`lib/util/src/xxhash.c`), truncated as harness/weak_xxh.c does -/
def rotl (x : UInt32) (r : UInt32) : UInt32 := (x <<< r) ||| (x >>> (32 - r))
def p1 : UInt32 := 2654435761
def p2 : UInt32 := 2246822519
def p3 : UInt32 := 3266489917
def p4 : UInt32 := 668265263
def p5 : UInt32 := 374761393
def rd32 (a : Array UInt8) (i : Nat) : UInt32 :=
  (a[i]!).toUInt32 ||| ((a[i+1]!).toUInt32 <<< 8) ||| ((a[i+2]!).toUInt32 <<< 16) ||| ((a[i+3]!).toUInt32 <<< 24)
def round (seed input : UInt32) : UInt32 := rotl (seed + input * p2) 13 * p1

def xxh32 (d : List UInt8) : UInt32 := Id.run do
  let a := d.toArray
  let len := a.size
  let mut p := 0
  let mut h : UInt32 := p5
  if len ≥ 16 then
    let mut v1 : UInt32 := p1 + p2
    let mut v2 : UInt32 := p2
    let mut v3 : UInt32 := 0
    let mut v4 : UInt32 := p1
    for _ in [0:len / 16] do
      v1 := round v1 (rd32 a p)
      v2 := round v2 (rd32 a (p + 4))
      v3 := round v3 (rd32 a (p + 8))
      v4 := round v4 (rd32 a (p + 12))
      p := p + 16
    h := rotl v1 1 + rotl v2 7 + rotl v3 12 + rotl v4 18
  h := h + UInt32.ofNat len
  for _ in [0:(len - p) / 4] do
    h := rotl (h + rd32 a p * p3) 17 * p4
    p := p + 4
  for _ in [0:len - p] do
    h := rotl (h + (a[p]!).toUInt32 * p5) 11 * p1
    p := p + 1
  h := h ^^^ (h >>> 15)
  h := h * p2
  h := h ^^^ (h >>> 13)
  h := h * p3
  h := h ^^^ (h >>> 16)
  return h

def weakXxh (bits : Nat) (d : List UInt8) : UInt32 :=
  let h := xxh32 d
  if bits ≥ 32 then h else h &&& ((1 <<< UInt32.ofNat bits) - 1)

def fnv64 (d : List UInt8) : UInt64 :=
  d.foldl (fun h b => (h ^^^ b.toUInt64) * 1099511628211) 14695981039346656037

def showErr : Err → String
  | .sequence => "sequence"
  | .unsupported => "unsupported"
  | .internal => "internal"
  | .pool rc => s!"pool{rc}"
  | .alloc => "alloc"
  | .corrupted => "corrupted"
  | .outOfBounds => "oob"
  | .overflow => "overflow"
  | .compressor => "compressor"
  | .writer .outOfBounds => "writer-oob"
  | .writer .internal => "writer-internal"
  | .nullDeref => "null-deref"
  | .fuel => "fuel"

def showWords (ws : List Nat) : String :=
  if ws.isEmpty then "-" else ",".intercalate (ws.map toString)

def showOutput (o : Output) : String :=
  s!"ok W={o.calls.length}" ++ String.join (o.calls.map (fun c => s!" {hexNat c.chk.toNat 8}:{hexNat c.flags 4}:{toHexFast c.data}"))
    ++ s!" F={o.frags.length}" ++ String.join (o.frags.map (fun e => s!" {e.1}:{e.2}"))
    ++ s!" I={o.files.length}" ++ String.join (o.files.map (fun r =>
        s!" {r.size}:{r.start}:{r.fragIdx}:{r.fragOff}:{r.sparse}:{if r.extended then 1 else 0}:{showWords r.words}"))
    ++ s!" Z={o.file.length}:{hexNat (fnv64 o.file).toNat 16}"

def parseFiles : Nat → List String → Option (List InFile)
  | 0, [] => some []
  | 0, _ => none
  | n + 1, fl :: d :: rest => do
    let fl ← fl.toNat?
    let d ← fromHexFast d
    let r ← parseFiles n rest
    pure (⟨fl, d⟩ :: r)
  | _, _ => none

structure Job where
  P : Params
  mb : Nat
  files : List InFile

def parseJob : List String → Option Job
  | b :: mb :: bc :: hb :: codec :: pre :: nf :: rest => do
    let b ← b.toNat?
    let mb ← mb.toNat?
    let bc ← bc.toNat?
    let hb ← hb.toNat?
    let pre ← fromHexFast pre
    let nf ← nf.toNat?
    let files ← parseFiles nf rest
    let cd ← if codec = "toy" then some (ToyCodec.codec b) else if codec = "none" then some ToyCodec.ident else none
    pure ⟨{ B := b, codec := cd, h := weakXxh hb, byteCompare := bc != 0, pre := pre }, mb, files⟩
  | _ => none

def stateOp (sy : Bool) (rest : List String) : String :=
  match parseJob rest with
  | none => "bad-op"
  | some j =>
    match runProc j.P j.mb j.files sy with
    | .ok s =>
      -- the largest number of items inside the pool at any time, from the values the pool returned
      let mq := s.pool.ser.rets.foldl (fun (acc : Nat × Nat) r =>
        match r with
        | .submit 0 => (acc.1 + 1, max acc.2 (acc.1 + 1))
        | .deq (some _) => (acc.1 - 1, acc.2)
        | _ => acc) (0, 0)
      s!"ok backlog={s.backlog} ioq={s.ioQueue.length} seq={s.ioSeqNum} deq={s.ioDeqSeqNum} pending={s.pool.ser.queue.length} sub={s.pool.table.length} maxq={mq.2} inflight={s.fblkInFlight.length}"
    | .error e => "err " ++ showErr e


/-! API scripts, failing compressor -/
def marked (x : List UInt8) : Bool := x.head? == some 0xEE

def parseOps : Nat → List String → Option (List ApiOp)
  | 0, [] => some []
  | 0, _ => none
  | n + 1, "s" :: rest => do
    let r ← parseOps n rest
    pure (.sync :: r)
  | n + 1, k :: fl :: d :: rest => do
    let fl ← fl.toNat?
    let d ← fromHexFast d
    let r ← parseOps n rest
    if k = "f" then pure (.file ⟨fl, d⟩ :: r) else if k = "m" then pure (.submit fl d :: r) else none
  | _, _ => none

def runxOp : List String → String
  | v :: b :: mb :: bc :: hb :: codec :: pre :: nops :: rest =>
    match v.toNat?, b.toNat?, mb.toNat?, bc.toNat?, hb.toNat?, fromHexFast pre, nops.toNat? with
    | some v, some b, some mb, some bc, some hb, some pre, some nops =>
      match parseOps nops rest with
      | none => "bad-op"
      | some ops =>
        let cd : Option Codec := if codec = "toy" ∨ codec = "toyf" then some (ToyCodec.codec b) else if codec = "none" then some ToyCodec.ident else none
        match cd with
        | none => "bad-op"
        | some cd =>
          let P0 : Params := { B := b, codec := cd, h := weakXxh hb, byteCompare := bc != 0, pre := pre }
          let P := if codec = "toyf" then failParams P0 marked (-(Sqfs.Consts.errCompressor : Int)) else P0
          match runOps (v != 0) P mb ops with
          | .ok o => showOutput o
          | .error e => s!"err {e.code}"
    | _, _, _, _, _, _, _ => "bad-op"
  | _ => "bad-op"

def parseRH (s : String) : Option (Int × Nat) :=
  match s.splitOn ":" with
  | [r, h] => do
    let r ← r.toInt?
    let hb ← fromHexFast h
    pure (r, hb.foldl (fun a x => a * 256 + x.toNat) 0)
  | _ => none

def parseObs (s : String) : Option CompObs :=
  match s.splitOn "/" with
  | [a, b, c, rt] => do
    let a ← parseRH a
    let b ← parseRH b
    let c ← parseRH c
    pure ⟨a, b, c, rt = "1"⟩
  | _ => none

def hiOp : List String → String
  | n :: rest =>
    match n.toNat?, rest.mapM parseObs with
    | some n, some obs =>
      if obs.length ≠ n then "bad-op"
      else match obsIndependent obs, obsContract obs with
        | some i, _ => s!"dep {i}"
        | none, some i => s!"contract {i}"
        | none, none => "ok"
    | _, _ => "bad-op"
  | _ => "bad-op"

def step (line : String) : String :=
  match words line with
  | "run" :: rest =>
    match parseJob rest with
    | none => "bad-op"
    | some j =>
      match run j.P j.mb j.files with
      | .ok o => showOutput o
      | .error e => "err " ++ showErr e
  | "runs" :: rest =>
    match parseJob rest with
    | none => "bad-op"
    | some j =>
      match run j.P j.mb j.files true with
      | .ok o => showOutput o
      | .error e => "err " ++ showErr e
  | "spec" :: rest =>
    match parseJob rest with
    | none => "bad-op"
    | some j =>
      match packRef j.P j.files with
      | .ok o => showOutput o
      | .error e => "err " ++ showErr e
  | "runx" :: rest => runxOp rest
  | "hi" :: rest => hiOp rest
  | "state" :: rest => stateOp false rest
  | "states" :: rest => stateOp true rest
  | ["xxh", bits, d] =>
    match bits.toNat?, fromHexFast d with
    | some b, some d => hexNat (weakXxh b d).toNat 8
    | _, _ => "bad-op"
  | ["sde", v] =>
    if v = "none" then toString (BuildEnv.sourceDateEpoch none)
    else match fromHexFast v with
      | some b => toString (BuildEnv.sourceDateEpoch (some b))
      | none => "bad-op"
  | ["mtime", sde, dflt, keep, inp] =>
    let env : Option (Option (List UInt8)) := if sde = "none" then some none else (fromHexFast sde).map some
    let d : Option (Option Nat) := if dflt = "-" then some none else dflt.toNat?.map some
    match env, d, keep.toNat?, inp.toInt? with
    | some env, some d, some k, some i =>
      let o : BuildEnv.Options := { defaultsMtime := d, keepTime := k != 0 }
      let e : BuildEnv.ProcessEnv := ⟨env, 0, [], [], 0, []⟩
      s!"{BuildEnv.superMtime e o} {BuildEnv.inodeMtime e o i}"
    | _, _, _, _ => "bad-op"
  | _ => "bad-op"

def run (_args : List String) : IO Unit := do
  lineLoop (← IO.getStdin) (← IO.getStdout) step

end Driver.C02
