import Driver.Util
import Sqfs.Spec.Path
import Sqfs.Model.C18InPlace
namespace Driver.C18
open Sqfs.Path

def showOpt : Option Bytes → String
  | none => "fail"
  | some r => "ok " ++ toHexTok r

def step (line : String) : String :=
  match words line with
  | ["canon", h] => match fromHex h with
      | some s => showOpt (canonicalize s)
      | none => "bad-op"
  | ["spec", h] => match fromHex h with
      | some s => showOpt (specCanon s)
      | none => "bad-op"
  | ["canonmem", h, t] => match fromHex h, fromHex t with
      | some s, some tl =>
        if s.contains 0 then "bad-op" else
        -- the in-place model on the array `s ++ NUL ++ tl`; prints the whole array afterwards
        match Sqfs.PathIP.canonicalizeIP (s.length + 3) (s ++ 0 :: tl) with
        | none => "out-of-bounds"
        | some .fail => "fail"
        | some (.ok m) => "ok " ++ toHexTok m
      | _, _ => "bad-op"
  | ["norm", h, t] => match fromHex h, fromHex t with
      | some s, some tl =>
        if s.contains 0 then "bad-op" else
        -- `normalize_slashes` alone, in place, on the array `s ++ NUL ++ tl`; the functional `normalizeSlashes s`
        -- must be what the array then holds (checked here, so a difference shows as a different line)
        match Sqfs.PathIP.normalizeIP (s.length + 3) (s ++ 0 :: tl) with
        | none => "out-of-bounds"
        | some m => if Sqfs.PathIP.cstr m == some (normalizeSlashes s) then "ok " ++ toHexTok m else "model-inconsistent"
      | _, _ => "bad-op"
  | ["sane", h] => match fromHex h with
      | some s => if isFilenameSane s then "1" else "0"
      | none => "bad-op"
  | _ => "bad-op"

def run (_args : List String) : IO Unit := do
  lineLoop (← IO.getStdin) (← IO.getStdout) step

end Driver.C18
