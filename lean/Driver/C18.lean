import Driver.Util
import Sqfs.Spec.Path
namespace Driver.C18
open Sqfs.Path

def showOpt : Option Bytes → String
  | none => "fail"
  | some r => "ok " ++ toHexTok r

def step (line : String) : String :=
  match words line with
  | ["canon", h] => match fromHex h with
      | some s => showOpt (canonicalize s)
      | none => "bad-op"
  | ["spec", h] => match fromHex h with
      | some s => showOpt (specCanon s)
      | none => "bad-op"
  | ["sane", h] => match fromHex h with
      | some s => if isFilenameSane s then "1" else "0"
      | none => "bad-op"
  | _ => "bad-op"

def run (_args : List String) : IO Unit := do
  lineLoop (← IO.getStdin) (← IO.getStdout) step

end Driver.C18
