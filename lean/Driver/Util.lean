/-
Shared helpers of the line-protocol driver: hex coding, stdin loop.
-/
namespace Driver

def hexDigit (n : Nat) : Char :=
  if n < 10 then Char.ofNat (48 + n) else Char.ofNat (87 + n)

def toHex (bs : List UInt8) : String :=
  String.ofList (bs.foldr (fun b acc => hexDigit (b.toNat / 16) :: hexDigit (b.toNat % 16) :: acc) [])

def hexVal (c : Char) : Option Nat :=
  if '0' ≤ c ∧ c ≤ '9' then some (c.toNat - 48)
  else if 'a' ≤ c ∧ c ≤ 'f' then some (c.toNat - 87)
  else if 'A' ≤ c ∧ c ≤ 'F' then some (c.toNat - 55)
  else none

def fromHexList : List Char → Option (List UInt8)
  | [] => some []
  | [_] => none
  | a :: b :: r => do
    let x ← hexVal a
    let y ← hexVal b
    let t ← fromHexList r
    pure (UInt8.ofNat (x * 16 + y) :: t)

/-- `-` encodes the empty string (so every field is a non-empty token). -/
def fromHex (s : String) : Option (List UInt8) :=
  if s = "-" then some [] else fromHexList s.toList

def toHexTok (bs : List UInt8) : String :=
  if bs.isEmpty then "-" else toHex bs

def words (line : String) : List String :=
  (line.trimAscii.toString.splitOn " ").filter (· ≠ "")

/-- Stateless loop: one output line per input line. -/
partial def lineLoop (h : IO.FS.Stream) (out : IO.FS.Stream) (f : String → String) : IO Unit := do
  let line ← h.getLine
  if line.isEmpty then return ()
  out.putStrLn (f line)
  lineLoop h out f

/-- Stateful loop. -/
partial def stateLoop {σ : Type} (h : IO.FS.Stream) (out : IO.FS.Stream) (f : σ → String → σ × String) (s : σ) : IO Unit := do
  let line ← h.getLine
  if line.isEmpty then return ()
  let (s', o) := f s line
  out.putStrLn o
  stateLoop h out f s'

end Driver
