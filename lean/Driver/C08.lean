import Driver.Util
import Sqfs.Spec.BlockWriter
/-!
`sqfsmodel c08` — line protocol (one result line per input line).

Block writer (state = `Sqfs.BlockWriter.State`)
* `bw-init <prehex> <wrflags-dec>`                      → `ok`
* `bw-write <chk-hex> <flags-hex> <datahex>`            → `ok <loc> <filesize> <nblocks>` | `err oob` | `err internal`
* `bw-file`                                             → `file <hex>`
Monitor (stateless; evaluates the specification on bytes the *implementation* produced)
* `mon-slice <filehex> <loc-dec> <payloadhex>`          → `1` | `0`
-/
namespace Driver.C08
open Sqfs.BlockWriter

def hexNat (s : String) : Option Nat :=
  if s.isEmpty then none
  else s.toList.foldl (fun acc c => do
    let a ← acc
    let v ← hexVal c
    pure (a * 16 + v)) (some 0)

structure St where
  bw : State := init []

def showErr : Err → String
  | .outOfBounds => "err oob"
  | .internal => "err internal"

def step (st : St) (line : String) : St × String :=
  match words line with
  | ["bw-init", pre, wf] =>
    match fromHex pre, wf.toNat? with
    | some p, some f => ({ st with bw := init p f }, "ok")
    | _, _ => (st, "bad-op")
  | ["bw-write", chk, flags, data] =>
    match hexNat chk, hexNat flags, fromHex data with
    | some c, some f, some d =>
      match writeDataBlock st.bw (UInt32.ofNat c) f d with
      | .ok (s', loc) => ({ st with bw := s' }, s!"ok {loc} {s'.file.length} {s'.blocks.length}")
      | .error e => (st, showErr e)
    | _, _, _ => (st, "bad-op")
  | ["bw-file"] => (st, "file " ++ toHexTok st.bw.file)
  | ["mon-slice", file, loc, payload] =>
    match fromHex file, loc.toNat?, fromHex payload with
    | some f, some l, some p => (st, if slice f l p.length == p then "1" else "0")
    | _, _, _ => (st, "bad-op")
  | _ => (st, "bad-op")

def run (_args : List String) : IO Unit := do
  stateLoop (← IO.getStdin) (← IO.getStdout) step {}

end Driver.C08
