import Driver.Util
import Sqfs.Spec.BlockWriter
import Sqfs.Model.ToyCodec
import Sqfs.Model.C08Stream
import Sqfs.Spec.FragDedup
/-!
`sqfsmodel c08` — line protocol (one result line per input line).

Block writer (state = `Sqfs.BlockWriter.State`)
* `bw-init <prehex> <wrflags-dec>`                      → `ok`
* `bw-write <chk-hex> <flags-hex> <datahex>`            → `ok <loc> <filesize> <nblocks>` | `err oob` | `err internal`
* `bw-file`                                             → `file <hex>`
Checksum-free specification of the block writer (state = `Sqfs.BlockWriter.SState`)
* `sp-init <prehex>`                                    → `ok`
* `sp-write <flags-hex> <datahex>`                      → `ok <loc> <filesize> <nblocks>`
Fragment side (state = `Sqfs.FragDedup.State`; the checksum function is the table of all `(data, chk)` pairs
seen so far, i.e. the checksums the *implementation's* worker computed)
* `fd-init <maxblock-dec> <toy|ident> <bytecompare:0|1>`  → `ok`
* `fd-frag <flags-hex> <chk-hex> <datahex>`               → `sparse` | `loc <index> <offset>` | `err <kind>`
* `fd-written <index-dec>`                                → `ok` | `err <kind>`
* `fd-finish`                                             → `ok`
* `fd-block <index-dec>`                                  → `block <datahex> <open|flight|written>` | `none`
* `fd-read <index-dec>`                                   → `read <datahex>` | `none`   (what a reader gets)
Monitor (evaluates the specification on what the *implementation* produced)
* `mon-slice <filehex> <loc-dec> <payloadhex>`          → `1` | `0`
* `mon-init` → `ok`; `mon-call <chk-hex> <flags-hex> <datahex> <loc-dec>` → `ok` (collects the implementation's calls and the
  locations it returned); then
  `mon-eval <filehex>` → `mon <wf> <wfS> <readbackOk> <holdsAll> <fragBlocksOk> <shareCompleteOk>` (0/1 each: the Lean
  predicates of `Spec/BlockWriter.lean` on the implementation's call stream, locations and final file)
Call stream of the block processor (state = `Sqfs.C08Stream.State`; checksum function and, for real codecs, the
compressor are tables of what the *implementation's* workers computed)
* `st-init <blocksize-dec> <toy|table> <prehex>`          → `ok`
* `st-hash <datahex> <chk-hex>`                            → `ok` | `err h-not-a-function`
* `st-cmp <inhex> <outhex>`                                → `ok`   (table codec: `do_block` compressed in → out)
* `st-file <uflags-hex> <datahex>`                         → `blocks <n>`
* `st-submit`                                              → `S <flags-hex> <datahex>` (the block before the worker ran)
* `st-dequeue`        → `D <flags-hex> <chk-hex> <datahex> ` followed by `frag sparse` | `frag loc <i> <o>` |
                        `frag loc <i> <o> close <idx> <seq>` | `num <seq>` | `fb <seq>`
* `st-complete`                                            → `W <chk-hex8> <flags-hex4> <datahex> ok <loc> <filesize> <nblocks>`
* `st-finish`                                              → `FIN none` | `FIN close <idx> <seq>`
* `st-tbl`                                                 → `tbl <start>:<sizeword-hex>,…` | `tbl -`
* `st-bytes`                                               → `file <hex>`
* `st-check`   → `check <wfS> <holdsAll> <fragBlocksOk> <link> <fragSound>`: the Lean predicates on the model's own state
                 (`link`: `fileReadBlock = readBlock` for every written fragment block)
  errors: `err bad-event` | `err frag <kind>` | `err writer <kind>` | `err internal`
-/
namespace Driver.C08
open Sqfs.BlockWriter

def hexNat (s : String) : Option Nat :=
  if s.isEmpty then none
  else s.toList.foldl (fun acc c => do
    let a ← acc
    let v ← hexVal c
    pure (a * 16 + v)) (some 0)

structure St where
  bw : State := init []
  sp : SState := ⟨[], [], 0⟩
  fd : Sqfs.FragDedup.State := {}
  codec : Sqfs.FragDedup.Codec := Sqfs.ToyCodec.ident
  byteCompare : Bool := true
  maxBlock : Nat := 0
  htab : List (Bytes × UInt32) := []
  mcalls : List Call := []
  mlocs : List Nat := []
  stm : Sqfs.C08Stream.State := Sqfs.C08Stream.init 0 []
  stToy : Bool := true
  stHash : List (Bytes × UInt32) := []
  stCmp : List (Bytes × Bytes) := []

def showFdErr : Sqfs.FragDedup.Err → String
  | .corrupted => "err corrupted"
  | .outOfBounds => "err oob"
  | .compressor => "err compressor"
  | .badEvent => "err bad-event"

def showPlace : Sqfs.FragDedup.Place → String
  | .opened => "open"
  | .inFlight => "flight"
  | .written _ _ => "written"

def showErr : Err → String
  | .outOfBounds => "err oob"
  | .internal => "err internal"

def hexPad (n width : Nat) : String :=
  let ds := (Nat.toDigits 16 n)
  String.ofList (List.replicate (width - ds.length) '0' ++ ds)

def b2s (b : Bool) : String := if b then "1" else "0"

def stCodec (st : St) : Sqfs.FragDedup.Codec :=
  if st.stToy then Sqfs.ToyCodec.codec st.stm.B
  else { cmp := fun x => st.stCmp.lookup x, unc := fun y => (st.stCmp.find? (fun p => p.2 == y)).map (·.1) }

def stH (st : St) : Bytes → UInt32 := fun x => (st.stHash.lookup x).getD 0

def showStErr : Sqfs.C08Stream.Err → String
  | .unsupported => "err unsupported"
  | .badEvent => "err bad-event"
  | .frag e => "err frag " ++ (showFdErr e).drop 4
  | .writer e => "err writer " ++ (showErr e).drop 4
  | .internal => "err internal"

def showBlk (b : Sqfs.C08Stream.Blk) : String :=
  s!"{hexPad b.flags 1} {hexPad b.chk.toNat 8} {toHexTok b.data}"

def showOut : Sqfs.C08Stream.Out → String
  | .blocks n => s!"blocks {n}"
  | .submitted b => s!"S {hexPad b.flags 1} {toHexTok b.data}"
  | .fragment b .sparse _ => s!"D {showBlk b} frag sparse"
  | .fragment b (.loc i o) none => s!"D {showBlk b} frag loc {i} {o}"
  | .fragment b (.loc i o) (some (k, q)) => s!"D {showBlk b} frag loc {i} {o} close {k} {q}"
  | .numbered b => s!"D {showBlk b} num {b.seq}"
  | .fragBlock b => s!"D {showBlk b} fb {b.seq}"
  | .written c loc sz nb => s!"W {hexPad c.chk.toNat 8} {hexPad c.flags 4} {toHexTok c.data} ok {loc} {sz} {nb}"
  | .finished none => "FIN none"
  | .finished (some (k, q)) => s!"FIN close {k} {q}"

def stEv (st : St) (e : Sqfs.C08Stream.Ev) : St × String :=
  match Sqfs.C08Stream.step (stCodec st) (stH st) st.stm e with
  | .ok (s', o) => ({ st with stm := s' }, showOut o)
  | .error e => (st, showStErr e)

def step (st : St) (line : String) : St × String :=
  match words line with
  | ["st-init", bs, codec, pre] =>
    match bs.toNat?, fromHex pre with
    | some b, some p => ({ st with stm := Sqfs.C08Stream.init b p, stToy := codec == "toy", stHash := [], stCmp := [] }, "ok")
    | _, _ => (st, "bad-op")
  | ["st-hash", data, chk] =>
    match fromHex data, hexNat chk with
    | some d, some c =>
      match st.stHash.lookup d with
      | some c' => if c' != UInt32.ofNat c then (st, "err h-not-a-function") else (st, "ok")
      | none => ({ st with stHash := (d, UInt32.ofNat c) :: st.stHash }, "ok")
    | _, _ => (st, "bad-op")
  | ["st-cmp", a, b] =>
    match fromHex a, fromHex b with
    | some x, some y => ({ st with stCmp := (x, y) :: st.stCmp }, "ok")
    | _, _ => (st, "bad-op")
  | ["st-file", fl, data] =>
    match hexNat fl, fromHex data with
    | some f, some d => stEv st (.file f d)
    | _, _ => (st, "bad-op")
  | ["st-submit"] => stEv st .submit
  | ["st-dequeue"] => stEv st .dequeue
  | ["st-complete"] => stEv st .complete
  | ["st-finish"] => stEv st .finish
  | ["st-tbl"] =>
    (st, "tbl " ++ (if st.stm.fragTbl.isEmpty then "-" else
      ",".intercalate (st.stm.fragTbl.map (fun p => s!"{p.1}:{hexPad p.2 1}"))))
  | ["st-bytes"] => (st, "file " ++ toHexTok st.stm.bw.file)
  | ["st-check"] =>
    let s := st.stm
    let codec := stCodec st
    let link := (List.range s.fd.blocks.length).all (fun i =>
      match s.fd.blocks[i]? with
      | some ⟨_, .written _ _, _⟩ => Sqfs.C08Stream.fileReadBlock codec s i == Sqfs.FragDedup.readBlock codec s.fd i
      | _ => true)
    (st, s!"check {b2s (wfS false s.calls)} {b2s (holdsAll s.bw.file (claimsOf false [] s.calls) s.locs)} " ++
         s!"{b2s (fragBlocksOk s.bw.file s.calls s.locs)} {b2s link} {b2s (Sqfs.FragDedup.fragSoundOk codec s.fd s.fevs s.fres)}")
  | ["mon-init"] => ({ st with mcalls := [], mlocs := [] }, "ok")
  | ["mon-call", chk, flags, data, loc] =>
    match hexNat chk, hexNat flags, fromHex data, loc.toNat? with
    | some c, some f, some d, some l =>
      ({ st with mcalls := st.mcalls ++ [⟨UInt32.ofNat c, f, d⟩], mlocs := st.mlocs ++ [l] }, "ok")
    | _, _, _, _ => (st, "bad-op")
  | ["mon-eval", file] =>
    match fromHex file with
    | some f =>
      let cs := st.mcalls
      let ls := st.mlocs
      (st, s!"mon {b2s (wf false cs)} {b2s (wfS false cs)} {b2s (readbackOk f (files [] cs) ls)} " ++
           s!"{b2s (holdsAll f (claimsOf false [] cs) ls)} {b2s (fragBlocksOk f cs ls)} {b2s (shareCompleteOk [] [] cs ls)}")
    | none => (st, "bad-op")
  | ["bw-init", pre, wf] =>
    match fromHex pre, wf.toNat? with
    | some p, some f => ({ st with bw := init p f }, "ok")
    | _, _ => (st, "bad-op")
  | ["bw-write", chk, flags, data] =>
    match hexNat chk, hexNat flags, fromHex data with
    | some c, some f, some d =>
      match writeDataBlock st.bw (UInt32.ofNat c) f d with
      | .ok (s', loc) => ({ st with bw := s' }, s!"ok {loc} {s'.file.length} {s'.blocks.length}")
      | .error e => (st, showErr e)
    | _, _, _ => (st, "bad-op")
  | ["bw-file"] => (st, "file " ++ toHexTok st.bw.file)
  | ["sp-init", pre] =>
    match fromHex pre with
    | some p => ({ st with sp := ⟨p, [], 0⟩ }, "ok")
    | none => (st, "bad-op")
  | ["sp-write", flags, data] =>
    match hexNat flags, fromHex data with
    | some f, some d =>
      let r := specWrite st.sp f d
      ({ st with sp := r.1 }, s!"ok {r.2} {r.1.file.length} {r.1.hist.length}")
    | _, _ => (st, "bad-op")
  | ["fd-init", mb, codec, bc] =>
    match mb.toNat?, bc.toNat? with
    | some m, some b =>
      let cd := if codec = "toy" then Sqfs.ToyCodec.codec m else Sqfs.ToyCodec.ident
      ({ st with fd := {}, codec := cd, byteCompare := b != 0, maxBlock := m, htab := [] }, "ok")
    | _, _ => (st, "bad-op")
  | ["fd-frag", flags, chk, data] =>
    match hexNat flags, hexNat chk, fromHex data with
    | some f, some c, some d =>
      let c32 := UInt32.ofNat c
      -- SQFS_BLK_DONT_HASH: the worker stores checksum 0 without calling the checksum function
      if Sqfs.FragDedup.hasFlag f Sqfs.Consts.blkDontHash then
        (if c32 != 0 then (st, "err dont-hash-nonzero") else go st f d)
      else
      match st.htab.lookup d with
      | some c' => if c' != c32 then (st, "err h-not-a-function") else go st f d
      | none => go { st with htab := (d, c32) :: st.htab } f d
    | _, _, _ => (st, "bad-op")
  | ["fd-written", idx] =>
    match idx.toNat? with
    | some i =>
      match Sqfs.FragDedup.blockWritten st.codec st.fd i with
      | .ok fd' => ({ st with fd := fd' }, "ok")
      | .error e => (st, showFdErr e)
    | none => (st, "bad-op")
  | ["fd-finish"] => ({ st with fd := Sqfs.FragDedup.closeOpen st.fd }, "ok")
  | ["fd-block", idx] =>
    match idx.toNat? with
    | some i =>
      match st.fd.blocks[i]? with
      | some b => (st, "block " ++ toHexTok b.data ++ " " ++ showPlace b.place)
      | none => (st, "none")
    | none => (st, "bad-op")
  | ["fd-read", idx] =>
    match idx.toNat? with
    | some i =>
      match Sqfs.FragDedup.readBlock st.codec st.fd i with
      | some d => (st, "read " ++ toHexTok d)
      | none => (st, "none")
    | none => (st, "bad-op")
  | ["mon-slice", file, loc, payload] =>
    match fromHex file, loc.toNat?, fromHex payload with
    | some f, some l, some p => (st, if slice f l p.length == p then "1" else "0")
    | _, _, _ => (st, "bad-op")
  | _ => (st, "bad-op")

where
  go (st : St) (f : Nat) (d : Bytes) : St × String :=
    let h : Bytes → UInt32 := fun x => (st.htab.lookup x).getD 0
    match Sqfs.FragDedup.processFragment st.codec h st.byteCompare st.maxBlock st.fd d f with
    | .ok (.sparse, fd') => ({ st with fd := fd' }, "sparse")
    | .ok (.loc i o, fd') => ({ st with fd := fd' }, s!"loc {i} {o}")
    | .error e => (st, showFdErr e)

def run (_args : List String) : IO Unit := do
  stateLoop (← IO.getStdin) (← IO.getStdout) step {}

end Driver.C08
