import Driver.Util
namespace Driver.C08
/-- stub: the model driver for C08 is not built yet -/
def run (_args : List String) : IO Unit := do
  IO.eprintln "sqfsmodel: model C08 not built yet"
end Driver.C08
