import Driver.Util
import Sqfs.Spec.BlockWriter
import Sqfs.Model.ToyCodec
/-!
`sqfsmodel c08` — line protocol (one result line per input line).

Block writer (state = `Sqfs.BlockWriter.State`)
* `bw-init <prehex> <wrflags-dec>`                      → `ok`
* `bw-write <chk-hex> <flags-hex> <datahex>`            → `ok <loc> <filesize> <nblocks>` | `err oob` | `err internal`
* `bw-file`                                             → `file <hex>`
Checksum-free specification of the block writer (state = `Sqfs.BlockWriter.SState`)
* `sp-init <prehex>`                                    → `ok`
* `sp-write <flags-hex> <datahex>`                      → `ok <loc> <filesize> <nblocks>`
Fragment side (state = `Sqfs.FragDedup.State`; the checksum function is the table of all `(data, chk)` pairs
seen so far, i.e. the checksums the *implementation's* worker computed)
* `fd-init <maxblock-dec> <toy|ident> <bytecompare:0|1>`  → `ok`
* `fd-frag <flags-hex> <chk-hex> <datahex>`               → `sparse` | `loc <index> <offset>` | `err <kind>`
* `fd-written <index-dec>`                                → `ok` | `err <kind>`
* `fd-finish`                                             → `ok`
* `fd-block <index-dec>`                                  → `block <datahex> <open|flight|written>` | `none`
* `fd-read <index-dec>`                                   → `read <datahex>` | `none`   (what a reader gets)
Monitor (stateless; evaluates the specification on bytes the *implementation* produced)
* `mon-slice <filehex> <loc-dec> <payloadhex>`          → `1` | `0`
-/
namespace Driver.C08
open Sqfs.BlockWriter

def hexNat (s : String) : Option Nat :=
  if s.isEmpty then none
  else s.toList.foldl (fun acc c => do
    let a ← acc
    let v ← hexVal c
    pure (a * 16 + v)) (some 0)

structure St where
  bw : State := init []
  sp : SState := ⟨[], [], 0⟩
  fd : Sqfs.FragDedup.State := {}
  codec : Sqfs.FragDedup.Codec := Sqfs.ToyCodec.ident
  byteCompare : Bool := true
  maxBlock : Nat := 0
  htab : List (Bytes × UInt32) := []

def showFdErr : Sqfs.FragDedup.Err → String
  | .corrupted => "err corrupted"
  | .outOfBounds => "err oob"
  | .compressor => "err compressor"
  | .badEvent => "err bad-event"

def showPlace : Sqfs.FragDedup.Place → String
  | .opened => "open"
  | .inFlight => "flight"
  | .written _ _ => "written"

def showErr : Err → String
  | .outOfBounds => "err oob"
  | .internal => "err internal"

def step (st : St) (line : String) : St × String :=
  match words line with
  | ["bw-init", pre, wf] =>
    match fromHex pre, wf.toNat? with
    | some p, some f => ({ st with bw := init p f }, "ok")
    | _, _ => (st, "bad-op")
  | ["bw-write", chk, flags, data] =>
    match hexNat chk, hexNat flags, fromHex data with
    | some c, some f, some d =>
      match writeDataBlock st.bw (UInt32.ofNat c) f d with
      | .ok (s', loc) => ({ st with bw := s' }, s!"ok {loc} {s'.file.length} {s'.blocks.length}")
      | .error e => (st, showErr e)
    | _, _, _ => (st, "bad-op")
  | ["bw-file"] => (st, "file " ++ toHexTok st.bw.file)
  | ["sp-init", pre] =>
    match fromHex pre with
    | some p => ({ st with sp := ⟨p, [], 0⟩ }, "ok")
    | none => (st, "bad-op")
  | ["sp-write", flags, data] =>
    match hexNat flags, fromHex data with
    | some f, some d =>
      let r := specWrite st.sp f d
      ({ st with sp := r.1 }, s!"ok {r.2} {r.1.file.length} {r.1.hist.length}")
    | _, _ => (st, "bad-op")
  | ["fd-init", mb, codec, bc] =>
    match mb.toNat?, bc.toNat? with
    | some m, some b =>
      let cd := if codec = "toy" then Sqfs.ToyCodec.codec m else Sqfs.ToyCodec.ident
      ({ st with fd := {}, codec := cd, byteCompare := b != 0, maxBlock := m, htab := [] }, "ok")
    | _, _ => (st, "bad-op")
  | ["fd-frag", flags, chk, data] =>
    match hexNat flags, hexNat chk, fromHex data with
    | some f, some c, some d =>
      let c32 := UInt32.ofNat c
      -- SQFS_BLK_DONT_HASH: the worker stores checksum 0 without calling the checksum function
      if Sqfs.FragDedup.hasFlag f Sqfs.Consts.blkDontHash then
        (if c32 != 0 then (st, "err dont-hash-nonzero") else go st f d)
      else
      match st.htab.lookup d with
      | some c' => if c' != c32 then (st, "err h-not-a-function") else go st f d
      | none => go { st with htab := (d, c32) :: st.htab } f d
    | _, _, _ => (st, "bad-op")
  | ["fd-written", idx] =>
    match idx.toNat? with
    | some i =>
      match Sqfs.FragDedup.blockWritten st.codec st.fd i with
      | .ok fd' => ({ st with fd := fd' }, "ok")
      | .error e => (st, showFdErr e)
    | none => (st, "bad-op")
  | ["fd-finish"] => ({ st with fd := Sqfs.FragDedup.closeOpen st.fd }, "ok")
  | ["fd-block", idx] =>
    match idx.toNat? with
    | some i =>
      match st.fd.blocks[i]? with
      | some b => (st, "block " ++ toHexTok b.data ++ " " ++ showPlace b.place)
      | none => (st, "none")
    | none => (st, "bad-op")
  | ["fd-read", idx] =>
    match idx.toNat? with
    | some i =>
      match Sqfs.FragDedup.readBlock st.codec st.fd i with
      | some d => (st, "read " ++ toHexTok d)
      | none => (st, "none")
    | none => (st, "bad-op")
  | ["mon-slice", file, loc, payload] =>
    match fromHex file, loc.toNat?, fromHex payload with
    | some f, some l, some p => (st, if slice f l p.length == p then "1" else "0")
    | _, _, _ => (st, "bad-op")
  | _ => (st, "bad-op")

where
  go (st : St) (f : Nat) (d : Bytes) : St × String :=
    let h : Bytes → UInt32 := fun x => (st.htab.lookup x).getD 0
    match Sqfs.FragDedup.processFragment st.codec h st.byteCompare st.maxBlock st.fd d f with
    | .ok (.sparse, fd') => ({ st with fd := fd' }, "sparse")
    | .ok (.loc i o, fd') => ({ st with fd := fd' }, s!"loc {i} {o}")
    | .error e => (st, showFdErr e)

def run (_args : List String) : IO Unit := do
  stateLoop (← IO.getStdin) (← IO.getStdout) step {}

end Driver.C08
