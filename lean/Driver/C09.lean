/-
Model driver for C09 (worker pool).  One script per line, one result line per script.

  run <repaired:0|1> <nworkers> <rcspec> <choice>*     → snapshots joined by " | " (first = initial state)
  serial <rcspec> <op>*                                 → API return values of the serial pool model
  monitor <submitted> <startedTickets> <returned>       → `ok` or the list of failing clauses

  rcspec : "-" or "d:rc,d:rc,…"  (callback return value by item; default 0)
  choice : s<d> q g x (main makes the call)   m / M (main continues / wakes spuriously)
           w<i> / W<i> (worker i continues / wakes spuriously)
  op     : s<d> q g x
  lists  : "-" or comma separated naturals

`sqfsmodel c09 rand <repaired> <nworkers> <rcspec> <seed> <count> <pSwitch%> <pSpur%> <op>*` prints `count` random
schedules of the API script that follow the model's enabled sets (to termination, quiescence or deadlock).

`sqfsmodel c09 enum <repaired> <nworkers> <rcspec> <preemptions> <spurious> <maxpaths> <op>*` is not a line
op: it prints every schedule (as a `run …` line) of the given API script that the strict relation admits with
at most that many pre-emptions and spurious wake-ups (depth first, complete when `maxpaths` is not hit; the
last line is `#paths <n> complete|truncated`).
-/
import Driver.Util
import Sqfs.Spec.Pool
namespace Driver.C09
open Sqfs.Pool

def commaList (xs : List String) : String :=
  if xs.isEmpty then "-" else ",".intercalate xs

def showItems (l : List Item) : String :=
  commaList (l.map fun it => s!"{it.ticket}:{it.data}")

def b01 (b : Bool) : String := if b then "1" else "0"

def showW : WPc → String
  | .start => "start"
  | .waitQ sig => "waitQ" ++ b01 sig
  | .working it => s!"work:{it.data}"
  | .finishing it rc => s!"fin:{it.data}:{rc}"
  | .exited => "exit"

def showM : MPc → String
  | .idle => "idle"
  | .submitLock d => s!"submitLock:{d}"
  | .deqLock => "deqLock"
  | .deqWait sig => "deqWait" ++ b01 sig
  | .statusLock => "statusLock"
  | .destroyLock => "destroyLock"
  | .join i => s!"join:{i}"
  | .finished => "finished"

def showRet : Ret → String
  | .submit rc => s!"sub:{rc}"
  | .deq none => "deq:null"
  | .deq (some d) => s!"deq:{d}"
  | .status rc => s!"st:{rc}"
  | .destroyed => "destroyed"

def enabledList (s : State) : List String :=
  (if mainContEnabled s then ["m"] else []) ++
  ((List.range s.workers.length).filter (workerEnabled s)).map (fun i => s!"w{i}")

/-- snapshot of a state; `ret` is the API return value produced by the step that led here -/
def snapshot (s : State) (ret : Option Ret) : String :=
  let r := match ret with | none => "-" | some x => showRet x
  let ws := commaList (s.workers.map showW)
  if s.main = .finished then
    s!"destroyed m=finished w={ws} r={r}"
  else
    s!"Q={showItems s.queue} D={showItems s.done} S={showItems s.safeDone} nt={s.nextTicket} nd={s.nextDeq} " ++
    s!"ic={s.itemCount} st={s.status} rec={s.recycle} m={showM s.main} w={ws} r={r} " ++
    s!"en={commaList (enabledList s)} dl={b01 (isDeadlock s)}"

def parseInt (t : String) : Option Int :=
  if t.startsWith "-" then (t.drop 1).toString.toNat?.map (fun n => - (n : Int)) else t.toNat?.map (fun n => (n : Int))

def parseRcSpec (t : String) : Option (List (Nat × Int)) :=
  if t = "-" then some [] else
  (t.splitOn ",").mapM fun p =>
    match p.splitOn ":" with
    | [a, b] => do let d ← a.toNat?; let r ← parseInt b; pure (d, r)
    | _ => none

def rcFun (tbl : List (Nat × Int)) (d : Nat) : Int :=
  match tbl.find? (·.1 == d) with
  | some p => p.2
  | none => 0

def parseOp (t : String) : Option Op :=
  if t = "q" then some .dequeue
  else if t = "g" then some .getStatus
  else if t = "x" then some .destroy
  else if t.startsWith "s" then (t.drop 1).toString.toNat?.map .submit
  else none

def parseChoice (t : String) : Option Choice :=
  if t = "m" then some (.main (.cont false))
  else if t = "M" then some (.main (.cont true))
  else if t.startsWith "w" then (t.drop 1).toString.toNat?.map (.worker · false)
  else if t.startsWith "W" then (t.drop 1).toString.toNat?.map (.worker · true)
  else (parseOp t).map (fun o => .main (.call o))

def showOp : Op → String
  | .submit d => s!"s{d}"
  | .dequeue => "q"
  | .getStatus => "g"
  | .destroy => "x"

def showChoice : Choice → String
  | .main (.call o) => showOp o
  | .main (.cont false) => "m"
  | .main (.cont true) => "M"
  | .worker i false => s!"w{i}"
  | .worker i true => s!"W{i}"

def parseNatList (t : String) : Option (List Nat) :=
  if t = "-" then some [] else (t.splitOn ",").mapM (·.toNat?)

def runScript (cfg : Cfg) (n : Nat) (cs : List Choice) : String :=
  let rec go (s : State) (cs : List Choice) (acc : List String) : List String :=
    match cs with
    | [] => acc.reverse
    | c :: r =>
      match step cfg s c with
      | none => go s r ("ne" :: acc)
      | some s' =>
        let ret := if s'.rets.length > s.rets.length then s'.rets.getLast? else none
        go s' r (snapshot s' ret :: acc)
  let s0 := init n
  let fin := run cfg s0 cs
  " | ".intercalate (go s0 cs [snapshot s0 none]) ++
    s!" || sub={commaList (fin.submitted.map toString)} cb={commaList (fin.started.map fun p => s!"{p.1}:{p.2.data}")} " ++
    s!"ret={commaList (fin.returned.map toString)}"

def stepLine (line : String) : String :=
  match words line with
  | "run" :: rep :: n :: rc :: cs =>
      match (if rep = "0" then some false else if rep = "1" then some true else none), n.toNat?, parseRcSpec rc,
            cs.mapM parseChoice with
      | some rep, some n, some tbl, some cs => runScript { repaired := rep, rcOf := rcFun tbl } n cs
      | _, _, _, _ => "bad-op"
  | "serial" :: rc :: ops =>
      match parseRcSpec rc, ops.mapM parseOp with
      | some tbl, some ops => commaList ((Serial.run (rcFun tbl) Serial.init ops).rets.map showRet)
      | _, _ => "bad-op"
  | ["monitor", sub, st, ret] =>
      match parseNatList sub, parseNatList st, parseNatList ret with
      | some sub, some st, some ret =>
          let bad := (if fifoOk sub ret then [] else ["fifo"]) ++ (if onceOk st then [] else ["once"]) ++
                     (if processedOk st ret.length then [] else ["processed"])
          if bad.isEmpty then "ok" else "violated " ++ ",".intercalate bad
      | _, _, _ => "bad-op"
  | _ => "bad-op"

/-! ### schedule enumeration (validation of the model only — never an obligation) -/

structure EnumCfg where
  cfg : Cfg
  maxPaths : Nat
  header : String

/-- thread id: 0 = main, i+1 = worker i -/
def choiceTid : Choice → Nat
  | .main _ => 0
  | .worker i _ => i + 1

/-- strict choices available in `s` with the remaining API script `ops` -/
def strictChoices (s : State) (ops : List Op) : List Choice :=
  (match s.main, ops with
   | .idle, o :: _ => [Choice.main (.call o)]
   | _, _ => if mainContEnabled s then [Choice.main (.cont false)] else []) ++
  ((List.range s.workers.length).filter (workerEnabled s)).map (fun i => Choice.worker i false)

def spuriousChoices (s : State) : List Choice :=
  (match s.main with | .deqWait false => [Choice.main (.cont true)] | _ => []) ++
  ((List.range s.workers.length).filter (fun i => s.workers[i]? == some (.waitQ false))).map (fun i => Choice.worker i true)

partial def dfs (e : EnumCfg) (out : IO.FS.Stream) (count : IO.Ref Nat) (s : State) (ops : List Op)
    (last : Option Nat) (pre spur : Nat) (path : List String) : IO Unit := do
  if (← count.get) ≥ e.maxPaths then return
  let sc := strictChoices s ops
  let lastEnabled := match last with | some t => sc.any (fun c => choiceTid c == t) | none => false
  let cands := sc.filterMap fun c =>
    let cost := if lastEnabled && some (choiceTid c) != last then 1 else 0
    if cost ≤ pre then some (c, pre - cost, spur) else none
  let cands := cands ++ (if spur > 0 then (spuriousChoices s).map (fun c => (c, pre, spur - 1)) else [])
  if sc.isEmpty then
    -- terminal: nothing can run strictly (finished, quiescent, or deadlock)
    count.modify (· + 1)
    out.putStrLn (e.header ++ " " ++ " ".intercalate path.reverse)
    return
  if cands.isEmpty then return
  for (c, pre', spur') in cands do
    match step e.cfg s c with
    | none => pure ()
    | some s' =>
      let ops' := match c with | .main (.call _) => ops.drop 1 | _ => ops
      dfs e out count s' ops' (some (choiceTid c)) pre' spur' (showChoice c :: path)

def enumMain (args : List String) : IO Unit := do
  let out ← IO.getStdout
  match args with
  | rep :: n :: rc :: pre :: spur :: maxp :: ops =>
    match n.toNat?, parseRcSpec rc, pre.toNat?, spur.toNat?, maxp.toNat?, ops.mapM parseOp with
    | some n, some tbl, some pre, some spur, some maxp, some ops =>
      let e : EnumCfg := { cfg := { repaired := rep == "1", rcOf := rcFun tbl }, maxPaths := maxp,
                           header := s!"run {rep} {n} {rc}" }
      let count ← IO.mkRef 0
      dfs e out count (init n) ops none pre spur []
      let c ← count.get
      out.putStrLn s!"#paths {c} {if c ≥ maxp then "truncated" else "complete"}"
    | _, _, _, _, _, _ => out.putStrLn "bad-op"
  | _ => out.putStrLn "bad-op"

/-! ### random schedules that follow the model's enabled sets (validation only) -/

def lcg (x : Nat) : Nat := (x * 6364136223846793005 + 1442695040888963407) % 18446744073709551616

def pick {α : Type} (x : Nat) (l : List α) : Option α := l[(x / 4294967296) % l.length]?

/-- one random schedule: with probability `pSwitch`% pick any enabled thread, else keep running the last one
while it is enabled; with probability `pSpur`% take a spurious wake-up when one is possible. -/
def randPath (cfg : Cfg) (pSwitch pSpur : Nat) (fuel : Nat) (s : State) (ops : List Op) (last : Option Nat)
    (x : Nat) (acc : List String) : List String × Nat :=
  match fuel with
  | 0 => (acc.reverse, x)
  | fuel + 1 =>
    let sc := strictChoices s ops
    let sp := spuriousChoices s
    let x1 := lcg x
    let x2 := lcg x1
    let x3 := lcg x2
    let c? : Option Choice :=
      if !sp.isEmpty && (x1 / 4294967296) % 100 < pSpur then pick x2 sp
      else if sc.isEmpty then none
      else
        let keep := match last with | some t => sc.find? (fun c => choiceTid c == t) | none => none
        match keep with
        | some c => if (x2 / 4294967296) % 100 < pSwitch then pick x3 sc else some c
        | none => pick x3 sc
    match c? with
    | none => (acc.reverse, x3)
    | some c =>
      match step cfg s c with
      | none => (acc.reverse, x3)
      | some s' =>
        let ops' := match c with | .main (.call _) => ops.drop 1 | _ => ops
        randPath cfg pSwitch pSpur fuel s' ops' (some (choiceTid c)) x3 (showChoice c :: acc)

def randMain (args : List String) : IO Unit := do
  let out ← IO.getStdout
  match args with
  | rep :: n :: rc :: seed :: count :: psw :: psp :: ops =>
    match n.toNat?, parseRcSpec rc, seed.toNat?, count.toNat?, psw.toNat?, psp.toNat?, ops.mapM parseOp with
    | some n, some tbl, some seed, some count, some psw, some psp, some ops =>
      let cfg : Cfg := { repaired := rep == "1", rcOf := rcFun tbl }
      let mut x := lcg (seed + 12345)
      for _ in [0:count] do
        let (path, x') := randPath cfg psw psp 100000 (init n) ops none x []
        x := x'
        out.putStrLn (s!"run {rep} {n} {rc} " ++ " ".intercalate path)
    | _, _, _, _, _, _, _ => out.putStrLn "bad-op"
  | _ => out.putStrLn "bad-op"

def run (args : List String) : IO Unit := do
  match args with
  | "enum" :: r => enumMain r
  | "rand" :: r => randMain r
  | _ => lineLoop (← IO.getStdin) (← IO.getStdout) stepLine

end Driver.C09
