import Driver.Util
namespace Driver.C09
/-- stub: the model driver for C09 is not built yet -/
def run (_args : List String) : IO Unit := do
  IO.eprintln "sqfsmodel: model C09 not built yet"
end Driver.C09
