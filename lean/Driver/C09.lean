/-
Model driver for C09 (worker pool).  One script per line, one result line per script.

  run <repaired:0|1> <nworkers> <rcspec> <choice>*     → snapshots joined by " | " (first = initial state)
  serial <rcspec> <op>*                                 → API return values of the serial pool model
  monitor <submitted> <startedTickets> <returned>       → `ok` or the list of failing clauses
  frun <repaired:0|1> <nworkers> <rcspec> <choice>*    → the same at lock/unlock granularity (Model/C09PoolFine.lean; base calls only)
  ctxmon <events>                                       → `ok` | `undisciplined` | `violated ctx`   (Spec/C09PoolX.lean)
  apimon <rcspec> <rets> <op>*                          → `ok` | `violated api`  (rets as printed by `serial`)

`run` executes the *extended* model (Model/C09PoolX.lean: user pointers, set_worker_ptr, calloc failure); before
the script it performs, unprinted, `set_worker_ptr(i, i+1)` for every worker — exactly the set-up of harness/h_c09.c.

  rcspec : "-" or "d:rc,d:rc,…"  (callback return value by item; default 0)
  choice : s<d> q g x p<i>:<ptr> o<d> (main makes the call; p = set_worker_ptr(i, ptr), ptr 0 = NULL; o = submit
           with a failing calloc)   m / M (main continues / wakes spuriously)
           w<i> / W<i> (worker i continues / wakes spuriously)
  op     : s<d> q g x  (enum / rand additionally: p<i>:<ptr> o<d>)
  events : "-" or comma separated  P<i>:<ptr>  E<w>:<ptr>:<d>  L<w>  O<d>
  lists  : "-" or comma separated naturals

`sqfsmodel c09 rand <repaired> <nworkers> <rcspec> <seed> <count> <pSwitch%> <pSpur%> <op>*` prints `count` random
schedules of the API script that follow the model's enabled sets (to termination, quiescence or deadlock).

`sqfsmodel c09 enum <repaired> <nworkers> <rcspec> <preemptions> <spurious> <maxpaths> <op>*` is not a line
op: it prints every schedule (as a `run …` line) of the given API script that the strict relation admits with
at most that many pre-emptions and spurious wake-ups (depth first, complete when `maxpaths` is not hit; the
last line is `#paths <n> complete|truncated`).
-/
import Driver.Util
import Sqfs.Spec.Pool
import Sqfs.Spec.C09PoolX
import Sqfs.Model.C09PoolFine
namespace Driver.C09
open Sqfs.Pool

def commaList (xs : List String) : String :=
  if xs.isEmpty then "-" else ",".intercalate xs

def showItems (l : List Item) : String :=
  commaList (l.map fun it => s!"{it.ticket}:{it.data}")

def b01 (b : Bool) : String := if b then "1" else "0"

def showW : WPc → String
  | .start => "start"
  | .waitQ sig => "waitQ" ++ b01 sig
  | .working it => s!"work:{it.data}"
  | .finishing it rc => s!"fin:{it.data}:{rc}"
  | .exited => "exit"

def showM : MPc → String
  | .idle => "idle"
  | .submitLock d => s!"submitLock:{d}"
  | .deqLock => "deqLock"
  | .deqWait sig => "deqWait" ++ b01 sig
  | .statusLock => "statusLock"
  | .destroyLock => "destroyLock"
  | .join i => s!"join:{i}"
  | .finished => "finished"

def showRet : Ret → String
  | .submit rc => s!"sub:{rc}"
  | .deq none => "deq:null"
  | .deq (some d) => s!"deq:{d}"
  | .status rc => s!"st:{rc}"
  | .destroyed => "destroyed"

def xenabledList (xs : XState) : List String :=
  (if xmainContEnabled xs then ["m"] else []) ++
  ((List.range xs.base.workers.length).filter (workerEnabled xs.base)).map (fun i => s!"w{i}")

def showWX (xs : XState) (i : Nat) (pc : WPc) : String :=
  match pc with
  | .working it => s!"work:{it.data}@{xs.ctxAt.getD i 0}"
  | pc => showW pc

def showEvent : XEvent → String
  | .setPtr i p => s!"P{i}:{p}"
  | .enter w p d => s!"E{w}:{p}:{d}"
  | .leave w => s!"L{w}"
  | .oom d => s!"O{d}"

/-- snapshot of a state; `ret` is what the step that led here returned to the caller ("-": nothing) -/
def snapshot (xs : XState) (ret : String) : String :=
  let s := xs.base
  let ws := commaList ((List.range s.workers.length).map fun i => showWX xs i (s.workers.getD i .exited))
  if s.main = .finished then
    s!"destroyed m=finished w={ws} r={ret}"
  else
    let m := match xs.setPtr with | some (i, p) => s!"setPtrLock:{i}:{p}" | none => showM s.main
    s!"Q={showItems s.queue} D={showItems s.done} S={showItems s.safeDone} nt={s.nextTicket} nd={s.nextDeq} " ++
    s!"ic={s.itemCount} st={s.status} rec={s.recycle} U={commaList (xs.users.map toString)} m={m} w={ws} r={ret} " ++
    s!"en={commaList (xenabledList xs)} dl={b01 (xisDeadlock xs)}"

def parseInt (t : String) : Option Int :=
  if t.startsWith "-" then (t.drop 1).toString.toNat?.map (fun n => - (n : Int)) else t.toNat?.map (fun n => (n : Int))

def parseRcSpec (t : String) : Option (List (Nat × Int)) :=
  if t = "-" then some [] else
  (t.splitOn ",").mapM fun p =>
    match p.splitOn ":" with
    | [a, b] => do let d ← a.toNat?; let r ← parseInt b; pure (d, r)
    | _ => none

def rcFun (tbl : List (Nat × Int)) (d : Nat) : Int :=
  match tbl.find? (·.1 == d) with
  | some p => p.2
  | none => 0

def parseOp (t : String) : Option Op :=
  if t = "q" then some .dequeue
  else if t = "g" then some .getStatus
  else if t = "x" then some .destroy
  else if t.startsWith "s" then (t.drop 1).toString.toNat?.map .submit
  else none

/-- API calls of the extended model -/
inductive AOp where
  | base (o : Op)
  | setPtr (i p : Nat)
  | oom (d : Nat)

def AOp.choice : AOp → XChoice
  | .base o => .base (.main (.call o))
  | .setPtr i p => .setPtr i p
  | .oom d => .submitOom d

def parseAOp (t : String) : Option AOp :=
  if t.startsWith "p" then
    match (t.drop 1).toString.splitOn ":" with
    | [a, b] => do let i ← a.toNat?; let p ← b.toNat?; pure (.setPtr i p)
    | _ => none
  else if t.startsWith "o" then (t.drop 1).toString.toNat?.map .oom
  else (parseOp t).map .base

def parseChoice (t : String) : Option XChoice :=
  if t = "m" then some (.base (.main (.cont false)))
  else if t = "M" then some (.base (.main (.cont true)))
  else if t.startsWith "w" then (t.drop 1).toString.toNat?.map (fun i => .base (.worker i false))
  else if t.startsWith "W" then (t.drop 1).toString.toNat?.map (fun i => .base (.worker i true))
  else (parseAOp t).map AOp.choice

def showOp : Op → String
  | .submit d => s!"s{d}"
  | .dequeue => "q"
  | .getStatus => "g"
  | .destroy => "x"

def showChoice : XChoice → String
  | .base (.main (.call o)) => showOp o
  | .base (.main (.cont false)) => "m"
  | .base (.main (.cont true)) => "M"
  | .base (.worker i false) => s!"w{i}"
  | .base (.worker i true) => s!"W{i}"
  | .setPtr i p => s!"p{i}:{p}"
  | .submitOom d => s!"o{d}"

def parseNatList (t : String) : Option (List Nat) :=
  if t = "-" then some [] else (t.splitOn ",").mapM (·.toNat?)

/-- state after `thread_pool_create` and the harness's set-up calls `set_worker_ptr(i, &ctxs[i])` (pointer `i+1`) -/
def xinitSetup (cfg : Cfg) (n : Nat) : XState :=
  xrun cfg (xinit n) ((List.range n).flatMap fun i => [XChoice.setPtr i (i + 1), .base (.main (.cont false))])

/-- what a step returned to the API caller, if anything -/
def stepRet (xs xs' : XState) (c : XChoice) : String :=
  if xs'.base.rets.length > xs.base.rets.length then
    match xs'.base.rets.getLast? with | some x => showRet x | none => "-"
  else if xs.setPtr.isSome && xs'.setPtr.isNone then "set"
  else match c with
    | .setPtr _ _ => if xs'.setPtr.isNone then "set" else "-"
    | .submitOom _ => if xs'.base.main = .idle then "sub:-1" else "-"
    | _ => "-"

def runScript (cfg : Cfg) (n : Nat) (cs : List XChoice) : String :=
  let rec go (xs : XState) (cs : List XChoice) (acc : List String) : List String × XState :=
    match cs with
    | [] => (acc.reverse, xs)
    | c :: r =>
      match xstep cfg xs c with
      | none => go xs r ("ne" :: acc)
      | some xs' => go xs' r (snapshot xs' (stepRet xs xs' c) :: acc)
  let xs0 := xinitSetup cfg n
  let (snaps, fin) := go xs0 cs [snapshot xs0 "-"]
  " | ".intercalate snaps ++
    s!" || sub={commaList (fin.base.submitted.map toString)} cb={commaList (fin.base.started.map fun p => s!"{p.1}:{p.2.data}")} " ++
    s!"ret={commaList (fin.base.returned.map toString)} ev={commaList (fin.log.map showEvent)}"

def parseEvent (t : String) : Option XEvent :=
  let body := (t.drop 1).toString
  let nums := (body.splitOn ":").mapM (·.toNat?)
  if t.startsWith "P" then match nums with | some [i, p] => some (.setPtr i p) | _ => none
  else if t.startsWith "E" then match nums with | some [w, p, d] => some (.enter w p d) | _ => none
  else if t.startsWith "L" then match nums with | some [w] => some (.leave w) | _ => none
  else if t.startsWith "O" then match nums with | some [d] => some (.oom d) | _ => none
  else none

def parseEvents (t : String) : Option (List XEvent) :=
  if t = "-" then some [] else (t.splitOn ",").mapM parseEvent

def parseRet (t : String) : Option Ret :=
  if t = "destroyed" then some .destroyed
  else if t = "deq:null" then some (.deq none)
  else if t.startsWith "deq:" then (t.drop 4).toString.toNat?.map (fun d => .deq (some d))
  else if t.startsWith "sub:" then (parseInt (t.drop 4).toString).map .submit
  else if t.startsWith "st:" then (parseInt (t.drop 3).toString).map .status
  else none


/-! ### lock/unlock granularity (Model/C09PoolFine.lean) -/

def showFW : FW → String
  | .at pc => showW pc
  | .locked l => "L:" ++ showW l.pc
  | .unlocked (some it) => s!"U:{it.data}"
  | .unlocked none => "U:null"

def showFM : FM → String
  | .at pc => showM pc
  | .locked l => "L:" ++ showM l.pc
  | .unlocked (.submit st) => s!"U:submit:{st}"
  | .unlocked (.deq (some it)) => s!"U:deq:{it.data}"
  | .unlocked (.deq none) => "U:deq:null"
  | .unlocked (.status st) => s!"U:status:{st}"
  | .unlocked .destroy => "U:destroy"

def fsnapshot (fs : FState) (ret : String) : String :=
  let ws := commaList (fs.fw.map showFW)
  if fs.fm = .at .finished then
    s!"destroyed m=finished w={ws} r={ret}"
  else
    s!"Q={showItems fs.queue} D={showItems fs.done} S={showItems fs.safeDone} nt={fs.nextTicket} nd={fs.nextDeq} " ++
    s!"ic={fs.itemCount} st={fs.status} rec={fs.recycle} m={showFM fs.fm} w={ws} r={ret} mf={b01 (mutexFree fs)}"

def frunScript (cfg : Cfg) (n : Nat) (cs : List Choice) : String :=
  let rec go (fs : FState) (cs : List Choice) (acc : List String) : List String × FState :=
    match cs with
    | [] => (acc.reverse, fs)
    | c :: r =>
      match fstep cfg fs c with
      | none => go fs r ("ne" :: acc)
      | some fs' =>
        let ret := if fs'.rets.length > fs.rets.length then
            (match fs'.rets.getLast? with | some x => showRet x | none => "-") else "-"
        go fs' r (fsnapshot fs' ret :: acc)
  let fs0 := finit n
  let (snaps, fin) := go fs0 cs [fsnapshot fs0 "-"]
  " | ".intercalate snaps ++
    s!" || sub={commaList (fin.submitted.map toString)} cb={commaList (fin.started.map fun p => s!"{p.1}:{p.2.data}")} " ++
    s!"ret={commaList (fin.returned.map toString)}"

def baseChoice? : XChoice → Option Choice
  | .base c => some c
  | _ => none

def stepLine (line : String) : String :=
  match words line with
  | "run" :: rep :: n :: rc :: cs =>
      match (if rep = "0" then some false else if rep = "1" then some true else none), n.toNat?, parseRcSpec rc,
            cs.mapM parseChoice with
      | some rep, some n, some tbl, some cs => runScript { repaired := rep, rcOf := rcFun tbl } n cs
      | _, _, _, _ => "bad-op"
  | "frun" :: rep :: n :: rc :: cs =>
      match (if rep = "0" then some false else if rep = "1" then some true else none), n.toNat?, parseRcSpec rc,
            cs.mapM (fun t => (parseChoice t).bind baseChoice?) with
      | some rep, some n, some tbl, some cs => frunScript { repaired := rep, rcOf := rcFun tbl } n cs
      | _, _, _, _ => "bad-op"
  | "serial" :: rc :: ops =>
      match parseRcSpec rc, ops.mapM parseOp with
      | some tbl, some ops => commaList ((Serial.run (rcFun tbl) Serial.init ops).rets.map showRet)
      | _, _ => "bad-op"
  | ["ctxmon", ev] =>
      match parseEvents ev with
      | some log => if !disciplineOk log then "undisciplined" else if exclusiveOk log then "ok" else "violated ctx"
      | none => "bad-op"
  | "apimon" :: rc :: rets :: ops =>
      match parseRcSpec rc, (if rets = "-" then some [] else (rets.splitOn ",").mapM parseRet), ops.mapM parseOp with
      | some tbl, some rets, some ops =>
          if rets.length ≠ ops.length then "violated api (length)"
          else if apiOk (rcFun tbl) (ops.zip rets) then "ok" else "violated api"
      | _, _, _ => "bad-op"
  | ["monitor", sub, st, ret] =>
      match parseNatList sub, parseNatList st, parseNatList ret with
      | some sub, some st, some ret =>
          let bad := (if fifoOk sub ret then [] else ["fifo"]) ++ (if onceOk st then [] else ["once"]) ++
                     (if processedOk st ret.length then [] else ["processed"])
          if bad.isEmpty then "ok" else "violated " ++ ",".intercalate bad
      | _, _, _ => "bad-op"
  | _ => "bad-op"

/-! ### schedule enumeration (validation of the model only — never an obligation) -/

structure EnumCfg where
  cfg : Cfg
  maxPaths : Nat
  header : String

/-- thread id: 0 = main, i+1 = worker i -/
def choiceTid : XChoice → Nat
  | .base (.worker i _) => i + 1
  | _ => 0

def isCall : XChoice → Bool
  | .base (.main (.call _)) => true
  | .setPtr _ _ => true
  | .submitOom _ => true
  | _ => false

/-- strict choices available in `xs` with the remaining API script `ops` -/
def strictChoices (xs : XState) (ops : List AOp) : List XChoice :=
  (match decide (xs.base.main = .idle) && xs.setPtr.isNone, ops with
   | true, o :: _ => [o.choice]
   | _, _ => if xmainContEnabled xs then [XChoice.base (.main (.cont false))] else []) ++
  ((List.range xs.base.workers.length).filter (workerEnabled xs.base)).map (fun i => XChoice.base (.worker i false))

def spuriousChoices (xs : XState) : List XChoice :=
  (match xs.base.main with | .deqWait false => [XChoice.base (.main (.cont true))] | _ => []) ++
  ((List.range xs.base.workers.length).filter (fun i => xs.base.workers[i]? == some (.waitQ false))).map
    (fun i => XChoice.base (.worker i true))

partial def dfs (e : EnumCfg) (out : IO.FS.Stream) (count : IO.Ref Nat) (s : XState) (ops : List AOp)
    (last : Option Nat) (pre spur : Nat) (path : List String) : IO Unit := do
  if (← count.get) ≥ e.maxPaths then return
  let sc := strictChoices s ops
  let lastEnabled := match last with | some t => sc.any (fun c => choiceTid c == t) | none => false
  let cands := sc.filterMap fun c =>
    let cost := if lastEnabled && some (choiceTid c) != last then 1 else 0
    if cost ≤ pre then some (c, pre - cost, spur) else none
  let cands := cands ++ (if spur > 0 then (spuriousChoices s).map (fun c => (c, pre, spur - 1)) else [])
  if sc.isEmpty then
    -- terminal: nothing can run strictly (finished, quiescent, or deadlock)
    count.modify (· + 1)
    out.putStrLn (e.header ++ " " ++ " ".intercalate path.reverse)
    return
  if cands.isEmpty then return
  for (c, pre', spur') in cands do
    match xstep e.cfg s c with
    | none => pure ()
    | some s' =>
      let ops' := if isCall c then ops.drop 1 else ops
      dfs e out count s' ops' (some (choiceTid c)) pre' spur' (showChoice c :: path)

def enumMain (args : List String) : IO Unit := do
  let out ← IO.getStdout
  match args with
  | rep :: n :: rc :: pre :: spur :: maxp :: ops =>
    match n.toNat?, parseRcSpec rc, pre.toNat?, spur.toNat?, maxp.toNat?, ops.mapM parseAOp with
    | some n, some tbl, some pre, some spur, some maxp, some ops =>
      let e : EnumCfg := { cfg := { repaired := rep == "1", rcOf := rcFun tbl }, maxPaths := maxp,
                           header := s!"run {rep} {n} {rc}" }
      let count ← IO.mkRef 0
      dfs e out count (xinitSetup e.cfg n) ops none pre spur []
      let c ← count.get
      out.putStrLn s!"#paths {c} {if c ≥ maxp then "truncated" else "complete"}"
    | _, _, _, _, _, _ => out.putStrLn "bad-op"
  | _ => out.putStrLn "bad-op"

/-! ### random schedules that follow the model's enabled sets (validation only) -/

def lcg (x : Nat) : Nat := (x * 6364136223846793005 + 1442695040888963407) % 18446744073709551616

def pick {α : Type} (x : Nat) (l : List α) : Option α := l[(x / 4294967296) % l.length]?

/-- one random schedule: with probability `pSwitch`% pick any enabled thread, else keep running the last one
while it is enabled; with probability `pSpur`% take a spurious wake-up when one is possible. -/
def randPath (cfg : Cfg) (pSwitch pSpur : Nat) (fuel : Nat) (s : XState) (ops : List AOp) (last : Option Nat)
    (x : Nat) (acc : List String) : List String × Nat :=
  match fuel with
  | 0 => (acc.reverse, x)
  | fuel + 1 =>
    let sc := strictChoices s ops
    let sp := spuriousChoices s
    let x1 := lcg x
    let x2 := lcg x1
    let x3 := lcg x2
    let c? : Option XChoice :=
      if !sp.isEmpty && (x1 / 4294967296) % 100 < pSpur then pick x2 sp
      else if sc.isEmpty then none
      else
        let keep := match last with | some t => sc.find? (fun c => choiceTid c == t) | none => none
        match keep with
        | some c => if (x2 / 4294967296) % 100 < pSwitch then pick x3 sc else some c
        | none => pick x3 sc
    match c? with
    | none => (acc.reverse, x3)
    | some c =>
      match xstep cfg s c with
      | none => (acc.reverse, x3)
      | some s' =>
        let ops' := if isCall c then ops.drop 1 else ops
        randPath cfg pSwitch pSpur fuel s' ops' (some (choiceTid c)) x3 (showChoice c :: acc)

def randMain (args : List String) : IO Unit := do
  let out ← IO.getStdout
  match args with
  | rep :: n :: rc :: seed :: count :: psw :: psp :: ops =>
    match n.toNat?, parseRcSpec rc, seed.toNat?, count.toNat?, psw.toNat?, psp.toNat?, ops.mapM parseAOp with
    | some n, some tbl, some seed, some count, some psw, some psp, some ops =>
      let cfg : Cfg := { repaired := rep == "1", rcOf := rcFun tbl }
      let mut x := lcg (seed + 12345)
      for _ in [0:count] do
        let (path, x') := randPath cfg psw psp 100000 (xinitSetup cfg n) ops none x []
        x := x'
        out.putStrLn (s!"run {rep} {n} {rc} " ++ " ".intercalate path)
    | _, _, _, _, _, _, _ => out.putStrLn "bad-op"
  | _ => out.putStrLn "bad-op"

def run (args : List String) : IO Unit := do
  match args with
  | "enum" :: r => enumMain r
  | "rand" :: r => randMain r
  | _ => lineLoop (← IO.getStdin) (← IO.getStdout) stepLine

end Driver.C09
