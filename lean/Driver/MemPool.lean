import Sqfs.Model.MemPool
import Driver.Util
/-!
`sqfsmodel mempool`: the model of `lib/util/src/mempool.c` behind the line protocol of `harness/h_mempool.c`.

    create <obj_size> [F]      mem_pool_create (F: calloc fails)
    maps <base|F> ...          answers of the next mmap calls (address or MAP_FAILED); exhausted = MAP_FAILED
    alloc                      mem_pool_allocate
    free <k>                   mem_pool_free of the k-th object handed out since `create` (0-based)
    freeraw <bid> <off>        mem_pool_free of (start of block bid) + off
    state                      every block in list order
    destroy                    mem_pool_destroy: block ids in the order they are unmapped
-/
namespace Driver.MemPool
open Sqfs.MemPool

structure St where
  pool : Option Pool := none
  env : Env := ⟨[], 0⟩
  handed : Array (Nat × Nat) := #[]

def hexWord (w : Word) : String :=
  let n := w.toNat
  String.ofList ((List.range 8).map fun i => Driver.hexDigit ((n >>> (4 * (7 - i))) % 16))

def ids (bs : List Block) : String :=
  if bs.isEmpty then "-" else ",".intercalate (bs.map fun b => toString b.id)

def blockLine (b : Block) : String :=
  s!"{b.id}:{b.base}:{b.dataOff}:{b.limitOff}:{b.objFree}:" ++ (if b.bitmap.isEmpty then "-" else String.join (b.bitmap.map hexWord))

def findBlock (bs : List Block) (bid : Nat) : Option Block := bs.find? (·.id = bid)

def parseMaps : List String → Option (List (Option Nat))
  | [] => some []
  | "F" :: r => (parseMaps r).map (none :: ·)
  | t :: r => match t.toNat? with
    | some n => (parseMaps r).map (some n :: ·)
    | none => none

def doFree (s : St) (p : Pool) (bid off : Nat) : St × String :=
  match free p bid off with
  | .error .noBlock => (s, "free assert noBlock")
  | .error .misaligned => (s, "free assert misaligned")
  | .error .notAllocated => (s, "free assert notAllocated")
  | .ok p' =>
    match findBlock p'.blocks bid with
    | none => ({ s with pool := some p' }, "free ok ?")
    | some b =>
      let idx := (off - b.dataOff) / p.objSize
      ({ s with pool := some p' }, s!"free ok word={idx / 32}:{hexWord (b.bitmap.getD (idx / 32) 0)} free={b.objFree}")

def step (s : St) (line : String) : St × String :=
  match Driver.words line, s.pool with
  | ["create", o], none =>
    match o.toNat? with
    | none => (s, "bad-op")
    | some o => match create o with
      | .ok p => ({ pool := some p, env := ⟨s.env.q, 0⟩ }, s!"create ok obj={p.objSize} pool={p.poolSize} count={p.bitmapCount} hdr={HDR}")
      | .null => (s, "create null")
      | .sigfpe => (s, "create sigfpe")
      | .fuel => (s, "create model-out-of-fuel")
  | ["create", o, "F"], none =>
    match o.toNat? with
    | none => (s, "bad-op")
    | some o => match create o false with
      | .null => (s, "create null")
      | _ => (s, "bad-op")
  | "maps" :: toks, _ =>
    match parseMaps toks with
    | none => (s, "bad-op")
    | some q => ({ s with env := { s.env with q := q } }, s!"maps {q.length}")
  | ["alloc"], some p =>
    match allocate (allocFuel p s.env) p s.env with
    | (.ptr bid off, p', e') =>
      match findBlock p'.blocks bid with
      | none => (s, "alloc model-inconsistent")
      | some b =>
        let idx := (off - b.dataOff) / p.objSize
        let inside := if off + p.objSize ≤ p.poolSize then "1" else "0"
        ({ pool := some p', env := e', handed := s.handed.push (bid, off) },
         s!"alloc {bid} {off} word={idx / 32}:{hexWord (b.bitmap.getD (idx / 32) 0)} free={b.objFree} zero=1 inside={inside} blocks={ids p'.blocks}")
    | (.null, p', e') => ({ s with pool := some p', env := e' }, s!"alloc null blocks={ids p'.blocks}")
    | (.fuel, _, _) => (s, "alloc model-out-of-fuel")
  | ["free", k], some p =>
    match k.toNat? with
    | none => (s, "bad-op")
    | some k => if h : k < s.handed.size then doFree s p s.handed[k].1 s.handed[k].2 else (s, "bad-op")
  | ["freeraw", b, o], some p =>
    match b.toNat?, o.toNat? with
    | some b, some o => doFree s p b o
    | _, _ => (s, "bad-op")
  | ["state"], some p => (s, "state " ++ (if p.blocks.isEmpty then "-" else " ".intercalate (p.blocks.map blockLine)))
  | ["destroy"], some p => ({ env := ⟨s.env.q, 0⟩ }, s!"destroy {ids p.blocks}")
  | _, _ => (s, "bad-op")

def run (_args : List String) : IO Unit := do
  Driver.stateLoop (← IO.getStdin) (← IO.getStdout) step {}

end Driver.MemPool
