import Driver.Util
namespace Driver.C10
/-- stub: the model driver for C10 is not built yet -/
def run (_args : List String) : IO Unit := do
  IO.eprintln "sqfsmodel: model C10 not built yet"
end Driver.C10
