import Driver.Util
import Sqfs.Model.MetaReader
import Sqfs.Model.DataReaderCache
import Sqfs.Model.C10Dec
/-!
`sqfsmodel c10 [old|cur]` — line-protocol driver for the reader models (stateful: one in-memory file, a set of
scripted bad ranges, numbered reader objects).  No argument: the code with every repair of `fixes/C10-*.patch`
(`fix = kw = sfix = true`); `cur`: the code as it is in /repo (`sfix = false`: D33); `old`: the code before the
repairs of D2/D3/D21 (all three `false`).

    file <hex>                       -> ok <len>      (new image: forgets bad ranges and all reader objects)
    bad <off> <len> | badclr         -> ok
    mr <k> new <start> <limit>       -> ok
    mr <k> seek <b> <o>              -> st=<status>
    mr <k> read <n>                  -> st=0 data=<hex> | st=<status>
    mr <k> pos                       -> pos <block> <offset>
    mr <k> q <b> <o> <n1,n2,..|->    -> <answer on reader k> || <answer of a fresh reader with k's window>
         answer = seek=<st> reads=<st:hex;...|-> pos=<b>,<o>|-
    dr <k> new <bs> <meta_start> <loc> <count> <bytes_used> <start:word,..|->   -> st=0
         (the location arguments are for the harness, which loads the table from the image; the model is handed the entries)
    dr <k> read <filesz> <blkstart> <fragidx> <fragoff> <w1,..|-> <offset> <size> -> <answer on reader k> || <fresh>
         answer = ret=<n> data=<hex> | ret=<status>
    dr <k> block <inode> <index> | dr <k> frag <inode> | dr <k> cat <inode> <chunk>     -> <answer> || <fresh>
         answer = st=<status> | st=0 data=<hex>     (<inode> = the five tokens of `dr read`)
    dr <k> reload <meta_start> <loc> <count> <bytes_used>                              -> st=<load status>
    st <j> open <k> <inode> -> ok | st <j> get -> eof | st=<status> | data=<hex, ?? = never written> | st <j> adv <n> -> ok
    dd <k> new <inode_start> <dir_start> <id_start> <frag_start> <export_start> <root_ref> <block_size> -> ok
    dd <k> inode <ref> | ls <ref> | path <hex>      -> <answer> || <fresh>
    dd <k> open <j> <ref> -> st=<status>            dd <k> next <j> -> <answer> || <fresh>    (cursor slot j)
    xr <k> new <no_xattrs> <xattr_table_start> <id_table_start> <bytes_used> -> st=<load status>
    xr <k> desc <idx> | all <idx>                   -> <answer> || <fresh>
    xr <k> seek <xattr> | key | val | valt <type>   -> <answer>      (continue at the cursor: no fresh reader)
    idt <k> new <id_count> <id_start> <dir_start> <frag_start> <export_start> <bytes_used> -> st=<status>
    idt <k> get <idx>                               -> <answer> || <fresh>
-/
namespace Driver.C10
open Sqfs.MetaReader Sqfs.C10P

/-- super block fields a data reader's fragment table is loaded with -/
structure FragSuper where
  ms : Nat
  loc : Nat
  cnt : Nat
  used : Nat

structure DirObj where
  d : DirRd
  w0 : Nat × Nat
  w1 : Nat × Nat
  m0 : MR
  m1 : MR

structure XrObj where
  args : Bool × Nat × Nat × Nat
  x : XR
  m0 : MR
  m1 : MR
  lastKey : Option Nat := none

structure St where
  fix : Bool
  kw : Bool
  sfix : Bool
  bytes : Array UInt8 := #[]
  bad : List (Nat × Nat) := []
  mrs : Array (Option MR) := Array.replicate 16 none
  drs : Array (Option (Sqfs.DataReader.DR × FragSuper)) := Array.replicate 8 none
  sts : Array (Option (Nat × Sqfs.DataReader.Stream)) := Array.replicate 16 none
  dds : Array (Option DirObj) := Array.replicate 8 none
  curs : Array (Option Rd) := Array.replicate 16 none
  xrs : Array (Option XrObj) := Array.replicate 8 none
  idts : Array (Option ((Nat × Nat × Nat × Nat × Nat × Nat) × Except Status (List Nat))) := Array.replicate 8 none

def St.file (s : St) : File :=
  { size := s.bytes.size
    byte := fun i => s.bytes.getD i 0
    bad := fun i => s.bad.any (fun r => r.1 ≤ i && i < r.1 + r.2) }

def showSt (n : Nat) : String := if n = 0 then "0" else "-" ++ toString n

def nat? (s : String) : Option Nat := s.toNat?

def natList? (s : String) : Option (List Nat) :=
  if s = "-" then some [] else (s.splitOn ",").mapM (·.toNat?)

/-- run a query on `m`: rendered answer and the state the object is left in -/
def runQuery (fix : Bool) (f : File) (m : MR) (b o : Nat) (ns : List Nat) : String × MR :=
  let s := seek fix f toyUnc m b o
  if s.1 ≠ 0 then ("seek=" ++ showSt s.1 ++ " reads=- pos=-", s.2)
  else
    let rec go (m : MR) (ns : List Nat) (acc : List String) : List String × Option MR × MR :=
      match ns with
      | [] => (acc.reverse, some m, m)
      | n :: rest =>
        let r := read fix f toyUnc m n
        if r.1 ≠ 0 then ((showSt r.1 ++ ":-") :: acc |>.reverse, none, r.2.2)
        else go r.2.2 rest (("0:" ++ toHexTok r.2.1) :: acc)
    let (rs, fin, m') := go s.2 ns []
    let rstr := if rs.isEmpty then "-" else ";".intercalate rs
    let pstr := match fin with
      | some mm => let p := getPos mm; toString p.1 ++ "," ++ toString p.2
      | none => "-"
    ("seek=0 reads=" ++ rstr ++ " pos=" ++ pstr, m')

def pairList? (s : String) : Option (List (Nat × Nat)) :=
  if s = "-" then some [] else
  (s.splitOn ",").mapM (fun p => match p.splitOn ":" with
    | [a, b] => do let x ← a.toNat?; let y ← b.toNat?; pure (x, y)
    | _ => none)

def showRead (r : Status × Bytes) : String :=
  if r.1 ≠ 0 then "ret=" ++ showSt r.1 else "ret=" ++ toString r.2.length ++ " data=" ++ toHexTok r.2

def NONE64 : Nat := 18446744073709551615

def loadFrags (s : St) (fs : FragSuper) : Except Status (List (Nat × Nat)) :=
  fragTableRead s.fix s.file toyUnc (fs.cnt = 0) fs.cnt (if fs.cnt = 0 then NONE64 else fs.loc) fs.ms fs.used NONE64 fs.used

def freshDr (s : St) (bs : Nat) (fs : FragSuper) : Status × Sqfs.DataReader.DR :=
  let t := loadFrags s fs
  let d := Sqfs.DataReader.reload (Sqfs.DataReader.fresh bs []) t
  (match t with | .ok _ => 0 | .error e => e, d)

def inode? (ws : List String) : Option Sqfs.DataReader.Inode :=
  match ws with
  | [fsz, bst, fi, fo, bl] =>
    match nat? fsz, nat? bst, nat? fi, nat? fo, natList? bl with
    | some fsz, some bst, some fi, some fo, some bl =>
      some { fileSize := fsz, blocksStart := bst, fragIdx := fi, fragOff := fo, blocks := bl }
    | _, _, _, _, _ => none
  | _ => none

def showData (r : Except Status Bytes) : String :=
  match r with
  | .error e => "st=" ++ showSt e
  | .ok b => "st=0 data=" ++ toHexTok b

def showMem (m : List (Option UInt8)) : String :=
  if m.isEmpty then "-" else String.join (m.map fun b => match b with | some v => toHex [v] | none => "??")

/-- a whole file through a new stream: `get_buffered_data` / `advance_buffer(chunk)` until the end or an error -/
def catStream (sfix : Bool) (f : File) (d : Sqfs.DataReader.DR) (ino : Sqfs.DataReader.Inode) (chunk : Nat) :
    String × Sqfs.DataReader.DR :=
  let rec go (fuel : Nat) (d : Sqfs.DataReader.DR) (st : Sqfs.DataReader.Stream) (acc : List (Option UInt8)) :
      String × Sqfs.DataReader.DR :=
    match fuel with
    | 0 => ("st=fuel", d)
    | fuel + 1 =>
      let r := Sqfs.DataReader.streamGet sfix f toyUnc d st
      match r.1 with
      | .eof => ("st=0 data=" ++ showMem acc, r.2.2)
      | .err e => ("st=" ++ showSt e ++ " data=" ++ showMem acc, r.2.2)
      | .data b =>
        let n := if chunk = 0 then b.length else (if chunk < b.length then chunk else b.length)
        go fuel r.2.2 (Sqfs.DataReader.streamAdvance r.2.1 n) (acc ++ b.take n)
  go (ino.fileSize + ino.blocks.length + 8) d (Sqfs.DataReader.streamOpen d.blockSize ino) []

def stepDr (s : St) (k : Nat) (rest : List String) : St × String :=
  match rest with
  | ["new", bs, ms, loc, cnt, used, _] => match nat? bs, nat? ms, nat? loc, nat? cnt, nat? used with
      | some bs, some ms, some loc, some cnt, some used =>
        let fs : FragSuper := ⟨ms, loc, cnt, used⟩
        let r := freshDr s bs fs
        ({ s with drs := s.drs.set! k (some (r.2, fs)) }, "st=" ++ showSt r.1)
      | _, _, _, _, _ => (s, "bad-op")
  | _ =>
    match s.drs.getD k none with
    | none => (s, "bad-op")
    | some (d, fs) =>
      let fr := (freshDr s d.blockSize fs).2
      match rest with
      | ["reload", ms, loc, cnt, used] => match nat? ms, nat? loc, nat? cnt, nat? used with
          | some ms, some loc, some cnt, some used =>
            let fs' : FragSuper := ⟨ms, loc, cnt, used⟩
            let t := loadFrags s fs'
            ({ s with drs := s.drs.set! k (some (Sqfs.DataReader.reload d t, fs')) },
              "st=" ++ showSt (match t with | .ok _ => 0 | .error e => e))
          | _, _, _, _ => (s, "bad-op")
      | ["read", fsz, bst, fi, fo, ws, off, sz] =>
        match inode? [fsz, bst, fi, fo, ws], nat? off, nat? sz with
        | some ino, some off, some sz =>
          let r := Sqfs.DataReader.read s.kw s.file toyUnc d ino off sz
          let r2 := Sqfs.DataReader.read s.kw s.file toyUnc fr ino off sz
          ({ s with drs := s.drs.set! k (some (r.2, fs)) }, showRead r.1 ++ " || " ++ showRead r2.1)
        | _, _, _ => (s, "bad-op")
      | ["block", fsz, bst, fi, fo, ws, idx] =>
        match inode? [fsz, bst, fi, fo, ws], nat? idx with
        | some ino, some idx =>
          let r := Sqfs.DataReader.getBlockApi s.file toyUnc d.blockSize ino idx
          (s, showData r ++ " || " ++ showData r)
        | _, _ => (s, "bad-op")
      | ["frag", fsz, bst, fi, fo, ws] =>
        match inode? [fsz, bst, fi, fo, ws] with
        | some ino =>
          let r := Sqfs.DataReader.getFragment s.file toyUnc d ino
          let r2 := Sqfs.DataReader.getFragment s.file toyUnc fr ino
          ({ s with drs := s.drs.set! k (some (r.2, fs)) }, showData r.1 ++ " || " ++ showData r2.1)
        | none => (s, "bad-op")
      | ["cat", fsz, bst, fi, fo, ws, chunk] =>
        match inode? [fsz, bst, fi, fo, ws], nat? chunk with
        | some ino, some chunk =>
          let r := catStream s.sfix s.file d ino chunk
          let r2 := catStream s.sfix s.file fr ino chunk
          ({ s with drs := s.drs.set! k (some (r.2, fs)) }, r.1 ++ " || " ++ r2.1)
        | _, _ => (s, "bad-op")
      | _ => (s, "bad-op")

def stepStream (s : St) (j : Nat) (rest : List String) : St × String :=
  match rest with
  | ["open", ks, fsz, bst, fi, fo, ws] =>
    match nat? ks, inode? [fsz, bst, fi, fo, ws] with
    | some k, some ino =>
      match s.drs.getD k none with
      | some (d, _) => ({ s with sts := s.sts.set! j (some (k, Sqfs.DataReader.streamOpen d.blockSize ino)) }, "ok")
      | none => (s, "bad-op")
    | _, _ => (s, "bad-op")
  | _ =>
    match s.sts.getD j none with
    | none => (s, "bad-op")
    | some (k, st) =>
      match rest, s.drs.getD k none with
      | ["get"], some (d, fs) =>
        let r := Sqfs.DataReader.streamGet s.sfix s.file toyUnc d st
        let out := match r.1 with
          | .eof => "eof"
          | .err e => "st=" ++ showSt e
          | .data b => "data=" ++ showMem b
        ({ s with sts := s.sts.set! j (some (k, r.2.1)), drs := s.drs.set! k (some (r.2.2, fs)) }, out)
      | ["adv", n], some _ => match nat? n with
          | some n => ({ s with sts := s.sts.set! j (some (k, Sqfs.DataReader.streamAdvance st n)) }, "ok")
          | none => (s, "bad-op")
      | _, _ => (s, "bad-op")

/-! ### dir reader, xattr reader, id table -/

def runP {α : Type} (s : St) (p : Prog α) (m0 m1 : MR) : Except Status α × MR × MR :=
  let r := exec s.fix s.file toyUnc p (fun j => if j = 0 then m0 else m1)
  (r.1, r.2 0, r.2 1)

def natsStr (l : List Nat) : String := if l.isEmpty then "-" else ",".intercalate (l.map toString)

def showInode (r : Except Status InodeR) : String :=
  match r with
  | .error e => "st=" ++ showSt e
  | .ok i => "st=0 t=" ++ toString i.typ ++ " m=" ++ toString i.mode ++ " u=" ++ toString i.uid ++ " g=" ++ toString i.gid ++
      " mt=" ++ toString i.mtime ++ " i=" ++ toString i.inum ++ " f=" ++ natsStr i.fields ++ " x=" ++ toHexTok i.extra

def showEnt (e : Entry) : String :=
  toString e.offset ++ ":" ++ toString e.inodeDiff ++ ":" ++ toString e.typ ++ ":" ++ toString e.size ++ ":" ++ toHexTok e.name

def showList (r : Except Status (List (Entry × Nat))) : String :=
  match r with
  | .error e => "st=" ++ showSt e
  | .ok l => "st=0 n=" ++ toString l.length ++ " e=" ++
      (if l.isEmpty then "-" else ";".intercalate (l.map fun p => showEnt p.1 ++ ":" ++ toString p.2))

def showRef (r : Except Status Nat) : String :=
  match r with
  | .error e => "st=" ++ showSt e
  | .ok v => "st=0 ref=" ++ toString v

def showNext (r : Except Status (RdRes × Rd)) : String :=
  match r with
  | .error e => "st=" ++ showSt e
  | .ok (.eof, _) => "eof"
  | .ok (.ent e iref, _) => "ent=" ++ showEnt e ++ " ref=" ++ toString iref

def stepDd (s : St) (k : Nat) (rest : List String) : St × String :=
  match rest with
  | ["new", a, b, c, d, e, root, bs] =>
    match nat? a, nat? b, nat? c, nat? d, nat? e, nat? root, nat? bs with
    | some a, some b, some c, some d, some e, some root, some bs =>
      let w := dirRdWindows a b c d e
      let o : DirObj := { d := { inodeStart := a, dirStart := b, rootRef := root, blockSize := bs }, w0 := w.1, w1 := w.2,
                          m0 := fresh w.1.1 w.1.2, m1 := fresh w.2.1 w.2.2 }
      ({ s with dds := s.dds.set! k (some o) }, "ok")
    | _, _, _, _, _, _, _ => (s, "bad-op")
  | _ =>
    match s.dds.getD k none with
    | none => (s, "bad-op")
    | some o =>
      let f0 := fresh o.w0.1 o.w0.2
      let f1 := fresh o.w1.1 o.w1.2
      let both {α : Type} (p : Prog α) (sh : Except Status α → String) : St × String :=
        let r := runP s p o.m0 o.m1
        let r2 := runP s p f0 f1
        ({ s with dds := s.dds.set! k (some { o with m0 := r.2.1, m1 := r.2.2 }) }, sh r.1 ++ " || " ++ sh r2.1)
      match rest with
      | ["inode", ref] => match nat? ref with
          | some ref => both (o.d.getInodeP ref) showInode
          | none => (s, "bad-op")
      | ["ls", ref] => match nat? ref with
          | some ref => both (o.d.listP ref) showList
          | none => (s, "bad-op")
      | ["path", h] => match fromHex h with
          | some p => if p.contains 0 then (s, "bad-op") else both (o.d.resolveP p) showRef
          | none => (s, "bad-op")
      | ["open", j, ref] => match nat? j, nat? ref with
          | some j, some ref =>
            if j ≥ s.curs.size then (s, "bad-op") else
            let r := runP s (o.d.getInodeP ref) o.m0 o.m1
            let s1 := { s with dds := s.dds.set! k (some { o with m0 := r.2.1, m1 := r.2.2 }) }
            match r.1 with
            | .error e => ({ s1 with curs := s1.curs.set! j none }, "st=" ++ showSt e)
            | .ok ino =>
              match o.d.openDir ino with
              | .error e => ({ s1 with curs := s1.curs.set! j none }, "st=" ++ showSt e)
              | .ok it => ({ s1 with curs := s1.curs.set! j (some it) }, "st=0")
          | _, _ => (s, "bad-op")
      | ["next", j] => match nat? j with
          | some j =>
            match s.curs.getD j none with
            | none => (s, "closed")
            | some it =>
              let r := runP s (o.d.readP it) o.m0 o.m1
              let r2 := runP s (o.d.readP it) f0 f1
              let cur := match r.1 with | .ok (_, it') => some it' | .error _ => none
              ({ s with dds := s.dds.set! k (some { o with m0 := r.2.1, m1 := r.2.2 }), curs := s.curs.set! j cur },
                showNext r.1 ++ " || " ++ showNext r2.1)
          | none => (s, "bad-op")
      | _ => (s, "bad-op")

def showDesc (r : Except Status XDesc) : String :=
  match r with
  | .error e => "st=" ++ showSt e
  | .ok d => "st=0 x=" ++ toString d.xattr ++ " c=" ++ toString d.count ++ " s=" ++ toString d.size

def showKvs (r : Except Status (List (Bytes × Bytes))) : String :=
  match r with
  | .error e => "st=" ++ showSt e
  | .ok l => "st=0 n=" ++ toString l.length ++ " kv=" ++
      (if l.isEmpty then "-" else ";".intercalate (l.map fun p => toHexTok p.1 ++ ":" ++ toHexTok p.2))

def mkXr (s : St) (a : Bool × Nat × Nat × Nat) : Status × XrObj :=
  let r := xrLoad s.file a.1 a.2.1 a.2.2.1 a.2.2.2
  let w := match r.2.2 with | some w => w | none => (0, 0)
  (r.1, { args := a, x := r.2.1, m0 := fresh w.1 w.2, m1 := fresh w.1 w.2 })

def stepXr (s : St) (k : Nat) (rest : List String) : St × String :=
  match rest with
  | ["new", nx, a, b, c] => match nat? nx, nat? a, nat? b, nat? c with
      | some nx, some a, some b, some c =>
        let r := mkXr s (nx ≠ 0, a, b, c)
        ({ s with xrs := s.xrs.set! k (some r.2) }, "st=" ++ showSt r.1)
      | _, _, _, _ => (s, "bad-op")
  | _ =>
    match s.xrs.getD k none with
    | none => (s, "bad-op")
    | some o =>
      let fo := (mkXr s o.args).2
      let upd (r : MR × MR) (lk : Option Nat) : St := { s with xrs := s.xrs.set! k (some { o with m0 := r.1, m1 := r.2, lastKey := lk }) }
      match rest with
      | ["desc", idx] => match nat? idx with
          | some idx =>
            let r := runP s (o.x.getDescP idx) o.m0 o.m1
            let r2 := runP s (fo.x.getDescP idx) fo.m0 fo.m1
            (upd r.2 o.lastKey, showDesc r.1 ++ " || " ++ showDesc r2.1)
          | none => (s, "bad-op")
      | ["all", idx] => match nat? idx with
          | some idx =>
            let r := runP s (o.x.readAllP idx) o.m0 o.m1
            let r2 := runP s (fo.x.readAllP idx) fo.m0 fo.m1
            (upd r.2 none, showKvs r.1 ++ " || " ++ showKvs r2.1)
          | none => (s, "bad-op")
      | ["seek", xa] => match nat? xa with
          | some xa =>
            let r := runP s (o.x.seekKvP ⟨xa, 0, 0⟩ (.ret ())) o.m0 o.m1
            (upd r.2 none, "st=" ++ (match r.1 with | .ok _ => "0" | .error e => showSt e))
          | none => (s, "bad-op")
      | ["key"] =>
        if !o.x.loaded then (s, "noreader") else
        let r := runP s o.x.readKeyApiP o.m0 o.m1
        match r.1 with
        | .error e => (upd r.2 none, "st=" ++ showSt e)
        | .ok (t, sz, kb) => (upd r.2 (some t), "st=0 t=" ++ toString t ++ " s=" ++ toString sz ++ " k=" ++ toHexTok kb)
      | ["valt", t] =>
        if !o.x.loaded then (s, "noreader") else
        match nat? t with
        | none => (s, "bad-op")
        | some t =>
          let r := runP s (o.x.readValueApiP t) o.m0 o.m1
          match r.1 with
          | .error e => (upd r.2 none, "st=" ++ showSt e)
          | .ok v => (upd r.2 none, "st=0 v=" ++ toHexTok v)
      | ["val"] =>
        match o.lastKey with
        | none => (s, "nokey")
        | some t =>
          let r := runP s (o.x.readValueApiP t) o.m0 o.m1
          match r.1 with
          | .error e => (upd r.2 none, "st=" ++ showSt e)
          | .ok v => (upd r.2 none, "st=0 v=" ++ toHexTok v)
      | _ => (s, "bad-op")

def stepIdt (s : St) (k : Nat) (rest : List String) : St × String :=
  let load (a : Nat × Nat × Nat × Nat × Nat × Nat) := idTableRead s.fix s.file toyUnc a.1 a.2.1 a.2.2.1 a.2.2.2.1 a.2.2.2.2.1 a.2.2.2.2.2
  match rest with
  | ["new", a, b, c, d, e, g] => match nat? a, nat? b, nat? c, nat? d, nat? e, nat? g with
      | some a, some b, some c, some d, some e, some g =>
        let t := load (a, b, c, d, e, g)
        ({ s with idts := s.idts.set! k (some ((a, b, c, d, e, g), t)) }, "st=" ++ showSt (match t with | .ok _ => 0 | .error e => e))
      | _, _, _, _, _, _ => (s, "bad-op")
  | ["get", idx] =>
    match s.idts.getD k none, nat? idx with
    | some (a, t), some idx =>
      let sh (t : Except Status (List Nat)) : String :=
        match t with
        | .error _ => "noids"
        | .ok ids => match idLookup ids idx with | .error e => "st=" ++ showSt e | .ok v => "st=0 id=" ++ toString v
      (s, sh t ++ " || " ++ sh (load a))
    | _, _ => (s, "bad-op")
  | _ => (s, "bad-op")

def step (s : St) (line : String) : St × String :=
  match words line with
  | ["file", h] => match fromHex h with
      | some bs => ({ s with bytes := bs.toArray, bad := [], mrs := Array.replicate 16 none, drs := Array.replicate 8 none,
                              sts := Array.replicate 16 none, dds := Array.replicate 8 none, curs := Array.replicate 16 none,
                              xrs := Array.replicate 8 none, idts := Array.replicate 8 none }, "ok " ++ toString bs.length)
      | none => (s, "bad-op")
  | ["bad", a, b] => match nat? a, nat? b with
      | some a, some b => ({ s with bad := (a, b) :: s.bad }, "ok")
      | _, _ => (s, "bad-op")
  | ["badclr"] => ({ s with bad := [] }, "ok")
  | "dr" :: ks :: rest =>
    match nat? ks with
    | some k => if k ≥ s.drs.size then (s, "bad-op") else stepDr s k rest
    | none => (s, "bad-op")
  | "st" :: js :: rest =>
    match nat? js with
    | some j => if j ≥ s.sts.size then (s, "bad-op") else stepStream s j rest
    | none => (s, "bad-op")
  | "dd" :: ks :: rest =>
    match nat? ks with
    | some k => if k ≥ s.dds.size then (s, "bad-op") else stepDd s k rest
    | none => (s, "bad-op")
  | "xr" :: ks :: rest =>
    match nat? ks with
    | some k => if k ≥ s.xrs.size then (s, "bad-op") else stepXr s k rest
    | none => (s, "bad-op")
  | "idt" :: ks :: rest =>
    match nat? ks with
    | some k => if k ≥ s.idts.size then (s, "bad-op") else stepIdt s k rest
    | none => (s, "bad-op")
  | "mr" :: ks :: rest =>
    match nat? ks with
    | none => (s, "bad-op")
    | some k =>
      if k ≥ s.mrs.size then (s, "bad-op") else
      match rest with
      | ["new", a, b] => match nat? a, nat? b with
          | some a, some b => ({ s with mrs := s.mrs.set! k (some (fresh a b)) }, "ok")
          | _, _ => (s, "bad-op")
      | _ =>
        match s.mrs.getD k none with
        | none => (s, "bad-op")
        | some m =>
          match rest with
          | ["seek", b, o] => match nat? b, nat? o with
              | some b, some o =>
                let r := seek s.fix s.file toyUnc m b o
                ({ s with mrs := s.mrs.set! k (some r.2) }, "st=" ++ showSt r.1)
              | _, _ => (s, "bad-op")
          | ["read", n] => match nat? n with
              | some n =>
                let r := read s.fix s.file toyUnc m n
                ({ s with mrs := s.mrs.set! k (some r.2.2) },
                  if r.1 = 0 then "st=0 data=" ++ toHexTok r.2.1 else "st=" ++ showSt r.1)
              | none => (s, "bad-op")
          | ["pos"] => let p := getPos m; (s, "pos " ++ toString p.1 ++ " " ++ toString p.2)
          | ["q", b, o, ns] => match nat? b, nat? o, natList? ns with
              | some b, some o, some ns =>
                let (a1, m') := runQuery s.fix s.file m b o ns
                let (a2, _) := runQuery s.fix s.file (fresh m.start m.limit) b o ns
                ({ s with mrs := s.mrs.set! k (some m') }, a1 ++ " || " ++ a2)
              | _, _, _ => (s, "bad-op")
          | _ => (s, "bad-op")
  | _ => (s, "bad-op")

def run (args : List String) : IO Unit := do
  let old := args.contains "old"
  let cur := args.contains "cur"
  stateLoop (← IO.getStdin) (← IO.getStdout) step { fix := !old, kw := !old, sfix := !old && !cur }

end Driver.C10
