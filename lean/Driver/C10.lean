import Driver.Util
import Sqfs.Model.MetaReader
import Sqfs.Model.DataReaderCache
/-!
`sqfsmodel c10 [old]` — line-protocol driver for the reader-cache models (stateful: one in-memory file, a set of
scripted bad ranges, numbered reader objects).  `old` selects the model of the unrepaired code (`fix = false`).

    file <hex>                       -> ok <len>      (new image: forgets bad ranges and all reader objects)
    bad <off> <len> | badclr         -> ok
    mr <k> new <start> <limit>       -> ok
    mr <k> seek <b> <o>              -> st=<status>
    mr <k> read <n>                  -> st=0 data=<hex> | st=<status>
    mr <k> pos                       -> pos <block> <offset>
    mr <k> q <b> <o> <n1,n2,..|->    -> <answer on reader k> || <answer of a fresh reader with k's window>
         answer = seek=<st> reads=<st:hex;...|-> pos=<b>,<o>|-
    dr <k> new <bs> <meta_start> <loc> <count> <bytes_used> <start:word,..|->   -> st=0
         (the location arguments are for the harness, which loads the table from the image; the model is handed the entries)
    dr <k> read <filesz> <blkstart> <fragidx> <fragoff> <w1,..|-> <offset> <size> -> <answer on reader k> || <fresh>
         answer = ret=<n> data=<hex> | ret=<status>
-/
namespace Driver.C10
open Sqfs.MetaReader

structure St where
  fix : Bool
  bytes : Array UInt8 := #[]
  bad : List (Nat × Nat) := []
  mrs : Array (Option MR) := Array.replicate 16 none
  drs : Array (Option Sqfs.DataReader.DR) := Array.replicate 8 none

def St.file (s : St) : File :=
  { size := s.bytes.size
    byte := fun i => s.bytes.getD i 0
    bad := fun i => s.bad.any (fun r => r.1 ≤ i && i < r.1 + r.2) }

def showSt (n : Nat) : String := if n = 0 then "0" else "-" ++ toString n

def nat? (s : String) : Option Nat := s.toNat?

def natList? (s : String) : Option (List Nat) :=
  if s = "-" then some [] else (s.splitOn ",").mapM (·.toNat?)

/-- run a query on `m`: rendered answer and the state the object is left in -/
def runQuery (fix : Bool) (f : File) (m : MR) (b o : Nat) (ns : List Nat) : String × MR :=
  let s := seek fix f toyUnc m b o
  if s.1 ≠ 0 then ("seek=" ++ showSt s.1 ++ " reads=- pos=-", s.2)
  else
    let rec go (m : MR) (ns : List Nat) (acc : List String) : List String × Option MR × MR :=
      match ns with
      | [] => (acc.reverse, some m, m)
      | n :: rest =>
        let r := read fix f toyUnc m n
        if r.1 ≠ 0 then ((showSt r.1 ++ ":-") :: acc |>.reverse, none, r.2.2)
        else go r.2.2 rest (("0:" ++ toHexTok r.2.1) :: acc)
    let (rs, fin, m') := go s.2 ns []
    let rstr := if rs.isEmpty then "-" else ";".intercalate rs
    let pstr := match fin with
      | some mm => let p := getPos mm; toString p.1 ++ "," ++ toString p.2
      | none => "-"
    ("seek=0 reads=" ++ rstr ++ " pos=" ++ pstr, m')

def pairList? (s : String) : Option (List (Nat × Nat)) :=
  if s = "-" then some [] else
  (s.splitOn ",").mapM (fun p => match p.splitOn ":" with
    | [a, b] => do let x ← a.toNat?; let y ← b.toNat?; pure (x, y)
    | _ => none)

def showRead (r : Status × Bytes) : String :=
  if r.1 ≠ 0 then "ret=" ++ showSt r.1 else "ret=" ++ toString r.2.length ++ " data=" ++ toHexTok r.2

def stepDr (s : St) (k : Nat) (rest : List String) : St × String :=
  match rest with
  | ["new", bs, _, _, _, _, ents] => match nat? bs, pairList? ents with
      | some bs, some tbl => ({ s with drs := s.drs.set! k (some (Sqfs.DataReader.fresh bs tbl)) }, "st=0")
      | _, _ => (s, "bad-op")
  | ["read", fsz, bst, fi, fo, ws, off, sz] =>
    match s.drs.getD k none, nat? fsz, nat? bst, nat? fi, nat? fo, natList? ws, nat? off, nat? sz with
    | some d, some fsz, some bst, some fi, some fo, some ws, some off, some sz =>
      let ino : Sqfs.DataReader.Inode := { fileSize := fsz, blocksStart := bst, fragIdx := fi, fragOff := fo, blocks := ws }
      let kw := s.fix
      let r := Sqfs.DataReader.read kw s.file toyUnc d ino off sz
      let r2 := Sqfs.DataReader.read kw s.file toyUnc (Sqfs.DataReader.fresh d.blockSize d.tbl) ino off sz
      ({ s with drs := s.drs.set! k (some r.2) }, showRead r.1 ++ " || " ++ showRead r2.1)
    | _, _, _, _, _, _, _, _ => (s, "bad-op")
  | _ => (s, "bad-op")

def step (s : St) (line : String) : St × String :=
  match words line with
  | ["file", h] => match fromHex h with
      | some bs => ({ s with bytes := bs.toArray, bad := [], mrs := Array.replicate 16 none, drs := Array.replicate 8 none }, "ok " ++ toString bs.length)
      | none => (s, "bad-op")
  | ["bad", a, b] => match nat? a, nat? b with
      | some a, some b => ({ s with bad := (a, b) :: s.bad }, "ok")
      | _, _ => (s, "bad-op")
  | ["badclr"] => ({ s with bad := [] }, "ok")
  | "dr" :: ks :: rest =>
    match nat? ks with
    | some k => if k ≥ s.drs.size then (s, "bad-op") else stepDr s k rest
    | none => (s, "bad-op")
  | "mr" :: ks :: rest =>
    match nat? ks with
    | none => (s, "bad-op")
    | some k =>
      if k ≥ s.mrs.size then (s, "bad-op") else
      match rest with
      | ["new", a, b] => match nat? a, nat? b with
          | some a, some b => ({ s with mrs := s.mrs.set! k (some (fresh a b)) }, "ok")
          | _, _ => (s, "bad-op")
      | _ =>
        match s.mrs.getD k none with
        | none => (s, "bad-op")
        | some m =>
          match rest with
          | ["seek", b, o] => match nat? b, nat? o with
              | some b, some o =>
                let r := seek s.fix s.file toyUnc m b o
                ({ s with mrs := s.mrs.set! k (some r.2) }, "st=" ++ showSt r.1)
              | _, _ => (s, "bad-op")
          | ["read", n] => match nat? n with
              | some n =>
                let r := read s.fix s.file toyUnc m n
                ({ s with mrs := s.mrs.set! k (some r.2.2) },
                  if r.1 = 0 then "st=0 data=" ++ toHexTok r.2.1 else "st=" ++ showSt r.1)
              | none => (s, "bad-op")
          | ["pos"] => let p := getPos m; (s, "pos " ++ toString p.1 ++ " " ++ toString p.2)
          | ["q", b, o, ns] => match nat? b, nat? o, natList? ns with
              | some b, some o, some ns =>
                let (a1, m') := runQuery s.fix s.file m b o ns
                let (a2, _) := runQuery s.fix s.file (fresh m.start m.limit) b o ns
                ({ s with mrs := s.mrs.set! k (some m') }, a1 ++ " || " ++ a2)
              | _, _, _ => (s, "bad-op")
          | _ => (s, "bad-op")
  | _ => (s, "bad-op")

def run (args : List String) : IO Unit := do
  let fix := !(args.contains "old")
  stateLoop (← IO.getStdin) (← IO.getStdout) step { fix := fix }

end Driver.C10
