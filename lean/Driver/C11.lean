import Driver.Util
import Sqfs.Model.FsTree
import Sqfs.Spec.FsTree
/-!
`sqfsmodel c11` — line protocol driver for the model of the directory scan (property C11).

  run <sorted 0|1> <d.uid> <d.gid> <d.mtime> <d.mode> <nsteps> step*
      step   = A <path> <mode> <uid> <gid> <mtime> <rdev> <extra>                 (`fstree_add_generic` from a pack-file line)
             | L <path> <mode> <uid> <gid> <mtime> <rdev> <extra>                 (the same with SQFS_DIR_ENTRY_FLAG_HARD_LINK;
                                                                                   extra = link target)
             | G <target path> <flags> <defUid> <defGid> <defMode> <defMtime> <filePrefix> <pattern> <rootDev> forest
                                                                                  (`glob_files` / `--pack-dir`)
      forest = <n> node*        node = <name> <mode> <uid> <gid> <mtime> <dev> <ino> <rdev> <target> forest
      extra / filePrefix / pattern = "-" (absent) | "p:<hex>"
    → "ok <dump>" | "err"      (dump format: see harness/h_c11.c)
  direct <full|count> <d.uid> <d.gid> <d.mtime> <d.mode> <n> (A|L step)*
      → as `run` without glob steps; `count` prints only "ok n=<number of inodes>"   (real: fstree_add_generic called directly)
  maindefaults <d.uid> <d.gid> <dirscan flags> <force uid> <force gid>
                         → "<uid> <gid>": the default owner after mkfs.c main() has applied --set-uid and --set-gid
  isort <name>*          → the names after `insert_sorted` of each, in the order given   (real: fstree_add_generic)
  readnames <sorted 0|1> <name>*
                         → the names in the order `read_names` (dir_unix.c) leaves them in `it->names`, i.e. the order
                           the native iterator serves them (real: sqfs_dir_iterator_create_native under the readdir shim)
  cmp <a> <b>            → "<sign of compare_names/strcmp(a, b)> <1 iff strcmp(a, b) < 0 as insert_sorted tests it>"
  sortfiles <nrules> rule* <nfiles> path*     rule = <prio> <flags> <doGlob 0|1> <pathGlob 0|1> <pattern>
                         → "ok" { " <path>:<flags>" } in the order `fstree_sort_files` leaves `fs->files`
  mon-sorted <name>*     → 1 iff the list is strictly increasing in strcmp order (`Sqfs.FsTree.SortedNames`); monitor op:
                           evaluated by the check on the child lists of the trees the *implementation* built
  lt <a> <b>             → 1 iff strcmp(a, b) < 0 in the model
Numbers are decimal, names/paths hex ("-" = empty), paths are joined with '/'.
-/
namespace Driver.C11
open Sqfs.FsTree Sqfs.Consts

def splitPath (s : List UInt8) : Path :=
  (s.splitOn slash).filter (· ≠ [])

def optTok (s : String) : Option (Option (List UInt8)) :=
  if s = "-" then some none
  else if s.startsWith "p:" then (fromHex (s.drop 2).toString).map some
  else none

/-- `fnmatch` restricted to literals, `?` and `*` (with `FNM_PATHNAME`: neither matches '/') -/
partial def globMatch (pat str : List UInt8) (pathname : Bool) : Bool :=
  match pat, str with
  | [], [] => true
  | [], _ :: _ => false
  | p :: ps, s =>
    if p = 0x2a then
      globMatch ps s pathname ||
        (match s with
         | [] => false
         | c :: cs => if pathname && c = slash then false else globMatch pat cs pathname)
    else match s with
      | [] => false
      | c :: cs =>
        if p = 0x3f then (if pathname && c = slash then false else globMatch ps cs pathname)
        else if p = c then globMatch ps cs pathname else false

def nat? (s : String) : Option Nat := s.toNat?
def int? (s : String) : Option Int := s.toInt?

partial def parseForest : List String → Option (List HNode × List String)
  | [] => none
  | cnt :: rest => do
    let n ← nat? cnt
    let rec go (k : Nat) (toks : List String) (acc : List HNode) : Option (List HNode × List String) :=
      if k = 0 then some (acc.reverse, toks) else
      match toks with
      | name :: mode :: uid :: gid :: mtime :: dev :: ino :: rdev :: tgt :: more => do
        let name ← fromHex name
        let st : Stat := { mode := ← nat? mode, uid := ← nat? uid, gid := ← nat? gid, mtime := ← int? mtime,
                           dev := ← nat? dev, ino := ← nat? ino, rdev := ← nat? rdev }
        let tgt ← fromHex tgt
        let (ch, more') ← parseForest more
        go (k - 1) more' (HNode.mk name st tgt ch :: acc)
      | _ => none
    go n rest []

inductive Step where
  | add (e : Ent) (extra : Extra)
  | glob (target : Path) (cfg : Cfg) (rootDev : Nat) (forest : List HNode)

partial def parseSteps : Nat → List String → Option (List Step)
  | 0, [] => some []
  | 0, _ => none
  | k + 1, "A" :: path :: mode :: uid :: gid :: mtime :: rdev :: extra :: more => do
    let p := splitPath (← fromHex path)
    let e : Ent := { rel := p, path := p, mode := ← nat? mode, uid := ← nat? uid, gid := ← nat? gid,
                     mtime := ← int? mtime, dev := 0, ino := 0, rdev := ← nat? rdev, mount := false, hard := false }
    let ex ← optTok extra
    let rest ← parseSteps k more
    some (.add e (match ex with | none => .none | some s => .str s) :: rest)
  | k + 1, "L" :: path :: mode :: uid :: gid :: mtime :: rdev :: extra :: more => do
    let p := splitPath (← fromHex path)
    let e : Ent := { rel := p, path := p, mode := ← nat? mode, uid := ← nat? uid, gid := ← nat? gid,
                     mtime := ← int? mtime, dev := 0, ino := 0, rdev := ← nat? rdev, mount := false, hard := true }
    let ex ← optTok extra
    let rest ← parseSteps k more
    some (.add e (match ex with | none => .none | some s => .link (splitPath s) none) :: rest)
  | k + 1, "G" :: target :: flags :: du :: dg :: dm :: dt :: fp :: pat :: rootDev :: more => do
    let tp := splitPath (← fromHex target)
    let cfg : Cfg := { flags := ← nat? flags, defUid := ← nat? du, defGid := ← nat? dg, defMode := ← nat? dm,
                       defMtime := ← int? dt, pfx := tp, filePrefix := ← optTok fp, pattern := ← optTok pat }
    let rd ← nat? rootDev
    let (forest, more') ← parseForest more
    let rest ← parseSteps k more'
    some (.glob tp cfg rd forest :: rest)
  | _, _ => none

def runSteps (sorted : Bool) (d : Defaults) : List Step → TNode → List Path → Option (TNode × List Path)
  | [], t, l => some (t, l)
  | .add e extra :: rest, t, l =>
      match addGeneric d e extra t with
      | none => none
      | some t' => runSteps sorted d rest t' (if e.hard then e.path :: l else l)
  | .glob target cfg rootDev forest :: rest, t, l =>
      match globInto sorted d cfg globMatch rootDev forest target t l with
      | none => none
      | some (t', l') => runSteps sorted d rest t' l'

def tokPath (p : Path) : String := toHexTok (joinPath p)

def octal (n : Nat) : String := String.ofList (Nat.toDigits 8 n)

mutual
partial def dumpNode (r : Result) (path : Path) (t : TNode) : String :=
  let a := t.attr
  let head := s!" N {tokPath path} {octal a.mode} {a.uid} {a.gid} {a.modTime} {a.linkCount} {if a.implicit then 1 else 0} {if a.hard then 1 else 0} {a.rdev} "
  let tail :=
    if t.isHardLink then
      match a.extra with
      | .link tg res => s!"l:{tokPath tg}:{match res with | some p => tokPath p | none => "?"} 0"
      | _ => "l:?:? 0"
    else
      let ex := match a.extra with
        | .str s => "s:" ++ toHexTok s
        | _ => "-"
      let inum := if r.inodes.contains path then indexOf path r.inodes + 1 else 0
      s!"{ex} {inum}"
  head ++ tail ++ (if t.isDir then dumpList r path t.children else "")
partial def dumpList (r : Result) (path : Path) : List TNode → String
  | [] => ""
  | c :: cs => dumpNode r (path ++ [c.name]) c ++ dumpList r path cs
end

def dump (r : Result) : String :=
  s!"ok n={r.inodes.length}" ++ dumpNode r [] r.tree ++ " F" ++ String.join (r.files.map fun p => " " ++ tokPath p)

def step (line : String) : String :=
  match words line with
  | "run" :: sorted :: du :: dg :: dt :: dm :: n :: rest =>
    match nat? sorted, nat? du, nat? dg, nat? dt, nat? dm, nat? n with
    | some so, some du, some dg, some dt, some dm, some n =>
      let d : Defaults := { uid := du, gid := dg, mtime := dt, mode := dm }
      match parseSteps n rest with
      | none => "bad-op"
      | some steps =>
        match runSteps (so != 0) d steps (initRoot d) [] with
        | none => "err"
        | some (t, links) =>
          match postProcess t links with
          | none => "err"
          | some r => dump r
    | _, _, _, _, _, _ => "bad-op"
  | "direct" :: what :: du :: dg :: dt :: dm :: n :: rest =>
    match nat? du, nat? dg, nat? dt, nat? dm, nat? n with
    | some du, some dg, some dt, some dm, some n =>
      let d : Defaults := { uid := du, gid := dg, mtime := dt, mode := dm }
      match parseSteps n rest with
      | none => "bad-op"
      | some steps =>
        match runSteps true d steps (initRoot d) [] with
        | none => "err"
        | some (t, links) =>
          match postProcess t links with
          | none => "err"
          | some r => if what = "count" then s!"ok n={r.inodes.length}" else dump r
    | _, _, _, _, _ => "bad-op"
  | "maindefaults" :: du :: dg :: fl :: fu :: fg :: [] =>
    match nat? du, nat? dg, nat? fl, nat? fu, nat? fg with
    | some du, some dg, some fl, some fu, some fg =>
      let d := mainDefaults { uid := du, gid := dg, mtime := 0, mode := 0 } fl fu fg
      s!"{d.uid} {d.gid}"
    | _, _, _, _, _ => "bad-op"
  | "isort" :: names =>
    match names.mapM fromHex with
    | none => "bad-op"
    | some ns =>
      let mk (n : Name) : TNode := .mk n default []
      let l := ns.foldl (fun acc n => insertSorted (mk n) acc) []
      String.intercalate " " (l.map fun t => toHexTok t.name)
  | "readnames" :: sorted :: names =>
    match nat? sorted, names.mapM fromHex with
    | some so, some ns =>
      let mk (n : Name) : HNode := .mk n default [] []
      String.intercalate " " ((readNames (so != 0) (ns.map mk)).map fun h => toHexTok h.name)
    | _, _ => "bad-op"
  | "cmp" :: a :: b :: [] =>
    match fromHex a, fromHex b with
    | some a, some b =>
      let c := compareNames (.mk a default [] []) (.mk b default [] [])
      s!"{if c < 0 then "-1" else if c > 0 then "1" else "0"} {if nameLt a b then 1 else 0}"
    | _, _ => "bad-op"
  | "sortfiles" :: nr :: rest =>
    match nat? nr with
    | none => "bad-op"
    | some nr =>
      let rec rules (k : Nat) (toks : List String) (acc : List SortRule) : Option (List SortRule × List String) :=
        match k, toks with
        | 0, _ => some (acc.reverse, toks)
        | k + 1, pr :: fl :: dg :: pg :: pat :: more => do
          let r : SortRule := { prio := ← int? pr, flags := ← nat? fl, doGlob := (← nat? dg) != 0,
                                pathGlob := (← nat? pg) != 0, pat := ← fromHex pat }
          rules k more (r :: acc)
        | _, _ => none
      match rules nr rest [] with
      | some (rs, nf :: paths) =>
        match nat? nf, paths.mapM fromHex with
        | some nf, some ps =>
          if nf != ps.length then "bad-op"
          else
            let out := sortFiles globMatch rs (ps.map splitPath)
            "ok" ++ String.join (out.map fun f => s!" {tokPath f.path}:{f.flags}")
        | _, _ => "bad-op"
      | _ => "bad-op"
  | "mon-sorted" :: names =>
    -- monitor: the specification predicate `SortedNames` evaluated on a child list observed in the implementation
    match names.mapM fromHex with
    | none => "bad-op"
    | some ns => if decide (SortedNames ns) then "1" else "0"
  | "lt" :: a :: b :: [] =>
    match fromHex a, fromHex b with
    | some a, some b => if nameLt a b then "1" else "0"
    | _, _ => "bad-op"
  | _ => "bad-op"

def run (_args : List String) : IO Unit := do
  lineLoop (← IO.getStdin) (← IO.getStdout) step

end Driver.C11
