import Driver.Util
namespace Driver.C11
/-- stub: the model driver for C11 is not built yet -/
def run (_args : List String) : IO Unit := do
  IO.eprintln "sqfsmodel: model C11 not built yet"
end Driver.C11
