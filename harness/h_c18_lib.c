/*
 * C18 funnel harness, library entries: the two call sites of canonicalize_name() inside the libraries of the working
 * tree, driven through their real public entry point (no hook in /repo).
 *
 *   hlink <hex target>   lib/fstree/src/fstree.c mknode(): fstree_add_generic() of an entry "l" that carries
 *                        SQFS_DIR_ENTRY_FLAG_HARD_LINK with <target> as extra string
 *                          -> "fail <errno>"            the node was refused
 *                          -> "ok <hex stored target>"  node created, n->data.target printed
 *   tar <hex archive>    lib/tar/src/iterator.c it_next(): tar_open_stream() on the archive bytes, first entry
 *                          -> "fail <SQFS_ERROR code>"  it_next refused the member
 *                          -> "ok <hex entry name>"
 *                          -> "end"                     no member at all
 * Same line protocol as `sqfsmodel c18` (whose `canon` op is the expected answer for both).
 */
#include "config.h"
#include "sqfs/io.h"
#include "sqfs/error.h"
#include "sqfs/dir_entry.h"
#include "tar/tar.h"
#include "fstree.h"
#include "common.h"
#include "hexio.h"
#include <sys/stat.h>
#include <errno.h>

static void op_hlink(const unsigned char *buf)
{
	fstree_defaults_t def;
	sqfs_dir_entry_t *ent;
	tree_node_t *n;
	fstree_t fs;

	memset(&def, 0, sizeof(def));
	def.mode = S_IFDIR | 0755;
	if (fstree_init(&fs, &def)) { puts("infra fstree_init"); return; }
	ent = sqfs_dir_entry_create("l", S_IFLNK | 0777, SQFS_DIR_ENTRY_FLAG_HARD_LINK);
	if (ent == NULL) { puts("infra dir_entry"); fstree_cleanup(&fs); return; }
	errno = 0;
	n = fstree_add_generic(&fs, ent, (const char *)buf);
	if (n == NULL) {
		printf("fail %d\n", errno);
	} else if (!(n->flags & FLAG_LINK_IS_HARD) || n->data.target == NULL) {
		puts("infra not-a-hard-link-node");
	} else {
		fputs("ok ", stdout);
		hex_print(stdout, (const unsigned char *)n->data.target, strlen(n->data.target));
		putchar('\n');
	}
	free(ent);
	fstree_cleanup(&fs);
}

static void op_tar(const unsigned char *buf, size_t n)
{
	sqfs_dir_entry_t *ent = NULL;
	sqfs_dir_iterator_t *it;
	sqfs_istream_t *fp;
	int ret;

	fp = istream_memory_create("c18.tar", 4096, buf, n);
	if (fp == NULL) { puts("infra memstream"); return; }
	it = tar_open_stream(fp, NULL);
	sqfs_drop(fp);
	if (it == NULL) { puts("infra tar_open_stream"); return; }
	ret = it->next(it, &ent);
	if (ret < 0) {
		printf("fail %d\n", ret);
	} else if (ret > 0) {
		puts("end");
	} else {
		fputs("ok ", stdout);
		hex_print(stdout, (const unsigned char *)ent->name, strlen(ent->name));
		putchar('\n');
		free(ent);
	}
	sqfs_drop(it);
}

int main(void)
{
	static char line[1 << 20];
	while (fgets(line, sizeof(line), stdin)) {
		char *op = strtok(line, " \n"), *arg = strtok(NULL, " \n");
		unsigned char *buf;
		long n;
		if (!op || !arg || (n = hex_decode_tok(arg, &buf, 1)) < 0) { puts("bad-op"); continue; }
		if (strcmp(op, "hlink") == 0) {
			if (memchr(buf, 0, (size_t)n)) puts("bad-op"); else op_hlink(buf);
		} else if (strcmp(op, "tar") == 0) {
			op_tar(buf, (size_t)n);
		} else puts("bad-op");
		free(buf);
		fflush(stdout);
	}
	return 0;
}
