/*
 * C07 harness, parser units: the real functions of the working tree on the same lines as `sqfsmodel c07`.
 * Every input lives in an exact-size heap object so that ASan sees any access outside it.
 *
 *   num <bufhex> <digits>                      read_number
 *   puint <base> <len|-1> <wantdiff> <vmin> <vmax> <strhex>   parse_uint / parse_uint_oct
 *   pint <len|-1> <wantdiff> <strhex>          parse_int
 *   hex <outsz> <inhex>                        hex_decode
 *   b64 <cap> <inhex>                          base64_decode
 *   split <sephex> <len|-1> <linehex>          split_line
 *   dfn <linehex>                              decode_filename (static, sort_by_file.c)
 *   xdec <valuehex>                            decode (static, filemap_xattr.c)
 *   pax <recordhex>                            read_pax_header
 *   spnew <record_size> <streamhex>            read_gnu_new_sparse
 *   spold <headerhex> <streamhex>              read_gnu_old_sparse
 *   rh <streamhex>                             read_header (the whole loop: extension records, decode_header, sparse maps)
 *   rhmax <streamhex>                          monitor: the largest single allocation made inside the read_header calls
 *                                              of `rh` on this stream (ASan's malloc hook) — answers `max <bytes>`
 *   ms <streamhex> <want,want,...>             the content of the first member through the real tar iterator's member
 *                                              stream over a memory istream (4096-byte window): request want[i mod n]
 *                                              bytes, check that the range handed out is addressable as a whole
 *                                              (__asan_region_is_poisoned: it must lie inside the buffer it is served
 *                                              from — `ms outside-buffer …` otherwise), read all of it, consume it.
 *                                              Answers the sizes handed out (run-length coded), their sum, the hash.
 *   gl <B> <flags> <content>...                istream_get_line until end of input, on the real buffered file
 *                                              istream (sqfs_istream_open_file) over a temporary file holding the
 *                                              content; content tokens: h<hex> literal bytes, r<count>x<hh> a run.
 *                                              <B> is for the model only (the real stream has its own BUFSZ).
 *
 * A failure is answered `fail <class>`: the functions only return -1/NULL, the class is read off the diagnostic
 * they print (captured from stderr), 0 = no diagnostic at all, 9 = an unexpected one.
 */
#include "config.h"
#include "bin/gensquashfs/src/sort_by_file.c"
#include "bin/gensquashfs/src/filemap_xattr.c"
#include "lib/tar/src/internal.h"
#include "util/parse.h"
#include "hexio.h"
#include <inttypes.h>
#include <sys/mman.h>
#include <unistd.h>
#include <sys/stat.h>
#include "tar/tar.h"
#include "sqfs/dir_entry.h"
#include "sqfs/error.h"
#if defined(__SANITIZE_ADDRESS__)
#define C07_HAVE_ASAN 1
#elif defined(__has_feature)
#if __has_feature(address_sanitizer)
#define C07_HAVE_ASAN 1
#endif
#endif
#ifdef C07_HAVE_ASAN
#include <sanitizer/asan_interface.h>
#endif
#define MS_CAP 70000

static int errcode(int ret) { return ret < 0 ? -ret : ret; }

/* ---- capture of the diagnostics the real functions print ---- */
static FILE *cap_keep, *cap_fp;
static char *cap_buf;
static size_t cap_len;

static void cap_begin(void)
{
	cap_buf = NULL; cap_len = 0;
	cap_fp = open_memstream(&cap_buf, &cap_len);
	if (cap_fp == NULL) abort();
	cap_keep = stderr;
	stderr = cap_fp;
}

/* returns the captured text (valid until the next cap_begin) */
static const char *cap_end(void)
{
	static char text[4096];
	stderr = cap_keep;
	fclose(cap_fp);
	snprintf(text, sizeof(text), "%s", cap_buf ? cap_buf : "");
	free(cap_buf);
	return text;
}

struct diag { const char *needle; int cls; };

static int classify(const char *text, const struct diag *tab)
{
	if (text[0] == '\0') return 0;
	for (; tab->needle != NULL; ++tab)
		if (strstr(text, tab->needle) != NULL) return tab->cls;
	return 9;
}

static const struct diag diag_num[] = { { "numeric overflow parsing tar header", 1 }, { NULL, 0 } };
static const struct diag diag_pax[] = {
	{ "Found a malformed PAX header", 1 }, { "Numeric overflow in PAX header", 2 },
	{ "Malformed decimal value in pax header", 3 }, { "malformed GNU pax sparse file record", 4 }, { NULL, 0 } };
static const struct diag diag_spnew[] = { { "Malformed GNU 1.0 style sparse file map", 1 }, { NULL, 0 } };
static const struct diag diag_spold[] = {
	{ "numeric overflow parsing tar header", 1 }, { "unexpected end-of-file", 2 }, { NULL, 0 } };
static const struct diag diag_dfn[] = {
	{ "Unmatched", 1 }, { "Unknown escape sequence", 2 }, { "Unexpected characters after", 3 },
	{ "Malformed filename", 4 }, { NULL, 0 } };
static const struct diag diag_rh[] = {
	{ "invalid tar header checksum", 3 }, { "unexpected end of input inside a tar header", 1 },
	{ "input is not a ustar tar archive", 2 }, { "rejecting GNU symlink header", 4 }, { "rejecting GNU long path header", 5 },
	{ "rejecting PAX header", 6 }, { "sparse file map does not fit", 7 }, { "Reading tar record: unexpected end-of-file", 9 },
	{ "Found a malformed PAX header", 11 }, { "Numeric overflow in PAX header", 12 },
	{ "Malformed decimal value in pax header", 13 }, { "malformed GNU pax sparse file record", 14 },
	{ "Malformed GNU 1.0 style sparse file map", 15 }, { "reading GNU sparse header: unexpected end-of-file", 16 },
	{ "skipping tar padding", 17 }, { "skipping padding", 18 }, { "numeric overflow parsing tar header", 8 }, { NULL, 0 } };
static const struct diag diag_xdec[] = { { "bad input encoding", 1 }, { NULL, 0 } };

/* ---- rhmax: allocation sizes, observed through the sanitizer's allocator hooks ---- */
int __sanitizer_install_malloc_and_free_hooks(void (*malloc_hook)(const volatile void *, size_t),
					      void (*free_hook)(const volatile void *));
static int hook_on;
static size_t hook_max;
static void on_malloc(const volatile void *p, size_t n) { (void)p; if (hook_on && n > hook_max) hook_max = n; }
static void on_free(const volatile void *p) { (void)p; }

/* ---- gl: the content of a text input, run-length coded ---- */
static unsigned char *expand_content(char **toks, int n, size_t *out_len)
{
	size_t cap = 1 << 16, len = 0;
	unsigned char *buf = malloc(cap);
	int i;
	if (!buf) abort();
	for (i = 0; i < n; ++i) {
		const char *t = toks[i];
		size_t add = 0;
		if (t[0] == 'h') {
			unsigned char *lit; long l = hex_decode_tok(t + 1, &lit, 0);
			if (l < 0) { free(buf); return NULL; }
			add = (size_t)l;
			while (len + add + 1 > cap) { cap *= 2; buf = realloc(buf, cap); if (!buf) abort(); }
			memcpy(buf + len, lit, add);
			free(lit);
		} else if (t[0] == 'r') {
			char *x = NULL; unsigned long cnt = strtoul(t + 1, &x, 10);
			int hi, lo;
			if (x == t + 1 || *x != 'x' || strlen(x) != 3 || cnt > (64UL << 20)) { free(buf); return NULL; }
			hi = hexval(x[1]); lo = hexval(x[2]);
			if (hi < 0 || lo < 0) { free(buf); return NULL; }
			add = cnt;
			while (len + add + 1 > cap) { cap *= 2; buf = realloc(buf, cap); if (!buf) abort(); }
			memset(buf + len, hi * 16 + lo, add);
		} else { free(buf); return NULL; }
		len += add;
	}
	*out_len = len;
	return buf;
}

static void show_sparse(const sparse_map_t *s)
{
	for (; s != NULL; s = s->next)
		printf(" %" PRIu64 ":%" PRIu64, (uint64_t)s->offset, (uint64_t)s->count);
}

static sqfs_istream_t *mem_stream(const unsigned char *data, size_t n)
{
	return istream_memory_create("mem", 4096, data, n);
}

/* bytes left in a memory stream */
static size_t drain(sqfs_istream_t *fp)
{
	size_t total = 0;
	for (;;) {
		const sqfs_u8 *p; size_t n;
		if (fp->get_buffered_data(fp, &p, &n, 4096) != 0) break;
		total += n;
		fp->advance_buffer(fp, n);
	}
	return total;
}

int main(void)
{
	static char line[1 << 22];
	FILE *null = fopen("/dev/null", "w");
	int hooks = __sanitizer_install_malloc_and_free_hooks(on_malloc, on_free);
	(void)null;

	while (fgets(line, sizeof(line), stdin)) {
		char *save = NULL, *op = strtok_r(line, " \n", &save);
		static char *a[4096]; int n = 0;
		while (n < 4096 && (a[n] = strtok_r(NULL, " \n", &save)) != NULL) ++n;
		if (n == 4096 && strtok_r(NULL, " \n", &save) != NULL) { puts("bad-op"); fflush(stdout); continue; }
		if (!op) { puts("bad-op"); continue; }

		if (!strcmp(op, "num") && n == 2) {
			unsigned char *buf; long len = hex_decode_tok(a[0], &buf, 0);
			sqfs_u64 out = 0; int digits = atoi(a[1]), ret;
			if (len < 0) { puts("bad-op"); continue; }
			cap_begin();
			ret = read_number((char *)buf, digits, &out);
			{ const char *d = cap_end();
			  if (ret) printf("fail %d\n", classify(d, diag_num)); else printf("ok %" PRIu64 "\n", (uint64_t)out); }
			free(buf);
		} else if (!strcmp(op, "puint") && n == 6) {
			unsigned char *s; long len = hex_decode_tok(a[5], &s, 1);
			size_t diff = 0, l = !strcmp(a[1], "-1") ? (size_t)-1 : strtoull(a[1], NULL, 10);
			sqfs_u64 out = 0, vmin = strtoull(a[3], NULL, 10), vmax = strtoull(a[4], NULL, 10);
			int wd = atoi(a[2]), base = atoi(a[0]), ret;
			if (len < 0) { puts("bad-op"); continue; }
			ret = (base == 8 ? parse_uint_oct : parse_uint)((char *)s, l, wd ? &diff : NULL, vmin, vmax, &out);
			if (ret) printf("fail %d\n", errcode(ret));
			else if (wd) printf("ok %" PRIu64 " %zu\n", (uint64_t)out, diff);
			else printf("ok %" PRIu64 " -\n", (uint64_t)out);
			free(s);
		} else if (!strcmp(op, "pint") && n == 3) {
			unsigned char *s; long len = hex_decode_tok(a[2], &s, 1);
			size_t diff = 0, l = !strcmp(a[0], "-1") ? (size_t)-1 : strtoull(a[0], NULL, 10);
			sqfs_s64 out = 0; int wd = atoi(a[1]), ret;
			if (len < 0) { puts("bad-op"); continue; }
			ret = parse_int((char *)s, l, wd ? &diff : NULL, 0, 0, &out);
			if (ret) printf("fail %d\n", errcode(ret));
			else if (wd) printf("ok %" PRId64 " %zu\n", (int64_t)out, diff);
			else printf("ok %" PRId64 " -\n", (int64_t)out);
			free(s);
		} else if (!strcmp(op, "hex") && n == 2) {
			unsigned char *in, *out; long len = hex_decode_tok(a[1], &in, 0);
			size_t osz = strtoull(a[0], NULL, 10);
			if (len < 0) { puts("bad-op"); continue; }
			out = malloc(osz ? osz : 1);
			if (hex_decode((char *)in, (size_t)len, out, osz)) puts("fail 1");
			else { fputs("ok ", stdout); hex_print(stdout, out, (size_t)len / 2); putchar('\n'); }
			free(in); free(out);
		} else if (!strcmp(op, "b64") && n == 2) {
			unsigned char *in, *out; long len = hex_decode_tok(a[1], &in, 0);
			size_t cap = strtoull(a[0], NULL, 10), olen = cap;
			if (len < 0) { puts("bad-op"); continue; }
			out = malloc(cap ? cap : 1);
			if (base64_decode((char *)in, (size_t)len, out, &olen)) puts("fail 1");
			else { fputs("ok ", stdout); hex_print(stdout, out, olen); putchar('\n'); }
			free(in); free(out);
		} else if (!strcmp(op, "split") && n == 3) {
			unsigned char *sep, *s; long sl = hex_decode_tok(a[0], &sep, 1), len;
			split_line_t *sp = NULL; size_t l, i; int ret;
			if (sl < 0) { puts("bad-op"); continue; }
			len = hex_decode_tok(a[2], &s, 1);
			if (len < 0 || memchr(s, 0, (size_t)len) || memchr(sep, 0, (size_t)sl)) { puts("bad-op"); free(sep); continue; }
			l = !strcmp(a[1], "-1") ? (size_t)len : strtoull(a[1], NULL, 10);
			if (l > (size_t)len) { puts("bad-op"); free(sep); free(s); continue; }
			ret = split_line((char *)s, l, (char *)sep, &sp);
			if (ret != SPLIT_LINE_OK) printf("fail %d\n", ret == SPLIT_LINE_ESCAPE ? 2 : ret == SPLIT_LINE_UNMATCHED_QUOTE ? 3 : 9);
			else {
				fputs("ok", stdout);
				for (i = 0; i < sp->count; ++i) { putchar(' '); hex_print(stdout, (unsigned char *)sp->args[i], strlen(sp->args[i])); }
				putchar('\n');
				free(sp);
			}
			free(sep); free(s);
		} else if (!strcmp(op, "dfn") && n == 1) {
			unsigned char *s; long len = hex_decode_tok(a[0], &s, 1);
			int ret;
			if (len < 0 || memchr(s, 0, (size_t)len)) { puts("bad-op"); continue; }
			cap_begin();
			ret = decode_filename("f", 1, (char *)s);
			{ const char *d = cap_end(); if (ret) printf("fail %d\n", classify(d, diag_dfn)); }
			if (!ret) { fputs("ok ", stdout); hex_print(stdout, s, strlen((char *)s)); putchar('\n'); }
			free(s);
		} else if (!strcmp(op, "xdec") && n == 1) {
			unsigned char *s, *out; long len = hex_decode_tok(a[0], &s, 1);
			size_t size;
			if (len < 0 || memchr(s, 0, (size_t)len)) { puts("bad-op"); continue; }
			size = (size_t)len;
			cap_begin();
			out = decode("f", 1, (char *)s, &size);
			{ const char *d = cap_end(); if (out == NULL) printf("fail %d\n", classify(d, diag_xdec)); }
			if (out != NULL) { fputs("ok ", stdout); hex_print(stdout, out, size); putchar('\n'); free(out); }
			free(s);
		} else if (!strcmp(op, "pax") && n == 1) {
			unsigned char *rec, *padded; long len = hex_decode_tok(a[0], &rec, 0);
			tar_header_decoded_t out; unsigned int flags = 0; sqfs_istream_t *fp; int ret;
			size_t plen;
			if (len < 1) { puts("bad-op"); continue; }
			plen = ((size_t)len + 511) / 512 * 512;
			padded = calloc(1, plen); memcpy(padded, rec, (size_t)len);
			fp = mem_stream(padded, plen);
			memset(&out, 0, sizeof(out));
			cap_begin();
			ret = read_pax_header(fp, (sqfs_u64)len, &flags, &out);
			{ const char *d = cap_end(); if (ret) printf("fail %d\n", classify(d, diag_pax)); }
			if (!ret) {
				sqfs_xattr_t *x;
				printf("ok flags=%u uid=%" PRIu64 " gid=%" PRIu64 " size=%" PRIu64 " actual=%" PRIu64 " mtime=%" PRId64 " name=",
				       flags, (uint64_t)out.uid, (uint64_t)out.gid, (uint64_t)out.record_size, (uint64_t)out.actual_size, (int64_t)out.mtime);
				if (out.name) hex_print(stdout, (unsigned char *)out.name, strlen(out.name)); else putchar('~');
				fputs(" link=", stdout);
				if (out.link_target) hex_print(stdout, (unsigned char *)out.link_target, strlen(out.link_target)); else putchar('~');
				fputs(" sparse=[", stdout);
				{ const sparse_map_t *s; int first = 1; for (s = out.sparse; s; s = s->next) { printf("%s%" PRIu64 ":%" PRIu64, first ? "" : " ", (uint64_t)s->offset, (uint64_t)s->count); first = 0; } }
				fputs("] xattr=[", stdout);
				for (x = out.xattr; x != NULL; x = x->next) {
					if (x != out.xattr) putchar(' ');
					hex_print(stdout, (unsigned char *)x->key, strlen(x->key)); putchar('=');
					hex_print(stdout, x->value, x->value_len);
				}
				puts("]");
			}
			clear_header(&out);
			sqfs_drop(fp); free(rec); free(padded);
		} else if (!strcmp(op, "spnew") && n == 2) {
			unsigned char *st; long len = hex_decode_tok(a[1], &st, 0);
			tar_header_decoded_t out; sqfs_istream_t *fp; sparse_map_t *m;
			if (len < 0) { puts("bad-op"); continue; }
			memset(&out, 0, sizeof(out));
			out.record_size = strtoull(a[0], NULL, 10);
			fp = mem_stream(st, (size_t)len);
			cap_begin();
			m = read_gnu_new_sparse(fp, &out);
			{ const char *d = cap_end(); if (m == NULL) printf("fail %d\n", classify(d, diag_spnew)); }
			if (m != NULL) { printf("ok %" PRIu64 " %zu", (uint64_t)out.record_size, drain(fp)); show_sparse(m); putchar('\n'); free_sparse_list(m); }
			sqfs_drop(fp); free(st);
		} else if (!strcmp(op, "spold") && n == 2) {
			unsigned char *hd, *st; long hl = hex_decode_tok(a[0], &hd, 0), len;
			sqfs_istream_t *fp; sparse_map_t *m;
			if (hl != 512) { puts("bad-op"); continue; }
			len = hex_decode_tok(a[1], &st, 0);
			if (len < 0) { puts("bad-op"); free(hd); continue; }
			fp = mem_stream(st, (size_t)len);
			cap_begin();
			m = read_gnu_old_sparse(fp, (tar_header_t *)hd);
			{ const char *d = cap_end(); if (m == NULL) printf("fail %d\n", classify(d, diag_spold)); }
			if (m != NULL) { printf("ok %zu", drain(fp)); show_sparse(m); putchar('\n'); free_sparse_list(m); }
			sqfs_drop(fp); free(hd); free(st);
		} else if (!strcmp(op, "rh") && n == 1) {
			/* every member of the stream: read_header, then skip the record data and its padding the way the tar
			   iterator does (at most 64 members); results joined by " ; " */
			unsigned char *st; long len = hex_decode_tok(a[0], &st, 0);
			size_t off = 0; int k;
			if (len < 0) { puts("bad-op"); continue; }
			for (k = 0; k < 64; ++k) {
				tar_header_decoded_t out; int ret; size_t rest = 0;
				sqfs_istream_t *fp = mem_stream(st + off, (size_t)len - off);
				if (k > 0) fputs(" ; ", stdout);
				cap_begin();
				ret = read_header(fp, &out);
				{ const char *d = cap_end(); if (ret < 0) printf("fail %d", classify(d, diag_rh)); }
				if (ret > 0) fputs("eof", stdout);
				if (ret == 0) {
					sqfs_xattr_t *x; const sparse_map_t *sp; int first = 1;
					sqfs_u64 skip = out.record_size;
					fputs("ok name=", stdout);
					hex_print(stdout, (unsigned char *)out.name, strlen(out.name));
					fputs(" link=", stdout);
					if (out.link_target) hex_print(stdout, (unsigned char *)out.link_target, strlen(out.link_target)); else putchar('~');
					printf(" mode=%o uid=%" PRIu64 " gid=%" PRIu64 " mtime=%" PRId64 " size=%" PRIu64 " actual=%" PRIu64 " sparse=[",
					       (unsigned)out.mode, (uint64_t)out.uid, (uint64_t)out.gid, (int64_t)out.mtime,
					       (uint64_t)out.record_size, (uint64_t)out.actual_size);
					for (sp = out.sparse; sp; sp = sp->next) { printf("%s%" PRIu64 ":%" PRIu64, first ? "" : " ", (uint64_t)sp->offset, (uint64_t)sp->count); first = 0; }
					fputs("] xattr=[", stdout);
					for (x = out.xattr; x != NULL; x = x->next) {
						if (x != out.xattr) putchar(' ');
						hex_print(stdout, (unsigned char *)x->key, strlen(x->key)); putchar('=');
						hex_print(stdout, x->value, x->value_len);
					}
					rest = drain(fp);
					printf("] unknown=%d hard=%d rest=%zu", out.unknown_record ? 1 : 0, out.is_hard_link ? 1 : 0, rest);
					clear_header(&out);
					sqfs_drop(fp);
					if (skip > (sqfs_u64)rest) { fputs(" ; skipfail", stdout); break; }
					if (skip % 512) skip += 512 - skip % 512;
					if (skip > (sqfs_u64)rest) { fputs(" ; skipfail", stdout); break; }
					off = (size_t)len - rest + (size_t)skip;
					continue;
				}
				sqfs_drop(fp);
				break;
			}
			if (k == 64) fputs(" ; more", stdout);
			putchar('\n');
			free(st);
		} else if (!strcmp(op, "rhmax") && n == 1) {
			unsigned char *st; long len = hex_decode_tok(a[0], &st, 0);
			size_t off = 0; int k;
			if (len < 0 || !hooks) { puts(hooks ? "bad-op" : "no-hooks"); continue; }
			hook_max = 0;
			for (k = 0; k < 64; ++k) {
				tar_header_decoded_t out; int ret; size_t rest; sqfs_u64 skip;
				sqfs_istream_t *fp = mem_stream(st + off, (size_t)len - off);
				cap_begin();
				hook_on = 1;
				ret = read_header(fp, &out);
				hook_on = 0;
				(void)cap_end();
				if (ret != 0) { sqfs_drop(fp); break; }
				skip = out.record_size;
				rest = drain(fp);
				clear_header(&out);
				sqfs_drop(fp);
				if (skip > (sqfs_u64)rest) break;
				if (skip % 512) skip += 512 - skip % 512;
				if (skip > (sqfs_u64)rest) break;
				off = (size_t)len - rest + (size_t)skip;
			}
			printf("max %zu\n", hook_max);
			free(st);
		} else if (!strcmp(op, "ms") && n == 2) {
			unsigned char *st; long len = hex_decode_tok(a[0], &st, 0);
			size_t wants[16], nw = 0; char *ws = NULL, *w; int bad = 0, ret;
			sqfs_istream_t *fp, *ms = NULL; sqfs_dir_iterator_t *it; sqfs_dir_entry_t *ent = NULL;
			if (len < 0) { puts("bad-op"); continue; }
			for (w = strtok_r(a[1], ",", &ws); w != NULL; w = strtok_r(NULL, ",", &ws)) {
				char *e = NULL; unsigned long v = strtoul(w, &e, 10);
				if (e == w || *e || v == 0 || nw == 16) { bad = 1; break; }
				wants[nw++] = v;
			}
			if (bad || nw == 0) { puts("bad-op"); free(st); continue; }
			fp = mem_stream(st, (size_t)len);
			cap_begin();
			it = tar_open_stream(fp, NULL);
			sqfs_drop(fp);
			if (it == NULL) abort();
			ret = it->next(it, &ent);
			if (ret != 0) {
				(void)cap_end(); puts("ms hdr-fail");
			} else if (!S_ISREG(ent->mode) || (ent->flags & SQFS_DIR_ENTRY_FLAG_HARD_LINK)) {
				(void)cap_end(); puts("ms not-regular");
			} else if (it->open_file_ro(it, &ms) != 0) {
				(void)cap_end(); puts("ms open-failed");
			} else {
				sqfs_u64 total = 0, h = 1469598103934665603ULL, size = ent->size;
				size_t calls = 0, last = 0, rep = 0, i; const char *end = "cap"; int first = 1, oob = 0;
				char *obuf = NULL; size_t olen = 0; FILE *o = open_memstream(&obuf, &olen);
				if (o == NULL) abort();
				while (calls < MS_CAP) {
					const sqfs_u8 *p = NULL; size_t sz = 0, want = wants[calls % nw];
					int r = ms->get_buffered_data(ms, &p, &sz, want);
					if (r > 0) { end = "eof"; break; }
					if (r < 0) { end = (r == SQFS_ERROR_CORRUPTED) ? "fail corrupted" : "fail other"; break; }
					if (sz == 0) { end = "stuck"; break; }
#ifdef C07_HAVE_ASAN
					{ char *badp = __asan_region_is_poisoned((void *)p, sz);
					  if (badp != NULL) {
						(void)cap_end();
						printf("ms outside-buffer call=%zu want=%zu size=%zu addressable=%zu\n", calls, want, sz, (size_t)(badp - (char *)p));
						oob = 1; break;
					  } }
#endif
					for (i = 0; i < sz; ++i) h = (h ^ p[i]) * 1099511628211ULL;
					total += sz;
					if (rep > 0 && sz == last) ++rep;
					else { if (rep > 0) { fprintf(o, "%s%zux%zu", first ? "" : ",", last, rep); first = 0; } last = sz; rep = 1; }
					++calls;
					ms->advance_buffer(ms, sz);
				}
				if (rep > 0) fprintf(o, "%s%zux%zu", first ? "" : ",", last, rep);
				fclose(o);
				if (!oob) {
					(void)cap_end();
					printf("ms size=%" PRIu64 " calls=%zu sizes=%s total=%" PRIu64 " h=%016" PRIx64 " end=%s\n",
					       (uint64_t)size, calls, olen ? obuf : "-", (uint64_t)total, (uint64_t)h, end);
				}
				free(obuf);
				sqfs_drop(ms);
			}
			free(ent);
			sqfs_drop(it);
			free(st);
		} else if (!strcmp(op, "gl") && n >= 2) {
			/* the reading loop of fstree_from_file_stream / xattr_open_map_file / sort file: get a line, use it,
			   ++line_num, until istream_get_line says end of input */
			size_t clen = 0, line_num = 1, count = 0, total = 0;
			unsigned char *content = expand_content(a + 2, n - 2, &clen);
			int flags = atoi(a[1]), ret = 0;
			sqfs_u64 h = 1469598103934665603ULL;
			char path[64];
			sqfs_istream_t *fp = NULL;
			int fd;
			if (content == NULL) { puts("bad-op"); fflush(stdout); continue; }
			/* an anonymous in-memory file, opened by name through the real sqfs_istream_open_file */
			fd = memfd_create("h_c07_gl", 0);
			if (fd < 0 || write(fd, content, clen) != (ssize_t)clen) { puts("tmpfile-failed"); fflush(stdout); free(content); if (fd >= 0) close(fd); continue; }
			snprintf(path, sizeof(path), "/proc/self/fd/%d", fd);
			ret = sqfs_istream_open_file(&fp, path, 0);
			close(fd);
			if (ret) { printf("open-failed %d\n", ret); fflush(stdout); free(content); continue; }
			for (;;) {
				char *ln = NULL; size_t i, l; char num[32];
				ret = istream_get_line(fp, &ln, &line_num, flags);
				if (ret != 0) break;
				l = strlen(ln);
				for (i = 0; i < l; ++i) h = (h ^ (unsigned char)ln[i]) * 1099511628211ULL;
				h = (h ^ 10) * 1099511628211ULL;
				snprintf(num, sizeof(num), "%zu", line_num);
				for (i = 0; num[i]; ++i) h = (h ^ (unsigned char)num[i]) * 1099511628211ULL;
				h = (h ^ 10) * 1099511628211ULL;
				total += l; ++count; ++line_num;
				free(ln);
			}
			if (ret < 0) printf("fail %d\n", errcode(ret));
			else printf("ok %zu %zu %zu %016llx\n", count, line_num, total, (unsigned long long)h);
			sqfs_drop(fp); free(content);
		} else puts("bad-op");
		fflush(stdout);
	}
	return 0;
}
