/*
 * C15 harness (c): the decision of tar_open_stream (lib/tar/src/iterator.c, included here so that the private iterator
 * struct can be inspected) and xfrm_compressor_id_from_magic (lib/xfrm/src/compress.c) on the first bytes of a stream.
 *   probe <hex>  ->  plain | wrap <id>        magic <hex>  ->  id | -1
 * Same protocol as `sqfsmodel c15`.
 */
#include "config.h"
#include "../lib/tar/src/iterator.c"
#include "hexio.h"

typedef struct { sqfs_istream_t base; unsigned char *data; size_t len, pos; } src_t;
static int src_get(sqfs_istream_t *s, const sqfs_u8 **out, size_t *size, size_t want)
{
	src_t *r = (src_t *)s;
	(void)want;
	*out = r->data + r->pos; *size = r->len - r->pos;
	return r->len == r->pos ? 1 : 0;
}
static void src_adv(sqfs_istream_t *s, size_t n) { ((src_t *)s)->pos += n; }
static const char *src_name(sqfs_istream_t *s) { (void)s; return "src"; }
static void src_destroy(sqfs_object_t *o) { src_t *r = (src_t *)o; free(r->data); free(r); }

int main(void)
{
	static char line[1 << 20];
	while (fgets(line, sizeof(line), stdin)) {
		char *op = strtok(line, " \n"), *arg = strtok(NULL, " \n");
		unsigned char *buf;
		long n;
		if (!op || !arg || (n = hex_decode_tok(arg, &buf, 0)) < 0) { puts("bad-op"); continue; }
		if (strcmp(op, "magic") == 0) {
			printf("%d\n", xfrm_compressor_id_from_magic(buf, (size_t)n));
			free(buf);
		} else if (strcmp(op, "probe") == 0) {
			src_t *src = calloc(1, sizeof(*src));
			sqfs_dir_iterator_t *it;
			int id = xfrm_compressor_id_from_magic(buf, (size_t)n);
			src->data = buf; src->len = (size_t)n;
			src->base.get_buffered_data = src_get; src->base.advance_buffer = src_adv; src->base.get_filename = src_name;
			sqfs_object_init(src, src_destroy, NULL);
			it = tar_open_stream((sqfs_istream_t *)src, NULL);
			if (!it) puts("null");
			else {
				if (((tar_iterator_t *)it)->stream == (sqfs_istream_t *)src) puts("plain");
				else printf("wrap %d\n", id);
				sqfs_drop(it);
			}
			sqfs_drop(src);
		} else { puts("bad-op"); free(buf); }
		fflush(stdout);
	}
	return 0;
}
