/*
 * C19 harness: copy / operate / release histories on every copyable libsquashfs object, real sources.
 *
 * The anchored .c files are #include'd (found through -I$VERIF_REPO) so that the probe can look at the private
 * structs (buffer pointers, referenced objects).  Everything else comes from the library archive built from the
 * same working tree.  Link with -Wl,--wrap=malloc,--wrap=calloc,--wrap=realloc,--wrap=dup,--wrap=deflateInit2_,
 * --wrap=inflateInit_,--wrap=ZSTD_createCCtx (failure injection for `failcopy k`: the k-th acquisition of memory, of a
 * descriptor or of codec state inside sqfs_copy fails).
 *
 * Input: scenarios
 *     scenario <tag> <kind> [args]
 *     <op line> ...
 *     end
 * Each scenario runs in a forked child (a sanitizer abort / signal is a *result*).  The child prints one line per
 * op line; the parent then prints `exit <class> <detail>`.
 *
 * Objects: o (original), c (copy), t1 / t2 (twins: built like o, they get the same pre-copy history; t1 then
 * mirrors the operations done on o, t2 those done on c).  The caller compares o≡t1 and c≡t2 line by line.
 *
 * Unit scenarios (`rbt <ks> <vs>`, `arr <size>`, `strt`): the generic containers the hooks duplicate (rbtree_copy,
 * array_init_copy, str_table_copy), objects o and c only; every answer is predicted by `sqfsmodel c19 unit`.
 */
#include "config.h"
/* Two configurations of /repo: NO_CUSTOM_ALLOC (every node of an rbtree is calloc'ed: what the sanitizers see best) and the
 * DEFAULT one (`configure` without --disable-custom-alloc: nodes come from a pool allocator, lib/util/src/mempool.c, one
 * pool per tree, released as a whole by munmap).  In the pool configuration mempool.c is #include'd here (and left out of
 * the archive) so that the harness can tell which pool a node lives in. */
#ifndef NO_CUSTOM_ALLOC
#define C19_POOL 1
#include "lib/util/src/mempool.c"
#else
#define C19_POOL 0
#endif
#include "lib/sqfs/src/frag_table.c"
#include "lib/sqfs/src/id_table.c"
#include "lib/sqfs/src/meta_reader.c"
#include "lib/sqfs/src/data_reader.c"
#include "lib/sqfs/src/dir_reader.c"
#include "lib/sqfs/src/xattr/xattr_reader.c"
#include "lib/sqfs/src/io/file.c"
#include "lib/sqfs/src/comp/gzip.c"
#define compress c19_xz_compress	/* xz.c has a static function of that name; zlib.h (through gzip.c) declares another */
#include "lib/sqfs/src/comp/xz.c"
#undef compress
#include "lib/sqfs/src/comp/lzma.c"
#include "lib/sqfs/src/comp/lz4.c"
#include "lib/sqfs/src/comp/zstd.c"
#include "lib/sqfs/src/xattr/xattr_writer.h"
#include "sqfs/compressor.h"
#include "sqfs/super.h"
#include "sqfs/xattr.h"
#include "sqfs/dir.h"
#include "util/rbtree.h"
#include "util/array.h"
#include "util/str_table.h"
#include "util/hash_table.h"
#include "hexio.h"
#include <stdio.h>
#include <stdarg.h>
#include <fcntl.h>
#include <dirent.h>
#include <sys/wait.h>
#include <sys/stat.h>
#include <malloc.h>
#include <zlib.h>
#include <errno.h>
#include <sys/mman.h>

/* ------------------------------------------------------------------ allocation wrappers (failure injection) */
void *__real_malloc(size_t);
void *__real_calloc(size_t, size_t);
void *__real_realloc(void *, size_t);
static long alloc_calls;          /* wrapped allocation calls since last reset */
static long alloc_fail_at;        /* fail the k-th call (1-based), 0 = never */
static const char *alloc_failed_what = "-";	/* which kind of acquisition the injected failure hit */
static int alloc_should_fail_(const char *what)
{
	++alloc_calls;
	if (alloc_fail_at != 0 && alloc_calls == alloc_fail_at) { alloc_failed_what = what; return 1; }
	return 0;
}
#define alloc_should_fail() alloc_should_fail_(__func__ + 7)	/* "__wrap_" */
void *__wrap_malloc(size_t n) { return alloc_should_fail() ? NULL : __real_malloc(n); }
void *__wrap_calloc(size_t a, size_t b) { return alloc_should_fail() ? NULL : __real_calloc(a, b); }
void *__wrap_realloc(void *p, size_t n) { return alloc_should_fail() ? NULL : __real_realloc(p, n); }
/* the pool allocator's blocks (mem_pool_allocate -> create_pool -> mmap): only references from the objects linked here are
   redirected, i.e. mempool.c; the C library and the sanitizer runtime map memory through their own internal calls */
void *__real_mmap(void *, size_t, int, int, int, off_t);
void *__wrap_mmap(void *a, size_t l, int p, int f, int fd, off_t o)
{ if (alloc_should_fail()) { errno = ENOMEM; return MAP_FAILED; } return __real_mmap(a, l, p, f, fd, o); }
/* the other resources a copy hook acquires: a duplicated descriptor (stdio_copy), codec state (gzip, zstd) */
int __real_dup(int);
int __wrap_dup(int fd) { if (alloc_should_fail()) { errno = EMFILE; return -1; } return __real_dup(fd); }
int __real_deflateInit2_(z_streamp, int, int, int, int, int, const char *, int);
int __wrap_deflateInit2_(z_streamp s, int level, int method, int wbits, int memlevel, int strategy, const char *ver, int sz)
{ return alloc_should_fail() ? Z_MEM_ERROR : __real_deflateInit2_(s, level, method, wbits, memlevel, strategy, ver, sz); }
int __real_inflateInit_(z_streamp, const char *, int);
int __wrap_inflateInit_(z_streamp s, const char *ver, int sz) { return alloc_should_fail() ? Z_MEM_ERROR : __real_inflateInit_(s, ver, sz); }
ZSTD_CCtx *__real_ZSTD_createCCtx(void);
ZSTD_CCtx *__wrap_ZSTD_createCCtx(void) { return alloc_should_fail() ? NULL : __real_ZSTD_createCCtx(); }

/* ------------------------------------------------------------------ small helpers */
static void out(const char *fmt, ...)
{
	va_list ap;
	va_start(ap, fmt);
	vprintf(fmt, ap);
	va_end(ap);
	putchar('\n');
	fflush(stdout);
}

static void put_bytes(char *dst, size_t dstsz, const unsigned char *p, size_t n)
{
	static const char d[] = "0123456789abcdef";
	size_t i;
	if (n == 0) { snprintf(dst, dstsz, "-"); return; }
	if (n <= 24) {
		for (i = 0; i < n; ++i) { dst[2 * i] = d[p[i] >> 4]; dst[2 * i + 1] = d[p[i] & 15]; }
		dst[2 * n] = 0;
		return;
	}
	{
		unsigned long long h = 1469598103934665603ULL;
		for (i = 0; i < n; ++i) { h ^= p[i]; h *= 1099511628211ULL; }
		snprintf(dst, dstsz, "h%016llx:%zu", h, n);
	}
}

static int count_fds(void)
{
	DIR *d = opendir("/proc/self/fd");
	int n = 0;
	if (!d) return -1;
	while (readdir(d)) ++n;
	closedir(d);
	return n - 3;	/* ., .., the dirfd itself */
}

enum { K_COMP, K_IDT, K_FRAGT, K_FILE, K_META, K_DIR, K_DATA, K_XRD, K_XWR, K_WFILE,
       K_NOCOPY,	/* a library object whose copy hook is NULL (sqfs_object_init(obj, destroy, NULL)): an input stream on a file */
       K_RBT, K_ARR, K_STRT };	/* the last three: the generic containers as units (objects o and c only, no sqfs_object_t) */
#define IS_UNIT(k) ((k) >= K_RBT)
#define NOBJ 4		/* o, c, t1, t2 */
static const char *objname[NOBJ] = { "o", "c", "t1", "t2" };

typedef struct {
	int kind;
	void *obj[NOBJ];
	/* shared environment of the scenario */
	sqfs_file_t *file;
	sqfs_compressor_t *cmp;		/* uncompressor of the image */
	sqfs_super_t super;
	sqfs_dir_reader_t *helper_dir;	/* private: resolves paths to inodes for data reader ops (own file + compressor) */
	sqfs_file_t *helper_file;
	sqfs_compressor_t *helper_unc;
	sqfs_compressor_t *helper_cmp;	/* private: compresses inputs for uncompressor scenarios */
	sqfs_compressor_config_t ccfg;
	char path[4096];
	sqfs_u32 dirflags;
	char tmpdir[4096];
	int wfile_seq;
	/* probe bookkeeping */
	size_t file_rc_before, cmp_rc_before;
} env_t;
static env_t E;

static int target(const char *s)
{
	int i;
	for (i = 0; i < NOBJ; ++i)
		if (strcmp(s, objname[i]) == 0)
			return i;
	return -1;
}

/* ------------------------------------------------------------------ pool configuration: who owns the nodes of a tree */
#if C19_POOL
static int in_pool(const mem_pool_t *m, const void *p)
{
	const pool_t *it;
	if (!m) return 0;
	for (it = m->pool_list; it; it = it->next)
		if ((const unsigned char *)p >= it->data && (const unsigned char *)p <= it->limit) return 1;
	return 0;
}
static int nodes_in(const mem_pool_t *m, const rbtree_node_t *n) { return !n || (in_pool(m, n) && nodes_in(m, n->left) && nodes_in(m, n->right)); }
static int nodes_any_in(const mem_pool_t *m, const rbtree_node_t *n) { return n && (in_pool(m, n) || nodes_any_in(m, n->left) || nodes_any_in(m, n->right)); }
static size_t pool_blocks(const mem_pool_t *m) { size_t k = 0; const pool_t *it; for (it = m ? m->pool_list : NULL; it; it = it->next) ++k; return k; }
/* ` pool=own|alias|null nodes=in|out`: the copy has a pool of its own and every node of the copy lives in it (none in the original's) */
static void pool_facts(char *buf, size_t n, const rbtree_t *o, const rbtree_t *c)
{
	snprintf(buf, n, " pool=%s nodes=%s", c->pool == NULL ? "null" : (c->pool == o->pool ? "alias" : "own"),
		 (nodes_in(c->pool, c->root) && !nodes_any_in(o->pool == c->pool ? NULL : o->pool, c->root)) ? "in" : "out");
}
/* use-after-release canary: right after an object was released, fresh mappings of the pool block size are made and filled
   with 0xA5 (the kernel hands the address range that was just unmapped out again): nodes that died with the released object's
   pool then hold 0xA5A5... instead of leading to a fault only by luck.  Kept until the scenario ends. */
#define NCANARY 64
static void *canary[NCANARY]; static int ncanary;
static void canary_stamp(void)
{
	int i;
	for (i = 0; i < 3 && ncanary < NCANARY; ++i) {
		void *p = __real_mmap(NULL, DEF_POOL_SIZE, PROT_READ | PROT_WRITE, MAP_PRIVATE | MAP_ANONYMOUS, -1, 0);
		if (p != MAP_FAILED) { memset(p, 0xA5, DEF_POOL_SIZE); canary[ncanary++] = p; }
	}
}
static void canary_release(void) { while (ncanary > 0) munmap(canary[--ncanary], DEF_POOL_SIZE); }
#else
#define canary_stamp() ((void)0)
#define canary_release() ((void)0)
#endif

static size_t U_ks, U_vs, U_sz;	/* unit scenarios: key / value size of the tree, element size of the array */
static int unit_setup(void);

/* ------------------------------------------------------------------ construction */
static void *make_object(void)
{
	switch (E.kind) {
	case K_COMP: { sqfs_compressor_t *c = NULL; if (sqfs_compressor_create(&E.ccfg, &c)) return NULL; return c; }
	case K_IDT: return sqfs_id_table_create(0);
	case K_FRAGT: return sqfs_frag_table_create(0);
	case K_FILE: { sqfs_file_t *f = NULL; if (sqfs_file_open(&f, E.path, SQFS_FILE_OPEN_READ_ONLY)) return NULL; return f; }
	case K_WFILE: {	/* a file opened for writing: its copy hook refuses */
		sqfs_file_t *f = NULL; char p[4200];
		snprintf(p, sizeof(p), "%s/wf_%d_%d.bin", E.tmpdir, (int)getpid(), E.wfile_seq++);
		if (sqfs_file_open(&f, p, SQFS_FILE_OPEN_OVERWRITE)) return NULL;
		f->write_at(f, 0, "0123456789abcdef", 16);
		unlink(p);
		return f;
	}
	case K_NOCOPY: { sqfs_istream_t *st = NULL; if (sqfs_istream_open_file(&st, E.path, 0)) return NULL; return st; }
	case K_META: return sqfs_meta_reader_create(E.file, E.cmp, E.super.inode_table_start, E.super.directory_table_start);
	case K_DIR: return sqfs_dir_reader_create(&E.super, E.cmp, E.file, E.dirflags);
	case K_DATA: {
		sqfs_data_reader_t *d = sqfs_data_reader_create(E.file, E.super.block_size, E.cmp, 0);
		if (d && sqfs_data_reader_load_fragment_table(d, &E.super)) { sqfs_drop(d); return NULL; }
		return d;
	}
	case K_XRD: {
		sqfs_xattr_reader_t *x = sqfs_xattr_reader_create(0);
		if (x && sqfs_xattr_reader_load(x, &E.super, E.file, E.cmp)) { sqfs_drop(x); return NULL; }
		return x;
	}
	case K_XWR: return sqfs_xattr_writer_create(0);
	}
	return NULL;
}

static int open_image(const char *path)
{
	sqfs_compressor_config_t cfg;
	snprintf(E.path, sizeof(E.path), "%s", path);
	if (sqfs_file_open(&E.file, path, SQFS_FILE_OPEN_READ_ONLY)) return -1;
	if (sqfs_super_read(&E.super, E.file)) return -1;
	sqfs_compressor_config_init(&cfg, E.super.compression_id, E.super.block_size, SQFS_COMP_FLAG_UNCOMPRESS);
	if (sqfs_compressor_create(&cfg, &E.cmp)) return -1;
	if (sqfs_file_open(&E.helper_file, path, SQFS_FILE_OPEN_READ_ONLY)) return -1;
	if (sqfs_compressor_create(&cfg, &E.helper_unc)) return -1;
	E.helper_dir = sqfs_dir_reader_create(&E.super, E.helper_unc, E.helper_file, 0);
	return E.helper_dir ? 0 : -1;
}

static int setup(int argc, char **argv)	/* argv[0] = kind */
{
	const char *k = argv[0];
	int i;
	memset(&E, 0, sizeof(E));
	if (!strcmp(k, "comp") && argc >= 3) {
		int id = sqfs_compressor_id_from_name(argv[1]);
		int unc = argv[2][0] == 'u';
		unsigned long bs = 8192;
		E.kind = K_COMP;
		if (id < 0) return -1;
		for (i = 6; i < argc; ++i) if (!strncmp(argv[i], "bs=", 3)) bs = strtoul(argv[i] + 3, 0, 0);
		if (sqfs_compressor_config_init(&E.ccfg, id, bs, unc ? SQFS_COMP_FLAG_UNCOMPRESS : 0)) return -1;
		/* optional non-default configuration: level, gzip window, extra flags (gzip strategies, xz filters / extreme, lz4 hc,
		   lzma extreme), then key=value: dict= lc= lp= pb= (xz, lzma), bs= (block size, above) */
		if (argc >= 4 && strcmp(argv[3], "-")) E.ccfg.level = strtoul(argv[3], 0, 0);
		if (argc >= 5 && strcmp(argv[4], "-") && id == SQFS_COMP_GZIP) E.ccfg.opt.gzip.window_size = strtoul(argv[4], 0, 0);
		if (argc >= 6 && strcmp(argv[5], "-")) E.ccfg.flags |= strtoul(argv[5], 0, 0);
		for (i = 6; i < argc; ++i) {
			int xl = id == SQFS_COMP_XZ || id == SQFS_COMP_LZMA;
			if (!strncmp(argv[i], "bs=", 3)) continue;
			else if (xl && !strncmp(argv[i], "dict=", 5)) E.ccfg.opt.xz.dict_size = strtoul(argv[i] + 5, 0, 0);
			else if (xl && !strncmp(argv[i], "lc=", 3)) E.ccfg.opt.xz.lc = strtoul(argv[i] + 3, 0, 0);
			else if (xl && !strncmp(argv[i], "lp=", 3)) E.ccfg.opt.xz.lp = strtoul(argv[i] + 3, 0, 0);
			else if (xl && !strncmp(argv[i], "pb=", 3)) E.ccfg.opt.xz.pb = strtoul(argv[i] + 3, 0, 0);
			else return -1;
		}
		if (unc) {
			sqfs_compressor_config_t c2;
			sqfs_compressor_config_init(&c2, id, bs, 0);
			if (sqfs_compressor_create(&c2, &E.helper_cmp)) return -1;
		}
	} else if (!strcmp(k, "idtable")) E.kind = K_IDT;
	else if (!strcmp(k, "fragtable")) E.kind = K_FRAGT;
	else if (!strcmp(k, "xwr")) { E.kind = K_XWR; if (argc >= 2) snprintf(E.tmpdir, sizeof(E.tmpdir), "%s", argv[1]); }
	else if (!strcmp(k, "file") && argc >= 2) { E.kind = K_FILE; snprintf(E.path, sizeof(E.path), "%s", argv[1]); }
	else if (!strcmp(k, "wfile") && argc >= 2) { E.kind = K_WFILE; snprintf(E.tmpdir, sizeof(E.tmpdir), "%s", argv[1]); }
	else if (!strcmp(k, "nocopy") && argc >= 2) { E.kind = K_NOCOPY; snprintf(E.path, sizeof(E.path), "%s", argv[1]); }
	else if (!strcmp(k, "meta") && argc >= 2) { E.kind = K_META; if (open_image(argv[1])) return -1; }
	else if (!strcmp(k, "dir") && argc >= 3) { E.kind = K_DIR; E.dirflags = strtoul(argv[2], 0, 0); if (open_image(argv[1])) return -1; }
	else if (!strcmp(k, "data") && argc >= 2) { E.kind = K_DATA; if (open_image(argv[1])) return -1; }
	else if (!strcmp(k, "xattr") && argc >= 2) { E.kind = K_XRD; if (open_image(argv[1])) return -1; }
	else if (!strcmp(k, "rbt") && argc >= 3) { E.kind = K_RBT; U_ks = strtoul(argv[1], 0, 0); U_vs = strtoul(argv[2], 0, 0); return unit_setup(); }
	else if (!strcmp(k, "arr") && argc >= 2) { E.kind = K_ARR; U_sz = strtoul(argv[1], 0, 0); return unit_setup(); }
	else if (!strcmp(k, "strt")) { E.kind = K_STRT; return unit_setup(); }
	else return -1;
	for (i = 0; i < NOBJ; ++i) {
		if (i == 1) continue;		/* c is made by `copy` */
		E.obj[i] = make_object();
		if (!E.obj[i]) return -1;
	}
	return 0;
}

/* ------------------------------------------------------------------ what an object observes of itself */
typedef struct { unsigned long long h; } hh_t;
static void hh_init(hh_t *x) { x->h = 1469598103934665603ULL; }
static void hh_add(hh_t *x, const void *p, size_t n)
{
	const unsigned char *b = p; size_t i;
	for (i = 0; i < n; ++i) { x->h ^= b[i]; x->h *= 1099511628211ULL; }
}
static void hh_u64(hh_t *x, unsigned long long v) { hh_add(x, &v, sizeof(v)); }
#define HH_FIELD(x, f) hh_add((x), &(f), sizeof(f))

/* the struct's own plain fields: everything in it that is neither the object header nor a pointer to owned memory */
static unsigned long long fields_hash(int kind, const void *o)
{
	hh_t x; hh_init(&x); hh_u64(&x, kind);
	switch (kind) {
	case K_COMP: {
		const sqfs_compressor_t *b = o;
		HH_FIELD(&x, b->get_configuration); HH_FIELD(&x, b->write_options); HH_FIELD(&x, b->read_options); HH_FIELD(&x, b->do_block);
		switch (E.ccfg.id) {
		case SQFS_COMP_GZIP: { const gzip_compressor_t *g = o; HH_FIELD(&x, g->compress); HH_FIELD(&x, g->block_size);
			HH_FIELD(&x, g->opt.level); HH_FIELD(&x, g->opt.window); HH_FIELD(&x, g->opt.strategies); break; }
		case SQFS_COMP_XZ: { const xz_compressor_t *z = o; HH_FIELD(&x, z->block_size); HH_FIELD(&x, z->dict_size); HH_FIELD(&x, z->level);
			HH_FIELD(&x, z->lc); HH_FIELD(&x, z->lp); HH_FIELD(&x, z->pb); HH_FIELD(&x, z->flags); break; }
		case SQFS_COMP_LZMA: { const lzma_compressor_t *z = o; HH_FIELD(&x, z->block_size); HH_FIELD(&x, z->dict_size); HH_FIELD(&x, z->flags);
			HH_FIELD(&x, z->level); HH_FIELD(&x, z->lc); HH_FIELD(&x, z->lp); HH_FIELD(&x, z->pb); break; }
		case SQFS_COMP_LZ4: { const lz4_compressor_t *z = o; HH_FIELD(&x, z->block_size); HH_FIELD(&x, z->high_compression); break; }
		case SQFS_COMP_ZSTD: { const zstd_compressor_t *z = o; HH_FIELD(&x, z->block_size); HH_FIELD(&x, z->level); break; }
		default: break;
		}
		break; }
	case K_IDT: { const sqfs_id_table_t *t = o; HH_FIELD(&x, t->ids.size); HH_FIELD(&x, t->ids.used); break; }
	case K_FRAGT: { const sqfs_frag_table_t *t = o; HH_FIELD(&x, t->table.size); HH_FIELD(&x, t->table.used); break; }
	case K_FILE: case K_WFILE: { const sqfs_file_stdio_t *f = o; const sqfs_file_t *b = o;
		HH_FIELD(&x, b->read_at); HH_FIELD(&x, b->write_at); HH_FIELD(&x, b->get_size); HH_FIELD(&x, b->truncate); HH_FIELD(&x, b->get_filename);
		HH_FIELD(&x, f->readonly); HH_FIELD(&x, f->size);
		if (kind == K_FILE) hh_add(&x, f->name, strlen(f->name) + 1);	/* (the writable twins have names of their own) */
		break; }
	case K_META: { const sqfs_meta_reader_t *m = o; HH_FIELD(&x, m->start); HH_FIELD(&x, m->limit); HH_FIELD(&x, m->data_used);
		HH_FIELD(&x, m->block_offset); HH_FIELD(&x, m->next_block); HH_FIELD(&x, m->offset); hh_add(&x, m->data, sizeof(m->data)); break; }
	case K_DIR: { const sqfs_dir_reader_t *d = o; hh_add(&x, &d->super, sizeof(d->super)); HH_FIELD(&x, d->flags);
		if (d->flags & SQFS_DIR_READER_DOT_ENTRIES) { HH_FIELD(&x, d->dcache.key_size); HH_FIELD(&x, d->dcache.key_size_padded); HH_FIELD(&x, d->dcache.value_size); HH_FIELD(&x, d->dcache.key_compare); }
		break; }
	case K_DATA: { const sqfs_data_reader_t *d = o; HH_FIELD(&x, d->data_blk_size); HH_FIELD(&x, d->current_block); HH_FIELD(&x, d->current_block_word);
		HH_FIELD(&x, d->frag_blk_size); HH_FIELD(&x, d->current_frag_index); HH_FIELD(&x, d->block_size); break; }
	case K_XRD: { const sqfs_xattr_reader_t *r = o; HH_FIELD(&x, r->xattr_start); HH_FIELD(&x, r->xattr_end); HH_FIELD(&x, r->num_id_blocks);
		HH_FIELD(&x, r->num_ids); break; }
	case K_XWR: { const sqfs_xattr_writer_t *w = o; HH_FIELD(&x, w->kv_start); HH_FIELD(&x, w->num_blocks); HH_FIELD(&x, w->keys.next_index);
		HH_FIELD(&x, w->values.next_index); HH_FIELD(&x, w->kv_pairs.size); HH_FIELD(&x, w->kv_pairs.used);
		HH_FIELD(&x, w->kv_block_tree.key_size); HH_FIELD(&x, w->kv_block_tree.key_size_padded); HH_FIELD(&x, w->kv_block_tree.value_size); HH_FIELD(&x, w->kv_block_tree.key_compare); break; }
	}
	return x.h;
}

static void hh_strtable(hh_t *x, const str_table_t *t)
{
	size_t i;
	hh_u64(x, t->bucket_ptrs.used);
	for (i = 0; i < t->bucket_ptrs.used; ++i) {
		const str_bucket_t *b = ((str_bucket_t **)t->bucket_ptrs.data)[i];
		if (!b) { hh_u64(x, 0xdead); continue; }
		hh_u64(x, b->index); hh_u64(x, b->refcount); hh_add(x, b->string, strlen(b->string) + 1);
	}
}

/* every byte of every node, in pre-order with the shape (NULL children marked): colour, value_offset and all
   key_size_padded + value_size bytes of data[] (key, padding, value).  `mask` bytes at the start of data[] hold a pointer
   into the own object (xattr writer: kv_block_desc_t.next) and count only as NULL / not NULL. */
static void hh_tree(hh_t *x, const rbtree_t *t, const rbtree_node_t *n, size_t mask)
{
	size_t i, len = t->key_size_padded + t->value_size;
	if (!n) { hh_u64(x, 0x4e554c4cULL); return; }
	hh_u64(x, n->is_red); hh_u64(x, n->value_offset);
	if (mask) { int nz = 0; for (i = 0; i < mask && i < len; ++i) nz |= n->data[i]; hh_u64(x, nz != 0); }
	if (len > mask) hh_add(x, n->data + mask, len - mask);
	hh_tree(x, t, n->left, mask);
	hh_tree(x, t, n->right, mask);
}
#define XWR_MASK (offsetof(kv_block_desc_t, next) == 0 ? sizeof(void *) : 0)

/* fields, the used part of every owned buffer (cached blocks: all block_size bytes, the readers index that far), and
   the same for the objects it owns through deep references (shared file and compressor are not part of it) */
static unsigned long long view_hash(int kind, const void *o)
{
	hh_t x;
	if (!o) return 0;
	hh_init(&x); hh_u64(&x, fields_hash(kind, o));
	switch (kind) {
	case K_IDT: { const sqfs_id_table_t *t = o; hh_add(&x, t->ids.data, t->ids.used * t->ids.size); break; }
	case K_FRAGT: { const sqfs_frag_table_t *t = o; hh_add(&x, t->table.data, t->table.used * t->table.size); break; }
	case K_DIR: { const sqfs_dir_reader_t *d = o;
		if (d->flags & SQFS_DIR_READER_DOT_ENTRIES) hh_tree(&x, &d->dcache, d->dcache.root, 0);
		hh_u64(&x, view_hash(K_META, d->meta_inode)); hh_u64(&x, view_hash(K_META, d->meta_dir)); break; }
	case K_DATA: { const sqfs_data_reader_t *d = o;
		hh_u64(&x, view_hash(K_FRAGT, d->frag_tbl));
		hh_u64(&x, d->data_block != NULL); if (d->data_block) hh_add(&x, d->data_block, d->block_size);
		hh_u64(&x, d->frag_block != NULL); if (d->frag_block) hh_add(&x, d->frag_block, d->block_size);
		break; }
	case K_XRD: { const sqfs_xattr_reader_t *r = o;
		hh_u64(&x, r->id_block_starts != NULL); if (r->id_block_starts) hh_add(&x, r->id_block_starts, r->num_id_blocks * sizeof(sqfs_u64));
		hh_u64(&x, view_hash(K_META, r->kvrd)); hh_u64(&x, view_hash(K_META, r->idrd)); break; }
	case K_XWR: { const sqfs_xattr_writer_t *w = o; const kv_block_desc_t *it; size_t guard = 0;
		hh_strtable(&x, &w->keys); hh_strtable(&x, &w->values);
		hh_add(&x, w->kv_pairs.data, w->kv_pairs.used * w->kv_pairs.size);
		hh_tree(&x, &w->kv_block_tree, w->kv_block_tree.root, XWR_MASK);
		for (it = w->kv_block_first; it && guard < 100000; it = it->next, ++guard) hh_u64(&x, it->start);
		break; }
	default: break;
	}
	return x.h;
}

/* ------------------------------------------------------------------ the probe: facts about a fresh copy */
static const char *bufstate(const void *ob, const void *cb)
{
	if (cb == NULL) return ob == NULL ? "null" : "lost";
	if (cb == ob) return "alias";
	if (ob && malloc_usable_size((void *)cb) < malloc_usable_size((void *)ob)) return "trim";
	if (ob && malloc_usable_size((void *)cb) > malloc_usable_size((void *)ob)) return "grow";
	return "dup";
}

/* the root node of a tree: in the pool configuration it is not a malloc block (no size to compare) */
static const char *nodestate(const void *ob, const void *cb)
{
#if C19_POOL
	if (cb == NULL) return ob == NULL ? "null" : "lost";
	return cb == ob ? "alias" : "dup";
#else
	return bufstate(ob, cb);
#endif
}

/* a fresh buffer whose used part does not hold what the original's holds is reported as `differ` */
static const char *bufstate_c(const void *ob, const void *cb, size_t used)
{
	const char *st = bufstate(ob, cb);
	if ((!strcmp(st, "dup") || !strcmp(st, "trim")) && ob && used && memcmp(ob, cb, used)) return "differ";
	return st;
}

/* string tables: every bucket with index, use count and bytes */
static const char *strtable_state(const str_table_t *a, const str_table_t *b)
{
	const char *st = bufstate(a->bucket_ptrs.data, b->bucket_ptrs.data);
	size_t i;
	if (strcmp(st, "dup") && strcmp(st, "trim")) return st;
	if (a->next_index != b->next_index || a->bucket_ptrs.used != b->bucket_ptrs.used) return "differ";
	for (i = 0; i < a->bucket_ptrs.used; ++i) {
		const str_bucket_t *x = ((str_bucket_t **)a->bucket_ptrs.data)[i], *y = ((str_bucket_t **)b->bucket_ptrs.data)[i];
		if (!x || !y) { if (x != y) return "differ"; continue; }
		if (x == y) return "alias";
		if (x->index != y->index || x->refcount != y->refcount || strcmp(x->string, y->string)) return "differ";
	}
	return st;
}

/* ref slot: `before` is the referenced object's refcount before the copy */
static const char *refstate(const void *oref, const void *cref, size_t before)
{
	const sqfs_object_t *r = cref;
	if (cref == NULL) return oref == NULL ? "null" : "lost";
	if (cref != oref) return (r->refcount == 1 && r->destroy && r->copy) ? "deep" : "deep-bad";
	return r->refcount == before + 1 ? "grab" : "alias";
}

static size_t rc_of(const void *p) { return p ? ((const sqfs_object_t *)p)->refcount : 0; }

typedef struct { size_t rc[4]; } rcsnap_t;

static void snap_refs(const void *o, rcsnap_t *s)
{
	memset(s, 0, sizeof(*s));
	switch (E.kind) {
	case K_META: { const sqfs_meta_reader_t *m = o; s->rc[0] = rc_of(m->file); s->rc[1] = rc_of(m->cmp); break; }
	case K_DATA: { const sqfs_data_reader_t *d = o; s->rc[0] = rc_of(d->frag_tbl); s->rc[1] = rc_of(d->file); s->rc[2] = rc_of(d->cmp); break; }
	case K_DIR: { const sqfs_dir_reader_t *d = o; s->rc[0] = rc_of(d->meta_inode); s->rc[1] = rc_of(d->meta_dir); break; }
	case K_XRD: { const sqfs_xattr_reader_t *x = o; s->rc[0] = rc_of(x->kvrd); s->rc[1] = rc_of(x->idrd); break; }
	default: break;
	}
}

static void probe(const void *o, const void *c, const rcsnap_t *s, char *buf, size_t n)
{
	const sqfs_object_t *ob = o, *cb = c;
	/* last buffer slot of every kind but the two tables: the struct's plain fields */
	const char *fl = fields_hash(E.kind, o) == fields_hash(E.kind, c) ? "dup" : "differ";
	int k = snprintf(buf, n, "rc=%zu destroy=%d copy=%d samehooks=%d", cb->refcount, cb->destroy != NULL, cb->copy != NULL,
			 cb->destroy == ob->destroy && cb->copy == ob->copy);
	switch (E.kind) {
	case K_COMP: {
		if (E.ccfg.id == SQFS_COMP_GZIP) { const gzip_compressor_t *a = o, *b = c;	/* slot 0: the state made by deflateInit2 / inflateInit */
			snprintf(buf + k, n - k, " bufs=%s,%s refs=", b->strm.state == NULL ? "lost" : (b->strm.state == a->strm.state ? "alias" : "dup"), fl);
		} else if (E.ccfg.id == SQFS_COMP_ZSTD) { const zstd_compressor_t *a = o, *b = c;
			snprintf(buf + k, n - k, " bufs=%s,%s refs=", b->zctx == NULL ? "lost" : (b->zctx == a->zctx ? "alias" : "dup"), fl);
		} else snprintf(buf + k, n - k, " bufs=%s refs=", fl);
		break; }
	case K_IDT: { const sqfs_id_table_t *a = o, *b = c; snprintf(buf + k, n - k, " bufs=%s refs=", bufstate_c(a->ids.data, b->ids.data, a->ids.used * a->ids.size)); break; }
	case K_FRAGT: { const sqfs_frag_table_t *a = o, *b = c; snprintf(buf + k, n - k, " bufs=%s refs=", bufstate_c(a->table.data, b->table.data, a->table.used * a->table.size)); break; }
	case K_FILE: { const sqfs_file_stdio_t *a = o, *b = c; snprintf(buf + k, n - k, " bufs=%s,%s refs=", a->fd == b->fd ? "alias" : "dup", fl); break; }	/* slot 0 = the descriptor */
	case K_META: { const sqfs_meta_reader_t *a = o, *b = c;
		snprintf(buf + k, n - k, " bufs=%s refs=%s,%s", fl, refstate(a->file, b->file, s->rc[0]), refstate(a->cmp, b->cmp, s->rc[1])); break; }
	case K_DATA: { const sqfs_data_reader_t *a = o, *b = c;
		/* contents are compared over all block_size bytes: the readers index the cached blocks that far */
		snprintf(buf + k, n - k, " bufs=%s,%s,%s refs=%s,%s,%s", bufstate_c(a->data_block, b->data_block, a->block_size), bufstate_c(a->frag_block, b->frag_block, a->block_size), fl,
			 refstate(a->frag_tbl, b->frag_tbl, s->rc[0]), refstate(a->file, b->file, s->rc[1]), refstate(a->cmp, b->cmp, s->rc[2])); break; }
	case K_DIR: { const sqfs_dir_reader_t *a = o, *b = c; const char *dc = "null";
		if (a->flags & SQFS_DIR_READER_DOT_ENTRIES) {
			hh_t x, y; hh_init(&x); hh_init(&y); hh_tree(&x, &a->dcache, a->dcache.root, 0); hh_tree(&y, &b->dcache, b->dcache.root, 0);
			dc = nodestate(a->dcache.root, b->dcache.root);
			if ((!strcmp(dc, "dup") || !strcmp(dc, "trim")) && x.h != y.h) dc = "differ";
		}
		snprintf(buf + k, n - k, " bufs=%s,%s refs=%s,%s", dc, fl,
			 refstate(a->meta_inode, b->meta_inode, s->rc[0]), refstate(a->meta_dir, b->meta_dir, s->rc[1])); break; }
	case K_XRD: { const sqfs_xattr_reader_t *a = o, *b = c;
		snprintf(buf + k, n - k, " bufs=%s,%s refs=%s,%s", bufstate_c(a->id_block_starts, b->id_block_starts, a->num_id_blocks * sizeof(sqfs_u64)), fl,
			 refstate(a->kvrd, b->kvrd, s->rc[0]), refstate(a->idrd, b->idrd, s->rc[1])); break; }
	case K_XWR: { const sqfs_xattr_writer_t *a = o, *b = c;
		/* buffers: key bucket array, value bucket array, pair array, tree root, fields; self-references: list head/tail, tree context */
		const char *first = b->kv_block_first == NULL ? (a->kv_block_first == NULL ? "null" : "lost") : (b->kv_block_first == a->kv_block_first ? "alias" : "own");
		const char *last = b->kv_block_last == NULL ? (a->kv_block_last == NULL ? "null" : "lost") : (b->kv_block_last == a->kv_block_last ? "alias" : "own");
		const char *ctx = b->kv_block_tree.key_context == (void *)b ? "own" : (b->kv_block_tree.key_context == (void *)a ? "alias" : "other");
		const char *tr = nodestate(a->kv_block_tree.root, b->kv_block_tree.root);
		if (!strcmp(tr, "dup") || !strcmp(tr, "trim")) {
			hh_t x, y; hh_init(&x); hh_init(&y); hh_tree(&x, &a->kv_block_tree, a->kv_block_tree.root, XWR_MASK); hh_tree(&y, &b->kv_block_tree, b->kv_block_tree.root, XWR_MASK);
			if (x.h != y.h) tr = "differ";
		}
		snprintf(buf + k, n - k, " bufs=%s,%s,%s,%s,%s refs= self=%s,%s,%s", strtable_state(&a->keys, &b->keys),
			 strtable_state(&a->values, &b->values), bufstate_c(a->kv_pairs.data, b->kv_pairs.data, a->kv_pairs.used * a->kv_pairs.size),
			 tr, fl, first, last, ctx); break; }
	default: snprintf(buf + k, n - k, " bufs= refs="); break;
	}
}

/* state dumps for the function-level comparison with `sqfsmodel c19 drcopy` / `mrcopy` */
static void put_hex(const unsigned char *p, size_t n)
{
	static const char d[] = "0123456789abcdef"; size_t i;
	if (!p) { putchar('N'); return; }
	if (n == 0) { putchar('-'); return; }
	for (i = 0; i < n; ++i) { putchar(d[p[i] >> 4]); putchar(d[p[i] & 15]); }
}

/* a tree as tokens, pre-order: `<r|b><value_offset>:<all bytes of data[]>`, `x` = NULL (format of `sqfsmodel c19 unit` / `copystate`) */
static void tree_tokens(const rbtree_t *t, const rbtree_node_t *n, int *first)
{
	if (!*first) putchar(',');
	*first = 0;
	if (!n) { putchar('x'); return; }
	printf("%c%u:", n->is_red ? 'r' : 'b', n->value_offset);
	put_hex(n->data, t->key_size_padded + t->value_size);
	tree_tokens(t, n->left, first);
	tree_tokens(t, n->right, first);
}

#define QMAX 256
static void dir_keys(const rbtree_node_t *n, sqfs_u32 *q, size_t *nq)
{
	if (!n) return;
	dir_keys(n->left, q, nq);
	if (*nq < QMAX) { sqfs_u32 k; memcpy(&k, n->data, sizeof(k)); q[(*nq)++] = k; }
	dir_keys(n->right, q, nq);
}

static void dump_state(const char *name, const void *o)
{
	if (!o) { out("dump %s none", name); return; }
	if (E.kind == K_DATA) {
		const sqfs_data_reader_t *d = o; size_t i, nt = sqfs_frag_table_get_size(d->frag_tbl);
		printf("dump %s data bs=%u dsz=%zu cur=%llu word=%u fsz=%zu fidx=%u tbl=", name, d->block_size, d->data_blk_size,
		       (unsigned long long)d->current_block, d->current_block_word, d->frag_blk_size, d->current_frag_index);
		if (nt == 0) putchar('-');
		for (i = 0; i < nt; ++i) { sqfs_fragment_t f; sqfs_frag_table_lookup(d->frag_tbl, i, &f); printf("%s%llu:%u", i ? "," : "", (unsigned long long)f.start_offset, f.size); }
		printf(" dblk="); put_hex(d->data_block, d->block_size);
		printf(" fblk="); put_hex(d->frag_block, d->block_size);
		putchar('\n'); fflush(stdout);
	} else if (E.kind == K_META) {
		const sqfs_meta_reader_t *m = o;
		printf("dump %s meta start=%llu limit=%llu tag=%llu next=%llu used=%zu off=%zu data=", name, (unsigned long long)m->start, (unsigned long long)m->limit,
		       (unsigned long long)m->block_offset, (unsigned long long)m->next_block, m->data_used, m->offset);
		put_hex(m->data, sizeof(m->data));
		putchar('\n'); fflush(stdout);
	} else if (E.kind == K_DIR) {
		/* the inode-number -> reference cache: every node with colour, value_offset and all bytes of data[], in pre-order
		   (`x` = NULL child); `q` = inode numbers asked of sqfs_dir_reader_resolve_inum (every cached one and a few
		   others), `res` = its answers */
		sqfs_dir_reader_t *d = (sqfs_dir_reader_t *)o; sqfs_u32 q[QMAX + 8]; size_t nq = 0, i; int dots = (d->flags & SQFS_DIR_READER_DOT_ENTRIES) != 0;
		if (dots) dir_keys(d->dcache.root, q, &nq);
		q[nq++] = 0; q[nq++] = 1; q[nq++] = 2; q[nq++] = E.super.inode_count; q[nq++] = E.super.inode_count + 1;
		printf("dump %s dir flags=%u ks=%zu kp=%zu vs=%zu q=", name, d->flags, dots ? d->dcache.key_size : (size_t)0,
		       dots ? d->dcache.key_size_padded : (size_t)0, dots ? d->dcache.value_size : (size_t)0);
		for (i = 0; i < nq; ++i) printf("%s%u", i ? "," : "", q[i]);
		printf(" tree=");
		if (dots) { int first = 1; tree_tokens(&d->dcache, d->dcache.root, &first); } else printf("none");
		printf(" res=");
		for (i = 0; i < nq; ++i) { sqfs_u64 ref = 0; int r = sqfs_dir_reader_resolve_inum(d, q[i], &ref); printf("%s%u:%d:%llu", i ? "," : "", q[i], r, r ? 0ULL : (unsigned long long)ref); }
		putchar('\n'); fflush(stdout);
	} else out("dump %s unsupported", name);
}

/* ------------------------------------------------------------------ operations */
static int inode_of(const char *path, sqfs_inode_generic_t **ino)
{
	sqfs_u64 ref;
	int ret;
	*ino = NULL;
	if (!strcmp(path, "/")) return sqfs_dir_reader_get_root_inode(E.helper_dir, ino);
	ret = sqfs_dir_reader_resolve_path(E.helper_dir, path, NULL, &ref);
	if (ret) return ret;
	return sqfs_dir_reader_get_inode(E.helper_dir, ref, ino);
}

static void op_comp(sqfs_compressor_t *c, int argc, char **argv)
{
	unsigned char *in = NULL, *tmp, *res;
	char hb[128];
	long n;
	sqfs_s32 ret;
	if (argc < 2 || strcmp(argv[0], "blk") || (n = hex_decode_tok(argv[1], &in, 0)) < 0) { out("bad-op"); return; }
	tmp = __real_malloc(n + 4096); res = __real_malloc(n + 4096);
	if (E.helper_cmp) {
		sqfs_s32 csz = E.helper_cmp->do_block(E.helper_cmp, in, n, tmp, n + 4096);
		if (csz <= 0) { out("blk skip %d", csz); goto done; }
		ret = c->do_block(c, tmp, csz, res, n + 4096);
		if (ret > 0) { put_bytes(hb, sizeof(hb), res, ret); out("blk %d %s %s", ret, hb, (ret == n && !memcmp(res, in, n)) ? "roundtrip" : "MISMATCH"); }
		else out("blk %d", ret);
	} else {
		ret = c->do_block(c, in, n, res, n + 4096);
		if (ret > 0) { put_bytes(hb, sizeof(hb), res, ret); out("blk %d %s", ret, hb); }
		else out("blk %d", ret);
	}
done:
	free(tmp); free(res); free(in);
}

static void op_idt(sqfs_id_table_t *t, int argc, char **argv)
{
	if (argc >= 2 && !strcmp(argv[0], "add")) { sqfs_u16 idx = 0xffff; int r = sqfs_id_table_id_to_index(t, strtoul(argv[1], 0, 0), &idx); out("add %d %u", r, r ? 0 : idx); }
	else if (argc >= 2 && !strcmp(argv[0], "fill")) {	/* set-up of a large table: ids 0 .. n-1 as n adds would leave them */
		sqfs_u32 i, n = strtoul(argv[1], 0, 0);
		if (t->ids.used != 0 || n > 0xFFFF) { out("bad-op"); return; }
		for (i = 0; i < n; ++i) if (array_append(&t->ids, &i)) { out("fill failed"); return; }
		out("fill %u", n);
	}
	else if (argc >= 2 && !strcmp(argv[0], "get")) { sqfs_u32 id = 0; int r = sqfs_id_table_index_to_id(t, strtoul(argv[1], 0, 0), &id); out("get %d %u", r, r ? 0 : id); }
	else out("bad-op");
}

static void op_fragt(sqfs_frag_table_t *t, int argc, char **argv)
{
	if (argc >= 3 && !strcmp(argv[0], "append")) { sqfs_u32 idx = 0; int r = sqfs_frag_table_append(t, strtoull(argv[1], 0, 0), strtoul(argv[2], 0, 0), &idx); out("append %d %u", r, idx); }
	else if (argc >= 2 && !strcmp(argv[0], "lookup")) { sqfs_fragment_t f; int r; memset(&f, 0, sizeof(f)); r = sqfs_frag_table_lookup(t, strtoul(argv[1], 0, 0), &f);
		out("lookup %d %llu %u", r, r ? 0ULL : (unsigned long long)f.start_offset, r ? 0 : f.size); }
	else if (argc >= 4 && !strcmp(argv[0], "set")) { int r = sqfs_frag_table_set(t, strtoul(argv[1], 0, 0), strtoull(argv[2], 0, 0), strtoul(argv[3], 0, 0)); out("set %d", r); }
	else if (argc >= 1 && !strcmp(argv[0], "size")) out("size %zu", sqfs_frag_table_get_size(t));
	else out("bad-op");
}

static void op_file(sqfs_file_t *f, int argc, char **argv)
{
	if (argc >= 3 && !strcmp(argv[0], "read")) {
		size_t n = strtoul(argv[2], 0, 0); unsigned char *b = __real_calloc(1, n + 1); char hb[128];
		int r = f->read_at(f, strtoull(argv[1], 0, 0), b, n);
		put_bytes(hb, sizeof(hb), b, r ? 0 : n); out("read %d %s", r, hb); free(b);
	} else if (argc >= 1 && !strcmp(argv[0], "size")) out("size %llu %s", (unsigned long long)f->get_size(f),
			/* (the writable twins have names of their own) */
			E.kind == K_WFILE ? "-" : strrchr(f->get_filename(f), '/') ? strrchr(f->get_filename(f), '/') + 1 : f->get_filename(f));
	else out("bad-op");
}

static void op_meta(sqfs_meta_reader_t *m, int argc, char **argv)
{
	if (argc >= 3 && !strcmp(argv[0], "seek")) out("seek %d", sqfs_meta_reader_seek(m, E.super.inode_table_start + strtoull(argv[1], 0, 0), strtoul(argv[2], 0, 0)));
	else if (argc >= 2 && !strcmp(argv[0], "read")) {
		size_t n = strtoul(argv[1], 0, 0); unsigned char *b = __real_calloc(1, n + 1); char hb[128];
		int r = sqfs_meta_reader_read(m, b, n);
		put_bytes(hb, sizeof(hb), b, r ? 0 : n); out("read %d %s", r, hb); free(b);
	} else if (argc >= 1 && !strcmp(argv[0], "pos")) { sqfs_u64 b; size_t o; sqfs_meta_reader_get_position(m, &b, &o); out("pos %llu %zu", (unsigned long long)(b - E.super.inode_table_start), o); }
	else out("bad-op");
}

static void op_dir(sqfs_dir_reader_t *d, int argc, char **argv)
{
	if (argc >= 1 && !strcmp(argv[0], "root")) {
		sqfs_inode_generic_t *ino = NULL; int r = sqfs_dir_reader_get_root_inode(d, &ino);
		out("root %d %u %u", r, r ? 0 : ino->base.inode_number, r ? 0 : ino->base.type); sqfs_free(ino);
	} else if (argc >= 2 && !strcmp(argv[0], "resolve")) {
		sqfs_u64 ref = 0; int r = sqfs_dir_reader_resolve_path(d, argv[1], NULL, &ref); out("resolve %d %llu", r, r ? 0ULL : (unsigned long long)ref);
	} else if (argc >= 2 && !strcmp(argv[0], "inum")) {
		sqfs_u64 ref = 0; int r = sqfs_dir_reader_resolve_inum(d, strtoul(argv[1], 0, 0), &ref); out("inum %d %llu", r, r ? 0ULL : (unsigned long long)ref);
	} else if (argc >= 2 && !strcmp(argv[0], "list")) {
		sqfs_inode_generic_t *ino = NULL; sqfs_dir_reader_state_t st; sqfs_dir_node_t *ent; sqfs_u64 ref = E.super.root_inode_ref;
		unsigned long long h = 1469598103934665603ULL; int r = 0, n = 0; size_t i;
		if (strcmp(argv[1], "/")) r = sqfs_dir_reader_resolve_path(d, argv[1], NULL, &ref);
		if (!r) r = sqfs_dir_reader_get_inode(d, ref, &ino);
		if (!r) r = sqfs_dir_reader_open_dir(d, ino, &st, 0);
		while (!r) {
			ent = NULL;
			r = sqfs_dir_reader_read(d, &st, &ent);
			if (r) break;
			for (i = 0; i <= ent->size; ++i) { h ^= ent->name[i]; h *= 1099511628211ULL; }
			h ^= ent->type; h *= 1099511628211ULL; h ^= (st.ent_ref & 0xffffffff); h *= 1099511628211ULL;
			h ^= (st.ent_ref >> 32); h *= 1099511628211ULL;	/* all 64 bits of the reference */
			++n; sqfs_free(ent);
		}
		out("list %d %d %016llx", r > 0 ? 0 : r, n, h); sqfs_free(ino);
	} else if (argc >= 2 && !strcmp(argv[0], "dots")) {
		/* open the directory and read its first two entries ("." and ".." when the reader makes them), with the full
		   reference each carries, and load the inode behind that reference */
		sqfs_inode_generic_t *ino = NULL, *p; sqfs_dir_reader_state_t st; sqfs_dir_node_t *ent; sqfs_u64 ref = E.super.root_inode_ref;
		char b[512]; int r = 0, k, n = 0;
		if (strcmp(argv[1], "/")) r = sqfs_dir_reader_resolve_path(d, argv[1], NULL, &ref);
		if (!r) r = sqfs_dir_reader_get_inode(d, ref, &ino);
		if (!r) r = sqfs_dir_reader_open_dir(d, ino, &st, 0);
		n = snprintf(b, sizeof(b), "dots %d", r);
		for (k = 0; !r && k < 2; ++k) {
			int e, g; char hb[128];
			ent = NULL; p = NULL;
			e = sqfs_dir_reader_read(d, &st, &ent);
			if (e) { n += snprintf(b + n, sizeof(b) - n, " e%d=%d", k, e); break; }
			put_bytes(hb, sizeof(hb), ent->name, ent->size + 1);
			g = sqfs_dir_reader_get_inode(d, st.ent_ref, &p);
			n += snprintf(b + n, sizeof(b) - n, " %s:%llu:%d:%u", hb, (unsigned long long)st.ent_ref, g, g ? 0 : p->base.inode_number);
			sqfs_free(ent); sqfs_free(p);
		}
		out("%s", b); sqfs_free(ino);
	} else if (argc >= 2 && !strcmp(argv[0], "inumof")) {
		/* resolve_inum of the inode number that `path` has (found through the scenario's private helper reader) */
		sqfs_inode_generic_t *ino = NULL; sqfs_u64 ref = 0; int r;
		if (inode_of(argv[1], &ino)) { out("inumof no-such-path"); return; }
		r = sqfs_dir_reader_resolve_inum(d, ino->base.inode_number, &ref);
		out("inumof %d %llu", r, r ? 0ULL : (unsigned long long)ref); sqfs_free(ino);
	} else if (argc >= 3 && !strcmp(argv[0], "rel")) {
		/* path resolution that starts at a directory inode (`-` = empty path: the reference of the start inode itself) */
		sqfs_inode_generic_t *ino = NULL; sqfs_u64 ref = 0; int r;
		if (inode_of(argv[1], &ino)) { out("rel no-such-path"); return; }
		r = sqfs_dir_reader_resolve_path(d, strcmp(argv[2], "-") ? argv[2] : "", ino, &ref);
		out("rel %d %llu", r, r ? 0ULL : (unsigned long long)ref); sqfs_free(ino);
	} else if (argc >= 2 && !strcmp(argv[0], "walk")) {
		/* list a directory and load the inode of every entry (directory inodes enter the cache) */
		sqfs_inode_generic_t *ino = NULL, *p; sqfs_dir_reader_state_t st; sqfs_dir_node_t *ent; sqfs_u64 ref = E.super.root_inode_ref;
		unsigned long long h = 1469598103934665603ULL; int r = 0, n = 0, lim = argc >= 3 ? atoi(argv[2]) : 40; size_t i;
		if (strcmp(argv[1], "/")) r = sqfs_dir_reader_resolve_path(d, argv[1], NULL, &ref);
		if (!r) r = sqfs_dir_reader_get_inode(d, ref, &ino);
		if (!r) r = sqfs_dir_reader_open_dir(d, ino, &st, 0);
		while (!r && n < lim) {
			int g;
			ent = NULL; p = NULL;
			r = sqfs_dir_reader_read(d, &st, &ent);
			if (r) break;
			g = sqfs_dir_reader_get_inode(d, st.ent_ref, &p);
			for (i = 0; i <= ent->size; ++i) { h ^= ent->name[i]; h *= 1099511628211ULL; }
			h ^= (st.ent_ref & 0xffffffff); h *= 1099511628211ULL; h ^= (st.ent_ref >> 32); h *= 1099511628211ULL;
			h ^= (unsigned)g; h *= 1099511628211ULL; h ^= g ? 0 : p->base.inode_number; h *= 1099511628211ULL;
			++n; sqfs_free(ent); sqfs_free(p);
		}
		out("walk %d %d %016llx", r > 0 ? 0 : r, n, h); sqfs_free(ino);
	} else out("bad-op");
}

static void op_data(sqfs_data_reader_t *d, int argc, char **argv)
{
	sqfs_inode_generic_t *ino = NULL; char hb[128]; int r;
	if (argc >= 1 && !strcmp(argv[0], "reload")) {	/* sqfs_data_reader_load_fragment_table again: drops the cached fragment block */
		out("reload %d", sqfs_data_reader_load_fragment_table(d, &E.super)); return;
	}
	if (argc < 2 || (r = inode_of(argv[1], &ino)) != 0) { out("bad-op"); return; }
	if (ino->base.type != SQFS_INODE_FILE && ino->base.type != SQFS_INODE_EXT_FILE) { out("not-a-file"); sqfs_free(ino); return; }
	if (argc >= 4 && !strcmp(argv[0], "read")) {
		size_t n = strtoul(argv[3], 0, 0); unsigned char *b = __real_calloc(1, n + 1);
		sqfs_s32 got = sqfs_data_reader_read(d, ino, strtoull(argv[2], 0, 0), b, n);
		put_bytes(hb, sizeof(hb), b, got > 0 ? got : 0); out("read %d %s", got, hb); free(b);
	} else if (argc >= 3 && !strcmp(argv[0], "block")) {
		size_t sz = 0; sqfs_u8 *b = NULL; r = sqfs_data_reader_get_block(d, ino, strtoul(argv[2], 0, 0), &sz, &b);
		put_bytes(hb, sizeof(hb), b, r ? 0 : sz); out("block %d %s", r, hb); sqfs_free(b);
	} else if (argc >= 3 && !strcmp(argv[0], "stream")) {
		/* a stream over the reader (sqfs_data_reader_create_stream): up to n rounds of get_buffered_data / advance_buffer
		   (the tail of the file comes out of the reader's fragment cache) */
		sqfs_istream_t *st = NULL; unsigned long rounds = strtoul(argv[2], 0, 0), i, j; size_t total = 0;
		unsigned long long h = 1469598103934665603ULL;
		r = sqfs_data_reader_create_stream(d, ino, "x", &st);
		if (r) out("stream create %d", r);
		else {
			for (i = 0; i < rounds; ++i) {
				const sqfs_u8 *p = NULL; size_t sz = 0;
				r = st->get_buffered_data(st, &p, &sz, 1);
				if (r) break;
				for (j = 0; j < sz; ++j) { h ^= p[j]; h *= 1099511628211ULL; }
				total += sz; st->advance_buffer(st, sz);
			}
			out("stream %d %zu %016llx", r, total, h); sqfs_drop(st);
		}
	} else if (!strcmp(argv[0], "frag")) {
		size_t sz = 0; sqfs_u8 *b = NULL; r = sqfs_data_reader_get_fragment(d, ino, &sz, &b);
		put_bytes(hb, sizeof(hb), b, r ? 0 : sz); out("frag %d %s", r, hb); sqfs_free(b);
	} else out("bad-op");
	sqfs_free(ino);
}

static void op_xrd(sqfs_xattr_reader_t *x, int argc, char **argv)
{
	if (argc >= 2 && !strcmp(argv[0], "desc")) {
		sqfs_xattr_id_t d; int r = sqfs_xattr_reader_get_desc(x, strtoul(argv[1], 0, 0), &d);
		out("desc %d %llu %u %u", r, r ? 0ULL : (unsigned long long)d.xattr, r ? 0 : d.count, r ? 0 : d.size);
	} else if (argc >= 2 && !strcmp(argv[0], "readall")) {
		sqfs_xattr_t *l = NULL, *it; unsigned long long h = 1469598103934665603ULL; int n = 0; size_t i;
		int r;
		/* on an image without xattrs get_desc(0) succeeds and read_all then seeks through a NULL reader: library
		   robustness issue that has nothing to do with copies (twins crash alike) - not exercised here */
		if (x->kvrd == NULL && strtoul(argv[1], 0, 0) == 0) { out("readall no-xattrs"); return; }
		r = sqfs_xattr_reader_read_all(x, strtoul(argv[1], 0, 0), &l);
		for (it = l; !r && it; it = it->next) {
			for (i = 0; it->key[i]; ++i) { h ^= (unsigned char)it->key[i]; h *= 1099511628211ULL; }
			for (i = 0; i < it->value_len; ++i) { h ^= it->value[i]; h *= 1099511628211ULL; }
			h ^= 0xff; h *= 1099511628211ULL; ++n;
		}
		out("readall %d %d %016llx", r, n, h); sqfs_xattr_list_free(l);
	} else if (argc >= 2 && !strcmp(argv[0], "first")) {	/* the low-level path: desc, seek, key, value */
		sqfs_xattr_id_t d; sqfs_xattr_entry_t *k = NULL; sqfs_xattr_value_t *v = NULL; char hk[128], hv[128];
		int r;
		if (x->kvrd == NULL) { out("first no-xattrs"); return; }	/* seek_kv on an image without xattrs is API misuse */
		r = sqfs_xattr_reader_get_desc(x, strtoul(argv[1], 0, 0), &d);
		if (!r) r = sqfs_xattr_reader_seek_kv(x, &d);
		if (!r) r = sqfs_xattr_reader_read_key(x, &k);
		if (!r) r = sqfs_xattr_reader_read_value(x, k, &v);
		if (!r) { put_bytes(hk, sizeof(hk), k->key, strlen((char *)k->key)); put_bytes(hv, sizeof(hv), v->value, v->size); out("first 0 %s %s", hk, hv); }
		else out("first %d", r);
		sqfs_free(k); sqfs_free(v);
	} else out("bad-op");
}

/* ------------------------------------------------------------------ the generic containers as units */
static int u_cmp(const void *ctx, const void *l, const void *r) { (void)ctx; return memcmp(l, r, U_ks); }

static int unit_setup(void)
{
	switch (E.kind) {
	case K_RBT: { rbtree_t *t = __real_calloc(1, sizeof(*t)); if (!t || rbtree_init(t, U_ks, U_vs, u_cmp)) return -1; E.obj[0] = t; return 0; }
	case K_ARR: { array_t *a = __real_calloc(1, sizeof(*a)); if (!a || array_init(a, U_sz, 0)) return -1; E.obj[0] = a; return 0; }
	case K_STRT: { str_table_t *t = __real_calloc(1, sizeof(*t)); if (!t || str_table_init(t)) return -1; E.obj[0] = t; return 0; }
	}
	return -1;
}

static void unit_release(int t)
{
	if (!E.obj[t]) return;
	switch (E.kind) {
	case K_RBT: rbtree_cleanup(E.obj[t]); break;
	case K_ARR: array_cleanup(E.obj[t]); break;
	case K_STRT: str_table_cleanup(E.obj[t]); break;
	}
	free(E.obj[t]); E.obj[t] = NULL;
}

static int node_in(const rbtree_node_t *n, const rbtree_node_t *x)
{
	return n && (n == x || node_in(n->left, x) || node_in(n->right, x));
}
static int tree_shares(const rbtree_node_t *a, const rbtree_node_t *b)	/* does tree b contain a node of tree a */
{
	return b && (node_in(a, b) || tree_shares(a, b->left) || tree_shares(a, b->right));
}
static int all_zero(const void *p, size_t n) { const unsigned char *b = p; size_t i; for (i = 0; i < n; ++i) if (b[i]) return 0; return 1; }

/* every hash table entry of a string table must lead to the table's own bucket of that index, by data and by key */
static int strt_consistent(const str_table_t *t)
{
	size_t n = 0;
	hash_table_foreach(t->ht, ent) {
		const str_bucket_t *b = ent->data;
		if (!b || b->index >= t->bucket_ptrs.used || ((str_bucket_t **)t->bucket_ptrs.data)[b->index] != b || ent->key != b->string) return 0;
		++n;
	}
	return n == t->next_index && t->bucket_ptrs.used == t->next_index;
}

static void unit_copy(long k)
{
	int ret;
	alloc_calls = 0;
	switch (E.kind) {
	case K_RBT: { rbtree_t *o = E.obj[0], *c = __real_malloc(sizeof(*c));
		memset(c, 0x55, sizeof(*c));
		char pf[64] = "";
		alloc_failed_what = "-";
		alloc_fail_at = k; ret = rbtree_copy(o, c); alloc_fail_at = 0;
		if (ret) { out("copy %d zeroed=%d%s%s", ret, all_zero(c, sizeof(*c)), C19_POOL ? " failed=" : "", C19_POOL ? alloc_failed_what : ""); free(c); return; }
		E.obj[1] = c;
#if C19_POOL
		pool_facts(pf, sizeof(pf), o, c);
#endif
		if (c->key_size != o->key_size || c->key_size_padded != o->key_size_padded || c->value_size != o->value_size || c->key_compare != o->key_compare)
			out("copy 0 kp=%zu alias=fields-differ%s", c->key_size_padded, pf);
		else out("copy 0 kp=%zu alias=%d%s", c->key_size_padded, (o->root && c->root == o->root) || tree_shares(o->root, c->root), pf);
		return; }
	case K_ARR: { array_t *o = E.obj[0], *c = __real_malloc(sizeof(*c));
		memset(c, 0x55, sizeof(*c));
		alloc_fail_at = k; ret = array_init_copy(c, o); alloc_fail_at = 0;
		if (ret) { out("copy %d zeroed=%d", ret, all_zero(c, sizeof(*c))); free(c); return; }
		E.obj[1] = c;
		out("copy 0 size=%zu used=%zu count=%zu alias=%d", c->size, c->used, c->count, c->data != NULL && c->data == o->data);
		return; }
	case K_STRT: { str_table_t *o = E.obj[0], *c = __real_malloc(sizeof(*c)); size_t i; int alias;
		memset(c, 0, sizeof(*c));	/* (str_table_copy fills bucket_ptrs and ht; next_index comes with the owner's struct copy) */
		c->next_index = o->next_index;
		alloc_fail_at = k; ret = str_table_copy(c, o); alloc_fail_at = 0;
		if (ret) { out("copy %d", ret); free(c); return; }
		E.obj[1] = c;
		alias = c->ht == o->ht || c->ht->table == o->ht->table || (c->bucket_ptrs.data && c->bucket_ptrs.data == o->bucket_ptrs.data);
		for (i = 0; i < c->bucket_ptrs.used && i < o->bucket_ptrs.used; ++i)
			alias |= ((str_bucket_t **)c->bucket_ptrs.data)[i] == ((str_bucket_t **)o->bucket_ptrs.data)[i];
		out("copy 0 alias=%d", alias);
		return; }
	}
	out("bad-op");
}

static void op_unit(void *ob, int argc, char **argv)
{
	unsigned char *a = NULL, *b = NULL; long an, bn;
	if (E.kind == K_RBT) {
		rbtree_t *t = ob;
		if (argc >= 3 && !strcmp(argv[0], "ins")) {
			an = hex_decode_tok(argv[1], &a, 0); bn = hex_decode_tok(argv[2], &b, 0);
			if (an != (long)U_ks || bn != (long)U_vs) out("bad-op"); else out("ins %d", rbtree_insert(t, a, b));
			free(a); free(b);
		} else if (argc >= 2 && !strcmp(argv[0], "look")) {
			rbtree_node_t *n;
			an = hex_decode_tok(argv[1], &a, 0);
			if (an != (long)U_ks) { out("bad-op"); free(a); return; }
			n = rbtree_lookup(t, a);
			if (!n) out("look none");
			else { printf("look %u ", n->value_offset); put_hex(n->data, t->key_size_padded + t->value_size);
				printf(" key="); put_hex(rbtree_node_key(n), t->key_size); printf(" value="); put_hex(rbtree_node_value(n), t->value_size); putchar('\n'); fflush(stdout); }
			free(a);
		} else if (argc >= 3 && (!strcmp(argv[0], "bulk") || !strcmp(argv[0], "verify"))) {
			/* large trees (several blocks of the pool allocator): n keys / values derived from (seed, i); `bulk` inserts them,
			   `verify` looks every one of them up and compares the value bytes */
			unsigned long n = strtoul(argv[1], 0, 0), seed = strtoul(argv[2], 0, 0), i, j, good = 0; int r = 0, ins = !strcmp(argv[0], "bulk");
			unsigned char *k = __real_calloc(1, U_ks + 1), *v = __real_calloc(1, U_vs + 1);
			for (i = 0; i < n && !r; ++i) {
				unsigned long long x = (seed + 1) * 0x9E3779B97F4A7C15ULL + i * 0xD1B54A32D192ED03ULL;
				for (j = 0; j < U_ks; ++j) k[j] = (unsigned char)((j < 4 ? (i >> (8 * (3 - j))) : (x >> (8 * (j % 8)))) & 0xff);	/* distinct: i in the first bytes */
				for (j = 0; j < U_vs; ++j) v[j] = (unsigned char)(((x >> (8 * ((j + 3) % 8))) & 0xff) | 1);
				if (ins) r = rbtree_insert(t, k, v);
				else { rbtree_node_t *nd = rbtree_lookup(t, k); good += nd && nd->value_offset == t->key_size_padded && !memcmp(rbtree_node_key(nd), k, U_ks) && !memcmp(rbtree_node_value(nd), v, U_vs); }
			}
			if (ins) out("bulk %d %lu", r, i); else out("verify %lu", good);
			free(k); free(v);
		} else if (!strcmp(argv[0], "cmpcopy")) {
			/* copy and original node for node (colour, value_offset, every byte of data[], shape), no node shared; in the pool
			   configuration: every node of the copy in the copy's pool, and how many blocks that pool has */
			rbtree_t *o = E.obj[0], *c = E.obj[1]; const rbtree_node_t *sa[256], *sb[256]; int sp = 0, same = 1; size_t nn = 0, len;
			if (!o || !c) { out("no-object"); return; }
			len = o->key_size_padded + o->value_size;
			sa[sp] = o->root; sb[sp++] = c->root;
			while (sp > 0 && same) { const rbtree_node_t *x = sa[--sp], *y = sb[sp];
				if (!x || !y) { same = x == y; continue; }
				++nn;
				if (x == y || x->is_red != y->is_red || x->value_offset != y->value_offset || memcmp(x->data, y->data, len) || sp > 250) { same = 0; break; }
				sa[sp] = x->left; sb[sp++] = y->left; sa[sp] = x->right; sb[sp++] = y->right; }
#if C19_POOL
			out("cmpcopy same=%d n=%zu nodes=%s blocks=%s", same, nn, (c->pool != o->pool && nodes_in(c->pool, c->root) && !nodes_any_in(o->pool, c->root)) ? "in" : "out", pool_blocks(c->pool) >= 2 ? "many" : "one");
#else
			out("cmpcopy same=%d n=%zu", same, nn);
#endif
		} else if (!strcmp(argv[0], "dump")) {
			int first = 1, wf = 1; const rbtree_node_t *stack[128]; int sp = 0;
			if (t->root) stack[sp++] = t->root;
			while (sp > 0) { const rbtree_node_t *n = stack[--sp]; if (n->value_offset != t->key_size_padded) wf = 0;
				if (n->left && sp < 127) stack[sp++] = n->left; if (n->right && sp < 127) stack[sp++] = n->right; }
			printf("dump ks=%zu kp=%zu vs=%zu wf=%d tree=", t->key_size, t->key_size_padded, t->value_size, wf);
			tree_tokens(t, t->root, &first); putchar('\n'); fflush(stdout);
		} else out("bad-op");
	} else if (E.kind == K_ARR) {
		array_t *t = ob;
		if (argc >= 2 && !strcmp(argv[0], "app")) {
			an = hex_decode_tok(argv[1], &a, 0);
			if (an != (long)U_sz) out("bad-op"); else out("app %d", array_append(t, a));
			free(a);
		} else if (argc >= 2 && !strcmp(argv[0], "get")) {
			void *p = array_get(t, strtoul(argv[1], 0, 0));
			if (!p) out("get null"); else { printf("get "); put_hex(p, t->size); putchar('\n'); fflush(stdout); }
		} else if (argc >= 3 && !strcmp(argv[0], "set")) {
			an = hex_decode_tok(argv[2], &a, 0);
			if (an != (long)U_sz) out("bad-op"); else out("set %d", array_set(t, strtoul(argv[1], 0, 0), a));
			free(a);
		} else if (!strcmp(argv[0], "used")) out("used %zu", t->used);
		else if (!strcmp(argv[0], "dump")) { printf("dump size=%zu used=%zu count=%zu data=", t->size, t->used, t->count); put_hex(t->data ? t->data : (void *)"", t->used * t->size); putchar('\n'); fflush(stdout); }
		else out("bad-op");
	} else if (E.kind == K_STRT) {
		str_table_t *t = ob;
		if (argc >= 2 && !strcmp(argv[0], "index")) {
			size_t idx = 0; int r;
			an = hex_decode_tok(argv[1], &a, 1);
			if (an < 0 || memchr(a, 0, an)) { out("bad-op"); free(a); return; }
			r = str_table_get_index(t, (char *)a, &idx); out("index %d %zu", r, r ? (size_t)0 : idx); free(a);
		} else if (argc >= 2 && !strcmp(argv[0], "str")) {
			const char *p = str_table_get_string(t, strtoul(argv[1], 0, 0));
			if (!p) out("str null"); else { printf("str "); put_hex((const unsigned char *)p, strlen(p)); putchar('\n'); fflush(stdout); }
		} else if (argc >= 2 && !strcmp(argv[0], "ref")) { str_table_add_ref(t, strtoul(argv[1], 0, 0)); out("ref"); }
		else if (argc >= 2 && !strcmp(argv[0], "unref")) { str_table_del_ref(t, strtoul(argv[1], 0, 0)); out("unref"); }
		else if (argc >= 2 && !strcmp(argv[0], "count")) out("count %zu", str_table_get_ref_count(t, strtoul(argv[1], 0, 0)));
		else if (!strcmp(argv[0], "dump")) {
			size_t i;
			printf("dump next=%zu b=", t->next_index);
			if (t->bucket_ptrs.used == 0) putchar('-');
			for (i = 0; i < t->bucket_ptrs.used; ++i) { const str_bucket_t *bk = ((str_bucket_t **)t->bucket_ptrs.data)[i];
				if (!bk) { printf("%s%zu:NULL", i ? "," : "", i); continue; }
				printf("%s%zu:%zu:", i ? "," : "", bk->index, bk->refcount); put_hex((const unsigned char *)bk->string, strlen(bk->string)); }
			if (!strt_consistent(t)) printf(" ht=INCONSISTENT");
			putchar('\n'); fflush(stdout);
		} else out("bad-op");
	} else out("bad-op");
}

static int flush_seq, fd_base;
static void op_xwr(sqfs_xattr_writer_t *w, int argc, char **argv)
{
	if (!strcmp(argv[0], "begin")) out("begin %d", sqfs_xattr_writer_begin(w, 0));
	else if (argc >= 3 && !strcmp(argv[0], "add")) {
		unsigned char *k = NULL, *v = NULL; long kn = hex_decode_tok(argv[1], &k, 1), vn = hex_decode_tok(argv[2], &v, 1);
		if (kn < 0 || vn < 0) { out("bad-op"); return; }
		out("add %d", sqfs_xattr_writer_add_kv(w, (char *)k, v, vn)); free(k); free(v);
	} else if (!strcmp(argv[0], "end")) { sqfs_u32 idx = 0; int r = sqfs_xattr_writer_end(w, &idx); out("end %d %u", r, r ? 0 : idx); }
	else if (!strcmp(argv[0], "flush")) {
		char p[4200]; sqfs_file_t *f = NULL; sqfs_super_t s; sqfs_compressor_t *c = NULL; sqfs_compressor_config_t cfg; int r;
		snprintf(p, sizeof(p), "%s/xwr_%d_%d.bin", E.tmpdir, (int)getpid(), flush_seq++);
		sqfs_compressor_config_init(&cfg, SQFS_COMP_GZIP, 131072, 0);
		if (sqfs_file_open(&f, p, SQFS_FILE_OPEN_OVERWRITE) || sqfs_compressor_create(&cfg, &c)) { out("flush env-error"); return; }
		sqfs_super_init(&s, 131072, 0, SQFS_COMP_GZIP);
		s.bytes_used = 96;
		{ char z[96] = {0}; f->write_at(f, 0, z, 96); }
		r = sqfs_xattr_writer_flush(w, f, &s, c);
		{
			size_t n = f->get_size(f); unsigned char *b = __real_malloc(n + 1); char hb[128];
			f->read_at(f, 0, b, n); put_bytes(hb, sizeof(hb), b, n);
			out("flush %d %s %llu %x", r, hb, (unsigned long long)(s.xattr_id_table_start == 0xFFFFFFFFFFFFFFFFULL ? 0 : s.xattr_id_table_start), s.flags & SQFS_FLAG_NO_XATTRS);
			free(b);
		}
		sqfs_drop(f); sqfs_drop(c); unlink(p);
	} else out("bad-op");
}

static void do_op(int t, int argc, char **argv)
{
	void *ob = E.obj[t];
	if (!ob) { out("no-object"); return; }
	switch (E.kind) {
	case K_COMP: op_comp(ob, argc, argv); break;
	case K_IDT: op_idt(ob, argc, argv); break;
	case K_FRAGT: op_fragt(ob, argc, argv); break;
	case K_FILE: case K_WFILE: op_file(ob, argc, argv); break;
	case K_NOCOPY: {	/* `peek n`: the first bytes of the stream's buffer, nothing consumed */
		sqfs_istream_t *st = ob; const sqfs_u8 *p = NULL; size_t sz = 0; char hb[128]; int r;
		if (argc < 2 || strcmp(argv[0], "peek")) { out("bad-op"); break; }
		r = st->get_buffered_data(st, &p, &sz, strtoul(argv[1], 0, 0));
		if (r) { out("peek %d", r); break; }
		if (sz > strtoul(argv[1], 0, 0)) sz = strtoul(argv[1], 0, 0);
		put_bytes(hb, sizeof(hb), p, sz); out("peek 0 %s", hb); break; }
	case K_META: op_meta(ob, argc, argv); break;
	case K_DIR: op_dir(ob, argc, argv); break;
	case K_DATA: op_data(ob, argc, argv); break;
	case K_XRD: op_xrd(ob, argc, argv); break;
	case K_XWR: op_xwr(ob, argc, argv); break;
	case K_RBT: case K_ARR: case K_STRT: op_unit(ob, argc, argv); break;
	}
}

/* one op line of a scenario */
static void run_line(char *line)
{
	char *argv[16];
	int argc = 0, t;
	char *tok = strtok(line, " \n");
	while (tok && argc < 16) { argv[argc++] = tok; tok = strtok(NULL, " \n"); }
	if (argc == 0) { out("bad-op"); return; }
	if (!strcmp(argv[0], "copy") || (!strcmp(argv[0], "failcopy") && argc >= 2)) {
		rcsnap_t s; char pb[512]; long k = argc >= 2 ? strtol(argv[1], 0, 0) : 0; long used;
		int fds = count_fds();
		if (E.obj[1] || !E.obj[0]) { out("bad-op"); return; }
		if (IS_UNIT(E.kind)) { unit_copy(k); return; }
		snap_refs(E.obj[0], &s);
		E.file_rc_before = rc_of(E.file); E.cmp_rc_before = rc_of(E.cmp);
		alloc_calls = 0; alloc_fail_at = k; alloc_failed_what = "-";
		E.obj[1] = sqfs_copy(E.obj[0]);
		used = alloc_calls; alloc_fail_at = 0;
		if (!E.obj[1]) { out("copy NULL allocs=%ld fds=%+d failed=%s", used, count_fds() - fds, alloc_failed_what); return; }
		probe(E.obj[0], E.obj[1], &s, pb, sizeof(pb));
#if C19_POOL
		if (E.kind == K_DIR && (((sqfs_dir_reader_t *)E.obj[0])->flags & SQFS_DIR_READER_DOT_ENTRIES))
			pool_facts(pb + strlen(pb), sizeof(pb) - strlen(pb), &((sqfs_dir_reader_t *)E.obj[0])->dcache, &((sqfs_dir_reader_t *)E.obj[1])->dcache);
		if (E.kind == K_XWR)
			pool_facts(pb + strlen(pb), sizeof(pb) - strlen(pb), &((sqfs_xattr_writer_t *)E.obj[0])->kv_block_tree, &((sqfs_xattr_writer_t *)E.obj[1])->kv_block_tree);
#endif
		out("copy ok allocs=%ld fds=%+d %s", used, count_fds() - fds, pb);
		return;
	}
	if (!IS_UNIT(E.kind) && (!strcmp(argv[0], "recopy") || (!strcmp(argv[0], "copydrop") && argc >= 2 && target(argv[1]) >= 0))) {
		/* `recopy`: the copy is replaced by a copy of itself (copy of a copy; the first copy is released);
		   `copydrop x`: one more copy of x is made while the others are alive, and released at once (two live copies) */
		int re = !strcmp(argv[0], "recopy"), src = re ? 1 : target(argv[1]); void *tmp;
		if (!E.obj[src]) { out("no-object"); return; }
		tmp = sqfs_copy(E.obj[src]);
		if (!tmp) { out("%s NULL", argv[0]); return; }
		if (re) { sqfs_drop(E.obj[1]); E.obj[1] = tmp; } else sqfs_drop(tmp);
		canary_stamp();
		out("%s ok file=%zu cmp=%zu", argv[0], rc_of(E.file), rc_of(E.cmp));
		return;
	}
	if (!strcmp(argv[0], "drop") && argc >= 2 && (t = target(argv[1])) >= 0) {
		if (!E.obj[t]) { out("no-object"); return; }
		if (IS_UNIT(E.kind)) { unit_release(t); canary_stamp(); out("drop"); return; }
		sqfs_drop(E.obj[t]); E.obj[t] = NULL;
		canary_stamp();
		out("drop %s file=%zu cmp=%zu", argv[1], rc_of(E.file), rc_of(E.cmp));
		return;
	}
	if (IS_UNIT(E.kind) && (!strcmp(argv[0], "grab") || !strcmp(argv[0], "ungrab") || !strcmp(argv[0], "views") || !strcmp(argv[0], "rcs") ||
				 !strcmp(argv[0], "dropenv") || (!strcmp(argv[0], "dump") && argc >= 2 && target(argv[1]) >= 0))) { out("bad-op"); return; }
	if (!strcmp(argv[0], "grab") && argc >= 2 && (t = target(argv[1])) >= 0 && E.obj[t]) {
		sqfs_grab(E.obj[t]); out("grab %s %zu", argv[1], rc_of(E.obj[t])); return;
	}
	if (!strcmp(argv[0], "ungrab") && argc >= 2 && (t = target(argv[1])) >= 0 && E.obj[t]) {	/* drop that is not the last one */
		sqfs_drop(E.obj[t]); out("ungrab %s %zu", argv[1], rc_of(E.obj[t])); return;
	}
	if (!strcmp(argv[0], "views")) {	/* what each live object observes of itself (fields, own buffers, owned sub-objects) */
		char b[256]; int k = snprintf(b, sizeof(b), "views"), i;
		for (i = 0; i < NOBJ; ++i) {
			if (E.obj[i]) k += snprintf(b + k, sizeof(b) - k, " %s=%016llx", objname[i], view_hash(E.kind, E.obj[i]));
			else k += snprintf(b + k, sizeof(b) - k, " %s=-", objname[i]);
		}
		out("%s", b); return;
	}
	if (!strcmp(argv[0], "dump") && argc >= 2 && (t = target(argv[1])) >= 0) { dump_state(argv[1], E.obj[t]); return; }
	if (!strcmp(argv[0], "rcs")) { out("rcs file=%zu cmp=%zu fds=%d", rc_of(E.file), rc_of(E.cmp), count_fds()); return; }
	if (!strcmp(argv[0], "dropenv")) {	/* the user's own references to file/compressor go away: readers hold the last ones */
		E.file = sqfs_drop(E.file); E.cmp = sqfs_drop(E.cmp);
		out("dropenv"); return;
	}
	if (!strcmp(argv[0], "f") && argc >= 2 && E.kind == K_DIR) {
		/* the same question put to a reader created for it (same flags, no history) and released straight afterwards:
		   what listing, path resolution from the root and the "." / ".." entries answer does not depend on the history */
		sqfs_dir_reader_t *f;
		if (!E.file || !E.cmp) { out("no-object"); return; }
		f = sqfs_dir_reader_create(&E.super, E.cmp, E.file, E.dirflags);
		if (!f) { out("fresh-failed"); return; }
		op_dir(f, argc - 1, argv + 1);
		sqfs_drop(f);
		return;
	}
	t = target(argv[0]);
	if (t < 0 || argc < 2) { out("bad-op"); return; }
	do_op(t, argc - 1, argv + 1);
}

static void teardown(void)
{
	int i;
	if (IS_UNIT(E.kind)) { unit_release(0); unit_release(1); canary_release(); return; }
	for (i = 0; i < NOBJ; ++i)
		if (E.obj[i]) { sqfs_drop(E.obj[i]); E.obj[i] = NULL; }
	sqfs_drop(E.helper_dir); sqfs_drop(E.helper_cmp); sqfs_drop(E.helper_file); sqfs_drop(E.helper_unc);
	sqfs_drop(E.file); sqfs_drop(E.cmp);
	canary_release();
}

/* ------------------------------------------------------------------ scenario runner */
#define MAXLINES 4096
static char *lines[MAXLINES];

static void classify(const char *errfile, int status, char *buf, size_t n)
{
	FILE *f = fopen(errfile, "r");
	char l[1024], first[400] = "";
	const char *cls = "ok";
	if (f) {
		while (fgets(l, sizeof(l), f)) {
			if (!first[0] && (strstr(l, "ERROR: ") || strstr(l, "runtime error:"))) {
				char *p = strstr(l, "ERROR: ") ? strstr(l, "ERROR: ") + 7 : strstr(l, "runtime error:");
				size_t i;
				snprintf(first, sizeof(first), "%s", p);
				for (i = 0; first[i]; ++i) if (first[i] == ' ' || first[i] == '\n') first[i] = '_';
			}
		}
		fclose(f);
	}
	if (WIFSIGNALED(status)) cls = "signal";
	else if (WEXITSTATUS(status) != 0) cls = "abort";
	if (strstr(first, "LeakSanitizer")) cls = "leak";
	else if (strstr(first, "heap-use-after-free")) cls = "use-after-free";
	else if (strstr(first, "heap-buffer-overflow")) cls = "heap-overflow";
	else if (strstr(first, "double-free")) cls = "double-free";
	else if (strstr(first, "SEGV")) {
		cls = "segv";
		if ((f = fopen(errfile, "r"))) { while (fgets(l, sizeof(l), f)) if (strstr(l, "pc points to the zero page")) cls = "null-call"; fclose(f); }
	} else if (strstr(first, "runtime_error")) cls = "ubsan";
	snprintf(buf, n, "%s %d %s", cls, WIFSIGNALED(status) ? 128 + WTERMSIG(status) : WEXITSTATUS(status), first[0] ? first : "-");
}

int main(int argc, char **argv)
{
	static char line[1 << 20];
	const char *errdir = argc > 1 ? argv[1] : "/tmp";
	char errfile[4200];
	snprintf(errfile, sizeof(errfile), "%s/c19_stderr_%d.txt", errdir, (int)getpid());
	while (fgets(line, sizeof(line), stdin)) {
		char *hdr;
		int n = 0, i, status;
		pid_t pid;
		if (strncmp(line, "scenario ", 9)) { out("bad-op"); continue; }
		hdr = strdup(line);
		while (fgets(line, sizeof(line), stdin) && strcmp(line, "end\n") && n < MAXLINES)
			lines[n++] = strdup(line);
		fflush(stdout);
		pid = fork();
		if (pid == 0) {
			char *av[16]; int ac = 0; char *tok;
			int fd;
			close(0);	/* exit() would otherwise seek a shared seekable stdin back and make the parent loop */
			fd = open("/dev/null", O_RDONLY);
			fd = open(errfile, O_WRONLY | O_CREAT | O_TRUNC, 0600);
			dup2(fd, 2); close(fd);
			fd_base = count_fds();
			tok = strtok(hdr, " \n");		/* "scenario" */
			tok = strtok(NULL, " \n");		/* tag */
			while ((tok = strtok(NULL, " \n")) && ac < 16) av[ac++] = tok;
			if (ac >= 2 && !strcmp(av[0], "selftest")) {
				/* positive controls of the instrumentation: the run must be classified as what is provoked here */
				char *volatile p = malloc(23);
				out("selftest %s", av[1]);
				if (!strcmp(av[1], "leak")) p = NULL;			/* the only pointer to the block is lost */
				else if (!strcmp(av[1], "uaf")) { free(p); out("%d", p[3]); }
				else if (!strcmp(av[1], "overflow")) { out("%d", p[23]); free(p); }
				else if (!strcmp(av[1], "unmapped")) {	/* what a node of a destroyed pool is: memory given back with munmap */
					char *volatile q = __real_mmap(NULL, 65536, PROT_READ | PROT_WRITE, MAP_PRIVATE | MAP_ANONYMOUS, -1, 0);
					free(p); q[5] = 1; munmap(q, 65536); out("%d", q[5]);
				} else free(p);
				out("fds-at-end %+d", count_fds() - fd_base);
				exit(0);
			}
			if (ac == 0 || setup(ac, av)) { out("setup-failed"); _exit(3); }
			for (i = 0; i < n; ++i)
				run_line(lines[i]);
			teardown();
			out("fds-at-end %+d", count_fds() - fd_base);
			exit(0);	/* runs LeakSanitizer */
		}
		waitpid(pid, &status, 0);
		{
			char cb[600];
			classify(errfile, status, cb, sizeof(cb));
			out("exit %s", cb);
		}
		unlink(errfile);
		for (i = 0; i < n; ++i) free(lines[i]);
		free(hdr);
	}
	return 0;
}
