/* C12: the real lib/xfrm/src/ostream.c (or a copy with only the BUFSZ constant changed) plus read access to its private state. */
#ifndef C12_XOSTREAM_SRC
#define C12_XOSTREAM_SRC "lib/xfrm/src/ostream.c"
#endif
#include C12_XOSTREAM_SRC

void c12_peek_xostream(sqfs_ostream_t *s, size_t *inbuf_used)
{
	ostream_xfrm_t *x = (ostream_xfrm_t *)s;
	*inbuf_used = x->inbuf_used;
}

size_t c12_xostream_bufsz(void) { return BUFSZ; }
