/* C04 harness: the real lib/tar codec functions on the same lines as `sqfsmodel c04`.
 *
 * The two translation units with file-local helpers are #included so that the static functions
 * (write_number, write_number_signed, write_binary, update_checksum, prefix_digit_len,
 *  is_checksum_valid, check_version, decode_header) are the real ones.
 * The rest of lib/tar, lib/util, lib/common, libsquashfs comes from the working tree's lib.a.
 */
#include "config.h"
#include "lib/tar/src/write_header.c"
#include "lib/tar/src/read_header.c"
#include "sqfs/xattr.h"
#include "sqfs/dir_entry.h"
#include "sqfs/io.h"
#include "common.h"
#include "hexio.h"
#include <inttypes.h>

/* ------------------------------------------------------------------ memory ostream */
static unsigned char *wr_buf;
static size_t wr_len, wr_cap;

static int mem_append(sqfs_ostream_t *strm, const void *data, size_t size)
{
	(void)strm;
	if (wr_len + size > wr_cap) {
		wr_cap = (wr_len + size) * 2 + 1024;
		wr_buf = realloc(wr_buf, wr_cap);
		if (!wr_buf) abort();
	}
	if (data == NULL) memset(wr_buf + wr_len, 0, size);
	else memcpy(wr_buf + wr_len, data, size);
	wr_len += size;
	return 0;
}
static int mem_flush(sqfs_ostream_t *strm) { (void)strm; return 0; }
static const char *mem_name(sqfs_ostream_t *strm) { (void)strm; return "mem"; }
static sqfs_ostream_t mem_stream = { { 1, NULL, NULL }, mem_append, mem_flush, mem_name };

/* ------------------------------------------------------------------ helpers */
static char *next_tok(void) { return strtok(NULL, " \n"); }

static void print_decoded(const tar_header_decoded_t *h)
{
	const sparse_map_t *s;
	const sqfs_xattr_t *x;
	int first;
	fputs("name=", stdout);
	if (h->name) hex_print(stdout, (const unsigned char *)h->name, strlen(h->name)); else fputs("null", stdout);
	fputs(" link=", stdout);
	if (h->link_target) hex_print(stdout, (const unsigned char *)h->link_target, strlen(h->link_target)); else fputs("null", stdout);
	printf(" mode=%o uid=%" PRIu64 " gid=%" PRIu64 " maj=%u min=%u mtime=%" PRId64 " rsize=%" PRIu64 " asize=%" PRIu64 " unk=%d hl=%d sparse=",
	       (unsigned)h->mode, (uint64_t)h->uid, (uint64_t)h->gid, (unsigned)major(h->devno), (unsigned)minor(h->devno),
	       (int64_t)h->mtime, (uint64_t)h->record_size, (uint64_t)h->actual_size, (int)h->unknown_record, (int)h->is_hard_link);
	first = 1;
	if (!h->sparse) fputs("-", stdout);
	for (s = h->sparse; s; s = s->next) { printf("%s%" PRIu64 ":%" PRIu64, first ? "" : ",", (uint64_t)s->offset, (uint64_t)s->count); first = 0; }
	fputs(" xattr=", stdout);
	first = 1;
	if (!h->xattr) fputs("-", stdout);
	for (x = h->xattr; x; x = x->next) {
		if (!first) putchar(',');
		hex_print(stdout, (const unsigned char *)x->key, strlen(x->key));
		putchar(':');
		hex_print(stdout, x->value, x->value_len);
		first = 0;
	}
}

static size_t drain(sqfs_istream_t *fp)
{
	unsigned char tmp[4096];
	size_t n = 0;
	for (;;) {
		sqfs_s32 r = sqfs_istream_read(fp, tmp, sizeof(tmp));
		if (r <= 0) break;
		n += (size_t)r;
	}
	return n;
}

int main(void)
{
	static char line[1 << 22];
	while (fgets(line, sizeof(line), stdin)) {
		char *op = strtok(line, " \n");
		if (!op) { puts("bad-op"); continue; }
		if (strcmp(op, "rn") == 0) {
			char *a = next_tok(); unsigned char *buf; long n; sqfs_u64 v = 0;
			if (!a || (n = hex_decode_tok(a, &buf, 0)) < 1) { puts("bad-op"); continue; }
			if (read_number((const char *)buf, (int)n, &v)) puts("err"); else printf("ok %" PRIu64 "\n", (uint64_t)v);
			free(buf);
		} else if (strcmp(op, "wn") == 0 || strcmp(op, "wns") == 0) {
			char *a = next_tok(), *b = next_tok(); unsigned char *buf; int w;
			if (!a || !b) { puts("bad-op"); continue; }
			w = atoi(b);
			if (w < 2 || w > 21) { puts("bad-op"); continue; }
			buf = malloc((size_t)w);                 /* exact size: ASan sees any overrun */
			memset(buf, 0xAA, (size_t)w);
			if (op[2] == 's') write_number_signed((char *)buf, (sqfs_s64)strtoll(a, NULL, 10), w);
			else write_number((char *)buf, (sqfs_u64)strtoull(a, NULL, 10), w);
			hex_print(stdout, buf, (size_t)w); putchar('\n');
			free(buf);
		} else if (strcmp(op, "ck") == 0 || strcmp(op, "ckv") == 0 || strcmp(op, "upd") == 0) {
			char *a = next_tok(); unsigned char *buf; long n;
			if (!a || (n = hex_decode_tok(a, &buf, 0)) != 512) { puts("bad-op"); continue; }
			if (strcmp(op, "ck") == 0) printf("%u\n", tar_compute_checksum((const tar_header_t *)buf));
			else if (strcmp(op, "ckv") == 0) puts(is_checksum_valid((const tar_header_t *)buf) ? "1" : "0");
			else { update_checksum((tar_header_t *)buf); hex_print(stdout, buf, 512); putchar('\n'); }
			free(buf);
		} else if (strcmp(op, "canonip") == 0) {
			/* canonicalize_name() as a buffer transformer: return value and the C string left in the buffer */
			char *a = next_tok(); unsigned char *buf; long n; int rc;
			if (!a || (n = hex_decode_tok(a, &buf, 1)) < 0 || memchr(buf, 0, (size_t)n)) { puts("bad-op"); continue; }
			rc = canonicalize_name((char *)buf);
			printf("%d ", rc);
			hex_print(stdout, buf, strlen((char *)buf)); putchar('\n');
			free(buf);
		} else if (strcmp(op, "pdl") == 0) {
			char *a = next_tok();
			if (!a) { puts("bad-op"); continue; }
			printf("%zu\n", prefix_digit_len((size_t)strtoull(a, NULL, 10)));
		} else if (strcmp(op, "enc") == 0 || strcmp(op, "rt") == 0) {
			/* rt: the same arguments; write_tar_header, then read_header on what was written + 1024 zero bytes (full round trip) */
			/* enc <flags> <mode-octal> <uid> <gid> <size> <mtime> <maj> <min> <counter> <name> <target|null> {<key> <value>} */
			char *t[10]; int i, ok = 1, ret; char *nm, *tg; unsigned char *nb, *tb = NULL; long nl, tl = 0;
			sqfs_dir_entry_t *ent; sqfs_xattr_t *xl = NULL, *xlast = NULL;
			for (i = 0; i < 9; ++i) if (!(t[i] = next_tok())) ok = 0;
			nm = next_tok(); tg = next_tok();
			if (!ok || !nm || !tg || (nl = hex_decode_tok(nm, &nb, 1)) < 0) { puts("bad-op"); continue; }
			if (strcmp(tg, "null") != 0 && (tl = hex_decode_tok(tg, &tb, 1)) < 0) { puts("bad-op"); free(nb); continue; }
			ent = calloc(1, sizeof(*ent) + (size_t)nl + 1);
			memcpy(ent->name, nb, (size_t)nl);
			ent->flags = (sqfs_u16)strtoul(t[0], NULL, 10);
			ent->mode = (sqfs_u16)strtoul(t[1], NULL, 8);
			ent->uid = strtoull(t[2], NULL, 10);
			ent->gid = strtoull(t[3], NULL, 10);
			ent->size = strtoull(t[4], NULL, 10);
			ent->mtime = strtoll(t[5], NULL, 10);
			ent->rdev = makedev(strtoul(t[6], NULL, 10), strtoul(t[7], NULL, 10));
			for (;;) {
				char *k = next_tok(), *v; unsigned char *kb, *vb; long kl, vl; sqfs_xattr_t *x;
				if (!k) break;
				v = next_tok();
				if (!v || (kl = hex_decode_tok(k, &kb, 1)) < 0 || (vl = hex_decode_tok(v, &vb, 1)) < 0) { ok = 0; break; }
				x = sqfs_xattr_create((const char *)kb, vb, (size_t)vl);
				if (!x) abort();
				if (xlast) xlast->next = x; else xl = x;
				xlast = x;
				free(kb); free(vb);
			}
			if (!ok) { puts("bad-op"); }
			else {
				wr_len = 0;
				ret = write_tar_header(&mem_stream, ent, tb ? (const char *)tb : NULL, xl, (unsigned)strtoul(t[8], NULL, 10));
				if (ret || op[0] == 'e') {
					fputs(ret ? "err " : "ok ", stdout);          /* on failure: what was appended nevertheless */
					hex_print(stdout, wr_buf, wr_len); putchar('\n');
				} else {
					sqfs_istream_t *fp; tar_header_decoded_t h; size_t total = wr_len + 1024, rest;
					mem_append(&mem_stream, NULL, 1024);
					fp = istream_memory_create("mem", 1024, wr_buf, total);
					if (!fp) abort();
					ret = read_header(fp, &h);
					if (ret < 0) puts("err");
					else if (ret > 0) puts("eof");
					else {
						fputs("ok ", stdout);
						print_decoded(&h);
						rest = drain(fp);
						printf(" consumed=%zu\n", total - rest);
						clear_header(&h);
					}
					sqfs_drop(fp);
				}
			}
			sqfs_xattr_list_free(xl);
			free(ent); free(nb); free(tb);
		} else if (strcmp(op, "dec") == 0) {
			/* dec <stream>: one read_header() call; prints the decoded header and how many bytes it consumed */
			char *a = next_tok(); unsigned char *buf; long n; sqfs_istream_t *fp; tar_header_decoded_t h; int ret; size_t rest;
			if (!a || (n = hex_decode_tok(a, &buf, 0)) < 0) { puts("bad-op"); continue; }
			fp = istream_memory_create("mem", 1024, buf, (size_t)n);
			if (!fp) abort();
			ret = read_header(fp, &h);
			if (ret < 0) puts("err");
			else if (ret > 0) puts("eof");
			else {
				fputs("ok ", stdout);
				print_decoded(&h);
				rest = drain(fp);
				printf(" consumed=%zu\n", (size_t)n - rest);
				clear_header(&h);
			}
			sqfs_drop(fp);
			free(buf);
		} else if (strcmp(op, "iter") == 0 || strcmp(op, "iterw") == 0) {
			/* iter <stream>: the tar directory iterator; every regular file is read through the sparse-expanding stream
			   in requests of 512 bytes; iterw <want> <stream>: the same with requests of <want> bytes (1..65536) */
			char *w = op[4] == 'w' ? next_tok() : "512";
			char *a = next_tok(); unsigned char *buf; long n; sqfs_istream_t *fp; sqfs_dir_iterator_t *it; int ret, cnt = 0;
			size_t want = w ? (size_t)strtoul(w, NULL, 10) : 0;
			if (!a || want < 1 || want > 65536 || (n = hex_decode_tok(a, &buf, 0)) < 0) { puts("bad-op"); continue; }
			fp = istream_memory_create("mem", 1024, buf, (size_t)n);
			it = tar_open_stream(fp, NULL);
			sqfs_drop(fp);
			if (!it) abort();
			for (;;) {
				sqfs_dir_entry_t *ent = NULL;
				ret = it->next(it, &ent);
				if (ret != 0) break;
				if (cnt++) fputs(" | ", stdout);
				fputs("name=", stdout); hex_print(stdout, (unsigned char *)ent->name, strlen(ent->name));
				printf(" mode=%o flags=%u uid=%" PRIu64 " gid=%" PRIu64 " mtime=%" PRId64 " size=%" PRIu64, (unsigned)ent->mode, (unsigned)ent->flags,
				       (uint64_t)ent->uid, (uint64_t)ent->gid, (int64_t)ent->mtime, (uint64_t)ent->size);
				if (S_ISLNK(ent->mode)) {
					char *l = NULL;
					if (it->read_link(it, &l) == 0 && l) { fputs(" link=", stdout); hex_print(stdout, (unsigned char *)l, strlen(l)); free(l); }
					else fputs(" link=null", stdout);
				}
				{	/* device number and xattrs as tar2sqfs gets them (it->read_xattr: a copy of the list of the current header) */
					sqfs_xattr_t *xl = NULL, *x; int first = 1;
					printf(" maj=%u min=%u xattr=", (unsigned)major(ent->rdev), (unsigned)minor(ent->rdev));
					if (it->read_xattr(it, &xl) != 0) fputs("read-failed", stdout);
					else if (!xl) fputs("-", stdout);
					for (x = xl; x; x = x->next) {
						if (!first) putchar(',');
						hex_print(stdout, (const unsigned char *)x->key, strlen(x->key)); putchar(':');
						hex_print(stdout, x->value, x->value_len); first = 0;
					}
					sqfs_xattr_list_free(xl);
				}
				if (S_ISREG(ent->mode)) {
					sqfs_istream_t *in = NULL;
					if (it->open_file_ro(it, &in) != 0) fputs(" data=open-failed", stdout);
					else {
						static unsigned char keep[8192]; static unsigned char tmp[65536]; size_t total = 0; int r2;
						for (;;) {
							r2 = sqfs_istream_read(in, tmp, want);
							if (r2 <= 0) break;
							if (total + (size_t)r2 <= sizeof(keep)) memcpy(keep + total, tmp, (size_t)r2);
							total += (size_t)r2;
						}
						if (r2 < 0) fputs(" data=corrupted", stdout);
						else {
							fputs(" data=", stdout);
							if (total > sizeof(keep)) fputs("big", stdout); else hex_print(stdout, keep, total);
							printf(" len=%zu", total);
						}
						sqfs_drop(in);
					}
				}
				free(ent);
			}
			if (cnt) fputs(" | ", stdout);
			printf("end=%d\n", ret > 0 ? 1 : -1);
			sqfs_drop(it);
			free(buf);
		} else puts("bad-op");
		fflush(stdout);
	}
	return 0;
}
