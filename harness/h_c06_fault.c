/*
 * h_c06_fault.c — system-call fault injection for the C06 check (unpack confinement).
 *
 * Linked into the ASan+UBSan `rdsquashfs` of the working tree with  -Wl,--wrap=X  for every X below, so that exactly the
 * calls made by the project's own objects (rdsquashfs.c, restore_fstree.c, fill_files.c, mkdir_p.c, lib/sqfs/src/io/unix.c)
 * go through here; libc's and the sanitizers' own calls do not.  Without C06_FAULT in the environment every wrapper
 * is the identity.
 *
 *   C06_FAULT = <class>:<k>:<errno>      the k-th (1-based) call of <class> fails with <errno>, without being made
 *       class  mkdir | symlink | mknod | open (only calls with O_CREAT: the unpacker's) | utimensat | fchownat |
 *              fchmodat | lsetxattr | chdir
 *              — and the calls on the descriptor of a file being filled (lib/sqfs/src/io/ostream.c, unix.c, file.c) —
 *              write | pwrite | ftruncate | fsync | close   (no path argument: logged as `-`)
 *       errno  a number
 *   C06_FAULT_LOG = path                 one line `fired <class> <k> <errno> <path argument in hex>` when the fault fires;
 *                                        at exit one line `count <class> <n>` per class
 *
 * The wrapped call that is made to fail is *not* seen by strace (it never reaches the kernel); the runner inserts it
 * into the observed sequence from the log line.
 */
#define _GNU_SOURCE
#include <errno.h>
#include <fcntl.h>
#include <stdarg.h>
#include <stdio.h>
#include <stdlib.h>
#include <string.h>
#include <sys/stat.h>
#include <sys/types.h>
#include <sys/xattr.h>
#include <time.h>
#include <unistd.h>

enum { K_MKDIR, K_SYMLINK, K_MKNOD, K_OPEN, K_UTIMENSAT, K_FCHOWNAT, K_FCHMODAT, K_LSETXATTR, K_CHDIR,
       K_WRITE, K_PWRITE, K_FTRUNCATE, K_FSYNC, K_CLOSE, K_N };
static const char *const kname[K_N] = { "mkdir", "symlink", "mknod", "open", "utimensat", "fchownat", "fchmodat",
					"lsetxattr", "chdir", "write", "pwrite", "ftruncate", "fsync", "close" };
static long cnt[K_N];
static int cfg_done, cfg_class = -1, cfg_errno;
static long cfg_k;
static const char *log_path;

static void at_exit_report(void)
{
	FILE *f;
	int i;

	if (log_path == NULL)
		return;
	f = fopen(log_path, "a");
	if (f == NULL)
		return;
	for (i = 0; i < K_N; ++i)
		fprintf(f, "count %s %ld\n", kname[i], cnt[i]);
	fclose(f);
}

static void cfg(void)
{
	const char *s, *p;
	char buf[32];
	size_t n;
	int i;

	if (cfg_done)
		return;
	cfg_done = 1;
	log_path = getenv("C06_FAULT_LOG");
	if (log_path != NULL)
		atexit(at_exit_report);
	s = getenv("C06_FAULT");
	if (s == NULL)
		return;
	p = strchr(s, ':');
	if (p == NULL)
		return;
	n = (size_t)(p - s);
	if (n >= sizeof(buf))
		return;
	memcpy(buf, s, n);
	buf[n] = '\0';
	for (i = 0; i < K_N; ++i) {
		if (strcmp(buf, kname[i]) == 0)
			cfg_class = i;
	}
	cfg_k = strtol(p + 1, (char **)&p, 10);
	if (*p == ':')
		cfg_errno = (int)strtol(p + 1, NULL, 10);
	if (cfg_errno <= 0)
		cfg_class = -1;
}

/* 1 = this call has to fail (errno is set) */
static int hit(int cls, const char *path)
{
	FILE *f;

	cfg();
	cnt[cls] += 1;
	if (cls != cfg_class || cnt[cls] != cfg_k)
		return 0;
	if (log_path != NULL && (f = fopen(log_path, "a")) != NULL) {
		fprintf(f, "fired %s %ld %d ", kname[cls], cfg_k, cfg_errno);
		if (path == NULL || *path == '\0')
			fputc('-', f);
		else
			for (; *path != '\0'; ++path)
				fprintf(f, "%02x", (unsigned char)*path);
		fputc('\n', f);
		fclose(f);
	}
	errno = cfg_errno;
	return 1;
}

int __real_mkdir(const char *path, mode_t mode);
int __wrap_mkdir(const char *path, mode_t mode)
{
	if (hit(K_MKDIR, path))
		return -1;
	return __real_mkdir(path, mode);
}

int __real_symlink(const char *target, const char *path);
int __wrap_symlink(const char *target, const char *path)
{
	if (hit(K_SYMLINK, path))
		return -1;
	return __real_symlink(target, path);
}

int __real_mknod(const char *path, mode_t mode, dev_t dev);
int __wrap_mknod(const char *path, mode_t mode, dev_t dev)
{
	if (hit(K_MKNOD, path))
		return -1;
	return __real_mknod(path, mode, dev);
}

int __real_open(const char *path, int flags, ...);
int __wrap_open(const char *path, int flags, ...)
{
	mode_t mode = 0;

	if (flags & O_CREAT) {
		va_list ap;

		va_start(ap, flags);
		mode = va_arg(ap, mode_t);
		va_end(ap);
		if (hit(K_OPEN, path))
			return -1;
	}
	return __real_open(path, flags, mode);
}

int __real_open64(const char *path, int flags, ...);
int __wrap_open64(const char *path, int flags, ...)
{
	mode_t mode = 0;

	if (flags & O_CREAT) {
		va_list ap;

		va_start(ap, flags);
		mode = va_arg(ap, mode_t);
		va_end(ap);
		if (hit(K_OPEN, path))
			return -1;
	}
	return __real_open64(path, flags, mode);
}

int __real_utimensat(int dirfd, const char *path, const struct timespec times[2], int flags);
int __wrap_utimensat(int dirfd, const char *path, const struct timespec times[2], int flags)
{
	if (hit(K_UTIMENSAT, path))
		return -1;
	return __real_utimensat(dirfd, path, times, flags);
}

int __real_fchownat(int dirfd, const char *path, uid_t uid, gid_t gid, int flags);
int __wrap_fchownat(int dirfd, const char *path, uid_t uid, gid_t gid, int flags)
{
	if (hit(K_FCHOWNAT, path))
		return -1;
	return __real_fchownat(dirfd, path, uid, gid, flags);
}

int __real_fchmodat(int dirfd, const char *path, mode_t mode, int flags);
int __wrap_fchmodat(int dirfd, const char *path, mode_t mode, int flags)
{
	if (hit(K_FCHMODAT, path))
		return -1;
	return __real_fchmodat(dirfd, path, mode, flags);
}

int __real_lsetxattr(const char *path, const char *name, const void *value, size_t size, int flags);
int __wrap_lsetxattr(const char *path, const char *name, const void *value, size_t size, int flags)
{
	if (hit(K_LSETXATTR, path))
		return -1;
	return __real_lsetxattr(path, name, value, size, flags);
}

int __real_chdir(const char *path);
int __wrap_chdir(const char *path)
{
	if (hit(K_CHDIR, path))
		return -1;
	return __real_chdir(path);
}

/* ---- calls on the descriptor of a file being filled ---- */

ssize_t __real_write(int fd, const void *buf, size_t n);
ssize_t __wrap_write(int fd, const void *buf, size_t n)
{
	if (hit(K_WRITE, NULL))
		return -1;
	return __real_write(fd, buf, n);
}

ssize_t __real_pwrite(int fd, const void *buf, size_t n, off_t off);
ssize_t __wrap_pwrite(int fd, const void *buf, size_t n, off_t off)
{
	if (hit(K_PWRITE, NULL))
		return -1;
	return __real_pwrite(fd, buf, n, off);
}

ssize_t __real_pwrite64(int fd, const void *buf, size_t n, off_t off);
ssize_t __wrap_pwrite64(int fd, const void *buf, size_t n, off_t off)
{
	if (hit(K_PWRITE, NULL))
		return -1;
	return __real_pwrite64(fd, buf, n, off);
}

int __real_ftruncate(int fd, off_t len);
int __wrap_ftruncate(int fd, off_t len)
{
	if (hit(K_FTRUNCATE, NULL))
		return -1;
	return __real_ftruncate(fd, len);
}

int __real_ftruncate64(int fd, off_t len);
int __wrap_ftruncate64(int fd, off_t len)
{
	if (hit(K_FTRUNCATE, NULL))
		return -1;
	return __real_ftruncate64(fd, len);
}

int __real_fsync(int fd);
int __wrap_fsync(int fd)
{
	if (hit(K_FSYNC, NULL))
		return -1;
	return __real_fsync(fd);
}

/* a failing close() still releases the descriptor (Linux semantics), except for EINTR which the caller retries */
int __real_close(int fd);
int __wrap_close(int fd)
{
	if (hit(K_CLOSE, NULL)) {
		int e = errno;

		if (e != EINTR)
			__real_close(fd);
		errno = e;
		return -1;
	}
	return __real_close(fd);
}
