/*
 * C15 harness (a'): the real process_data loops of lib/xfrm/src/{gzip,xz,bzip2,zstd}.c (compiled from the working tree
 * with harness/c15_fakelib.h force-included, no real compression library linked) driven call by call.
 * Line protocol as `sqfsmodel c15`, op `wrap`:
 *   wrap <new|old|big> <gzip|xz|bzip2|zstd> <c|d> <absorb> <gran> <thresh> <mode>:<room>:<in hex> ...
 *   -> per call `ret,consumed,<out hex>` joined by blanks  (the first field is for the model only)
 */
#include "config.h"
#include "xfrm/stream.h"
#include "xfrm/compress.h"
#include "hexio.h"
#include "cpu_watchdog.h"

extern size_t c15_absorb, c15_gran, c15_thresh;
extern unsigned long long c15_total_bias;
#define MAXTOK 4096

int main(void)
{
	size_t cap = 1 << 24;
	char *line = malloc(cap);
	static char *tok[MAXTOK];
	while (fgets(line, (int)cap, stdin)) {
		int ntok = 0, i, id;
		char *save = NULL, *t;
		xfrm_stream_t *x;
		for (t = strtok_r(line, " \n", &save); t && ntok < MAXTOK; t = strtok_r(NULL, " \n", &save)) tok[ntok++] = t;
		if (ntok < 7 || strcmp(tok[0], "wrap") != 0) { puts("bad-op"); fflush(stdout); continue; }
		c15_total_bias = strcmp(tok[1], "big") == 0 ? 0xFFFFFFFFull : 0;
		id = xfrm_compressor_id_from_name(tok[2]);
		c15_absorb = strtoul(tok[4], NULL, 10); c15_gran = strtoul(tok[5], NULL, 10); c15_thresh = strtoul(tok[6], NULL, 10);
		if (id <= 0 || (tok[3][0] != 'c' && tok[3][0] != 'd')) { puts("bad-op"); fflush(stdout); continue; }
		x = tok[3][0] == 'c' ? compressor_stream_create(id, NULL) : decompressor_stream_create(id);
		if (!x) { puts("bad-op"); fflush(stdout); continue; }
		for (i = 7; i < ntok; ++i) {
			char *a = tok[i], *b = strchr(a, ':'), *c;
			unsigned char *in, *out;
			long n;
			long mode; unsigned long room;
			sqfs_u32 in_read = 0, out_written = 0;
			int ret;
			if (!b || !(c = strchr(b + 1, ':'))) { fputs("bad-op", stdout); break; }
			*b = 0; *c = 0;
			mode = strtol(a, NULL, 10); room = strtoul(b + 1, NULL, 10);
			n = hex_decode_tok(c + 1, &in, 0);
			if (n < 0) { fputs("bad-op", stdout); break; }
			out = malloc(room ? room : 1);
			verif_cpu_watchdog(2);	/* a call takes microseconds; 2 s of CPU time means it spins */
			ret = x->process_data(x, in, (sqfs_u32)n, out, (sqfs_u32)room, &in_read, &out_written, (int)mode);
			verif_cpu_watchdog(0);
			if (i > 7) putchar(' ');
			printf("%d,%u,", ret, in_read);
			hex_print(stdout, out, out_written);
			fflush(stdout);
			free(in); free(out);
		}
		putchar('\n');
		fflush(stdout);
		sqfs_drop(x);
	}
	free(line);
	return 0;
}
