/* C12: the real lib/xfrm/src/istream.c (or a copy with only the BUFSZ constant changed) plus read access to its private state. */
#ifndef C12_XISTREAM_SRC
#define C12_XISTREAM_SRC "lib/xfrm/src/istream.c"
#endif
#include C12_XISTREAM_SRC

void c12_peek_xistream(sqfs_istream_t *s, size_t *off, size_t *used)
{
	istream_xfrm_t *x = (istream_xfrm_t *)s;
	*off = x->buffer_offset; *used = x->buffer_used;
}

size_t c12_xistream_bufsz(void) { return BUFSZ; }
