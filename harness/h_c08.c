/*
 * C08 harness: drives the REAL block writer (lib/sqfs/src/block_writer.c + lib/util/src/file_cmp.c) and the
 * REAL block processor (frontend.c/backend.c/block_processor.c + hash_table.c + thread pool) from the working
 * tree, on an in-memory sqfs_file_t, with the checksum weakened by harness/weak_xxh.c.
 *
 * Line protocol (stdin → stdout).
 *
 * Block writer, one result line per op (same ops as `sqfsmodel c08`):
 *   bw-init <prehex> <wrflags-dec> [<base-dec>]  -> ok     (base: the file pretends to hold <base> zero bytes in front of
 *                                                           <pre>; they are not stored, reads below base give zeros — puts the
 *                                                           writer at offsets >= 4 GiB without 4 GiB of memory)
 *   bw-write <chk-hex> <flags-hex> <datahex>  -> ok <loc> <filesize> <nblocks> | err <code>
 *   bw-file                                   -> file <hex>
 *
 * Block processor:
 *   bp-init <blocksize> <toy|gzip|none> <workers> <backlog> <hashbits> <prehex> <nofile:0|1>   -> ok
 *   bp-file <flags-hex> <chunk-dec> <datahex>  (begin_file, append in chunks of <chunk> bytes, end_file) -> ok | err <code>
 *   bp-sync                                    (sqfs_block_processor_sync)                       -> ok | err <code>
 *   bp-finish                                  -> several lines, see dump_all(), terminated by `end <status>`
 *
 * The thread pool of the block processor is wrapped as well (same vtable, every call forwarded to the real pool):
 * `S <flags> <datahex>` = a block handed to pool->submit by the front end (before a worker touches it),
 * `SC <flags> <index> <datahex>` = the open fragment block handed over by process_completed_fragment (it no longer
 * fits), `SF <flags> <index> <datahex>` = the open fragment block handed over by sqfs_block_processor_finish,
 * `D <flags> <chk> <datahex>` = a block returned by pool->dequeue (after the worker ran).  Together with the W lines
 * this is the exact event order of the main thread; the check replays it into `Sqfs.C08Stream` (`st-*` ops).
 *
 * Every write_data_block call the block processor makes goes through a logging wrapper around the real
 * block writer (W lines); truncate calls of the file are logged in sequence with them (T lines, before the W
 * line of the call that issued them).  Fragment processing is visible through link-time wrappers
 * (-Wl,--wrap) of hash_table_search_pre_hashed / hash_table_insert_pre_hashed (FR lines: one per non-sparse
 * fragment, in processing order, with the checksum the worker computed) and through the equality callback
 * (E lines: one per byte comparison: chunk index/offset/size, place the bytes were read from, answer).
 */
#include "config.h"
#include "hexio.h"

#include "sqfs/block_processor.h"
#include "sqfs/block_writer.h"
#include "sqfs/data_reader.h"
#include "sqfs/frag_table.h"
#include "sqfs/compressor.h"
#include "sqfs/inode.h"
#include "sqfs/super.h"
#include "sqfs/error.h"
#include "sqfs/block.h"
#include "sqfs/io.h"

/* the real internal header: the harness reads (never writes) proc->fblk_in_flight / frag_block to classify
 * where a fragment comparison took its bytes from, and swaps the hash table's equality callback for a
 * logging wrapper around the real chunk_info_equals */
#include "lib/sqfs/src/block_processor/internal.h"

#include <stdio.h>
#include <stdlib.h>
#include <string.h>

extern int verif_xxh_bits;

/* ------------------------------------------------------------------ event log (bp mode) */
static char *evlog;
static size_t evlen, evcap;

static void ev_reserve(size_t n)
{
	if (evlen + n + 1 > evcap) {
		evcap = (evlen + n + 1) * 2;
		evlog = realloc(evlog, evcap);
		if (!evlog) abort();
	}
}

static void ev_puts(const char *s)
{
	size_t n = strlen(s);
	ev_reserve(n);
	memcpy(evlog + evlen, s, n + 1);
	evlen += n;
}

static void ev_hex(const unsigned char *p, size_t n)
{
	static const char d[] = "0123456789abcdef";
	size_t i;
	ev_reserve(2 * n + 1);
	if (n == 0) { ev_puts("-"); return; }
	for (i = 0; i < n; ++i) {
		evlog[evlen++] = d[p[i] >> 4];
		evlog[evlen++] = d[p[i] & 15];
	}
	evlog[evlen] = 0;
}

static int logging;

/* ------------------------------------------------------------------ in-memory sqfs_file_t
 * semantics of lib/sqfs/src/io/file.c (POSIX branch): zero-length reads succeed, a read that leaves the
 * file fails with SQFS_ERROR_OUT_OF_BOUNDS, writes extend (zero filled), truncate cuts or zero-extends. */
typedef struct {
	sqfs_file_t base;
	unsigned char *buf;
	size_t size, cap;
	sqfs_u64 vbase;      /* virtual zero bytes in front of buf (bw mode only) */
} memfile_t;

static void mf_reserve(memfile_t *f, size_t n)
{
	if (n > f->cap) {
		size_t nc = n * 2 + 64;
		f->buf = realloc(f->buf, nc);
		if (!f->buf) abort();
		f->cap = nc;
	}
}

static int mf_read_at(sqfs_file_t *b, sqfs_u64 off, void *buffer, size_t size)
{
	memfile_t *f = (memfile_t *)b;
	unsigned char *dst = buffer;
	if (size == 0) return 0;
	if (off < f->vbase) {
		sqfs_u64 z = f->vbase - off;
		if (z > size) z = size;
		memset(dst, 0, z);
		dst += z; size -= z; off += z;
		if (size == 0) return 0;
	}
	off -= f->vbase;
	if (off > f->size || size > f->size - off) return SQFS_ERROR_OUT_OF_BOUNDS;
	memcpy(dst, f->buf + off, size);
	return 0;
}

static int mf_write_at(sqfs_file_t *b, sqfs_u64 off, const void *buffer, size_t size)
{
	memfile_t *f = (memfile_t *)b;
	if (size == 0) return 0;
	if (off < f->vbase) { fprintf(stderr, "write below the virtual base: offset %llu\n", (unsigned long long)off); abort(); }
	off -= f->vbase;
	mf_reserve(f, off + size);
	if (off > f->size) memset(f->buf + f->size, 0, off - f->size);
	memcpy(f->buf + off, buffer, size);
	if (off + size > f->size) f->size = off + size;
	return 0;
}

static sqfs_u64 mf_get_size(const sqfs_file_t *b) { return ((const memfile_t *)b)->vbase + ((const memfile_t *)b)->size; }

static int mf_truncate(sqfs_file_t *b, sqfs_u64 size)
{
	memfile_t *f = (memfile_t *)b;
	char tmp[64];
	if (size < f->vbase) { fprintf(stderr, "truncate below the virtual base: %llu\n", (unsigned long long)size); abort(); }
	size -= f->vbase;
	mf_reserve(f, size);
	if (size > f->size) memset(f->buf + f->size, 0, size - f->size);
	f->size = size;
	if (logging) { snprintf(tmp, sizeof tmp, "T %llu\n", (unsigned long long)size); ev_puts(tmp); }
	return 0;
}

static const char *mf_get_filename(sqfs_file_t *b) { (void)b; return "mem"; }

static void mf_destroy(sqfs_object_t *o)
{
	memfile_t *f = (memfile_t *)o;
	free(f->buf);
	free(f);
}

static memfile_t *memfile_create(const unsigned char *pre, size_t n)
{
	memfile_t *f = calloc(1, sizeof(*f));
	if (!f) abort();
	sqfs_object_init(f, mf_destroy, NULL);
	f->base.read_at = mf_read_at;
	f->base.write_at = mf_write_at;
	f->base.get_size = mf_get_size;
	f->base.truncate = mf_truncate;
	f->base.get_filename = mf_get_filename;
	mf_reserve(f, n + 1);
	memcpy(f->buf, pre, n);
	f->size = n;
	return f;
}

/* ------------------------------------------------------------------ toy codec (mirrored in Python and Lean)
 * compress: run-length pairs (byte, count 1..255); declines (returns 0) unless strictly smaller.
 * uncompress: expands pairs; 0 when the output does not fit, SQFS_ERROR_CORRUPTED on odd length / zero count. */
typedef struct {
	sqfs_compressor_t base;
	int uncompress;
	int decline;        /* codec "none": the compressor never makes anything smaller */
	size_t block_size;
} toy_t;

static void toy_get_configuration(const sqfs_compressor_t *c, sqfs_compressor_config_t *cfg)
{
	const toy_t *t = (const toy_t *)c;
	memset(cfg, 0, sizeof(*cfg));
	cfg->id = SQFS_COMP_GZIP;
	cfg->block_size = t->block_size;
	if (t->uncompress) cfg->flags |= SQFS_COMP_FLAG_UNCOMPRESS;
}

static int toy_write_options(sqfs_compressor_t *c, sqfs_file_t *f) { (void)c; (void)f; return 0; }
static int toy_read_options(sqfs_compressor_t *c, sqfs_file_t *f) { (void)c; (void)f; return 0; }

static sqfs_s32 toy_do_block(sqfs_compressor_t *c, const sqfs_u8 *in, sqfs_u32 size, sqfs_u8 *out, sqfs_u32 outsize)
{
	toy_t *t = (toy_t *)c;
	sqfs_u32 i, o = 0;

	if (t->uncompress) {
		if (size % 2) return SQFS_ERROR_CORRUPTED;
		for (i = 0; i < size; i += 2) {
			sqfs_u32 n = in[i + 1];
			if (n == 0) return SQFS_ERROR_CORRUPTED;
			if (n > outsize - o) return 0;
			memset(out + o, in[i], n);
			o += n;
		}
		return (sqfs_s32)o;
	}
	if (t->decline) return 0;
	i = 0;
	while (i < size) {
		sqfs_u32 n = 1;
		while (i + n < size && n < 255 && in[i + n] == in[i]) ++n;
		if (o + 2 > outsize || o + 2 >= size) return 0;
		out[o++] = in[i];
		out[o++] = (sqfs_u8)n;
		i += n;
	}
	return (sqfs_s32)o;
}

static void toy_destroy(sqfs_object_t *o) { free(o); }

static sqfs_object_t *toy_copy(const sqfs_object_t *o)
{
	toy_t *t = malloc(sizeof(*t));
	if (!t) return NULL;
	memcpy(t, o, sizeof(*t));
	((sqfs_object_t *)t)->refcount = 1;
	return (sqfs_object_t *)t;
}

static sqfs_compressor_t *toy_create(size_t block_size, int uncompress, int decline)
{
	toy_t *t = calloc(1, sizeof(*t));
	if (!t) abort();
	sqfs_object_init(t, toy_destroy, toy_copy);
	t->base.get_configuration = toy_get_configuration;
	t->base.write_options = toy_write_options;
	t->base.read_options = toy_read_options;
	t->base.do_block = toy_do_block;
	t->uncompress = uncompress;
	t->decline = decline;
	t->block_size = block_size;
	return (sqfs_compressor_t *)t;
}

/* ------------------------------------------------------------------ logging wrapper around the real block writer */
typedef struct {
	sqfs_block_writer_t base;
	sqfs_block_writer_t *inner;
	memfile_t *file;
} logwr_t;

static int lw_write(sqfs_block_writer_t *b, void *user, sqfs_u32 size, sqfs_u32 checksum, sqfs_u32 flags,
		    const sqfs_u8 *data, sqfs_u64 *location)
{
	logwr_t *w = (logwr_t *)b;
	char tmp[128];
	int ret;

	ret = w->inner->write_data_block(w->inner, user, size, checksum, flags, data, location);
	snprintf(tmp, sizeof tmp, "W %08x %04x ", (unsigned)checksum, (unsigned)flags);
	ev_puts(tmp);
	ev_hex(data, size);
	if (ret == 0)
		snprintf(tmp, sizeof tmp, " ok %llu %llu %llu\n", (unsigned long long)*location,
			 (unsigned long long)w->file->size, (unsigned long long)w->inner->get_block_count(w->inner));
	else
		snprintf(tmp, sizeof tmp, " err %d\n", ret);
	ev_puts(tmp);
	return ret;
}

static sqfs_u64 lw_count(const sqfs_block_writer_t *b) { const logwr_t *w = (const logwr_t *)b; return w->inner->get_block_count(w->inner); }

static void lw_destroy(sqfs_object_t *o)
{
	logwr_t *w = (logwr_t *)o;
	sqfs_drop(w->inner);
	free(w);
}

/* ------------------------------------------------------------------ fragment path instrumentation */
static bool (*real_equals)(void *user, const void *a, const void *b);
static const sqfs_block_t *pending_frag;

static bool eq_wrapper(void *user, const void *k, const void *c)
{
	sqfs_block_processor_t *p = user;
	const chunk_info_t *key = k, *cmp = c;
	const char *place = "disk";
	const sqfs_block_t *it;
	char tmp[160];
	bool res;

	for (it = p->fblk_in_flight; it != NULL; it = it->next)
		if (it->index == cmp->index) { place = "flight"; break; }
	if (it == NULL && p->frag_block != NULL && p->frag_block->index == cmp->index)
		place = "open";
	if (it == NULL && !strcmp(place, "disk") && p->cached_frag_blk != NULL && p->cached_frag_blk->index == cmp->index)
		place = "cache";
	res = real_equals(user, k, c);
	if (logging && key->size == cmp->size && key->hash == cmp->hash) {
		snprintf(tmp, sizeof tmp, "E %u %u %u %s %d\n", cmp->index, cmp->offset, cmp->size, place, (int)res);
		ev_puts(tmp);
	}
	return res;
}

static void log_fr(const sqfs_block_processor_t *p)
{
	char tmp[64];
	if (!logging || p->current_frag == NULL) return;
	snprintf(tmp, sizeof tmp, "FR %08x %u\n", (unsigned)p->current_frag->checksum, (unsigned)p->current_frag->size);
	ev_puts(tmp);
}

struct hash_entry *__real_hash_table_search_pre_hashed(struct hash_table *ht, sqfs_u32 hash, const void *key);
struct hash_entry *__real_hash_table_insert_pre_hashed(struct hash_table *ht, sqfs_u32 hash, const void *key, void *data);

struct hash_entry *__wrap_hash_table_search_pre_hashed(struct hash_table *ht, sqfs_u32 hash, const void *key)
{
	sqfs_block_processor_t *p = ht->user;
	struct hash_entry *e;
	if (real_equals == NULL || ht->key_equals_function != eq_wrapper)
		return __real_hash_table_search_pre_hashed(ht, hash, key);
	log_fr(p);
	e = __real_hash_table_search_pre_hashed(ht, hash, key);
	pending_frag = (e == NULL && p->fblk_lookup_error == 0) ? p->current_frag : NULL;
	return e;
}

struct hash_entry *__wrap_hash_table_insert_pre_hashed(struct hash_table *ht, sqfs_u32 hash, const void *key, void *data)
{
	sqfs_block_processor_t *p = ht->user;
	if (real_equals == NULL || ht->key_equals_function != eq_wrapper)
		return __real_hash_table_insert_pre_hashed(ht, hash, key, data);
	if (pending_frag == NULL || pending_frag != p->current_frag)
		log_fr(p);           /* DONT_DEDUPLICATE: no search came first */
	pending_frag = NULL;
	return __real_hash_table_insert_pre_hashed(ht, hash, key, data);
}

/* ------------------------------------------------------------------ logging wrapper around the real thread pool */
typedef struct {
	thread_pool_t base;
	thread_pool_t *inner;
} logpool_t;

static sqfs_block_processor_t *proc;

static void lp_destroy(thread_pool_t *p) { logpool_t *l = (logpool_t *)p; l->inner->destroy(l->inner); free(l); }
static size_t lp_worker_count(thread_pool_t *p) { logpool_t *l = (logpool_t *)p; return l->inner->get_worker_count(l->inner); }
static void lp_set_worker_ptr(thread_pool_t *p, size_t i, void *ptr) { logpool_t *l = (logpool_t *)p; l->inner->set_worker_ptr(l->inner, i, ptr); }
static int lp_get_status(thread_pool_t *p) { logpool_t *l = (logpool_t *)p; return l->inner->get_status(l->inner); }

static int lp_submit(thread_pool_t *p, void *ptr)
{
	logpool_t *l = (logpool_t *)p;
	const sqfs_block_t *b = ptr;
	char tmp[96];

	if (logging) {
		/* before the real submit: afterwards a worker may be rewriting the block */
		if (b->flags & SQFS_BLK_FRAGMENT_BLOCK)
			snprintf(tmp, sizeof tmp, "%s %x %u ", (proc != NULL && proc->frag_block == b) ? "SC" : "SF",
				 (unsigned)b->flags, (unsigned)b->index);
		else
			snprintf(tmp, sizeof tmp, "S %x ", (unsigned)b->flags);
		ev_puts(tmp);
		ev_hex(b->data, b->size);
		ev_puts("\n");
	}
	return l->inner->submit(l->inner, ptr);
}

static void *lp_dequeue(thread_pool_t *p)
{
	logpool_t *l = (logpool_t *)p;
	const sqfs_block_t *b = l->inner->dequeue(l->inner);
	char tmp[96];

	if (logging && b != NULL) {
		snprintf(tmp, sizeof tmp, "D %x %08x ", (unsigned)b->flags, (unsigned)b->checksum);
		ev_puts(tmp);
		ev_hex(b->data, b->size);
		ev_puts("\n");
	}
	return (void *)b;
}

static thread_pool_t *logpool_create(thread_pool_t *inner)
{
	logpool_t *l = calloc(1, sizeof(*l));
	if (!l) abort();
	l->base.destroy = lp_destroy;
	l->base.get_worker_count = lp_worker_count;
	l->base.set_worker_ptr = lp_set_worker_ptr;
	l->base.submit = lp_submit;
	l->base.dequeue = lp_dequeue;
	l->base.get_status = lp_get_status;
	l->inner = inner;
	return (thread_pool_t *)l;
}

/* ------------------------------------------------------------------ state */
static memfile_t *file;
static sqfs_block_writer_t *bw;       /* direct (bw mode) */

typedef struct { sqfs_inode_generic_t *inode; unsigned char *data; size_t size; int status; } finfo_t;
static sqfs_frag_table_t *ftbl;
static sqfs_compressor_t *cmp, *uncmp;
static logwr_t *lw;
static finfo_t **files;
static size_t nfiles, capfiles;
static size_t blocksize;

static void bw_reset(void)
{
	size_t i;
	if (proc) { sqfs_drop(proc); proc = NULL; }
	if (lw) { sqfs_drop(lw); lw = NULL; }
	if (bw) { sqfs_drop(bw); bw = NULL; }
	if (ftbl) { sqfs_drop(ftbl); ftbl = NULL; }
	if (cmp) { sqfs_drop(cmp); cmp = NULL; }
	if (uncmp) { sqfs_drop(uncmp); uncmp = NULL; }
	if (file) { sqfs_drop(file); file = NULL; }
	for (i = 0; i < nfiles; ++i) { free(files[i]->inode); free(files[i]->data); free(files[i]); }
	nfiles = 0;
	evlen = 0;
	if (evlog) evlog[0] = 0;
	logging = 0;
}

static void dump_all(int status)
{
	size_t i, j;
	sqfs_super_t super;
	sqfs_data_reader_t *rd = NULL;
	sqfs_u64 before;
	int ret;

	logging = 0;
	if (evlog) fputs(evlog, stdout);
	/* inodes */
	for (i = 0; i < nfiles; ++i) {
		sqfs_inode_generic_t *in = files[i]->inode;
		sqfs_u64 fsz = 0, start = 0, sparse = 0;
		sqfs_u32 fi = 0, fo = 0;
		size_t bc;
		if (in == NULL) { printf("I %zu none\n", i); continue; }
		sqfs_inode_get_file_size(in, &fsz);
		sqfs_inode_get_file_block_start(in, &start);
		sqfs_inode_get_frag_location(in, &fi, &fo);
		bc = sqfs_inode_get_file_block_count(in);
		if (in->base.type == SQFS_INODE_EXT_FILE) sparse = in->data.file_ext.sparse;
		printf("I %zu size=%llu start=%llu sparse=%llu ext=%d frag=%08x:%08x blocks=", i, (unsigned long long)fsz,
		       (unsigned long long)start, (unsigned long long)sparse, in->base.type == SQFS_INODE_EXT_FILE, fi, fo);
		if (bc == 0) printf("-");
		for (j = 0; j < bc; ++j) printf("%s%x", j ? "," : "", in->extra[j]);
		printf("\n");
	}
	/* fragment table + content of every fragment block, re-read through the real uncompressor */
	if (ftbl) {
		size_t n = sqfs_frag_table_get_size(ftbl);
		unsigned char *raw = malloc(blocksize + 1), *out = malloc(blocksize + 1);
		for (i = 0; i < n; ++i) {
			sqfs_fragment_t fr;
			size_t sz;
			sqfs_frag_table_lookup(ftbl, i, &fr);
			printf("F %zu %llu %x\n", i, (unsigned long long)fr.start_offset, fr.size);
			sz = SQFS_ON_DISK_BLOCK_SIZE(fr.size);
			if (sz > blocksize || mf_read_at((sqfs_file_t *)file, fr.start_offset, raw, sz) != 0) {
				printf("FB %zu err\n", i);
				continue;
			}
			if (SQFS_IS_BLOCK_COMPRESSED(fr.size)) {
				sqfs_s32 r = sz ? uncmp->do_block(uncmp, raw, sz, out, blocksize) : 0;
				if (r <= 0) { printf("FB %zu err\n", i); continue; }
				printf("FB %zu ", i); hex_print(stdout, out, r); printf("\n");
			} else {
				printf("FB %zu ", i); hex_print(stdout, raw, sz); printf("\n");
			}
		}
		free(raw); free(out);
	}
	/* data area as the block processor left it */
	printf("file "); hex_print(stdout, file->buf, file->size); printf("\n");
	/* the property's own oracle, evaluated by the real reader: write the fragment table, load it into a
	 * real sqfs_data_reader_t and read every file back */
	if (status == 0 && ftbl) {
		memset(&super, 0, sizeof(super));
		super.block_size = blocksize;
		before = file->size;
		super.directory_table_start = before;
		ret = sqfs_frag_table_write(ftbl, (sqfs_file_t *)file, &super, cmp);
		super.bytes_used = file->size;
		super.id_table_start = file->size;
		super.export_table_start = file->size;
		if (ret == 0) rd = sqfs_data_reader_create((sqfs_file_t *)file, blocksize, uncmp, 0);
		if (rd != NULL) ret = sqfs_data_reader_load_fragment_table(rd, &super);
		if (ret != 0 || rd == NULL) {
			printf("RD err %d\n", ret);
		} else {
			for (i = 0; i < nfiles; ++i) {
				unsigned char *buf;
				sqfs_s32 r;
				if (files[i]->inode == NULL) continue;
				buf = malloc(files[i]->size + 1);
				r = sqfs_data_reader_read(rd, files[i]->inode, 0, buf, files[i]->size);
				if (r < 0) printf("R %zu err %d\n", i, r);
				else if ((size_t)r == files[i]->size && memcmp(buf, files[i]->data, r) == 0) printf("R %zu ok\n", i);
				else { printf("R %zu BAD ", i); hex_print(stdout, buf, r); printf("\n"); }
				free(buf);
			}
		}
		if (rd) sqfs_drop(rd);
	}
	printf("end %d\n", status);
}

int main(void)
{
	char *line = NULL;
	size_t cap = 0;
	ssize_t n;

	while ((n = getline(&line, &cap, stdin)) > 0) {
		char *tok[8];
		int nt = 0;
		char *p = strtok(line, " \r\n");
		while (p && nt < 8) { tok[nt++] = p; p = strtok(NULL, " \r\n"); }
		if (nt == 0) { puts("bad-op"); continue; }

		if (!strcmp(tok[0], "bw-init") && (nt == 3 || nt == 4)) {
			unsigned char *pre; long pl = hex_decode_tok(tok[1], &pre, 0);
			if (pl < 0) { puts("bad-op"); continue; }
			bw_reset();
			file = memfile_create(pre, pl);
			if (nt == 4) file->vbase = strtoull(tok[3], NULL, 10);
			free(pre);
			bw = sqfs_block_writer_create((sqfs_file_t *)file, (sqfs_u32)strtoul(tok[2], NULL, 10));
			puts(bw ? "ok" : "err create");
		} else if (!strcmp(tok[0], "bw-write") && nt == 4 && bw) {
			unsigned char *d; long dl = hex_decode_tok(tok[3], &d, 0);
			sqfs_u64 loc = 0; int ret;
			if (dl < 0) { puts("bad-op"); continue; }
			ret = bw->write_data_block(bw, NULL, (sqfs_u32)dl, (sqfs_u32)strtoul(tok[1], NULL, 16),
						   (sqfs_u32)strtoul(tok[2], NULL, 16), d, &loc);
			free(d);
			if (ret == SQFS_ERROR_OUT_OF_BOUNDS) puts("err oob");
			else if (ret) printf("err %d\n", ret);
			else printf("ok %llu %llu %llu\n", (unsigned long long)loc, (unsigned long long)(file->vbase + file->size),
				    (unsigned long long)bw->get_block_count(bw));
		} else if (!strcmp(tok[0], "bw-file") && nt == 1 && file) {
			printf("file "); hex_print(stdout, file->buf, file->size); printf("\n");
		} else if (!strcmp(tok[0], "bp-init") && nt == 8) {
			sqfs_block_processor_desc_t desc;
			unsigned char *pre; long pl = hex_decode_tok(tok[6], &pre, 0);
			int ret, nofile = atoi(tok[7]);
			if (pl < 0) { puts("bad-op"); continue; }
			bw_reset();
			blocksize = strtoul(tok[1], NULL, 10);
			verif_xxh_bits = atoi(tok[5]);
			file = memfile_create(pre, pl);
			free(pre);
			if (!strcmp(tok[2], "toy")) {
				cmp = toy_create(blocksize, 0, 0);
				uncmp = toy_create(blocksize, 1, 0);
			} else {
				sqfs_compressor_config_t cfg;
				sqfs_compressor_config_init(&cfg, SQFS_COMP_GZIP, blocksize, 0);
				if (!strcmp(tok[2], "none")) { cmp = toy_create(blocksize, 0, 1); }
				else if (sqfs_compressor_create(&cfg, &cmp)) { puts("err cmp"); continue; }
				cfg.flags |= SQFS_COMP_FLAG_UNCOMPRESS;
				if (!strcmp(tok[2], "none")) { uncmp = toy_create(blocksize, 1, 1); }
				else if (sqfs_compressor_create(&cfg, &uncmp)) { puts("err uncmp"); continue; }
			}
			lw = calloc(1, sizeof(*lw));
			sqfs_object_init(lw, lw_destroy, NULL);
			lw->base.write_data_block = lw_write;
			lw->base.get_block_count = lw_count;
			lw->inner = sqfs_block_writer_create((sqfs_file_t *)file, 0);
			lw->file = file;
			ftbl = sqfs_frag_table_create(0);
			memset(&desc, 0, sizeof(desc));
			desc.size = sizeof(desc);
			desc.max_block_size = blocksize;
			desc.num_workers = atoi(tok[3]);
			desc.max_backlog = strtoul(tok[4], NULL, 10);
			desc.cmp = cmp;
			desc.wr = (sqfs_block_writer_t *)lw;
			desc.tbl = ftbl;
			if (!nofile) {               /* what lib/common/src/writer/init.c does */
				desc.file = (sqfs_file_t *)file;
				desc.uncmp = uncmp;
			}
			ret = sqfs_block_processor_create_ex(&desc, &proc);
			if (ret == 0) {
				real_equals = proc->frag_ht->key_equals_function;
				proc->frag_ht->key_equals_function = eq_wrapper;
				pending_frag = NULL;
				proc->pool = logpool_create(proc->pool);
			}
			logging = 1;
			if (ret) printf("err %d\n", ret); else puts("ok");
		} else if (!strcmp(tok[0], "bp-file") && nt == 4 && proc) {
			unsigned char *d; long dl = hex_decode_tok(tok[3], &d, 0);
			size_t chunk = strtoul(tok[2], NULL, 10), off = 0;
			sqfs_u32 flags = strtoul(tok[1], NULL, 16);
			int ret;
			if (dl < 0) { puts("bad-op"); continue; }
			if (nfiles == capfiles) { capfiles = capfiles ? capfiles * 2 : 64; files = realloc(files, capfiles * sizeof(*files)); }
			files[nfiles] = calloc(1, sizeof(finfo_t));
			files[nfiles]->data = d; files[nfiles]->size = dl;
			ret = sqfs_block_processor_begin_file(proc, &files[nfiles]->inode, NULL, flags);
			if (chunk == 0) chunk = dl ? dl : 1;
			while (ret == 0 && off < (size_t)dl) {
				size_t c = (size_t)dl - off < chunk ? (size_t)dl - off : chunk;
				ret = sqfs_block_processor_append(proc, d + off, c);
				off += c;
			}
			if (ret == 0) ret = sqfs_block_processor_end_file(proc);
			files[nfiles]->status = ret;
			nfiles++;
			if (ret) printf("err %d\n", ret); else puts("ok");
		} else if (!strcmp(tok[0], "bp-sync") && nt == 1 && proc) {
			int ret = sqfs_block_processor_sync(proc);
			if (ret) printf("err %d\n", ret); else puts("ok");
		} else if (!strcmp(tok[0], "bp-finish") && nt == 1 && proc) {
			int ret = sqfs_block_processor_finish(proc);
			dump_all(ret);
		} else {
			puts("bad-op");
		}
		fflush(stdout);
	}
	free(line);
	bw_reset();
	free(files);
	free(evlog);
	return 0;
}
