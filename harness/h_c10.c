/*
 * C10 harness: the real reader API of libsquashfs over an in-memory image, same line protocol as
 * `sqfsmodel c10` (lean/Driver/C10.lean).  The readers get
 *   - a sqfs_file_t implemented here over a byte buffer (scriptable I/O errors: "bad" ranges), and
 *   - a toy block codec (sqfs_compressor_t implemented here, mirrored by `toyUnc` in
 *     lean/Sqfs/Model/MetaReader.lean) so that decompression failure and expansion are scriptable.
 * Every query op ("q", "dq") is also executed on freshly created reader objects; both answers are printed
 * ("<history> || <fresh>") — that comparison is the property's own oracle and needs no model.
 */
#include "config.h"
#include "sqfs/predef.h"
#include "sqfs/io.h"
#include "sqfs/compressor.h"
#include "sqfs/meta_reader.h"
#include "sqfs/error.h"
#include "hexio.h"

#include <stdio.h>
#include <stdlib.h>
#include <string.h>
#include <stdint.h>

/* ------------------------------------------------------------------ in-memory file */

typedef struct {
	sqfs_file_t base;
	unsigned char *data;
	size_t size;
	sqfs_u64 bad_off[64], bad_len[64];
	size_t nbad;
	unsigned long reads;
} memfile_t;

static int mem_read_at(sqfs_file_t *f, sqfs_u64 offset, void *buffer, size_t size)
{
	memfile_t *m = (memfile_t *)f;
	size_t i;

	m->reads++;
	for (i = 0; i < m->nbad; ++i) {
		/* [offset, offset+size) intersects [bad_off, bad_off+bad_len) ? (no wrap: all values are small) */
		if (size > 0 && m->bad_len[i] > 0 && offset < m->bad_off[i] + m->bad_len[i] &&
		    m->bad_off[i] < offset + size)
			return SQFS_ERROR_IO;
	}
	if (offset > m->size || size > m->size - offset)
		return SQFS_ERROR_OUT_OF_BOUNDS;
	memcpy(buffer, m->data + offset, size);
	return 0;
}

static int mem_write_at(sqfs_file_t *f, sqfs_u64 o, const void *b, size_t s) { (void)f; (void)o; (void)b; (void)s; return SQFS_ERROR_IO; }
static sqfs_u64 mem_get_size(const sqfs_file_t *f) { return ((const memfile_t *)f)->size; }
static int mem_truncate(sqfs_file_t *f, sqfs_u64 s) { (void)f; (void)s; return SQFS_ERROR_IO; }
static const char *mem_get_filename(sqfs_file_t *f) { (void)f; return "<memory>"; }
static void mem_destroy(sqfs_object_t *o) { (void)o; /* static object */ }

static memfile_t g_file;

static void memfile_init(void)
{
	memset(&g_file, 0, sizeof(g_file));
	sqfs_object_init(&g_file, mem_destroy, NULL);
	g_file.base.base.refcount = 1000000; /* never released */
	g_file.base.read_at = mem_read_at;
	g_file.base.write_at = mem_write_at;
	g_file.base.get_size = mem_get_size;
	g_file.base.truncate = mem_truncate;
	g_file.base.get_filename = mem_get_filename;
	g_file.data = malloc(1);
}

/* ------------------------------------------------------------------ toy codec (uncompressor) */

static sqfs_s32 toy_do_block(sqfs_compressor_t *c, const sqfs_u8 *in, sqfs_u32 size, sqfs_u8 *out, sqfs_u32 outsize)
{
	sqfs_u32 i, n;
	(void)c;
	if (size == 0)
		return SQFS_ERROR_COMPRESSOR;
	switch (in[0]) {
	case 0:
		if (size - 1 > outsize) return SQFS_ERROR_COMPRESSOR;
		memcpy(out, in + 1, size - 1);
		return (sqfs_s32)(size - 1);
	case 1:
		if (size < 2) return SQFS_ERROR_COMPRESSOR;
		if (size - 2 > outsize) return SQFS_ERROR_COMPRESSOR;
		for (i = 0; i < size - 2; ++i) out[i] = in[2 + i] ^ in[1];
		return (sqfs_s32)(size - 2);
	case 3:
		if (size != 4) return SQFS_ERROR_COMPRESSOR;
		n = in[1] + 256u * in[2];
		if (n > outsize) return SQFS_ERROR_COMPRESSOR;
		memset(out, in[3], n);
		return (sqfs_s32)n;
	default:
		return SQFS_ERROR_COMPRESSOR;
	}
}

static void toy_get_configuration(const sqfs_compressor_t *c, sqfs_compressor_config_t *cfg) { (void)c; memset(cfg, 0, sizeof(*cfg)); }
static int toy_write_options(sqfs_compressor_t *c, sqfs_file_t *f) { (void)c; (void)f; return 0; }
static int toy_read_options(sqfs_compressor_t *c, sqfs_file_t *f) { (void)c; (void)f; return 0; }
static void toy_destroy(sqfs_object_t *o) { (void)o; }

static sqfs_compressor_t g_toy;

static void toy_init(void)
{
	memset(&g_toy, 0, sizeof(g_toy));
	sqfs_object_init(&g_toy, toy_destroy, NULL);
	g_toy.base.refcount = 1000000;
	g_toy.get_configuration = toy_get_configuration;
	g_toy.write_options = toy_write_options;
	g_toy.read_options = toy_read_options;
	g_toy.do_block = toy_do_block;
}

/* ------------------------------------------------------------------ metadata reader ops */

#define NSLOT 16
static sqfs_meta_reader_t *g_mr[NSLOT];
static sqfs_u64 g_mr_start[NSLOT], g_mr_limit[NSLOT];

static int parse_u64(const char *s, sqfs_u64 *out)
{
	char *end;
	if (!s || !*s) return -1;
	*out = strtoull(s, &end, 10);
	return *end ? -1 : 0;
}

/* "seek=<st> reads=<st:hex;...|-> pos=<b>,<o>|-" */
static void mr_query(sqfs_meta_reader_t *m, sqfs_u64 b, sqfs_u64 o, const char *ns)
{
	int st = sqfs_meta_reader_seek(m, b, (size_t)o);
	int failed = 0, any = 0;
	printf("seek=%d reads=", st);
	if (st != 0) { printf("- pos=-"); return; }
	if (strcmp(ns, "-") != 0) {
		const char *p = ns;
		while (*p) {
			char *end;
			unsigned long long n = strtoull(p, &end, 10);
			unsigned char *buf = malloc(n ? n : 1);
			if (!buf) abort();
			st = sqfs_meta_reader_read(m, buf, (size_t)n);
			if (any) putchar(';');
			any = 1;
			if (st != 0) { printf("%d:-", st); failed = 1; free(buf); break; }
			printf("0:"); hex_print(stdout, buf, (size_t)n);
			free(buf);
			p = end;
			if (*p == ',') ++p;
		}
	}
	if (!any) putchar('-');
	if (failed) printf(" pos=-");
	else {
		sqfs_u64 pb; size_t po;
		sqfs_meta_reader_get_position(m, &pb, &po);
		printf(" pos=%llu,%llu", (unsigned long long)pb, (unsigned long long)po);
	}
}

static void op_mr(char **w, int nw)
{
	sqfs_u64 k, a, b;
	if (nw < 3 || parse_u64(w[1], &k) || k >= NSLOT) { puts("bad-op"); return; }
	if (strcmp(w[2], "new") == 0) {
		if (nw != 5 || parse_u64(w[3], &a) || parse_u64(w[4], &b)) { puts("bad-op"); return; }
		if (g_mr[k]) sqfs_drop(g_mr[k]);
		g_mr[k] = sqfs_meta_reader_create((sqfs_file_t *)&g_file, &g_toy, a, b);
		g_mr_start[k] = a; g_mr_limit[k] = b;
		puts(g_mr[k] ? "ok" : "alloc-fail");
		return;
	}
	if (!g_mr[k]) { puts("bad-op"); return; }
	if (strcmp(w[2], "seek") == 0 && nw == 5 && !parse_u64(w[3], &a) && !parse_u64(w[4], &b)) {
		unsigned long r0 = g_file.reads;
		int st = sqfs_meta_reader_seek(g_mr[k], a, (size_t)b);
		printf("st=%d #io=%lu\n", st, g_file.reads - r0);
	} else if (strcmp(w[2], "read") == 0 && nw == 4 && !parse_u64(w[3], &a)) {
		unsigned char *buf = malloc(a ? a : 1);
		int st;
		if (!buf) abort();
		st = sqfs_meta_reader_read(g_mr[k], buf, (size_t)a);
		if (st == 0) { printf("st=0 data="); hex_print(stdout, buf, (size_t)a); putchar('\n'); }
		else printf("st=%d\n", st);
		free(buf);
	} else if (strcmp(w[2], "pos") == 0 && nw == 3) {
		sqfs_u64 pb; size_t po;
		sqfs_meta_reader_get_position(g_mr[k], &pb, &po);
		printf("pos %llu %llu\n", (unsigned long long)pb, (unsigned long long)po);
	} else if (strcmp(w[2], "q") == 0 && nw == 6 && !parse_u64(w[3], &a) && !parse_u64(w[4], &b)) {
		sqfs_meta_reader_t *fresh;
		unsigned long r0 = g_file.reads, r1;
		mr_query(g_mr[k], a, b, w[5]);
		r1 = g_file.reads - r0;
		printf(" || ");
		fresh = sqfs_meta_reader_create((sqfs_file_t *)&g_file, &g_toy, g_mr_start[k], g_mr_limit[k]);
		if (!fresh) abort();
		mr_query(fresh, a, b, w[5]);
		sqfs_drop(fresh);
		printf(" #io=%lu\n", r1);
	} else puts("bad-op");
}

#ifdef H_C10_WITH_DATA
void op_data(char **w, int nw);           /* h_c10_data.c */
void h_c10_data_reset(void);
void op_stream(char **w, int nw);
void op_image(char **w, int nw);          /* h_c10_img.c */
void h_c10_img_reset(void);
void op_dd(char **w, int nw);             /* h_c10_dec.c */
void op_xr(char **w, int nw);
void op_idt(char **w, int nw);
void h_c10_dec_reset(void);
#endif

sqfs_file_t *h_c10_memfile(void) { return (sqfs_file_t *)&g_file; }
sqfs_compressor_t *h_c10_toy(void) { return &g_toy; }

int main(void)
{
	static char line[1 << 24];
	memfile_init();
	toy_init();
	setvbuf(stdout, NULL, _IOFBF, 1 << 16);
	while (fgets(line, sizeof(line), stdin)) {
		char *w[64];
		int nw = 0;
		char *t = strtok(line, " \n");
		while (t && nw < 64) { w[nw++] = t; t = strtok(NULL, " \n"); }
		if (nw == 0) { puts("bad-op"); continue; }
		if (strcmp(w[0], "file") == 0 && nw == 2) {
			unsigned char *buf;
			long n = hex_decode_tok(w[1], &buf, 0);
			if (n < 0) { puts("bad-op"); continue; }
			free(g_file.data);
			g_file.data = buf;
			g_file.size = (size_t)n;
			g_file.nbad = 0;
			for (int i = 0; i < NSLOT; ++i) { if (g_mr[i]) sqfs_drop(g_mr[i]); g_mr[i] = NULL; }
#ifdef H_C10_WITH_DATA
			h_c10_data_reset();
			h_c10_img_reset();
			h_c10_dec_reset();
#endif
			printf("ok %ld\n", n);
		} else if (strcmp(w[0], "bad") == 0 && nw == 3) {
			sqfs_u64 a, b;
			if (parse_u64(w[1], &a) || parse_u64(w[2], &b) || g_file.nbad >= 64) { puts("bad-op"); continue; }
			g_file.bad_off[g_file.nbad] = a; g_file.bad_len[g_file.nbad] = b; g_file.nbad++;
			puts("ok");
		} else if (strcmp(w[0], "badclr") == 0 && nw == 1) {
			g_file.nbad = 0;
			puts("ok");
		} else if (strcmp(w[0], "mr") == 0) {
			op_mr(w, nw);
#ifdef H_C10_WITH_DATA
		} else if (strcmp(w[0], "dr") == 0) {
			op_data(w, nw);
		} else if (strcmp(w[0], "st") == 0) {
			op_stream(w, nw);
		} else if (strcmp(w[0], "dd") == 0) {
			op_dd(w, nw);
		} else if (strcmp(w[0], "xr") == 0) {
			op_xr(w, nw);
		} else if (strcmp(w[0], "idt") == 0) {
			op_idt(w, nw);
		} else if (strcmp(w[0], "img") == 0) {
			op_image(w, nw);
		} else if (strcmp(w[0], "imgfile") == 0 && nw == 2) {
			FILE *fp = fopen(w[1], "rb");
			long n;
			unsigned char *buf;
			if (!fp) { puts("bad-op"); continue; }
			fseek(fp, 0, SEEK_END); n = ftell(fp); fseek(fp, 0, SEEK_SET);
			buf = malloc(n > 0 ? (size_t)n : 1);
			if (!buf || fread(buf, 1, (size_t)n, fp) != (size_t)n) abort();
			fclose(fp);
			for (int i = 0; i < NSLOT; ++i) { if (g_mr[i]) sqfs_drop(g_mr[i]); g_mr[i] = NULL; }
			h_c10_data_reset();
			h_c10_img_reset();
			h_c10_dec_reset();
			free(g_file.data);
			g_file.data = buf; g_file.size = (size_t)n; g_file.nbad = 0;
			printf("ok %ld\n", n);
#endif
		} else puts("bad-op");
		fflush(stdout);
	}
	return 0;
}
