/* sched.c — implementation of the controlled cooperative scheduler (see shim_sched.h). */
#define VS_NO_REDIRECT
#include "shim_sched.h"
/* this file may itself be compiled with -include shim_sched.h: it needs the real libpthread */
#undef pthread_create
#undef pthread_join
#undef pthread_mutex_init
#undef pthread_mutex_destroy
#undef pthread_mutex_lock
#undef pthread_mutex_trylock
#undef pthread_mutex_unlock
#undef pthread_cond_init
#undef pthread_cond_destroy
#undef pthread_cond_wait
#undef pthread_cond_signal
#undef pthread_cond_broadcast
#include <errno.h>
#include <sched.h>
#include <semaphore.h>
#include <stdio.h>
#include <stdlib.h>
#include <string.h>

#define VS_MAX_THREADS 64
#define VS_MAX_MUTEX 256

typedef struct {
	pthread_t th;
	sem_t sem;
	int kind;
	const void *obj;          /* mutex / cond address */
	const char *tag;          /* vs_yield tag */
	pthread_mutex_t *wait_mtx;/* mutex to re-acquire after a cond wait */
	int signalled;
	unsigned long wait_seq;
	int join_target;
	int poison, exited, reaped;
	void *(*fn)(void *);
	void *arg;
	void *retval;
} vs_thread_t;

static vs_thread_t T[VS_MAX_THREADS];
static int NT;
static sem_t ctl_sem;
static int ctl_init;
static __thread int self_tid = -1;
static struct { const void *addr; int owner; } M[VS_MAX_MUTEX];
static int NM;
static unsigned long wait_seq, nsteps;
static int fail_create_in;
static int fine_mode;             /* vs_set_fine(): extra scheduling points after lock acquisition and at unlock */
static const char TAG_LOCKED[] = "locked", TAG_UNLOCK[] = "unlock";

static void die(const char *msg)
{
	fprintf(stderr, "vsched: %s\n", msg);
	fflush(NULL);
	abort();
}

static int mtx_slot(const void *m)
{
	int i;
	for (i = 0; i < NM; ++i)
		if (M[i].addr == m)
			return i;
	if (NM == VS_MAX_MUTEX)
		die("too many mutexes");
	M[NM].addr = m;
	M[NM].owner = -1;
	return NM++;
}

static int mtx_free(const void *m) { return M[mtx_slot(m)].owner < 0; }

/* hand control back to the controller and wait for the baton */
static void block(int kind, const void *obj, const char *tag)
{
	vs_thread_t *t;
	if (self_tid < 0)
		die("blocking pthread call from a thread the scheduler does not control");
	t = &T[self_tid];
	t->kind = kind;
	t->obj = obj;
	t->tag = tag;
	sem_post(&ctl_sem);
	while (sem_wait(&t->sem) != 0 && errno == EINTR)
		;
	if (t->poison)
		pthread_exit(NULL);
	t->kind = VS_RUNNING;
}

static void *trampoline(void *p)
{
	vs_thread_t *t = p;
	self_tid = (int)(t - T);
	while (sem_wait(&t->sem) != 0 && errno == EINTR)
		;
	if (t->poison)
		return NULL;
	t->kind = VS_RUNNING;
	t->retval = t->fn(t->arg);
	t->kind = VS_EXITED;
	t->exited = 1;
	sem_post(&ctl_sem);
	return t->retval;
}

static int new_thread(void *(*fn)(void *), void *arg, pthread_t *out)
{
	vs_thread_t *t;
	pthread_attr_t at;
	if (NT == VS_MAX_THREADS)
		die("too many threads");
	t = &T[NT];
	memset(t, 0, sizeof(*t));
	sem_init(&t->sem, 0, 0);
	t->kind = VS_START;
	t->fn = fn;
	t->arg = arg;
	t->join_target = -1;
	pthread_attr_init(&at);
	pthread_attr_setstacksize(&at, 512 * 1024);
	if (pthread_create(&t->th, &at, trampoline, t) != 0)
		die("real pthread_create failed");
	pthread_attr_destroy(&at);
	if (out)
		*out = t->th;
	return NT++;
}

/* ---------------------------------------------------------------- controller API */

void vs_reset(void)
{
	int i;
	for (i = 0; i < NT; ++i)
		if (!T[i].reaped)
			die("vs_reset with live threads (call vs_kill_all first)");
	for (i = 0; i < NT; ++i)
		sem_destroy(&T[i].sem);
	NT = 0;
	NM = 0;
	wait_seq = 0;
	fail_create_in = 0;
	fine_mode = 0;
	if (!ctl_init) {
		/* every hand-over is a futex wake-up of another thread: an order of magnitude faster when all
		   threads share one CPU (threads created later inherit the mask).  VS_CPU=<n> picks the CPU,
		   VS_CPU=none disables pinning; default: the CPU we are on now. */
		const char *e = getenv("VS_CPU");
		if (e == NULL || strcmp(e, "none") != 0) {
			cpu_set_t set;
			int cpu = (e != NULL && *e) ? atoi(e) : sched_getcpu();
			if (cpu >= 0) {
				CPU_ZERO(&set);
				CPU_SET(cpu, &set);
				sched_setaffinity(0, sizeof(set), &set);
			}
		}
		sem_init(&ctl_sem, 0, 0);
		ctl_init = 1;
	}
}

int vs_spawn(void *(*fn)(void *), void *arg)
{
	if (!ctl_init)
		vs_reset();
	return new_thread(fn, arg, NULL);
}

static int enabled(int tid, int spur)
{
	vs_thread_t *t;
	if (tid < 0 || tid >= NT)
		return 0;
	t = &T[tid];
	switch (t->kind) {
	case VS_START:
	case VS_YIELD:
		return 1;
	case VS_LOCK:
		return mtx_free(t->obj);
	case VS_COND:
		return (t->signalled || spur) && mtx_free(t->wait_mtx);
	case VS_JOIN:
		return T[t->join_target].exited;
	default:
		return 0;
	}
}

int vs_enabled(int tid) { return enabled(tid, 0); }

int vs_step(int tid, int allow_spurious)
{
	if (!enabled(tid, allow_spurious))
		return -1;
	++nsteps;
	sem_post(&T[tid].sem);
	while (sem_wait(&ctl_sem) != 0 && errno == EINTR)
		;
	return 0;
}

int vs_kind(int tid) { return (tid >= 0 && tid < NT) ? T[tid].kind : -1; }
const void *vs_obj(int tid) { return (tid >= 0 && tid < NT) ? T[tid].obj : NULL; }
const char *vs_tag(int tid) { return (tid >= 0 && tid < NT && T[tid].kind == VS_YIELD) ? T[tid].tag : NULL; }
int vs_signalled(int tid) { return (tid >= 0 && tid < NT) ? T[tid].signalled : 0; }
int vs_join_target(int tid) { return (tid >= 0 && tid < NT) ? T[tid].join_target : -1; }
int vs_nthreads(void) { return NT; }
unsigned long vs_steps(void) { return nsteps; }

int vs_mutexes_held(void)
{
	int i, n = 0;
	for (i = 0; i < NM; ++i)
		n += M[i].owner >= 0;
	return n;
}

void vs_set_fine(int on) { fine_mode = on; }

int vs_fine_point(int tid)
{
	if (tid < 0 || tid >= NT || T[tid].kind != VS_YIELD)
		return 0;
	return T[tid].tag == TAG_LOCKED ? 1 : T[tid].tag == TAG_UNLOCK ? 2 : 0;
}

int vs_mutexes_held_coarse(void)
{
	int i, n = 0;
	for (i = 0; i < NM; ++i)
		n += M[i].owner >= 0 && vs_fine_point(M[i].owner) != 1;
	return n;
}

int vs_deadlocked(void)
{
	int i, live = 0;
	for (i = 0; i < NT; ++i) {
		if (T[i].exited)
			continue;
		live = 1;
		if (enabled(i, 0))
			return 0;
	}
	return live;
}

void vs_kill_all(void)
{
	int i;
	for (i = 0; i < NT; ++i) {
		vs_thread_t *t = &T[i];
		if (t->reaped)
			continue;
		if (!t->exited) {
			t->poison = 1;
			sem_post(&t->sem);
		}
		pthread_join(t->th, NULL);
		t->exited = 1;
		t->kind = VS_EXITED;
		t->reaped = 1;
	}
}

/* ---------------------------------------------------------------- from modelled threads */

int vs_self(void) { return self_tid; }

void vs_yield(const char *tag) { block(VS_YIELD, NULL, tag); }

void vs_fail_next_create(int n) { fail_create_in = n; }

int vs_pthread_create(pthread_t *t, const pthread_attr_t *a, void *(*fn)(void *), void *arg)
{
	(void)a;
	if (fail_create_in > 0 && --fail_create_in == 0)
		return EAGAIN;
	new_thread(fn, arg, t);
	return 0;
}

int vs_pthread_join(pthread_t th, void **ret)
{
	int i, target = -1;
	for (i = 0; i < NT; ++i)
		if (!T[i].reaped && pthread_equal(T[i].th, th))
			target = i;
	if (target < 0)
		die("pthread_join of an unknown or already joined thread");
	if (self_tid < 0)
		die("pthread_join from a thread the scheduler does not control");
	T[self_tid].join_target = target;
	block(VS_JOIN, NULL, NULL);
	if (!T[target].exited)
		die("scheduler resumed a join whose target has not exited");
	pthread_join(T[target].th, NULL);
	T[target].reaped = 1;
	if (ret)
		*ret = T[target].retval;
	return 0;
}

int vs_mutex_init(pthread_mutex_t *m, const pthread_mutexattr_t *a)
{
	(void)a;
	M[mtx_slot(m)].owner = -1;
	return 0;
}

int vs_mutex_destroy(pthread_mutex_t *m)
{
	int i = mtx_slot(m);
	if (M[i].owner >= 0)
		die("pthread_mutex_destroy of a locked mutex");
	M[i] = M[--NM];
	return 0;
}

int vs_mutex_lock(pthread_mutex_t *m)
{
	int i;
	block(VS_LOCK, m, NULL);
	i = mtx_slot(m);
	if (M[i].owner >= 0)
		die("scheduler resumed a lock on a held mutex");
	M[i].owner = self_tid;
	if (fine_mode)
		block(VS_YIELD, m, TAG_LOCKED);  /* holding the mutex: only lock-free code of other threads can run */
	return 0;
}

int vs_mutex_trylock(pthread_mutex_t *m)
{
	int i = mtx_slot(m);
	if (M[i].owner >= 0)
		return EBUSY;
	M[i].owner = self_tid;
	return 0;
}

int vs_mutex_unlock(pthread_mutex_t *m)
{
	int i = mtx_slot(m);
	if (M[i].owner != self_tid)
		die("pthread_mutex_unlock by a thread that does not own the mutex");
	M[i].owner = -1;
	if (fine_mode && self_tid >= 0)
		block(VS_YIELD, m, TAG_UNLOCK);  /* the window between unlock and the thread's next blocking point */
	return 0;
}

int vs_cond_init(pthread_cond_t *c, const pthread_condattr_t *a)
{
	(void)c;
	(void)a;
	return 0;
}

int vs_cond_destroy(pthread_cond_t *c)
{
	int i;
	for (i = 0; i < NT; ++i)
		if (!T[i].exited && T[i].kind == VS_COND && T[i].obj == c)
			die("pthread_cond_destroy with waiters");
	return 0;
}

int vs_cond_wait(pthread_cond_t *c, pthread_mutex_t *m)
{
	vs_thread_t *t;
	int i = mtx_slot(m);
	if (self_tid < 0)
		die("pthread_cond_wait from a thread the scheduler does not control");
	if (M[i].owner != self_tid)
		die("pthread_cond_wait without owning the mutex");
	t = &T[self_tid];
	M[i].owner = -1;
	t->signalled = 0;
	t->wait_mtx = m;
	t->wait_seq = ++wait_seq;
	block(VS_COND, c, NULL);
	t->signalled = 0;
	i = mtx_slot(m);
	if (M[i].owner >= 0)
		die("scheduler resumed a cond wait on a held mutex");
	M[i].owner = self_tid;
	if (fine_mode)
		block(VS_YIELD, m, TAG_LOCKED);
	return 0;
}

int vs_cond_signal(pthread_cond_t *c)
{
	int i, best = -1;
	for (i = 0; i < NT; ++i)
		if (T[i].kind == VS_COND && T[i].obj == c && !T[i].signalled &&
		    (best < 0 || T[i].wait_seq < T[best].wait_seq))
			best = i;
	if (best >= 0)
		T[best].signalled = 1;
	return 0;
}

int vs_cond_broadcast(pthread_cond_t *c)
{
	int i;
	for (i = 0; i < NT; ++i)
		if (T[i].kind == VS_COND && T[i].obj == c)
			T[i].signalled = 1;
	return 0;
}
