/*
 * C14 harness: what the real readers decide first about a file, on the same lines as `sqfsmodel c14`.
 *
 *   file <path>             open <path> with sqfs_file_open(READ_ONLY) and run the sequence every reader runs first:
 *                           sqfs_super_read, sqfs_compressor_create (as rdsquashfs/sqfs2tar configure it),
 *                           sqfs_id_table_read.  Answer: super=<rc> idtable=<rc|->
 *   verdict <hex>           same, on a scratch file (argv[1]) holding exactly these bytes
 *   head <hex> <size>       same, on a scratch file that starts with these bytes and is ftruncate()d to <size>
 *
 * rc is the library's return value (0 or -SQFS_ERROR_*).
 *
 * Script mode (`h_c14 <scratch> script`, linked with -Wl,--wrap=pwrite,--wrap=pwrite64,--wrap=ftruncate,
 * --wrap=ftruncate64): the real writers of libsquashfs on one output file, with a stub compressor
 * ("run of >= 4 equal bytes b -> {b, len lo, len hi}", everything else incompressible); every system call on the
 * output file is recorded.  Commands (one answer line each):
 *   init <bs> <mtime> <comp>      sqfs_file_open(OVERWRITE), sqfs_super_init, sqfs_super_write     -> rc=<rc>
 *   opts <hex>                    sqfs_generic_write_options                                       -> ret=<ret>
 *   blk <flags> <chksum> <hex>    block writer write_data_block                                    -> rc=<rc> loc=<location>
 *   mnew <i> <keep>               sqfs_meta_writer_create (slot i)                                 -> ok
 *   mapp <i> <hex> / mflush <i> / mwrite <i> / mreset <i>                                          -> rc=<rc> pos=<block>:<off>
 *   table <hex>                   sqfs_write_table                                                 -> rc=<rc> start=<start>
 *   idtable <id>,<id>,...         sqfs_id_table_id_to_index each, sqfs_id_table_write              -> rc=<rc> count=<id_count> start=<id_table_start>
 *   fragtable <n> <compressed>    n entries, sqfs_frag_table_write                                 -> rc=<rc> start=<..> count=<..> flags=<super.flags>
 *   export <inum> <iref>          dir writer with export table, write_export_table                 -> rc=<rc> start=<..> flags=<..>
 *   xattr <k:v>,<k:v>,...         one set per pair (key user.<k>, value <v> as text), sqfs_xattr_writer_flush -> rc=<rc> start=<..> flags=<..>
 *   final                         bytes_used = get_size, sqfs_super_write                          -> rc=<rc> super=<hex96 as written>
 *   pad <devblk>                  padd_sqfs (static in finish.c, #included)                         -> rc=<rc>
 *   end                           -> ops <W off hex | T len> ; ...     and everything is released
 *   fault <k> / limit <n>         (before init) the output call at position k (0-based, counting the calls carried out)
 *                                 fails with EIO / every call that would make the file longer than it is and longer
 *                                 than n bytes fails with ENOSPC                                    -> ok
 */
#include "config.h"
#include "sqfs/super.h"
#include "sqfs/io.h"
#include "sqfs/compressor.h"
#include "sqfs/id_table.h"
#include "sqfs/error.h"
#include "hexio.h"

#include <errno.h>
#include <fcntl.h>
#include <unistd.h>
#include <sys/stat.h>

#include "sqfs/block_writer.h"
#include "sqfs/meta_writer.h"
#include "sqfs/table.h"
#include "sqfs/frag_table.h"
#include "sqfs/dir_writer.h"
#include "sqfs/xattr_writer.h"
#include "sqfs/block.h"

/* padd_sqfs() is static: take it from the real translation unit (main-less, only the writer functions) */
#define print_statistics c14_unused_print_statistics
#include "lib/common/src/writer/finish.c"
#undef print_statistics

static void verdict(const char *path)
{
	sqfs_compressor_config_t cfg;
	sqfs_compressor_t *cmp = NULL;
	sqfs_id_table_t *idtbl = NULL;
	sqfs_file_t *file = NULL;
	sqfs_super_t super;
	int ret;

	ret = sqfs_file_open(&file, path, SQFS_FILE_OPEN_READ_ONLY);
	if (ret) {
		printf("open=%d\n", ret);
		return;
	}

	ret = sqfs_super_read(&super, file);
	if (ret) {
		printf("super=%d idtable=-\n", ret);
		goto out;
	}

	sqfs_compressor_config_init(&cfg, super.compression_id, super.block_size, SQFS_COMP_FLAG_UNCOMPRESS);
	ret = sqfs_compressor_create(&cfg, &cmp);
	if (ret) {
		printf("super=0 compressor=%d\n", ret);
		goto out;
	}

	idtbl = sqfs_id_table_create(0);
	if (idtbl == NULL)
		abort();
	ret = sqfs_id_table_read(idtbl, file, &super, cmp);
	printf("super=0 idtable=%d\n", ret);
out:
	if (idtbl) sqfs_drop(idtbl);
	if (cmp) sqfs_drop(cmp);
	sqfs_drop(file);
}

static int put_file(const char *path, const unsigned char *b, size_t n, long long size)
{
	int fd = open(path, O_WRONLY | O_CREAT | O_TRUNC, 0644);
	size_t done = 0;
	if (fd < 0)
		return -1;
	while (done < n) {
		ssize_t r = write(fd, b + done, n - done);
		if (r <= 0) { close(fd); return -1; }
		done += r;
	}
	if (size >= 0 && ftruncate(fd, size) != 0) { close(fd); return -1; }
	close(fd);
	return 0;
}


/* ------------------------------------------------------------------ script mode */
static int out_fd_a = -1, out_fd_b = -1;     /* the output file's descriptors (open + dup) */
static char *oplog;
static size_t oplog_len, oplog_cap;

static void oplog_add(const char *s, size_t n)
{
	if (oplog_len + n + 1 > oplog_cap) {
		oplog_cap = (oplog_len + n + 1) * 2;
		oplog = realloc(oplog, oplog_cap);
		if (!oplog) abort();
	}
	memcpy(oplog + oplog_len, s, n);
	oplog_len += n;
	oplog[oplog_len] = 0;
}

static int is_out(int fd)
{
	struct stat a, b;
	if (out_fd_a < 0 || fstat(fd, &a) || fstat(out_fd_a, &b))
		return 0;
	return a.st_dev == b.st_dev && a.st_ino == b.st_ino;
}

ssize_t __real_pwrite(int, const void *, size_t, off_t);
ssize_t __real_pwrite64(int, const void *, size_t, off_t);
int __real_ftruncate(int, off_t);
int __real_ftruncate64(int, off_t);

static void log_w(off_t off, const void *buf, size_t n)
{
	char head[64];
	size_t i;
	static const char d[] = "0123456789abcdef";
	int l = snprintf(head, sizeof(head), "W %lld ", (long long)off);
	oplog_add(head, l);
	if (n == 0) oplog_add("-", 1);
	for (i = 0; i < n; ++i) {
		char c[2] = { d[((const unsigned char *)buf)[i] >> 4], d[((const unsigned char *)buf)[i] & 15] };
		oplog_add(c, 2);
	}
	oplog_add(" ; ", 3);
}

/* injected failure of the script being run: -1 = none */
static long fault_at = -1;
static long long limit_at = -1;
static long out_calls;                       /* output calls carried out so far */

static int inject(int fd, int is_w, long long off, long long n)
{
	if (!is_out(fd))
		return 0;
	if (fault_at >= 0 && out_calls == fault_at) {
		errno = EIO;
		return 1;
	}
	if (limit_at >= 0) {
		long long end = is_w ? off + n : off;
		struct stat sb;
		if ((!is_w || n > 0) && end > limit_at && fstat(fd, &sb) == 0 && end > (long long)sb.st_size) {
			errno = ENOSPC;
			return 1;
		}
	}
	return 0;
}

ssize_t __wrap_pwrite(int fd, const void *buf, size_t n, off_t off)
{
	ssize_t r;
	if (inject(fd, 1, off, n)) return -1;
	r = __real_pwrite(fd, buf, n, off);
	if (r >= 0 && is_out(fd)) { log_w(off, buf, r); out_calls++; }
	return r;
}
ssize_t __wrap_pwrite64(int fd, const void *buf, size_t n, off_t off)
{
	ssize_t r;
	if (inject(fd, 1, off, n)) return -1;
	r = __real_pwrite64(fd, buf, n, off);
	if (r >= 0 && is_out(fd)) { log_w(off, buf, r); out_calls++; }
	return r;
}
static void log_t(off_t len)
{
	char b[64];
	int l = snprintf(b, sizeof(b), "T %lld ; ", (long long)len);
	oplog_add(b, l);
}
int __wrap_ftruncate(int fd, off_t len)
{
	int r;
	if (inject(fd, 0, len, 0)) return -1;
	r = __real_ftruncate(fd, len);
	if (r == 0 && is_out(fd)) { log_t(len); out_calls++; }
	return r;
}
int __wrap_ftruncate64(int fd, off_t len)
{
	int r;
	if (inject(fd, 0, len, 0)) return -1;
	r = __real_ftruncate64(fd, len);
	if (r == 0 && is_out(fd)) { log_t(len); out_calls++; }
	return r;
}

/* stub compressor */
static void stub_get_configuration(const sqfs_compressor_t *c, sqfs_compressor_config_t *cfg) { (void)c; memset(cfg, 0, sizeof(*cfg)); }
static int stub_write_options(sqfs_compressor_t *c, sqfs_file_t *f) { (void)c; (void)f; return 0; }
static int stub_read_options(sqfs_compressor_t *c, sqfs_file_t *f) { (void)c; (void)f; return 0; }
static sqfs_s32 stub_do_block(sqfs_compressor_t *c, const sqfs_u8 *in, sqfs_u32 size, sqfs_u8 *out, sqfs_u32 outsize)
{
	sqfs_u32 i;
	(void)c;
	if (size < 4 || outsize < 3)
		return 0;
	for (i = 1; i < size; ++i)
		if (in[i] != in[0])
			return 0;
	out[0] = in[0];
	out[1] = size & 0xFF;
	out[2] = (size >> 8) & 0xFF;
	return 3;
}
static void stub_destroy(sqfs_object_t *o) { free(o); }
static sqfs_compressor_t *stub_create(void)
{
	sqfs_compressor_t *c = calloc(1, sizeof(*c));
	if (!c) abort();
	sqfs_object_init(c, stub_destroy, NULL);
	c->get_configuration = stub_get_configuration;
	c->write_options = stub_write_options;
	c->read_options = stub_read_options;
	c->do_block = stub_do_block;
	return c;
}

#define NMETA 4
static int script_main(const char *path)
{
	static char line[1 << 24];
	sqfs_file_t *file = NULL;
	sqfs_compressor_t *cmp = stub_create();
	sqfs_block_writer_t *bw = NULL;
	sqfs_meta_writer_t *mw[NMETA] = { 0 };
	sqfs_super_t super;
	int i;

	memset(&super, 0, sizeof(super));
	while (fgets(line, sizeof(line), stdin)) {
		char *op = strtok(line, " \n"), *a1 = strtok(NULL, " \n"), *a2 = strtok(NULL, " \n"), *a3 = strtok(NULL, " \n");
		unsigned char *buf = NULL;
		long n;
		int ret;

		if (!op) { puts("bad-op"); fflush(stdout); continue; }
		if (!strcmp(op, "init") && a1 && a2 && a3) {
			if (file) { puts("bad-op"); fflush(stdout); continue; }
			ret = sqfs_file_open(&file, path, SQFS_FILE_OPEN_OVERWRITE);
			if (ret) { printf("open=%d\n", ret); fflush(stdout); continue; }
			out_fd_a = open(path, O_RDONLY);
			ret = sqfs_super_init(&super, strtoul(a1, NULL, 10), strtoul(a2, NULL, 10), (SQFS_COMPRESSOR)strtoul(a3, NULL, 10));
			if (ret == 0)
				ret = sqfs_super_write(&super, file);
			if (ret == 0) {
				bw = sqfs_block_writer_create(file, 0);
				if (!bw) abort();
			}
			printf("rc=%d\n", ret);
		} else if (!strcmp(op, "fault") && a1 && !file) {
			fault_at = atol(a1);
			puts("ok");
		} else if (!strcmp(op, "limit") && a1 && !file) {
			limit_at = atoll(a1);
			puts("ok");
		} else if (!file) {
			puts("bad-op");
		} else if (!strcmp(op, "opts") && a1) {
			if ((n = hex_decode_tok(a1, &buf, 0)) < 0) puts("bad-op");
			else {
				ret = sqfs_generic_write_options(file, buf, n);
				if (ret > 0) super.flags |= SQFS_FLAG_COMPRESSOR_OPTIONS;
				printf("ret=%d\n", ret);
			}
		} else if (!strcmp(op, "blk") && a1 && a2 && a3 && bw) {
			sqfs_u64 loc = 0;
			if ((n = hex_decode_tok(a3, &buf, 0)) < 0) puts("bad-op");
			else {
				ret = bw->write_data_block(bw, NULL, n, strtoul(a2, NULL, 10), strtoul(a1, NULL, 10), buf, &loc);
				printf("rc=%d loc=%llu\n", ret, (unsigned long long)loc);
			}
		} else if (!strcmp(op, "mnew") && a1 && a2) {
			i = atoi(a1);
			if (i < 0 || i >= NMETA) puts("bad-op");
			else {
				if (mw[i]) sqfs_drop(mw[i]);
				mw[i] = sqfs_meta_writer_create(file, cmp, atoi(a2) ? SQFS_META_WRITER_KEEP_IN_MEMORY : 0);
				puts(mw[i] ? "ok" : "fail");
			}
		} else if ((!strcmp(op, "mapp") || !strcmp(op, "mflush") || !strcmp(op, "mwrite") || !strcmp(op, "mreset")) && a1) {
			sqfs_u64 blk; sqfs_u32 off;
			i = atoi(a1);
			if (i < 0 || i >= NMETA || !mw[i]) puts("bad-op");
			else {
				ret = 0;
				if (!strcmp(op, "mapp")) {
					if (!a2 || (n = hex_decode_tok(a2, &buf, 0)) < 0) { puts("bad-op"); fflush(stdout); continue; }
					ret = sqfs_meta_writer_append(mw[i], buf, n);
				} else if (!strcmp(op, "mflush")) ret = sqfs_meta_writer_flush(mw[i]);
				else if (!strcmp(op, "mwrite")) ret = sqfs_meta_write_write_to_file(mw[i]);
				else sqfs_meta_writer_reset(mw[i]);
				sqfs_meta_writer_get_position(mw[i], &blk, &off);
				printf("rc=%d pos=%llu:%u\n", ret, (unsigned long long)blk, off);
			}
		} else if (!strcmp(op, "table") && a1) {
			sqfs_u64 start = 0;
			if ((n = hex_decode_tok(a1, &buf, 0)) < 0) puts("bad-op");
			else {
				ret = sqfs_write_table(file, cmp, buf, n, &start);
				printf("rc=%d start=%llu\n", ret, (unsigned long long)start);
			}
		} else if (!strcmp(op, "idtable") && a1) {
			sqfs_id_table_t *t = sqfs_id_table_create(0);
			char *tok, *save = NULL;
			sqfs_u16 idx;
			ret = 0;
			for (tok = strtok_r(a1, ",", &save); tok && !ret; tok = strtok_r(NULL, ",", &save))
				ret = sqfs_id_table_id_to_index(t, strtoul(tok, NULL, 10), &idx);
			if (ret == 0)
				ret = sqfs_id_table_write(t, file, &super, cmp);
			printf("rc=%d count=%u start=%llu\n", ret, super.id_count, (unsigned long long)super.id_table_start);
			sqfs_drop(t);
		} else if (!strcmp(op, "fragtable") && a1 && a2) {
			sqfs_frag_table_t *t = sqfs_frag_table_create(0);
			long cnt = atol(a1), comp = atol(a2), j;
			ret = 0;
			for (j = 0; j < cnt && !ret; ++j)
				ret = sqfs_frag_table_append(t, 96 + 100 * j, (comp && j == cnt - 1) ? 77 : (77 | (1 << 24)), NULL);
			if (ret == 0)
				ret = sqfs_frag_table_write(t, file, &super, cmp);
			printf("rc=%d start=%llu count=%u flags=%u\n", ret, (unsigned long long)super.fragment_table_start, super.fragment_entry_count, super.flags);
			sqfs_drop(t);
		} else if (!strcmp(op, "export") && a1 && a2) {
			sqfs_meta_writer_t *dm = sqfs_meta_writer_create(file, cmp, SQFS_META_WRITER_KEEP_IN_MEMORY);
			sqfs_dir_writer_t *dw = sqfs_dir_writer_create(dm, SQFS_DIR_WRITER_CREATE_EXPORT_TABLE);
			ret = sqfs_dir_writer_write_export_table(dw, file, cmp, strtoul(a1, NULL, 10), strtoull(a2, NULL, 10), &super);
			printf("rc=%d start=%llu flags=%u\n", ret, (unsigned long long)super.export_table_start, super.flags);
			sqfs_drop(dw);
			sqfs_drop(dm);
		} else if (!strcmp(op, "xattr") && a1) {
			sqfs_xattr_writer_t *xw = sqfs_xattr_writer_create(0);
			char *tok, *save = NULL;
			sqfs_u32 idx;
			ret = 0;
			if (strcmp(a1, "-"))
				for (tok = strtok_r(a1, ",", &save); tok && !ret; tok = strtok_r(NULL, ",", &save)) {
					char key[300], *colon = strchr(tok, ':');
					if (!colon) { ret = -100; break; }
					*colon = 0;
					snprintf(key, sizeof(key), "user.%s", tok);
					ret = sqfs_xattr_writer_begin(xw, 0);
					if (!ret) ret = sqfs_xattr_writer_add_kv(xw, key, colon + 1, strlen(colon + 1));
					if (!ret) ret = sqfs_xattr_writer_end(xw, &idx);
				}
			if (ret == 0)
				ret = sqfs_xattr_writer_flush(xw, file, &super, cmp);
			printf("rc=%d start=%llu flags=%u\n", ret, (unsigned long long)super.xattr_id_table_start, super.flags);
			sqfs_drop(xw);
		} else if (!strcmp(op, "final")) {
			unsigned char sb[sizeof(sqfs_super_t)];
			super.bytes_used = file->get_size(file);
			ret = sqfs_super_write(&super, file);
			if (ret == 0 && file->read_at(file, 0, sb, sizeof(sb)) == 0) {
				printf("rc=0 super=");
				hex_print(stdout, sb, sizeof(sb));
				putchar('\n');
			} else printf("rc=%d\n", ret);
		} else if (!strcmp(op, "pad") && a1) {
			ret = padd_sqfs(file, super.bytes_used, strtoul(a1, NULL, 10));
			printf("rc=%d\n", ret);
		} else if (!strcmp(op, "end")) {
			printf("ops %s\n", oplog ? oplog : "");
			oplog_len = 0;
			if (oplog) oplog[0] = 0;
			for (i = 0; i < NMETA; ++i) if (mw[i]) { sqfs_drop(mw[i]); mw[i] = NULL; }
			if (bw) { sqfs_drop(bw); bw = NULL; }
			sqfs_drop(file); file = NULL;
			close(out_fd_a); out_fd_a = -1;
			fault_at = -1; limit_at = -1; out_calls = 0;
			memset(&super, 0, sizeof(super));
		} else {
			puts("bad-op");
		}
		free(buf);
		fflush(stdout);
	}
	sqfs_drop(cmp);
	return 0;
}

int main(int argc, char **argv)
{
	static char line[1 << 24];
	const char *scratch = argc > 1 ? argv[1] : "/tmp/h_c14.scratch";

	if (argc > 2 && strcmp(argv[2], "script") == 0)
		return script_main(scratch);

	while (fgets(line, sizeof(line), stdin)) {
		char *op = strtok(line, " \n"), *a1 = strtok(NULL, " \n"), *a2 = strtok(NULL, " \n");
		unsigned char *buf = NULL;
		long n;

		if (!op || !a1) { puts("bad-op"); fflush(stdout); continue; }

		if (strcmp(op, "file") == 0) {
			verdict(a1);
		} else if (strcmp(op, "verdict") == 0) {
			if ((n = hex_decode_tok(a1, &buf, 0)) < 0 || put_file(scratch, buf, n, -1)) puts("bad-op");
			else verdict(scratch);
		} else if (strcmp(op, "head") == 0 && a2) {
			long long size = atoll(a2);
			if ((n = hex_decode_tok(a1, &buf, 0)) < 0 || put_file(scratch, buf, (size_t)n < (size_t)size ? (size_t)n : (size_t)size, size)) puts("bad-op");
			else verdict(scratch);
		} else {
			puts("bad-op");
		}
		free(buf);
		fflush(stdout);
	}
	return 0;
}
