/*
 * C14 harness: what the real readers decide first about a file, on the same lines as `sqfsmodel c14`.
 *
 *   file <path>             open <path> with sqfs_file_open(READ_ONLY) and run the sequence every reader runs first:
 *                           sqfs_super_read, sqfs_compressor_create (as rdsquashfs/sqfs2tar configure it),
 *                           sqfs_id_table_read.  Answer: super=<rc> idtable=<rc|->
 *   verdict <hex>           same, on a scratch file (argv[1]) holding exactly these bytes
 *   head <hex> <size>       same, on a scratch file that starts with these bytes and is ftruncate()d to <size>
 *
 * rc is the library's return value (0 or -SQFS_ERROR_*).
 */
#include "config.h"
#include "sqfs/super.h"
#include "sqfs/io.h"
#include "sqfs/compressor.h"
#include "sqfs/id_table.h"
#include "sqfs/error.h"
#include "hexio.h"

#include <fcntl.h>
#include <unistd.h>

static void verdict(const char *path)
{
	sqfs_compressor_config_t cfg;
	sqfs_compressor_t *cmp = NULL;
	sqfs_id_table_t *idtbl = NULL;
	sqfs_file_t *file = NULL;
	sqfs_super_t super;
	int ret;

	ret = sqfs_file_open(&file, path, SQFS_FILE_OPEN_READ_ONLY);
	if (ret) {
		printf("open=%d\n", ret);
		return;
	}

	ret = sqfs_super_read(&super, file);
	if (ret) {
		printf("super=%d idtable=-\n", ret);
		goto out;
	}

	sqfs_compressor_config_init(&cfg, super.compression_id, super.block_size, SQFS_COMP_FLAG_UNCOMPRESS);
	ret = sqfs_compressor_create(&cfg, &cmp);
	if (ret) {
		printf("super=0 compressor=%d\n", ret);
		goto out;
	}

	idtbl = sqfs_id_table_create(0);
	if (idtbl == NULL)
		abort();
	ret = sqfs_id_table_read(idtbl, file, &super, cmp);
	printf("super=0 idtable=%d\n", ret);
out:
	if (idtbl) sqfs_drop(idtbl);
	if (cmp) sqfs_drop(cmp);
	sqfs_drop(file);
}

static int put_file(const char *path, const unsigned char *b, size_t n, long long size)
{
	int fd = open(path, O_WRONLY | O_CREAT | O_TRUNC, 0644);
	size_t done = 0;
	if (fd < 0)
		return -1;
	while (done < n) {
		ssize_t r = write(fd, b + done, n - done);
		if (r <= 0) { close(fd); return -1; }
		done += r;
	}
	if (size >= 0 && ftruncate(fd, size) != 0) { close(fd); return -1; }
	close(fd);
	return 0;
}

int main(int argc, char **argv)
{
	static char line[1 << 24];
	const char *scratch = argc > 1 ? argv[1] : "/tmp/h_c14.scratch";

	while (fgets(line, sizeof(line), stdin)) {
		char *op = strtok(line, " \n"), *a1 = strtok(NULL, " \n"), *a2 = strtok(NULL, " \n");
		unsigned char *buf = NULL;
		long n;

		if (!op || !a1) { puts("bad-op"); fflush(stdout); continue; }

		if (strcmp(op, "file") == 0) {
			verdict(a1);
		} else if (strcmp(op, "verdict") == 0) {
			if ((n = hex_decode_tok(a1, &buf, 0)) < 0 || put_file(scratch, buf, n, -1)) puts("bad-op");
			else verdict(scratch);
		} else if (strcmp(op, "head") == 0 && a2) {
			long long size = atoll(a2);
			if ((n = hex_decode_tok(a1, &buf, 0)) < 0 || put_file(scratch, buf, (size_t)n < (size_t)size ? (size_t)n : (size_t)size, size)) puts("bad-op");
			else verdict(scratch);
		} else {
			puts("bad-op");
		}
		free(buf);
		fflush(stdout);
	}
	return 0;
}
