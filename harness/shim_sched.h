/*
 * shim_sched.h — controlled cooperative scheduler for code that uses pthreads.
 *
 * Use:  compile the code under test with   -include shim_sched.h   and link harness/sched.c.
 * Every pthread_{create,join,mutex_*,cond_*} call in that translation unit then goes to the
 * scheduler below instead of libpthread.  Each modelled thread is a real pthread gated by its
 * own semaphore (a "baton"), so exactly one modelled thread runs at any time and it runs until
 * its next *blocking point*; which thread runs next is decided by the harness ("controller",
 * the process's initial thread) through vs_step().  Works under ASan/UBSan (no ucontext).
 *
 * Blocking points (the running thread stops there and control returns to the controller):
 *   thread start             kind VS_START   always enabled
 *   pthread_mutex_lock       kind VS_LOCK    enabled iff the mutex is free
 *   pthread_cond_wait        kind VS_COND    enabled iff signalled (or the controller allows a
 *                                            spurious wake-up) and the mutex is free
 *   pthread_join             kind VS_JOIN    enabled iff the target thread has exited
 *   vs_yield(tag)            kind VS_YIELD   always enabled (explicit point placed by a harness,
 *                                            e.g. at the entry of a worker callback)
 * Not blocking points: pthread_mutex_unlock, pthread_cond_signal/broadcast, pthread_create
 * (the new thread is registered at VS_START and runs only when the controller steps it).
 *
 * Fine mode (opt-in, vs_set_fine(1) after vs_reset(); off by default, so existing users are unaffected):
 * two more scheduling points, both of kind VS_YIELD and always enabled —
 *   tag "locked"   right after a mutex was acquired (by pthread_mutex_lock or when pthread_cond_wait
 *                  returns); the thread HOLDS the mutex there, so threads at VS_LOCK / VS_COND on it stay
 *                  disabled and only lock-free code of other threads can be interleaved with the critical
 *                  section;
 *   tag "unlock"   right after pthread_mutex_unlock released the mutex: the window between the unlock and
 *                  the thread's next blocking point is explored.
 * vs_fine_point(tid) tells them apart (1 = "locked", 2 = "unlock", 0 = neither);
 * vs_mutexes_held_coarse() counts the mutexes owned by a thread that is NOT at a "locked" point (0 at every
 * scheduling point iff no critical section contains another blocking point).
 *
 * pthread_cond_signal marks the longest-waiting unsignalled waiter, pthread_cond_broadcast all
 * current waiters.  Mutexes and condition variables are identified by address; the pthread
 * objects themselves are never touched.
 *
 * Controller API (call only from the controller thread):
 *   vs_reset()                 forget the previous run (after vs_kill_all())
 *   vs_spawn(fn, arg)          register modelled thread 0.. (returns its id); it waits at VS_START
 *   vs_step(tid, spurious)     run thread tid to its next blocking point; -1 if not enabled
 *   vs_enabled(tid)            strict enabledness (no spurious wake-up)
 *   vs_kind/vs_obj/vs_tag/vs_signalled/vs_join_target(tid)   where and on what a thread is blocked
 *   vs_nthreads()              number of registered threads (ids are dense, creation order)
 *   vs_mutexes_held()          number of mutexes currently owned (0 at every scheduling point
 *                              iff no critical section contains a blocking point)
 *   vs_deadlocked()            at least one thread has not exited and none is enabled
 *   vs_kill_all()              make every live thread leave through pthread_exit and reap it
 * From modelled threads:
 *   vs_self()                  own id (-1 on the controller)
 *   vs_yield(tag)              explicit blocking point
 *   vs_fail_next_create(n)     the n-th next pthread_create (1 = next) returns EAGAIN
 *
 * Environment: VS_CPU=<n> pins the whole process to CPU n (default: the CPU it starts on;
 * VS_CPU=none: no pinning).  Pinning makes the baton hand-over ~10x faster.
 */
#ifndef VERIF_SHIM_SCHED_H
#define VERIF_SHIM_SCHED_H

#include <pthread.h>
#include <signal.h>

#ifdef __cplusplus
extern "C" {
#endif

enum { VS_RUNNING = 0, VS_START, VS_LOCK, VS_COND, VS_JOIN, VS_YIELD, VS_EXITED };

void vs_reset(void);
int vs_spawn(void *(*fn)(void *), void *arg);
int vs_step(int tid, int allow_spurious);
int vs_enabled(int tid);
int vs_kind(int tid);
const void *vs_obj(int tid);
const char *vs_tag(int tid);
int vs_signalled(int tid);
int vs_join_target(int tid);
int vs_nthreads(void);
int vs_mutexes_held(void);
void vs_set_fine(int on);
int vs_fine_point(int tid);
int vs_mutexes_held_coarse(void);
int vs_deadlocked(void);
void vs_kill_all(void);
int vs_self(void);
void vs_yield(const char *tag);
void vs_fail_next_create(int n);
unsigned long vs_steps(void);

int vs_pthread_create(pthread_t *t, const pthread_attr_t *a, void *(*fn)(void *), void *arg);
int vs_pthread_join(pthread_t t, void **ret);
int vs_mutex_init(pthread_mutex_t *m, const pthread_mutexattr_t *a);
int vs_mutex_destroy(pthread_mutex_t *m);
int vs_mutex_lock(pthread_mutex_t *m);
int vs_mutex_trylock(pthread_mutex_t *m);
int vs_mutex_unlock(pthread_mutex_t *m);
int vs_cond_init(pthread_cond_t *c, const pthread_condattr_t *a);
int vs_cond_destroy(pthread_cond_t *c);
int vs_cond_wait(pthread_cond_t *c, pthread_mutex_t *m);
int vs_cond_signal(pthread_cond_t *c);
int vs_cond_broadcast(pthread_cond_t *c);

#ifdef __cplusplus
}
#endif

#ifndef VS_NO_REDIRECT
#define pthread_create vs_pthread_create
#define pthread_join vs_pthread_join
#define pthread_mutex_init vs_mutex_init
#define pthread_mutex_destroy vs_mutex_destroy
#define pthread_mutex_lock vs_mutex_lock
#define pthread_mutex_trylock vs_mutex_trylock
#define pthread_mutex_unlock vs_mutex_unlock
#define pthread_cond_init vs_cond_init
#define pthread_cond_destroy vs_cond_destroy
#define pthread_cond_wait vs_cond_wait
#define pthread_cond_signal vs_cond_signal
#define pthread_cond_broadcast vs_cond_broadcast
#endif

#endif
