/*
 * shim_fault.c — single-fault injection for C13 (fail-stop).
 *
 * Two families of faults, both configured through environment variables and both reporting to a side file:
 *
 *  (i) system-call faults.  The k-th call of a class fails:
 *        write  : write, pwrite, pwrite64          read  : read, pread, pread64
 *        trunc  : ftruncate, ftruncate64            open  : open, open64, openat, openat64
 *        lseek  : lseek, lseek64                    fsync : fsync          close : close
 *        fsop   : chdir, mkdir, mknod, symlink, fstat, fstatat, dup, lsetxattr, utimensat, fchownat, fchmodat,
 *                 readlinkat, llistxattr, lgetxattr, realpath, opendir, fdopendir, readdir (NULL with errno set),
 *                 fflush  (the other file system calls the project makes)
 *        mmap   : mmap (MAP_FAILED / ENOMEM) — the pool allocator of /repo's default configuration (mempool.c)
 *      Build modes:
 *        -DVF_WRAP     link-time wrappers (__wrap_X / __real_X) for ASan builds of the tools:
 *                      link with  -Wl,--wrap=X  for every X in VF_WRAP_SYMS (tools/checks/c13.py)
 *        -DVF_PRELOAD  LD_PRELOAD interposers (dlsym(RTLD_NEXT)) for un-instrumented builds
 *      Only calls made by the project's own objects are affected in VF_WRAP mode (libc's stdio and the codec
 *      libraries keep their direct references), which is what the property quantifies over.
 *
 *  (ii) allocation faults.  The project sources are compiled with
 *        -Dmalloc=vf_malloc -Dcalloc=vf_calloc -Drealloc=vf_realloc -Dstrdup=vf_strdup -Dstrndup=vf_strndup
 *      and the k-th call (of class `alloc` = all five, or of one of them) returns NULL with errno = ENOMEM.
 *      Third-party libraries are untouched.
 *
 * Environment:
 *   VF_REPORT  path of the side file (required for any reporting)
 *   VF_CLASS   write|read|trunc|open|lseek|fsync|close|fsop|alloc|malloc|calloc|realloc|strdup   (absent: count only)
 *   VF_K       1-based index of the failing call among the calls of that class that match VF_SIDE
 *   VF_SIDE    out|in|any      which descriptors/paths count (default any).  A descriptor/path is `out` when
 *              its /proc/self/fd link (or the path being opened) starts with $VF_OUT, or when it is fd 1 and
 *              VF_OUT_FD1=1; everything else that is not fd 2 is `in`.  fd 2 is never touched.
 *   VF_KIND    ENOSPC|EIO|EINTR   (EINTR: the k-th call fails with EINTR, the next call of the class with EIO)
 *              EOF|SHORT  (class read only) *truncated input*: the k-th read-like call meets the end of the file —
 *              EOF: it returns 0; SHORT: it delivers only VF_SHORT bytes (default: half of the request, at least 1).
 *              From then on the descriptor stays at end-of-file (read returns 0; pread delivers nothing at or beyond
 *              the cut).  The side file gets `cut <fd target> <offset>`: the length the input appears to have.
 *   VF_SKEL    comma separated hexadecimal addresses of the *skeleton functions* (main, sqfs_writer_init, …; the
 *              binary is linked -no-pie, the runner takes them from `nm`).  The project is compiled with
 *              -finstrument-functions; every entry of a function whose *direct caller* is a skeleton function is
 *              logged in order (main thread only), as are the libc calls chdir / unlink / realpath made by project
 *              code (pseudo entries).  When the fault fires the side file gets `nsites <entries logged so far>` and
 *              `stack <addresses of the instrumented functions active, outermost first>`.
 *   VF_SITES   path of the site log, written at exit: one line `<caller> <callee>` per entry (hex), or
 *              `<caller> @<name>` for a pseudo entry (@chdir:ok, @chdir:fail, @unlink:hit, @unlink:miss, @realpath:ok …;
 *              hit = the path resolves, from the current directory, to $VF_OUT)
 *   VF_OUT     path prefix of the output (file for the packers, directory for rdsquashfs)
 *   VF_OUT_FD1 1 when standard output is the tool's output (sqfs2tar, rdsquashfs -c)
 *   VF_TRACE   (counting runs) path of a call-site trace: one line `<class> <side> <k> <site hash>` per call, where k is
 *              the call's index within (class, side) and the hash covers the six innermost return addresses — used
 *              by the runner to stratify large enumerations by call site
 *
 * Side file (rewritten when the fault fires and again at exit):
 *   count <class> <side> <n>      per class and side, calls seen
 *   fired <0|1> [<class> <function> errno=<e>]
 *   bt <hex addresses, innermost first>          (only when fired; resolve with addr2line -f -i -e <tool>)
 *   post <n>      write/truncate calls on the output side after the fault fired (first-failure-stops statistic)
 *   exit <0|1>    1 when the process reached its atexit handlers
 *   nsites / stack / cut          see VF_SKEL and VF_KIND above
 */
#define _GNU_SOURCE
#include <errno.h>
#include <execinfo.h>
#include <fcntl.h>
#include <stdarg.h>
#include <stdio.h>
#include <stdlib.h>
#include <string.h>
#include <sys/types.h>
#include <sys/stat.h>
#include <unistd.h>
#ifdef VF_PRELOAD
#include <dlfcn.h>
#endif

/* the renames must not apply to this file */
#undef malloc
#undef calloc
#undef realloc
#undef strdup
#undef strndup

enum { C_WRITE, C_READ, C_TRUNC, C_OPEN, C_LSEEK, C_FSYNC, C_CLOSE, C_FSOP, C_MALLOC, C_CALLOC, C_REALLOC, C_STRDUP, C_MMAP, C_NCLASS };
static const char *const cname[C_NCLASS] = { "write", "read", "trunc", "open", "lseek", "fsync", "close", "fsop",
					     "malloc", "calloc", "realloc", "strdup", "mmap" };
enum { S_IN, S_OUT, S_NSIDE };

static long cnt[C_NCLASS][S_NSIDE];
static long match_cnt;              /* calls that matched (class, side) so far */
static long post_out_writes;        /* write/trunc calls on the output side after the fault fired */
static int cfg_done, cfg_class = -1, cfg_allalloc, cfg_side = -1 /* -1 any */, cfg_kind = EIO, cfg_eintr;
static long cfg_k;
static int fired, pending_eio, reached_exit;
static int armed = 1;               /* harnesses disarm the shim around their own set-up (vf_arm) */
static char fired_fn[32];
static int fired_errno;
static void *bt[48];
static int bt_n;
static const char *report_path, *out_prefix, *trace_path;
#define VF_TRACE_MAX 400000
static struct { unsigned char cls, side; unsigned k; unsigned long h; } trace[VF_TRACE_MAX];
static long trace_n;
static int out_fd1;

/* ---- truncated input (VF_KIND=EOF|SHORT) */
static int cfg_cut;                 /* 1 EOF, 2 SHORT */
static long cfg_short = -1;         /* VF_SHORT: bytes the cut call still delivers (-1: half of the request) */
static int cut_fd = -1;             /* descriptor that is at end-of-file from now on */
static long long cut_off = -1;      /* apparent length of that input */
static char cut_path[1024];
#define VF_FD_MAX 4096
static long long rd_pos[VF_FD_MAX]; /* bytes delivered so far by read() per descriptor (sequential inputs) */

/* ---- call-site log (-finstrument-functions + VF_SKEL) */
#define VF_STK_MAX 256
static __thread void *stk[VF_STK_MAX];
static __thread int stk_depth;
static __thread int thr_kind;       /* 0 unknown, 1 main thread, 2 other */
static int have_main;
static void *skel[32];
static int nskel;
static const char *sites_path;
#define VF_SITELOG_MAX 400000
static struct { void *parent; void *callee; } sitelog[VF_SITELOG_MAX];
static long sitelog_n;
static void *fire_stack[VF_STK_MAX];
static int fire_depth = -1;
static long fire_nsites = -1;
static int fire_thread;
enum { P_CHDIR_OK = 1, P_CHDIR_FAIL, P_UNLINK_HIT, P_UNLINK_MISS, P_UNLINK_FAIL, P_REALPATH_OK, P_REALPATH_FAIL,
       P_FFLUSH_OK, P_FFLUSH_FAIL, P_NPSEUDO };
static const char *const pseudo_name[P_NPSEUDO] = { "?", "chdir:ok", "chdir:fail", "unlink:hit", "unlink:miss", "unlink:fail",
						     "realpath:ok", "realpath:fail", "fflush:ok", "fflush:fail" };

static void vf_report(void)
{
	char buf[12288];
	int n = 0, c, s, i, fd;

	if (report_path == NULL)
		return;
	for (c = 0; c < C_NCLASS; ++c)
		for (s = 0; s < S_NSIDE; ++s)
			n += snprintf(buf + n, sizeof(buf) - n, "count %s %s %ld\n", cname[c], s == S_OUT ? "out" : "in", cnt[c][s]);
	if (fired)
		n += snprintf(buf + n, sizeof(buf) - n, "fired 1 %s %s errno=%d\n", cname[cfg_class < 0 ? 0 : cfg_class], fired_fn, fired_errno);
	else
		n += snprintf(buf + n, sizeof(buf) - n, "fired 0\n");
	if (bt_n > 0) {
		n += snprintf(buf + n, sizeof(buf) - n, "bt");
		for (i = 0; i < bt_n && n < (int)sizeof(buf) - 32; ++i)
			n += snprintf(buf + n, sizeof(buf) - n, " %lx", (unsigned long)bt[i]);
		n += snprintf(buf + n, sizeof(buf) - n, "\n");
	}
	if (fire_nsites >= 0) {
		n += snprintf(buf + n, sizeof(buf) - n, "nsites %ld %d\n", fire_nsites, fire_thread);
		n += snprintf(buf + n, sizeof(buf) - n, "stack");
		for (i = 0; i < fire_depth && i < VF_STK_MAX && n < (int)sizeof(buf) - 1200; ++i)
			n += snprintf(buf + n, sizeof(buf) - n, " %lx", (unsigned long)fire_stack[i]);
		n += snprintf(buf + n, sizeof(buf) - n, "\n");
	}
	if (cut_fd >= 0 || cut_off >= 0)
		n += snprintf(buf + n, sizeof(buf) - n, "cut %s %lld\n", cut_path[0] ? cut_path : "?", cut_off);
	n += snprintf(buf + n, sizeof(buf) - n, "post %ld\n", post_out_writes);
	n += snprintf(buf + n, sizeof(buf) - n, "exit %d\n", reached_exit);
	/* raw syscalls through libc's un-wrapped entry points: in VF_WRAP mode this file is not compiled with the
	   renames and calls open/write/close directly, which the linker would wrap — so use the __real_ names */
#ifdef VF_WRAP
	{
		extern int __real_open(const char *, int, ...);
		extern ssize_t __real_write(int, const void *, size_t);
		extern int __real_close(int);
		fd = __real_open(report_path, O_WRONLY | O_CREAT | O_TRUNC, 0644);
		if (fd >= 0) {
			ssize_t r = __real_write(fd, buf, n);
			(void)r;
			__real_close(fd);
		}
	}
#else
	{
		FILE *f = fopen(report_path, "w");
		if (f != NULL) {
			fwrite(buf, 1, n, f);
			fclose(f);
		}
	}
	(void)fd;
#endif
}

static void vf_write_trace(void)
{
	FILE *f;
	long i, n = trace_n < VF_TRACE_MAX ? trace_n : VF_TRACE_MAX;

	if (trace_path == NULL)
		return;
	armed = 0;                       /* stdio below goes through the wrapped calls in VF_WRAP mode */
	f = fopen(trace_path, "w");
	if (f == NULL)
		return;
	for (i = 0; i < n; ++i)
		fprintf(f, "%s %s %u %lx\n", cname[trace[i].cls], trace[i].side == S_OUT ? "out" : "in", trace[i].k, trace[i].h);
	fclose(f);
}

static void vf_write_sites(void)
{
	FILE *f;
	long i, n = sitelog_n < VF_SITELOG_MAX ? sitelog_n : VF_SITELOG_MAX;

	if (sites_path == NULL)
		return;
	armed = 0;
	f = fopen(sites_path, "w");
	if (f == NULL)
		return;
	for (i = 0; i < n; ++i) {
		unsigned long c = (unsigned long)sitelog[i].callee;

		if (c < P_NPSEUDO)
			fprintf(f, "%lx @%s\n", (unsigned long)sitelog[i].parent, pseudo_name[c]);
		else
			fprintf(f, "%lx %lx\n", (unsigned long)sitelog[i].parent, c);
	}
	if (sitelog_n > VF_SITELOG_MAX)
		fprintf(f, "overflow %ld\n", sitelog_n);
	fprintf(f, "end %ld\n", n);
	fclose(f);
}

static void vf_atexit(void)
{
	reached_exit = 1;
	vf_report();
	vf_write_trace();
	vf_write_sites();
}

static void vf_init(void)
{
	const char *s;
	int c;

	if (cfg_done)
		return;
	cfg_done = 1;
	report_path = getenv("VF_REPORT");
	trace_path = getenv("VF_TRACE");
	sites_path = getenv("VF_SITES");
	s = getenv("VF_SKEL");
	while (s != NULL && *s != '\0' && nskel < 32) {
		char *end;
		unsigned long a = strtoul(s, &end, 16);

		if (end == s)
			break;
		skel[nskel++] = (void *)a;
		s = (*end == ',') ? end + 1 : end;
	}
	s = getenv("VF_SHORT");
	if (s != NULL)
		cfg_short = atol(s);
	out_prefix = getenv("VF_OUT");
	if (out_prefix != NULL && out_prefix[0] == '\0')
		out_prefix = NULL;
	s = getenv("VF_OUT_FD1");
	out_fd1 = (s != NULL && s[0] == '1');
	s = getenv("VF_CLASS");
	if (s != NULL) {
		if (strcmp(s, "alloc") == 0) {
			cfg_class = C_MALLOC;
			cfg_allalloc = 1;
		} else {
			for (c = 0; c < C_NCLASS; ++c)
				if (strcmp(s, cname[c]) == 0)
					cfg_class = c;
		}
	}
	s = getenv("VF_K");
	cfg_k = s ? atol(s) : 0;
	s = getenv("VF_SIDE");
	if (s != NULL && strcmp(s, "out") == 0)
		cfg_side = S_OUT;
	else if (s != NULL && strcmp(s, "in") == 0)
		cfg_side = S_IN;
	s = getenv("VF_KIND");
	if (s != NULL && strcmp(s, "ENOSPC") == 0)
		cfg_kind = ENOSPC;
	else if (s != NULL && strcmp(s, "EINTR") == 0) {
		cfg_kind = EINTR;
		cfg_eintr = 1;
	} else if (s != NULL && strcmp(s, "EOF") == 0) {
		cfg_kind = EIO;
		cfg_cut = 1;
	} else if (s != NULL && strcmp(s, "SHORT") == 0) {
		cfg_kind = EIO;
		cfg_cut = 2;
	} else
		cfg_kind = EIO;
	atexit(vf_atexit);
}

#ifdef VF_WRAP
extern char *__real_realpath(const char *, char *);
#define SHIM_REALPATH __real_realpath
#else
#define SHIM_REALPATH realpath
#endif

/* absolute, normalised form of a path whose last component need not exist */
static const char *norm_path(const char *path, char *buf, size_t bufsz)
{
	char dir[4096], res[4096];
	const char *base = strrchr(path, '/');
	size_t dl;

	if (path[0] == '/' && strstr(path, "/../") == NULL && strstr(path, "/./") == NULL)
		return path;
	if (base == NULL) {
		dir[0] = '.';
		dir[1] = '\0';
		base = path;
	} else {
		dl = (size_t)(base - path);
		if (dl == 0)
			dl = 1;
		if (dl >= sizeof(dir))
			return path;
		memcpy(dir, path, dl);
		dir[dl] = '\0';
		base += 1;
	}
	if (SHIM_REALPATH(dir, res) == NULL)
		return path;
	snprintf(buf, bufsz, "%s/%s", strcmp(res, "/") == 0 ? "" : res, base);
	return buf;
}

static int side_of_path(const char *path)
{
	char abs[8192];

	if (out_prefix == NULL || path == NULL)
		return S_IN;
	path = norm_path(path, abs, sizeof(abs));    /* relative names are resolved against the *current* directory */
	if (strncmp(path, out_prefix, strlen(out_prefix)) == 0)
		return S_OUT;
	return S_IN;
}

static int side_of_fd(int fd)
{
	char link[64], target[4096];
	ssize_t n;

	if (fd == 1 && out_fd1)
		return S_OUT;
	if (out_prefix == NULL && !out_fd1)
		return S_IN;
	snprintf(link, sizeof(link), "/proc/self/fd/%d", fd);
	n = readlink(link, target, sizeof(target) - 1);
	if (n <= 0)
		return S_IN;
	target[n] = '\0';
	if (out_fd1) {                           /* a dup() of standard output (ostream_open_stdout) */
		char t1[4096];
		ssize_t m = readlink("/proc/self/fd/1", t1, sizeof(t1) - 1);
		if (m > 0) {
			t1[m] = '\0';
			if (strcmp(t1, target) == 0)
				return S_OUT;
		}
	}
	return side_of_path(target);
}

/* returns 0: let the call through; otherwise the errno to fail with */
static int vf_decide(int cls, int side, const char *fn)
{
	int is_alloc = cls >= C_MALLOC, match;

	vf_init();
	if (!armed)
		return 0;
	{
		long k = __atomic_add_fetch(&cnt[cls][side], 1, __ATOMIC_SEQ_CST);

		if (trace_path != NULL) {
			long slot = __atomic_fetch_add(&trace_n, 1, __ATOMIC_SEQ_CST);

			if (slot < VF_TRACE_MAX) {
				void *fr[8];
				int i, n = backtrace(fr, 8);
				unsigned long h = 1469598103934665603UL;

				for (i = 1; i < n && i < 7; ++i)
					h = (h ^ (unsigned long)fr[i]) * 1099511628211UL;
				trace[slot].cls = (unsigned char)cls;
				trace[slot].side = (unsigned char)side;
				trace[slot].k = (unsigned)k;
				trace[slot].h = h;
			}
		}
	}
	if (fired && !pending_eio && side == S_OUT && (cls == C_WRITE || cls == C_TRUNC))
		__atomic_add_fetch(&post_out_writes, 1, __ATOMIC_SEQ_CST);
	if (cfg_class < 0 || cfg_k <= 0)
		return 0;
	match = cfg_allalloc ? is_alloc : (cls == cfg_class);
	if (!match || (cfg_side >= 0 && side != cfg_side))
		return 0;
	if (pending_eio) {                       /* second half of EINTR-then-error */
		pending_eio = 0;
		return EIO;
	}
	if (fired)
		return 0;
	if (__atomic_add_fetch(&match_cnt, 1, __ATOMIC_SEQ_CST) != cfg_k)
		return 0;
	fired = 1;
	fired_errno = is_alloc ? ENOMEM : cfg_kind;
	snprintf(fired_fn, sizeof(fired_fn), "%s", fn);
	if (!is_alloc)
		cfg_class = cls;
	bt_n = backtrace(bt, 48);
	{
		int d = stk_depth < VF_STK_MAX ? stk_depth : VF_STK_MAX;

		memcpy(fire_stack, stk, d * sizeof(stk[0]));
		fire_depth = d;
		fire_nsites = sitelog_n;
		fire_thread = thr_kind;
	}
	if (cfg_eintr && !is_alloc)
		pending_eio = 1;
	vf_report();
	return fired_errno;
}

/* for in-process harnesses (h_c13_bp.c) */
int vf_fired(void)
{
	return fired;
}

void vf_arm(int on)
{
	vf_init();
	armed = on;
}

/* ------------------------------------------------------------------ call-site log */

static int is_skel(void *fn)
{
	int i;

	for (i = 0; i < nskel; ++i)
		if (skel[i] == fn)
			return 1;
	return 0;
}

static void site_log(void *parent, void *callee)
{
	long slot = __atomic_fetch_add(&sitelog_n, 1, __ATOMIC_SEQ_CST);

	if (slot < VF_SITELOG_MAX) {
		sitelog[slot].parent = parent;
		sitelog[slot].callee = callee;
	}
}

void __cyg_profile_func_enter(void *this_fn, void *call_site)
{
	(void)call_site;
	if (thr_kind == 0) {
		vf_init();
		if (__atomic_exchange_n(&have_main, 1, __ATOMIC_SEQ_CST) == 0)
			thr_kind = 1;
		else
			thr_kind = 2;
	}
	if (stk_depth < VF_STK_MAX)
		stk[stk_depth] = this_fn;
	stk_depth += 1;
	if (nskel > 0 && thr_kind == 1 && armed && stk_depth >= 2 && stk_depth <= VF_STK_MAX && is_skel(stk[stk_depth - 2]))
		site_log(stk[stk_depth - 2], this_fn);
}

void __cyg_profile_func_exit(void *this_fn, void *call_site)
{
	(void)this_fn;
	(void)call_site;
	if (stk_depth > 0)
		stk_depth -= 1;
}

/* a libc call made directly by project code */
static void site_pseudo(int id)
{
	if (thr_kind == 1 && armed && stk_depth >= 1 && stk_depth <= VF_STK_MAX)
		site_log(stk[stk_depth - 1], (void *)(unsigned long)id);
}

/* ------------------------------------------------------------------ allocation wrappers */

void *vf_malloc(size_t n)
{
	if (vf_decide(C_MALLOC, S_IN, "malloc")) {
		errno = ENOMEM;
		return NULL;
	}
	return malloc(n);
}

void *vf_calloc(size_t a, size_t b)
{
	if (vf_decide(C_CALLOC, S_IN, "calloc")) {
		errno = ENOMEM;
		return NULL;
	}
	return calloc(a, b);
}

void *vf_realloc(void *p, size_t n)
{
	if (vf_decide(C_REALLOC, S_IN, "realloc")) {
		errno = ENOMEM;
		return NULL;              /* p stays valid, as the standard says */
	}
	return realloc(p, n);
}

char *vf_strdup(const char *s)
{
	if (vf_decide(C_STRDUP, S_IN, "strdup")) {
		errno = ENOMEM;
		return NULL;
	}
	return strdup(s);
}

char *vf_strndup(const char *s, size_t n)
{
	if (vf_decide(C_STRDUP, S_IN, "strndup")) {
		errno = ENOMEM;
		return NULL;
	}
	return strndup(s, n);
}

/* ------------------------------------------------------------------ system-call wrappers */

#if defined(VF_WRAP)
#define NAME(x) __wrap_##x
#define REAL(x) __real_##x
#define DECL_REAL(ret, x, args) extern ret __real_##x args;
#define GET_REAL(x)
#elif defined(VF_PRELOAD)
#define NAME(x) x
#define REAL(x) real_##x
#define DECL_REAL(ret, x, args) static ret (*real_##x) args;
#define GET_REAL(x) do { if (real_##x == NULL) *(void **)&real_##x = dlsym(RTLD_NEXT, #x); } while (0)
#endif

#if defined(VF_WRAP) || defined(VF_PRELOAD)

#define FAIL_FD(cls, fd, fn) do { \
		int e_; \
		if ((fd) != 2 && (e_ = vf_decide(cls, side_of_fd(fd), fn)) != 0) { errno = e_; return -1; } \
	} while (0)

DECL_REAL(ssize_t, write, (int, const void *, size_t))
ssize_t NAME(write)(int fd, const void *b, size_t n)
{
	GET_REAL(write);
	FAIL_FD(C_WRITE, fd, "write");
	return REAL(write)(fd, b, n);
}

DECL_REAL(ssize_t, pwrite, (int, const void *, size_t, off_t))
ssize_t NAME(pwrite)(int fd, const void *b, size_t n, off_t o)
{
	GET_REAL(pwrite);
	FAIL_FD(C_WRITE, fd, "pwrite");
	return REAL(pwrite)(fd, b, n, o);
}

DECL_REAL(ssize_t, pwrite64, (int, const void *, size_t, off64_t))
ssize_t NAME(pwrite64)(int fd, const void *b, size_t n, off64_t o)
{
	GET_REAL(pwrite64);
	FAIL_FD(C_WRITE, fd, "pwrite64");
	return REAL(pwrite64)(fd, b, n, o);
}

/* truncated input: the call at which the fault fires meets the end of the file (see VF_KIND=EOF|SHORT) */
static void cut_note(int fd, long long off)
{
	char link[64];
	ssize_t m;

	cut_fd = fd;
	cut_off = off;
	snprintf(link, sizeof(link), "/proc/self/fd/%d", fd);
	m = readlink(link, cut_path, sizeof(cut_path) - 1);
	cut_path[m > 0 ? m : 0] = '\0';
	vf_report();
}

static size_t cut_deliver(size_t n)
{
	if (cfg_cut != 2)
		return 0;
	if (cfg_short >= 0)
		return (size_t)cfg_short < n ? (size_t)cfg_short : (n > 0 ? n - 1 : 0);
	return n > 1 ? n / 2 : 0;
}

#define SEQ_READ(fn) \
	int e_; ssize_t r_; \
	GET_REAL(fn); \
	if (fd == cut_fd) return 0; \
	if (fd != 2 && (e_ = vf_decide(C_READ, side_of_fd(fd), #fn)) != 0) { \
		if (cfg_cut) { \
			size_t d_ = cut_deliver(n); \
			r_ = d_ > 0 ? REAL(fn)(fd, b, d_) : 0; \
			if (r_ < 0) r_ = 0; \
			cut_note(fd, (fd >= 0 && fd < VF_FD_MAX ? rd_pos[fd] : 0) + r_); \
			return r_; \
		} \
		errno = e_; return -1; \
	} \
	r_ = REAL(fn)(fd, b, n); \
	if (r_ > 0 && fd >= 0 && fd < VF_FD_MAX) rd_pos[fd] += r_; \
	return r_;

#define POS_READ(fn) \
	int e_; ssize_t r_; \
	GET_REAL(fn); \
	if (fd == cut_fd) { \
		if ((long long)o >= cut_off) return 0; \
		if ((long long)(o + n) > cut_off) n = (size_t)(cut_off - o); \
		return REAL(fn)(fd, b, n, o); \
	} \
	if (fd != 2 && (e_ = vf_decide(C_READ, side_of_fd(fd), #fn)) != 0) { \
		if (cfg_cut) { \
			size_t d_ = cut_deliver(n); \
			r_ = d_ > 0 ? REAL(fn)(fd, b, d_, o) : 0; \
			if (r_ < 0) r_ = 0; \
			cut_note(fd, (long long)o + r_); \
			return r_; \
		} \
		errno = e_; return -1; \
	} \
	return REAL(fn)(fd, b, n, o);

DECL_REAL(ssize_t, read, (int, void *, size_t))
ssize_t NAME(read)(int fd, void *b, size_t n)
{
	SEQ_READ(read)
}

DECL_REAL(ssize_t, pread, (int, void *, size_t, off_t))
ssize_t NAME(pread)(int fd, void *b, size_t n, off_t o)
{
	POS_READ(pread)
}

DECL_REAL(ssize_t, pread64, (int, void *, size_t, off64_t))
ssize_t NAME(pread64)(int fd, void *b, size_t n, off64_t o)
{
	POS_READ(pread64)
}

DECL_REAL(int, ftruncate, (int, off_t))
int NAME(ftruncate)(int fd, off_t o)
{
	GET_REAL(ftruncate);
	FAIL_FD(C_TRUNC, fd, "ftruncate");
	return REAL(ftruncate)(fd, o);
}

DECL_REAL(int, ftruncate64, (int, off64_t))
int NAME(ftruncate64)(int fd, off64_t o)
{
	GET_REAL(ftruncate64);
	FAIL_FD(C_TRUNC, fd, "ftruncate64");
	return REAL(ftruncate64)(fd, o);
}

DECL_REAL(off_t, lseek, (int, off_t, int))
off_t NAME(lseek)(int fd, off_t o, int w)
{
	GET_REAL(lseek);
	FAIL_FD(C_LSEEK, fd, "lseek");
	return REAL(lseek)(fd, o, w);
}

DECL_REAL(off64_t, lseek64, (int, off64_t, int))
off64_t NAME(lseek64)(int fd, off64_t o, int w)
{
	GET_REAL(lseek64);
	FAIL_FD(C_LSEEK, fd, "lseek64");
	return REAL(lseek64)(fd, o, w);
}

DECL_REAL(int, fsync, (int))
int NAME(fsync)(int fd)
{
	GET_REAL(fsync);
	FAIL_FD(C_FSYNC, fd, "fsync");
	return REAL(fsync)(fd);
}

DECL_REAL(int, close, (int))
int NAME(close)(int fd)
{
	int e;

	GET_REAL(close);
	if (fd >= 0 && fd < VF_FD_MAX)
		rd_pos[fd] = 0;
	if (fd == cut_fd)
		cut_fd = -2;              /* the report keeps cut_off / cut_path */
	if (fd != 2 && (e = vf_decide(C_CLOSE, side_of_fd(fd), "close")) != 0) {
		/* as on Linux: the descriptor is released even though close reports an error */
		if (e != EINTR)
			REAL(close)(fd);
		errno = e;
		return -1;
	}
	return REAL(close)(fd);
}

#define OPEN_BODY(fn, realcall) \
	int e_; mode_t mode = 0; \
	if (flags & (O_CREAT | O_TMPFILE)) { va_list ap; va_start(ap, flags); mode = va_arg(ap, mode_t); va_end(ap); } \
	if ((e_ = vf_decide(C_OPEN, side_of_path(path), fn)) != 0) { errno = e_; return -1; } \
	return realcall;

DECL_REAL(int, open, (const char *, int, ...))
int NAME(open)(const char *path, int flags, ...)
{
	GET_REAL(open);
	OPEN_BODY("open", REAL(open)(path, flags, mode))
}

DECL_REAL(int, open64, (const char *, int, ...))
int NAME(open64)(const char *path, int flags, ...)
{
	GET_REAL(open64);
	OPEN_BODY("open64", REAL(open64)(path, flags, mode))
}

DECL_REAL(int, openat, (int, const char *, int, ...))
int NAME(openat)(int dfd, const char *path, int flags, ...)
{
	GET_REAL(openat);
	OPEN_BODY("openat", REAL(openat)(dfd, path, flags, mode))
}

DECL_REAL(int, openat64, (int, const char *, int, ...))
int NAME(openat64)(int dfd, const char *path, int flags, ...)
{
	GET_REAL(openat64);
	OPEN_BODY("openat64", REAL(openat64)(dfd, path, flags, mode))
}

/* ------------------------------------------------------------------ other file system calls (class fsop) */
#include <sys/xattr.h>
#include <sys/time.h>

#define FSOP_PATH(path, fn, failret) do { \
		int e_; \
		if ((e_ = vf_decide(C_FSOP, side_of_path(path), fn)) != 0) { errno = e_; return failret; } \
	} while (0)
#define FSOP_FD(fd, fn, failret) do { \
		int e_; \
		if ((e_ = vf_decide(C_FSOP, side_of_fd(fd), fn)) != 0) { errno = e_; return failret; } \
	} while (0)

DECL_REAL(int, chdir, (const char *))
int NAME(chdir)(const char *path)
{
	int e, r;

	GET_REAL(chdir);
	if ((e = vf_decide(C_FSOP, side_of_path(path), "chdir")) != 0) {
		site_pseudo(P_CHDIR_FAIL);
		errno = e;
		return -1;
	}
	r = REAL(chdir)(path);
	site_pseudo(r == 0 ? P_CHDIR_OK : P_CHDIR_FAIL);
	return r;
}

DECL_REAL(int, unlink, (const char *))
int NAME(unlink)(const char *path)
{
	int hit, r;

	GET_REAL(unlink);
	vf_init();
	hit = side_of_path(path) == S_OUT;       /* resolved from the *current* directory */
	r = REAL(unlink)(path);
	site_pseudo(r != 0 ? (hit ? P_UNLINK_FAIL : P_UNLINK_MISS) : (hit ? P_UNLINK_HIT : P_UNLINK_MISS));
	return r;
}

DECL_REAL(char *, realpath, (const char *, char *))
char *NAME(realpath)(const char *path, char *resolved)
{
	int e;
	char *r;

	GET_REAL(realpath);
	if ((e = vf_decide(C_FSOP, side_of_path(path), "realpath")) != 0) {
		site_pseudo(P_REALPATH_FAIL);
		errno = e;
		return NULL;
	}
	r = REAL(realpath)(path, resolved);
	site_pseudo(r != NULL ? P_REALPATH_OK : P_REALPATH_FAIL);
	return r;
}

DECL_REAL(int, mkdir, (const char *, mode_t))
int NAME(mkdir)(const char *path, mode_t m)
{
	GET_REAL(mkdir);
	FSOP_PATH(path, "mkdir", -1);
	return REAL(mkdir)(path, m);
}

DECL_REAL(int, mknod, (const char *, mode_t, dev_t))
int NAME(mknod)(const char *path, mode_t m, dev_t d)
{
	GET_REAL(mknod);
	FSOP_PATH(path, "mknod", -1);
	return REAL(mknod)(path, m, d);
}

DECL_REAL(int, symlink, (const char *, const char *))
int NAME(symlink)(const char *target, const char *path)
{
	GET_REAL(symlink);
	FSOP_PATH(path, "symlink", -1);
	return REAL(symlink)(target, path);
}

DECL_REAL(int, fstat, (int, struct stat *))
int NAME(fstat)(int fd, struct stat *sb)
{
	GET_REAL(fstat);
	FSOP_FD(fd, "fstat", -1);
	return REAL(fstat)(fd, sb);
}

DECL_REAL(int, fstatat, (int, const char *, struct stat *, int))
int NAME(fstatat)(int dfd, const char *path, struct stat *sb, int fl)
{
	GET_REAL(fstatat);
	FSOP_PATH(path, "fstatat", -1);
	return REAL(fstatat)(dfd, path, sb, fl);
}

DECL_REAL(int, dup, (int))
int NAME(dup)(int fd)
{
	GET_REAL(dup);
	if (fd != 2)
		FSOP_FD(fd, "dup", -1);
	return REAL(dup)(fd);
}

DECL_REAL(int, lsetxattr, (const char *, const char *, const void *, size_t, int))
int NAME(lsetxattr)(const char *path, const char *k, const void *v, size_t n, int fl)
{
	GET_REAL(lsetxattr);
	FSOP_PATH(path, "lsetxattr", -1);
	return REAL(lsetxattr)(path, k, v, n, fl);
}

DECL_REAL(int, utimensat, (int, const char *, const struct timespec *, int))
int NAME(utimensat)(int dfd, const char *path, const struct timespec *ts, int fl)
{
	GET_REAL(utimensat);
	FSOP_PATH(path, "utimensat", -1);
	return REAL(utimensat)(dfd, path, ts, fl);
}

DECL_REAL(int, fchownat, (int, const char *, uid_t, gid_t, int))
int NAME(fchownat)(int dfd, const char *path, uid_t u, gid_t g, int fl)
{
	GET_REAL(fchownat);
	FSOP_PATH(path, "fchownat", -1);
	return REAL(fchownat)(dfd, path, u, g, fl);
}

DECL_REAL(int, fchmodat, (int, const char *, mode_t, int))
int NAME(fchmodat)(int dfd, const char *path, mode_t m, int fl)
{
	GET_REAL(fchmodat);
	FSOP_PATH(path, "fchmodat", -1);
	return REAL(fchmodat)(dfd, path, m, fl);
}

DECL_REAL(ssize_t, readlinkat, (int, const char *, char *, size_t))
ssize_t NAME(readlinkat)(int dfd, const char *path, char *b, size_t n)
{
	GET_REAL(readlinkat);
	FSOP_PATH(path, "readlinkat", -1);
	return REAL(readlinkat)(dfd, path, b, n);
}

DECL_REAL(ssize_t, llistxattr, (const char *, char *, size_t))
ssize_t NAME(llistxattr)(const char *path, char *b, size_t n)
{
	GET_REAL(llistxattr);
	FSOP_PATH(path, "llistxattr", -1);
	return REAL(llistxattr)(path, b, n);
}

DECL_REAL(ssize_t, lgetxattr, (const char *, const char *, void *, size_t))
ssize_t NAME(lgetxattr)(const char *path, const char *k, void *b, size_t n)
{
	GET_REAL(lgetxattr);
	FSOP_PATH(path, "lgetxattr", -1);
	return REAL(lgetxattr)(path, k, b, n);
}

/* ------------------------------------------------------------------ directory reading (class fsop) */
#include <dirent.h>
#include <sys/mman.h>

DECL_REAL(DIR *, opendir, (const char *))
DIR *NAME(opendir)(const char *path)
{
	GET_REAL(opendir);
	FSOP_PATH(path, "opendir", NULL);
	return REAL(opendir)(path);
}

DECL_REAL(DIR *, fdopendir, (int))
DIR *NAME(fdopendir)(int fd)
{
	GET_REAL(fdopendir);
	FSOP_FD(fd, "fdopendir", NULL);
	return REAL(fdopendir)(fd);
}

/* a failing readdir returns NULL with errno set (the end of the directory: NULL, errno untouched) */
DECL_REAL(struct dirent *, readdir, (DIR *))
struct dirent *NAME(readdir)(DIR *d)
{
	GET_REAL(readdir);
	FSOP_FD(dirfd(d), "readdir", NULL);
	return REAL(readdir)(d);
}

DECL_REAL(struct dirent64 *, readdir64, (DIR *))
struct dirent64 *NAME(readdir64)(DIR *d)
{
	GET_REAL(readdir64);
	FSOP_FD(dirfd(d), "readdir64", NULL);
	return REAL(readdir64)(d);
}

/* ------------------------------------------------------------------ stdio: the explicit flush of standard output
   (project code that calls fflush at all is code that wants to know whether its output arrived) */
DECL_REAL(int, fflush, (FILE *))
int NAME(fflush)(FILE *f)
{
	int e, r;

	GET_REAL(fflush);
	if (f != stdout)
		return REAL(fflush)(f);
	if ((e = vf_decide(C_FSOP, side_of_fd(1), "fflush")) != 0) {
		site_pseudo(P_FFLUSH_FAIL);
		errno = e;
		return EOF;
	}
	r = REAL(fflush)(f);
	site_pseudo(r == 0 && !ferror(f) ? P_FFLUSH_OK : P_FFLUSH_FAIL);
	return r;
}

/* ------------------------------------------------------------------ the pool allocator's mmap (class mmap) */
DECL_REAL(void *, mmap, (void *, size_t, int, int, int, off_t))
void *NAME(mmap)(void *a, size_t n, int prot, int fl, int fd, off_t o)
{
	GET_REAL(mmap);
	if (vf_decide(C_MMAP, S_IN, "mmap")) {
		errno = ENOMEM;
		return MAP_FAILED;
	}
	return REAL(mmap)(a, n, prot, fl, fd, o);
}

DECL_REAL(void *, mmap64, (void *, size_t, int, int, int, off64_t))
void *NAME(mmap64)(void *a, size_t n, int prot, int fl, int fd, off64_t o)
{
	GET_REAL(mmap64);
	if (vf_decide(C_MMAP, S_IN, "mmap64")) {
		errno = ENOMEM;
		return MAP_FAILED;
	}
	return REAL(mmap64)(a, n, prot, fl, fd, o);
}

#endif /* VF_WRAP || VF_PRELOAD */
