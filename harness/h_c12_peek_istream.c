/* C12: the real lib/sqfs/src/io/istream.c (or a copy with only the BUFSZ constant changed, see tools/checks/c12.py)
 * plus read access to the private state of a file istream. */
#ifndef C12_ISTREAM_SRC
#define C12_ISTREAM_SRC "lib/sqfs/src/io/istream.c"
#endif
#include C12_ISTREAM_SRC

void c12_peek_istream(sqfs_istream_t *s, int *eof, size_t *off, size_t *used)
{
	file_istream_t *f = (file_istream_t *)s;
	*eof = f->eof ? 1 : 0; *off = f->buffer_offset; *used = f->buffer_used;
}

size_t c12_istream_bufsz(void) { return BUFSZ; }
