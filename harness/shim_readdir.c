/*
 * shim_readdir.c — controls the order in which readdir() serves the entries of a directory (property C11).
 *
 * On the first readdir() of a DIR* all entries are read from the real readdir(), sorted by name (so that the
 * result does not depend on the file system the check happens to run on) and then permuted as requested; the
 * permuted list is served one entry per call.  The order served is logged, so that the Lean model can be run on
 * exactly the same enumeration.
 *
 * Two ways of use:
 *   LD_PRELOAD  : gcc -shared -fPIC shim_readdir.c -o shim_readdir.so -ldl
 *                 (interposes readdir, readdir64, closedir of an un-instrumented tool)
 *   linked in   : compile with -DSHIM_WRAP and link with
 *                 -Wl,--wrap=readdir,--wrap=readdir64,--wrap=closedir   (works under ASan);
 *                 add -DSHIM_LOG_FILE to log to VERIF_READDIR_LOG instead of memory (whole tools)
 *
 * Environment (read at every first readdir of a stream, so an in-process harness may change it between cases):
 *   VERIF_READDIR_ORDER = native | sorted | reverse | seed:<n> | swaps:<n> | rot:<n> | halves
 *                         (default: native = pass through, still logged; seed = uniform shuffle; swaps = sorted with one to
 *                         three transpositions, i.e. nearly sorted; rot = sorted, rotated by a seed-derived offset; halves =
 *                         even positions of the sorted list first, then the odd ones)
 *   VERIF_READDIR_LOG   = file to append the log to (LD_PRELOAD use); in SHIM_WRAP builds the log is kept in
 *                         memory and fetched with shim_readdir_take_log().
 * Log line:  "R <st_dev> <st_ino> <count> <hex name> <hex name> ...\n"   (dev/ino of the directory itself)
 */
#define _GNU_SOURCE
#include <dirent.h>
#include <dlfcn.h>
#include <errno.h>
#include <stdint.h>
#include <stdio.h>
#include <stdlib.h>
#include <string.h>
#include <sys/stat.h>

typedef struct shim_dir {
	struct shim_dir *next;
	DIR *dir;
	struct dirent *ents;
	size_t count, idx;
	int err;
} shim_dir_t;

static shim_dir_t *shim_dirs;

#ifdef SHIM_WRAP
struct dirent *__real_readdir(DIR *d);
int __real_closedir(DIR *d);
#define REAL_READDIR(d) __real_readdir(d)
#define REAL_CLOSEDIR(d) __real_closedir(d)
#endif

#if defined(SHIM_WRAP) && !defined(SHIM_LOG_FILE)
static char *shim_logbuf;
static size_t shim_loglen, shim_logmax;
static void shim_log_append(const char *s, size_t n)
{
	if (shim_loglen + n + 1 > shim_logmax) {
		size_t m = (shim_loglen + n + 1) * 2;
		char *nb = realloc(shim_logbuf, m);
		if (nb == NULL)
			return;
		shim_logbuf = nb;
		shim_logmax = m;
	}
	memcpy(shim_logbuf + shim_loglen, s, n);
	shim_loglen += n;
	shim_logbuf[shim_loglen] = '\0';
}
/* returns the log collected so far (caller frees) and clears it; never NULL */
char *shim_readdir_take_log(void)
{
	char *r = shim_logbuf ? shim_logbuf : strdup("");
	shim_logbuf = NULL;
	shim_loglen = shim_logmax = 0;
	return r;
}
#else
#ifndef SHIM_WRAP
static struct dirent *(*real_readdir_p)(DIR *);
static int (*real_closedir_p)(DIR *);
static struct dirent *call_real_readdir(DIR *d)
{
	if (real_readdir_p == NULL)
		real_readdir_p = (struct dirent *(*)(DIR *))dlsym(RTLD_NEXT, "readdir");
	return real_readdir_p(d);
}
static int call_real_closedir(DIR *d)
{
	if (real_closedir_p == NULL)
		real_closedir_p = (int (*)(DIR *))dlsym(RTLD_NEXT, "closedir");
	return real_closedir_p(d);
}
#define REAL_READDIR(d) call_real_readdir(d)
#define REAL_CLOSEDIR(d) call_real_closedir(d)
#endif
static void shim_log_append(const char *s, size_t n)
{
	const char *path = getenv("VERIF_READDIR_LOG");
	FILE *fp;
	if (path == NULL || path[0] == '\0')
		return;
	fp = fopen(path, "a");
	if (fp == NULL)
		return;
	fwrite(s, 1, n, fp);
	fclose(fp);
}
#endif

static int cmp_dirent(const void *a, const void *b)
{
	return strcmp(((const struct dirent *)a)->d_name, ((const struct dirent *)b)->d_name);
}

static uint64_t splitmix(uint64_t *s)
{
	uint64_t z = (*s += 0x9E3779B97F4A7C15ULL);
	z = (z ^ (z >> 30)) * 0xBF58476D1CE4E5B9ULL;
	z = (z ^ (z >> 27)) * 0x94D049BB133111EBULL;
	return z ^ (z >> 31);
}

static shim_dir_t *shim_load(DIR *d)
{
	shim_dir_t *sd = calloc(1, sizeof(*sd));
	const char *order = getenv("VERIF_READDIR_ORDER");
	size_t max = 0, i;
	struct stat sb;

	if (sd == NULL)
		return NULL;
	sd->dir = d;

	for (;;) {
		struct dirent *e;
		errno = 0;
		e = REAL_READDIR(d);
		if (e == NULL) {
			sd->err = errno;
			break;
		}
		if (sd->count == max) {
			size_t nm = max ? max * 2 : 32;
			struct dirent *ne = realloc(sd->ents, nm * sizeof(*ne));
			if (ne == NULL) {
				sd->err = ENOMEM;
				break;
			}
			sd->ents = ne;
			max = nm;
		}
		/* the record in libc's buffer is only d_reclen bytes long */
		memset(&sd->ents[sd->count], 0, sizeof(*e));
		memcpy(&sd->ents[sd->count++], e, e->d_reclen < sizeof(*e) ? e->d_reclen : sizeof(*e));
	}

	if (order != NULL && strcmp(order, "native") != 0 && sd->count > 1) {
		qsort(sd->ents, sd->count, sizeof(sd->ents[0]), cmp_dirent);

		if (strcmp(order, "reverse") == 0) {
			for (i = 0; i < sd->count / 2; ++i) {
				struct dirent t = sd->ents[i];
				sd->ents[i] = sd->ents[sd->count - 1 - i];
				sd->ents[sd->count - 1 - i] = t;
			}
		} else if (strncmp(order, "seed:", 5) == 0) {
			uint64_t s = strtoull(order + 5, NULL, 10), h = 1469598103934665603ULL;
			for (i = 0; i < sd->count; ++i) {
				const unsigned char *p = (const unsigned char *)sd->ents[i].d_name;
				for (; *p; ++p)
					h = (h ^ *p) * 1099511628211ULL;
				h = (h ^ 0xff) * 1099511628211ULL;
			}
			s ^= h;
			for (i = sd->count - 1; i > 0; --i) {
				size_t j = (size_t)(splitmix(&s) % (i + 1));
				struct dirent t = sd->ents[i];
				sd->ents[i] = sd->ents[j];
				sd->ents[j] = t;
			}
		} else if (strncmp(order, "swaps:", 6) == 0) {
			uint64_t s = strtoull(order + 6, NULL, 10) ^ (uint64_t)sd->count * 0x9E3779B97F4A7C15ULL;
			size_t k = 1 + (size_t)(splitmix(&s) % 3);
			while (k-- > 0) {
				size_t a = (size_t)(splitmix(&s) % sd->count), b = (size_t)(splitmix(&s) % sd->count);
				struct dirent t = sd->ents[a];
				sd->ents[a] = sd->ents[b];
				sd->ents[b] = t;
			}
		} else if (strncmp(order, "rot:", 4) == 0) {
			uint64_t s = strtoull(order + 4, NULL, 10) ^ (uint64_t)sd->count * 0x9E3779B97F4A7C15ULL;
			size_t k = 1 + (size_t)(splitmix(&s) % (sd->count - 1));
			struct dirent *tmp = malloc(sd->count * sizeof(*tmp));
			if (tmp != NULL) {
				for (i = 0; i < sd->count; ++i)
					tmp[i] = sd->ents[(i + k) % sd->count];
				memcpy(sd->ents, tmp, sd->count * sizeof(*tmp));
				free(tmp);
			}
		} else if (strcmp(order, "halves") == 0) {
			struct dirent *tmp = malloc(sd->count * sizeof(*tmp));
			if (tmp != NULL) {
				size_t pos = 0;
				for (i = 0; i < sd->count; i += 2)
					tmp[pos++] = sd->ents[i];
				for (i = 1; i < sd->count; i += 2)
					tmp[pos++] = sd->ents[i];
				memcpy(sd->ents, tmp, sd->count * sizeof(*tmp));
				free(tmp);
			}
		}
	}

	/* log the order that is going to be served */
	{
		char head[128];
		int n;
		memset(&sb, 0, sizeof(sb));
		fstat(dirfd(d), &sb);
		n = snprintf(head, sizeof(head), "R %llu %llu %zu", (unsigned long long)sb.st_dev,
			     (unsigned long long)sb.st_ino, sd->count);
		{
			size_t total = (size_t)n + 2, pos;
			char *line;
			for (i = 0; i < sd->count; ++i)
				total += 2 * strlen(sd->ents[i].d_name) + 1;
			line = malloc(total);
			if (line != NULL) {
				memcpy(line, head, (size_t)n);
				pos = (size_t)n;
				for (i = 0; i < sd->count; ++i) {
					const unsigned char *p = (const unsigned char *)sd->ents[i].d_name;
					line[pos++] = ' ';
					for (; *p; ++p) {
						static const char hx[] = "0123456789abcdef";
						line[pos++] = hx[*p >> 4];
						line[pos++] = hx[*p & 15];
					}
				}
				line[pos++] = '\n';
				shim_log_append(line, pos);
				free(line);
			}
		}
	}

	sd->next = shim_dirs;
	shim_dirs = sd;
	return sd;
}

static struct dirent *shim_readdir(DIR *d)
{
	shim_dir_t *sd;

	for (sd = shim_dirs; sd != NULL; sd = sd->next) {
		if (sd->dir == d)
			break;
	}
	if (sd == NULL) {
		sd = shim_load(d);
		if (sd == NULL) {
			errno = ENOMEM;
			return NULL;
		}
	}
	if (sd->idx < sd->count)
		return &sd->ents[sd->idx++];
	errno = sd->err;
	return NULL;
}

static void shim_forget(DIR *d)
{
	shim_dir_t **pp = &shim_dirs;

	while (*pp != NULL) {
		if ((*pp)->dir == d) {
			shim_dir_t *sd = *pp;
			*pp = sd->next;
			free(sd->ents);
			free(sd);
			return;
		}
		pp = &(*pp)->next;
	}
}

#ifdef SHIM_WRAP
struct dirent *__wrap_readdir(DIR *d) { return shim_readdir(d); }
struct dirent *__wrap_readdir64(DIR *d) { return shim_readdir(d); }
int __wrap_closedir(DIR *d) { shim_forget(d); return REAL_CLOSEDIR(d); }
#else
struct dirent *readdir(DIR *d) { return shim_readdir(d); }
struct dirent64 *readdir64(DIR *d) { return (struct dirent64 *)shim_readdir(d); }
int closedir(DIR *d) { shim_forget(d); return REAL_CLOSEDIR(d); }
#endif
