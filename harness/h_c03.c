/*
 * C03 harness: the real writer pieces on the same lines as `sqfsmodel c03 ops`.
 *
 *   conseq <offset> <ref/num/typ/namehex>...      static get_conseq_entry_count() of dir_writer.c
 *   dirw <off0> <hlinks> <xattr> <parent> <namehex/num/ref/mode>...
 *                                                 sqfs_dir_writer_{begin,add_entry,end,create_inode} on a real
 *                                                 meta writer (compressor that never shrinks, memory file)
 *   dirx <codec> <keep> <export> <off0> <hlinks> <xattr> <parent> <rootnum> <rootref> <namehex/num/ref/mode>...
 *                                                 the same on a meta writer with a *shrinking* codec, optionally created
 *                                                 with KEEP_IN_MEMORY (then sqfs_meta_write_write_to_file), optionally
 *                                                 with the export table (sqfs_dir_writer_write_export_table)
 *   meta <codec> <chunkhex>...                    sqfs_meta_writer_append per chunk + flush; codec: raw|toy|grow|trail
 *   metak <codec> <chunkhex>...                   the same with KEEP_IN_MEMORY + sqfs_meta_write_write_to_file
 *   table <codec> <base> <datahex>                sqfs_write_table on a file that already holds <base> bytes
 *   blk <codec> <flags> <datahex>                 static process_block() of block_processor.c, then the static
 *                                                 process_completed_block() of backend.c on the result (block writer
 *                                                 stubbed): iw = the word it stores in the inode's block list,
 *                                                 fw = the word it stores in the fragment table ('-' = untouched)
 *   fino <op>...                                  inode.c on a fresh file inode: S<n> sqfs_inode_set_file_size, B<n>
 *                                                 set_file_block_start, F<i>,<o> set_frag_location, X<n> set_xattr_index,
 *                                                 e make_extended, b make_basic, P<n> what process_completed_block does
 *                                                 for a sparse block (make_extended; file_ext.sparse += n)
 *   ids <id>...                                   sqfs_id_table_id_to_index per id, then sqfs_id_table_write
 *   idsrange <n>                                  the same for ids 0..n-1
 *   codec <gzip|xz|lz4|lz4hc|zstd> <outsize> <datahex>   the real backend's do_block (compress), then uncompress
 *
 * dir_writer.c and block_processor.c are #included to reach their static functions; everything else is linked
 * from the working tree's library.
 */
#include "config.h"
#include "lib/sqfs/src/dir_writer.c"
#undef DIR_INDEX_THRESHOLD
#include "lib/sqfs/src/block_processor/block_processor.c"
#include "lib/sqfs/src/block_processor/backend.c"
#include "sqfs/id_table.h"
#include "sqfs/compressor.h"
#include "hexio.h"

/* ------------------------------------------------------------------ memory file */
static unsigned char *mf_data;
static size_t mf_used, mf_cap;

static int mf_write_at(sqfs_file_t *f, sqfs_u64 off, const void *buf, size_t size)
{
	(void)f;
	if (off + size > mf_cap) {
		mf_cap = (off + size) * 2 + 4096;
		mf_data = realloc(mf_data, mf_cap);
		if (!mf_data) abort();
	}
	if (off > mf_used) memset(mf_data + mf_used, 0, off - mf_used);
	memcpy(mf_data + off, buf, size);
	if (off + size > mf_used) mf_used = off + size;
	return 0;
}
static sqfs_u64 mf_get_size(const sqfs_file_t *f) { (void)f; return mf_used; }
static sqfs_file_t memfile = { { 1, NULL, NULL }, NULL, mf_write_at, mf_get_size, NULL, NULL };

/* ------------------------------------------------------------------ toy codecs (mirrored in Driver/C03.lean) */
static sqfs_s32 raw_block(sqfs_compressor_t *c, const sqfs_u8 *in, sqfs_u32 size, sqfs_u8 *out, sqfs_u32 outsize)
{ (void)c; (void)in; (void)size; (void)out; (void)outsize; return 0; }

/* toy: a block of >= 4 equal bytes becomes [byte, len lo, len hi]; everything else "does not shrink" */
static sqfs_s32 toy_block(sqfs_compressor_t *c, const sqfs_u8 *in, sqfs_u32 size, sqfs_u8 *out, sqfs_u32 outsize)
{
	sqfs_u32 i;
	(void)c;
	if (size < 4 || outsize < 3) return 0;
	for (i = 1; i < size; ++i) if (in[i] != in[0]) return 0;
	out[0] = in[0]; out[1] = size & 0xFF; out[2] = (size >> 8) & 0xFF;
	return 3;
}

/* grow: violates the contract like the unrepaired lz4 wrapper on short input: [len*16 mod 256] ++ input for size < 13 */
static sqfs_s32 grow_block(sqfs_compressor_t *c, const sqfs_u8 *in, sqfs_u32 size, sqfs_u8 *out, sqfs_u32 outsize)
{
	(void)c;
	if (size == 0 || size >= 13 || outsize < size + 1) return 0;
	out[0] = (sqfs_u8)(size * 16);
	memcpy(out + 1, in, size);
	return size + 1;
}

/* trail: content dependent and invertible: a trailing run of 4..65535 equal bytes becomes [byte, run lo, run hi] */
static sqfs_s32 trail_block(sqfs_compressor_t *c, const sqfs_u8 *in, sqfs_u32 size, sqfs_u8 *out, sqfs_u32 outsize)
{
	sqfs_u32 k = 1;
	(void)c;
	if (size == 0) return 0;
	while (k < size && in[size - 1 - k] == in[size - 1]) ++k;
	if (k < 4 || k > 65535 || outsize < size - k + 3) return 0;
	memcpy(out, in, size - k);
	out[size - k] = in[size - 1]; out[size - k + 1] = k & 0xFF; out[size - k + 2] = (k >> 8) & 0xFF;
	return size - k + 3;
}

static sqfs_compressor_t raw_cmp = { { 1, NULL, NULL }, NULL, NULL, NULL, raw_block };
static sqfs_compressor_t toy_cmp = { { 1, NULL, NULL }, NULL, NULL, NULL, toy_block };
static sqfs_compressor_t grow_cmp = { { 1, NULL, NULL }, NULL, NULL, NULL, grow_block };
static sqfs_compressor_t trail_cmp = { { 1, NULL, NULL }, NULL, NULL, NULL, trail_block };

static sqfs_compressor_t *codec_by_name(const char *n)
{
	if (!strcmp(n, "raw")) return &raw_cmp;
	if (!strcmp(n, "toy")) return &toy_cmp;
	if (!strcmp(n, "grow")) return &grow_cmp;
	if (!strcmp(n, "trail")) return &trail_cmp;
	return NULL;
}

/* ------------------------------------------------------------------ helpers */
#define MAXTOK 200000
static char *toks[MAXTOK];
static size_t ntok;

static void split(char *line)
{
	char *p = strtok(line, " \n");
	ntok = 0;
	while (p && ntok < MAXTOK) { toks[ntok++] = p; p = strtok(NULL, " \n"); }
}

/* the uncompressed stream of a memory file made of metadata blocks written by a never-shrinking compressor */
static size_t strip_headers(unsigned char *dst)
{
	size_t off = 0, n = 0;
	while (off + 2 <= mf_used) {
		unsigned len = (mf_data[off] | (mf_data[off + 1] << 8)) & 0x7FFF;
		memcpy(dst + n, mf_data + off + 2, len);
		n += len; off += 2 + len;
	}
	return n;
}

static char *field(char **s)
{
	char *p = *s, *q;
	if (!p) return NULL;
	q = strchr(p, '/');
	if (q) { *q = 0; *s = q + 1; } else *s = NULL;
	return p;
}

/* ------------------------------------------------------------------ ops */
static void op_conseq(void)
{
	sqfs_dir_entry_t *head = NULL, *tail = NULL, *e;
	size_t i, r;
	if (ntok < 3) { puts("bad-op"); return; }
	for (i = 2; i < ntok; ++i) {
		char *s = toks[i], *ref = field(&s), *num = field(&s), *typ = field(&s), *nm = field(&s);
		unsigned char *nb; long nl;
		if (!ref || !num || !typ || !nm || (nl = hex_decode_tok(nm, &nb, 1)) < 0) { puts("bad-op"); return; }
		e = calloc(1, sizeof(*e) + nl + 1);
		e->inode_ref = strtoull(ref, NULL, 10); e->inode_num = (sqfs_u32)strtoull(num, NULL, 10);
		e->type = (sqfs_u16)strtoul(typ, NULL, 10); e->name_len = nl; memcpy(e->name, nb, nl); free(nb);
		if (tail) tail->next = e; else head = e;
		tail = e;
	}
	r = get_conseq_entry_count((sqfs_u32)strtoul(toks[1], NULL, 10), head);
	printf("%zu\n", r);
	while (head) { e = head; head = e->next; free(e); }
}

static void print_dir_inode(const sqfs_inode_generic_t *ino)
{
	if (ino->base.type == SQFS_INODE_DIR) {
		printf(" inode=basic %u %u %u %u %u idx=-", ino->data.dir.nlink, ino->data.dir.size, ino->data.dir.start_block,
		       ino->data.dir.offset, ino->data.dir.parent_inode);
	} else {
		size_t o = 0, k;
		printf(" inode=ext %u %u %u %u %u %u n=%u idx=", ino->data.dir_ext.nlink, ino->data.dir_ext.size,
		       ino->data.dir_ext.start_block, ino->data.dir_ext.offset, ino->data.dir_ext.parent_inode,
		       ino->data.dir_ext.xattr_idx, ino->data.dir_ext.inodex_count);
		if (ino->payload_bytes_used == 0) putchar('-');
		for (k = 0; o < ino->payload_bytes_used; ++k) {
			sqfs_dir_index_t ie;
			memcpy(&ie, (char *)ino->extra + o, sizeof(ie));
			if (k) putchar(',');
			printf("%u;%u;", ie.index, ie.start_block);
			hex_print(stdout, (unsigned char *)ino->extra + o + sizeof(ie), ie.size + 1);
			o += sizeof(ie) + ie.size + 1;
		}
	}
}

static void op_dirw(void)
{
	sqfs_meta_writer_t *dm;
	sqfs_dir_writer_t *dw;
	sqfs_inode_generic_t *ino;
	static unsigned char zeros[8192];
	unsigned char *stream;
	size_t off0, n, i, left;
	int rc = 0;
	if (ntok < 5) { puts("bad-op"); return; }
	mf_used = 0;
	off0 = strtoul(toks[1], NULL, 10);
	dm = sqfs_meta_writer_create(&memfile, &raw_cmp, 0);
	for (left = off0; left; ) { size_t k = left > sizeof(zeros) ? sizeof(zeros) : left; sqfs_meta_writer_append(dm, zeros, k); left -= k; }
	dw = sqfs_dir_writer_create(dm, 0);
	if (sqfs_dir_writer_begin(dw, 0)) { puts("err begin"); goto out; }
	for (i = 5; i < ntok; ++i) {
		char *s = toks[i], *nm = field(&s), *num = field(&s), *ref = field(&s), *mode = field(&s);
		unsigned char *nb; long nl;
		if (!nm || !num || !ref || !mode || (nl = hex_decode_tok(nm, &nb, 1)) < 0) { puts("bad-op"); goto out; }
		if (memchr(nb, 0, nl)) { free(nb); puts("bad-op"); goto out; }
		rc = sqfs_dir_writer_add_entry(dw, (char *)nb, (sqfs_u32)strtoull(num, NULL, 10), strtoull(ref, NULL, 10),
					       (sqfs_u16)strtoul(mode, NULL, 8));
		free(nb);
		if (rc) { printf("err %d at %zu\n", rc, i - 5); goto out; }
	}
	rc = sqfs_dir_writer_end(dw);
	if (rc) { printf("err %d at end\n", rc); goto out; }
	ino = sqfs_dir_writer_create_inode(dw, strtoul(toks[2], NULL, 10), (sqfs_u32)strtoull(toks[3], NULL, 10),
					   (sqfs_u32)strtoull(toks[4], NULL, 10));
	sqfs_meta_writer_flush(dm);
	stream = malloc(mf_used + 1);
	n = strip_headers(stream);
	fputs("ok ", stdout);
	hex_print(stdout, stream + off0, n - off0);
	printf(" size=%zu ref=%llu count=%zu", sqfs_dir_writer_get_size(dw),
	       (unsigned long long)sqfs_dir_writer_get_dir_reference(dw), sqfs_dir_writer_get_entry_count(dw));
	print_dir_inode(ino);
	putchar('\n');
	free(stream);
	free(ino);
out:
	sqfs_drop(dw);
	sqfs_drop(dm);
}

static void op_dirx(void)
{
	sqfs_compressor_t *c;
	sqfs_meta_writer_t *dm;
	sqfs_dir_writer_t *dw;
	sqfs_inode_generic_t *ino;
	static unsigned char fill[8192];
	size_t off0, i, left, before, tblend;
	int keep, exp, rc = 0;
	if (ntok < 10 || !(c = codec_by_name(toks[1]))) { puts("bad-op"); return; }
	keep = atoi(toks[2]); exp = atoi(toks[3]);
	memset(fill, 0x55, sizeof(fill));
	mf_used = 0;
	off0 = strtoul(toks[4], NULL, 10);
	dm = sqfs_meta_writer_create(&memfile, c, keep ? SQFS_META_WRITER_KEEP_IN_MEMORY : 0);
	for (left = off0; left; ) { size_t k = left > sizeof(fill) ? sizeof(fill) : left; sqfs_meta_writer_append(dm, fill, k); left -= k; }
	dw = sqfs_dir_writer_create(dm, exp ? SQFS_DIR_WRITER_CREATE_EXPORT_TABLE : 0);
	if (sqfs_dir_writer_begin(dw, 0)) { puts("err begin"); goto out; }
	for (i = 10; i < ntok; ++i) {
		char *s = toks[i], *nm = field(&s), *num = field(&s), *ref = field(&s), *mode = field(&s);
		unsigned char *nb; long nl;
		if (!nm || !num || !ref || !mode || (nl = hex_decode_tok(nm, &nb, 1)) < 0) { puts("bad-op"); goto out; }
		if (memchr(nb, 0, nl)) { free(nb); puts("bad-op"); goto out; }
		rc = sqfs_dir_writer_add_entry(dw, (char *)nb, (sqfs_u32)strtoull(num, NULL, 10), strtoull(ref, NULL, 10),
					       (sqfs_u16)strtoul(mode, NULL, 8));
		free(nb);
		if (rc) { printf("err %d at %zu\n", rc, i - 10); goto out; }
	}
	rc = sqfs_dir_writer_end(dw);
	if (rc) { printf("err %d at end\n", rc); goto out; }
	ino = sqfs_dir_writer_create_inode(dw, strtoul(toks[5], NULL, 10), (sqfs_u32)strtoull(toks[6], NULL, 10),
					   (sqfs_u32)strtoull(toks[7], NULL, 10));
	if (sqfs_meta_writer_flush(dm)) { puts("err flush"); free(ino); goto out; }
	before = mf_used;
	if (keep && sqfs_meta_write_write_to_file(dm)) { puts("err write_to_file"); free(ino); goto out; }
	tblend = mf_used;
	printf("ok filebefore=%zu table=", before);
	hex_print(stdout, mf_data, tblend);
	printf(" size=%zu ref=%llu count=%zu", sqfs_dir_writer_get_size(dw),
	       (unsigned long long)sqfs_dir_writer_get_dir_reference(dw), sqfs_dir_writer_get_entry_count(dw));
	print_dir_inode(ino);
	free(ino);
	if (exp) {
		sqfs_super_t super;
		memset(&super, 0, sizeof(super));
		rc = sqfs_dir_writer_write_export_table(dw, &memfile, c, (sqfs_u32)strtoull(toks[8], NULL, 10),
							strtoull(toks[9], NULL, 10), &super);
		if (rc) printf(" export=err %d", rc);
		else {
			printf(" export start=%llu ", (unsigned long long)super.export_table_start);
			hex_print(stdout, mf_data + tblend, mf_used - tblend);
		}
	}
	putchar('\n');
out:
	sqfs_drop(dw);
	sqfs_drop(dm);
}

static void op_table(void)
{
	sqfs_compressor_t *c;
	unsigned char *d; long n; sqfs_u64 start = 0; size_t base, i, nblk;
	int rc;
	if (ntok != 4 || !(c = codec_by_name(toks[1])) || (n = hex_decode_tok(toks[3], &d, 1)) < 0) { puts("bad-op"); return; }
	base = strtoul(toks[2], NULL, 10);
	mf_used = 0;
	{ static const unsigned char z = 0xEE; for (i = 0; i < base; ++i) mf_write_at(&memfile, i, &z, 1); }
	rc = sqfs_write_table(&memfile, c, d, n, &start);
	free(d);
	if (rc) { printf("err %d\n", rc); return; }
	nblk = (mf_used - start) / 8;
	printf("start=%llu locs=", (unsigned long long)start);
	if (nblk == 0) putchar('-');
	for (i = 0; i < nblk; ++i) {
		sqfs_u64 v; memcpy(&v, mf_data + start + 8 * i, 8);
		printf("%s%llu", i ? "," : "", (unsigned long long)le64toh(v));
	}
	fputs(" file=", stdout);
	hex_print(stdout, mf_data + base, mf_used - base);
	putchar('\n');
}

static void op_meta(int keep)
{
	sqfs_compressor_t *c;
	sqfs_meta_writer_t *m;
	sqfs_u64 blk; sqfs_u32 off;
	size_t i;
	if (ntok < 2 || !(c = codec_by_name(toks[1]))) { puts("bad-op"); return; }
	mf_used = 0;
	m = sqfs_meta_writer_create(&memfile, c, keep ? SQFS_META_WRITER_KEEP_IN_MEMORY : 0);
	for (i = 2; i < ntok; ++i) {
		unsigned char *b; long n = hex_decode_tok(toks[i], &b, 1);
		if (n < 0) { puts("bad-op"); sqfs_drop(m); return; }
		if (sqfs_meta_writer_append(m, b, n)) { puts("err append"); free(b); sqfs_drop(m); return; }
		free(b);
	}
	sqfs_meta_writer_get_position(m, &blk, &off);
	printf("pos=%llu,%u ", (unsigned long long)blk, off);
	if (sqfs_meta_writer_flush(m)) { puts("err flush"); sqfs_drop(m); return; }
	sqfs_meta_writer_get_position(m, &blk, &off);
	printf("end=%llu,%u ", (unsigned long long)blk, off);
	if (keep) {
		printf("filebefore=%zu ", mf_used);
		if (sqfs_meta_write_write_to_file(m)) { puts("err write_to_file"); sqfs_drop(m); return; }
	}
	hex_print(stdout, mf_data, mf_used);
	putchar('\n');
	sqfs_drop(m);
}

static int stub_write_block(sqfs_block_writer_t *wr, void *user, sqfs_u32 size, sqfs_u32 checksum, sqfs_u32 flags,
			    const sqfs_u8 *data, sqfs_u64 *location)
{ (void)wr; (void)user; (void)size; (void)checksum; (void)flags; (void)data; *location = 4242; return 0; }
static sqfs_block_writer_t stub_writer = { { 1, NULL, NULL }, stub_write_block, NULL };

static void op_blk(void)
{
	sqfs_compressor_t *c;
	worker_data_t *w;
	sqfs_block_t *b;
	unsigned char *d; long n;
	int rc;
	if (ntok != 4 || !(c = codec_by_name(toks[1])) || (n = hex_decode_tok(toks[3], &d, 1)) < 0) { puts("bad-op"); return; }
	w = calloc(1, sizeof(*w) + n + 64);
	w->cmp = c; w->scratch_size = n + 64;
	b = calloc(1, sizeof(*b) + n + 64);
	b->flags = (sqfs_u32)strtoul(toks[2], NULL, 10); b->size = n; memcpy(b->data, d, n);
	rc = process_block(w, b);
	if (rc) printf("err %d\n", rc);
	else {
		sqfs_block_processor_t *proc = calloc(1, sizeof(*proc));
		sqfs_inode_generic_t *inode = calloc(1, sizeof(*inode));
		sqfs_fragment_t info;
		sqfs_u32 idx = 0;
		printf("%u ", b->flags); hex_print(stdout, b->data, b->size);
		inode->base.type = SQFS_INODE_FILE;
		proc->wr = &stub_writer;
		proc->frag_tbl = sqfs_frag_table_create(0);
		sqfs_frag_table_append(proc->frag_tbl, 0, 0xFFFFFFFF, &idx);
		b->inode = &inode; b->index = idx;
		rc = process_completed_block(proc, b);
		if (rc) printf(" err %d\n", rc);
		else {
			if (inode->payload_bytes_used >= sizeof(sqfs_u32)) printf(" iw=%u", inode->extra[0]); else fputs(" iw=-", stdout);
			if (sqfs_frag_table_lookup(proc->frag_tbl, idx, &info) == 0 && info.size != 0xFFFFFFFF) printf(" fw=%u\n", info.size);
			else puts(" fw=-");
		}
		sqfs_drop(proc->frag_tbl); free(inode); free(proc);
	}
	free(w); free(b); free(d);
}

static void op_fino(void)
{
	sqfs_inode_generic_t *ino = calloc(1, sizeof(*ino));
	size_t i;
	int rc = 0;
	ino->base.type = SQFS_INODE_FILE;
	for (i = 1; i < ntok && rc == 0; ++i) {
		const char *t = toks[i];
		char *end = NULL;
		unsigned long long v = t[0] && t[1] ? strtoull(t + 1, &end, 10) : 0;
		switch (t[0]) {
		case 'S': rc = (!t[1] || *end) ? 1 : sqfs_inode_set_file_size(ino, v); break;
		case 'B': rc = (!t[1] || *end) ? 1 : sqfs_inode_set_file_block_start(ino, v); break;
		case 'X': rc = (!t[1] || *end) ? 1 : sqfs_inode_set_xattr_index(ino, (sqfs_u32)v); break;
		case 'P': if (!t[1] || *end) rc = 1; else { sqfs_inode_make_extended(ino); ino->data.file_ext.sparse += (sqfs_u32)v; } break;
		case 'F': if (!t[1] || *end != ',' || !end[1]) rc = 1;
			  else { char *e2; unsigned long long o = strtoull(end + 1, &e2, 10); rc = *e2 ? 1 : sqfs_inode_set_frag_location(ino, (sqfs_u32)v, (sqfs_u32)o); } break;
		case 'e': rc = t[1] ? 1 : sqfs_inode_make_extended(ino); break;
		case 'b': rc = t[1] ? 1 : sqfs_inode_make_basic(ino); break;
		default: rc = 1;
		}
	}
	if (rc) puts(rc == 1 ? "bad-op" : "err");
	else if (ino->base.type == SQFS_INODE_FILE)
		printf("basic start=%u size=%u frag=%u,%u\n", ino->data.file.blocks_start, ino->data.file.file_size,
		       ino->data.file.fragment_index, ino->data.file.fragment_offset);
	else if (ino->base.type == SQFS_INODE_EXT_FILE)
		printf("ext start=%llu size=%llu sparse=%llu nlink=%u frag=%u,%u xattr=%u\n", (unsigned long long)ino->data.file_ext.blocks_start,
		       (unsigned long long)ino->data.file_ext.file_size, (unsigned long long)ino->data.file_ext.sparse, ino->data.file_ext.nlink,
		       ino->data.file_ext.fragment_idx, ino->data.file_ext.fragment_offset, ino->data.file_ext.xattr_idx);
	else printf("type %u\n", ino->base.type);
	free(ino);
}

static void ids_finish(sqfs_id_table_t *t, int failed_at)
{
	sqfs_super_t super;
	memset(&super, 0, sizeof(super));
	if (failed_at >= 0) { printf(" overflow-at=%d\n", failed_at); return; }
	mf_used = 0;
	if (sqfs_id_table_write(t, &memfile, &super, &raw_cmp)) { puts(" err write"); return; }
	printf(" id_count=%u table_bytes=%llu\n", super.id_count, (unsigned long long)(super.id_table_start));
}

static void op_ids(int range)
{
	sqfs_id_table_t *t = sqfs_id_table_create(0);
	size_t i, n = range ? strtoul(toks[1], NULL, 10) : ntok - 1;
	int failed = -1;
	sqfs_u64 sum = 0;
	fputs("idx", stdout);
	for (i = 0; i < n; ++i) {
		sqfs_u16 idx = 0xFFFF;
		sqfs_u32 id = range ? (sqfs_u32)i : (sqfs_u32)strtoull(toks[i + 1], NULL, 10);
		int rc = sqfs_id_table_id_to_index(t, id, &idx);
		if (rc) { failed = (int)i; break; }
		if (range) sum += idx; else printf(" %u", idx);
	}
	if (range) printf(" sum=%llu", (unsigned long long)sum);
	ids_finish(t, failed);
	sqfs_drop(t);
}

static void op_codec(void)
{
	sqfs_compressor_config_t cfg;
	sqfs_compressor_t *cmp = NULL, *un = NULL;
	unsigned char *d, *out, *back; long n; sqfs_u32 outsize; sqfs_s32 r, r2;
	int id, rc;
	if (ntok != 4 || (n = hex_decode_tok(toks[3], &d, 1)) < 0) { puts("bad-op"); return; }
	outsize = (sqfs_u32)strtoul(toks[2], NULL, 10);
	id = !strcmp(toks[1], "gzip") ? SQFS_COMP_GZIP : !strcmp(toks[1], "xz") ? SQFS_COMP_XZ :
	     (!strcmp(toks[1], "lz4") || !strcmp(toks[1], "lz4hc")) ? SQFS_COMP_LZ4 : !strcmp(toks[1], "zstd") ? SQFS_COMP_ZSTD : -1;
	if (id < 0) { puts("bad-op"); free(d); return; }
	sqfs_compressor_config_init(&cfg, id, 131072, !strcmp(toks[1], "lz4hc") ? SQFS_COMP_FLAG_LZ4_HC : 0);
	rc = sqfs_compressor_create(&cfg, &cmp);
	if (rc) { printf("err create %d\n", rc); free(d); return; }
	out = malloc(outsize + 1); back = malloc(n + 1);
	r = cmp->do_block(cmp, d, n, out, outsize);
	printf("ret=%d", r);
	if (r > 0) {
		cfg.flags |= SQFS_COMP_FLAG_UNCOMPRESS;
		rc = sqfs_compressor_create(&cfg, &un);
		r2 = rc ? -999 : un->do_block(un, out, r, back, n);
		printf(" roundtrip=%s out=", (r2 == n && memcmp(back, d, n) == 0) ? "ok" : "BAD");
		if (r <= 64) hex_print(stdout, out, r); else putchar('+');
	}
	putchar('\n');
	if (un) sqfs_drop(un);
	sqfs_drop(cmp); free(out); free(back); free(d);
}

int main(void)
{
	static char line[1 << 24];
	while (fgets(line, sizeof(line), stdin)) {
		split(line);
		if (ntok == 0) { puts("bad-op"); continue; }
		if (!strcmp(toks[0], "conseq")) op_conseq();
		else if (!strcmp(toks[0], "dirw")) op_dirw();
		else if (!strcmp(toks[0], "dirx")) op_dirx();
		else if (!strcmp(toks[0], "table")) op_table();
		else if (!strcmp(toks[0], "meta")) op_meta(0);
		else if (!strcmp(toks[0], "metak")) op_meta(1);
		else if (!strcmp(toks[0], "blk")) op_blk();
		else if (!strcmp(toks[0], "fino")) op_fino();
		else if (!strcmp(toks[0], "ids")) op_ids(0);
		else if (!strcmp(toks[0], "idsrange") && ntok == 2) op_ids(1);
		else if (!strcmp(toks[0], "codec")) op_codec();
		else puts("bad-op");
		fflush(stdout);
	}
	return 0;
}
