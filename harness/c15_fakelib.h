/*
 * C15 harness (a'): fake zlib / liblzma / libbz2 / libzstd.  Force-included (-include) in front of the real
 * lib/xfrm/src/{gzip,xz,bzip2,zstd}.c of the working tree: the include guards of the real headers are defined here so
 * that `#include <zlib.h>` etc. become no-ops, and the wrappers' process_data loops run over the toy engine of
 * lean/Sqfs/Model/Xfrm.lean (Toy.encLib / decLib / encZLib / decZLib).  Only what the four files use is declared.
 */
#ifndef C15_FAKELIB_H
#define C15_FAKELIB_H
#include <stddef.h>
#include <stdint.h>
#include <stdbool.h>

/* toy knobs, set by the harness before a stream object is created */
extern size_t c15_absorb, c15_gran, c15_thresh;

/* ------------------------------------------------------------------ zlib */
#define ZLIB_H
typedef unsigned char Bytef;
typedef unsigned int uInt;
typedef unsigned long uLong;
typedef struct z_stream_s {
	const Bytef *next_in; uInt avail_in; uLong total_in;
	Bytef *next_out; uInt avail_out; uLong total_out;
	void *state;
} z_stream;
#define Z_NO_FLUSH 0
#define Z_SYNC_FLUSH 2
#define Z_FINISH 4
#define Z_OK 0
#define Z_STREAM_END 1
#define Z_NEED_DICT 2
#define Z_ERRNO (-1)
#define Z_STREAM_ERROR (-2)
#define Z_DATA_ERROR (-3)
#define Z_MEM_ERROR (-4)
#define Z_BUF_ERROR (-5)
#define Z_VERSION_ERROR (-6)
#define Z_DEFLATED 8
#define Z_DEFAULT_STRATEGY 0
int deflateInit2(z_stream *s, int level, int method, int wbits, int memlevel, int strategy);
int inflateInit2(z_stream *s, int wbits);
int deflate(z_stream *s, int flush);
int inflate(z_stream *s, int flush);
int deflateReset(z_stream *s);
int inflateReset(z_stream *s);
int deflateEnd(z_stream *s);
int inflateEnd(z_stream *s);

/* ------------------------------------------------------------------ liblzma */
#define LZMA_H
typedef uint64_t lzma_vli;
typedef enum { LZMA_OK = 0, LZMA_STREAM_END = 1, LZMA_NO_CHECK = 2, LZMA_UNSUPPORTED_CHECK = 3, LZMA_GET_CHECK = 4,
	LZMA_MEM_ERROR = 5, LZMA_MEMLIMIT_ERROR = 6, LZMA_FORMAT_ERROR = 7, LZMA_OPTIONS_ERROR = 8, LZMA_DATA_ERROR = 9,
	LZMA_BUF_ERROR = 10, LZMA_PROG_ERROR = 11 } lzma_ret;
typedef enum { LZMA_RUN = 0, LZMA_SYNC_FLUSH = 1, LZMA_FULL_FLUSH = 2, LZMA_FINISH = 3 } lzma_action;
typedef enum { LZMA_CHECK_NONE = 0, LZMA_CHECK_CRC32 = 1 } lzma_check;
typedef struct { lzma_vli id; void *options; } lzma_filter;
typedef struct { uint32_t dict_size; uint32_t opaque[32]; } lzma_options_lzma;
typedef struct {
	const uint8_t *next_in; size_t avail_in; uint64_t total_in;
	uint8_t *next_out; size_t avail_out; uint64_t total_out;
	void *internal;
} lzma_stream;
#define LZMA_VLI_UNKNOWN UINT64_MAX
/* decoder flags (lzma/container.h), so that a tree that passes them still compiles against the fake library */
#define LZMA_TELL_NO_CHECK 0x01u
#define LZMA_TELL_UNSUPPORTED_CHECK 0x02u
#define LZMA_TELL_ANY_CHECK 0x04u
#define LZMA_CONCATENATED 0x08u
#define LZMA_IGNORE_CHECK 0x10u
#define LZMA_FILTER_X86 0x04
#define LZMA_FILTER_POWERPC 0x05
#define LZMA_FILTER_IA64 0x06
#define LZMA_FILTER_ARM 0x07
#define LZMA_FILTER_ARMTHUMB 0x08
#define LZMA_FILTER_SPARC 0x09
#define LZMA_FILTER_LZMA2 0x21
#define LZMA_PRESET_EXTREME 0x80000000u
lzma_ret lzma_stream_encoder(lzma_stream *s, const lzma_filter *filters, lzma_check check);
lzma_ret lzma_stream_decoder(lzma_stream *s, uint64_t memlimit, uint32_t flags);
lzma_ret lzma_code(lzma_stream *s, lzma_action action);
void lzma_end(lzma_stream *s);
unsigned char lzma_lzma_preset(lzma_options_lzma *opt, uint32_t preset);

/* ------------------------------------------------------------------ libbz2 */
#define _BZLIB_H
typedef struct {
	char *next_in; unsigned int avail_in; unsigned int total_in_lo32; unsigned int total_in_hi32;
	char *next_out; unsigned int avail_out; unsigned int total_out_lo32; unsigned int total_out_hi32;
	void *state;
} bz_stream;
#define BZ_RUN 0
#define BZ_FLUSH 1
#define BZ_FINISH 2
#define BZ_OK 0
#define BZ_RUN_OK 1
#define BZ_FLUSH_OK 2
#define BZ_FINISH_OK 3
#define BZ_STREAM_END 4
#define BZ_SEQUENCE_ERROR (-1)
#define BZ_PARAM_ERROR (-2)
#define BZ_MEM_ERROR (-3)
#define BZ_DATA_ERROR (-4)
#define BZ_DATA_ERROR_MAGIC (-5)
#define BZ_IO_ERROR (-6)
#define BZ_UNEXPECTED_EOF (-7)
#define BZ_OUTBUFF_FULL (-8)
#define BZ_CONFIG_ERROR (-9)
int BZ2_bzCompressInit(bz_stream *s, int level, int verbosity, int work_factor);
int BZ2_bzDecompressInit(bz_stream *s, int verbosity, int small);
int BZ2_bzCompress(bz_stream *s, int action);
int BZ2_bzDecompress(bz_stream *s);
int BZ2_bzCompressEnd(bz_stream *s);
int BZ2_bzDecompressEnd(bz_stream *s);

/* ------------------------------------------------------------------ libzstd */
#define ZSTD_H_235446
typedef struct ZSTD_CStream_s ZSTD_CStream;
typedef struct ZSTD_DStream_s ZSTD_DStream;
typedef ZSTD_CStream ZSTD_CCtx;
typedef ZSTD_DStream ZSTD_DCtx;
/* parameter setters: accepted and ignored by the fake library (their effect is a matter of the real library: tool level) */
typedef enum { ZSTD_c_compressionLevel = 100, ZSTD_c_windowLog = 101, ZSTD_c_checksumFlag = 201 } ZSTD_cParameter;
typedef enum { ZSTD_d_windowLogMax = 100 } ZSTD_dParameter;
static inline size_t ZSTD_CCtx_setParameter(ZSTD_CCtx *c, ZSTD_cParameter p, int v) { (void)c; (void)p; (void)v; return 0; }
static inline size_t ZSTD_DCtx_setParameter(ZSTD_DCtx *d, ZSTD_dParameter p, int v) { (void)d; (void)p; (void)v; return 0; }
typedef struct { const void *src; size_t size; size_t pos; } ZSTD_inBuffer;
typedef struct { void *dst; size_t size; size_t pos; } ZSTD_outBuffer;
typedef enum { ZSTD_e_continue = 0, ZSTD_e_flush = 1, ZSTD_e_end = 2 } ZSTD_EndDirective;
ZSTD_CStream *ZSTD_createCStream(void);
ZSTD_DStream *ZSTD_createDStream(void);
size_t ZSTD_freeCStream(ZSTD_CStream *s);
size_t ZSTD_freeDStream(ZSTD_DStream *s);
size_t ZSTD_compressStream2(ZSTD_CStream *s, ZSTD_outBuffer *out, ZSTD_inBuffer *in, ZSTD_EndDirective op);
size_t ZSTD_decompressStream(ZSTD_DStream *s, ZSTD_outBuffer *out, ZSTD_inBuffer *in);
unsigned ZSTD_isError(size_t code);

#endif
