/*
 * h_c11.c — correspondence harness for C11 (independence from readdir order).
 *
 * Runs the REAL directory-scan path of gensquashfs from the working tree
 *   dir_unix.c → dir_rec.c → dir_hl.c → dir_tree_iterator.c → glob.c (scan_directory, glob_files)
 *   → fstree.c (fstree_add_generic) → post_process.c / hardlink.c (fstree_post_process)
 * with the readdir order controlled by harness/shim_readdir.c (linked in through -Wl,--wrap, so that this also
 * works under ASan), and prints the resulting tree, inode numbering and file list in the canonical form that
 * `sqfsmodel c11` prints for the model, followed by the readdir orders that were served.
 *
 * Line protocol (one op per line, hex tokens, "-" = empty):
 *   packdir  <order> <dir> <d.uid> <d.gid> <d.mtime> <d.mode> <flags> <def_uid> <def_gid> <def_mtime>
 *       = mkfs.c main(): dir_tree_iterator_create(packdir, cfg); scan_directory(fs, dir, 0, NULL); post process
 *   packfile <order> <file> <packdir> <d.uid> <d.gid> <d.mtime> <d.mode> <dirscan_flags> <force_uid> <force_gid>
 *       = fstree_from_file(fs, file, opt); post process          (pack file with `glob` lines)
 *   direct <full|count> <d.uid> <d.gid> <d.mtime> <d.mode> <n> { <A|L> <path> <mode> <uid> <gid> <mtime> <rdev> <extra> }
 *       = fstree_add_generic() called directly for every entry (L: SQFS_DIR_ENTRY_FLAG_HARD_LINK, extra = link target;
 *         extra "-" = NULL, "p:<hex>" = string), then fstree_post_process     → dump (full) | "ok n=<count>" (count) | "err"
 *   isort <name>*
 *       = fstree_add_generic() of a regular file of each name, in the order given, into an empty tree; prints the names of
 *         the root's children in list order (insert_sorted)                       → "ok <name>*" | "err"
 *   sortfiles <sort file> <n> <path>*
 *       = regular files at the given paths (parents created implicitly), fstree_post_process, fstree_sort_files with the
 *         given sort file (bin/gensquashfs/src/sort_by_file.c)   → "ok pre <path>* post <path>:<flags>*" | "err"
 * Result line:  "ok <dump> @@ <readdir log lines joined by ';'>"   or   "err @@ <log>"
 *   dump = "n=<unique_inode_count>" { " N <path> <mode> <uid> <gid> <mtime> <nlink> <implicit> <hard> <rdev> <extra> <inum>" }
 *          " F" { " <path>" }            (nodes in DFS pre-order, children in list order; files = fs->files)
 */
#include "mkfs.h"
#include "hexio.h"

char *shim_readdir_take_log(void);

static void print_path(tree_node_t *n)
{
	char *p = fstree_get_path(n);
	const char *q = p;
	if (p == NULL)
		abort();
	while (*q == '/')
		++q;
	hex_print(stdout, (const unsigned char *)q, strlen(q));
	free(p);
}

static void dump_node(fstree_t *fs, tree_node_t *n)
{
	tree_node_t *c;
	const char *payload_extra = n->name + strlen(n->name) + 1;
	(void)fs;

	fputs(" N ", stdout);
	print_path(n);
	printf(" %o %lu %lu %lu %lu %d %d ", (unsigned)n->mode, (unsigned long)n->uid, (unsigned long)n->gid,
	       (unsigned long)n->mod_time, (unsigned long)n->link_count,
	       (n->flags & FLAG_DIR_CREATED_IMPLICITLY) ? 1 : 0, (n->flags & FLAG_LINK_IS_HARD) ? 1 : 0);

	if (S_ISBLK(n->mode) || S_ISCHR(n->mode))
		printf("%llu ", (unsigned long long)n->data.devno);
	else
		fputs("0 ", stdout);

	if (S_ISLNK(n->mode) && (n->flags & FLAG_LINK_IS_HARD)) {
		fputs("l:", stdout);
		hex_print(stdout, (const unsigned char *)payload_extra, strlen(payload_extra));
		fputs(":", stdout);
		if (n->flags & FLAG_LINK_RESOVED) {
			if (n->data.target_node->parent == NULL)
				fputs("-", stdout);
			else
				print_path(n->data.target_node);
		} else {
			fputs("?", stdout);
		}
		fputs(" 0", stdout);
	} else {
		if (S_ISLNK(n->mode)) {
			fputs("s:", stdout);
			hex_print(stdout, (const unsigned char *)n->data.target, strlen(n->data.target));
		} else if (S_ISREG(n->mode) && n->data.file.input_file != NULL) {
			fputs("s:", stdout);
			hex_print(stdout, (const unsigned char *)n->data.file.input_file,
				  strlen(n->data.file.input_file));
		} else {
			fputs("-", stdout);
		}
		printf(" %lu", (unsigned long)n->inode_num);
	}

	if (S_ISDIR(n->mode)) {
		for (c = n->data.children; c != NULL; c = c->next)
			dump_node(fs, c);
	}
}

static void dump_tree(fstree_t *fs)
{
	tree_node_t *n;
	size_t i;

	printf("ok n=%lu", (unsigned long)fs->unique_inode_count);
	dump_node(fs, fs->root);
	fputs(" F", stdout);
	for (n = fs->files; n != NULL; n = n->next_by_type) {
		fputc(' ', stdout);
		print_path(n);
	}
	/* the inodes array must agree with the numbers (this is what the model's list representation relies on) */
	for (i = 0; i < fs->unique_inode_count; ++i) {
		if (fs->inodes[i] == NULL || fs->inodes[i]->inode_num != i + 1) {
			fputs(" INODES-ARRAY-INCONSISTENT", stdout);
			break;
		}
	}
}

static void print_log(void)
{
	char *log = shim_readdir_take_log(), *p;
	for (p = log; *p; ++p) {
		if (*p == '\n')
			*p = ';';
	}
	fputs(" @@ ", stdout);
	fputs(log, stdout);
	free(log);
}

static char *tok_str(const char *tok)
{
	unsigned char *b;
	if (hex_decode_tok(tok, &b, 1) < 0)
		return NULL;
	return (char *)b;
}

int main(void)
{
	char *line = NULL;
	size_t cap = 0;
	ssize_t len;
	FILE *errsink = freopen("/dev/null", "w", stderr);   /* the tools' diagnostics are not part of the protocol */
	(void)errsink;

	while ((len = getline(&line, &cap, stdin)) > 0) {
		static char **argv = NULL;
		static size_t argmax = 0;
		char *save = NULL, *t;
		int argc = 0, ok = 0;
		fstree_defaults_t defaults;
		fstree_t fs;

		for (t = strtok_r(line, " \r\n", &save); t != NULL; t = strtok_r(NULL, " \r\n", &save)) {
			if ((size_t)argc == argmax) {
				argmax = argmax ? argmax * 2 : 64;
				argv = realloc(argv, argmax * sizeof(argv[0]));
				if (argv == NULL)
					abort();
			}
			argv[argc++] = t;
		}
		if (argc == 0) { puts("bad-op"); fflush(stdout); continue; }

		if (argc == 11 && strcmp(argv[0], "packdir") == 0) {
			char *dirpath = tok_str(argv[2]);
			sqfs_dir_iterator_t *dir;
			dir_tree_cfg_t cfg;

			if (dirpath == NULL) { puts("bad-op"); continue; }
			setenv("VERIF_READDIR_ORDER", argv[1], 1);
			memset(&defaults, 0, sizeof(defaults));
			defaults.uid = strtoul(argv[3], NULL, 10);
			defaults.gid = strtoul(argv[4], NULL, 10);
			defaults.mtime = strtoul(argv[5], NULL, 10);
			defaults.mode = strtoul(argv[6], NULL, 10);

			if (fstree_init(&fs, &defaults)) { puts("bad-op"); free(dirpath); continue; }

			/* as in bin/gensquashfs/src/mkfs.c: main() */
			memset(&cfg, 0, sizeof(cfg));
			cfg.def_mtime = fs.defaults.mtime;
			cfg.def_uid = strtoul(argv[8], NULL, 10);
			cfg.def_gid = strtoul(argv[9], NULL, 10);
			cfg.flags = strtoul(argv[7], NULL, 10);
			cfg.def_mtime = strtoll(argv[10], NULL, 10);

			dir = dir_tree_iterator_create(dirpath, &cfg);
			if (dir != NULL) {
				int ret = scan_directory(&fs, dir, 0, NULL);
				sqfs_drop(dir);
				if (ret == 0 && fstree_post_process(&fs) == 0)
					ok = 1;
			}
			if (ok)
				dump_tree(&fs);
			else
				fputs("err", stdout);
			print_log();
			fputc('\n', stdout);
			fstree_cleanup(&fs);
			free(dirpath);
		} else if (argc == 11 && strcmp(argv[0], "packfile") == 0) {
			char *file = tok_str(argv[2]), *packdir = tok_str(argv[3]);
			options_t opt;

			if (file == NULL || packdir == NULL) { puts("bad-op"); continue; }
			setenv("VERIF_READDIR_ORDER", argv[1], 1);
			memset(&defaults, 0, sizeof(defaults));
			defaults.uid = strtoul(argv[4], NULL, 10);
			defaults.gid = strtoul(argv[5], NULL, 10);
			defaults.mtime = strtoul(argv[6], NULL, 10);
			defaults.mode = strtoul(argv[7], NULL, 10);

			if (fstree_init(&fs, &defaults)) { puts("bad-op"); continue; }

			memset(&opt, 0, sizeof(opt));
			opt.dirscan_flags = strtoul(argv[8], NULL, 10);
			opt.force_uid_value = strtoul(argv[9], NULL, 10);
			opt.force_gid_value = strtoul(argv[10], NULL, 10);
			opt.packdir = packdir;
			opt.infile = file;

			if (fstree_from_file(&fs, file, &opt) == 0 && fstree_post_process(&fs) == 0)
				ok = 1;
			if (ok)
				dump_tree(&fs);
			else
				fputs("err", stdout);
			print_log();
			fputc('\n', stdout);
			fstree_cleanup(&fs);
			free(file);
			free(packdir);
		} else if (argc >= 7 && strcmp(argv[0], "direct") == 0) {
			long n = strtol(argv[6], NULL, 10), i;

			if (n < 0 || argc != 7 + 8 * n) { puts("bad-op"); continue; }
			memset(&defaults, 0, sizeof(defaults));
			defaults.uid = strtoul(argv[2], NULL, 10);
			defaults.gid = strtoul(argv[3], NULL, 10);
			defaults.mtime = strtoul(argv[4], NULL, 10);
			defaults.mode = strtoul(argv[5], NULL, 10);
			if (fstree_init(&fs, &defaults)) { puts("bad-op"); continue; }
			ok = 1;
			for (i = 0; i < n && ok; ++i) {
				char **a = argv + 7 + 8 * i;
				char *path = tok_str(a[1]), *extra = NULL;
				sqfs_dir_entry_t *ent;

				if (path == NULL) { ok = -1; break; }
				if (strcmp(a[7], "-") != 0) {
					if (strncmp(a[7], "p:", 2) != 0 || (extra = tok_str(a[7] + 2)) == NULL) { ok = -1; free(path); break; }
				}
				ent = sqfs_dir_entry_create(path, (sqfs_u16)strtoul(a[2], NULL, 10), a[0][0] == 'L' ? SQFS_DIR_ENTRY_FLAG_HARD_LINK : 0);
				if (ent == NULL) abort();
				ent->uid = strtoull(a[3], NULL, 10);
				ent->gid = strtoull(a[4], NULL, 10);
				ent->mtime = strtoll(a[5], NULL, 10);
				ent->rdev = strtoull(a[6], NULL, 10);
				if (fstree_add_generic(&fs, ent, extra) == NULL)
					ok = 0;
				free(ent);
				free(extra);
				free(path);
			}
			if (ok < 0) { puts("bad-op"); fstree_cleanup(&fs); continue; }
			if (ok && fstree_post_process(&fs) != 0)
				ok = 0;
			if (!ok)
				fputs("err", stdout);
			else if (strcmp(argv[1], "count") == 0)
				printf("ok n=%lu", (unsigned long)fs.unique_inode_count);
			else
				dump_tree(&fs);
			fputc('\n', stdout);
			fstree_cleanup(&fs);
		} else if (strcmp(argv[0], "isort") == 0) {
			tree_node_t *c;
			int i;

			memset(&defaults, 0, sizeof(defaults));
			defaults.mode = 0755;
			if (fstree_init(&fs, &defaults)) { puts("bad-op"); continue; }
			ok = 1;
			for (i = 1; i < argc && ok; ++i) {
				char *name = tok_str(argv[i]);
				sqfs_dir_entry_t *ent;

				if (name == NULL) { ok = 0; break; }
				ent = sqfs_dir_entry_create(name, S_IFREG | 0644, 0);
				if (ent == NULL || fstree_add_generic(&fs, ent, NULL) == NULL)
					ok = 0;
				free(ent);
				free(name);
			}
			if (ok) {
				fputs("ok", stdout);
				for (c = fs.root->data.children; c != NULL; c = c->next) {
					fputc(' ', stdout);
					hex_print(stdout, (const unsigned char *)c->name, strlen(c->name));
				}
				fputc('\n', stdout);
			} else {
				puts("err");
			}
			fstree_cleanup(&fs);
		} else if (argc >= 3 && strcmp(argv[0], "sortfiles") == 0) {
			char *sortpath = tok_str(argv[1]);
			long n = strtol(argv[2], NULL, 10);
			sqfs_istream_t *sortfile = NULL;
			tree_node_t *f;
			long i;

			if (sortpath == NULL || n < 0 || n != argc - 3) { puts("bad-op"); free(sortpath); continue; }
			memset(&defaults, 0, sizeof(defaults));
			defaults.mode = 0755;
			if (fstree_init(&fs, &defaults)) { puts("bad-op"); free(sortpath); continue; }
			ok = 1;
			for (i = 0; i < n && ok; ++i) {
				char *path = tok_str(argv[3 + i]);
				sqfs_dir_entry_t *ent;

				if (path == NULL) { ok = 0; break; }
				ent = sqfs_dir_entry_create(path, S_IFREG | 0644, 0);
				if (ent == NULL || fstree_add_generic(&fs, ent, NULL) == NULL)
					ok = 0;
				free(ent);
				free(path);
			}
			if (ok && fstree_post_process(&fs) != 0)
				ok = 0;
			if (ok) {
				fputs("ok pre", stdout);
				for (f = fs.files; f != NULL; f = f->next_by_type) {
					fputc(' ', stdout);
					print_path(f);
				}
				if (sqfs_istream_open_file(&sortfile, sortpath, 0) != 0 ||
				    fstree_sort_files(&fs, sortfile) != 0) {
					fputs(" post-err\n", stdout);
				} else {
					fputs(" post", stdout);
					for (f = fs.files; f != NULL; f = f->next_by_type) {
						fputc(' ', stdout);
						print_path(f);
						printf(":%d", (int)f->data.file.flags);
					}
					fputc('\n', stdout);
				}
				if (sortfile != NULL)
					sqfs_drop(sortfile);
			} else {
				puts("err");
			}
			fstree_cleanup(&fs);
			free(sortpath);
		} else {
			puts("bad-op");
		}
		fflush(stdout);
	}
	free(line);
	return 0;
}
