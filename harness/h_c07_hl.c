/*
 * C07 harness, hard links: the real fstree_add_generic() / fstree_resolve_hard_links()
 * (lib/fstree/src/fstree.c, hardlink.c of the working tree) on the same lines as `sqfsmodel c07`:
 *
 *   hl <k>:<namehex>:<targethex> ...      k = d(ir) f(ile) s(ymlink) l(hard link)
 *      c:<namehex>:<decimal>              set-up step, no library call: node->link_count = <decimal> on the node
 *                                         the path names (reaches the `link_count == 0xFFFFFFFF` guards of
 *                                         resolve_link and mknode without 2^32 entries)
 *
 * answers  adderr <i> <ERRNO> | err <pathhex> <ERRNO> | ok R<n> {L<targetpathhex> | N<link_count>}... | timeout
 *
 * `timeout` = resolve did not return within SPIN_MS of *CPU* time (ITIMER_VIRTUAL); a terminating
 * resolution of the graphs used here takes microseconds, so this is a reliable "does not terminate".
 */
#include "config.h"
#include "fstree.h"
#include "util/util.h"
#include "hexio.h"
#include <errno.h>
#include <setjmp.h>
#include <signal.h>
#include <sys/time.h>
#include <sys/stat.h>

#ifndef SPIN_MS
#define SPIN_MS 40
#endif

static sigjmp_buf jb;
static void on_alarm(int sig) { (void)sig; siglongjmp(jb, 1); }

static const char *errname(int e)
{
	switch (e) {
	case ENOENT: return "ENOENT";
	case ENOTDIR: return "ENOTDIR";
	case EMLINK: return "EMLINK";
	case EPERM: return "EPERM";
	case EINVAL: return "EINVAL";
	case EEXIST: return "EEXIST";
	case ENAMETOOLONG: return "ENAMETOOLONG";
	default: return "E?";
	}
}

static void print_path(tree_node_t *n)
{
	/* names joined by '/', no leading slash (own walk: independent of get_path.c) */
	static tree_node_t *chain[16384];
	size_t k = 0, i;
	static unsigned char buf[1 << 20];
	size_t len = 0;
	for (; n != NULL && n->parent != NULL && k < 16384; n = n->parent) chain[k++] = n;
	for (i = k; i-- > 0;) {
		size_t l = strlen(chain[i]->name);
		if (len) buf[len++] = '/';
		memcpy(buf + len, chain[i]->name, l);
		len += l;
	}
	hex_print(stdout, buf, len);
}

#define MAXENT 4096
static struct { int kind; unsigned char *name, *target; unsigned long poke; } ents[MAXENT];

int main(void)
{
	static char line[1 << 22];
	struct sigaction sa;
	memset(&sa, 0, sizeof(sa));
	sa.sa_handler = on_alarm;
	sigaction(SIGVTALRM, &sa, NULL);

	while (fgets(line, sizeof(line), stdin)) {
		size_t n = 0, i;
		int bad = 0;
		char *save = NULL, *tok = strtok_r(line, " \n", &save);
		fstree_defaults_t defs;
		fstree_t fs;

		if (!tok || strcmp(tok, "hl") != 0) { puts("bad-op"); continue; }
		while ((tok = strtok_r(NULL, " \n", &save)) != NULL) {
			char *c1 = strchr(tok, ':'), *c2 = c1 ? strchr(c1 + 1, ':') : NULL;
			if (!c1 || !c2 || c1 != tok + 1 || n >= MAXENT || !strchr("dfslc", tok[0])) { bad = 1; break; }
			*c1 = *c2 = '\0';
			ents[n].kind = tok[0];
			if (hex_decode_tok(c1 + 1, &ents[n].name, 1) < 0) { bad = 1; break; }
			if (tok[0] == 'c') {
				char *endp = NULL;
				ents[n].poke = strtoul(c2 + 1, &endp, 10);
				if (endp == c2 + 1 || *endp != '\0' || ents[n].poke > 0xFFFFFFFFUL || c2[1] == '-' || c2[1] == '+' || c2[1] == ' ') { free(ents[n].name); bad = 1; break; }
				ents[n].target = NULL;
			} else if (hex_decode_tok(c2 + 1, &ents[n].target, 1) < 0) { free(ents[n].name); bad = 1; break; }
			{
				/* callers canonicalise names first: refuse anything that is not canonical already */
				char *copy = strdup((char *)ents[n].name);
				int nc = canonicalize_name(copy) != 0 || strcmp(copy, (char *)ents[n].name) != 0;
				free(copy);
				++n;
				if (nc) { bad = 1; break; }
			}
		}
		if (bad) { puts("bad-op"); goto free_ents; }

		memset(&defs, 0, sizeof(defs));
		defs.mode = 0755;
		if (fstree_init(&fs, &defs)) { puts("init-failed"); goto free_ents; }

		for (i = 0; i < n; ++i) {
			size_t nl = strlen((char *)ents[i].name);
			sqfs_dir_entry_t *ent = calloc(1, sizeof(*ent) + nl + 1);
			tree_node_t *r;
			if (ents[i].kind == 'c') {
				errno = 0;
				r = fstree_get_node_by_path(&fs, fs.root, (char *)ents[i].name, false, false);
				free(ent);
				if (r == NULL) { printf("adderr %zu %s\n", i, errname(errno)); break; }
				r->link_count = (sqfs_u32)ents[i].poke;
				continue;
			}
			memcpy(ent->name, ents[i].name, nl);
			switch (ents[i].kind) {
			case 'd': ent->mode = S_IFDIR | 0755; break;
			case 'f': ent->mode = S_IFREG | 0644; break;
			case 's': ent->mode = S_IFLNK | 0777; break;
			case 'l': ent->mode = S_IFLNK | 0777; ent->flags |= SQFS_DIR_ENTRY_FLAG_HARD_LINK; break;
			}
			errno = 0;
			r = fstree_add_generic(&fs, ent, (ents[i].kind == 's' || ents[i].kind == 'l') ? (char *)ents[i].target : NULL);
			free(ent);
			if (r == NULL) { printf("adderr %zu %s\n", i, errname(errno)); break; }
		}
		if (i == n) {
			struct itimerval tv, off;
			volatile int rc = 0, timed_out = 0;
			memset(&tv, 0, sizeof(tv)); memset(&off, 0, sizeof(off));
			tv.it_value.tv_usec = SPIN_MS * 1000;
			if (sigsetjmp(jb, 1) == 0) {
				setitimer(ITIMER_VIRTUAL, &tv, NULL);
				errno = 0;
				rc = fstree_resolve_hard_links(&fs);
				setitimer(ITIMER_VIRTUAL, &off, NULL);
			} else {
				timed_out = 1;
			}
			if (timed_out) {
				puts("timeout");
			} else if (rc != 0) {
				int e = errno;
				fputs("err ", stdout);
				print_path(fs.links_unresolved);
				printf(" %s\n", errname(e));
			} else {
				printf("ok R%u", (unsigned)fs.root->link_count);
				for (i = 0; i < n; ++i) {
					tree_node_t *nd = fstree_get_node_by_path(&fs, fs.root, (char *)ents[i].name, false, false);
					putchar(' ');
					if (nd == NULL) { putchar('?'); continue; }
					if (S_ISLNK(nd->mode) && (nd->flags & FLAG_LINK_IS_HARD)) {
						putchar('L');
						if (nd->flags & FLAG_LINK_RESOVED) print_path(nd->data.target_node); else putchar('?');
					} else {
						printf("N%u", (unsigned)nd->link_count);
					}
				}
				putchar('\n');
			}
		}
		fstree_cleanup(&fs);
free_ents:
		for (i = 0; i < n; ++i) { free(ents[i].name); free(ents[i].target); }
		fflush(stdout);
	}
	return 0;
}
