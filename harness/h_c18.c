/*
 * C18 harness: the real canonicalize_name() / is_filename_sane() on the same lines as `sqfsmodel c18`.
 * canonicalize_name.c is #included (not linked) so that its static normalize_slashes() can be driven on its own
 * (`norm` op): the first and third pass of canonicalize_name are then tied to the model separately from the whole.
 */
#include "config.h"
#include "util/util.h"
#include "hexio.h"
#include "lib/util/src/canonicalize_name.c"

int main(void)
{
	static char line[1 << 20];
	while (fgets(line, sizeof(line), stdin)) {
		char *op = strtok(line, " \n"), *arg = strtok(NULL, " \n");
		unsigned char *buf;
		long n;
		char *arg2 = strtok(NULL, " \n");
		if (!op || !arg || (n = hex_decode_tok(arg, &buf, 1)) < 0) { puts("bad-op"); continue; }
		if (memchr(buf, 0, (size_t)n)) { puts("bad-op"); free(buf); continue; }
		if (strcmp(op, "canon") == 0) {
			int rc = canonicalize_name((char *)buf);
			if (rc != 0) puts("fail");
			else { fputs("ok ", stdout); hex_print(stdout, buf, strlen((char *)buf)); putchar('\n'); }
		} else if (strcmp(op, "canonmem") == 0) {
			/* the array is exactly: the string, its NUL, then <arg2>; printed whole after the call */
			unsigned char *tl, *mem;
			long nt;
			if (!arg2 || (nt = hex_decode_tok(arg2, &tl, 0)) < 0) { puts("bad-op"); free(buf); continue; }
			mem = malloc((size_t)n + 1 + (size_t)nt);
			if (!mem) abort();
			memcpy(mem, buf, (size_t)n + 1);
			memcpy(mem + n + 1, tl, (size_t)nt);
			if (canonicalize_name((char *)mem) != 0) puts("fail");
			else { fputs("ok ", stdout); hex_print(stdout, mem, (size_t)n + 1 + (size_t)nt); putchar('\n'); }
			free(mem);
			free(tl);
		} else if (strcmp(op, "norm") == 0) {
			/* normalize_slashes() alone on the array string+NUL+<arg2>; whole array printed */
			unsigned char *tl, *mem;
			long nt;
			if (!arg2 || (nt = hex_decode_tok(arg2, &tl, 0)) < 0) { puts("bad-op"); free(buf); continue; }
			mem = malloc((size_t)n + 1 + (size_t)nt);
			if (!mem) abort();
			memcpy(mem, buf, (size_t)n + 1);
			memcpy(mem + n + 1, tl, (size_t)nt);
			normalize_slashes((char *)mem);
			fputs("ok ", stdout); hex_print(stdout, mem, (size_t)n + 1 + (size_t)nt); putchar('\n');
			free(mem);
			free(tl);
		} else if (strcmp(op, "sane") == 0) {
			int a = is_filename_sane((char *)buf, false), b = is_filename_sane((char *)buf, true);
			if (a != b) puts("os-specific-differs"); else puts(a ? "1" : "0");
		} else puts("bad-op");
		free(buf);
	}
	return 0;
}
