/*
 * C12 harness: the real I/O loops of libsquashfs / libutil / libtar on the same scenario lines as
 * `sqfsmodel c12` (see lean/Driver/C12.lean for the protocol).
 *
 * The system calls the loops make (read, write, pread, pwrite, lseek, ftruncate, fsync) are redirected at link
 * time (-Wl,--wrap=...) to the functions below, which take their results from the scenario's OS script and
 * serve the data from memory.  Only code linked from /repo references these symbols through the PLT; the
 * harness' own stdio does not.
 *
 * istream.c and ostream.c are compiled through h_c12_peek_istream.c / h_c12_peek_ostream.c, which #include the
 * real file and add a function that reads the private struct (buffer_offset, buffer_used, eof, sparse_count, size).
 */
#define _GNU_SOURCE
#include "config.h"
#include "sqfs/io.h"
#include "sqfs/error.h"
#include "util/parse.h"
#include "xfrm/stream.h"
#include "xfrm/wrap.h"
#include "tar/tar.h"
#include "sqfs/dir_entry.h"
#include "hexio.h"
#include <errno.h>
#include <fcntl.h>
#include <unistd.h>
#include <sys/types.h>
#include <sys/stat.h>
#include <sys/socket.h>

char *record_to_memory(sqfs_istream_t *fp, size_t size);          /* lib/tar/src/internal.h */
void c12_peek_istream(sqfs_istream_t *s, int *eof, size_t *off, size_t *used);
size_t c12_istream_bufsz(void);
void c12_peek_ostream(sqfs_ostream_t *s, unsigned long long *sparse, unsigned long long *size);
void c12_peek_xistream(sqfs_istream_t *s, size_t *off, size_t *used);
size_t c12_xistream_bufsz(void);
void c12_peek_xostream(sqfs_ostream_t *s, size_t *inbuf_used);
size_t c12_xostream_bufsz(void);
void c12_peek_tar_stream(sqfs_dir_iterator_t *it, sqfs_istream_t **stream, int *compressed);
void c12_peek_tar(sqfs_dir_iterator_t *it, int *state, unsigned long long *record_size,
		  unsigned long long *file_size, unsigned long long *offset, char *sparse, size_t cap);

/* ------------------------------------------------------------------ OS script */
enum { EV_PART, EV_EINTR, EV_ERR, EV_ZERO };
typedef struct { int kind; size_t k; } ev_t;
static ev_t *g_ev; static size_t g_nev, g_evpos;

typedef struct { char *s; size_t n, cap; } sbuf_t;
static sbuf_t g_trace; static size_t g_ncalls, g_xfer;

static void sb_add(sbuf_t *b, const char *s)
{
	size_t l = strlen(s);
	if (b->n + l + 1 > b->cap) { b->cap = (b->n + l + 1) * 2; b->s = realloc(b->s, b->cap); if (!b->s) abort(); }
	memcpy(b->s + b->n, s, l + 1); b->n += l;
}

static void log_call(int kind, size_t req, unsigned long long pos)
{
	char t[96];
	snprintf(t, sizeof(t), "%s%d:%zu:%llu", g_ncalls ? ";" : "", kind, req, pos);
	sb_add(&g_trace, t); g_ncalls++;
}

/* answer of the OS to a call that could transfer at most cap bytes: count, or -1 with errno */
static ssize_t os_answer(size_t cap)
{
	ev_t e;
	if (g_evpos >= g_nev) return (ssize_t)cap;
	e = g_ev[g_evpos++];
	switch (e.kind) {
	case EV_PART: return (ssize_t)((e.k + 1 < cap) ? e.k + 1 : cap);
	case EV_EINTR: errno = EINTR; return -1;
	case EV_ERR: errno = EIO; return -1;
	default: return 0;
	}
}

/* ------------------------------------------------------------------ memory-backed descriptors */
static unsigned char *g_file; static size_t g_file_len;       /* pread/pwrite target */
static unsigned char *g_src; static size_t g_src_len, g_src_pos; /* read source */
static unsigned char *g_sink; static size_t g_sink_len, g_sink_pos; /* write/lseek/ftruncate target */

static void grow(unsigned char **p, size_t *len, size_t newlen)
{
	if (newlen > *len) {
		*p = realloc(*p, newlen + 1); if (!*p) abort();
		memset(*p + *len, 0, newlen - *len); *len = newlen;
	}
}

ssize_t __wrap_pread(int fd, void *buf, size_t n, off_t off)
{
	size_t cap = ((size_t)off < g_file_len) ? g_file_len - (size_t)off : 0;
	ssize_t r;
	(void)fd;
	if (cap > n) cap = n;
	log_call(2, n, (unsigned long long)off);
	r = os_answer(cap);
	if (r > 0) { memcpy(buf, g_file + off, (size_t)r); g_xfer += (size_t)r; }
	return r;
}
ssize_t __wrap_pread64(int fd, void *buf, size_t n, off_t off) { return __wrap_pread(fd, buf, n, off); }

ssize_t __wrap_pwrite(int fd, const void *buf, size_t n, off_t off)
{
	ssize_t r;
	(void)fd;
	log_call(3, n, (unsigned long long)off);
	r = os_answer(n);
	if (r > 0) { grow(&g_file, &g_file_len, (size_t)off + (size_t)r); memcpy(g_file + off, buf, (size_t)r); }
	return r;
}
ssize_t __wrap_pwrite64(int fd, const void *buf, size_t n, off_t off) { return __wrap_pwrite(fd, buf, n, off); }

ssize_t __wrap_read(int fd, void *buf, size_t n)
{
	size_t cap = g_src_len - g_src_pos;
	ssize_t r;
	(void)fd;
	if (cap > n) cap = n;
	log_call(0, n, 0);
	r = os_answer(cap);
	if (r > 0) { memcpy(buf, g_src + g_src_pos, (size_t)r); g_src_pos += (size_t)r; }
	return r;
}

ssize_t __wrap_write(int fd, const void *buf, size_t n)
{
	ssize_t r;
	(void)fd;
	log_call(1, n, g_sink_len);
	r = os_answer(n);
	if (r > 0) {
		grow(&g_sink, &g_sink_len, g_sink_pos + (size_t)r);
		memcpy(g_sink + g_sink_pos, buf, (size_t)r); g_sink_pos += (size_t)r;
	}
	return r;
}

off_t __wrap_lseek(int fd, off_t off, int whence)
{
	(void)fd;
	if (whence == SEEK_CUR) g_sink_pos += (size_t)off;
	else if (whence == SEEK_SET) g_sink_pos = (size_t)off;
	else g_sink_pos = g_sink_len + (size_t)off;
	return (off_t)g_sink_pos;
}
off_t __wrap_lseek64(int fd, off_t off, int whence) { return __wrap_lseek(fd, off, whence); }

int __wrap_ftruncate(int fd, off_t len)
{
	ssize_t r;
	(void)fd;
	log_call(4, (size_t)len, (unsigned long long)len);
	r = os_answer(1);
	if (r < 0) return -1;
	if ((size_t)len < g_sink_len) g_sink_len = (size_t)len; else grow(&g_sink, &g_sink_len, (size_t)len);
	return 0;
}
int __wrap_ftruncate64(int fd, off_t len) { return __wrap_ftruncate(fd, len); }
int __real_ftruncate(int fd, off_t len);
int __wrap_fsync(int fd) { (void)fd; return 0; }

/* ------------------------------------------------------------------ tokens */
static unsigned long long fnv64(const unsigned char *p, size_t n)
{
	unsigned long long h = 0xcbf29ce484222325ULL; size_t i;
	for (i = 0; i < n; ++i) { h ^= p[i]; h *= 0x100000001b3ULL; }
	return h;
}

static void dtok(FILE *f, const unsigned char *p, size_t n)
{
	if (n == 0) fputc('-', f);
	else if (n <= 48) hex_print(f, p, n);
	else fprintf(f, "#%zu:%016llx", n, fnv64(p, n));
}

static unsigned char gen_byte(int mode, unsigned long long v)
{
	static const unsigned char a1[8] = { 97, 98, 99, 32, 9, 13, 10, 10 };
	static const unsigned char a3[10] = { 97, 32, 10, 0, 13, 200, 9, 10, 98, 32 };
	switch (mode) {
	case 0: return (unsigned char)(v % 256);
	case 1: return a1[v % 8];
	case 2: return (v % 1000 == 0) ? 10 : (unsigned char)(97 + v % 26);
	default: return a3[v % 10];
	}
}

/* "-" | hex | g<seed>:<len>:<mode> ; returns length or -1 */
static long parse_data1(const char *t, unsigned char **out)
{
	if (t[0] == 'g') {
		unsigned long long seed, x; size_t len, i; int mode;
		unsigned char *b;
		if (sscanf(t + 1, "%llu:%zu:%d", &seed, &len, &mode) != 3) return -1;
		b = malloc(len + 1); if (!b) abort();
		x = seed;
		for (i = 0; i < len; ++i) {
			x = x * 6364136223846793005ULL + 1442695040888963407ULL;
			b[i] = gen_byte(mode, x >> 33);
		}
		*out = b;
		return (long)len;
	}
	return hex_decode_tok(t, out, 1);
}

/* <piece>+<piece>+... : the concatenation of the pieces */
static long parse_data(const char *t, unsigned char **out)
{
	char *cp, *p, *save = NULL; unsigned char *acc = NULL; long total = 0;
	if (!strchr(t, '+')) return parse_data1(t, out);
	cp = strdup(t); if (!cp) abort();
	acc = malloc(1); if (!acc) abort();
	for (p = strtok_r(cp, "+", &save); p; p = strtok_r(NULL, "+", &save)) {
		unsigned char *piece; long n = parse_data1(p, &piece);
		if (n < 0) { free(acc); free(cp); return -1; }
		acc = realloc(acc, (size_t)(total + n) + 1); if (!acc) abort();
		memcpy(acc + total, piece, (size_t)n); total += n;
		free(piece);
	}
	free(cp);
	*out = acc;
	return total;
}

static int parse_script(char *t)
{
	char *p, *save = NULL;
	free(g_ev); g_ev = NULL; g_nev = g_evpos = 0;
	if (strcmp(t, "-") == 0) return 0;
	g_ev = malloc(sizeof(ev_t) * (strlen(t) + 1)); if (!g_ev) abort();
	for (p = strtok_r(t, ",", &save); p; p = strtok_r(NULL, ",", &save)) {
		ev_t e = { 0, 0 };
		if (strcmp(p, "i") == 0) e.kind = EV_EINTR;
		else if (strcmp(p, "e") == 0) e.kind = EV_ERR;
		else if (strcmp(p, "z") == 0) e.kind = EV_ZERO;
		else if (p[0] == 'p' && p[1] >= '0' && p[1] <= '9') { e.kind = EV_PART; e.k = strtoul(p + 1, NULL, 10); }
		else return -1;
		g_ev[g_nev++] = e;
	}
	return 0;
}

static void reset_os(void)
{
	g_trace.n = 0; if (g_trace.s) g_trace.s[0] = 0; g_ncalls = 0; g_xfer = 0;
	free(g_file); g_file = NULL; g_file_len = 0;
	free(g_src); g_src = NULL; g_src_len = g_src_pos = 0;
	free(g_sink); g_sink = NULL; g_sink_len = g_sink_pos = 0;
}

static void print_tail(void)
{
	printf(" left=%zu trace=", g_nev - g_evpos);
	if (g_ncalls == 0) fputs("-", stdout);
	else if (g_trace.n <= 120) fputs(g_trace.s, stdout);
	else printf("#%zu:%016llx", g_ncalls, fnv64((unsigned char *)g_trace.s, g_trace.n));
	putchar('\n');
}

static int devnull(void)
{
	int fd = open("/dev/null", O_RDWR);
	if (fd < 0) { perror("/dev/null"); exit(3); }
	return fd;
}

/* The descriptor handed to the stream constructors.  No data ever flows through it (read/write/lseek/ftruncate are
 * wrapped), but the code under test may look at what kind of object it is (fstat, isatty): C12_FDTYPE selects
 * n = /dev/null (character device), p = pipe, s = socket, f = regular file, t = terminal (pty master). */
static int g_fdtype = 'n';

static int stream_fd(int for_write)
{
	int fd = -1, pfd[2];
	switch (g_fdtype) {
	case 'p':
		if (pipe(pfd) != 0) { perror("pipe"); exit(3); }
		fd = pfd[for_write ? 1 : 0]; close(pfd[for_write ? 0 : 1]);
		break;
	case 's':
		if (socketpair(AF_UNIX, SOCK_STREAM, 0, pfd) != 0) { perror("socketpair"); exit(3); }
		fd = pfd[0]; close(pfd[1]);
		break;
	case 'f': {
		char path[] = "/tmp/verif_c12_fd_XXXXXX";
		fd = mkstemp(path);
		if (fd < 0) { perror("mkstemp"); exit(3); }
		unlink(path);
		break; }
	case 't':
		fd = posix_openpt(O_RDWR | O_NOCTTY);
		if (fd < 0) fd = devnull();             /* no pty available: fall back, reported by `fdtype` */
		break;
	default:
		fd = devnull();
	}
	return fd;
}

/* ------------------------------------------------------------------ scenarios */
static int do_readat(char *d, char *off, char *size, char *sc)
{
	unsigned char *data, *buf; long n; size_t sz = strtoul(size, NULL, 10);
	sqfs_file_t *f; int fd, rc;
	reset_os();
	if ((n = parse_data(d, &data)) < 0 || parse_script(sc)) return -1;
	g_file = data; g_file_len = (size_t)n;
	fd = devnull();
	if (sqfs_file_open_handle(&f, "mem", fd, SQFS_FILE_OPEN_READ_ONLY)) { close(fd); return -1; }
	buf = malloc(sz + 1); if (!buf) abort();
	memset(buf, 0xEE, sz + 1);
	rc = f->read_at(f, strtoull(off, NULL, 10), buf, sz);
	/* bytes stored into the caller's buffer = sum of the successful transfers (g_xfer) */
	if (buf[sz] != 0xEE) { puts("overrun"); free(buf); sqfs_drop(f); return 0; }
	printf("rc=%d buf=", rc); dtok(stdout, buf, g_xfer < sz ? g_xfer : sz);
	print_tail();
	free(buf); sqfs_drop(f);
	return 0;
}

static int do_writeat(char *fl, char *off, char *d, char *sc)
{
	unsigned char *file, *data; long fn, dn; sqfs_file_t *f; int fd, rc;
	reset_os();
	if ((fn = parse_data(fl, &file)) < 0) return -1;
	if ((dn = parse_data(d, &data)) < 0) { free(file); return -1; }
	if (parse_script(sc)) { free(file); free(data); return -1; }
	g_file = file; g_file_len = (size_t)fn;
	/* a real descriptor whose fstat size is the initial file size (sqfs_file_open_handle reads it) */
	{
		char path[] = "/tmp/verif_c12_XXXXXX";
		fd = mkstemp(path);
		if (fd < 0) { perror("mkstemp"); exit(3); }
		unlink(path);
		if (__real_ftruncate(fd, (off_t)fn) != 0) { perror("ftruncate"); exit(3); }
	}
	if (sqfs_file_open_handle(&f, "mem", fd, 0)) { close(fd); free(data); return -1; }
	rc = f->write_at(f, strtoull(off, NULL, 10), data, (size_t)dn);
	printf("rc=%d file=", rc); dtok(stdout, g_file, g_file_len);
	printf(" size=%llu", (unsigned long long)f->get_size(f));
	print_tail();
	free(data); sqfs_drop(f);
	return 0;
}

static void print_ostream(sqfs_ostream_t *o)
{
	unsigned long long sp = 0, sz = 0;
	if (o) c12_peek_ostream(o, &sp, &sz);
	fputs("out=", stdout); dtok(stdout, g_sink, g_sink_len);
	printf(" size=%llu sparse=%llu pos=%zu", sz, sp, g_sink_pos);
}

static sqfs_ostream_t *open_ostream(const char *fl)
{
	sqfs_ostream_t *o; int fd = stream_fd(1);
	if (sqfs_ostream_open_handle(&o, "out", fd, (fl[0] == 'n' || fl[0] == 'N') ? SQFS_FILE_OPEN_NO_SPARSE : 0)) { close(fd); return NULL; }
	return o;
}

static int do_ostream(char *fl, char *ops, char *sc)
{
	sqfs_ostream_t *o; char *p, *save = NULL; int rc = 0; size_t idx = 0;
	int cont = (!strcmp(fl, "S") || !strcmp(fl, "N"));   /* the client keeps calling after a failure */
	reset_os();
	if ((strcmp(fl, "s") && strcmp(fl, "n") && !cont) || parse_script(sc)) return -1;
	/* validate ops first */
	{ char *cp = strdup(ops), *q, *s2 = NULL; int bad = 0;
	  if (strcmp(ops, "-")) for (q = strtok_r(cp, ",", &s2); q; q = strtok_r(NULL, ",", &s2)) {
		if (q[0] == 'f' && !q[1]) continue;
		if (q[0] == 'h' && q[1] >= '0' && q[1] <= '9') continue;
		if (q[0] == 'd') { unsigned char *t; if (parse_data(q + 1, &t) >= 0) { free(t); continue; } }
		bad = 1;
	  }
	  free(cp); if (bad) return -1; }
	if (!(o = open_ostream(fl))) return -1;
	if (cont) fputs("rcs=", stdout);
	if (strcmp(ops, "-")) for (p = strtok_r(ops, ",", &save); p; p = strtok_r(NULL, ",", &save)) {
		if (p[0] == 'f') rc = o->flush(o);
		else if (p[0] == 'h') rc = o->append(o, NULL, strtoul(p + 1, NULL, 10));
		else { unsigned char *t; long n = parse_data(p + 1, &t); rc = o->append(o, t, (size_t)n); free(t); }
		if (cont) { printf("%s%d", idx ? "," : "", rc); idx++; continue; }
		if (rc) break;
		idx++;
	}
	if (cont) { if (!idx) putchar('-'); putchar(' '); }
	else printf("rc=%d@%zu ", rc, idx);
	print_ostream(o);
	print_tail();
	sqfs_drop(o);
	return 0;
}

/* ------------------------------------------------------------------ toy codec (same as Sqfs.IoLoops.toyProc) */
typedef struct { xfrm_stream_t base; unsigned k; } toy_t;

/* second codec (same as Sqfs.IoLoops.passProc): bytes pass through unchanged, at most 5 per call */
static int pass_process(xfrm_stream_t *s, const void *in, sqfs_u32 in_size, void *out, sqfs_u32 out_size,
			sqfs_u32 *in_read, sqfs_u32 *out_written, int mode)
{
	toy_t *t = (toy_t *)s;
	sqfs_u32 m = in_size > 64 ? (in_size + 1) / 2 : (in_size > 5 ? 5 : in_size), n = out_size < m ? out_size : m;
	memcpy(out, in, n);
	t->k = (t->k + 1) % 256;
	*in_read += n; *out_written += n;
	if (n < m) return XFRM_STREAM_BUFFER_FULL;
	if (mode == XFRM_STREAM_FLUSH_FULL && n == in_size) return XFRM_STREAM_END;
	return XFRM_STREAM_OK;
}

static int toy_process(xfrm_stream_t *s, const void *in, sqfs_u32 in_size, void *out, sqfs_u32 out_size,
		       sqfs_u32 *in_read, sqfs_u32 *out_written, int mode)
{
	toy_t *t = (toy_t *)s; const unsigned char *ip = in; unsigned char *op = out;
	sqfs_u32 m = in_size > 64 ? (in_size + 1) / 2 : (in_size > 5 ? 5 : in_size), n = (out_size / 2 < m) ? out_size / 2 : m, i;
	if (in_size > 0 && ip[0] == 0xFF) return XFRM_STREAM_ERROR;
	for (i = 0; i < n; ++i) { op[2 * i] = ip[i]; op[2 * i + 1] = ip[i] ^ (unsigned char)t->k; t->k = (t->k + 1) % 256; }
	*in_read += n; *out_written += 2 * n;
	if (n < m) return XFRM_STREAM_BUFFER_FULL;
	if (mode == XFRM_STREAM_FLUSH_FULL && n == in_size) return XFRM_STREAM_END;
	return XFRM_STREAM_OK;
}

/* third codec (same as Sqfs.IoLoops.zProc): toy decompressor. 0xC1, blocks [len 1..254][bytes], end mark [0]; state k:
 * 0 before the magic, 1 length byte next, 2 behind the end mark, 2+r = r bytes of the block left. Errors: wrong magic,
 * length byte 0xFF, end of input anywhere but behind the end mark. */
static int z_process(xfrm_stream_t *s, const void *in, sqfs_u32 in_size, void *out, sqfs_u32 out_size,
		     sqfs_u32 *in_read, sqfs_u32 *out_written, int mode)
{
	toy_t *t = (toy_t *)s; const unsigned char *ip = in; sqfs_u32 r, m0, m, n;
	if (in_size == 0) return (mode == XFRM_STREAM_FLUSH_FULL && t->k != 2) ? XFRM_STREAM_ERROR : XFRM_STREAM_OK;
	if (t->k == 0) { if (ip[0] != 0xC1) return XFRM_STREAM_ERROR; t->k = 1; *in_read += 1; return XFRM_STREAM_OK; }
	if (t->k == 1) {
		if (ip[0] == 0) t->k = 2; else if (ip[0] == 255) return XFRM_STREAM_ERROR; else t->k = 2 + ip[0];
		*in_read += 1; return XFRM_STREAM_OK;
	}
	m0 = in_size > 64 ? (in_size + 1) / 2 : (in_size > 5 ? 5 : in_size);
	if (t->k == 2) { *in_read += m0; return XFRM_STREAM_OK; }
	r = t->k - 2; m = r < m0 ? r : m0; n = out_size < m ? out_size : m;
	memcpy(out, in, n);
	*in_read += n; *out_written += n;
	t->k = (r - n == 0) ? 1 : 2 + (r - n);
	return n < m ? XFRM_STREAM_BUFFER_FULL : XFRM_STREAM_OK;
}

static void toy_destroy(sqfs_object_t *o) { free(o); }

static toy_t *toy_create_mode(int pass)
{
	toy_t *t = calloc(1, sizeof(*t)); if (!t) abort();
	sqfs_object_init(t, toy_destroy, NULL);
	t->base.process_data = pass == 2 ? z_process : (pass ? pass_process : toy_process);
	return t;
}

/* tar_open_stream (the real one, lib/tar/src/iterator.c) asks these two for the compressor behind a magic; linked with
 * -Wl,--wrap so that the toy decompressor is what it wraps the input in. The real text of tar_open_stream runs. */
static toy_t *g_zcodec;
int __wrap_xfrm_compressor_id_from_magic(const void *data, size_t count)
{
	return (count > 0 && ((const unsigned char *)data)[0] == 0xC1) ? 77 : 0;
}
xfrm_stream_t *__wrap_decompressor_stream_create(int id)
{
	if (id != 77) return NULL;
	g_zcodec = toy_create_mode(2);
	return (xfrm_stream_t *)g_zcodec;
}

static toy_t *toy_create(void) { return toy_create_mode(0); }

static int ops_valid(const char *ops, const char *letters)
{
	char *cp = strdup(ops), *q, *s2 = NULL; int bad = 0;
	if (strcmp(ops, "-")) for (q = strtok_r(cp, ",", &s2); q; q = strtok_r(NULL, ",", &s2))
		if (!q[0] || !strchr(letters, q[0]) || q[1] < '0' || q[1] > '9') bad = 1;
	free(cp);
	return !bad;
}

/* run client ops on an istream (file or transforming), printing one observation per op */
static void run_client_ops(sqfs_istream_t *in, sqfs_ostream_t *o, char *ops, size_t *line_num)
{
	char *p, *save = NULL;
	if (strcmp(ops, "-")) for (p = strtok_r(ops, ",", &save); p; p = strtok_r(NULL, ",", &save)) {
		size_t arg = strtoul(p + 1, NULL, 10);
		switch (p[0]) {
		case 'g': {
			const sqfs_u8 *ptr = NULL; size_t sz = 0;
			int r = in->get_buffered_data(in, &ptr, &sz, arg);
			if (r < 0) printf("g%d:- ", r);
			else if (r > 0) { fputs("g1:", stdout); dtok(stdout, ptr, sz); putchar(' '); }
			else { fputs("g0:", stdout); dtok(stdout, ptr, sz); putchar(' '); }
			break; }
		case 'a': in->advance_buffer(in, arg); fputs("a ", stdout); break;
		case 'R': {
			unsigned char *buf = malloc(arg + 1); sqfs_s32 r;
			if (!buf) abort();
			r = sqfs_istream_read(in, buf, arg);
			if (r < 0) printf("R%d ", r); else { printf("R%d:", r); dtok(stdout, buf, (size_t)r); putchar(' '); }
			free(buf); break; }
		case 'S': printf("S%d ", sqfs_istream_skip(in, arg)); break;
		case 'P': printf("P%d ", sqfs_istream_splice(in, o, (sqfs_u32)arg)); break;
		case 'L': {
			char *line = NULL;
			int r = istream_get_line(in, &line, line_num, (int)arg);
			if (r == 0) { fputs("L0:", stdout); dtok(stdout, (unsigned char *)line, strlen(line)); printf(":%zu ", *line_num); }
			else if (r > 0) printf("L1:%zu ", *line_num);
			else printf("L%d:%zu ", r, *line_num);
			free(line); break; }
		case 'M': {
			char *rec = record_to_memory(in, arg);
			if (rec) { fputs("M:", stdout); dtok(stdout, (unsigned char *)rec, arg); putchar(' '); } else fputs("Mnull ", stdout);
			free(rec); break; }
		}
	}
}

static int do_xistream(char *b, char *bx, char *fl, char *d, char *ops, char *sc)
{
	sqfs_istream_t *in, *x; sqfs_ostream_t *o; unsigned char *data; long n; toy_t *codec;
	size_t line_num = 0, off, used, xoff, xused; int eof, fd;
	reset_os();
	if (strtoul(b, NULL, 10) != c12_istream_bufsz() || strtoul(bx, NULL, 10) != c12_xistream_bufsz()) { puts("bad-B"); return 0; }
	if ((strcmp(fl, "s") && strcmp(fl, "n")) || !ops_valid(ops, "gRSPLM")) return -1;
	if ((n = parse_data(d, &data)) < 0) return -1;
	if (parse_script(sc)) { free(data); return -1; }
	g_src = data; g_src_len = (size_t)n;
	fd = stream_fd(0);
	if (sqfs_istream_open_handle(&in, "in", fd, 0)) { close(fd); return -1; }
	codec = toy_create();
	x = istream_xfrm_create(in, (xfrm_stream_t *)codec);
	if (!x || !(o = open_ostream(fl))) { sqfs_drop(in); sqfs_drop(codec); return -1; }
	run_client_ops(x, o, ops, &line_num);
	c12_peek_xistream(x, &xoff, &xused);
	c12_peek_istream(in, &eof, &off, &used);
	printf("xst=%zu,%zu,%u st=%d,%zu,%zu ", xoff, xused, codec->k, eof, off, used); print_ostream(o);
	printf(" ln=%zu", line_num);
	print_tail();
	sqfs_drop(x); sqfs_drop(in); sqfs_drop(codec); sqfs_drop(o);
	return 0;
}

static int do_xostream(char *bx, char *fl, char *ops, char *sc)
{
	sqfs_ostream_t *o, *x; toy_t *codec; char *p, *save = NULL; int rc = 0; size_t idx = 0, inbuf = 0;
	reset_os();
	if (strtoul(bx, NULL, 10) != c12_xostream_bufsz()) { puts("bad-B"); return 0; }
	if ((strcmp(fl, "s") && strcmp(fl, "n")) || parse_script(sc)) return -1;
	{ char *cp = strdup(ops), *q, *s2 = NULL; int bad = 0;
	  if (strcmp(ops, "-")) for (q = strtok_r(cp, ",", &s2); q; q = strtok_r(NULL, ",", &s2)) {
		if (q[0] == 'f' && !q[1]) continue;
		if (q[0] == 'h' && q[1] >= '0' && q[1] <= '9') continue;
		if (q[0] == 'd') { unsigned char *t; if (parse_data(q + 1, &t) >= 0) { free(t); continue; } }
		bad = 1;
	  }
	  free(cp); if (bad) return -1; }
	if (!(o = open_ostream(fl))) return -1;
	codec = toy_create();
	x = ostream_xfrm_create(o, (xfrm_stream_t *)codec);
	if (!x) { sqfs_drop(o); sqfs_drop(codec); return -1; }
	if (strcmp(ops, "-")) for (p = strtok_r(ops, ",", &save); p; p = strtok_r(NULL, ",", &save)) {
		if (p[0] == 'f') rc = x->flush(x);
		else if (p[0] == 'h') rc = x->append(x, NULL, strtoul(p + 1, NULL, 10));
		else { unsigned char *t; long n = parse_data(p + 1, &t); rc = x->append(x, t, (size_t)n); free(t); }
		if (rc) break;
		idx++;
	}
	c12_peek_xostream(x, &inbuf);
	printf("rc=%d@%zu inbuf=%zu k=%u ", rc, idx, inbuf, codec->k); print_ostream(o);
	print_tail();
	sqfs_drop(x); sqfs_drop(o); sqfs_drop(codec);
	return 0;
}

static int do_istream(char *b, char *fl, char *d, char *ops, char *sc)
{
	sqfs_istream_t *in; sqfs_ostream_t *o; unsigned char *data; long n;
	size_t line_num = 0; int eof; size_t off, used; int fd;
	reset_os();
	if (strtoul(b, NULL, 10) != c12_istream_bufsz()) { puts("bad-B"); return 0; }
	if ((strcmp(fl, "s") && strcmp(fl, "n")) || !ops_valid(ops, "gaRSPLM")) return -1;
	if ((n = parse_data(d, &data)) < 0) return -1;
	if (parse_script(sc)) { free(data); return -1; }
	g_src = data; g_src_len = (size_t)n;
	fd = stream_fd(0);
	if (sqfs_istream_open_handle(&in, "in", fd, 0)) { close(fd); return -1; }
	if (!(o = open_ostream(fl))) { sqfs_drop(in); return -1; }
	run_client_ops(in, o, ops, &line_num);
	c12_peek_istream(in, &eof, &off, &used);
	printf("st=%d,%zu,%zu ", eof, off, used); print_ostream(o);
	printf(" ln=%zu", line_num);
	print_tail();
	sqfs_drop(in); sqfs_drop(o);
	return 0;
}

/* one archive member through the real tar iterator: tar_open_stream (probe), it->next (header), open_file_ro,
 * client ops on the member stream (no M: record_to_memory is never applied to a member stream, and its error path calls
 * get_filename, which dereferences the parent the stream has already dropped), drop, it->next.  The geometry the real read_header decodes must be the one the
 * scenario line states (the model takes it from the line). */
/* bx != NULL: the input is a stream of the toy compressor (z_process): tar_open_stream itself must find the magic, wrap
 * the raw file istream into the decompressing istream and set `compressed` (printed as z=1) */
static int do_tarstrm(char *b, char *bx, char *fl, char *d, char *rs, char *fs, char *sp, char *ops, char *sc)
{
	sqfs_istream_t *in, *arch = NULL, *ms = NULL; sqfs_ostream_t *o; unsigned char *data; long n;
	size_t xoff = 0, xused = 0;
	sqfs_dir_iterator_t *it; sqfs_dir_entry_t *ent = NULL;
	size_t line_num = 0, off, used; int eof, fd, rc1, rc2 = 0, have2 = 0, st, z = 0;
	unsigned long long rsz, fsz, offs; char spbuf[512];
	reset_os();
	if (strtoul(b, NULL, 10) != c12_istream_bufsz() || (bx && strtoul(bx, NULL, 10) != c12_xistream_bufsz())) { puts("bad-B"); return 0; }
	if ((strcmp(fl, "s") && strcmp(fl, "n")) || !ops_valid(ops, "gRSP")) return -1;
	if ((n = parse_data(d, &data)) < 0) return -1;
	if (parse_script(sc)) { free(data); return -1; }
	g_src = data; g_src_len = (size_t)n;
	fd = stream_fd(0);
	if (sqfs_istream_open_handle(&in, "in", fd, 0)) { close(fd); return -1; }
	if (!(o = open_ostream(fl))) { sqfs_drop(in); return -1; }
	g_zcodec = NULL;
	it = tar_open_stream(in, NULL);
	if (!it) { sqfs_drop(in); sqfs_drop(o); return -1; }
	c12_peek_tar_stream(it, &arch, &z);
	if (bx && (!z || arch == in || g_zcodec == NULL)) {
		/* probe failed (hard error / end of input at the first read) or no magic: raw stream, outside the model */
		puts("z=0 unmodelled");
		sqfs_drop(it); if (g_zcodec) { sqfs_drop(g_zcodec); g_zcodec = NULL; } sqfs_drop(in); sqfs_drop(o);
		return 0;
	}
	if (!bx && (z || arch != in)) { puts("bad-path"); sqfs_drop(it); sqfs_drop(in); sqfs_drop(o); return 0; }
	rc1 = it->next(it, &ent);
	printf("n1=%d ", rc1);
	if (rc1 == 0) {
		c12_peek_tar(it, &st, &rsz, &fsz, &offs, spbuf, sizeof(spbuf));
		if (rsz != strtoull(rs, NULL, 10) || fsz != strtoull(fs, NULL, 10) || strcmp(spbuf, sp)) {
			printf("bad-hdr decoded=%llu,%llu,%s\n", rsz, fsz, spbuf);
			free(ent); sqfs_drop(it); sqfs_drop(in); sqfs_drop(o);
			return 0;
		}
		if (it->open_file_ro(it, &ms) != 0) { puts("bad-open"); free(ent); sqfs_drop(it); sqfs_drop(in); sqfs_drop(o); return 0; }
		run_client_ops(ms, o, ops, &line_num);
		sqfs_drop(ms);
		free(ent); ent = NULL;
		rc2 = it->next(it, &ent); have2 = 1;
		free(ent);
	}
	c12_peek_tar(it, &st, &rsz, &fsz, &offs, spbuf, sizeof(spbuf));
	if (have2) printf("n2=%d", rc2); else fputs("n2=-", stdout);
	printf(" it=%d,%llu,%llu ", st, rsz, offs);
	if (bx) { c12_peek_xistream(arch, &xoff, &xused); printf("z=%d xst=%zu,%zu,%u ", z, xoff, xused, g_zcodec->k); }
	c12_peek_istream(in, &eof, &off, &used);
	printf("st=%d,%zu,%zu ", eof, off, used); print_ostream(o);
	print_tail();
	/* tar_open_stream keeps the reference decompressor_stream_create returned (it never drops it after
	 * istream_xfrm_create has taken its own): that reference is released here */
	sqfs_drop(it); if (g_zcodec) { sqfs_drop(g_zcodec); g_zcodec = NULL; } sqfs_drop(in); sqfs_drop(o);
	return 0;
}

int main(void)
{
	const char *ft = getenv("C12_FDTYPE");
	if (ft && ft[0]) g_fdtype = ft[0];
	char *line = NULL; size_t cap = 0;
	while (getline(&line, &cap, stdin) > 0) {
		char *w[12]; int n = 0; char *save = NULL, *p;
		for (p = strtok_r(line, " \n", &save); p && n < 12; p = strtok_r(NULL, " \n", &save)) w[n++] = p;
		int r = -1;
		alarm(120);            /* per scenario: a loop that never ends is a result (SIGALRM), not a hang of the check */
		if (n == 1 && !strcmp(w[0], "bufsz")) { printf("%zu\n", c12_istream_bufsz()); r = 0; }
		else if (n == 5 && !strcmp(w[0], "readat")) r = do_readat(w[1], w[2], w[3], w[4]);
		else if (n == 5 && !strcmp(w[0], "writeat")) r = do_writeat(w[1], w[2], w[3], w[4]);
		else if (n == 4 && !strcmp(w[0], "ostream")) r = do_ostream(w[1], w[2], w[3]);
		else if (n == 6 && !strcmp(w[0], "istream")) r = do_istream(w[1], w[2], w[3], w[4], w[5]);
		else if (n == 7 && !strcmp(w[0], "xistream")) r = do_xistream(w[1], w[2], w[3], w[4], w[5], w[6]);
		else if (n == 5 && !strcmp(w[0], "xostream")) r = do_xostream(w[1], w[2], w[3], w[4]);
		else if (n == 1 && !strcmp(w[0], "xbufsz")) { printf("%zu %zu\n", c12_xistream_bufsz(), c12_xostream_bufsz()); r = 0; }
		else if (n == 9 && !strcmp(w[0], "tarstrm")) r = do_tarstrm(w[1], NULL, w[2], w[3], w[4], w[5], w[6], w[7], w[8]);
		else if (n == 10 && !strcmp(w[0], "xtarstrm")) r = do_tarstrm(w[1], w[2], w[3], w[4], w[5], w[6], w[7], w[8], w[9]);
		else if (n == 1 && !strcmp(w[0], "fdtype")) {
			/* what the stream descriptors of this process really are */
			struct stat sb; int fd = stream_fd(0);
			if (fstat(fd, &sb) != 0) { perror("fstat"); exit(3); }
			printf("%c mode=%o tty=%d\n", g_fdtype, (unsigned)(sb.st_mode & S_IFMT), isatty(fd));
			close(fd); r = 0;
		}
		if (r < 0) puts("bad-op");
		fflush(stdout);
	}
	return 0;
}
