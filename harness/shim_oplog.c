/*
 * shim_oplog.c -- LD_PRELOAD logger / crash injector for the output file of the packers (C14, reusable by C13).
 *
 * Build:  gcc -shared -fPIC -O1 shim_oplog.c -o shim_oplog.so -ldl
 * Use with an un-sanitized tool build (LD_PRELOAD and the ASan runtime do not mix).
 *
 * Environment:
 *   OPLOG_PATH     path of the output file to watch (string-equal to what the tool passes to open())
 *   OPLOG_LOG      text log, one line per event on a watched descriptor:
 *                      O <open-flags-hex>            open() of OPLOG_PATH succeeded
 *                      W <offset> <length> <hex|->   pwrite()/pwrite64() (one line per *system call*)
 *                      T <length>                    ftruncate()/ftruncate64()
 *                      X <name> ...                  any other mutating call (write, writev, pwritev, fallocate):
 *                                                    the protocol model knows no such call -> the check reports it
 *   OPLOG_KILL_AT  k: raise SIGKILL instead of performing the k-th (0-based) W/T/X call, i.e. the process dies
 *                  between the (k-1)-th and the k-th output-file system call
 *   OPLOG_FAIL_AT  k[:errno]: the k-th W/T call fails with errno (default ENOSPC) without touching the file
 *   OPLOG_LIMIT    n: "file system full" — every pwrite/ftruncate that would make the file longer than it is and longer
 *                  than n bytes fails with ENOSPC; calls that stay within the bytes already there succeed
 *   OPLOG_ALLOC_FAIL  k: the k-th (0-based) malloc/calloc/realloc call made by any thread after the output file has
 *                  been opened returns NULL (errno ENOMEM)
 *   OPLOG_KILL_AT_UNLINK  1: raise SIGKILL instead of performing unlink()/unlinkat()/remove() of OPLOG_PATH — the
 *                  last kill point of a failing run (all output calls done, cleanup not yet)
 *
 * Further log lines (no operations; a failing run's log shows where it failed and that it cleaned up):
 *                      F <k> <errno> W <offset> <length>     the k-th output call, a pwrite, was made to fail
 *                      F <k> <errno> T <length>              … an ftruncate
 *                      M <k>                                 the k-th allocation after the open was made to fail
 *                      U                                     unlink()/unlinkat()/remove() of OPLOG_PATH succeeded
 *                      A <n>                                 (at exit) allocations counted after the open
 *
 * Only descriptors obtained from open()/open64()/openat() of OPLOG_PATH, and their dup()s, are watched.
 */
#define _GNU_SOURCE
#include <dlfcn.h>
#include <errno.h>
#include <fcntl.h>
#include <signal.h>
#include <stdarg.h>
#include <stdio.h>
#include <stdlib.h>
#include <string.h>
#include <sys/types.h>
#include <sys/uio.h>
#include <unistd.h>

extern void *__libc_malloc(size_t);
static int alloc_armed;
static long alloc_count;
#define MAXFD 1024
static unsigned char watched[MAXFD];
static long opno;
static int logfd = -2;

static int (*real_open)(const char *, int, ...);
static int (*real_open64)(const char *, int, ...);
static int (*real_openat)(int, const char *, int, ...);
static int (*real_dup)(int);
static int (*real_close)(int);
static ssize_t (*real_pwrite)(int, const void *, size_t, off_t);
static ssize_t (*real_pwrite64)(int, const void *, size_t, off64_t);
static ssize_t (*real_write)(int, const void *, size_t);
static int (*real_ftruncate)(int, off_t);
static int (*real_ftruncate64)(int, off64_t);

#define RESOLVE(n) do { if (!real_##n) real_##n = dlsym(RTLD_NEXT, #n); } while (0)

static void raw_write_all(int fd, const char *s, size_t n)
{
	RESOLVE(write);
	while (n > 0) {
		ssize_t r = real_write(fd, s, n);
		if (r <= 0) {
			if (r < 0 && errno == EINTR)
				continue;
			return;
		}
		s += r;
		n -= r;
	}
}

static void logline(const char *s, size_t n)
{
	if (logfd == -2) {
		const char *p = getenv("OPLOG_LOG");
		RESOLVE(open);
		logfd = p ? real_open(p, O_WRONLY | O_CREAT | O_APPEND | O_CLOEXEC, 0644) : -1;
	}
	if (logfd >= 0)
		raw_write_all(logfd, s, n);
}

static int is_target(const char *path)
{
	const char *p = getenv("OPLOG_PATH");
	return p != NULL && path != NULL && strcmp(p, path) == 0;
}

static int is_watched(int fd)
{
	return fd >= 0 && fd < MAXFD && watched[fd];
}

static void note_open(int fd, int flags)
{
	char buf[64];
	int n;
	if (fd < 0 || fd >= MAXFD)
		return;
	watched[fd] = 1;
	n = snprintf(buf, sizeof(buf), "O %x\n", (unsigned)flags);
	logline(buf, n);
	if (getenv("OPLOG_ALLOC_FAIL") != NULL || getenv("OPLOG_ALLOC_COUNT") != NULL)
		alloc_armed = 1;
}

#include <sys/stat.h>

static void log_fail(long k, int err, int is_w, long long a, long long b)
{
	char buf[96];
	int n;
	if (is_w)
		n = snprintf(buf, sizeof(buf), "F %ld %d W %lld %lld\n", k, err, a, b);
	else
		n = snprintf(buf, sizeof(buf), "F %ld %d T %lld\n", k, err, a);
	logline(buf, n);
}

/* returns 0: perform the call; 1: fail it (errno set).  is_w: pwrite(off = a, len = b), else ftruncate(len = a);
   is_w < 0: a foreign call (never failed by OPLOG_LIMIT, not described in the F line) */
static int before_op2(int fd, int is_w, long long a, long long b)
{
	const char *k = getenv("OPLOG_KILL_AT");
	const char *f = getenv("OPLOG_FAIL_AT");
	const char *l = getenv("OPLOG_LIMIT");
	long me = opno++;

	if (k != NULL && atol(k) == me) {
		raise(SIGKILL);
		_exit(137);
	}
	if (f != NULL && atol(f) == me) {
		const char *c = strchr(f, ':');
		int e = c ? atoi(c + 1) : ENOSPC;
		log_fail(me, e, is_w > 0, a, b);
		errno = e;
		return 1;
	}
	if (l != NULL && is_w >= 0) {
		long long end = is_w ? a + b : a;
		struct stat sb;
		if ((is_w == 0 || b > 0) && end > atoll(l) && fstat(fd, &sb) == 0 && end > (long long)sb.st_size) {
			log_fail(me, ENOSPC, is_w, a, b);
			errno = ENOSPC;
			return 1;
		}
	}
	return 0;
}

static int before_op(void)
{
	return before_op2(-1, -1, 0, 0);
}

/* ---- allocation faults (armed by the open of the output file) ---- */
extern void *__libc_malloc(size_t);
extern void *__libc_calloc(size_t, size_t);
extern void *__libc_realloc(void *, size_t);

static int alloc_fails(void)
{
	const char *a;
	long me;
	if (!alloc_armed)
		return 0;
	me = __atomic_fetch_add(&alloc_count, 1, __ATOMIC_SEQ_CST);
	a = getenv("OPLOG_ALLOC_FAIL");
	if (a != NULL && atol(a) == me) {
		char buf[48];
		int n = snprintf(buf, sizeof(buf), "M %ld\n", me);
		logline(buf, n);
		errno = ENOMEM;
		return 1;
	}
	return 0;
}

void *malloc(size_t n) { return alloc_fails() ? NULL : __libc_malloc(n); }
void *calloc(size_t a, size_t b) { return alloc_fails() ? NULL : __libc_calloc(a, b); }
void *realloc(void *p, size_t n) { return alloc_fails() ? NULL : __libc_realloc(p, n); }

__attribute__((destructor)) static void oplog_fini(void)
{
	if (alloc_armed && getenv("OPLOG_ALLOC_COUNT") != NULL) {
		char buf[48];
		int n = snprintf(buf, sizeof(buf), "A %ld\n", alloc_count);
		logline(buf, n);
	}
}

/* ---- the cleanup of a failing run ---- */
static int before_unlink(const char *path)
{
	if (!is_target(path))
		return 0;
	if (getenv("OPLOG_KILL_AT_UNLINK") != NULL) {
		raise(SIGKILL);
		_exit(137);
	}
	return 1;
}

int unlink(const char *path)
{
	static int (*real)(const char *);
	int t = before_unlink(path), r;
	if (!real)
		real = dlsym(RTLD_NEXT, "unlink");
	r = real(path);
	if (t && r == 0)
		logline("U\n", 2);
	return r;
}

int unlinkat(int dirfd, const char *path, int flags)
{
	static int (*real)(int, const char *, int);
	int t = before_unlink(path), r;
	if (!real)
		real = dlsym(RTLD_NEXT, "unlinkat");
	r = real(dirfd, path, flags);
	if (t && r == 0)
		logline("U\n", 2);
	return r;
}

int remove(const char *path)
{
	static int (*real)(const char *);
	int t = before_unlink(path), r;
	if (!real)
		real = dlsym(RTLD_NEXT, "remove");
	r = real(path);
	if (t && r == 0)
		logline("U\n", 2);
	return r;
}

static void log_write(off64_t off, const void *data, size_t len)
{
	/* one write() per line: lines of other threads (M: a failed allocation) must not end up inside it */
	static const char hx[] = "0123456789abcdef";
	size_t i, n;
	char head[64];
	char *buf;
	n = snprintf(head, sizeof(head), "W %lld %zu ", (long long)off, len);
	buf = __libc_malloc(n + 2 * len + 2);
	if (buf == NULL) {
		logline(head, n);
		logline("?\n", 2);
		return;
	}
	memcpy(buf, head, n);
	if (len == 0)
		buf[n++] = '-';
	for (i = 0; i < len; ++i) {
		buf[n++] = hx[((const unsigned char *)data)[i] >> 4];
		buf[n++] = hx[((const unsigned char *)data)[i] & 15];
	}
	buf[n++] = '\n';
	logline(buf, n);
	free(buf);
}

int open(const char *path, int flags, ...)
{
	mode_t mode = 0;
	int fd;
	RESOLVE(open);
	if (flags & (O_CREAT | O_TMPFILE)) {
		va_list ap; va_start(ap, flags); mode = va_arg(ap, mode_t); va_end(ap);
	}
	fd = real_open(path, flags, mode);
	if (fd >= 0 && is_target(path) && (flags & O_ACCMODE) != O_RDONLY)
		note_open(fd, flags);
	return fd;
}

int open64(const char *path, int flags, ...)
{
	mode_t mode = 0;
	int fd;
	RESOLVE(open64);
	if (flags & (O_CREAT | O_TMPFILE)) {
		va_list ap; va_start(ap, flags); mode = va_arg(ap, mode_t); va_end(ap);
	}
	fd = real_open64(path, flags, mode);
	if (fd >= 0 && is_target(path) && (flags & O_ACCMODE) != O_RDONLY)
		note_open(fd, flags);
	return fd;
}

int openat(int dirfd, const char *path, int flags, ...)
{
	mode_t mode = 0;
	int fd;
	RESOLVE(openat);
	if (flags & (O_CREAT | O_TMPFILE)) {
		va_list ap; va_start(ap, flags); mode = va_arg(ap, mode_t); va_end(ap);
	}
	fd = real_openat(dirfd, path, flags, mode);
	if (fd >= 0 && is_target(path) && (flags & O_ACCMODE) != O_RDONLY)
		note_open(fd, flags);
	return fd;
}

int dup(int fd)
{
	int r;
	RESOLVE(dup);
	r = real_dup(fd);
	if (r >= 0 && r < MAXFD && is_watched(fd))
		watched[r] = 1;
	return r;
}

int close(int fd)
{
	RESOLVE(close);
	if (fd >= 0 && fd < MAXFD)
		watched[fd] = 0;
	return real_close(fd);
}

ssize_t pwrite(int fd, const void *buf, size_t n, off_t off)
{
	ssize_t r;
	RESOLVE(pwrite);
	if (!is_watched(fd))
		return real_pwrite(fd, buf, n, off);
	if (before_op2(fd, 1, (long long)off, (long long)n))
		return -1;
	r = real_pwrite(fd, buf, n, off);
	if (r >= 0)
		log_write(off, buf, (size_t)r);
	return r;
}

ssize_t pwrite64(int fd, const void *buf, size_t n, off64_t off)
{
	ssize_t r;
	RESOLVE(pwrite64);
	if (!is_watched(fd))
		return real_pwrite64(fd, buf, n, off);
	if (before_op2(fd, 1, (long long)off, (long long)n))
		return -1;
	r = real_pwrite64(fd, buf, n, off);
	if (r >= 0)
		log_write(off, buf, (size_t)r);
	return r;
}

int ftruncate(int fd, off_t len)
{
	int r;
	RESOLVE(ftruncate);
	if (!is_watched(fd))
		return real_ftruncate(fd, len);
	if (before_op2(fd, 0, (long long)len, 0))
		return -1;
	r = real_ftruncate(fd, len);
	if (r == 0) {
		char b[64];
		int n = snprintf(b, sizeof(b), "T %lld\n", (long long)len);
		logline(b, n);
	}
	return r;
}

int ftruncate64(int fd, off64_t len)
{
	int r;
	RESOLVE(ftruncate64);
	if (!is_watched(fd))
		return real_ftruncate64(fd, len);
	if (before_op2(fd, 0, (long long)len, 0))
		return -1;
	r = real_ftruncate64(fd, len);
	if (r == 0) {
		char b[64];
		int n = snprintf(b, sizeof(b), "T %lld\n", (long long)len);
		logline(b, n);
	}
	return r;
}

ssize_t write(int fd, const void *buf, size_t n)
{
	RESOLVE(write);
	if (is_watched(fd)) {
		char b[64];
		int l;
		if (before_op())
			return -1;
		l = snprintf(b, sizeof(b), "X write %zu\n", n);
		logline(b, l);
	}
	return real_write(fd, buf, n);
}

#define FOREIGN(name, proto, args, fdarg)                                   \
	proto                                                               \
	{                                                                   \
		static ssize_t (*real)();                                   \
		if (!real)                                                  \
			real = dlsym(RTLD_NEXT, #name);                     \
		if (is_watched(fdarg)) {                                    \
			char b[64];                                         \
			int l;                                              \
			if (before_op())                                    \
				return -1;                                  \
			l = snprintf(b, sizeof(b), "X " #name "\n");        \
			logline(b, l);                                      \
		}                                                           \
		return real args;                                           \
	}

FOREIGN(writev, ssize_t writev(int fd, const struct iovec *iov, int cnt), (fd, iov, cnt), fd)
FOREIGN(pwritev, ssize_t pwritev(int fd, const struct iovec *iov, int cnt, off_t off), (fd, iov, cnt, off), fd)
FOREIGN(fallocate, int fallocate(int fd, int mode, off_t off, off_t len), (fd, mode, off, len), fd)
FOREIGN(posix_fallocate, int posix_fallocate(int fd, off_t off, off_t len), (fd, off, len), fd)
