/*
 * C03 numbering harness: the real fstree_post_process() (lib/fstree/src/post_process.c) on the same lines as
 * `sqfsmodel c03 ops`:
 *
 *   num <spec>        spec: the root's children in (name-sorted) order; f = non-directory, h<k> = hard link entry
 *                     pointing at the k-th f of the spec (counted from 0 in spec order; h = h0), ( ... ) = directory.
 *                     e.g.  num f(fh1(f))fh3
 *
 * Nodes are named by their position (zero padded) so that the tree's own name sort keeps the order of the spec.
 * A link to an f that does not exist is answered with bad-op.
 *   names <hex>...    fstree_add_generic of a fifo named <hex> (a path component) below "/" per token (insert_sorted,
 *                     child_by_name, mknode); output: rc per name (0 | errno name), the root's children in list order,
 *                     the root's link count:   rc=0,0,EEXIST order=61,62 link=4
 *
 * Output of num: the same nesting with inode numbers:  n for f, - for h, ( ... )n for directories, root last:
 *   (4 (2 - (1)3)5 6)7 count=7
 */
#include "config.h"
#include "fstree.h"
#include <stdio.h>
#include <stdlib.h>
#include <string.h>
#include <errno.h>

#define MAXFILES 100000
static char *files[MAXFILES];
static size_t nfiles;

static sqfs_dir_entry_t *mkent(const char *path, sqfs_u16 mode, sqfs_u16 flags)
{
	sqfs_dir_entry_t *e = calloc(1, sizeof(*e) + strlen(path) + 1);
	strcpy(e->name, path);
	e->mode = mode;
	e->flags = flags;
	return e;
}

/* pass 1: create directories and files; pass 2: hard links (targets exist then) */
static const char *build(fstree_t *fs, const char *s, const char *prefix, int pass, int *err)
{
	int idx = 0;
	while (*s && *s != ')') {
		char path[4096];
		sqfs_dir_entry_t *e;
		snprintf(path, sizeof(path), "%s%s%06d", prefix, prefix[0] ? "/" : "", idx++);
		if (*s == 'f') {
			if (pass == 1) {
				e = mkent(path, S_IFIFO | 0644, 0);
				if (!fstree_add_generic(fs, e, NULL)) *err = 1;
				free(e);
				if (nfiles < MAXFILES) files[nfiles++] = strdup(path);
			}
			++s;
		} else if (*s == 'h') {
			size_t k = 0;
			++s;
			while (*s >= '0' && *s <= '9') k = k * 10 + (size_t)(*s++ - '0');
			if (pass == 2) {
				if (k >= nfiles) { *err = 2; return s; }
				e = mkent(path, S_IFLNK | 0777, SQFS_DIR_ENTRY_FLAG_HARD_LINK);
				if (!fstree_add_generic(fs, e, files[k])) *err = 1;
				free(e);
			}
		} else if (*s == '(') {
			if (pass == 1) {
				e = mkent(path, S_IFDIR | 0755, 0);
				if (!fstree_add_generic(fs, e, NULL)) *err = 1;
				free(e);
			}
			s = build(fs, s + 1, path, pass, err);
			if (*s != ')') { *err = 2; return s; }
			++s;
		} else { *err = 2; return s; }
	}
	return s;
}

static void dump(tree_node_t *n)
{
	tree_node_t *it;
	int first = 1;
	putchar('(');
	for (it = n->data.children; it; it = it->next) {
		if (!first) putchar(' ');
		first = 0;
		if (S_ISDIR(it->mode)) dump(it);
		else if (S_ISLNK(it->mode) && (it->flags & FLAG_LINK_IS_HARD)) putchar('-');
		else printf("%u", it->inode_num);
	}
	printf(")%u", n->inode_num);
}

static int hexv(int c) { return c >= '0' && c <= '9' ? c - '0' : c >= 'a' && c <= 'f' ? c - 'a' + 10 : -1; }

static void op_names(void)
{
	fstree_defaults_t def;
	fstree_t fs;
	tree_node_t *it;
	char *tok;
	int first = 1;
	memset(&def, 0, sizeof(def));
	def.mode = 0755;
	if (fstree_init(&fs, &def)) { puts("err init"); return; }
	fputs("rc=", stdout);
	while ((tok = strtok(NULL, " \n")) != NULL) {
		size_t n = strlen(tok) / 2, i;
		sqfs_dir_entry_t *e = calloc(1, sizeof(*e) + n + 1);
		int bad = (strlen(tok) % 2) != 0 || n == 0;
		for (i = 0; i < n && !bad; ++i) {
			int a = hexv(tok[2 * i]), b = hexv(tok[2 * i + 1]);
			if (a < 0 || b < 0 || (a == 0 && b == 0) || (a * 16 + b) == '/') bad = 1; else e->name[i] = (char)(a * 16 + b);
		}
		if (bad) { free(e); fstree_cleanup(&fs); puts(" bad-op"); return; }
		e->mode = S_IFIFO | 0644;
		errno = 0;
		if (!first) putchar(',');
		first = 0;
		if (fstree_add_generic(&fs, e, NULL)) putchar('0');
		else fputs(errno == EEXIST ? "EEXIST" : errno == EMLINK ? "EMLINK" : "ERR", stdout);
		free(e);
	}
	fputs(" order=", stdout);
	if (!fs.root->data.children) putchar('-');
	for (it = fs.root->data.children; it; it = it->next) {
		const unsigned char *p;
		if (it != fs.root->data.children) putchar(',');
		for (p = (const unsigned char *)it->name; *p; ++p) printf("%02x", *p);
	}
	printf(" link=%u\n", fs.root->link_count);
	fstree_cleanup(&fs);
}

int main(void)
{
	static char line[1 << 22];
	while (fgets(line, sizeof(line), stdin)) {
		char *op = strtok(line, " \n"), *spec;
		fstree_defaults_t def;
		fstree_t fs;
		int err = 0;
		if (op && !strcmp(op, "names")) { op_names(); fflush(stdout); continue; }
		spec = strtok(NULL, " \n");
		if (!op || strcmp(op, "num")) { puts("bad-op"); continue; }
		if (!spec) spec = "";
		memset(&def, 0, sizeof(def));
		def.mode = 0755;
		while (nfiles) free(files[--nfiles]);
		if (fstree_init(&fs, &def)) { puts("err init"); continue; }
		if (*build(&fs, spec, "", 1, &err) || err) { puts(err == 2 ? "bad-op" : "err add"); fstree_cleanup(&fs); continue; }
		build(&fs, spec, "", 2, &err);
		if (err) { puts(err == 2 ? "bad-op" : "err link"); fstree_cleanup(&fs); continue; }
		if (fstree_post_process(&fs)) { puts("err post"); fstree_cleanup(&fs); continue; }
		dump(fs.root);
		printf(" count=%zu\n", fs.unique_inode_count);
		fstree_cleanup(&fs);
		fflush(stdout);
	}
	return 0;
}
