/*
 * CPU-time watchdog for harnesses whose code under test may spin.  verif_cpu_watchdog(secs) (re)arms a virtual-time
 * timer: it only runs while this process is on a CPU, so a loaded machine does not trigger it.  When it fires the
 * harness ends the current output line with " HANG" and exits with status 3.  verif_cpu_watchdog(0) disarms.
 */
#ifndef VERIF_CPU_WATCHDOG_H
#define VERIF_CPU_WATCHDOG_H
#include <signal.h>
#include <string.h>
#include <unistd.h>
#include <sys/time.h>
static void verif_on_vtalrm(int sig)
{
	static const char m[] = " HANG\n";
	(void)sig;
	if (write(1, m, sizeof(m) - 1) < 0) {}
	_exit(3);
}
static void verif_cpu_watchdog(unsigned secs)
{
	struct itimerval it;
	memset(&it, 0, sizeof(it));
	it.it_value.tv_sec = secs;
	signal(SIGVTALRM, verif_on_vtalrm);
	setitimer(ITIMER_VIRTUAL, &it, NULL);
}
#endif
