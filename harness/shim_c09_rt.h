/*
 * shim_c09_rt.h — C09 real-thread stress shim.
 *
 * Unlike shim_sched.h (cooperative scheduler: one thread at a time, steps between blocking points) this shim
 * keeps the *real* libpthread: every pthread_{create,join,mutex_lock,mutex_unlock,cond_wait,cond_broadcast,
 * cond_signal} call of the translation unit compiled with `-include shim_c09_rt.h` goes through a wrapper that
 * injects a seeded random perturbation (nothing / sched_yield / a sleep of 1..300 us / rarely 1..3 ms) BEFORE and
 * AFTER the real call, so that the windows around lock acquisition and — in particular — right after
 * pthread_mutex_unlock are widened at random.  Used by harness/h_c09rt.c in two builds: plain (-O1, no
 * sanitizer; hang detector) and -fsanitize=thread (happens-before race detector = the lockset monitor for the
 * pool's shared fields: a field that is written by one thread and accessed by another without the mutex (outside
 * initialisation before pthread_create / teardown after pthread_join) is reported as a data race).
 *
 * The wrappers are defined in h_c09rt.c.
 */
#ifndef VERIF_SHIM_C09_RT_H
#define VERIF_SHIM_C09_RT_H

#include <pthread.h>
#include <signal.h>

int rt_pthread_create(pthread_t *t, const pthread_attr_t *a, void *(*fn)(void *), void *arg);
int rt_pthread_join(pthread_t t, void **ret);
int rt_mutex_lock(pthread_mutex_t *m);
int rt_mutex_unlock(pthread_mutex_t *m);
int rt_cond_wait(pthread_cond_t *c, pthread_mutex_t *m);
int rt_cond_signal(pthread_cond_t *c);
int rt_cond_broadcast(pthread_cond_t *c);

#ifndef RT_NO_REDIRECT
#define pthread_create rt_pthread_create
#define pthread_join rt_pthread_join
#define pthread_mutex_lock rt_mutex_lock
#define pthread_mutex_unlock rt_mutex_unlock
#define pthread_cond_wait rt_cond_wait
#define pthread_cond_signal rt_cond_signal
#define pthread_cond_broadcast rt_cond_broadcast
#endif

#endif
