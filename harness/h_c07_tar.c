/*
 * C07 harness, tar side: the real tar iterator of the working tree (lib/tar: read_header, pax_header,
 * sparse map readers, iterator.c; lib/xfrm stream wrappers when the input is compressed) on one file.
 *
 *   h_c07_tar <archive> [max-bytes-per-member]
 *
 * prints one line per member
 *   E <namehex> <mode-octal> <declared size> <H|-> <linkhex|-> [D <bytes delivered> <fnv1a of the data>] | [BIG]
 * and finally `END <0 = clean end of archive | negative SQFS_ERROR code>`.  Reading a member stops after the limit
 * (BIG): the check uses this to keep *mutated* archives that merely declare huge sparse files (holes cost no input)
 * away from the packers, whose running time is proportional to the declared size — a defect of its own (a finite
 * input, unbounded time) that the check probes separately with declared sizes 2^40 / 2^50 / 2^60 under a CPU limit.
 */
#include "config.h"
#include "sqfs/io.h"
#include "sqfs/error.h"
#include "sqfs/dir_entry.h"
#include "tar/tar.h"
#include "common.h"
#include "hexio.h"
#include <sys/stat.h>

int main(int argc, char **argv)
{
	sqfs_u64 limit = argc > 2 ? strtoull(argv[2], NULL, 10) : (64ULL << 20);
	sqfs_dir_iterator_t *it;
	sqfs_istream_t *fp;
	int ret;

	if (argc < 2) return 2;
	ret = sqfs_istream_open_file(&fp, argv[1], 0);
	if (ret) { printf("END open %d\n", ret); return 1; }
	it = tar_open_stream(fp, NULL);
	sqfs_drop(fp);
	if (it == NULL) { puts("END nomem"); return 1; }

	for (;;) {
		sqfs_dir_entry_t *ent = NULL;
		char *link = NULL;

		ret = it->next(it, &ent);
		if (ret != 0) break;

		fputs("E ", stdout);
		hex_print(stdout, (unsigned char *)ent->name, strlen(ent->name));
		printf(" %o %llu %s ", (unsigned)ent->mode, (unsigned long long)ent->size,
		       (ent->flags & SQFS_DIR_ENTRY_FLAG_HARD_LINK) ? "H" : "-");
		if (S_ISLNK(ent->mode) && it->read_link(it, &link) == 0 && link != NULL)
			hex_print(stdout, (unsigned char *)link, strlen(link));
		else
			putchar('-');
		free(link);

		if (S_ISREG(ent->mode)) {
			{
				sqfs_istream_t *in = NULL;
				sqfs_u64 total = 0, h = 1469598103934665603ULL;
				int r = it->open_file_ro(it, &in);
				if (r == 0) {
					for (;;) {
						const sqfs_u8 *p; size_t n, i;
						r = in->get_buffered_data(in, &p, &n, 65536);
						if (r != 0) break;
						for (i = 0; i < n; ++i) h = (h ^ p[i]) * 1099511628211ULL;
						total += n;
						in->advance_buffer(in, n);
						if (total > limit) { r = -9999; break; }
					}
					sqfs_drop(in);
				}
				if (r == -9999)
					fputs(" BIG", stdout);
				else
					printf(" D %llu %016llx r=%d", (unsigned long long)total, (unsigned long long)h, r);
			}
		}
		putchar('\n');
		free(ent);
	}
	printf("END %d\n", ret > 0 ? 0 : ret);
	sqfs_drop(it);
	return ret > 0 ? 0 : 1;
}
