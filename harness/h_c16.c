/*
 * C16 harness: the real split_line.c, parse_int.c, get_line.c, fstree_from_file.c (handle_line and the per-line
 * loop, with fstree_add_generic replaced by a recorder so that exactly what handle_line decodes is observed) and
 * describe.c (h_c16_desc.c) on the same line protocol as `sqfsmodel c16` (lean/Driver/C16.lean).
 */
#include "bin/gensquashfs/src/fstree_from_file.c"
#include "hexio.h"
#include <sys/sysmacros.h>

/* ---- recorder in place of lib/fstree's fstree_add_generic / gensquashfs' glob_files ---- */
static char *rec_buf;
static size_t rec_len;
static FILE *rec;
static size_t rec_count;
static tree_node_t rec_dummy;

tree_node_t *fstree_add_generic(fstree_t *fs, const sqfs_dir_entry_t *ent, const char *extra)
{
	(void)fs;
	fputc(' ', rec);
	hex_print(rec, (const unsigned char *)ent->name, strlen(ent->name));
	fprintf(rec, " %u %llu %llu %llu %u ", (unsigned)ent->mode, (unsigned long long)ent->uid,
		(unsigned long long)ent->gid, (unsigned long long)ent->rdev, (unsigned)ent->flags);
	if (extra == NULL)
		fputs("NULL", rec);
	else
		hex_print(rec, (const unsigned char *)extra, strlen(extra));
	rec_count++;
	return &rec_dummy;
}

int glob_files(fstree_t *fs, const char *filename, size_t line_num, const sqfs_dir_entry_t *ent,
	       const char *basepath, unsigned int glob_flags, split_line_t *sep)
{
	(void)fs; (void)filename; (void)line_num; (void)ent; (void)basepath; (void)glob_flags; (void)sep;
	fputs("GLOBSTUB\n", stderr);
	return -1;
}

char *c16_capture_describe(const sqfs_tree_node_t *node, const char *unpack_root, size_t *len, int *rc, const char **cls);
char *c16_capture_escaped(const char *str, size_t *len, int *rc);

/* ---- classification of the diagnostics of fstree_from_file_stream ---- */
static int ends_with(const char *s, size_t n, const char *suf)
{
	size_t m = strlen(suf);
	return n >= m && memcmp(s + n - m, suf, m) == 0;
}

static const char *after_prefix(const char *s)
{
	/* "memfile: <digits>: " */
	if (strncmp(s, "memfile: ", 9) != 0) return NULL;
	s += 9;
	while (*s >= '0' && *s <= '9') ++s;
	if (s[0] != ':' || s[1] != ' ') return NULL;
	return s + 2;
}

static const char *classify(const char *err, size_t n)
{
	const char *m;
	if (ends_with(err, n, "GLOBSTUB\n")) return "h:glob";
	if (ends_with(err, n, ": too many arguments\n")) return "h:toomany";
	m = after_prefix(err);
	if (m == NULL) return "unknown";
	if (!strncmp(m, "missing `\"`.", 12)) return "split:quote";
	if (!strncmp(m, "broken escape sequence.", 23)) return "split:esc";
	if (!strncmp(m, "cannot use / as argument for", 28)) return "h:root";
	if (!strncmp(m, "missing argument for", 20)) return "h:noextra";
	if (!strncmp(m, "uid & gid must be", 17)) return "h:uidgid";
	if (!strncmp(m, "mode must be", 12)) return "h:mode";
	if (!strncmp(m, "unknown entry type", 18)) return "h:keyword";
	if (!strncmp(m, "error in entry description", 26)) return "h:entry";
	if (!strncmp(m, "wrong number of arguments", 25)) return "h:devargs";
	if (!strncmp(m, "unknown device type", 19)) return "h:devtype";
	if (!strncmp(m, "error parsing device number", 27)) return "h:devnum";
	return "unknown";
}

/* ---- node construction for describe ---- */
static unsigned kind_ifmt(const char *k, int *known)
{
	*known = 1;
	if (!strcmp(k, "dir")) return S_IFDIR;
	if (!strcmp(k, "file")) return S_IFREG;
	if (!strcmp(k, "slink")) return S_IFLNK;
	if (!strcmp(k, "chr")) return S_IFCHR;
	if (!strcmp(k, "blk")) return S_IFBLK;
	if (!strcmp(k, "fifo")) return S_IFIFO;
	if (!strcmp(k, "sock")) return S_IFSOCK;
	if (!strcmp(k, "other")) return 0;
	*known = 0;
	return 0;
}

static sqfs_tree_node_t *mk_node(const unsigned char *name, size_t nlen)
{
	sqfs_tree_node_t *n = calloc(1, sizeof(*n) + nlen + 1);
	if (!n) abort();
	memcpy(n->name, name, nlen);
	return n;
}

/* kind perm uid gid devno target: 6 tokens */
static int fill_node(sqfs_tree_node_t *n, char **t)
{
	int known;
	unsigned ifmt = kind_ifmt(t[0], &known);
	unsigned long perm = strtoul(t[1], NULL, 10), uid = strtoul(t[2], NULL, 10), gid = strtoul(t[3], NULL, 10);
	unsigned long devno = strtoul(t[4], NULL, 10);
	unsigned char *target;
	long tl = hex_decode_tok(t[5], &target, 1);
	sqfs_inode_generic_t *ino;
	if (!known || tl < 0) return -1;
	ino = calloc(1, sizeof(*ino) + (size_t)tl + 1);
	if (!ino) abort();
	ino->base.mode = (sqfs_u16)(ifmt | perm);
	n->uid = (sqfs_u32)uid;
	n->gid = (sqfs_u32)gid;
	switch (ifmt) {
	case S_IFDIR: ino->base.type = SQFS_INODE_DIR; break;
	case S_IFREG: ino->base.type = SQFS_INODE_FILE; break;
	case S_IFLNK:
		ino->base.type = SQFS_INODE_SLINK;
		ino->data.slink.target_size = (sqfs_u32)tl;
		memcpy(ino->extra, target, (size_t)tl);
		break;
	case S_IFCHR:
	case S_IFBLK:
		/* both on-disk layouts must print the same: use the extended one for odd gids */
		if (gid & 1) {
			ino->base.type = ifmt == S_IFCHR ? SQFS_INODE_EXT_CDEV : SQFS_INODE_EXT_BDEV;
			ino->data.dev_ext.devno = (sqfs_u32)devno;
		} else {
			ino->base.type = ifmt == S_IFCHR ? SQFS_INODE_CDEV : SQFS_INODE_BDEV;
			ino->data.dev.devno = (sqfs_u32)devno;
		}
		break;
	case S_IFIFO: ino->base.type = SQFS_INODE_FIFO; break;
	case S_IFSOCK: ino->base.type = SQFS_INODE_SOCKET; break;
	default: ino->base.type = 0; break;
	}
	free(target);
	n->inode = ino;
	return 0;
}

static void free_tree(sqfs_tree_node_t *n)
{
	while (n->children) {
		sqfs_tree_node_t *c = n->children;
		n->children = c->next;
		free_tree(c);
	}
	free(n->inode);
	free(n);
}

static void print_describe(sqfs_tree_node_t *node, const char *rootarg)
{
	unsigned char *ur = NULL;
	long ul = 0;
	size_t len = 0;
	int rc;
	char *out;
	const char *cls = "";
	if (strcmp(rootarg, "NONE") != 0) {
		ul = hex_decode_tok(rootarg, &ur, 1);
		if (ul < 0 || memchr(ur, 0, (size_t)ul)) { puts("bad-op"); free(ur); return; }
	}
	out = c16_capture_describe(node, (const char *)ur, &len, &rc, &cls);
	if (rc != 0) printf("err %s\n", cls);
	else { fputs("ok ", stdout); hex_print(stdout, (unsigned char *)out, len); putchar('\n'); }
	free(out);
	free(ur);
}

#define MAXTOK 200000
static char line[1 << 24];
static char *tok[MAXTOK];

int main(void)
{
	while (fgets(line, sizeof(line), stdin)) {
		size_t nt = 0;
		char *p = strtok(line, " \n");
		while (p && nt < MAXTOK) { tok[nt++] = p; p = strtok(NULL, " \n"); }
		if (nt == 0) { puts("bad-op"); continue; }

		if ((!strcmp(tok[0], "split") || !strcmp(tok[0], "pos")) && nt == 2) {
			unsigned char *buf;
			long n = hex_decode_tok(tok[1], &buf, 1);
			split_line_t *sep = NULL;
			int rc;
			if (n < 0) { puts("bad-op"); continue; }
			rc = split_line((char *)buf, (size_t)n, " \t", &sep);
			if (rc == SPLIT_LINE_UNMATCHED_QUOTE) puts("err quote");
			else if (rc == SPLIT_LINE_ESCAPE) puts("err esc");
			else if (rc != SPLIT_LINE_OK) puts("err other");
			else if (!strcmp(tok[0], "split")) {
				printf("ok %zu", sep->count);
				for (size_t i = 0; i < sep->count; ++i) {
					putchar(' ');
					hex_print(stdout, (unsigned char *)sep->args[i], strlen(sep->args[i]));
				}
				putchar('\n');
				free(sep);
			} else {
				fputs("ok", stdout);
				for (size_t i = 0; i < sep->count; ++i)
					printf(" %zu", (size_t)(sep->args[i] - (char *)buf));
				putchar('\n');
				free(sep);
			}
			free(buf);
		} else if ((!strcmp(tok[0], "splitsep") || !strcmp(tok[0], "possep")) && nt == 3) {
			unsigned char *sepb, *buf;
			long sl = hex_decode_tok(tok[1], &sepb, 1), n;
			split_line_t *sep = NULL;
			int rc;
			if (sl < 0 || memchr(sepb, 0, (size_t)sl)) { puts("bad-op"); continue; }
			n = hex_decode_tok(tok[2], &buf, 1);
			if (n < 0) { puts("bad-op"); free(sepb); continue; }
			rc = split_line((char *)buf, (size_t)n, (const char *)sepb, &sep);
			if (rc == SPLIT_LINE_UNMATCHED_QUOTE) puts("err quote");
			else if (rc == SPLIT_LINE_ESCAPE) puts("err esc");
			else if (rc != SPLIT_LINE_OK) puts("err other");
			else if (!strcmp(tok[0], "possep")) {
				fputs("ok", stdout);
				for (size_t i = 0; i < sep->count; ++i)
					printf(" %zu", (size_t)(sep->args[i] - (char *)buf));
				putchar('\n');
				free(sep);
			} else {
				printf("ok %zu", sep->count);
				for (size_t i = 0; i < sep->count; ++i) {
					putchar(' ');
					hex_print(stdout, (unsigned char *)sep->args[i], strlen(sep->args[i]));
				}
				putchar('\n');
				free(sep);
			}
			free(buf);
			free(sepb);
		} else if (!strcmp(tok[0], "esc") && nt == 3) {
			unsigned char *buf;
			long n = hex_decode_tok(tok[2], &buf, 1);
			size_t len = 0;
			int rc;
			char *out;
			if (n < 0 || memchr(buf, 0, (size_t)n)) { puts("bad-op"); continue; }
			out = c16_capture_escaped((const char *)buf, &len, &rc);
			if (rc == -2) puts("nofn");
			else if (rc != 0) puts("err newline");
			else { fputs("ok ", stdout); hex_print(stdout, (unsigned char *)out, len); putchar('\n'); }
			free(out);
			free(buf);
		} else if (!strcmp(tok[0], "dev") && nt == 2) {
			unsigned long long d = strtoull(tok[1], NULL, 10);
			printf("%u %u %llu\n", major(d), minor(d), (unsigned long long)makedev(major(d), minor(d)));
		} else if (!strcmp(tok[0], "mkdev") && nt == 3) {
			sqfs_u64 a = strtoull(tok[1], NULL, 10), b = strtoull(tok[2], NULL, 10);
			printf("%llu\n", (unsigned long long)makedev(a, b));
		} else if (!strcmp(tok[0], "num") && nt == 4) {
			unsigned long base = strtoul(tok[1], NULL, 10);
			unsigned long long vmax = strtoull(tok[2], NULL, 10);
			unsigned char *buf;
			long n = hex_decode_tok(tok[3], &buf, 1);
			sqfs_u64 out;
			int rc;
			if (n < 0 || memchr(buf, 0, (size_t)n) || (base != 8 && base != 10)) { puts("bad-op"); continue; }
			rc = base == 8 ? parse_uint_oct((char *)buf, -1, NULL, 0, vmax, &out)
				       : parse_uint((char *)buf, -1, NULL, 0, vmax, &out);
			if (rc == 0) printf("ok %llu\n", (unsigned long long)out);
			else if (rc == SQFS_ERROR_CORRUPTED) puts("err corrupted");
			else if (rc == SQFS_ERROR_OVERFLOW) puts("err overflow");
			else if (rc == SQFS_ERROR_OUT_OF_BOUNDS) puts("err oob");
			else puts("err other");
			free(buf);
		} else if ((!strcmp(tok[0], "parse") || !strcmp(tok[0], "parsef")) && nt == 6) {
			unsigned char *buf;
			long n = hex_decode_tok(tok[5], &buf, 0);
			options_t opt;
			fstree_t fs;
			sqfs_istream_t *strm;
			char *ebuf = NULL;
			size_t elen = 0;
			FILE *emem, *saved_err = stderr;
			int rc;
			if (n < 0) { puts("bad-op"); continue; }
			memset(&opt, 0, sizeof(opt));
			memset(&fs, 0, sizeof(fs));
			if (!strcmp(tok[1], "1")) opt.dirscan_flags |= DIR_SCAN_KEEP_UID;
			if (!strcmp(tok[3], "1")) opt.dirscan_flags |= DIR_SCAN_KEEP_GID;
			opt.force_uid_value = (unsigned)strtoul(tok[2], NULL, 10);
			opt.force_gid_value = (unsigned)strtoul(tok[4], NULL, 10);
			/* small, varying window so that lines straddle refills of the stream buffer */
			if (!strcmp(tok[0], "parsef")) {
				/* through a real file: the 128 KiB buffer of lib/sqfs/src/io/istream.c; file name "memfile" in cwd */
				FILE *tf = fopen("memfile", "wb");
				if (!tf || fwrite(buf, 1, (size_t)n, tf) != (size_t)n || fclose(tf) != 0) abort();
				if (sqfs_istream_open_file(&strm, "memfile", 0) != 0) abort();
			} else {
				strm = istream_memory_create("memfile", 1 + (size_t)n % 61, buf, (size_t)n);
			}
			if (!strm) abort();
			rec = open_memstream(&rec_buf, &rec_len);
			emem = open_memstream(&ebuf, &elen);
			if (!rec || !emem) abort();
			rec_count = 0;
			stderr = emem;
			rc = fstree_from_file_stream(&fs, strm, &opt);
			stderr = saved_err;
			fclose(emem);
			fclose(rec);
			sqfs_drop(strm);
			printf("ents %zu%s st=%s\n", rec_count, rec_buf, rc == 0 ? "ok" : classify(ebuf, elen));
			free(rec_buf); rec_buf = NULL;
			free(ebuf);
			free(buf);
		} else if (!strcmp(tok[0], "desc") && nt >= 10) {
			/* desc which root kind perm uid gid devno target ncomps comps... */
			size_t nc = strtoul(tok[9], NULL, 10), i;
			sqfs_tree_node_t *root, *cur;
			int bad = 0;
			if (nt != 10 + nc) { puts("bad-op"); continue; }
			root = mk_node((const unsigned char *)"", 0);
			cur = root;
			for (i = 0; i < nc; ++i) {
				unsigned char *nm;
				long nl = hex_decode_tok(tok[10 + i], &nm, 1);
				sqfs_tree_node_t *c;
				if (nl < 0 || memchr(nm, 0, (size_t)nl)) { bad = 1; if (nl >= 0) free(nm); break; }
				c = mk_node(nm, (size_t)nl);
				free(nm);
				c->parent = cur;
				cur->children = c;
				cur = c;
			}
			/* every ancestor is a plain directory */
			for (sqfs_tree_node_t *it = root; it != cur && !bad; it = it->children) {
				if (it->inode == NULL) {
					char *dirspec[6] = { "dir", "493", "0", "0", "0", "-" };
					fill_node(it, dirspec);
				}
			}
			if (bad || fill_node(cur, tok + 3) != 0) { puts("bad-op"); free_tree(root); continue; }
			print_describe(cur, tok[2]);
			free_tree(root);
		} else if (!strcmp(tok[0], "dtree") && nt >= 4) {
			/* dtree which root n {depth kind perm uid gid devno target name}* */
			size_t cnt = strtoul(tok[3], NULL, 10), i;
			sqfs_tree_node_t **stack, **last, *root = NULL;
			int bad = 0;
			if (nt != 4 + 8 * cnt || cnt == 0) { puts("bad-op"); continue; }
			stack = calloc(cnt + 1, sizeof(*stack));
			last = calloc(cnt + 1, sizeof(*last));
			for (i = 0; i < cnt && !bad; ++i) {
				char **t = tok + 4 + 8 * i;
				size_t depth = strtoul(t[0], NULL, 10);
				unsigned char *nm;
				long nl = hex_decode_tok(t[7], &nm, 1);
				sqfs_tree_node_t *n;
				if (nl < 0 || memchr(nm, 0, (size_t)nl) || depth > cnt || (i == 0) != (depth == 0) ||
				    (depth > 0 && stack[depth - 1] == NULL)) { bad = 1; if (nl >= 0) free(nm); break; }
				n = mk_node(nm, (size_t)nl);
				free(nm);
				if (fill_node(n, t + 1) != 0) { bad = 1; free(n); break; }
				if (depth == 0) root = n;
				else {
					n->parent = stack[depth - 1];
					if (last[depth] != NULL && last[depth]->parent == n->parent) last[depth]->next = n;
					else stack[depth - 1]->children = n;
				}
				stack[depth] = n;
				last[depth] = n;
				for (size_t d = depth + 1; d <= cnt; ++d) { stack[d] = NULL; last[d] = NULL; }
			}
			if (bad) puts("bad-op"); else print_describe(root, tok[2]);
			if (root) free_tree(root);
			free(stack); free(last);
		} else puts("bad-op");
		fflush(stdout);
	}
	return 0;
}
