/* C16 harness, printer side: the real bin/rdsquashfs/src/describe.c, stdout captured into a memory stream. */
#include "bin/rdsquashfs/src/describe.c"

/* runs describe_tree(node, unpack_root) and returns everything it wrote to stdout; *rc = its return value */
char *c16_capture_describe(const sqfs_tree_node_t *node, const char *unpack_root, size_t *len, int *rc)
{
	char *buf = NULL;
	FILE *saved = stdout, *saved_err = stderr, *mem = open_memstream(&buf, len);
	char *ebuf = NULL;
	size_t elen = 0;
	FILE *emem = open_memstream(&ebuf, &elen);

	if (mem == NULL || emem == NULL)
		abort();
	stdout = mem;
	stderr = emem;
	*rc = describe_tree(node, unpack_root);
	fflush(mem);
	stdout = saved;
	stderr = saved_err;
	fclose(mem);
	fclose(emem);
	free(ebuf);
	return buf;
}
