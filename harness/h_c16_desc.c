/* C16 harness, printer side: the real bin/rdsquashfs/src/describe.c, stdout captured into a memory stream. */
#include "bin/rdsquashfs/src/describe.c"

/* which diagnostic describe_tree printed (the model's DErr) */
static const char *c16_desc_class(const char *err)
{
	if (strstr(err, "Encountered illegal file name")) return "insane";
	if (strstr(err, "Recovering file path of tree node")) return "path";
	if (strstr(err, "Error sanitizing file path")) return "canon";
	if (strstr(err, "line feed")) return "newline";
	return "unknown";
}

/* runs describe_tree(node, unpack_root) and returns everything it wrote to stdout; *rc = its return value,
 * *cls = class of the diagnostic on stderr (static string) */
char *c16_capture_describe(const sqfs_tree_node_t *node, const char *unpack_root, size_t *len, int *rc, const char **cls)
{
	char *buf = NULL;
	FILE *saved = stdout, *saved_err = stderr, *mem = open_memstream(&buf, len);
	char *ebuf = NULL;
	size_t elen = 0;
	FILE *emem = open_memstream(&ebuf, &elen);

	if (mem == NULL || emem == NULL)
		abort();
	stdout = mem;
	stderr = emem;
	*rc = describe_tree(node, unpack_root);
	fflush(mem);
	stdout = saved;
	stderr = saved_err;
	fclose(mem);
	fclose(emem);
	*cls = c16_desc_class(ebuf ? ebuf : "");
	free(ebuf);
	return buf;
}

/*
 * print_escaped() alone.  It returns void in /repo and int with fixes/C16-describe-newline.patch; the unselected
 * operand of __builtin_choose_expr is not evaluated and may have either type.
 */
char *c16_capture_escaped(const char *str, size_t *len, int *rc)
{
	char *buf = NULL;
	FILE *saved = stdout, *saved_err = stderr, *mem = open_memstream(&buf, len);
	char *ebuf = NULL;
	size_t elen = 0;
	FILE *emem = open_memstream(&ebuf, &elen);

	if (mem == NULL || emem == NULL)
		abort();
	stdout = mem;
	stderr = emem;
#ifdef C16_NO_PRINT_ESCAPED
	/* describe.c has no print_escaped(const char *) any more: the check reports the lost tie and goes on */
	(void)str;
	*rc = -2;
#else
	*rc = __builtin_choose_expr(__builtin_types_compatible_p(__typeof__(print_escaped(str)), void),
				    (print_escaped(str), 0), print_escaped(str));
#endif
	fflush(mem);
	stdout = saved;
	stderr = saved_err;
	fclose(mem);
	fclose(emem);
	free(ebuf);
	return buf;
}
