/* C12: the real lib/sqfs/src/io/ostream.c plus read access to the private state of a file ostream. */
#include "lib/sqfs/src/io/ostream.c"

void c12_peek_ostream(sqfs_ostream_t *s, unsigned long long *sparse, unsigned long long *size)
{
	file_ostream_t *f = (file_ostream_t *)s;
	*sparse = f->sparse_count; *size = f->size;
}
